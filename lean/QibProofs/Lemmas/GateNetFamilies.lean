import QibProofs.Lemmas.GateNetBasic
/-!
Helper lemmas for C06: denotation (`full`) of the networks without internal bonds - wrapped arrays, multiplexer,
phase-factor chain, state preparation - for an arbitrary data function `D` (no property statements).
-/
set_option linter.unusedSimpArgs false
set_option linter.unnecessarySeqFocus false
namespace Qib.GateNet
open Qib.TNet

theorem irange_nodup (k : Nat) : (irange k).Nodup := by
  unfold irange
  exact List.Nodup.map (fun a b h => by simpa using h) List.nodup_range

theorem irange'_nodup (s k : Nat) : (irange' s k).Nodup := by
  unfold irange'
  exact List.Nodup.map (fun a b h => by simpa using h) (List.nodup_range' (step := 1) (by decide))

@[simp] theorem length_irange (k : Nat) : (irange k).length = k := by simp [irange]
@[simp] theorem length_irange' (s k : Nat) : (irange' s k).length = k := by simp [irange']

theorem mem_irange {k : Nat} {b : Int} : b ∈ irange k ↔ 0 ≤ b ∧ b < k := by
  simp only [irange, List.mem_map, List.mem_range]
  constructor
  · rintro ⟨a, ha, rfl⟩; constructor <;> (simp only [Int.ofNat_eq_natCast]; omega)
  · rintro ⟨h0, h1⟩; exact ⟨b.toNat, by omega, by simp [Int.toNat_of_nonneg h0]⟩

theorem mem_irange' {s k : Nat} {b : Int} : b ∈ irange' s k ↔ (s : Int) ≤ b ∧ b < s + k := by
  simp only [irange', List.mem_map, List.mem_range'_1]
  constructor
  · rintro ⟨a, ha, rfl⟩; constructor <;> (simp only [Int.ofNat_eq_natCast]; omega)
  · rintro ⟨h0, h1⟩; exact ⟨b.toNat, by omega, by simp; omega⟩

theorem irange_add (a b : Nat) : irange (a + b) = irange a ++ irange' a b := by
  simp only [irange, irange', ← List.map_append]
  congr 1
  rw [List.range_eq_range', List.range_eq_range', ← List.range'_append_1]
  simp

/-- three disjoint blocks of labels -/
theorem nodup_three {a b c : List Int} (ha : a.Nodup) (hb : b.Nodup) (hc : c.Nodup)
    (hab : ∀ x ∈ a, x ∉ b) (hac : ∀ x ∈ a, x ∉ c) (hbc : ∀ x ∈ b, x ∉ c) : (a ++ b ++ c).Nodup := by
  rw [List.nodup_append, List.nodup_append]
  refine ⟨⟨ha, hb, fun x hx y hy e => hab x hx (e ▸ hy)⟩, hc, ?_⟩
  intro x hx y hy e
  rcases List.mem_append.mp hx with h | h
  · exact hac x h (e ▸ hy)
  · exact hbc x h (e ▸ hy)

section
variable {α : Type} [CommSemiring α]

/-! ### wrapped arrays -/

theorem wrap_virt (shape : List Nat) :
    dget (wrapNet shape).tensors (-1) = some ⟨-1, shape, irange shape.length, none⟩ := by
  simp [wrapNet, dget, List.lookup]

/-- the denotation of a wrapped array is the array -/
theorem wrap_full (shape : List Nat) (D : Option Int → List Nat → α) (idx : List Nat) (hlen : idx.length = shape.length) :
    full (wrapNet shape) D idx = D (some 0) idx := by
  have hp : pinsOK (irange shape.length) idx = true :=
    (pinsOK_iff _ _).mpr (exists_map_of_nodup _ _ (irange_nodup _) (by rw [length_irange, hlen]))
  rw [full_eval _ D idx _ (wrap_virt shape) hp]
  have hint : internalBids (wrapNet shape) ⟨-1, shape, irange shape.length, none⟩ = [] := by
    apply internalBids_nil
    intro b hb
    simpa [wrapNet, dkeys, irange] using hb
  rw [hint]
  simp only [sumOver_nil, realTensors, wrapNet]
  simp [prodL_cons, prodL_nil, map_pin _ _ _ hp]


/-! ### multiplexer -/

theorem mplx_virt (nc nt : Nat) :
    dget (multiplexedNet nc nt).tensors (-1) = some ⟨-1, rep2 (2 * (nc + nt)),
        irange' (2 * nt) nc ++ irange nt ++ (irange' (2 * nt) nc ++ irange' nt nt), none⟩ := by
  simp [multiplexedNet, dget, List.lookup]

theorem mplx_labels_nodup (nc nt : Nat) : (irange' (2 * nt) nc ++ irange nt ++ irange' nt nt).Nodup := by
  apply nodup_three (irange'_nodup _ _) (irange_nodup _) (irange'_nodup _ _)
  · intro x hx hx'; rw [mem_irange'] at hx; rw [mem_irange] at hx'; omega
  · intro x hx hx'; rw [mem_irange'] at hx hx'; omega
  · intro x hx hx'; rw [mem_irange] at hx; rw [mem_irange'] at hx'; omega

/-- multiplexer network: the control legs are shared between output and input (Kronecker delta), the value is
the entry of the stacked target tensor -/
theorem mplx_full (nc nt : Nat) (D : Option Int → List Nat → α) (oc ot ic it : List Nat)
    (h1 : oc.length = nc) (h2 : ot.length = nt) (h3 : ic.length = nc) (h4 : it.length = nt) :
    full (multiplexedNet nc nt) D (oc ++ ot ++ (ic ++ it)) = if oc = ic then D (some 0) (oc ++ (ot ++ it)) else 0 := by
  by_cases hc : oc = ic
  · subst hc
    rw [if_pos rfl]
    obtain ⟨τ, hτ⟩ := exists_map_of_nodup _ (oc ++ ot ++ it) (mplx_labels_nodup nc nt) (by simp [h1, h2, h4])
    simp only [List.map_append] at hτ
    obtain ⟨hτ12, hτ3⟩ := List.append_inj hτ (by simp [h1, h2])
    obtain ⟨hτ1, hτ2⟩ := List.append_inj hτ12 (by simp [h1])
    have hp : pinsOK (irange' (2 * nt) nc ++ irange nt ++ (irange' (2 * nt) nc ++ irange' nt nt)) (oc ++ ot ++ (oc ++ it)) = true :=
      (pinsOK_iff _ _).mpr ⟨τ, by simp only [List.map_append, hτ1, hτ2, hτ3]⟩
    rw [full_eval _ D _ _ (mplx_virt nc nt) hp]
    have hint : internalBids (multiplexedNet nc nt) ⟨-1, rep2 (2 * (nc + nt)),
        irange' (2 * nt) nc ++ irange nt ++ (irange' (2 * nt) nc ++ irange' nt nt), none⟩ = [] := by
      apply internalBids_nil
      intro b hb
      simp only [multiplexedNet, dkeys, List.map_append, List.map_map, List.mem_append, List.mem_map, List.mem_range,
        Function.comp] at hb
      simp only [List.mem_append, mem_irange, mem_irange']
      rcases hb with ⟨a, ha, rfl⟩ | ⟨a, ha, rfl⟩ <;> simp only [Int.ofNat_eq_natCast] <;> omega
    rw [hint]
    have hm := map_pin _ _ (fun _ => 0) hp
    generalize pin (irange' (2 * nt) nc ++ irange nt ++ (irange' (2 * nt) nc ++ irange' nt nt)) (oc ++ ot ++ (oc ++ it)) (fun _ => 0) = σ at hm
    simp only [List.map_append] at hm
    obtain ⟨hm12, hm34⟩ := List.append_inj hm (by simp [h1, h2])
    obtain ⟨hm1, hm2⟩ := List.append_inj hm12 (by simp [h1])
    obtain ⟨_, hm4⟩ := List.append_inj hm34 (by simp [h1])
    simp only [sumOver_nil, realTensors, multiplexedNet]
    have h2nt : irange (2 * nt) = irange nt ++ irange' nt nt := by rw [two_mul, irange_add]
    simp [prodL_cons, prodL_nil, h2nt, hm1, hm2, hm4]
  · rw [if_neg hc]
    apply full_eq_zero _ D _ _ (mplx_virt nc nt)
    by_contra hp
    rw [Bool.not_eq_false] at hp
    obtain ⟨τ, hτ⟩ := (pinsOK_iff _ _).mp hp
    simp only [List.map_append] at hτ
    obtain ⟨hτ12, hτ34⟩ := List.append_inj hτ (by simp [h1, h2])
    obtain ⟨hτ1, _⟩ := List.append_inj hτ12 (by simp [h1])
    obtain ⟨hτ3, _⟩ := List.append_inj hτ34 (by simp [h3])
    exact hc (hτ1.symm.trans hτ3)


/-! ### phase-factor chain -/

def evens (n : Nat) : List Int := (List.range n).map (fun i => 2 * Int.ofNat i)
def odds (n : Nat) : List Int := (List.range n).map (fun i => 2 * Int.ofNat i + 1)

theorem phase_virt (n : Nat) :
    dget (phaseNet n).tensors (-1) = some ⟨-1, rep2 (2 * n), evens n ++ odds n, none⟩ := by
  simp only [phaseNet, dget, evens, odds]
  rw [List.lookup_append]
  have : List.lookup (-1 : Int) ((List.range n).map (fun i =>
      (Int.ofNat i, (⟨Int.ofNat i, [2, 2], [2 * Int.ofNat i, 2 * Int.ofNat i + 1], some 0⟩ : STensor)))) = none := by
    rw [List.lookup_eq_none_iff]
    intro p hp
    simp only [List.mem_map, List.mem_range] at hp
    obtain ⟨a, _, rfl⟩ := hp
    simp only [Int.ofNat_eq_natCast, bne_iff_ne, ne_eq]
    omega
  rw [this]
  simp [List.lookup]

theorem phase_labels_nodup (n : Nat) : (evens n ++ odds n).Nodup := by
  rw [List.nodup_append]
  refine ⟨?_, ?_, ?_⟩
  · exact List.Nodup.map (fun a b h => by simp only [Int.ofNat_eq_natCast] at h; omega) List.nodup_range
  · exact List.Nodup.map (fun a b h => by simp only [Int.ofNat_eq_natCast] at h; omega) List.nodup_range
  · intro x hx y hy e
    simp only [evens, odds, List.mem_map, List.mem_range, Int.ofNat_eq_natCast] at hx hy
    obtain ⟨a, _, rfl⟩ := hx
    obtain ⟨b, _, rfl⟩ := hy
    omega

theorem phase_full (n : Nat) (D : Option Int → List Nat → α) (o i : List Nat) (h1 : o.length = n) (h2 : i.length = n) :
    full (phaseNet n) D (o ++ i) = prodL ((o.zip i).map (fun p => D (some 0) [p.1, p.2])) := by
  have hp : pinsOK (evens n ++ odds n) (o ++ i) = true :=
    (pinsOK_iff _ _).mpr (exists_map_of_nodup _ _ (phase_labels_nodup n) (by simp [evens, odds, h1, h2]))
  rw [full_eval _ D _ _ (phase_virt n) hp]
  have hint : internalBids (phaseNet n) ⟨-1, rep2 (2 * n), evens n ++ odds n, none⟩ = [] := by
    apply internalBids_nil
    intro b hb
    simp only [phaseNet, dkeys, List.map_flatMap, List.mem_flatMap, List.mem_range, List.map_cons, List.map_nil,
      List.mem_cons, List.not_mem_nil, or_false] at hb
    simp only [List.mem_append, evens, odds, List.mem_map, List.mem_range]
    obtain ⟨a, ha, rfl | rfl⟩ := hb
    · exact Or.inl ⟨a, ha, rfl⟩
    · exact Or.inr ⟨a, ha, rfl⟩
  rw [hint]
  have hm := map_pin _ _ (fun _ => 0) hp
  generalize pin (evens n ++ odds n) (o ++ i) (fun _ => 0) = σ at hm
  simp only [List.map_append] at hm
  obtain ⟨hm1, hm2⟩ := List.append_inj hm (by simp [evens, h1])
  simp only [sumOver_nil]
  have hreal : realTensors (phaseNet n) = (List.range n).map (fun k =>
      (⟨Int.ofNat k, [2, 2], [2 * Int.ofNat k, 2 * Int.ofNat k + 1], some 0⟩ : STensor)) := by
    simp only [realTensors, phaseNet, List.filter_append, List.map_append]
    have : ∀ l : List Nat, (l.map (fun i => (Int.ofNat i,
        (⟨Int.ofNat i, [2, 2], [2 * Int.ofNat i, 2 * Int.ofNat i + 1], some 0⟩ : STensor)))).filter (fun e => e.1 != -1) =
        l.map (fun i => (Int.ofNat i, (⟨Int.ofNat i, [2, 2], [2 * Int.ofNat i, 2 * Int.ofNat i + 1], some 0⟩ : STensor))) := by
      intro l
      apply List.filter_eq_self.mpr
      intro e he
      simp only [List.mem_map] at he
      obtain ⟨a, _, rfl⟩ := he
      simp only [Int.ofNat_eq_natCast, bne_iff_ne, ne_eq]; omega
    rw [this]
    simp [List.map_map, Function.comp]
  rw [hreal, ← hm1, ← hm2]
  simp only [evens, odds, List.map_map, List.zip_map', Function.comp, List.map_cons, List.map_nil]
  rfl

/-! ### state preparation -/

theorem prepare_virt (n : Nat) (tr : Bool) :
    dget (prepareNet n tr).tensors (-1) = some ⟨-1, rep2 (2 * n),
        if tr then irange' n n ++ irange n else irange (2 * n), none⟩ := by
  simp only [prepareNet, dget]
  rw [List.lookup_append, List.lookup_append]
  have : List.lookup (-1 : Int) ((List.range n).map (fun i =>
      (1 + Int.ofNat i, (⟨1 + Int.ofNat i, [2], [Int.ofNat n + Int.ofNat i], some 4⟩ : STensor)))) = none := by
    rw [List.lookup_eq_none_iff]
    intro p hp
    simp only [List.mem_map, List.mem_range] at hp
    obtain ⟨a, _, rfl⟩ := hp
    simp only [Int.ofNat_eq_natCast, bne_iff_ne, ne_eq]
    omega
  rw [this]
  simp [List.lookup]

theorem prepare_full (n : Nat) (tr : Bool) (D : Option Int → List Nat → α) (a b : List Nat)
    (h1 : a.length = n) (h2 : b.length = n) :
    full (prepareNet n tr) D (a ++ b) =
      if tr then D (some 0) b * prodL (a.map (fun v => D (some 4) [v]))
      else D (some 0) a * prodL (b.map (fun v => D (some 4) [v])) := by
  have hnd : (if tr then irange' n n ++ irange n else irange (2 * n)).Nodup := by
    cases tr
    · exact irange_nodup _
    · simp only [if_true]
      rw [List.nodup_append]
      refine ⟨irange'_nodup _ _, irange_nodup _, ?_⟩
      intro x hx y hy e
      rw [mem_irange'] at hx; rw [mem_irange] at hy; omega
  have hp : pinsOK (if tr then irange' n n ++ irange n else irange (2 * n)) (a ++ b) = true :=
    (pinsOK_iff _ _).mpr (exists_map_of_nodup _ _ hnd (by cases tr <;> simp [h1, h2] <;> omega))
  rw [full_eval _ D _ _ (prepare_virt n tr) hp]
  have hint : internalBids (prepareNet n tr) ⟨-1, rep2 (2 * n),
      if tr then irange' n n ++ irange n else irange (2 * n), none⟩ = [] := by
    apply internalBids_nil
    intro x hx
    simp only [prepareNet, dkeys, List.map_append, List.map_map, List.mem_append, List.mem_map, List.mem_range,
      Function.comp] at hx
    have : x ∈ irange (2 * n) := by
      rw [mem_irange]
      rcases hx with ⟨c, hc, rfl⟩ | ⟨c, hc, rfl⟩ <;> simp only [Int.ofNat_eq_natCast] <;> omega
    cases tr
    · exact this
    · simp only [if_true, List.mem_append]
      rw [two_mul, irange_add, List.mem_append] at this
      exact this.symm
  rw [hint]
  have hm := map_pin _ _ (fun _ => 0) hp
  generalize pin (if tr then irange' n n ++ irange n else irange (2 * n)) (a ++ b) (fun _ => 0) = σ at hm
  have hreal : realTensors (prepareNet n tr) = (⟨0, rep2 n, irange n, some 0⟩ : STensor) ::
      (List.range n).map (fun k => (⟨1 + Int.ofNat k, [2], [Int.ofNat n + Int.ofNat k], some 4⟩ : STensor)) := by
    simp only [realTensors, prepareNet, List.filter_append, List.map_append]
    have : ∀ l : List Nat, (l.map (fun i => (1 + Int.ofNat i,
        (⟨1 + Int.ofNat i, [2], [Int.ofNat n + Int.ofNat i], some 4⟩ : STensor)))).filter (fun e => e.1 != -1) =
        l.map (fun i => (1 + Int.ofNat i, (⟨1 + Int.ofNat i, [2], [Int.ofNat n + Int.ofNat i], some 4⟩ : STensor))) := by
      intro l
      apply List.filter_eq_self.mpr
      intro e he
      simp only [List.mem_map] at he
      obtain ⟨c, _, rfl⟩ := he
      simp only [Int.ofNat_eq_natCast, bne_iff_ne, ne_eq]; omega
    rw [this]
    simp [List.map_map, Function.comp]
  have hshift : (List.range n).map (fun k => σ (Int.ofNat n + Int.ofNat k)) = (irange' n n).map σ := by
    simp only [irange', List.range'_eq_map_range, List.map_map, Function.comp]
    apply List.map_congr_left
    intro k _
    simp
  simp only [sumOver_nil, hreal, List.map_cons, prodL_cons, List.map_map]
  have hk : (List.range n).map ((fun t : STensor => D t.dataref (t.bids.map σ)) ∘ fun k =>
        (⟨1 + Int.ofNat k, [2], [Int.ofNat n + Int.ofNat k], some 4⟩ : STensor)) =
      ((irange' n n).map σ).map (fun v => D (some 4) [v]) := by
    rw [← hshift, List.map_map]; rfl
  rw [hk]
  cases tr
  · simp only [Bool.false_eq_true, if_false] at hm ⊢
    rw [two_mul, irange_add, List.map_append] at hm
    obtain ⟨hm1, hm2⟩ := List.append_inj hm (by simp [h1])
    rw [hm1, hm2]
  · simp only [if_true] at hm ⊢
    rw [List.map_append] at hm
    obtain ⟨hm1, hm2⟩ := List.append_inj hm (by simp [h1])
    rw [hm1, hm2]


end
end Qib.GateNet
