import QibModel.Lattice
import Mathlib.Tactic.Ring
/-! Helper lemmas for C14: mixed-radix `ravel`/`unravel` (numpy C order), digits and digit replacement. -/
namespace Qib.Lattice

theorem unravel_length (shape : List Nat) (i : Nat) : (unravel shape i).length = shape.length := by
  induction shape generalizing i with
  | nil => rfl
  | cons n ns ih => simp [unravel, ih]

theorem sprod_tail_pos {n : Nat} {ns : List Nat} {i : Nat} (h : i < sprod (n :: ns)) : 0 < sprod ns := by
  simp only [sprod] at h
  rcases Nat.eq_zero_or_pos (sprod ns) with h0 | h0
  · rw [h0] at h; simp at h
  · exact h0

theorem validCoord_length {shape c : List Nat} (h : validCoord shape c = true) : c.length = shape.length := by
  induction shape generalizing c with
  | nil => cases c <;> simp_all [validCoord]
  | cons n ns ih =>
    cases c with
    | nil => simp [validCoord] at h
    | cons x xs =>
      simp only [validCoord, Bool.and_eq_true, decide_eq_true_eq] at h
      simp [ih h.2]

theorem validCoord_unravel (shape : List Nat) (i : Nat) (h : i < sprod shape) :
    validCoord shape (unravel shape i) = true := by
  induction shape generalizing i with
  | nil => rfl
  | cons n ns ih =>
    have hp := sprod_tail_pos h
    simp only [sprod] at h
    simp only [unravel, validCoord, Bool.and_eq_true, decide_eq_true_eq]
    exact ⟨(Nat.div_lt_iff_lt_mul hp).mpr h, ih _ (Nat.mod_lt _ hp)⟩

theorem ravel_unravel (shape : List Nat) (i : Nat) (h : i < sprod shape) :
    ravel shape (unravel shape i) = i := by
  induction shape generalizing i with
  | nil => simp only [sprod] at h; simp [ravel]; omega
  | cons n ns ih =>
    have hp := sprod_tail_pos h
    simp only [unravel, ravel]
    rw [ih _ (Nat.mod_lt _ hp)]
    exact Nat.div_add_mod' i (sprod ns)

theorem ravel_lt {shape c : List Nat} (h : validCoord shape c = true) : ravel shape c < sprod shape := by
  induction shape generalizing c with
  | nil => cases c <;> simp_all [validCoord, ravel, sprod]
  | cons n ns ih =>
    cases c with
    | nil => simp [validCoord] at h
    | cons x xs =>
      simp only [validCoord, Bool.and_eq_true, decide_eq_true_eq] at h
      have h1 := ih h.2
      simp only [ravel, sprod]
      have h2 : (x + 1) * sprod ns ≤ n * sprod ns := Nat.mul_le_mul_right _ h.1
      rw [Nat.succ_mul] at h2
      omega

theorem unravel_ravel {shape c : List Nat} (h : validCoord shape c = true) :
    unravel shape (ravel shape c) = c := by
  induction shape generalizing c with
  | nil => cases c <;> simp_all [validCoord, unravel]
  | cons n ns ih =>
    cases c with
    | nil => simp [validCoord] at h
    | cons x xs =>
      simp only [validCoord, Bool.and_eq_true, decide_eq_true_eq] at h
      have h1 := ravel_lt h.2
      have hp : 0 < sprod ns := by omega
      simp only [ravel, unravel]
      have e1 : (x * sprod ns + ravel ns xs) / sprod ns = x := by
        rw [Nat.mul_comm, Nat.mul_add_div hp, Nat.div_eq_of_lt h1]; rfl
      have e2 : (x * sprod ns + ravel ns xs) % sprod ns = ravel ns xs := by
        rw [Nat.mul_comm, Nat.mul_add_mod, Nat.mod_eq_of_lt h1]
      rw [e1, e2, ih h.2]

theorem unravel_injective {shape : List Nat} {i j : Nat} (hi : i < sprod shape) (hj : j < sprod shape)
    (h : unravel shape i = unravel shape j) : i = j := by
  rw [← ravel_unravel shape i hi, ← ravel_unravel shape j hj, h]

theorem ravel_injective {shape c c' : List Nat} (h : validCoord shape c = true) (h' : validCoord shape c' = true)
    (e : ravel shape c = ravel shape c') : c = c' := by
  rw [← unravel_ravel h, ← unravel_ravel h', e]

theorem unravel_two (n0 n1 i : Nat) : unravel [n0, n1] i = [i / n1, i % n1] := by
  simp [unravel, sprod]

/-! ### digits -/

/-- stride of axis `d` -/
def stride (shape : List Nat) (d : Nat) : Nat := sprod (shape.drop (d + 1))

theorem stride_zero (n : Nat) (ns : List Nat) : stride (n :: ns) 0 = sprod ns := rfl
theorem stride_succ (n : Nat) (ns : List Nat) (d : Nat) : stride (n :: ns) (d + 1) = stride ns d := rfl

/-- `prod shape = prod shape[:d] * (shape[d] * prod shape[d+1:])` -/
theorem sprod_split (shape : List Nat) (d : Nat) (hd : d < shape.length) :
    sprod shape = sprod (shape.take d) * (shape.getD d 1 * stride shape d) := by
  induction shape generalizing d with
  | nil => simp at hd
  | cons n ns ih =>
    cases d with
    | zero => simp [sprod, stride]
    | succ d =>
      simp only [List.length_cons, Nat.add_lt_add_iff_right] at hd
      simp only [List.take_succ_cons, sprod, List.getD_cons_succ, stride_succ]
      rw [ih d hd, Nat.mul_assoc]

/-- digit `d` of `i` is `(i / stride) % extent` -/
theorem unravel_getD (shape : List Nat) (i d : Nat) (h : i < sprod shape) (hd : d < shape.length) :
    (unravel shape i).getD d 0 = (i / stride shape d) % shape.getD d 1 := by
  induction shape generalizing i d with
  | nil => simp at hd
  | cons n ns ih =>
    have hp := sprod_tail_pos h
    cases d with
    | zero =>
      simp only [unravel, List.getD_cons_zero, stride_zero]
      simp only [sprod] at h
      exact (Nat.mod_eq_of_lt ((Nat.div_lt_iff_lt_mul hp).mpr h)).symm
    | succ d =>
      simp only [List.length_cons, Nat.add_lt_add_iff_right] at hd
      simp only [unravel, List.getD_cons_succ, stride_succ]
      rw [ih _ _ (Nat.mod_lt _ hp) hd]
      -- (i % P / B) % n = (i / B) % n  because  P = A * (n * B)
      have hs := sprod_split ns d hd
      generalize sprod ns = P at *
      generalize stride ns d = B at *
      generalize ns.getD d 1 = m at *
      generalize sprod (ns.take d) = A at *
      subst hs
      have hB : 0 < B := by
        rcases Nat.eq_zero_or_pos B with h0 | h0
        · subst h0; simp at hp
        · exact h0
      have hm : 0 < m := by
        rcases Nat.eq_zero_or_pos m with h0 | h0
        · subst h0; simp at hp
        · exact h0
      -- i = (A*(m*B)) * q + r
      have hi := Nat.div_add_mod i (A * (m * B))
      have key : i / B = (i / (A * (m * B))) * A * m + (i % (A * (m * B))) / B := by
        have : i = B * ((i / (A * (m * B))) * A * m) + i % (A * (m * B)) := by
          calc i = A * (m * B) * (i / (A * (m * B))) + i % (A * (m * B)) := hi.symm
            _ = _ := by ring
        conv => lhs; rw [this]
        rw [Nat.mul_add_div hB]
      rw [key, Nat.add_comm, Nat.add_mul_mod_self_right]

theorem ravel_set (shape c : List Nat) (d k : Nat) (hl : c.length = shape.length) (hd : d < shape.length) :
    ravel shape (c.set d k) + c.getD d 0 * stride shape d = ravel shape c + k * stride shape d := by
  induction shape generalizing c d with
  | nil => simp at hd
  | cons n ns ih =>
    cases c with
    | nil => simp at hl
    | cons x xs =>
      simp only [List.length_cons, Nat.add_right_cancel_iff] at hl
      cases d with
      | zero => simp only [List.set_cons_zero, ravel, List.getD_cons_zero, stride_zero]; omega
      | succ d =>
        simp only [List.length_cons, Nat.add_lt_add_iff_right] at hd
        simp only [List.set_cons_succ, ravel, List.getD_cons_succ, stride_succ]
        have := ih xs d hl hd
        omega

theorem validCoord_set {shape c : List Nat} {d k : Nat} (h : validCoord shape c = true)
    (hk : k < shape.getD d 1) (hd : d < shape.length) : validCoord shape (c.set d k) = true := by
  induction shape generalizing c d with
  | nil => simp at hd
  | cons n ns ih =>
    cases c with
    | nil => simp [validCoord] at h
    | cons x xs =>
      simp only [validCoord, Bool.and_eq_true, decide_eq_true_eq] at h
      cases d with
      | zero =>
        simp only [List.getD_cons_zero] at hk
        simp [validCoord, hk, h.2]
      | succ d =>
        simp only [List.length_cons, Nat.add_lt_add_iff_right] at hd
        simp only [List.getD_cons_succ] at hk
        simp [validCoord, h.1, ih h.2 hk hd]

theorem validCoord_getD_lt {shape c : List Nat} {d : Nat} (h : validCoord shape c = true) (hd : d < shape.length) :
    c.getD d 0 < shape.getD d 1 := by
  induction shape generalizing c d with
  | nil => simp at hd
  | cons n ns ih =>
    cases c with
    | nil => simp [validCoord] at h
    | cons x xs =>
      simp only [validCoord, Bool.and_eq_true, decide_eq_true_eq] at h
      cases d with
      | zero => simpa using h.1
      | succ d =>
        simp only [List.length_cons, Nat.add_lt_add_iff_right] at hd
        simpa using ih h.2 hd

end Qib.Lattice
