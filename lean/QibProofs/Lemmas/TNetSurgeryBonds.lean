import QibProofs.Lemmas.TNetSurgeryMergeFull
/-!
Helper lemmas for C08, part 13: the exact number of bonds after `merge` (no property statements).
-/
namespace Qib.TNet

/-- Number of effective fusions of a list of label pairs processed in order: a pair of equal labels fuses nothing;
otherwise the second label is replaced by the first in all later pairs and one fusion is counted. This is the rank of
the graph whose edges are the pairs (= touched labels − connected components). -/
def fuseCount {γ : Type} [DecidableEq γ] : List (γ × γ) → Nat
  | [] => 0
  | (x, y) :: rest =>
    if x = y then fuseCount rest
    else 1 + fuseCount (rest.map (fun p => (if p.1 = y then x else p.1, if p.2 = y then x else p.2)))
termination_by l => l.length
decreasing_by all_goals simp

theorem fuseCount_nil {γ : Type} [DecidableEq γ] : fuseCount ([] : List (γ × γ)) = 0 := by
  unfold fuseCount; rfl

theorem fuseCount_cons {γ : Type} [DecidableEq γ] (x y : γ) (rest : List (γ × γ)) :
    fuseCount ((x, y) :: rest) = if x = y then fuseCount rest
      else 1 + fuseCount (rest.map (fun p => (if p.1 = y then x else p.1, if p.2 = y then x else p.2))) := by
  rw [fuseCount]

/-- the labels occurring in a list of pairs -/
def labelsOf {γ : Type} (l : List (γ × γ)) : List γ := l.flatMap (fun p => [p.1, p.2])

/-- `fuseCount` is invariant under a relabelling that is injective on the labels that occur -/
theorem fuseCount_map {γ δ : Type} [DecidableEq γ] [DecidableEq δ] (f : γ → δ) (l : List (γ × γ))
    (hf : ∀ u ∈ labelsOf l, ∀ v ∈ labelsOf l, f u = f v → u = v) :
    fuseCount (l.map (fun p => (f p.1, f p.2))) = fuseCount l := by
  induction hn : l.length using Nat.strong_induction_on generalizing l with
  | _ n ih =>
    cases l with
    | nil => simp [fuseCount_nil]
    | cons p rest =>
      obtain ⟨x, y⟩ := p
      have hx : x ∈ labelsOf ((x, y) :: rest) := by simp [labelsOf]
      have hy : y ∈ labelsOf ((x, y) :: rest) := by simp [labelsOf]
      have hsub : ∀ u ∈ labelsOf rest, u ∈ labelsOf ((x, y) :: rest) := by
        intro u hu; simp only [labelsOf, List.flatMap_cons, List.mem_append]; exact Or.inr hu
      simp only [List.map_cons]
      rw [fuseCount_cons, fuseCount_cons]
      by_cases hxy : x = y
      · subst hxy
        simp only [if_true]
        exact ih rest.length (by subst hn; simp) rest (fun u hu v hv => hf u (hsub u hu) v (hsub v hv)) rfl
      · have hfxy : ¬ f x = f y := fun e => hxy (hf x hx y hy e)
        simp only [hxy, hfxy, if_false]
        congr 1
        set rest' := rest.map (fun p => (if p.1 = y then x else p.1, if p.2 = y then x else p.2)) with hrest'
        have hlab : ∀ u ∈ labelsOf rest', u ∈ labelsOf ((x, y) :: rest) := by
          intro u hu
          simp only [labelsOf, hrest', List.mem_flatMap, List.mem_map] at hu
          obtain ⟨p', ⟨p, hp, rfl⟩, hu⟩ := hu
          simp only [List.mem_cons, List.not_mem_nil, or_false] at hu
          have hp1 : p.1 ∈ labelsOf rest := by
            simp only [labelsOf, List.mem_flatMap]; exact ⟨p, hp, by simp⟩
          have hp2 : p.2 ∈ labelsOf rest := by
            simp only [labelsOf, List.mem_flatMap]; exact ⟨p, hp, by simp⟩
          rcases hu with rfl | rfl
          · split
            · exact hx
            · exact hsub _ hp1
          · split
            · exact hx
            · exact hsub _ hp2
        have := ih rest'.length (by subst hn; simp [hrest']) rest'
          (fun u hu v hv => hf u (hlab u hu) v (hlab v hv)) rfl
        rw [← this]
        congr 1
        simp only [hrest', List.map_map]
        apply List.map_congr_left
        intro p hp
        have hp1 : p.1 ∈ labelsOf ((x, y) :: rest) := hsub _ (by
          simp only [labelsOf, List.mem_flatMap]; exact ⟨p, hp, by simp⟩)
        have hp2 : p.2 ∈ labelsOf ((x, y) :: rest) := hsub _ (by
          simp only [labelsOf, List.mem_flatMap]; exact ⟨p, hp, by simp⟩)
        simp only [Function.comp]
        have e1 : (f p.1 = f y) ↔ p.1 = y := ⟨fun e => hf _ hp1 _ hy e, fun e => by rw [e]⟩
        have e2 : (f p.2 = f y) ↔ p.2 = y := ⟨fun e => hf _ hp2 _ hy e, fun e => by rw [e]⟩
        by_cases c1 : p.1 = y <;> by_cases c2 : p.2 = y <;> simp [c1, c2, e1, e2]

/-! ### the join loop removes exactly `fuseCount` bonds -/

/-- the pairs of bond ids on the joined axes -/
def pairsAt (bids : List Int) (orig : Nat) (joinN : List (Nat × Nat)) : List (Int × Int) :=
  joinN.map (fun ja => (bids[ja.1]?.getD 0, bids[orig + ja.2]?.getD 0))

theorem join_fold_bonds {S : List Nat} {orig : Nat} {joinN : List (Nat × Nat)} {st st' : Net × List Nat}
    (h : JInv S st.1) (hdim : ∀ ja ∈ joinN, S[ja.1]? = S[orig + ja.2]?)
    (hr : ∀ ja ∈ joinN, ja.1 < S.length ∧ orig + ja.2 < S.length)
    (hf : joinN.foldlM (joinStep orig) st = .ok st') {toa : STensor} (hv : dget st.1.tensors (-1) = some toa) :
    st'.1.bonds.length + fuseCount (pairsAt toa.bids orig joinN) = st.1.bonds.length := by
  induction joinN generalizing st toa with
  | nil =>
    have := foldlM_nil_ok _ _ _ hf
    subst this
    simp [pairsAt, fuseCount_nil]
  | cons ja js ih =>
    obtain ⟨s1, hs, hrest⟩ := foldlM_cons_ok _ _ _ _ _ hf
    have h1 := joinStep_inv h (hdim ja List.mem_cons_self) hs
    obtain ⟨toa0, b1, b2, hv0, hb1, hb2, hm, _⟩ := joinStep_ok hs
    rw [hv] at hv0; cases hv0
    obtain ⟨hw, v, hv', hS⟩ := h
    rw [hv] at hv'; cases hv'
    have hlen : toa.bids.length = S.length := by rw [← hS]; exact (hw.tshape _ (mem_of_dget_eq_some _ hv)).symm
    have hdim' := fun x hx => hdim x (List.mem_cons_of_mem _ hx)
    have hr' := fun x hx => hr x (List.mem_cons_of_mem _ hx)
    simp only [pairsAt, List.map_cons]
    rw [hb1, hb2]
    simp only [Option.getD_some]
    rw [fuseCount_cons]
    by_cases hb : b1 = b2
    · subst hb
      rw [mergeBonds_eq] at hm
      simp only [beq_self_eq_true, if_true] at hm
      have hs1 : s1.1 = st.1 := (Except.ok.inj hm).symm
      simp only [if_true]
      have := ih h1 hdim' hr' hrest (toa := toa) (by rw [hs1]; exact hv)
      rw [hs1] at this
      exact this
    · simp only [hb, if_false]
      obtain ⟨B1, B2, _, hB2, heq⟩ := mergeBonds_spec hw.toWF0 hb hm
      have hv1 : dget s1.1.tensors (-1) = some { toa with bids := toa.bids.map (rep b2 b1) } := by
        rw [heq]; show dget (relTensors _ _) (-1) = _
        rw [dget_relTensors, hv]; rfl
      have := ih h1 hdim' hr' hrest hv1
      have hl : s1.1.bonds.length + 1 = st.1.bonds.length := by
        rw [heq]
        have := length_dpop_of_nodup _ hw.bnodup (mem_dkeys_of_mem (mem_of_dget_eq_some _ hB2))
        simp only at this
        simp only [dmodify, List.length_map]
        exact this
      have hp : pairsAt (toa.bids.map (rep b2 b1)) orig js =
          (js.map (fun ja => (toa.bids[ja.1]?.getD 0, toa.bids[orig + ja.2]?.getD 0))).map
            (fun p => (if p.1 = b2 then b1 else p.1, if p.2 = b2 then b1 else p.2)) := by
        simp only [pairsAt, List.map_map]
        apply List.map_congr_left
        intro x hx
        obtain ⟨r1, r2⟩ := hr' x hx
        have i1 : x.1 < toa.bids.length := by omega
        have i2 : orig + x.2 < toa.bids.length := by omega
        simp only [Function.comp, List.getElem?_map, List.getElem?_eq_getElem i1, List.getElem?_eq_getElem i2,
          Option.map_some, Option.getD_some, rep]
        simp only [beq_iff_eq]
      simp only at this
      rw [hp] at this
      omega

/-! ### the open legs of the renamed copy are an injective relabelling of the original ones -/

theorem merge_track_bids {a b : Net} {tor bor : List Int} (ha : WF a) (hb : WF b)
    (htor : tor.Perm (sharedTids a b))
    {o1 o2 : Net} {tmpOpen n1 n2 : Int} {vb : STensor} (hvb : dget b.tensors (-1) = some vb)
    (hf1 : tor.foldlM renTStep (b, -1, maxKey (dkeys a.tensors ++ dkeys b.tensors) + 1) = .ok (o1, tmpOpen, n1))
    (hf2 : bor.foldlM renBStep (o1, maxKey (dkeys a.bonds ++ dkeys o1.bonds) + 1) = .ok (o2, n2)) :
    ∃ T β, dget o2.tensors tmpOpen = some T ∧ T.bids = vb.bids.map β ∧
      ∀ x ∈ vb.bids, ∀ y ∈ vb.bids, β x = β y → x = y := by
  obtain ⟨w1, _⟩ := renT_fold (st := (b, -1, _)) hb.toWF0 hf1
  simp only at w1
  have hmaxT : ∀ k ∈ dkeys a.tensors ++ dkeys b.tensors, k ≤ maxKey (dkeys a.tensors ++ dkeys b.tensors) :=
    fun k hk => le_maxKey hk
  have hN0 : (0 : Int) ≤ maxKey (dkeys a.tensors ++ dkeys b.tensors) + 1 := by
    have := hmaxT (-1) (List.mem_append_left _ ha.virt); omega
  have htrack := renT_fold_track (fun net vid => ∃ T, dget net.tensors vid = some T ∧ T.bids = vb.bids)
    (by
      intro net net' cur new vid hw hok hvid ⟨T, hT, hS⟩
      obtain ⟨Tc, hTc, hnew, rfl⟩ := renameTensor_spec hw hok
      by_cases hv : vid = cur
      · subst hv
        rw [hT] at hTc; cases hTc
        refine ⟨{ T with tid := new }, ?_, hS⟩
        rw [rep_self, dget_append_right _ _ (by rw [dkeys_dpop]; exact fun h => hnew (List.mem_filter.mp h).1)]
        simp [dget, List.lookup]
      · refine ⟨T, ?_, hS⟩
        rw [rep_of_ne hv]
        apply dget_append_left
        rw [dget_dpop_ne _ hv]; exact hT)
    (st := (b, -1, _)) (N0 := maxKey (dkeys a.tensors ++ dkeys b.tensors) + 1) hN0
    (by
      intro t ht
      have := hmaxT t (List.mem_append_left _ (mem_sharedTids.mp (htor.mem_iff.mp ht)).1); omega)
    (le_refl _)
    (by intro k hk; have := hmaxT k (List.mem_append_right _ hk); simp only; omega)
    hb.virt (Or.inl rfl) hb.toWF0 ⟨vb, hvb, rfl⟩ hf1
  simp only at htrack
  obtain ⟨⟨T1, hT1, hb1⟩, _⟩ := htrack
  have htrack2 := renB_fold_track
    (fun net => ∃ T β, dget net.tensors tmpOpen = some T ∧ T.bids = vb.bids.map β ∧
      (∀ x ∈ vb.bids, ∀ y ∈ vb.bids, β x = β y → x = y) ∧ WF0 net)
    (by
      intro net net' cur new hw hok ⟨T, β, hT, hbids, hinj, _⟩
      have hw' := renameBond_wf0 hw hok
      obtain ⟨B, _, hnew, rfl⟩ := renameBond_spec hw hok
      refine ⟨{ T with bids := T.bids.map (rep cur new) }, rep cur new ∘ β, ?_, ?_, ?_, hw'⟩
      · show dget (relTensors _ _) _ = _
        rw [dget_relTensors, hT]; rfl
      · simp only [hbids, List.map_map]
      · intro x hx y hy he
        have hmT := mem_of_dget_eq_some _ hT
        have hkx : β x ∈ dkeys net.bonds := hw.mem_bond_keys hmT (by rw [hbids]; exact List.mem_map_of_mem hx)
        have hky : β y ∈ dkeys net.bonds := hw.mem_bond_keys hmT (by rw [hbids]; exact List.mem_map_of_mem hy)
        exact hinj x hx y hy (rep_inj_on (fun e => hnew (by rw [← e]; exact hkx)) (fun e => hnew (by rw [← e]; exact hky)) he))
    (st := (o1, _)) w1 ⟨T1, id, hT1, by simp [hb1], fun x _ y _ e => e, w1⟩ hf2
  obtain ⟨T, β, h1, h2, h3, _⟩ := htrack2
  exact ⟨T, β, h1, h2, h3⟩

/-! ### the exact number of bonds after `merge` -/

/-- the bond ids on the joined axes, tagged by operand (the two networks may use the same ids) -/
def taggedPairs (va vb : STensor) (j : List (Int × Int)) : List (Sum Int Int × Sum Int Int) :=
  j.map (fun ja => (Sum.inl (va.bids[ja.1.toNat]?.getD 0), Sum.inr (vb.bids[ja.2.toNat]?.getD 0)))

theorem merge_numBonds {a b net' : Net} {j : List (Int × Int)} {tor bor : List Int} (ha : WF a) (hb : WF b)
    (htor : tor.Perm (sharedTids a b)) (hbor : bor.Perm (sharedBids a b))
    (hdim : ∀ va vb, dget a.tensors (-1) = some va → dget b.tensors (-1) = some vb →
      ∀ ja ∈ j, va.shape[ja.1.toNat]? = vb.shape[ja.2.toNat]?)
    (h : merge a b j tor bor = .ok net') {va vb : STensor} (hva : dget a.tensors (-1) = some va)
    (hvb : dget b.tensors (-1) = some vb) :
    net'.bonds.length + fuseCount (taggedPairs va vb j) = a.bonds.length + b.bonds.length := by
  obtain ⟨orig, nb, o1, tmpOpen, n1, o2, n2, m1, toa1, m2, axesMap, m3, toa3, horig, hnb, hrange, hf1, hf2, hm1,
    htoa1, hf3, hf4, htoa3, _, hnet⟩ := merge_ok_inv h
  have pre := merge_prejoin ha hb htor hbor hf1 hf2 hm1 htoa1
  obtain ⟨w2, disjT, disjB, tmpne, vb2, hvb2, hm1'⟩ := merge_predata ha hb htor hbor hf1 hf2 hm1
  obtain ⟨T, β, hT, hTb, hinj⟩ := merge_track_bids ha hb htor hvb hf1 hf2
  rw [hvb2] at hT; cases hT
  have horig' : orig = va.shape.length := by
    rw [numOpenAxes_eq hva] at horig; exact (Except.ok.inj horig).symm
  subst horig'
  have hrange' : ∀ ja ∈ j, 0 ≤ ja.1 ∧ ja.1 < va.shape.length ∧ 0 ≤ ja.2 ∧ ja.2 < vb.shape.length := by
    intro ja hja
    have hne : j ≠ [] := List.ne_nil_of_mem hja
    have := hnb hne
    rw [numOpenAxes_eq hvb] at this
    have hnb' : nb = vb.shape.length := (Except.ok.inj this).symm
    have := hrange ja hja
    rw [hnb'] at this; exact this
  have hS := pre.shape va vb hva hvb
  have hdimS : ∀ ja ∈ joinNat j, toa1.shape[ja.1]? = toa1.shape[va.shape.length + ja.2]? := by
    intro ja hja
    obtain ⟨jz, hjz, rfl⟩ := List.mem_map.mp hja
    obtain ⟨h1, h2, h3, h4⟩ := hrange' jz hjz
    have hp : jz.1.toNat < va.shape.length := by omega
    rw [hS, List.getElem?_append_left hp, List.getElem?_append_right (by omega)]
    simp only [Nat.add_sub_cancel_left]
    exact hdim va vb hva hvb jz hjz
  have hj1 : JInv toa1.shape m1 := ⟨pre.wf, toa1, pre.virt, rfl⟩
  have hrS : ∀ ja ∈ joinNat j, ja.1 < toa1.shape.length ∧ va.shape.length + ja.2 < toa1.shape.length := by
    intro ja hja
    obtain ⟨jz, hjz, rfl⟩ := List.mem_map.mp hja
    obtain ⟨h1, h2, h3, h4⟩ := hrange' jz hjz
    rw [hS, List.length_append]
    simp only
    omega
  have hcount := join_fold_bonds (st := (m1, _)) hj1 hdimS hrS hf3 pre.virt
  simp only at hcount
  obtain ⟨⟨wf2, toa2, hv2, _⟩, _, _⟩ := join_fold_inv (st := (m1, _)) hj1 hdimS hf3
  simp only at wf2 hv2
  obtain ⟨_, _, hb3, _⟩ := del_fold wf2.bnodup hv2 wf2.blen hf4
  have hlen' : net'.bonds.length = m2.bonds.length := by
    rw [hnet]; simp only; rw [hb3, List.length_map]
  -- the open legs right before the joins
  have wu := union_wf0 ha.toWF0 w2 disjT disjB
  obtain ⟨T1, T2, hT1, hT2, heq⟩ := mergeTensors_spec wu tmpne hm1'
  have hmvb := mem_of_dget_eq_some _ hvb2
  have htmpA : tmpOpen ∉ dkeys a.tensors := disjT _ (mem_dkeys_of_mem hmvb)
  have hT1' : T1 = va := by
    have := dget_append_left a.tensors o2.tensors hva
    simp only at hT1
    rw [this] at hT1; exact (Option.some.inj hT1).symm
  have hT2' : T2 = vb2 := by
    have := dget_append_right a.tensors o2.tensors htmpA
    simp only at hT2
    rw [this, hvb2] at hT2; exact (Option.some.inj hT2).symm
  have htoa : toa1.bids = va.bids ++ vb.bids.map β := by
    have hv1 : dget m1.tensors (-1) = some (catTensor va vb2) := by
      rw [heq]
      simp only
      rw [dget_dmodify, dget_dpop_ne _ tmpne, hT1, hT1', hT2']
      simp
    rw [htoa1] at hv1
    rw [Option.some.inj hv1]
    simp only [catTensor, hTb]
  have hsha : va.shape.length = va.bids.length := ha.tshape _ (mem_of_dget_eq_some _ hva)
  have hshb : vb.shape.length = vb.bids.length := hb.tshape _ (mem_of_dget_eq_some _ hvb)
  have hpairs : pairsAt toa1.bids va.shape.length (joinNat j) =
      (taggedPairs va vb j).map (fun p => (Sum.elim id β p.1, Sum.elim id β p.2)) := by
    simp only [pairsAt, joinNat, taggedPairs, List.map_map]
    apply List.map_congr_left
    intro ja hja
    obtain ⟨h1, h2, h3, h4⟩ := hrange' ja hja
    have i1 : ja.1.toNat < va.bids.length := by omega
    have i2 : ja.2.toNat < vb.bids.length := by omega
    simp only [Function.comp, Sum.elim_inl, Sum.elim_inr, id, htoa]
    rw [List.getElem?_append_left i1, List.getElem?_append_right (by omega)]
    have : va.shape.length + ja.2.toNat - va.bids.length = ja.2.toNat := by omega
    rw [this, List.getElem?_map, List.getElem?_eq_getElem i2]
    simp
  rw [hlen', ← pre.nbonds, ← hcount, hpairs]
  congr 1
  symm
  apply fuseCount_map
  -- injectivity on the labels that occur
  have hlab : ∀ u ∈ labelsOf (taggedPairs va vb j),
      (∃ x ∈ va.bids, u = Sum.inl x) ∨ (∃ y ∈ vb.bids, u = Sum.inr y) := by
    intro u hu
    simp only [labelsOf, taggedPairs, List.mem_flatMap, List.mem_map] at hu
    obtain ⟨p, ⟨ja, hja, rfl⟩, hu⟩ := hu
    obtain ⟨h1, h2, h3, h4⟩ := hrange' ja hja
    have i1 : ja.1.toNat < va.bids.length := by omega
    have i2 : ja.2.toNat < vb.bids.length := by omega
    simp only [List.mem_cons, List.not_mem_nil, or_false] at hu
    rcases hu with rfl | rfl
    · left; refine ⟨va.bids[ja.1.toNat], List.getElem_mem i1, ?_⟩
      simp [List.getElem?_eq_getElem i1]
    · right; refine ⟨vb.bids[ja.2.toNat], List.getElem_mem i2, ?_⟩
      simp [List.getElem?_eq_getElem i2]
  have hAkeys : ∀ x ∈ va.bids, x ∈ dkeys a.bonds :=
    fun x hx => ha.toWF0.mem_bond_keys (mem_of_dget_eq_some _ hva) hx
  have hBkeys : ∀ y ∈ vb.bids, β y ∈ dkeys o2.bonds := by
    intro y hy
    exact w2.mem_bond_keys hmvb (by rw [hTb]; exact List.mem_map_of_mem hy)
  intro u hu v hv he
  rcases hlab u hu with ⟨x, hx, rfl⟩ | ⟨y, hy, rfl⟩ <;> rcases hlab v hv with ⟨x', hx', rfl⟩ | ⟨y', hy', rfl⟩
  · simp only [Sum.elim_inl, id] at he; rw [he]
  · simp only [Sum.elim_inl, Sum.elim_inr, id] at he
    exact absurd (hAkeys x hx) (by rw [he]; exact disjB _ (hBkeys y' hy'))
  · simp only [Sum.elim_inl, Sum.elim_inr, id] at he
    exact absurd (hAkeys x' hx') (by rw [← he]; exact disjB _ (hBkeys y hy))
  · simp only [Sum.elim_inr] at he; rw [hinj y hy y' hy' he]

end Qib.TNet
