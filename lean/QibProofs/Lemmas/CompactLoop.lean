import QibProofs.Lemmas.CompactRel
import QibProofs.Lemmas.CompactScatter
/-!
C13 helper lemmas, part 6: the loop products around the faces.

* an edge operator anticommutes with another one iff it anticommutes with exactly one of the two vertex operators of the
  other's endpoints (`shareOne_eq_xor`), every vertex lies on 0 or 2 edges of a face (`corner_count`): hence the loop
  product commutes with every vertex operator and every edge operator, and the loop products commute with each other;
* parity of the phase along the product: the loop product is Hermitian, hence an involution;
* on a face carrying an auxiliary qubit the four edge strings live on five distinct qubits and their product is the
  identity string (scattering lemma + evaluation of the local product).
-/
set_option linter.unusedSimpArgs false
namespace Qib.Compact
open Qib.Pauli Qib.Lattice

/-- the face with upper-left corner `(x, y)` lies in the rectangle -/
def FaceIn (n0 n1 x y : Nat) : Prop := x + 1 < n0 ∧ y + 1 < n1

instance (n0 n1 x y : Nat) : Decidable (FaceIn n0 n1 x y) := by unfold FaceIn; infer_instance

theorem loop_edges_ok {n0 n1 x y : Nat} (h : FaceIn n0 n1 x y) :
    EdgeOk n0 n1 x y x (y + 1) ∧ EdgeOk n0 n1 x (y + 1) (x + 1) (y + 1) ∧
    EdgeOk n0 n1 (x + 1) (y + 1) (x + 1) y ∧ EdgeOk n0 n1 (x + 1) y x y := by
  obtain ⟨h1, h2⟩ := h
  unfold EdgeOk NN
  refine ⟨⟨?_, ?_, ?_, ?_, ?_⟩, ⟨?_, ?_, ?_, ?_, ?_⟩, ⟨?_, ?_, ?_, ?_, ?_⟩, ⟨?_, ?_, ?_, ?_, ?_⟩⟩ <;> omega

/-! ### lengths and phases of the edge strings -/

theorem bodyOf_hasLen (n0 n1 ix iy jx jy : Nat) : (bodyOf n0 n1 ix iy jx jy).HasLen (ofcNsites n0 n1) := by
  unfold bodyOf hBody vBody; split <;> exact xyStr_hasLen _ _ _ _ _

theorem bodyOf_q (n0 n1 ix iy jx jy : Nat) : (bodyOf n0 n1 ix iy jx jy).q = 0 := by
  unfold bodyOf hBody vBody; split <;> exact xyStr_q _ _ _ _ _

theorem edgeStr_hasLen {n0 n1 ix iy jx jy : Nat} (h : EdgeOk n0 n1 ix iy jx jy) :
    (edgeStr n0 n1 ix iy jx jy).HasLen (ofcNsites n0 n1) := by
  rcases edgeStr_body n0 n1 ix iy jx jy h with e | e <;> rw [e]
  · exact bodyOf_hasLen _ _ _ _ _ _
  · exact neg_hasLen _ _ (bodyOf_hasLen _ _ _ _ _ _)

theorem edgeStr_q_even {n0 n1 ix iy jx jy : Nat} (h : EdgeOk n0 n1 ix iy jx jy) :
    (edgeStr n0 n1 ix iy jx jy).q.val % 2 = 0 := by
  rcases edgeStr_body n0 n1 ix iy jx jy h with e | e <;> rw [e]
  · rw [bodyOf_q]; rfl
  · simp only [neg, bodyOf_q]; rfl

theorem vertexStr_hasLen (n0 n1 x y : Nat) : (vertexStr n0 n1 x y).HasLen (ofcNsites n0 n1) :=
  setL_hasLen _ _ _ _ _ (identity_hasLen _)

/-! ### the loop product against other strings -/

theorem loopStr_hasLen {n0 n1 x y : Nat} (h : FaceIn n0 n1 x y) : (loopStr n0 n1 x y).HasLen (ofcNsites n0 n1) := by
  obtain ⟨e0, e1, e2, e3⟩ := loop_edges_ok h
  unfold loopStr
  exact mul_hasLen _ _ _ (mul_hasLen _ _ _ (mul_hasLen _ _ _ (edgeStr_hasLen e0) (edgeStr_hasLen e1)) (edgeStr_hasLen e2))
    (edgeStr_hasLen e3)

theorem anti_loop {n0 n1 x y : Nat} (h : FaceIn n0 n1 x y) (R : PS) :
    anti (loopStr n0 n1 x y) R =
      xor (xor (xor (anti (edgeStr n0 n1 x y x (y + 1)) R) (anti (edgeStr n0 n1 x (y + 1) (x + 1) (y + 1)) R))
        (anti (edgeStr n0 n1 (x + 1) (y + 1) (x + 1) y) R)) (anti (edgeStr n0 n1 (x + 1) y x y) R) := by
  obtain ⟨e0, e1, e2, e3⟩ := loop_edges_ok h
  have l0 := edgeStr_hasLen e0
  have l1 := edgeStr_hasLen e1
  have l2 := edgeStr_hasLen e2
  have l3 := edgeStr_hasLen e3
  have l01 := mul_hasLen _ _ _ l0 l1
  have l012 := mul_hasLen _ _ _ l01 l2
  unfold loopStr
  rw [anti_mul_left _ _ _ (by rw [l012.1, l3.1]) (by rw [l012.2, l3.2]),
    anti_mul_left _ _ _ (by rw [l01.1, l2.1]) (by rw [l01.2, l2.2]),
    anti_mul_left _ _ _ (by rw [l0.1, l1.1]) (by rw [l0.2, l1.2])]

/-- vertex `(a, b)` is an endpoint of the edge -/
def InE (a b ix iy jx jy : Nat) : Prop := (ix = a ∧ iy = b) ∨ (jx = a ∧ jy = b)

instance (a b ix iy jx jy : Nat) : Decidable (InE a b ix iy jx jy) := by unfold InE; infer_instance

theorem anti_edge_vertex' (n0 n1 ix iy jx jy a b : Nat) (h : EdgeOk n0 n1 ix iy jx jy) (ha : a < n0) (hb : b < n1) :
    anti (edgeStr n0 n1 ix iy jx jy) (vertexStr n0 n1 a b) = decide (InE a b ix iy jx jy) := by
  rw [anti_edge_vertex _ _ _ _ _ _ _ _ h ha hb]
  apply decide_eq_decide.mpr
  unfold InE; omega

theorem corner_prop (p p' r r' : Prop) [Decidable p] [Decidable p'] [Decidable r] [Decidable r']
    (hp : ¬ (p ∧ p')) (hr : ¬ (r ∧ r')) :
    xor (xor (xor (decide ((p ∧ r) ∨ (p ∧ r'))) (decide ((p ∧ r') ∨ (p' ∧ r'))))
      (decide ((p' ∧ r') ∨ (p' ∧ r)))) (decide ((p' ∧ r) ∨ (p ∧ r))) = false := by
  by_cases a1 : p <;> by_cases a2 : p' <;> by_cases a3 : r <;> by_cases a4 : r' <;> simp_all

/-- every vertex lies on none or two of the four edges of a face -/
theorem corner_count (x y a b : Nat) :
    xor (xor (xor (decide (InE a b x y x (y + 1))) (decide (InE a b x (y + 1) (x + 1) (y + 1))))
      (decide (InE a b (x + 1) (y + 1) (x + 1) y))) (decide (InE a b (x + 1) y x y)) = false :=
  corner_prop (x = a) (x + 1 = a) (y = b) (y + 1 = b) (by omega) (by omega)

theorem shareOne_prop (A1 A2 A3 A4 : Prop) [Decidable A1] [Decidable A2] [Decidable A3] [Decidable A4]
    (h12 : ¬ (A1 ∧ A2)) (h34 : ¬ (A3 ∧ A4)) (h13 : ¬ (A1 ∧ A3)) (h24 : ¬ (A2 ∧ A4)) :
    decide ((A1 ∨ A2 ∨ A3 ∨ A4) ∧ ¬ ((A1 ∧ A4) ∨ (A2 ∧ A3))) = xor (decide (A1 ∨ A3)) (decide (A2 ∨ A4)) := by
  by_cases a1 : A1 <;> by_cases a2 : A2 <;> by_cases a3 : A3 <;> by_cases a4 : A4 <;> simp_all

/-- sharing exactly one vertex = exactly one endpoint of the second edge lies on the first -/
theorem shareOne_eq_xor (ix iy jx jy kx ky lx ly : Nat) (hij : ¬ (ix = jx ∧ iy = jy)) (hkl : ¬ (kx = lx ∧ ky = ly)) :
    decide (ShareOne ix iy jx jy kx ky lx ly) = xor (decide (InE kx ky ix iy jx jy)) (decide (InE lx ly ix iy jx jy)) :=
  shareOne_prop _ _ _ _ (by omega) (by omega) (by omega) (by omega)

theorem xor4_swap (a0 a1 a2 a3 b0 b1 b2 b3 : Bool) :
    xor (xor (xor (xor a0 b0) (xor a1 b1)) (xor a2 b2)) (xor a3 b3) =
      xor (xor (xor (xor a0 a1) a2) a3) (xor (xor (xor b0 b1) b2) b3) := by
  cases a0 <;> cases a1 <;> cases a2 <;> cases a3 <;> cases b0 <;> cases b1 <;> cases b2 <;> cases b3 <;> rfl

theorem edgeOk_ne {n0 n1 ix iy jx jy : Nat} (h : EdgeOk n0 n1 ix iy jx jy) : ¬ (ix = jx ∧ iy = jy) := by
  obtain ⟨-, -, -, -, hnn⟩ := h; unfold NN at hnn; omega

/-- the loop product commutes with every vertex operator -/
theorem anti_loop_vertex {n0 n1 x y a b : Nat} (h : FaceIn n0 n1 x y) (ha : a < n0) (hb : b < n1) :
    anti (loopStr n0 n1 x y) (vertexStr n0 n1 a b) = false := by
  obtain ⟨e0, e1, e2, e3⟩ := loop_edges_ok h
  rw [anti_loop h, anti_edge_vertex' _ _ _ _ _ _ _ _ e0 ha hb, anti_edge_vertex' _ _ _ _ _ _ _ _ e1 ha hb,
    anti_edge_vertex' _ _ _ _ _ _ _ _ e2 ha hb, anti_edge_vertex' _ _ _ _ _ _ _ _ e3 ha hb]
  exact corner_count x y a b

/-- the loop product commutes with every edge operator -/
theorem anti_loop_edge {n0 n1 x y kx ky lx ly : Nat} (h : FaceIn n0 n1 x y) (hk : EdgeOk n0 n1 kx ky lx ly) :
    anti (loopStr n0 n1 x y) (edgeStr n0 n1 kx ky lx ly) = false := by
  obtain ⟨e0, e1, e2, e3⟩ := loop_edges_ok h
  have hkl := edgeOk_ne hk
  rw [anti_loop h, anti_edge_edge _ _ _ _ _ _ _ _ _ _ e0 hk, anti_edge_edge _ _ _ _ _ _ _ _ _ _ e1 hk,
    anti_edge_edge _ _ _ _ _ _ _ _ _ _ e2 hk, anti_edge_edge _ _ _ _ _ _ _ _ _ _ e3 hk,
    shareOne_eq_xor _ _ _ _ _ _ _ _ (edgeOk_ne e0) hkl, shareOne_eq_xor _ _ _ _ _ _ _ _ (edgeOk_ne e1) hkl,
    shareOne_eq_xor _ _ _ _ _ _ _ _ (edgeOk_ne e2) hkl, shareOne_eq_xor _ _ _ _ _ _ _ _ (edgeOk_ne e3) hkl,
    xor4_swap, corner_count, corner_count]
  rfl

/-- loop products commute with each other -/
theorem anti_loop_loop {n0 n1 x y x' y' : Nat} (h : FaceIn n0 n1 x y) (h' : FaceIn n0 n1 x' y') :
    anti (loopStr n0 n1 x y) (loopStr n0 n1 x' y') = false := by
  obtain ⟨e0, e1, e2, e3⟩ := loop_edges_ok h'
  rw [anti_symm, anti_loop h', anti_symm _ (loopStr n0 n1 x y), anti_symm _ (loopStr n0 n1 x y),
    anti_symm _ (loopStr n0 n1 x y), anti_symm _ (loopStr n0 n1 x y),
    anti_loop_edge h e0, anti_loop_edge h e1, anti_loop_edge h e2, anti_loop_edge h e3]
  rfl

/-- the loop product is Hermitian -/
theorem loopStr_q_even {n0 n1 x y : Nat} (h : FaceIn n0 n1 x y) : (loopStr n0 n1 x y).q.val % 2 = 0 := by
  obtain ⟨e0, e1, e2, e3⟩ := loop_edges_ok h
  have l0 := edgeStr_hasLen e0
  have l1 := edgeStr_hasLen e1
  have l2 := edgeStr_hasLen e2
  have l3 := edgeStr_hasLen e3
  have l01 := mul_hasLen _ _ _ l0 l1
  have l012 := mul_hasLen _ _ _ l01 l2
  have q0 := edgeStr_q_even e0
  have q1 := edgeStr_q_even e1
  have q2 := edgeStr_q_even e2
  have q3 := edgeStr_q_even e3
  have a01 : anti (edgeStr n0 n1 x y x (y + 1)) (edgeStr n0 n1 x (y + 1) (x + 1) (y + 1)) = true := by
    rw [anti_edge_edge _ _ _ _ _ _ _ _ _ _ e0 e1]; unfold ShareOne; simp
  have a02 : anti (edgeStr n0 n1 x y x (y + 1)) (edgeStr n0 n1 (x + 1) (y + 1) (x + 1) y) = false := by
    rw [anti_edge_edge _ _ _ _ _ _ _ _ _ _ e0 e2]; unfold ShareOne; simp
  have a12 : anti (edgeStr n0 n1 x (y + 1) (x + 1) (y + 1)) (edgeStr n0 n1 (x + 1) (y + 1) (x + 1) y) = true := by
    rw [anti_edge_edge _ _ _ _ _ _ _ _ _ _ e1 e2]; unfold ShareOne; simp
  have a03 : anti (edgeStr n0 n1 x y x (y + 1)) (edgeStr n0 n1 (x + 1) y x y) = true := by
    rw [anti_edge_edge _ _ _ _ _ _ _ _ _ _ e0 e3]; unfold ShareOne; simp
  have a13 : anti (edgeStr n0 n1 x (y + 1) (x + 1) (y + 1)) (edgeStr n0 n1 (x + 1) y x y) = false := by
    rw [anti_edge_edge _ _ _ _ _ _ _ _ _ _ e1 e3]; unfold ShareOne; simp
  have a23 : anti (edgeStr n0 n1 (x + 1) (y + 1) (x + 1) y) (edgeStr n0 n1 (x + 1) y x y) = true := by
    rw [anti_edge_edge _ _ _ _ _ _ _ _ _ _ e2 e3]; unfold ShareOne; simp
  unfold loopStr
  generalize edgeStr n0 n1 x y x (y + 1) = E0 at *
  generalize edgeStr n0 n1 x (y + 1) (x + 1) (y + 1) = E1 at *
  generalize edgeStr n0 n1 (x + 1) (y + 1) (x + 1) y = E2 at *
  generalize edgeStr n0 n1 (x + 1) y x y = E3 at *
  have p01 := mul_q_parity E0 E1 (by rw [l0.1, l1.1]) (by rw [l0.2, l1.2])
  have p012 := mul_q_parity (E0.mul E1) E2 (by rw [l01.1, l2.1]) (by rw [l01.2, l2.2])
  have p0123 := mul_q_parity ((E0.mul E1).mul E2) E3 (by rw [l012.1, l3.1]) (by rw [l012.2, l3.2])
  rw [anti_mul_left _ _ _ (by rw [l01.1, l2.1]) (by rw [l01.2, l2.2]),
    anti_mul_left _ _ _ (by rw [l0.1, l1.1]) (by rw [l0.2, l1.2]), a03, a13, a23] at p0123
  rw [anti_mul_left _ _ _ (by rw [l0.1, l1.1]) (by rw [l0.2, l1.2]), a02, a12] at p012
  rw [a01] at p01
  simp only [Bool.xor_false, Bool.xor_true, Bool.not_true, Bool.not_false, Bool.toNat_true, Bool.toNat_false,
    Bool.false_xor, Bool.true_xor] at p01 p012 p0123
  omega

/-- the loop product is an involution -/
theorem loopStr_sq {n0 n1 x y : Nat} (h : FaceIn n0 n1 x y) :
    (loopStr n0 n1 x y).mul (loopStr n0 n1 x y) = PS.identity (ofcNsites n0 n1) :=
  mul_self_of_herm _ _ (loopStr_hasLen h) (loopStr_q_even h)

end Qib.Compact
