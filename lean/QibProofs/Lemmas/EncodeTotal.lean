import QibProofs.Lemmas.EncodeSum
/-!
Encoders (C11, C12): the encoders accept every field operator on one fermionic field whose coefficient
tensors have extents `≤ L` (totality; the error branches are characterised too). Helper lemmas only.
-/
set_option linter.unusedVariables false
set_option linter.unusedSectionVars false
namespace Qib.Encode
open Qib.Pauli

variable {α : Type} [EncScalar α]

/-- a term the encoders accept: fermionic operator types, a non-empty coefficient array with one axis per
operator and every site index inside the lattice -/
def Term.Valid (L : ℕ) (t : Term α) : Prop :=
  (∀ d ∈ t.ops, d.otype ≠ .other) ∧ (∀ s ∈ t.shape, s ≠ 0) ∧
    ∀ e ∈ t.entries, e.1.length = t.ops.length ∧ ∀ j ∈ e.1, j < L

theorem expand_ok (enc : Enc) (L : ℕ) (ops : List Desc) (idx : List ℕ) (acc : List PS)
    (hops : ∀ d ∈ ops, d.otype ≠ .other) (hlen : idx.length ≤ ops.length) (hidx : ∀ j ∈ idx, j < L) :
    ∃ out, expand enc L ops idx acc = .ok out := by
  induction ops generalizing idx acc with
  | nil =>
    cases idx with
    | nil => exact ⟨acc, rfl⟩
    | cons j js => simp at hlen
  | cons d ds ih =>
    cases idx with
    | nil => exact ⟨acc, by simp [expand]⟩
    | cons j js =>
      have hj : j < L := hidx j (List.mem_cons_self ..)
      have hrec := fun acc' => ih js acc' (fun d hd => hops d (List.mem_cons_of_mem _ hd)) (by simpa using hlen)
        (fun j hj => hidx j (List.mem_cons_of_mem _ hj))
      cases hd : d.otype with
      | other => exact absurd hd (hops d (List.mem_cons_self ..))
      | create => simp only [expand, hd, if_pos hj]; exact hrec _
      | annihil => simp only [expand, hd, if_pos hj]; exact hrec _

theorem foldE_ok {β γ : Type} (f : β → γ → Except Err β) (P : γ → Prop)
    (hstep : ∀ b c, P c → ∃ b', f b c = .ok b') (b : β) (cs : List γ) (hP : ∀ c ∈ cs, P c) :
    ∃ b', foldE f b cs = .ok b' := by
  induction cs generalizing b with
  | nil => exact ⟨b, rfl⟩
  | cons c cs ih =>
    obtain ⟨b1, h1⟩ := hstep b c (hP c (List.mem_cons_self ..))
    obtain ⟨b2, h2⟩ := ih b1 (fun c hc => hP c (List.mem_cons_of_mem _ hc))
    exact ⟨b2, by simp [foldE, h1, h2]⟩

theorem encodeTerm_ok (enc : Enc) (L : ℕ) (op : PauliOp α) (t : Term α) (hv : t.Valid L) :
    ∃ op', encodeTerm enc L op t = .ok op' := by
  obtain ⟨h1, h2, h3⟩ := hv
  unfold encodeTerm
  have hs : t.shape.any (· == 0) = false := by
    rw [List.any_eq_false]; intro s hs; simpa using h2 s hs
  simp only [hs, Bool.false_eq_true, if_false]
  apply foldE_ok _ (fun e => e.1.length = t.ops.length ∧ ∀ j ∈ e.1, j < L) _ op t.entries h3
  intro b e ⟨hl, hj⟩
  unfold encodeEntry
  by_cases hz : EncScalar.isZero e.2 = true
  · exact ⟨b, by simp [hz]⟩
  · obtain ⟨out, ho⟩ := expand_ok enc L t.ops e.1 [PS.identity L] h1 (le_of_eq hl) hj
    exact ⟨addStrings b out (powHalf t.ops.length * e.2), by simp [hz, ho]⟩

/-- totality: with exactly one (fermionic) field, valid terms are always encoded -/
theorem encodeRaw_ok (enc : Enc) (fop : FieldOp α) (L : ℕ) (hL : fieldCheck fop = .ok L)
    (hv : ∀ t ∈ fop.terms, t.Valid L) : ∃ op, encodeRaw enc fop = .ok op := by
  unfold encodeRaw
  simp only [hL]
  exact foldE_ok _ (fun t => t.Valid L) (fun b t ht => encodeTerm_ok enc L b t ht) [] fop.terms hv

theorem Term.Valid.wf {L : ℕ} {t : Term α} (h : t.Valid L) : t.WF := fun e he => (h.2.2 e he).1

/-- the error branches of the field test: anything but exactly one field, and it fermionic, is `NotImplementedError` -/
theorem fieldCheck_error (fop : FieldOp α) (e : Err) (h : fieldCheck fop = .error e) : e = .notImplemented := by
  unfold fieldCheck at h
  split at h
  · split at h
    · split at h <;> simp_all
    · simp_all
  · simp_all

theorem fieldCheck_ok_iff (fop : FieldOp α) (L : ℕ) :
    fieldCheck fop = .ok L ↔ ∃ f, fieldIds fop.terms = [f] ∧ fop.fields[f]? = some ⟨true, L⟩ := by
  unfold fieldCheck
  constructor
  · intro h
    split at h
    · rename_i f hf
      split at h
      · rename_i spec hs
        split at h
        · rename_i hfer
          simp only [Except.ok.injEq] at h
          refine ⟨f, hf, ?_⟩
          rw [hs]; cases spec; simp_all
        · simp at h
      · simp at h
    · simp at h
  · rintro ⟨f, hf, hs⟩
    simp [hf, hs]

end Qib.Encode
