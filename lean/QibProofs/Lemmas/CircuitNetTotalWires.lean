import QibProofs.Lemmas.CircuitNetMergeData
import QibProofs.Lemmas.CircuitNetTotalMerge2
/-!
Helper lemmas for C05 (totality of `Circuit.as_tensornet`), part 5: well-placed particles give distinct wires inside
the register; `perm`/`argsort`/`transpose` of the loop body return; the data-clash check passes when equal references
carry equal data; every bond of a gate network refers to a real tensor. No property statements.
-/
set_option linter.unusedSimpArgs false
set_option linter.unusedSectionVars false
namespace Qib.CircuitNet
open Qib.TNet Qib.GateNet Qib.Embed

/-! ### particles ↦ wires -/

/-- the particles of a gate are *well placed* in the field list: their fields are listed, their indices lie inside the
lattices of (every listed copy of) their fields, and no particle occurs twice -/
structure WellPlaced (fields : List FieldSpec) (ps : List ParticleSpec) : Prop where
  listed : ∀ q ∈ ps, ∃ f ∈ fields, f.id = q.field
  inside : ∀ q ∈ ps, ∀ f ∈ fields, f.id = q.field → 0 ≤ q.index ∧ q.index < f.nsites
  distinct : ps.Pairwise (fun q q' => ¬ (q.field = q'.field ∧ q.index = q'.index))

theorem go_range (pf : Nat) (pidx : Int) (fields : List FieldSpec) (i : Int) (h1 : ∃ f ∈ fields, f.id = pf)
    (h2 : ∀ f ∈ fields, f.id = pf → 0 ≤ pidx ∧ pidx < f.nsites) :
    i ≤ mapParticleToWireGo pf pidx i fields ∧
      mapParticleToWireGo pf pidx i fields < i + ((fields.map fun g => (g.nsites : Int)).sum) := by
  induction fields generalizing i with
  | nil => obtain ⟨f, hf, _⟩ := h1; cases hf
  | cons g fs ih =>
    simp only [mapParticleToWireGo, List.map_cons, List.sum_cons]
    have hpos : (0 : Int) ≤ (fs.map fun g => (g.nsites : Int)).sum := by
      apply List.sum_nonneg
      intro x hx
      obtain ⟨y, _, rfl⟩ := List.mem_map.mp hx
      exact Int.natCast_nonneg _
    by_cases hg : pf = g.id
    · have hb : (pf == g.id) = true := by simpa using hg
      simp only [hb, if_true]
      have := h2 g List.mem_cons_self hg.symm
      omega
    · have hb : (pf == g.id) = false := by simpa using hg
      simp only [hb, Bool.false_eq_true, if_false]
      have h1' : ∃ f ∈ fs, f.id = pf := by
        obtain ⟨f, hf, hid⟩ := h1
        rcases List.mem_cons.mp hf with rfl | hf
        · exact absurd hid.symm hg
        · exact ⟨f, hf, hid⟩
      have := ih (i + g.nsites) h1' (fun f hf => h2 f (List.mem_cons_of_mem _ hf))
      have hn : (0 : Int) ≤ g.nsites := Int.natCast_nonneg _
      omega

theorem go_inj (pf pf' : Nat) (pidx pidx' : Int) (fields : List FieldSpec) (i : Int)
    (h1 : ∃ f ∈ fields, f.id = pf) (h2 : ∀ f ∈ fields, f.id = pf → 0 ≤ pidx ∧ pidx < f.nsites)
    (h1' : ∃ f ∈ fields, f.id = pf') (h2' : ∀ f ∈ fields, f.id = pf' → 0 ≤ pidx' ∧ pidx' < f.nsites)
    (he : mapParticleToWireGo pf pidx i fields = mapParticleToWireGo pf' pidx' i fields) : pf = pf' ∧ pidx = pidx' := by
  induction fields generalizing i with
  | nil => obtain ⟨f, hf, _⟩ := h1; cases hf
  | cons g fs ih =>
    have rest : ∀ {r : Nat}, (∃ f ∈ g :: fs, f.id = r) → r ≠ g.id → ∃ f ∈ fs, f.id = r := by
      intro r hr hne
      obtain ⟨f, hf, hid⟩ := hr
      rcases List.mem_cons.mp hf with rfl | hf
      · exact absurd hid.symm hne
      · exact ⟨f, hf, hid⟩
    simp only [mapParticleToWireGo] at he
    by_cases hg : pf = g.id <;> by_cases hg' : pf' = g.id
    · have hb : (pf == g.id) = true := by simpa using hg
      have hb' : (pf' == g.id) = true := by simpa using hg'
      simp only [hb, hb', if_true] at he
      exact ⟨hg.trans hg'.symm, by omega⟩
    · have hb : (pf == g.id) = true := by simpa using hg
      have hb' : (pf' == g.id) = false := by simpa using hg'
      simp only [hb, hb', if_true, Bool.false_eq_true, if_false] at he
      have := (go_range pf' pidx' fs (i + g.nsites) (rest h1' hg') (fun f hf => h2' f (List.mem_cons_of_mem _ hf))).1
      have := h2 g List.mem_cons_self hg.symm
      omega
    · have hb : (pf == g.id) = false := by simpa using hg
      have hb' : (pf' == g.id) = true := by simpa using hg'
      simp only [hb, hb', if_true, Bool.false_eq_true, if_false] at he
      have := (go_range pf pidx fs (i + g.nsites) (rest h1 hg) (fun f hf => h2 f (List.mem_cons_of_mem _ hf))).1
      have := h2' g List.mem_cons_self hg'.symm
      omega
    · have hb : (pf == g.id) = false := by simpa using hg
      have hb' : (pf' == g.id) = false := by simpa using hg'
      simp only [hb, hb', Bool.false_eq_true, if_false] at he
      exact ih (i + g.nsites) (rest h1 hg) (fun f hf => h2 f (List.mem_cons_of_mem _ hf)) (rest h1' hg')
        (fun f hf => h2' f (List.mem_cons_of_mem _ hf)) he

/-- the wires of well-placed particles: found, inside the register, pairwise distinct -/
theorem wires_of_wellPlaced {fields : List FieldSpec} {ps : List ParticleSpec} (h : WellPlaced fields ps) :
    (ps.map (mapParticleToWire fields)).Nodup ∧
      ∀ x ∈ ps.map (mapParticleToWire fields), 0 ≤ x ∧ x.toNat < numWires fields := by
  constructor
  · rw [List.nodup_iff_pairwise_ne, List.pairwise_map]
    refine h.distinct.imp_of_mem ?_
    intro q q' hq hq' hne he
    exact hne (go_inj _ _ _ _ fields 0 (h.listed q hq) (h.inside q hq) (h.listed q' hq') (h.inside q' hq') he)
  · intro x hx
    obtain ⟨q, hq, rfl⟩ := List.mem_map.mp hx
    have := go_range q.field q.index fields 0 (h.listed q hq) (h.inside q hq)
    have hs : ∀ fs : List FieldSpec,
        ((fs.map fun g => (g.nsites : Int)).sum) = (((fs.map (·.nsites)).sum : Nat) : Int) := by
      intro fs
      induction fs with
      | nil => rfl
      | cons g fs ih => simp only [List.map_cons, List.sum_cons, Nat.cast_add, ih]
    rw [hs fields, ← numWires_eq_sum] at this
    unfold mapParticleToWire
    omega

/-! ### the `perm` list, `argsort`, `transpose` -/

theorem fold_remove_total {L p : List Int} (hp : p.Nodup) (hL : L.Nodup) (hsub : ∀ x ∈ L, x ∈ p) :
    ∃ p', L.foldlM (fun (p : List Int) i => if p.contains i then pure (p.erase i) else throw CErr.valueError) p =
      (Except.ok p' : Except CErr (List Int)) := by
  induction L generalizing p with
  | nil => exact ⟨p, rfl⟩
  | cons x L ih =>
    rw [List.nodup_cons] at hL
    rw [List.foldlM_cons]
    have hx : p.contains x = true := by simpa using hsub x List.mem_cons_self
    simp only [hx, if_true, pure, Except.pure, bind, Except.bind]
    apply ih (hp.erase x) hL.2
    intro y hy
    rw [List.Nodup.mem_erase_iff hp]
    exact ⟨fun e => hL.1 (e ▸ hy), hsub y (List.mem_cons_of_mem _ hy)⟩

/-- `perm = list(range(2n)); for i in iwire: perm.remove(i)` cannot raise for distinct wires of the register -/
theorem permOf_total {n : Nat} {iwire : List Int} (hn : iwire.Nodup) (hr : ∀ x ∈ iwire, 0 ≤ x ∧ x.toNat < 2 * n) :
    ∃ perm, permOf n iwire = .ok perm := by
  obtain ⟨p', hp'⟩ := fold_remove_total (irange_nodup (2 * n)) hn
    (fun x hx => mem_irange.mpr ⟨(hr x hx).1, by have := hr x hx; omega⟩)
  refine ⟨p' ++ iwire, ?_⟩
  simp only [pure, Except.pure] at hp'
  unfold permOf
  simp only [bind, Except.bind, pure, Except.pure, hp']

/-- undoing `argsort` the other way round -/
theorem pickD_argsort_inv {γ : Type} {P : List Nat} (X : List γ) (d : γ) (hP : P.Perm (List.range P.length))
    (hX : X.length = P.length) : pickD (pickD X d (argsort P)) d P = X := by
  obtain ⟨h1, h2, _, h4⟩ := argsort_inverse hP
  apply List.ext_getElem
  · simp [pickD, hX]
  · intro q hq1 hq2
    have hq : q < P.length := by rw [← hX]; exact hq2
    have := h4 q hq
    have hPq : P[q] < (argsort P).length := by
      rw [h1]; exact List.mem_range.mp (hP.mem_iff.mp (List.getElem_mem hq))
    rw [List.getElem?_eq_getElem hPq, Option.getD_some] at this
    simp only [pickD, List.getElem_map]
    rw [List.getElem?_map, List.getElem?_eq_getElem hPq]
    simp only [Option.map_some, Option.getD_some, this]
    rw [List.getElem?_eq_getElem hq2]
    rfl

theorem isort_argsort {P : List Nat} (hP : P.Perm (List.range P.length)) :
    isort ((argsort P).map Int.ofNat) = (List.range P.length).map Int.ofNat := by
  have h1 := (argsort_spec hP).1
  rw [isort_eq_of_perm (h1.map Int.ofNat)]
  exact isort_eq_self (irange_sorted P.length)

/-! ### the data-clash check -/
section Data
variable {α : Type} [DecidableEq α]

mutual
theorem ntBeq_refl : ∀ (x : NT α), ntBeq x x = true
  | .s a => by simp [ntBeq]
  | .a xs => by simp only [ntBeq]; exact ntBeqL_refl xs
theorem ntBeqL_refl : ∀ (xs : List (NT α)), ntBeqL xs xs = true
  | [] => rfl
  | x :: xs => by simp only [ntBeqL, Bool.and_eq_true]; exact ⟨ntBeq_refl x, ntBeqL_refl xs⟩
end

theorem dtEq_refl (a : DT α) : dtEq a a = true := by
  simp only [dtEq, Bool.and_eq_true, beq_self_eq_true, true_and]
  exact ntBeq_refl _

/-- equal references carry equal arrays ⇒ `TensorNetwork.merge` does not raise its `ValueError` -/
theorem dataClash_false_of {self other : List (Int × DT α)}
    (h : ∀ k d d', (k, d) ∈ self → (k, d') ∈ other → d = d') : dataClash self other = false := by
  simp only [dataClash, List.any_eq_false]
  intro e he
  cases hl : self.lookup e.1 with
  | none => simp
  | some d =>
    have := h e.1 d e.2 (mem_of_lookup_eq_some hl) he
    subst this
    simp [dtEq_refl]

theorem mem_dset {β : Type} {d : List (Int × β)} {k : Int} {v : β} {e : Int × β} (h : e ∈ dset d k v) :
    e ∈ d ∨ e = (k, v) := by
  unfold dset at h
  split at h
  · obtain ⟨e0, he0, rfl⟩ := List.mem_map.mp h
    split
    · exact Or.inr rfl
    · exact Or.inl he0
  · rcases List.mem_append.mp h with h | h
    · exact Or.inl h
    · exact Or.inr (by simpa using h)

theorem mem_dupdate {β : Type} {d o : List (Int × β)} {e : Int × β} (h : e ∈ dupdate d o) : e ∈ d ∨ e ∈ o := by
  induction o generalizing d with
  | nil => exact Or.inl h
  | cons x xs ih =>
    have h' : e ∈ dupdate (dset d x.1 x.2) xs := h
    rcases ih h' with h1 | h1
    · rcases mem_dset h1 with h2 | h2
      · exact Or.inl h2
      · exact Or.inr (by rw [h2]; exact List.mem_cons_self)
    · exact Or.inr (List.mem_cons_of_mem _ h1)

end Data

/-! ### every bond of a gate network refers to a real tensor -/
section Gate
variable {α : Type} [Zero α] [One α] [Add α] [Mul α]

theorem gateNet_realRef (g : G α) (tn : TN α) (h : gateNet g = .ok tn) : RealRef tn.net (-1) := by
  cases g with
  | leaf w m =>
    simp only [gateNet, Except.ok.injEq] at h; subst h
    intro e he
    simp only [wrapTN, wrapNet, List.mem_map] at he
    obtain ⟨i, _, rfl⟩ := he
    exact ⟨0, by simp, by decide⟩
  | dense w m =>
    simp only [gateNet, Except.ok.injEq] at h; subst h
    intro e he
    simp only [wrapTN, wrapNet, List.mem_map] at he
    obtain ⟨i, _, rfl⟩ := he
    exact ⟨0, by simp, by decide⟩
  | phase n u un =>
    simp only [gateNet] at h
    split at h
    · cases h
    · simp only [Except.ok.injEq] at h; subst h
      intro e he
      simp only [phaseNet, List.mem_flatMap, List.mem_range, List.mem_cons, List.not_mem_nil, or_false] at he
      obtain ⟨i, _, rfl | rfl⟩ := he
      · exact ⟨Int.ofNat i, by simp, by simp only [Int.ofNat_eq_natCast]; omega⟩
      · exact ⟨Int.ofNat i, by simp, by simp only [Int.ofNat_eq_natCast]; omega⟩
  | prepare n x m tr =>
    simp only [gateNet, Except.ok.injEq] at h; subst h
    intro e he
    simp only [prepareNet, List.mem_append, List.mem_map, List.mem_range] at he
    rcases he with ⟨i, _, rfl⟩ | ⟨i, _, rfl⟩
    · exact ⟨0, by simp, by decide⟩
    · exact ⟨1 + Int.ofNat i, by simp, by simp only [Int.ofNat_eq_natCast]; omega⟩
  | block w m => simp [gateNet] at h
  | controlled cs t =>
    simp only [gateNet] at h
    rcases hf : flattenCtrl cs t with ⟨cs', t'⟩
    rw [hf] at h
    cases cs' with
    | nil => cases h
    | cons c0 rest =>
      simp only [Except.ok.injEq] at h; subst h
      intro e he
      simp only [ctrlTN, ctrlNet, List.mem_append, List.mem_map, List.mem_range, List.mem_singleton] at he
      rcases he with ((⟨i, _, rfl⟩ | he) | he) | rfl
      · exact ⟨0, by simp, by decide⟩
      · cases c0
        · simp only [Bool.not_false, if_true, List.mem_cons, List.not_mem_nil, or_false] at he
          rcases he with rfl | rfl
          · exact ⟨Int.ofNat (rest.length + 1), by simp, by simp only [Int.ofNat_eq_natCast]; omega⟩
          · exact ⟨Int.ofNat (rest.length + 1) + 1, by simp, by simp only [Int.ofNat_eq_natCast]; omega⟩
        · simp at he
      · obtain ⟨j, hj1, _, hcase⟩ := mem_crossBonds_spec _ _ _ _ _ _ he
        rcases hcase with ⟨_, h2⟩ | ⟨_, h2⟩ | ⟨_, h2⟩
        · rw [h2]; exact ⟨(j : Int), by simp, by omega⟩
        · rw [h2]; exact ⟨(j : Int), by simp, by omega⟩
        · rw [h2]
          by_cases hj : j = 1
          · simp only [hj, if_true]
            cases c0
            · exact ⟨1, by simp, by decide⟩
            · exact ⟨1, by simp, by decide⟩
          · simp only [hj, if_false]
            exact ⟨(j : Int), by simp, by omega⟩
      · simp only
        by_cases hnc : rest.length + 1 = 1
        · simp only [hnc, if_true]
          cases c0
          · exact ⟨0, by simp, by decide⟩
          · exact ⟨0, by simp, by decide⟩
        · simp only [hnc, if_false]
          exact ⟨0, by simp, by decide⟩
  | multiplexed nc ts =>
    simp only [gateNet] at h
    split at h
    · cases h
    · split at h
      · cases h
      · simp only [Except.ok.injEq] at h; subst h
        intro e he
        simp only [multiplexedNet, List.mem_append, List.mem_map, List.mem_range] at he
        rcases he with ⟨i, _, rfl⟩ | ⟨i, _, rfl⟩
        · exact ⟨0, by simp, by decide⟩
        · exact ⟨0, by simp, by decide⟩

theorem realRef_reref {net : Net} {vid : Int} (ref0 : Int) (h : RealRef net vid) : RealRef (rerefNet ref0 net) vid := h

theorem initNetC_realRef (n : Nat) : RealRef (initNetC n) (-1) := by
  intro e he
  simp only [initNetC, List.mem_map, List.mem_range] at he
  obtain ⟨i, _, rfl⟩ := he
  exact ⟨Int.ofNat i, by simp [ketBond], by simp only [Int.ofNat_eq_natCast]; omega⟩

end Gate

end Qib.CircuitNet
