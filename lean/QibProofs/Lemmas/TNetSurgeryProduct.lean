import QibProofs.Lemmas.TNetSurgeryDel
/-!
Helper lemmas for C08, part 11: the value of the disjoint union of two networks with fused virtual tensors is the
outer product of the two values; the copy of the second operand keeps its value through the renaming loops
(no property statements).
-/
namespace Qib.TNet
variable {α : Type} [CommSemiring α]

/-! ### pins of concatenated open legs -/

theorem pin_congr_at {L : Type} [DecidableEq L] (ls : List L) (vs : List Nat) (σ τ : L → Nat) (x : L) (h : σ x = τ x) :
    pin ls vs σ x = pin ls vs τ x := by
  induction ls generalizing vs with
  | nil => cases vs <;> exact h
  | cons l ls ih =>
    cases vs with
    | nil => exact h
    | cons v vs =>
      simp only [pin, upd]
      split
      · rfl
      · exact ih vs

theorem pin_append {L : Type} [DecidableEq L] (l1 l2 : List L) (v1 v2 : List Nat) (σ : L → Nat)
    (h : v1.length = l1.length) : pin (l1 ++ l2) (v1 ++ v2) σ = pin l1 v1 (pin l2 v2 σ) := by
  induction l1 generalizing v1 with
  | nil =>
    have : v1 = [] := List.eq_nil_of_length_eq_zero (by simpa using h)
    subst this; rfl
  | cons l ls ih =>
    cases v1 with
    | nil => simp at h
    | cons v vs =>
      simp only [List.cons_append, pin]
      rw [ih vs (by simpa using h)]

theorem pinsOK_append (opA opB : List Int) (ia ib : List Nat) (hia : ia.length = opA.length)
    (hdisj : ∀ x ∈ opA, x ∉ opB) :
    pinsOK (opA ++ opB) (ia ++ ib) = (pinsOK opA ia && pinsOK opB ib) := by
  rw [Bool.eq_iff_iff, Bool.and_eq_true, pinsOK_iff, pinsOK_iff, pinsOK_iff]
  simp only [List.length_append]
  constructor
  · rintro ⟨h1, h2⟩
    refine ⟨⟨hia.symm, fun k k' hk hk' he => ?_⟩, ⟨by omega, fun k k' hk hk' he => ?_⟩⟩
    · have := h2 k k' (by omega) (by omega) (by
        rw [List.getElem?_append_left hk, List.getElem?_append_left hk']; exact he)
      rwa [List.getElem?_append_left (by omega), List.getElem?_append_left (by omega)] at this
    · have := h2 (opA.length + k) (opA.length + k') (by omega) (by omega) (by
        rw [List.getElem?_append_right (by omega), List.getElem?_append_right (by omega)]
        simpa using he)
      rw [List.getElem?_append_right (by omega), List.getElem?_append_right (by omega)] at this
      simpa [hia] using this
  · rintro ⟨⟨h1, h2⟩, ⟨h3, h4⟩⟩
    refine ⟨by omega, fun k k' hk hk' he => ?_⟩
    by_cases c1 : k < opA.length <;> by_cases c2 : k' < opA.length
    · rw [List.getElem?_append_left c1, List.getElem?_append_left c2] at he
      rw [List.getElem?_append_left (by omega), List.getElem?_append_left (by omega)]
      exact h2 k k' c1 c2 he
    · exfalso
      rw [List.getElem?_append_left c1, List.getElem?_append_right (by omega)] at he
      have hk2 : k' - opA.length < opB.length := by omega
      rw [List.getElem?_eq_getElem c1, List.getElem?_eq_getElem hk2] at he
      exact hdisj _ (List.getElem_mem c1) (by rw [Option.some.inj he]; exact List.getElem_mem hk2)
    · exfalso
      rw [List.getElem?_append_right (by omega), List.getElem?_append_left c2] at he
      have hk2 : k - opA.length < opB.length := by omega
      rw [List.getElem?_eq_getElem c2, List.getElem?_eq_getElem hk2] at he
      exact hdisj _ (List.getElem_mem c2) (by rw [← Option.some.inj he]; exact List.getElem_mem hk2)
    · rw [List.getElem?_append_right (by omega), List.getElem?_append_right (by omega)] at he
      rw [List.getElem?_append_right (by omega), List.getElem?_append_right (by omega), hia]
      exact h4 _ _ (by omega) (by omega) he

/-- **outer product**: two label-disjoint networks side by side -/
theorem sem_product (dim dimA dimB : Int → Nat) (opA opB intA intB : List Int)
    (tsA tsB : List (Option Int × List Int)) (D : Option Int → List Nat → α) (ia ib : List Nat)
    (hia : ia.length = opA.length) (LA LB : Int → Prop)
    (hoA : ∀ x ∈ opA, LA x) (hiA : ∀ x ∈ intA, LA x) (htA : ∀ t ∈ tsA, ∀ x ∈ t.2, LA x)
    (hoB : ∀ x ∈ opB, LB x) (hiB : ∀ x ∈ intB, LB x) (htB : ∀ t ∈ tsB, ∀ x ∈ t.2, LB x)
    (hdisj : ∀ x, LA x → LB x → False)
    (hdA : ∀ l ∈ intA, dim l = dimA l) (hdB : ∀ l ∈ intB, dim l = dimB l) :
    sem dim (opA ++ opB) (intA ++ intB) (tsA ++ tsB) D (ia ++ ib) =
      sem dimA opA intA tsA D ia * sem dimB opB intB tsB D ib := by
  unfold sem
  rw [pinsOK_append opA opB ia ib hia (fun x hx hx' => hdisj x (hoA x hx) (hoB x hx'))]
  by_cases hA : pinsOK opA ia = true
  · by_cases hB : pinsOK opB ib = true
    · simp only [hA, hB, Bool.and_self, if_true]
      rw [pin_append _ _ _ _ _ hia, sumOver_append]
      -- the summand factors
      have hTA : ∀ σ τ : Int → Nat, (∀ x, LA x → σ x = τ x) → tensorTerm D tsA σ = tensorTerm D tsA τ :=
        fun σ τ h => tensorTerm_agree D tsA σ τ (fun t ht x hx => h x (htA t ht x hx))
      have hTB : ∀ σ τ : Int → Nat, (∀ x, LB x → σ x = τ x) → tensorTerm D tsB σ = tensorTerm D tsB τ :=
        fun σ τ h => tensorTerm_agree D tsB σ τ (fun t ht x hx => h x (htB t ht x hx))
      have hIA : ∀ l ∈ intB, Indep (tensorTerm D tsA) l := by
        intro l hl σ v
        apply hTA
        intro x hx
        exact upd_other _ (fun e : x = l => hdisj x hx (by rw [e]; exact hiB l hl)) _
      have hIB : ∀ l ∈ intA, Indep (tensorTerm D tsB) l := by
        intro l hl σ v
        apply hTB
        intro x hx
        exact upd_other _ (fun e : x = l => hdisj x (by rw [e]; exact hiA l hl) hx) _
      have h1 : (sumOver dim intB (tensorTerm D (tsA ++ tsB))) =
          fun σ => tensorTerm D tsA σ * sumOver dim intB (tensorTerm D tsB) σ := by
        funext σ
        rw [show tensorTerm D (tsA ++ tsB) = fun τ => tensorTerm D tsA τ * tensorTerm D tsB τ from
          funext (tensorTerm_append D tsA tsB)]
        exact sumOver_mul_left dim intB _ _ hIA σ
      rw [h1, sumOver_mul_right dim intA _ _ (fun l hl => indep_sumOver dim intB _ l (hIB l hl))]
      congr 1
      · rw [sumOver_congr_dim dim dimA intA _ hdA]
        apply sumOver_agree_on dimA intA _ LA hTA
        intro x hx _
        apply pin_congr_at
        exact pin_notMem _ _ _ _ (fun hm => hdisj x hx (hoB x hm))
      · rw [sumOver_congr_dim dim dimB intB _ hdB]
        apply sumOver_agree_on dimB intB _ LB hTB
        intro x hx _
        exact pin_notMem _ _ _ _ (fun hm => hdisj x (hoA x hm) hx)
    · simp [hA, hB]
  · simp [hA]

/-! ### the copy of the second operand keeps its value -/

theorem merge_track_value {a b : Net} {tor bor : List Int} (ha : WF a) (hb : WF b)
    (htor : tor.Perm (sharedTids a b))
    {o1 o2 : Net} {tmpOpen n1 n2 : Int}
    (hf1 : tor.foldlM renTStep (b, -1, maxKey (dkeys a.tensors ++ dkeys b.tensors) + 1) = .ok (o1, tmpOpen, n1))
    (hf2 : bor.foldlM renBStep (o1, maxKey (dkeys a.bonds ++ dkeys o1.bonds) + 1) = .ok (o2, n2))
    (D : Option Int → List Nat → α) (idx : List Nat) : fullAt tmpOpen o2 D idx = full b D idx := by
  obtain ⟨w1, _⟩ := renT_fold (st := (b, -1, _)) hb.toWF0 hf1
  simp only at w1
  have hmaxT : ∀ k ∈ dkeys a.tensors ++ dkeys b.tensors, k ≤ maxKey (dkeys a.tensors ++ dkeys b.tensors) :=
    fun k hk => le_maxKey hk
  have hN0 : (0 : Int) ≤ maxKey (dkeys a.tensors ++ dkeys b.tensors) + 1 := by
    have := hmaxT (-1) (List.mem_append_left _ ha.virt); omega
  have htrack := renT_fold_track (fun net vid => ∀ idx, fullAt vid net D idx = full b D idx)
    (by
      intro net net' cur new vid hw hok hvid hQ idx
      rw [renameTensor_fullAt hw hok hvid D idx]; exact hQ idx)
    (st := (b, -1, _)) (N0 := maxKey (dkeys a.tensors ++ dkeys b.tensors) + 1) hN0
    (by
      intro t ht
      have := hmaxT t (List.mem_append_left _ (mem_sharedTids.mp (htor.mem_iff.mp ht)).1); omega)
    (le_refl _)
    (by intro k hk; have := hmaxT k (List.mem_append_right _ hk); simp only; omega)
    hb.virt (Or.inl rfl) hb.toWF0 (fun idx => (full_eq_fullAt b D idx).symm) hf1
  simp only at htrack
  have htrack2 := renB_fold_track (fun net => ∀ idx, fullAt tmpOpen net D idx = full b D idx)
    (by
      intro net net' cur new hw hok hQ idx
      rw [renameBond_fullAt hw hok D idx]; exact hQ idx)
    (st := (o1, _)) w1 htrack.1 hf2
  exact htrack2 idx

/-! ### the fused disjoint union is the outer product -/
section Dict4
variable {β : Type}

theorem dpop_append (d d' : List (Int × β)) (k : Int) : dpop (d ++ d') k = dpop d k ++ dpop d' k := by
  simp [dpop]

theorem mem_dmodify_of_ne {d : List (Int × β)} {k : Int} {f : β → β} {e : Int × β} (he : e ∈ d) (hk : e.1 ≠ k) :
    e ∈ dmodify d k f := by
  unfold dmodify
  refine List.mem_map.mpr ⟨e, he, ?_⟩
  have : (e.1 == k) = false := by simpa using hk
  simp [this]

theorem mem_dmodify_self {d : List (Int × β)} {k : Int} {f : β → β} {v : β} (he : (k, v) ∈ d) :
    (k, f v) ∈ dmodify d k f := by
  unfold dmodify
  refine List.mem_map.mpr ⟨(k, v), he, ?_⟩
  simp

end Dict4

theorem zip_subset_append_left {γ δ : Type} (l1 l2 : List γ) (m1 m2 : List δ) (h : l1.length = m1.length) :
    ∀ p ∈ l1.zip m1, p ∈ (l1 ++ l2).zip (m1 ++ m2) := by
  intro p hp
  rw [List.zip_append h]
  exact List.mem_append_left _ hp

theorem zip_subset_append_right {γ δ : Type} (l1 l2 : List γ) (m1 m2 : List δ) (h : l1.length = m1.length) :
    ∀ p ∈ l2.zip m2, p ∈ (l1 ++ l2).zip (m1 ++ m2) := by
  intro p hp
  rw [List.zip_append h]
  exact List.mem_append_right _ hp

theorem prejoin_product {a b o2 m1 : Net} {tmpOpen : Int} (ha : WF a) (pd : PreData a b o2 tmpOpen m1)
    {va : STensor} (hva : dget a.tensors (-1) = some va) (D : Option Int → List Nat → α) (ia ib : List Nat)
    (hia : ia.length = va.shape.length) :
    full m1 D (ia ++ ib) = full a D ia * fullAt tmpOpen o2 D ib := by
  obtain ⟨w2, disjT, disjB, tmpne, vb2, hvb2, hm1⟩ := pd
  have wu := union_wf0 ha.toWF0 w2 disjT disjB
  have wm1 := mergeTensors_wf0 wu tmpne hm1
  obtain ⟨T1, T2, hT1, hT2, heq⟩ := mergeTensors_spec wu tmpne hm1
  have hmva := mem_of_dget_eq_some _ hva
  have hmvb := mem_of_dget_eq_some _ hvb2
  have htmpA : tmpOpen ∉ dkeys a.tensors := disjT _ (mem_dkeys_of_mem hmvb)
  have hnegO : (-1 : Int) ∉ dkeys o2.tensors := fun h => disjT _ h ha.virt
  have hT1' : T1 = va := by
    have := dget_append_left a.tensors o2.tensors hva
    simp only at hT1
    rw [this] at hT1; exact (Option.some.inj hT1).symm
  have hT2' : T2 = vb2 := by
    have := dget_append_right a.tensors o2.tensors htmpA
    simp only at hT2
    rw [this, hvb2] at hT2; exact (Option.some.inj hT2).symm
  subst hT1' hT2'
  have hsha : T1.shape.length = T1.bids.length := ha.tshape _ hmva
  have hshb : T2.shape.length = T2.bids.length := w2.tshape _ hmvb
  have hv1 : dget m1.tensors (-1) = some (catTensor T1 T2) := by
    rw [heq]
    simp only
    rw [dget_dmodify, dget_dpop_ne _ tmpne, hT1]
    simp
  rw [full_eq_sem m1 D _ hv1, full_eq_sem a D _ hva]
  unfold fullAt
  rw [hvb2]
  simp only
  -- the real tensors
  have hreal : realTs m1 = realTs a ++ realTsAt tmpOpen o2 := by
    rw [heq]
    simp only [realTs, realTensors, realTsAt]
    rw [filter_dmodify_ne, dpop_append, dpop_eq_self_of_notMem a.tensors htmpA, List.filter_append, List.map_append,
      List.map_append, List.map_map]
    congr 1
    have h1 : (dpop o2.tensors tmpOpen).filter (fun e => e.1 != -1) = dpop o2.tensors tmpOpen := by
      apply List.filter_eq_self.mpr
      intro e he
      have : e.1 ≠ -1 := fun e' => hnegO (e' ▸ mem_dkeys_of_mem (mem_dpop.mp he).1)
      simpa using this
    rw [h1]
    simp [dpop, Function.comp_def]
  -- the internal labels
  have hAo : ∀ x ∈ T1.bids, x ∈ dkeys a.bonds := fun x hx => ha.toWF0.mem_bond_keys hmva hx
  have hBo : ∀ x ∈ T2.bids, x ∈ dkeys o2.bonds := fun x hx => w2.mem_bond_keys hmvb hx
  have hint : internalBids m1 (catTensor T1 T2) = internalBids a T1 ++ internalBids o2 T2 := by
    rw [heq]
    simp only [internalBids, dkeys_relBonds, dkeys_append, catTensor, List.filter_append]
    congr 1
    · apply List.filter_congr
      intro x hx
      congr 1
      rw [Bool.eq_iff_iff]
      simp only [List.contains_iff_mem, List.mem_append]
      exact ⟨fun h => h.elim id (fun h' => absurd hx (disjB x (hBo x h'))), Or.inl⟩
    · apply List.filter_congr
      intro x hx
      congr 1
      rw [Bool.eq_iff_iff]
      simp only [List.contains_iff_mem, List.mem_append]
      exact ⟨fun h => h.elim (fun h' => absurd (hAo x h') (disjB x hx)) id, Or.inr⟩
  -- dimensions
  have hsubA : ∀ p ∈ legDims a, p ∈ legDims m1 := by
    intro p hp
    obtain ⟨e, he, ax, h1, h2⟩ := mem_legDims_iff.mp hp
    by_cases hk : e.1 = -1
    · have : e = (-1, T1) := by
        have := dget_of_mem ha.tnodup he
        rw [hk, hva] at this
        exact Prod.ext hk (Option.some.inj this).symm
      subst this
      have hmem : ((-1 : Int), catTensor T1 T2) ∈ m1.tensors := mem_of_dget_eq_some _ hv1
      have hz := zip_subset_append_left T1.bids T2.bids T1.shape T2.shape hsha.symm p
        (List.mem_iff_getElem?.mpr ⟨ax, by rw [List.getElem?_zip_eq_some]; exact ⟨h1, h2⟩⟩)
      obtain ⟨ax', hax'⟩ := List.mem_iff_getElem?.mp hz
      rw [List.getElem?_zip_eq_some] at hax'
      exact mem_legDims hmem hax'.1 hax'.2
    · have hmem : e ∈ m1.tensors := by
        rw [heq]
        dsimp only
        apply mem_dmodify_of_ne _ hk
        rw [mem_dpop]
        exact ⟨List.mem_append_left _ he, fun e' => htmpA (by rw [← e']; exact mem_dkeys_of_mem he)⟩
      exact mem_legDims hmem h1 h2
  have hsubB : ∀ p ∈ legDims o2, p ∈ legDims m1 := by
    intro p hp
    obtain ⟨e, he, ax, h1, h2⟩ := mem_legDims_iff.mp hp
    by_cases hk : e.1 = tmpOpen
    · have : e = (tmpOpen, T2) := by
        have := dget_of_mem w2.tnodup he
        rw [hk, hvb2] at this
        exact Prod.ext hk (Option.some.inj this).symm
      subst this
      have hmem : ((-1 : Int), catTensor T1 T2) ∈ m1.tensors := mem_of_dget_eq_some _ hv1
      have hz := zip_subset_append_right T1.bids T2.bids T1.shape T2.shape hsha.symm p
        (List.mem_iff_getElem?.mpr ⟨ax, by rw [List.getElem?_zip_eq_some]; exact ⟨h1, h2⟩⟩)
      obtain ⟨ax', hax'⟩ := List.mem_iff_getElem?.mp hz
      rw [List.getElem?_zip_eq_some] at hax'
      exact mem_legDims hmem hax'.1 hax'.2
    · have hmem : e ∈ m1.tensors := by
        rw [heq]
        dsimp only
        apply mem_dmodify_of_ne _ (fun e' : e.1 = -1 => hnegO (by rw [← e']; exact mem_dkeys_of_mem he))
        rw [mem_dpop]
        exact ⟨List.mem_append_right _ he, hk⟩
      exact mem_legDims hmem h1 h2
  have hdA : ∀ l ∈ internalBids a T1, bondDim m1 l = bondDim a l := by
    intro l hl
    have hlk : l ∈ dkeys a.bonds := by simp only [internalBids, List.mem_filter] at hl; exact hl.1
    obtain ⟨d, hd⟩ := ha.toWF0.exists_leg hlk
    rw [ha.toWF0.bondDim_of_leg hd, wm1.bondDim_of_leg (hsubA _ hd)]
  have hdB : ∀ l ∈ internalBids o2 T2, bondDim m1 l = bondDim o2 l := by
    intro l hl
    have hlk : l ∈ dkeys o2.bonds := by simp only [internalBids, List.mem_filter] at hl; exact hl.1
    obtain ⟨d, hd⟩ := w2.exists_leg hlk
    rw [w2.bondDim_of_leg hd, wm1.bondDim_of_leg (hsubB _ hd)]
  rw [hreal, hint]
  simp only [catTensor]
  apply sem_product (bondDim m1) (bondDim a) (bondDim o2) T1.bids T2.bids _ _ _ _ D ia ib (by rw [hia, hsha])
    (fun x => x ∈ dkeys a.bonds) (fun x => x ∈ dkeys o2.bonds) hAo
  · intro x hx; simp only [internalBids, List.mem_filter] at hx; exact hx.1
  · intro t ht x hx
    simp only [realTs, realTensors, List.mem_map, List.mem_filter] at ht
    obtain ⟨T, ⟨e, ⟨he, _⟩, rfl⟩, rfl⟩ := ht
    exact ha.toWF0.mem_bond_keys he hx
  · exact hBo
  · intro x hx; simp only [internalBids, List.mem_filter] at hx; exact hx.1
  · intro t ht x hx
    simp only [realTsAt, List.mem_map, List.mem_filter] at ht
    obtain ⟨e, ⟨he, _⟩, rfl⟩ := ht
    exact w2.mem_bond_keys he hx
  · intro x h1 h2; exact disjB x h2 h1
  · exact hdA
  · exact hdB

end Qib.TNet
