import QibProofs.Lemmas.TNetTreeSound
/-!
Helper lemmas for C07, part 7: the root of a certified contraction tree – declarative reading of `rootOK` and the
theorem `tree_sound`: certified nodes + certified root/axes map ⇒ the expanded tree value is the defining sum `full`
(no property statements).
-/
namespace Qib.TNet
variable {α : Type} [CommSemiring α]

/-- declarative reading of `rootOK` -/
structure RootCert (net : Net) (v : STensor) (tree : Tree) (am : List Nat) : Prop where
  leavesNodup : (treeLeaves tree).Nodup
  leavesEq : isort (treeLeaves tree) = (isort (dkeys net.tensors)).erase (-1)
  amlen : am.length = v.bids.length
  axis : ∀ i (hi : i < v.bids.length), ∃ k, am[i]? = some k ∧ nodeLegBond net tree.info k = some v.bids[i]
  legs : ∀ k, k < tree.info.idxout.length → ∃ b, nodeLegBond net tree.info k = some b ∧ b ∈ v.bids

theorem rootOK_cert {net : Net} {v : STensor} (hv : dget net.tensors (-1) = some v) {tree : Tree} {am : List Nat}
    (h : rootOK net tree am = true) : RootCert net v tree am := by
  unfold rootOK at h
  rw [hv] at h
  simp only [Bool.and_eq_true, nodupB_iff, beq_iff_eq, List.all_eq_true, List.mem_range] at h
  obtain ⟨⟨⟨⟨h1, h2⟩, h3⟩, h4⟩, h5⟩ := h
  refine ⟨h1, h2, h3, ?_, ?_⟩
  · intro i hi
    have := h4 i hi
    split at this
    · rename_i k hk
      exact ⟨k, hk, by rw [eq_of_beq this, List.getElem?_eq_getElem hi]⟩
    · cases this
  · intro k hk
    have := h5 k hk
    split at this
    · rename_i b hb
      exact ⟨b, hb, List.contains_iff_mem.mp this⟩
    · cases this

theorem nodeLegBond_lt {net : Net} {c : NodeInfo} (hi : InfoCert net c) {k : Nat} {b : Int}
    (h : nodeLegBond net c k = some b) : k < c.idxout.length := by
  unfold nodeLegBond at h
  split at h
  · rename_i p hp
    have h1 := List.mem_of_find?_eq_some hp
    have h2 : p.2 = k := by simpa using List.find?_some hp
    rw [← h2]; exact (hi.pairs p h1).1
  · cases h

end Qib.TNet

namespace Qib.TNet
variable {α : Type} [CommSemiring α]

/-- distinct legs of the root carry distinct bonds (automatic for an inner node, see `NodeCert.legB_inj`) -/
def RootInj (net : Net) (c : NodeInfo) : Prop :=
  ∀ k k', k < c.idxout.length → k' < c.idxout.length → legB net c k = legB net c k' → k = k'

theorem NodeCert.legB_inj {net : Net} {n cL cR : NodeInfo} (hc : NodeCert net n cL cR) : RootInj net n := by
  intro k k' hk hk' he
  have h1 := hc.pairOut hk
  have h2 := hc.pairOut hk'
  exact (List.Nodup.getElem_inj_iff hc.nodup).mp ((hc.bij _ h1 _ h2).mp he)

/-- **Soundness of the tree certificates.** A tree all of whose nodes are certified, with a certified root and
axes map, evaluates (after `toFullSem`) to the defining sum. -/
theorem tree_sound {net : Net} (hwf : WF net) {v : STensor} (hv : dget net.tensors (-1) = some v)
    (D : Option Int → List Nat → α) (dict : Int → Option (DT α)) (tree : Tree) (am : List Nat)
    (hok : ∀ x ∈ treeOKList net tree, x = true) (hroot : rootOK net tree am = true)
    (hinj : RootInj net tree.info) (hdata : ∀ i ∈ leafInfos tree, LeafDataOK net D dict i)
    {r : DT α} (hr : treeEval dict tree = .ok r) (idx : List Nat)
    (hidx : List.Forall₂ (fun i d => i < d) idx v.shape) :
    toFullSem r am idx = full net D idx := by
  have hrc := rootOK_cert hv hroot
  have hI := treeInv hwf tree hok hrc.leavesNodup
  obtain ⟨hs, hval⟩ := treeEval_sound hwf D dict tree hok hrc.leavesNodup hdata r hr
  have hvmem := mem_of_dget_eq_some _ hv
  have hvlen : v.shape.length = v.bids.length := hwf.tshape _ hvmem
  have hidxlen : idx.length = v.bids.length := by rw [← hvlen]; exact hidx.length_eq
  have hamlen := hrc.amlen
  have hrlen : r.shape.length = tree.info.idxout.length := by rw [hs]; simp [nodeShape]
  have hidxlt : ∀ j (hj : j < v.bids.length), idx[j]?.getD 0 < bondDim net v.bids[j] := by
    intro j hj
    have h1 := (List.forall₂_iff_get.mp hidx).2 j (by omega) (by omega)
    have h2 := hwf.toWF0.shape_eq_bondDim hvmem (List.getElem?_eq_getElem hj)
    simp only at h2
    rw [List.getElem?_eq_getElem (by omega)] at h2
    simp only [List.get_eq_getElem] at h1
    rw [Option.some.inj h2] at h1
    rw [List.getElem?_eq_getElem (by omega)]
    exact h1
  -- the axes map sends a logical axis to the root leg carrying its bond
  have hax : ∀ j (hj : j < v.bids.length), ∃ (hja : j < am.length), am[j] < tree.info.idxout.length ∧
      legB net tree.info am[j] = v.bids[j] := by
    intro j hj
    obtain ⟨k, hk1, hk2⟩ := hrc.axis j hj
    have hja : j < am.length := by omega
    rw [List.getElem?_eq_getElem hja] at hk1
    cases hk1
    exact ⟨hja, nodeLegBond_lt hI.info hk2, by simp [legB, hk2]⟩
  have hbij : ∀ j j' (hj : j < v.bids.length) (hj' : j' < v.bids.length),
      v.bids[j] = v.bids[j'] ↔ am[j]'(by omega) = am[j']'(by omega) := by
    intro j j' hj hj'
    obtain ⟨_, h1, h2⟩ := hax j hj
    obtain ⟨_, h1', h2'⟩ := hax j' hj'
    constructor
    · intro he
      exact hinj _ _ h1 h1' (by rw [h2, h2', he])
    · intro he
      rw [← h2, ← h2']; simp only [he]
  have hsurj : ∀ k, k < tree.info.idxout.length → ∃ j, j < am.length ∧ am[j]? = some k := by
    intro k hk
    obtain ⟨b, hb, hbv⟩ := hrc.legs k hk
    obtain ⟨j, hj, hje⟩ := List.getElem_of_mem hbv
    obtain ⟨hja, h1, h2⟩ := hax j hj
    have : am[j] = k := hinj _ _ h1 hk (by rw [h2, hje]; simp [legB, hb])
    exact ⟨j, hja, by rw [List.getElem?_eq_getElem hja, this]⟩
  by_cases hp : pinsOK v.bids idx = true
  swap
  · have hfull : full net D idx = 0 := by
      unfold full; rw [hv]; simp only; rw [if_neg hp]
    rw [hfull]
    rw [pinsOK_iff] at hp
    have : ∃ k k', k < v.bids.length ∧ k' < v.bids.length ∧ v.bids[k]? = v.bids[k']? ∧ idx[k]? ≠ idx[k']? := by
      by_contra hcon
      apply hp
      refine ⟨hidxlen.symm, fun k k' hk hk' he => ?_⟩
      by_contra hne
      exact hcon ⟨k, k', hk, hk', he, hne⟩
    obtain ⟨k, k', hk, hk', he, hne⟩ := this
    have hka : k < am.length := by omega
    have hka' : k' < am.length := by omega
    have heq : v.bids[k] = v.bids[k'] := by
      rw [List.getElem?_eq_getElem hk, List.getElem?_eq_getElem hk'] at he; exact Option.some.inj he
    have ham := (hbij k k' hk hk').mp heq
    apply toFullSem_zero _ _ _ k k' am[k] hka hka' (List.getElem?_eq_getElem hka)
      (by rw [List.getElem?_eq_getElem hka', ham])
    · rw [hrlen]; exact (hax k hk).2.1
    · rw [List.getElem?_eq_getElem (by omega), List.getElem?_eq_getElem (by omega)] at hne ⊢
      simpa using hne
  have hfacG : ∀ j (hj : j < am.length), idx[j]?.getD 0 = idx[am.idxOf am[j]]?.getD 0 := by
    intro j hj
    have hm : am[j] ∈ am := List.getElem_mem hj
    have h0 : am.idxOf am[j] < am.length := List.idxOf_lt_length_of_mem hm
    have h1 : am[am.idxOf am[j]] = am[j] := List.getElem_idxOf h0
    have hb := (hbij (am.idxOf am[j]) j (by omega) (by omega)).mpr h1
    have := ((pinsOK_iff _ _).mp hp).2 (am.idxOf am[j]) j (by omega) (by omega)
      (by rw [List.getElem?_eq_getElem (by omega), List.getElem?_eq_getElem (by omega), hb])
    rw [this]
  set σ0 := pin v.bids idx (fun _ => 0) with hσ0
  -- the assignment read at the bond of a logical axis
  have hσax : ∀ j (hj : j < v.bids.length), σ0 v.bids[j] = idx[j]?.getD 0 := fun j hj =>
    pin_int_getElem _ _ _ hp j hj
  have hoeq : (List.range tree.info.idxout.length).map (fun k => idx[am.idxOf k]?.getD 0) = nodeIdx net tree.info σ0 := by
    unfold nodeIdx
    apply List.map_congr_left
    intro k hk
    obtain ⟨j, hja, hjk⟩ := hsurj k (List.mem_range.mp hk)
    rw [List.getElem?_eq_getElem hja] at hjk
    have hjk' : am[j] = k := Option.some.inj hjk
    obtain ⟨_, _, h2⟩ := hax j (by omega)
    rw [← hjk', h2, hσax j (by omega), hfacG j hja]
  have hInR : InR net tree.info σ0 := by
    intro k hk
    obtain ⟨j, hja, hjk⟩ := hsurj k hk
    rw [List.getElem?_eq_getElem hja] at hjk
    have hjk' : am[j] = k := Option.some.inj hjk
    obtain ⟨_, _, h2⟩ := hax j (by omega)
    rw [← hjk', h2, hσax j (by omega)]
    exact hidxlt j (by omega)
  rw [toFullSem_of_factor _ _ _ (nodeIdx net tree.info σ0) (by rw [hrlen]; simp [nodeIdx])
    (by intro ax hax'; exact hsurj ax (by omega))
    (by
      intro j hj ax hjax haxl
      have haxl' : ax < tree.info.idxout.length := by omega
      rw [List.getElem?_eq_getElem hj] at hjax
      cases hjax
      rw [← hoeq]
      simp only [List.getElem?_map, List.getElem?_range haxl', Option.map_some, Option.getD_some]
      exact hfacG j hj)]
  rw [hval σ0 hInR]
  unfold full
  rw [hv]
  simp only
  rw [if_pos hp]
  -- the summed bonds
  have hperm : (treeElims net tree).Perm (internalBids net v) := by
    apply (List.perm_ext_iff_of_nodup hI.i4 (by unfold internalBids; exact hwf.bnodup.filter _)).mpr
    intro b
    rw [mem_internalBids]
    constructor
    · intro hb
      obtain ⟨h1, h2⟩ := hI.i3 b hb
      refine ⟨?_, ?_⟩
      · by_contra hcon; exact h1 (bondLegs_of_notMem hcon)
      · intro hbv
        obtain ⟨j, hj⟩ := List.mem_iff_getElem?.mp hbv
        have := h2 (-1, j) ((mem_bondLegs_iff hwf).mpr ⟨v, hv, hj⟩)
        exact (hI.i5 _ this).1 rfl
    · rintro ⟨hk, hnv⟩
      obtain ⟨ta, hta⟩ := List.exists_mem_of_ne_nil _ (bondLegs_ne_nil hwf hk)
      obtain ⟨t, a⟩ := ta
      obtain ⟨T, hT, hbT⟩ := (mem_bondLegs_iff hwf).mp hta
      have hne : t ≠ -1 := by
        rintro rfl
        rw [hv] at hT; cases hT
        exact hnv (List.mem_of_getElem? hbT)
      have htl : t ∈ treeLeaves tree := by
        rw [← mem_isort, hrc.leavesEq]
        have hns : (isort (dkeys net.tensors)).Nodup := (isort_perm _).nodup_iff.mpr hwf.tnodup
        rw [hns.mem_erase_iff]
        exact ⟨hne, mem_isort.mpr ((dget_isSome_iff _ _).mp (by rw [hT]; rfl))⟩
      have hlb : legBond net (t, a) = some b := legBond_eq_some_iff.mpr ⟨T, hT, hbT⟩
      by_contra hcon
      have ho := (hI.i2 t htl a b hlb).mpr hcon
      obtain ⟨k, hk', _, hkb⟩ := hI.info.track ho
      rw [hlb] at hkb
      obtain ⟨b', hb', hbv⟩ := hrc.legs k hk'
      have : legB net tree.info k = b' := by simp [legB, hb']
      rw [this] at hkb
      cases hkb
      exact hnv hbv
  rw [sumOver_perm _ hperm]
  apply sumOver_congr
  intro σ
  rw [treeProd_eq_prodL, prodL_realTensors hwf.tnodup (fun t => D t.dataref (t.bids.map σ)), ← hrc.leavesEq]
  refine (prodL_perm ((isort_perm _).map _).symm).trans ?_
  congr 1

theorem rootInj_of_nodupB {net : Net} {c : NodeInfo} (hi : InfoCert net c)
    (h : nodupB ((List.range c.idxout.length).map (nodeLegBond net c)) = true) : RootInj net c := by
  rw [nodupB_iff] at h
  intro k k' hk hk' he
  obtain ⟨oa, hm, _⟩ := hi.leg hk
  obtain ⟨oa', hm', _⟩ := hi.leg hk'
  have e1 := (hi.pairs _ hm).2.2
  have e2 := (hi.pairs _ hm').2.2
  simp only at e1 e2
  have hkk : ((List.range c.idxout.length).map (nodeLegBond net c)).get ⟨k, by simpa using hk⟩ =
      ((List.range c.idxout.length).map (nodeLegBond net c)).get ⟨k', by simpa using hk'⟩ := by
    simp only [List.get_eq_getElem, List.getElem_map, List.getElem_range, e1, e2, he]
  have := (List.Nodup.get_inj_iff h).mp hkk
  simpa using this

theorem rootOKStrong_iff {net : Net} {tree : Tree} {am : List Nat} : rootOKStrong net tree am = true ↔
    rootOK net tree am = true ∧ nodupB ((List.range tree.info.idxout.length).map (nodeLegBond net tree.info)) = true := by
  simp [rootOKStrong]

/-- **Soundness of the strengthened certificates** `treeOKList` / `rootOKStrong` (no further hypothesis on the root) -/
theorem tree_sound_strong {net : Net} (hwf : WF net) {v : STensor} (hv : dget net.tensors (-1) = some v)
    (D : Option Int → List Nat → α) (dict : Int → Option (DT α)) (tree : Tree) (am : List Nat)
    (hok : ∀ x ∈ treeOKList net tree, x = true) (hroot : rootOKStrong net tree am = true)
    (hdata : ∀ i ∈ leafInfos tree, LeafDataOK net D dict i)
    {r : DT α} (hr : treeEval dict tree = .ok r) (idx : List Nat)
    (hidx : List.Forall₂ (fun i d => i < d) idx v.shape) :
    toFullSem r am idx = full net D idx := by
  obtain ⟨h1, h2⟩ := rootOKStrong_iff.mp hroot
  have hI := treeInv hwf tree hok (rootOK_cert hv h1).leavesNodup
  exact tree_sound hwf hv D dict tree am hok h1 (rootInj_of_nodupB hI.info h2) hdata hr idx hidx

end Qib.TNet
