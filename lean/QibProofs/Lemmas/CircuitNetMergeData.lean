import QibProofs.Lemmas.CircuitNetRun
/-!
Helper lemmas for C05 (tensor-network part), part 12: `merge` changes no real tensor's shape or data reference – every
real tensor of the merged network is a real tensor of one of the operands (possibly under a new id, with renamed bonds).
Hence `TensorNetwork.merge` keeps the network consistent *with its data dictionary*. No property statements.
-/
set_option linter.unusedSimpArgs false
set_option linter.unusedSectionVars false
namespace Qib.CircuitNet
open Qib.TNet Qib.GateNet

/-- shape and data reference of a tensor -/
def sdOf (t : STensor) : List Nat × Option Int := (t.shape, t.dataref)

/-- key, shape and data reference of a dictionary entry -/
def sd3 (e : Int × STensor) : Int × List Nat × Option Int := (e.1, e.2.shape, e.2.dataref)

/-- every entry but the one under key `vk` has its (shape, data reference) in `S` -/
def RealIn (S : List (List Nat × Option Int)) (vk : Int) (ts : List (Int × STensor)) : Prop :=
  ∀ e ∈ ts, e.1 ≠ vk → sdOf e.2 ∈ S

theorem realIn_of_map_eq {S : List (List Nat × Option Int)} {vk : Int} {ts ts' : List (Int × STensor)}
    (h : ts'.map sd3 = ts.map sd3) (hr : RealIn S vk ts) : RealIn S vk ts' := by
  intro e he hne
  have : sd3 e ∈ ts.map sd3 := by rw [← h]; exact List.mem_map.mpr ⟨e, he, rfl⟩
  obtain ⟨e0, he0, heq⟩ := List.mem_map.mp this
  simp only [sd3, Prod.mk.injEq] at heq
  have := hr e0 he0 (by rw [heq.1]; exact hne)
  simp only [sdOf] at this ⊢
  rw [← heq.2.1, ← heq.2.2]; exact this

theorem relTensors_sd3 (ρ : Int → Int) (ts : List (Int × STensor)) : (relTensors ρ ts).map sd3 = ts.map sd3 := by
  simp [relTensors, sd3, List.map_map, Function.comp_def]

theorem mergeBonds_sd3 {net net' : Net} {b1 b2 : Int} (h : mergeBonds net b1 b2 = .ok net') :
    net'.tensors.map sd3 = net.tensors.map sd3 := by
  rw [mergeBonds_eq] at h
  split at h
  · cases h; rfl
  · split at h
    · cases h
    · split at h
      · cases h
      · split at h
        · cases h
        · simp only [Except.ok.injEq] at h
          subst h
          simp only [mrgBTensors, List.map_map]
          apply List.map_congr_left
          intro e _
          simp only [Function.comp, sd3]
          split <;> rfl

theorem joinStep_sd3 {orig : Nat} {st st' : Net × List Nat} {ja : Nat × Nat} (h : joinStep orig st ja = .ok st') :
    st'.1.tensors.map sd3 = st.1.tensors.map sd3 := by
  unfold joinStep at h
  simp only [bind, Except.bind] at h
  split at h
  · split at h
    · split at h
      · split at h
        · cases h
        · rename_i net hm
          simp only [pure, Except.pure, Except.ok.injEq] at h
          subst h
          exact mergeBonds_sd3 hm
      · cases h
    · cases h
  · cases h

theorem joinFold_sd3 {orig : Nat} (L : List (Nat × Nat)) {st st' : Net × List Nat}
    (h : L.foldlM (joinStep orig) st = .ok st') : st'.1.tensors.map sd3 = st.1.tensors.map sd3 := by
  induction L generalizing st with
  | nil => have := foldlM_nil_ok _ _ _ h; subst this; rfl
  | cons x xs ih =>
    obtain ⟨s1, hs, hrest⟩ := foldlM_cons_ok _ _ _ _ _ h
    rw [ih hrest, joinStep_sd3 hs]

theorem delStep_tensors {net net' : Net} {d : Nat} (h : delStep net d = .ok net') : net'.tensors = net.tensors := by
  unfold delStep at h
  simp only [bind, Except.bind] at h
  split at h
  · split at h
    · split at h
      · split at h
        · cases h
        · simp only [pure, Except.pure, Except.ok.injEq] at h
          subst h; rfl
      · cases h
    · cases h
  · cases h

theorem delFold_tensors (L : List Nat) {net net' : Net} (h : L.foldlM delStep net = .ok net') :
    net'.tensors = net.tensors := by
  induction L generalizing net with
  | nil => have := foldlM_nil_ok _ _ _ h; subst this; rfl
  | cons x xs ih =>
    obtain ⟨s1, hs, hrest⟩ := foldlM_cons_ok _ _ _ _ _ h
    rw [ih hrest, delStep_tensors hs]

/-- the (shape, data reference) pairs of the real tensors of a network -/
def realSD (net : Net) : List (List Nat × Option Int) :=
  (net.tensors.filter (fun e => e.1 != -1)).map (fun e => sdOf e.2)

theorem realIn_self (net : Net) : RealIn (realSD net) (-1) net.tensors := by
  intro e he hne
  exact List.mem_map.mpr ⟨e, List.mem_filter.mpr ⟨he, by simpa using hne⟩, rfl⟩

/-- **`merge` invents no tensor**: every real tensor of the result has the shape and the data reference of a real
tensor of one of the two operands -/
theorem merge_realIn {a b net' : Net} {j : List (Int × Int)} {tor bor : List Int} (ha : WF a) (hb : WF b)
    (htor : tor.Perm (sharedTids a b)) (hbor : bor.Perm (sharedBids a b))
    (h : merge a b j tor bor = .ok net') : RealIn (realSD a ++ realSD b) (-1) net'.tensors := by
  obtain ⟨orig, nb, o1, tmpOpen, n1, o2, n2, m1, toa1, m2, axesMap, m3, toa3, _, _, _, hf1, hf2, hm1,
    _, hf3, hf4, _, _, hnet⟩ := merge_ok_inv h
  set S := realSD a ++ realSD b with hS
  have pd := merge_predata ha hb htor hbor hf1 hf2 hm1
  -- the tensor renaming loop keeps every real tensor of `b`
  obtain ⟨w1, _, _, _, _, _⟩ := renT_fold (st := (b, -1, _)) hb.toWF0 hf1
  simp only at w1
  have hmaxT : ∀ k ∈ dkeys a.tensors ++ dkeys b.tensors, k ≤ maxKey (dkeys a.tensors ++ dkeys b.tensors) :=
    fun k hk => le_maxKey hk
  have hN0 : (0 : Int) ≤ maxKey (dkeys a.tensors ++ dkeys b.tensors) + 1 := by
    have := hmaxT (-1) (List.mem_append_left _ ha.virt); omega
  have htrack := renT_fold_track (fun net vid => RealIn S vid net.tensors)
    (by
      intro net net' cur new vid hw hok hvid hQ
      obtain ⟨Tc, hTc, hnew, rfl⟩ := renameTensor_spec hw hok
      intro e he hne
      simp only [List.mem_append, List.mem_singleton] at he
      rcases he with he | rfl
      · obtain ⟨he1, he2⟩ := mem_dpop.mp he
        apply hQ e he1
        intro hev
        apply hne
        rw [hev, rep_of_ne (by rw [← hev]; exact he2)]
      · simp only at hne ⊢
        have hvc : vid ≠ cur := by
          intro hvc; apply hne; rw [hvc, rep_self]
        exact hQ (cur, Tc) (mem_of_dget_eq_some _ hTc) (fun e => hvc e.symm))
    (st := (b, -1, _)) (N0 := maxKey (dkeys a.tensors ++ dkeys b.tensors) + 1) hN0
    (by
      intro t ht
      have := hmaxT t (List.mem_append_left _ (mem_sharedTids.mp (htor.mem_iff.mp ht)).1); omega)
    (le_refl _)
    (by intro k hk; have := hmaxT k (List.mem_append_right _ hk); simp only; omega)
    hb.virt (Or.inl rfl) hb.toWF0
    (by
      intro e he hne
      exact List.mem_append_right _ (realIn_self b e he hne)) hf1
  simp only at htrack
  -- the bond renaming loop
  have htrack2 := renB_fold_track (fun net => RealIn S tmpOpen net.tensors)
    (by
      intro net net' cur new hw hok hQ
      obtain ⟨B, _, _, rfl⟩ := renameBond_spec hw hok
      exact realIn_of_map_eq (relTensors_sd3 _ _) hQ)
    (st := (o1, _)) w1 htrack.1 hf2
  simp only at htrack2
  -- the union and the fusion of the virtual tensors
  obtain ⟨vb2, hvb2, hm1'⟩ := pd.virt2
  have wu := union_wf0 ha.toWF0 pd.w2 pd.disjT pd.disjB
  obtain ⟨T1, T2, hT1, hT2, heq⟩ := mergeTensors_spec wu pd.tmpne hm1'
  have hm1r : RealIn S (-1) m1.tensors := by
    rw [heq]
    intro e he hne
    simp only [dmodify, List.mem_map] at he
    obtain ⟨e0, he0, rfl⟩ := he
    obtain ⟨he1, he2⟩ := mem_dpop.mp he0
    have hk : e0.1 ≠ -1 := by
      intro hk; apply hne; split <;> simp_all
    have hb' : (e0.1 == -1) = false := by simpa using hk
    simp only [hb', Bool.false_eq_true, if_false]
    rcases List.mem_append.mp he1 with h1 | h1
    · exact List.mem_append_left _ (realIn_self a e0 h1 hk)
    · exact htrack2 e0 h1 he2
  -- joins and deletions touch bond ids only
  have hm2 := joinFold_sd3 _ hf3
  have hm3 := delFold_tensors _ hf4
  have hm3r : RealIn S (-1) m3.tensors := by rw [hm3]; exact realIn_of_map_eq hm2 hm1r
  rw [hnet]
  intro e he hne
  simp only [dmodify, List.mem_map] at he
  obtain ⟨e0, he0, rfl⟩ := he
  have hk : e0.1 ≠ -1 := by
    intro hk; apply hne; split <;> simp_all
  have hb' : (e0.1 == -1) = false := by simpa using hk
  simp only [hb', Bool.false_eq_true, if_false]
  exact hm3r e0 he0 hk

section Data
variable {α : Type} [Zero α] [DecidableEq α]

/-- what `isConsistentData` says about the real tensors, in terms of `realSD` -/
theorem realSD_ok {tn : TN α} (hk : ∀ e ∈ tn.net.tensors, e.2.tid = e.1)
    (h : GateNet.isConsistentData tn = .ok true) :
    ∀ p ∈ realSD tn.net, ∃ r d, p.2 = some r ∧ tn.data.lookup r = some d ∧ d.shape = p.1 := by
  intro p hp
  simp only [realSD, List.mem_map, List.mem_filter] at hp
  obtain ⟨e, ⟨he, hne⟩, rfl⟩ := hp
  have hne' : e.2.tid ≠ -1 := by rw [hk e he]; simpa using hne
  obtain ⟨r, d, hr, hd, hs⟩ := (isConsistentDataTN_ok h).2 e he hne'
  exact ⟨r, d, hr, hd, hs⟩

/-- **`TensorNetwork.merge` keeps the network consistent with its data**: both operands consistent (symbolically and
with their dictionaries), dictionaries without clash ⇒ the merged network with the united dictionary passes
`TensorNetwork.is_consistent()` -/
theorem mergeTN_consistentData {a b tn' : TN α} {j : List (Int × Int)} {tor bor : List Int}
    (ha : C08.Inv a.net) (hb : C08.Inv b.net) (hda : GateNet.isConsistentData a = .ok true)
    (hdb : GateNet.isConsistentData b = .ok true) (hbn : (dkeys b.data).Nodup)
    (hdim : C08.JoinDimsMatch a.net b.net j) (h : mergeTN a b j tor bor = .ok tn') :
    GateNet.isConsistentData tn' = .ok true := by
  obtain ⟨ho, hm, hcl, hdata⟩ := mergeTN_ok h
  have wa := (C08.C08_inv_iff_wf _).mp ha
  have wb := (C08.C08_inv_iff_wf _).mp hb
  have hinv' := C08.C08_merge_consistent ha hb ho hdim hm
  have w' := (C08.C08_inv_iff_wf _).mp hinv'
  have hreal := merge_realIn wa wb ho.1 ho.2 hm
  have hc : isConsistent tn'.net = .ok true := hinv'.2
  simp only [GateNet.isConsistentData, hc, bind, Except.bind, Bool.not_true, Bool.false_eq_true, if_false, pure,
    Except.pure, Except.ok.injEq, List.all_eq_true, Bool.or_eq_true, beq_iff_eq]
  intro e he
  by_cases hk : e.1 = -1
  · left; rw [w'.tkey e he]; exact hk
  · right
    have hmem := hreal e he hk
    rcases List.mem_append.mp hmem with h1 | h1
    · obtain ⟨r, d, hr, hd, hs⟩ := realSD_ok wa.tkey hda _ h1
      simp only [sdOf] at hr hs
      rw [hr]
      simp only
      have hkeys : r ∈ dkeys a.data := mem_dkeys_of_mem (mem_of_lookup_eq_some hd)
      have : tn'.data.lookup r = some d := by
        rw [hdata]
        by_cases hrb : r ∈ dkeys b.data
        · obtain ⟨v, hv⟩ := exists_mem_of_mem_dkeys hrb
          rw [lookup_dupdate_of_mem _ _ hbn hv]
          have := dataClash_false hcl (r, v) hv d hd
          simp only at this
          rw [this]
        · rw [lookup_dupdate_of_notMem _ _ _ hrb]; exact hd
      rw [this]
      simpa using hs
    · obtain ⟨r, d, hr, hd, hs⟩ := realSD_ok wb.tkey hdb _ h1
      simp only [sdOf] at hr hs
      rw [hr]
      simp only
      have : tn'.data.lookup r = some d := by
        rw [hdata]; exact lookup_dupdate_of_mem _ _ hbn (mem_of_lookup_eq_some hd)
      rw [this]
      simpa using hs

/-- re-numbering the data references of a gate network keeps it consistent with its (re-numbered) dictionary -/
theorem rerefTN_consistentData {tn : TN α} {ref0 : Int} (hwf : WF tn.net)
    (hd : GateNet.isConsistentData tn = .ok true) (hfresh : ∀ k ∈ dkeys tn.data, k ≠ 0 → k ≠ ref0) :
    GateNet.isConsistentData (rerefTN ref0 tn) = .ok true := by
  have hc : isConsistent (rerefTN ref0 tn).net = .ok true := consistent_of_wf (wf_reref hwf)
  simp only [GateNet.isConsistentData, hc, bind, Except.bind, Bool.not_true, Bool.false_eq_true, if_false, pure,
    Except.pure, Except.ok.injEq, List.all_eq_true, Bool.or_eq_true, beq_iff_eq]
  intro e he
  simp only [rerefTN, List.mem_map] at he
  obtain ⟨e0, he0, rfl⟩ := he
  by_cases hk : e0.2.tid = -1
  · left; exact hk
  · right
    obtain ⟨r, d, hr, hdl, hs⟩ := (isConsistentDataTN_ok hd).2 e0 he0 hk
    have hkeys : r ∈ dkeys tn.data := mem_dkeys_of_mem (mem_of_lookup_eq_some hdl)
    simp only [rerefTensor, hr, Option.map_some]
    have : (rerefTN ref0 tn).data.lookup (reref ref0 r) = some d := by
      show (tn.data.map (fun e => (reref ref0 e.1, e.2))).lookup (reref ref0 r) = some d
      rw [lookup_map_key_inj tn.data (reref ref0) r]
      · exact hdl
      · intro k' hk' he
        unfold reref at he
        by_cases h1 : k' = 0 <;> by_cases h2 : r = 0
        · rw [h1, h2]
        · simp only [h1, h2, if_true, if_false] at he; exact absurd he.symm (hfresh r hkeys h2)
        · simp only [h1, h2, if_true, if_false] at he; exact absurd he (hfresh k' hk' h1)
        · simpa [h1, h2] using he
    rw [this]
    simpa using hs

/-- `transpose` touches the virtual tensor only: consistency with the data is kept -/
theorem transposeTN_consistentData {tn tn' : TN α} {axes : List Int} (hinv : C08.Inv tn.net)
    (hd : GateNet.isConsistentData tn = .ok true) (h : transposeTN tn axes = .ok tn') :
    GateNet.isConsistentData tn' = .ok true := by
  unfold transposeTN at h
  simp only [bind, Except.bind] at h
  cases ht : transpose tn.net (some axes) with
  | error e => rw [ht] at h; simp [liftT] at h
  | ok net2 =>
    rw [ht] at h
    simp only [liftT, pure, Except.pure, Except.ok.injEq] at h
    subst h
    have hinv2 := C08.C08_transpose_consistent hinv ht
    have hw := (C08.C08_inv_iff_wf _).mp hinv
    obtain ⟨v, hv, _, rfl⟩ := transpose_spec hw ht
    have hc : isConsistent (⟨dmodify tn.net.tensors (-1) (fun _ => transposedVirt v (some axes)), tn.net.bonds⟩ : Net) = .ok true :=
      hinv2.2
    simp only [GateNet.isConsistentData, hc, bind, Except.bind, Bool.not_true, Bool.false_eq_true, if_false, pure,
      Except.pure, Except.ok.injEq, List.all_eq_true, Bool.or_eq_true, beq_iff_eq]
    intro e he
    simp only [dmodify, List.mem_map] at he
    obtain ⟨e0, he0, rfl⟩ := he
    by_cases hk : e0.1 = -1
    · left
      have hb' : (e0.1 == -1) = true := by simpa using hk
      simp only [hb', if_true, transposedVirt]
      have := hw.tkey _ (mem_of_dget_eq_some _ hv)
      simpa using this
    · right
      have hb' : (e0.1 == -1) = false := by simpa using hk
      simp only [hb', Bool.false_eq_true, if_false]
      have hne : e0.2.tid ≠ -1 := by rw [hw.tkey e0 he0]; exact hk
      obtain ⟨r, d, hr, hdl, hs⟩ := (isConsistentDataTN_ok hd).2 e0 he0 hne
      rw [hr]; simp only; rw [hdl]; simpa using hs

end Data

section Never
variable {α : Type} [CommSemiring α] [DecidableEq α]

/-- **the `assert net.is_consistent()` of the loop never fires**: from a consistent state, whatever `gateStepCore`
returns passes `TensorNetwork.is_consistent()` (symbolically and with the data dictionary) – for every gate with two
open axes per wire whose own data reference does not collide with a fixed one -/
theorem gateStepCore_consistentData {fields : List Embed.FieldSpec} {n : Nat} {tn tn' : TN α} {p : PGate α}
    (hst : StateOK n tn) (h : gateStepCore fields n tn p = .ok tn') (htwo : C06.TwoAxesPerWire p.g)
    (hfresh : ∀ gtn, gateNet p.g = .ok gtn → ∀ k ∈ dkeys gtn.data, k ≠ 0 → k ≠ p.ref0) :
    GateNet.isConsistentData tn' = .ok true := by
  -- re-run the anatomy, keeping the intermediate `TensorNetwork`
  unfold gateStepCore at h
  simp only [bind, Except.bind] at h
  split at h
  · simp [throw, throwThe, MonadExceptOf.throw] at h
  · cases hg : gateNet p.g with
    | error e => rw [hg] at h; simp [liftG] at h
    | ok gtn =>
      rw [hg] at h
      simp only [liftG] at h
      cases hno : numOpenAxes (rerefTN p.ref0 gtn).net with
      | error e => rw [hno] at h; simp [liftT] at h
      | ok k =>
        rw [hno] at h
        simp only [liftT] at h
        split at h
        · simp [throw, throwThe, MonadExceptOf.throw] at h
        · rename_i hk
          have hk' : k = 2 * p.particles.length := by simpa using hk
          subst hk'
          cases hm : mergeTN tn (rerefTN p.ref0 gtn)
              ((p.particles.map (Embed.mapParticleToWire fields)).zip (irange' p.particles.length p.particles.length))
              p.tor p.bor with
          | error e => rw [hm] at h; cases h
          | ok tn1 =>
            rw [hm] at h
            simp only at h
            cases hp : permOf n (p.particles.map (Embed.mapParticleToWire fields)) with
            | error e => rw [hp] at h; cases h
            | ok perm =>
              rw [hp] at h
              simp only at h
              obtain ⟨hnd, hrange, _⟩ := permOf_ok hp
              have hgwf : WF gtn.net := gateNet_wf p.g gtn hg
              have hginv : C08.Inv (rerefTN p.ref0 gtn).net := inv_reref ((C08.C08_inv_iff_wf _).mpr hgwf)
              have hgd := rerefTN_consistentData hgwf (C06.C06_gateNet_consistent_data p.g gtn hg) (hfresh gtn hg)
              have hgnd := gateNet_data_nodup p.g gtn hg
              have hfr := hfresh gtn hg
              have hnd' : (dkeys (rerefTN p.ref0 gtn).data).Nodup := by
                rw [dkeys_reref_data]
                refine List.Nodup.map_on ?_ hgnd
                intro a ha b hb hab
                unfold reref at hab
                by_cases h1 : a = 0 <;> by_cases h2 : b = 0
                · rw [h1, h2]
                · simp only [h1, h2, if_true, if_false] at hab; exact absurd hab.symm (hfr b hb h2)
                · simp only [h1, h2, if_true, if_false] at hab; exact absurd hab (hfr a ha h1)
                · simpa [h1, h2] using hab
              -- dimensions of the joined axes
              obtain ⟨va, hva, hsa⟩ := hst.shape
              obtain ⟨hgno, hgsh⟩ := htwo gtn hg
              obtain ⟨vb, hvb⟩ := hgwf.virt_get
              have hsb0 : vb.shape = rep2 (2 * p.g.wires) := by
                unfold netShape virt at hgsh; rw [hvb] at hgsh; exact Except.ok.inj hgsh
              have hvb' : dget (rerefTN p.ref0 gtn).net.tensors (-1) = some (rerefTensor p.ref0 vb) := by
                rw [rerefTN_net, dget_reref, hvb]; rfl
              have hwl : p.particles.length = p.g.wires := by
                rw [numOpenAxes_eq hvb'] at hno
                have := Except.ok.inj hno
                simp only [rerefTensor, hsb0, length_rep2] at this
                omega
              have hj : (p.particles.map (Embed.mapParticleToWire fields)).zip (irange' p.particles.length p.particles.length) =
                  joinOf (p.particles.map (Embed.mapParticleToWire fields)) := by simp [joinOf]
              have hdim : C08.JoinDimsMatch tn.net (rerefTN p.ref0 gtn).net
                  ((p.particles.map (Embed.mapParticleToWire fields)).zip (irange' p.particles.length p.particles.length)) := by
                rw [hj]
                intro va' vb' hva' hvb'' ja hja
                rw [hva] at hva'; rw [hvb'] at hvb''
                cases hva'; cases hvb''
                obtain ⟨q, hq, rfl⟩ := mem_joinOf.mp hja
                have h1 := (hrange _ (List.getElem_mem hq)).2
                have hq' : q < p.particles.length := by simpa using hq
                rw [hsa]
                simp only [rerefTensor, hsb0, rep2, Int.ofNat_eq_natCast, Int.toNat_natCast, List.length_map]
                rw [List.getElem?_replicate, List.getElem?_replicate, if_pos h1, if_pos (by omega)]
              have hd1 := mergeTN_consistentData hst.inv hginv hst.data hgd hnd' hdim hm
              obtain ⟨ho, hmm, _, _⟩ := mergeTN_ok hm
              have hinv1 : C08.Inv tn1.net := C08.C08_merge_consistent hst.inv hginv ho hdim hmm
              exact transposeTN_consistentData hinv1 hd1 h

end Never

end Qib.CircuitNet
