import QibProofs.Lemmas.CompactLoopId
/-!
C13 helper lemmas, part 8: the literal layer of `QibModel/Compact.lean` (what the driver executes: integer
coordinates, rejections, strings built with the C09 model's `PS.ofSinglePaulis` / `PS.setPauli` and its generated
letter table) returns exactly the closed-layer strings (`vertexStr`, `edgeStr`, `loopStr`) on valid input and an
error otherwise.
-/
set_option linter.unusedSimpArgs false
namespace Qib.Compact
open Qib.Pauli Qib.Lattice

theorem parse_X : PS.parseLetter 'X' = some (false, true) := by decide
theorem parse_Y : PS.parseLetter 'Y' = some (true, true) := by decide
theorem parse_Z : PS.parseLetter 'Z' = some (true, false) := by decide

theorem ofSingle_one (n k : Nat) (c : Char) (z x : Bool) (q : Int) (hc : PS.parseLetter c = some (z, x)) (hk : k < n) :
    PS.ofSinglePaulis n [(c, (k : Int))] q =
      .ok (setL ⟨List.replicate n false, List.replicate n false, qOfInt q⟩ k z x) := by
  have h1 : ¬ ((k : Int) < 0 ∨ n ≤ k) := by omega
  simp [PS.ofSinglePaulis, PS.ofSinglePaulis.go, h1, hc, setL, bind, Except.bind, pure, Except.pure]

theorem ofSingle_two (n k1 k2 : Nat) (c1 c2 : Char) (z1 x1 z2 x2 : Bool) (q : Int)
    (hc1 : PS.parseLetter c1 = some (z1, x1)) (hc2 : PS.parseLetter c2 = some (z2, x2)) (hk1 : k1 < n) (hk2 : k2 < n) :
    PS.ofSinglePaulis n [(c1, (k1 : Int)), (c2, (k2 : Int))] q =
      .ok (setL (setL ⟨List.replicate n false, List.replicate n false, qOfInt q⟩ k1 z1 x1) k2 z2 x2) := by
  have h1 : ¬ ((k1 : Int) < 0 ∨ n ≤ k1) := by omega
  have h2 : ¬ ((k2 : Int) < 0 ∨ n ≤ k2) := by omega
  simp [PS.ofSinglePaulis, PS.ofSinglePaulis.go, h1, h2, hc1, hc2, setL, bind, Except.bind, pure, Except.pure]

/-- `from_single_paulis(n, ('X', a), ('Y', b), q=q)` -/
theorem ofSingle_XY (n a b : Nat) (q : Int) (ha : a < n) (hb : b < n) :
    PS.ofSinglePaulis n [('X', (a : Int)), ('Y', (b : Int))] q = .ok (two n a b (qOfInt q)) :=
  ofSingle_two n a b 'X' 'Y' _ _ _ _ q parse_X parse_Y ha hb

theorem setPauli_nat (P : PS) (c : Char) (z x : Bool) (f : Nat) (hc : PS.parseLetter c = some (z, x)) (hf : f < P.z.length) :
    P.setPauli c (f : Int) = .ok (setL P f z x) := by
  have h2 : ¬ ((f : Int) < 0) := by omega
  simp [PS.setPauli, hc, h2, setL, hf]

theorem setPauli_two (n a b : Nat) (q : Fin 4) (c : Char) (z x : Bool) (f : Nat) (hc : PS.parseLetter c = some (z, x))
    (hf : f < n) : (two n a b q).setPauli c (f : Int) = .ok (setL (two n a b q) f z x) :=
  setPauli_nat _ c z x f hc (by rw [(two_hasLen n a b q).1]; exact hf)

/-! ### coordinates -/

theorem isNN_iff (ix iy jx jy : Nat) :
    isNN ((ix : Int), (iy : Int)) ((jx : Int), (jy : Int)) = true ↔ NN ix iy jx jy := by
  simp only [isNN, NN, Bool.or_eq_true, Bool.and_eq_true, beq_iff_eq]
  omega

theorem inBox_iff (n0 n1 : Nat) (c : Int × Int) :
    inBox n0 n1 c = true ↔ ∃ x y : Nat, c = ((x : Int), (y : Int)) ∧ x < n0 ∧ y < n1 := by
  simp only [inBox, Bool.and_eq_true, decide_eq_true_eq]
  constructor
  · rintro ⟨⟨⟨h1, h2⟩, h3⟩, h4⟩
    refine ⟨c.1.toNat, c.2.toNat, ?_, by omega, by omega⟩
    apply Prod.ext <;> simp <;> omega
  · rintro ⟨x, y, rfl, h1, h2⟩
    simp; omega

theorem vertexIndex_nat {n0 n1 x y : Nat} (hx : x < n0) (hy : y < n1) :
    vertexIndex n0 n1 ((x : Int), (y : Int)) = .ok (vIdx n1 x y) := by
  simp [vertexIndex, inBox, hx, hy]

/-- `coord_to_index` accepts exactly the vertices of the rectangle -/
theorem vertexIndex_ok_iff (n0 n1 : Nat) (c : Int × Int) (k : Nat) :
    vertexIndex n0 n1 c = .ok k ↔ ∃ x y : Nat, c = ((x : Int), (y : Int)) ∧ x < n0 ∧ y < n1 ∧ k = vIdx n1 x y := by
  unfold vertexIndex
  by_cases h : inBox n0 n1 c = true
  · obtain ⟨x, y, rfl, hx, hy⟩ := (inBox_iff n0 n1 c).mp h
    rw [if_pos h]
    simp only [Int.toNat_natCast, Except.ok.injEq, Prod.mk.injEq, Int.natCast_inj]
    constructor
    · rintro rfl; exact ⟨x, y, ⟨rfl, rfl⟩, hx, hy, rfl⟩
    · rintro ⟨x', y', ⟨rfl, rfl⟩, -, -, rfl⟩; rfl
  · rw [if_neg h]
    constructor
    · intro e; cases e
    · rintro ⟨x, y, rfl, hx, hy, -⟩
      exact absurd ((inBox_iff n0 n1 _).mpr ⟨x, y, rfl, hx, hy⟩) h

theorem vertexIndex_err (n0 n1 : Nat) (c : Int × Int) (h : ¬ ∃ x y : Nat, c = ((x : Int), (y : Int)) ∧ x < n0 ∧ y < n1) :
    vertexIndex n0 n1 c = .error .valueError := by
  unfold vertexIndex
  rw [if_neg (fun hb => h ((inBox_iff n0 n1 c).mp hb))]

/-! ### vertex operator -/

theorem vertexOp_ok {n0 n1 x y : Nat} (hx : x < n0) (hy : y < n1) :
    vertexOp n0 n1 ((x : Int), (y : Int)) = .ok (vertexStr n0 n1 x y) := by
  have hk := vIdx_lt_nsites (n0 := n0) (n1 := n1) hx hy
  simp only [vertexOp, vertexIndex_nat hx hy, bind, Except.bind, ofSingle_one _ _ 'Z' _ _ 0 parse_Z hk, liftP]
  rfl

theorem vertexOp_err (n0 n1 : Nat) (c : Int × Int) (h : ¬ ∃ x y : Nat, c = ((x : Int), (y : Int)) ∧ x < n0 ∧ y < n1) :
    vertexOp n0 n1 c = .error .valueError := by
  simp only [vertexOp, vertexIndex_err n0 n1 c h, bind, Except.bind]

/-! ### auxiliary face -/

theorem auxFace_lt {n0 n1 : Nat} {horiz : Bool} {x y f : Nat} (h : auxFace n0 n1 horiz x y = some f) :
    f < ofcNsites n0 n1 := by
  rw [auxFace_eq_auxC] at h
  cases hc : auxC n0 n1 horiz x y with
  | none => rw [hc] at h; cases h
  | some c =>
    rw [hc] at h
    simp only [Option.map_some, Option.some.injEq] at h
    subst h
    exact fIdx_lt (auxC_faceOK hc)

/-- `edge_to_odd_face_index` on an edge of the rectangle -/
theorem edgeFace_ok {n0 n1 ix iy jx jy : Nat} (h : EdgeOk n0 n1 ix iy jx jy) :
    edgeFace n0 n1 ((ix : Int), (iy : Int)) ((jx : Int), (jy : Int)) =
      .ok (auxFace n0 n1 (ix == jx) (min ix jx) (min iy jy)) := by
  obtain ⟨h1, h2, h3, h4, hnn⟩ := h
  have nn := (isNN_iff ix iy jx jy).mpr hnn
  have m1 : (min (ix : Int) (jx : Int)).toNat = min ix jx := by omega
  have m2 : (min (iy : Int) (jy : Int)).toNat = min iy jy := by omega
  have c1 : ¬ (min (ix : Int) (jx : Int) < 0 ∨ min (iy : Int) (jy : Int) < 0 ∨ min (ix : Int) (jx : Int) ≥ n0 ∨
      min (iy : Int) (jy : Int) ≥ n1) := by omega
  have eb : ((ix : Int) == (jx : Int)) = (ix == jx) := by
    by_cases e : ix = jx <;> simp [e]
  simp only [edgeFace, nn, Bool.not_true, Bool.false_eq_true, if_false, c1, m1, m2, eb]

/-- … and its rejections: not a nearest-neighbour pair, or smaller corner outside the rectangle: `ValueError` -/
theorem edgeFace_err (n0 n1 : Nat) (i j : Int × Int)
    (h : isNN i j = false ∨ min i.1 j.1 < 0 ∨ min i.2 j.2 < 0 ∨ min i.1 j.1 ≥ (n0 : Int) ∨ min i.2 j.2 ≥ (n1 : Int)) :
    edgeFace n0 n1 i j = .error .valueError := by
  unfold edgeFace
  by_cases nn : isNN i j = true
  · have c : min i.1 j.1 < 0 ∨ min i.2 j.2 < 0 ∨ min i.1 j.1 ≥ (n0 : Int) ∨ min i.2 j.2 ≥ (n1 : Int) := by
      rcases h with h | h
      · rw [nn] at h; cases h
      · exact h
    simp only [nn, Bool.not_true, Bool.false_eq_true, if_false, c, if_true]
  · have nn' : isNN i j = false := by simpa using nn
    simp only [nn', Bool.not_false, if_true]

/-! ### edge operator: the four orientations -/

set_option hygiene false in
local macro "edge_simp" : tactic => `(tactic|
  simp only [edgeOp, nn, vi, vj, ef, hA, bind, Except.bind, pure, Except.pure, Bool.not_true, Bool.false_eq_true, if_false,
    beq_self_eq_true, if_true, pi, o1, o2, eb, eb2, decide_false, decide_true, Bool.and_false, Bool.and_true, Bool.or_false,
    Bool.false_or, Bool.or_true, Bool.true_or, Bool.and_self, Bool.or_self,
    ofSingle_XY _ _ _ _ hn1 hn2, ofSingle_XY _ _ _ _ hn2 hn1, liftP,
    show qOfInt 0 = 0 from rfl, show qOfInt 2 = 2 from rfl,
    show ((0 : Int) == 1) = false from rfl, show ((1 : Int) == 0) = false from rfl,
    edgeStr, edgeCore, pn, e1, e2, e3, hmin1, hmin2, Nat.min_self,
    and_false, and_true, or_false, false_or, or_true, true_or, Nat.zero_ne_one, Nat.one_ne_zero, false_and, true_and])

theorem edgeOp_right {n0 n1 x y : Nat} (hx : x < n0) (hy : y + 1 < n1) :
    edgeOp n0 n1 ((x : Int), (y : Int)) ((x : Int), ((y + 1 : Nat) : Int)) = .ok (edgeStr n0 n1 x y x (y + 1)) := by
  have hE : EdgeOk n0 n1 x y x (y + 1) := ⟨hx, by omega, hx, hy, Or.inl ⟨rfl, Or.inl rfl⟩⟩
  have nn := (isNN_iff x y x (y + 1)).mpr hE.2.2.2.2
  have vi := vertexIndex_nat (n0 := n0) (n1 := n1) (x := x) (y := y) hx (by omega)
  have vj := vertexIndex_nat (n0 := n0) (n1 := n1) (x := x) (y := y + 1) hx hy
  have ef := edgeFace_ok hE
  have hn1 := vIdx_lt_nsites (n0 := n0) (n1 := n1) (x := x) (y := y) hx (by omega)
  have hn2 := vIdx_lt_nsites (n0 := n0) (n1 := n1) (x := x) (y := y + 1) hx hy
  have hmin1 : min x x = x := by omega
  have hmin2 : min y (y + 1) = y := by omega
  rw [hmin1, hmin2] at ef
  have eb : (x == x) = true := by simp
  rw [eb] at ef
  have o1 : ¬ (((y + 1 : Nat) : Int) < (y : Int)) := by omega
  have o2 : ((y : Int) < ((y + 1 : Nat) : Int)) := by omega
  have e1 : ¬ (y + 1 < y) := by omega
  have e2 : y < y + 1 := by omega
  have e3 : True := trivial
  have eb2 : True := trivial
  rcases Nat.mod_two_eq_zero_or_one x with pn | pn
  · have pi : (x : Int) % 2 = 0 := by omega
    cases hA : auxFace n0 n1 true x y with
    | none => edge_simp
    | some f =>
      have hf := auxFace_lt hA
      edge_simp
      simp only [setPauli_two (ofcNsites n0 n1) _ _ _ 'Y' _ _ f parse_Y hf]
  · have pi : (x : Int) % 2 = 1 := by omega
    cases hA : auxFace n0 n1 true x y with
    | none => edge_simp
    | some f =>
      have hf := auxFace_lt hA
      edge_simp
      simp only [setPauli_two (ofcNsites n0 n1) _ _ _ 'Y' _ _ f parse_Y hf]

theorem edgeOp_left {n0 n1 x y : Nat} (hx : x < n0) (hy : y + 1 < n1) :
    edgeOp n0 n1 ((x : Int), ((y + 1 : Nat) : Int)) ((x : Int), (y : Int)) = .ok (edgeStr n0 n1 x (y + 1) x y) := by
  have hE : EdgeOk n0 n1 x (y + 1) x y := ⟨hx, hy, hx, by omega, Or.inl ⟨rfl, Or.inr rfl⟩⟩
  have nn := (isNN_iff x (y + 1) x y).mpr hE.2.2.2.2
  have vj := vertexIndex_nat (n0 := n0) (n1 := n1) (x := x) (y := y) hx (by omega)
  have vi := vertexIndex_nat (n0 := n0) (n1 := n1) (x := x) (y := y + 1) hx hy
  have ef := edgeFace_ok hE
  have hn1 := vIdx_lt_nsites (n0 := n0) (n1 := n1) (x := x) (y := y) hx (by omega)
  have hn2 := vIdx_lt_nsites (n0 := n0) (n1 := n1) (x := x) (y := y + 1) hx hy
  have hmin1 : min x x = x := by omega
  have hmin2 : min (y + 1) y = y := by omega
  rw [hmin1, hmin2] at ef
  have eb : (x == x) = true := by simp
  rw [eb] at ef
  have o1 : ¬ (((y + 1 : Nat) : Int) < (y : Int)) := by omega
  have o2 : ((y : Int) < ((y + 1 : Nat) : Int)) := by omega
  have e1 : ¬ (y + 1 < y) := by omega
  have e2 : y < y + 1 := by omega
  have e3 : True := trivial
  have eb2 : True := trivial
  rcases Nat.mod_two_eq_zero_or_one x with pn | pn
  · have pi : (x : Int) % 2 = 0 := by omega
    cases hA : auxFace n0 n1 true x y with
    | none => edge_simp
    | some f =>
      have hf := auxFace_lt hA
      edge_simp
      simp only [setPauli_two (ofcNsites n0 n1) _ _ _ 'Y' _ _ f parse_Y hf]
  · have pi : (x : Int) % 2 = 1 := by omega
    cases hA : auxFace n0 n1 true x y with
    | none => edge_simp
    | some f =>
      have hf := auxFace_lt hA
      edge_simp
      simp only [setPauli_two (ofcNsites n0 n1) _ _ _ 'Y' _ _ f parse_Y hf]

theorem edgeOp_down {n0 n1 x y : Nat} (hx : x + 1 < n0) (hy : y < n1) :
    edgeOp n0 n1 ((x : Int), (y : Int)) (((x + 1 : Nat) : Int), (y : Int)) = .ok (edgeStr n0 n1 x y (x + 1) y) := by
  have hE : EdgeOk n0 n1 x y (x + 1) y := ⟨by omega, hy, hx, hy, Or.inr ⟨rfl, Or.inl rfl⟩⟩
  have nn := (isNN_iff x y (x + 1) y).mpr hE.2.2.2.2
  have vi := vertexIndex_nat (n0 := n0) (n1 := n1) (x := x) (y := y) (by omega) hy
  have vj := vertexIndex_nat (n0 := n0) (n1 := n1) (x := x + 1) (y := y) hx hy
  have ef := edgeFace_ok hE
  have hn1 := vIdx_lt_nsites (n0 := n0) (n1 := n1) (x := x) (y := y) (by omega) hy
  have hn2 := vIdx_lt_nsites (n0 := n0) (n1 := n1) (x := x + 1) (y := y) hx hy
  have hmin1 : min x (x + 1) = x := by omega
  have hmin2 : min y y = y := by omega
  rw [hmin1, hmin2] at ef
  have eb2 : (x == x + 1) = false := by simp
  rw [eb2] at ef
  have eb : ((x : Int) == ((x + 1 : Nat) : Int)) = false := by simp
  have o1 : ¬ (((x + 1 : Nat) : Int) < (x : Int)) := by omega
  have o2 : ((x : Int) < ((x + 1 : Nat) : Int)) := by omega
  have e1 : ¬ (x + 1 < x) := by omega
  have e2 : x < x + 1 := by omega
  have e3 : ¬ x = x + 1 := by omega
  rcases Nat.mod_two_eq_zero_or_one y with pn | pn
  · have pi : (y : Int) % 2 = 0 := by omega
    cases hA : auxFace n0 n1 false x y with
    | none => edge_simp
    | some f =>
      have hf := auxFace_lt hA
      edge_simp
      simp only [setPauli_two (ofcNsites n0 n1) _ _ _ 'X' _ _ f parse_X hf]
  · have pi : (y : Int) % 2 = 1 := by omega
    cases hA : auxFace n0 n1 false x y with
    | none => edge_simp
    | some f =>
      have hf := auxFace_lt hA
      edge_simp
      simp only [setPauli_two (ofcNsites n0 n1) _ _ _ 'X' _ _ f parse_X hf]

theorem edgeOp_up {n0 n1 x y : Nat} (hx : x + 1 < n0) (hy : y < n1) :
    edgeOp n0 n1 (((x + 1 : Nat) : Int), (y : Int)) ((x : Int), (y : Int)) = .ok (edgeStr n0 n1 (x + 1) y x y) := by
  have hE : EdgeOk n0 n1 (x + 1) y x y := ⟨hx, hy, by omega, hy, Or.inr ⟨rfl, Or.inr rfl⟩⟩
  have nn := (isNN_iff (x + 1) y x y).mpr hE.2.2.2.2
  have vj := vertexIndex_nat (n0 := n0) (n1 := n1) (x := x) (y := y) (by omega) hy
  have vi := vertexIndex_nat (n0 := n0) (n1 := n1) (x := x + 1) (y := y) hx hy
  have ef := edgeFace_ok hE
  have hn1 := vIdx_lt_nsites (n0 := n0) (n1 := n1) (x := x) (y := y) (by omega) hy
  have hn2 := vIdx_lt_nsites (n0 := n0) (n1 := n1) (x := x + 1) (y := y) hx hy
  have hmin1 : min (x + 1) x = x := by omega
  have hmin2 : min y y = y := by omega
  rw [hmin1, hmin2] at ef
  have eb2 : (x + 1 == x) = false := by simp
  rw [eb2] at ef
  have eb : (((x + 1 : Nat) : Int) == (x : Int)) = false := by simp
  have o1 : ¬ (((x + 1 : Nat) : Int) < (x : Int)) := by omega
  have o2 : ((x : Int) < ((x + 1 : Nat) : Int)) := by omega
  have e1 : ¬ (x + 1 < x) := by omega
  have e2 : x < x + 1 := by omega
  have e3 : ¬ x + 1 = x := by omega
  rcases Nat.mod_two_eq_zero_or_one y with pn | pn
  · have pi : (y : Int) % 2 = 0 := by omega
    cases hA : auxFace n0 n1 false x y with
    | none => edge_simp
    | some f =>
      have hf := auxFace_lt hA
      edge_simp
      simp only [setPauli_two (ofcNsites n0 n1) _ _ _ 'X' _ _ f parse_X hf]
  · have pi : (y : Int) % 2 = 1 := by omega
    cases hA : auxFace n0 n1 false x y with
    | none => edge_simp
    | some f =>
      have hf := auxFace_lt hA
      edge_simp
      simp only [setPauli_two (ofcNsites n0 n1) _ _ _ 'X' _ _ f parse_X hf]

/-- **the literal `_encode_edge_operator` returns the closed-layer string on every edge of the rectangle** -/
theorem edgeOp_ok {n0 n1 ix iy jx jy : Nat} (h : EdgeOk n0 n1 ix iy jx jy) :
    edgeOp n0 n1 ((ix : Int), (iy : Int)) ((jx : Int), (jy : Int)) = .ok (edgeStr n0 n1 ix iy jx jy) := by
  obtain ⟨h1, h2, h3, h4, hnn⟩ := h
  rcases hnn with ⟨rfl, rfl | rfl⟩ | ⟨rfl, rfl | rfl⟩
  · exact edgeOp_right h1 h4
  · exact edgeOp_left h1 h2
  · exact edgeOp_down h3 h2
  · exact edgeOp_up h1 h2

/-- … and raises otherwise (`AssertionError` for a pair that is not a nearest-neighbour pair, `ValueError` for a vertex
outside the rectangle) -/
theorem edgeOp_ok_imp (n0 n1 : Nat) (i j : Int × Int) (E : PS) (h : edgeOp n0 n1 i j = .ok E) :
    ∃ ix iy jx jy : Nat, i = ((ix : Int), (iy : Int)) ∧ j = ((jx : Int), (jy : Int)) ∧ EdgeOk n0 n1 ix iy jx jy ∧
      E = edgeStr n0 n1 ix iy jx jy := by
  by_cases nn : isNN i j = true
  · by_cases bi : ∃ x y : Nat, i = ((x : Int), (y : Int)) ∧ x < n0 ∧ y < n1
    · by_cases bj : ∃ x y : Nat, j = ((x : Int), (y : Int)) ∧ x < n0 ∧ y < n1
      · obtain ⟨ix, iy, rfl, h1, h2⟩ := bi
        obtain ⟨jx, jy, rfl, h3, h4⟩ := bj
        have hE : EdgeOk n0 n1 ix iy jx jy := ⟨h1, h2, h3, h4, (isNN_iff _ _ _ _).mp nn⟩
        rw [edgeOp_ok hE] at h
        exact ⟨ix, iy, jx, jy, rfl, rfl, hE, by cases h; rfl⟩
      · exfalso
        obtain ⟨ix, iy, rfl, h1, h2⟩ := bi
        simp only [edgeOp, nn, Bool.not_true, Bool.false_eq_true, if_false, vertexIndex_nat h1 h2, vertexIndex_err n0 n1 j bj,
          bind, Except.bind, pure, Except.pure] at h
        cases h
    · exfalso
      simp only [edgeOp, nn, Bool.not_true, Bool.false_eq_true, if_false, vertexIndex_err n0 n1 i bi,
        bind, Except.bind, pure, Except.pure] at h
      cases h
  · exfalso
    have nn' : isNN i j = false := by simpa using nn
    simp only [edgeOp, nn', Bool.not_false, if_true, bind, Except.bind, throw, throwThe, MonadExceptOf.throw] at h
    cases h

theorem mulE_ok (n : Nat) (P R : PS) (hP : P.HasLen n) (hR : R.HasLen n) : P.mulE R = .ok (P.mul R) := by
  unfold PS.mulE
  rw [if_pos ⟨by rw [hP.1, hR.1], by rw [hP.2, hR.2]⟩]

/-- the loop product computed with the literal operators and `@` is the closed-layer `loopStr` -/
theorem loopOp_ok {n0 n1 x y : Nat} (h : FaceIn n0 n1 x y) :
    loopOp n0 n1 (x : Int) (y : Int) = .ok (loopStr n0 n1 x y) := by
  obtain ⟨e0, e1, e2, e3⟩ := loop_edges_ok h
  have l0 := edgeStr_hasLen e0
  have l1 := edgeStr_hasLen e1
  have l2 := edgeStr_hasLen e2
  have l3 := edgeStr_hasLen e3
  have l01 := mul_hasLen _ _ _ l0 l1
  have l012 := mul_hasLen _ _ _ l01 l2
  have cx : (x : Int) + 1 = ((x + 1 : Nat) : Int) := by push_cast; rfl
  have cy : (y : Int) + 1 = ((y + 1 : Nat) : Int) := by push_cast; rfl
  simp only [loopOp, cx, cy, edgeOp_ok e0, edgeOp_ok e1, edgeOp_ok e2, edgeOp_ok e3, bind, Except.bind,
    mulE_ok _ _ _ l0 l1, mulE_ok _ _ _ l01 l2, mulE_ok _ _ _ l012 l3, liftP]
  rfl

end Qib.Compact
