import QibModel.GateCtor
import QibProofs.Lemmas.GateTree
import Mathlib.Analysis.Complex.Basic
/-!
Helper lemmas about the constructor model `QibModel/GateCtor.lean` (`eval`, the `ctor…` functions, `applyCall`): equation
lemmas, inversion of `Except.bind`, the exact meaning of the executable `np.allclose` test over `ℂ`, one exact
characterisation of acceptance / rejection per constructor, the inductive description `Built` of the objects an expression
can evaluate to, and the invariants of `Built` objects (`CtorWF`, `num_wires`). No property statements here: they are in
`Properties/C01Ctor.lean`.
-/
open Matrix Qib Qib.Mat Qib.Gate

namespace Qib.GateCtor

/-! ### `Except.bind` -/

theorem bind_eq_ok {ε α β : Type} {x : Except ε α} {f : α → Except ε β} {b : β} :
    x.bind f = .ok b ↔ ∃ a, x = .ok a ∧ f a = .ok b := by
  cases x with
  | error e => simp [Except.bind]
  | ok a => simp [Except.bind]

theorem bind_eq_error {ε α β : Type} {x : Except ε α} {f : α → Except ε β} {e : ε} :
    x.bind f = .error e ↔ x = .error e ∨ ∃ a, x = .ok a ∧ f a = .error e := by
  cases x with
  | error e' => simp [Except.bind]
  | ok a => simp [Except.bind]

/-! ### equation lemmas of `eval` -/

theorem eval_leaf (cls m mi f q) : eval (.leaf cls m mi f q) = .ok ⟨.leaf cls 1 m mi f, 1, .ok, .one q⟩ := by rw [eval]
theorem eval_leaf2 (cls m mi f q1 q2) : eval (.leaf2 cls m mi f q1 q2) = .ok ⟨.leaf cls 2 m mi f, 2, .ok, .two q1 q2 false⟩ := by
  rw [eval]
theorem eval_iswap (q1 q2 m mi) : eval (.iswap q1 q2 m mi) = ctorIswap q1 q2 m mi := by rw [eval]
theorem eval_rotation (shape q m mi) : eval (.rotation shape q m mi) = ctorRotation shape q m mi := by rw [eval]
theorem eval_phase (nw m mi) : eval (.phase nw m mi) = .ok (ctorPhase nw m mi) := by rw [eval]
theorem eval_prepare (v nq tr q x) : eval (.prepare v nq tr q x) = ctorPrepare v nq tr q x := by rw [eval]
theorem eval_general (a nw) : eval (.general a nw) = ctorGeneral a nw := by rw [eval]
theorem eval_timeEvo (w h t m mi) : eval (.timeEvo w h t m mi) = .ok (ctorTimeEvo w m mi) := by rw [eval]
theorem eval_block (ns meth h s) : eval (.block ns meth h s) = .ok (ctorBlock ns meth h s) := by rw [eval]
theorem eval_controlled (tg nc ctrl) : eval (.controlled tg nc ctrl) = (eval tg).bind fun t => ctorControlled t nc ctrl := by
  rw [eval]
theorem eval_multiplexed (tgs nc) : eval (.multiplexed tgs nc) = (evalList tgs).bind fun ts => ctorMultiplexed ts nc := by
  rw [eval]
theorem eval_call (e c) : eval (.call e c) = (eval e).bind fun o => applyCall o c := by rw [eval]
theorem evalList_nil : evalList [] = .ok [] := by rw [evalList]
theorem evalList_cons (e es) : evalList (e :: es) = (eval e).bind fun o => (evalList es).bind fun os => .ok (o :: os) := by
  rw [evalList]

/-- a list display evaluates iff every element does, in order -/
theorem evalList_eq_ok_iff (es : List Expr) (os : List Obj) :
    evalList es = .ok os ↔ List.Forall₂ (fun e o => eval e = .ok o) es os := by
  induction es generalizing os with
  | nil =>
    rw [evalList_nil]
    constructor
    · intro h; cases h; exact .nil
    · intro h; cases h; rfl
  | cons e es ih =>
    rw [evalList_cons, bind_eq_ok]
    constructor
    · rintro ⟨o, ho, h⟩
      obtain ⟨os', hos', h'⟩ := bind_eq_ok.mp h
      cases h'
      exact .cons ho ((ih os').mp hos')
    · intro h
      cases h with
      | cons ho hrest =>
        exact ⟨_, ho, bind_eq_ok.mpr ⟨_, (ih _).mpr hrest, rfl⟩⟩

/-- a list display raises the exception of its FIRST failing element -/
theorem evalList_eq_error_iff (es : List Expr) (k : ErrKind) :
    evalList es = .error k ↔ ∃ pre e post os, es = pre ++ e :: post ∧ evalList pre = .ok os ∧ eval e = .error k := by
  induction es with
  | nil =>
    rw [evalList_nil]
    constructor
    · intro h; cases h
    · rintro ⟨pre, e, post, os, h, _⟩
      cases pre <;> simp at h
  | cons e es ih =>
    rw [evalList_cons, bind_eq_error]
    constructor
    · rintro (h | ⟨o, ho, h⟩)
      · exact ⟨[], e, es, [], rfl, evalList_nil, h⟩
      · rcases bind_eq_error.mp h with h | ⟨os, _, h⟩
        · obtain ⟨pre, e', post, os, hes, hpre, he'⟩ := ih.mp h
          refine ⟨e :: pre, e', post, o :: os, by rw [hes]; rfl, ?_, he'⟩
          rw [evalList_cons, ho, hpre]; rfl
        · cases h
    · rintro ⟨pre, e', post, os, hes, hpre, he'⟩
      cases pre with
      | nil =>
        simp only [List.nil_append, List.cons.injEq] at hes
        obtain ⟨rfl, rfl⟩ := hes
        exact Or.inl he'
      | cons p pre =>
        simp only [List.cons_append, List.cons.injEq] at hes
        obtain ⟨rfl, rfl⟩ := hes
        rw [evalList_cons] at hpre
        obtain ⟨o, ho, h⟩ := bind_eq_ok.mp hpre
        obtain ⟨os', hos', _⟩ := bind_eq_ok.mp h
        refine Or.inr ⟨o, ho, bind_eq_error.mpr (Or.inl (ih.mpr ⟨pre, e', post, os', rfl, hos', he'⟩))⟩

/-! ### the tolerances -/

theorem prepTol_pos : 0 < prepTol := by unfold prepTol; norm_num
theorem tolOff_pos : 0 < tolOff := by unfold tolOff; norm_num
theorem tolDiag_pos : 0 < tolDiag := by unfold tolDiag; norm_num
/-- `1e-8 + 1e-5` up to the rounding of the doubles -/
theorem tolDiag_bounds : (10009 : ℚ) / 1000000000 < tolDiag ∧ tolDiag < 10011 / 1000000000 := by
  unfold tolDiag; constructor <;> norm_num
theorem tolOff_bounds : (9999 : ℚ) / 1000000000000 < tolOff ∧ tolOff < 10001 / 1000000000000 := by
  unfold tolOff; constructor <;> norm_num

/-- the tolerance `np.allclose(·, identity)` applies at position `(i, j)` -/
def tolAt (i j : ℕ) : ℚ := if i = j then tolDiag else tolOff

theorem tolAt_pos (i j : ℕ) : 0 < tolAt i j := by
  unfold tolAt; split_ifs
  · exact tolDiag_pos
  · exact tolOff_pos

/-- the exact rational test is the inequality of `np.isclose` over `ℂ` -/
theorem closeId_iff (a : GQ) (diag : Bool) :
    closeId a diag = true ↔ ‖a.toC - (if diag then 1 else 0)‖ ≤ ((if diag then tolDiag else tolOff : ℚ) : ℝ) := by
  have key : ∀ (b τ : ℚ), 0 ≤ τ →
      ((a.re - b) * (a.re - b) + a.im * a.im ≤ τ * τ ↔ ‖a.toC - ((b : ℝ) : ℂ)‖ ≤ (τ : ℝ)) := by
    intro b τ hτ
    have hτ' : (0 : ℝ) ≤ (τ : ℝ) := by exact_mod_cast hτ
    have hn : ‖a.toC - ((b : ℝ) : ℂ)‖ ^ 2 = (((a.re - b) * (a.re - b) + a.im * a.im : ℚ) : ℝ) := by
      rw [Complex.sq_norm, Complex.normSq_apply]
      simp
    constructor
    · intro h
      have h' : ‖a.toC - ((b : ℝ) : ℂ)‖ ^ 2 ≤ (τ : ℝ) ^ 2 := by
        rw [hn, pow_two]; exact_mod_cast h
      exact (sq_le_sq₀ (norm_nonneg _) hτ').mp h'
    · intro h
      have h' : ‖a.toC - ((b : ℝ) : ℂ)‖ ^ 2 ≤ (τ : ℝ) ^ 2 := (sq_le_sq₀ (norm_nonneg _) hτ').mpr h
      rw [hn, pow_two] at h'
      exact_mod_cast h'
  unfold closeId
  cases diag
  · simpa using key 0 tolOff tolOff_pos.le
  · simpa using key 1 tolDiag tolDiag_pos.le

end Qib.GateCtor

namespace Qib.GateCtor

/-! ### `np.allclose(U Uᴴ, 1)` -/

theorem all_range_iff (n : ℕ) (p : ℕ → Bool) : (List.range n).all p = true ↔ ∀ i, i < n → p i = true := by
  simp [List.all_eq_true]

/-- the executable test, entry by entry over `ℂ` -/
theorem allcloseUnitary_iff (m : Mat) :
    allcloseUnitary m = true ↔
      ∀ i j, i < m.n → j < m.n → ‖((m.mul m.adjoint).get i j).toC - (if i = j then 1 else 0)‖ ≤ ((tolAt i j : ℚ) : ℝ) := by
  unfold allcloseUnitary
  simp only [all_range_iff, closeId_iff, tolAt, beq_iff_eq]
  constructor
  · intro h i j hi hj; exact h i hi j hj
  · intro h i hi j hj; exact h i j hi hj

/-- the same in Mathlib's vocabulary: every entry of `U Uᴴ - 1` is within the tolerance of its position -/
theorem allcloseUnitary_iff_matrix (m : Mat) {d : ℕ} (hn : m.n = d) (hm : m.m = d) :
    allcloseUnitary m = true ↔
      ∀ i j : Fin d, ‖(m.toM d d * (m.toM d d)ᴴ - 1) i j‖ ≤ ((tolAt i j : ℚ) : ℝ) := by
  rw [allcloseUnitary_iff, ← toM_adjoint m hn hm, ← toM_mul m m.adjoint hn hm (by simpa using hn)]
  subst hn
  constructor
  · intro h i j
    have := h i j i.2 j.2
    simpa [Matrix.sub_apply, Matrix.one_apply, Fin.ext_iff] using this
  · intro h i j hi hj
    have := h ⟨i, hi⟩ ⟨j, hj⟩
    simpa [Matrix.sub_apply, Matrix.one_apply, Fin.ext_iff] using this

/-- an exactly unitary matrix passes the test -/
theorem allcloseUnitary_of_unitary (m : Mat) {d : ℕ} (hn : m.n = d) (hm : m.m = d) (h : m.toM d d * (m.toM d d)ᴴ = 1) :
    allcloseUnitary m = true := by
  rw [allcloseUnitary_iff_matrix m hn hm, h]
  intro i j
  simp only [sub_self, Matrix.zero_apply, norm_zero]
  exact_mod_cast (tolAt_pos i j).le

end Qib.GateCtor

namespace Qib.GateCtor

/-! ### one exact characterisation per constructor -/

theorem pow2_eq_some_iff (n : ℤ) (k : ℕ) : pow2 n = some k ↔ 0 ≤ n ∧ k = 2 ^ n.toNat := by
  unfold pow2
  split_ifs with h
  · simp [h, eq_comm]
  · simp [h]

theorem pow2_eq_none_iff (n : ℤ) : pow2 n = none ↔ n < 0 := by
  unfold pow2
  split_ifs with h
  · simp; omega
  · simp; omega

/-- `ISwapGate(q1, q2)` is accepted iff both qubits are given or none -/
theorem ctorIswap_ok_iff (q1 q2 : Slot) (m mi : Mat) (o : Obj) :
    ctorIswap q1 q2 m mi = .ok o ↔ q1.truthy = q2.truthy ∧ o = ⟨.leaf "ISwapGate" 2 m mi false, 2, .ok, .two q1 q2 true⟩ := by
  unfold ctorIswap
  cases h1 : q1.truthy <;> cases h2 : q2.truthy <;> simp [eq_comm]

theorem ctorIswap_error_iff (q1 q2 : Slot) (m mi : Mat) (k : ErrKind) :
    ctorIswap q1 q2 m mi = .error k ↔ q1.truthy ≠ q2.truthy ∧ k = .valueError := by
  unfold ctorIswap
  cases h1 : q1.truthy <;> cases h2 : q2.truthy <;> simp [eq_comm]

theorem ctorRotation_ok_iff (shape : List ℕ) (q : Slot) (m mi : Mat) (o : Obj) :
    ctorRotation shape q m mi = .ok o ↔ shape = [3] ∧ o = ⟨.leaf "RotationGate" 1 m mi false, 1, .ok, .one q⟩ := by
  unfold ctorRotation
  split_ifs with h <;> simp_all [eq_comm]

theorem ctorRotation_error_iff (shape : List ℕ) (q : Slot) (m mi : Mat) (k : ErrKind) :
    ctorRotation shape q m mi = .error k ↔ shape ≠ [3] ∧ k = .valueError := by
  unfold ctorRotation
  split_ifs with h <;> simp_all [eq_comm]

/-- the argument passes the three `ValueError` tests of `PrepareGate.__init__`: one-dimensional, not of a complex dtype,
of length `2 ** nqubits` (impossible for negative `nqubits`) -/
def PrepareArgsOK (v : NdArr) (nq : ℤ) : Prop := v.dtype ≠ .complex ∧ 0 ≤ nq ∧ v.shape = [2 ^ nq.toNat]

/-- the in-place division `vec /= n` is attempted on an integer array -/
def PrepareIntDiv (v : NdArr) : Prop := prepTol < ratAbs (norm1 v.data - 1) ∧ v.dtype = .int

open Classical in
/-- the decision list of `PrepareGate.__init__` -/
theorem ctorPrepare_eq (v : NdArr) (nq : ℤ) (tr : Bool) (q : Mat) (x : List ℚ) :
    ctorPrepare v nq tr q x =
      if PrepareArgsOK v nq then
        (if PrepareIntDiv v then .error .typeError
         else .ok ⟨.prepare nq.toNat q x tr, nq, prepStatus (2 ^ nq.toNat) (norm1 v.data), .list []⟩)
      else .error .valueError := by
  unfold ctorPrepare PrepareArgsOK PrepareIntDiv
  split
  · rename_i len hshape
    by_cases hc : v.dtype = .complex
    · rw [if_pos hc, if_neg (fun h => h.1 hc)]
    · rw [if_neg hc]
      by_cases hp : pow2 nq = some len
      · obtain ⟨h0, rfl⟩ := (pow2_eq_some_iff _ _).mp hp
        have hOK : v.dtype ≠ .complex ∧ 0 ≤ nq ∧ v.shape = [2 ^ nq.toNat] := ⟨hc, h0, hshape⟩
        rw [if_neg (not_not.mpr hp), if_pos hOK]
        dsimp only
        split_ifs <;> rfl
      · rw [if_pos hp, if_neg]
        rintro ⟨_, h0, hs⟩
        rw [hshape] at hs
        simp only [List.cons.injEq, and_true] at hs
        exact hp ((pow2_eq_some_iff _ _).mpr ⟨h0, hs⟩)
  · rename_i hne
    rw [if_neg]
    rintro ⟨_, _, hs⟩
    exact hne _ hs

theorem ctorPrepare_ok_iff (v : NdArr) (nq : ℤ) (tr : Bool) (q : Mat) (x : List ℚ) (o : Obj) :
    ctorPrepare v nq tr q x = .ok o ↔
      PrepareArgsOK v nq ∧ ¬ PrepareIntDiv v ∧
        o = ⟨.prepare nq.toNat q x tr, nq, prepStatus (2 ^ nq.toNat) (norm1 v.data), .list []⟩ := by
  rw [ctorPrepare_eq]
  split_ifs with h1 h2
  · constructor
    · intro h; cases h
    · rintro ⟨_, h, _⟩; exact absurd h2 h
  · constructor
    · intro h; cases h; exact ⟨h1, h2, rfl⟩
    · rintro ⟨_, _, rfl⟩; rfl
  · constructor
    · intro h; cases h
    · rintro ⟨h, _⟩; exact absurd h h1

theorem ctorPrepare_error_iff (v : NdArr) (nq : ℤ) (tr : Bool) (q : Mat) (x : List ℚ) (k : ErrKind) :
    ctorPrepare v nq tr q x = .error k ↔
      (k = .valueError ∧ ¬ PrepareArgsOK v nq) ∨ (k = .typeError ∧ PrepareArgsOK v nq ∧ PrepareIntDiv v) := by
  rw [ctorPrepare_eq]
  split_ifs with h1 h2
  · constructor
    · intro h; cases h; exact Or.inr ⟨rfl, h1, h2⟩
    · rintro (⟨_, h⟩ | ⟨rfl, _⟩)
      · exact absurd h1 h
      · rfl
  · constructor
    · intro h; cases h
    · rintro (⟨_, h⟩ | ⟨_, _, h⟩)
      · exact absurd h1 h
      · exact absurd h h2
  · constructor
    · intro h; cases h; exact Or.inl ⟨rfl, h1⟩
    · rintro (⟨rfl, _⟩ | ⟨_, h, _⟩)
      · rfl
      · exact absurd h h1

/-- the matrix a `GeneralGate` argument denotes -/
def NdArr.toMat (a : NdArr) (d : ℕ) : Mat := ⟨d, d, a.data⟩

theorem NdArr.toMat_isSq (a : NdArr) {d : ℕ} (h : a.shape = [d, d]) : (a.toMat d).IsSq d := by
  refine ⟨rfl, rfl, ?_⟩
  have := a.wf
  rw [h] at this
  simpa [Mat.WF, NdArr.toMat] using this

/-- what `GeneralGate.__init__` tests: the shape is `(2**nwires, 2**nwires)` (impossible for negative `nwires`) and
`np.allclose(mat @ mat.conj().T, identity)` -/
def GeneralArgsOK (a : NdArr) (nw : ℤ) : Prop :=
  0 ≤ nw ∧ a.shape = [2 ^ nw.toNat, 2 ^ nw.toNat] ∧ allcloseUnitary (a.toMat (2 ^ nw.toNat)) = true

open Classical in
theorem ctorGeneral_eq (a : NdArr) (nw : ℤ) :
    ctorGeneral a nw =
      if GeneralArgsOK a nw then .ok ⟨.general nw.toNat (a.toMat (2 ^ nw.toNat)), nw, .ok, .list []⟩
      else .error .valueError := by
  unfold ctorGeneral GeneralArgsOK
  split
  · rename_i hp
    have := (pow2_eq_none_iff nw).mp hp
    rw [if_neg]
    rintro ⟨h, _⟩; omega
  · rename_i d hp
    obtain ⟨h0, rfl⟩ := (pow2_eq_some_iff _ _).mp hp
    by_cases hs : a.shape = [2 ^ nw.toNat, 2 ^ nw.toNat]
    · rw [if_neg (not_not.mpr hs)]
      by_cases hu : allcloseUnitary (a.toMat (2 ^ nw.toNat)) = true
      · have hOK : 0 ≤ nw ∧ a.shape = [2 ^ nw.toNat, 2 ^ nw.toNat] ∧ allcloseUnitary (a.toMat (2 ^ nw.toNat)) = true :=
          ⟨h0, hs, hu⟩
        rw [if_pos hOK]
        have hu' : allcloseUnitary ⟨2 ^ nw.toNat, 2 ^ nw.toNat, a.data⟩ = true := hu
        simp only [hu', Bool.not_true, Bool.false_eq_true, ↓reduceIte]
        rfl
      · have hOK : ¬ (0 ≤ nw ∧ a.shape = [2 ^ nw.toNat, 2 ^ nw.toNat] ∧ allcloseUnitary (a.toMat (2 ^ nw.toNat)) = true) :=
          fun h => hu h.2.2
        rw [if_neg hOK]
        have hu' : allcloseUnitary ⟨2 ^ nw.toNat, 2 ^ nw.toNat, a.data⟩ = false := by
          simpa [NdArr.toMat] using hu
        simp only [hu', Bool.not_false, ↓reduceIte]
    · rw [if_pos hs, if_neg (fun h => hs h.2.1)]

theorem ctorGeneral_ok_iff (a : NdArr) (nw : ℤ) (o : Obj) :
    ctorGeneral a nw = .ok o ↔
      GeneralArgsOK a nw ∧ o = ⟨.general nw.toNat (a.toMat (2 ^ nw.toNat)), nw, .ok, .list []⟩ := by
  rw [ctorGeneral_eq]
  split_ifs with h
  · constructor
    · intro h'; cases h'; exact ⟨h, rfl⟩
    · rintro ⟨_, rfl⟩; rfl
  · constructor
    · intro h'; cases h'
    · rintro ⟨h', _⟩; exact absurd h' h

theorem ctorGeneral_error_iff (a : NdArr) (nw : ℤ) (k : ErrKind) :
    ctorGeneral a nw = .error k ↔ k = .valueError ∧ ¬ GeneralArgsOK a nw := by
  rw [ctorGeneral_eq]
  split_ifs with h
  · constructor
    · intro h'; cases h'
    · rintro ⟨_, h'⟩; exact absurd h h'
  · constructor
    · intro h'; cases h'; exact ⟨rfl, h⟩
    · rintro ⟨rfl, _⟩; rfl

end Qib.GateCtor

namespace Qib.GateCtor

/-! ### ControlledGate / MultiplexedGate -/

/-- the contract `ControlledGate.__init__` enforces on `(ncontrols, ctrl_state)`: with the default pattern `ncontrols ≥ 0`
(`ncontrols * [1]` is empty for a negative count, and its length 0 differs from it); with a given pattern its length is
`ncontrols` and every entry equals 0 or 1 -/
def CtrlArgsOK (nc : ℤ) (ctrl : Option (List ℚ)) : Prop :=
  match ctrl with
  | none => 0 ≤ nc
  | some l => (l.length : ℤ) = nc ∧ ∀ x ∈ l, x = 0 ∨ x = 1

/-- the Boolean control pattern of the constructed gate (first entry = first control qubit) -/
def ctrlPattern (nc : ℤ) (ctrl : Option (List ℚ)) : List Bool := (ctrlList nc ctrl).map (· == 1)

theorem any_bad_iff (l : List ℚ) : (l.any fun x => x ≠ 0 && x ≠ 1) = true ↔ ¬ ∀ x ∈ l, x = 0 ∨ x = 1 := by
  simp only [List.any_eq_true, Bool.and_eq_true, decide_eq_true_eq, not_forall, not_or]
  constructor
  · rintro ⟨x, hx, h⟩; exact ⟨x, hx, h⟩
  · rintro ⟨x, hx, h⟩; exact ⟨x, hx, h⟩

/-- the two tests of the constructor on the pattern it works with -/
def CtrlListOK (nc : ℤ) (cs : List ℚ) : Prop := (cs.length : ℤ) = nc ∧ ∀ x ∈ cs, x = 0 ∨ x = 1

theorem ctrlArgsOK_iff (nc : ℤ) (ctrl : Option (List ℚ)) : CtrlArgsOK nc ctrl ↔ CtrlListOK nc (ctrlList nc ctrl) := by
  unfold CtrlArgsOK CtrlListOK ctrlList
  cases ctrl with
  | none =>
    simp only [List.length_replicate]
    constructor
    · intro h0
      exact ⟨Int.toNat_of_nonneg h0, fun x hx => Or.inr (List.eq_of_mem_replicate hx)⟩
    · rintro ⟨h, _⟩; omega
  | some l => rfl

open Classical in
theorem ctorControlled_core (nc : ℤ) (cs : List ℚ) (X : Obj) :
    (if (cs.length : ℤ) ≠ nc then (.error .valueError : Except ErrKind Obj)
      else if (cs.any fun x => x ≠ 0 && x ≠ 1) = true then .error .valueError else .ok X) =
    if CtrlListOK nc cs then .ok X else .error .valueError := by
  unfold CtrlListOK
  by_cases hl : (cs.length : ℤ) = nc
  · rw [if_neg (not_not.mpr hl)]
    by_cases hb : ∀ x ∈ cs, x = 0 ∨ x = 1
    · rw [if_neg (fun h => (any_bad_iff cs).mp h hb), if_pos ⟨hl, hb⟩]
    · rw [if_pos ((any_bad_iff cs).mpr hb), if_neg (fun h => hb h.2)]
  · rw [if_pos hl, if_neg (fun h => hl h.1)]

open Classical in
theorem ctorControlled_eq (t : Obj) (nc : ℤ) (ctrl : Option (List ℚ)) :
    ctorControlled t nc ctrl =
      if CtrlArgsOK nc ctrl then .ok ⟨.controlled (ctrlPattern nc ctrl) t.tree, t.nw + nc, t.status, .ctrl nc.toNat [] t.bind⟩
      else .error .valueError := by
  have h := ctorControlled_core nc (ctrlList nc ctrl)
    ⟨.controlled (ctrlPattern nc ctrl) t.tree, t.nw + nc, t.status, .ctrl nc.toNat [] t.bind⟩
  by_cases hOK : CtrlArgsOK nc ctrl
  · rw [if_pos hOK]
    rw [if_pos ((ctrlArgsOK_iff nc ctrl).mp hOK)] at h
    exact h
  · rw [if_neg hOK]
    rw [if_neg (fun h' => hOK ((ctrlArgsOK_iff nc ctrl).mpr h'))] at h
    exact h

theorem ctrlPattern_length {nc : ℤ} {ctrl : Option (List ℚ)} (h : CtrlArgsOK nc ctrl) :
    ((ctrlPattern nc ctrl).length : ℤ) = nc ∧ 0 ≤ nc := by
  unfold ctrlPattern CtrlArgsOK at *
  cases ctrl with
  | none =>
    simp only [ctrlList, List.length_map, List.length_replicate]
    exact ⟨Int.toNat_of_nonneg h, h⟩
  | some l =>
    simp only [ctrlList, List.length_map]
    exact ⟨h.1, by have := h.1; omega⟩

theorem ctorControlled_ok_iff (t : Obj) (nc : ℤ) (ctrl : Option (List ℚ)) (o : Obj) :
    ctorControlled t nc ctrl = .ok o ↔
      CtrlArgsOK nc ctrl ∧ o = ⟨.controlled (ctrlPattern nc ctrl) t.tree, t.nw + nc, t.status, .ctrl nc.toNat [] t.bind⟩ := by
  rw [ctorControlled_eq]
  split_ifs with h
  · constructor
    · intro h'; cases h'; exact ⟨h, rfl⟩
    · rintro ⟨_, rfl⟩; rfl
  · constructor
    · intro h'; cases h'
    · rintro ⟨h', _⟩; exact absurd h' h

theorem ctorControlled_error_iff (t : Obj) (nc : ℤ) (ctrl : Option (List ℚ)) (k : ErrKind) :
    ctorControlled t nc ctrl = .error k ↔ k = .valueError ∧ ¬ CtrlArgsOK nc ctrl := by
  rw [ctorControlled_eq]
  split_ifs with h
  · constructor
    · intro h'; cases h'
    · rintro ⟨_, h'⟩; exact absurd h h'
  · constructor
    · intro h'; cases h'; exact ⟨rfl, h⟩
    · rintro ⟨rfl, _⟩; rfl

/-- the contract `MultiplexedGate.__init__` enforces: `2 ** ncontrols` targets (impossible for a negative count), all
reporting the same `num_wires` -/
def MplxArgsOK (ts : List Obj) (nc : ℤ) : Prop :=
  0 ≤ nc ∧ ts.length = 2 ^ nc.toNat ∧ ∀ t ∈ ts, ∀ t' ∈ ts, t.nw = t'.nw

/-- `tgates[0].num_wires` -/
def headNw : List Obj → ℤ
  | [] => 0
  | t :: _ => t.nw

open Classical in
theorem ctorMultiplexed_eq (ts : List Obj) (nc : ℤ) :
    ctorMultiplexed ts nc =
      if MplxArgsOK ts nc then
        .ok ⟨.multiplexed nc.toNat (ts.map (·.tree)), headNw ts + nc, mplxStatus ts, .mplx nc.toNat [] (ts.map (·.bind))⟩
      else .error .valueError := by
  unfold ctorMultiplexed MplxArgsOK
  by_cases hp : pow2 nc = some ts.length
  · obtain ⟨h0, hlen⟩ := (pow2_eq_some_iff _ _).mp hp
    rw [if_neg (not_not.mpr hp)]
    cases ts with
    | nil =>
      have : 0 < 2 ^ nc.toNat := Nat.pow_pos (by norm_num)
      simp only [List.length_nil] at hlen; omega
    | cons t0 ts' =>
      simp only
      by_cases hw : ∀ t ∈ t0 :: ts', t.nw = t0.nw
      · have h2 : ((t0 :: ts').any fun t => t.nw ≠ t0.nw) = false := by
          rw [Bool.eq_false_iff]
          intro h
          simp only [List.any_eq_true, decide_eq_true_eq] at h
          obtain ⟨t, ht, hne⟩ := h
          exact hne (hw t ht)
        have hOK : 0 ≤ nc ∧ (t0 :: ts').length = 2 ^ nc.toNat ∧ ∀ t ∈ t0 :: ts', ∀ t' ∈ t0 :: ts', t.nw = t'.nw :=
          ⟨h0, hlen, fun t ht t' ht' => (hw t ht).trans (hw t' ht').symm⟩
        rw [h2, if_pos hOK]
        rfl
      · have h2 : ((t0 :: ts').any fun t => t.nw ≠ t0.nw) = true := by
          simp only [List.any_eq_true, decide_eq_true_eq]
          by_contra hcon
          exact hw (fun t ht => by_contra fun hne => hcon ⟨t, ht, hne⟩)
        have hOK : ¬ (0 ≤ nc ∧ (t0 :: ts').length = 2 ^ nc.toNat ∧ ∀ t ∈ t0 :: ts', ∀ t' ∈ t0 :: ts', t.nw = t'.nw) :=
          fun h => hw (fun t ht => h.2.2 t ht t0 (List.mem_cons_self))
        rw [h2, if_neg hOK]
        rfl
  · have hOK : ¬ (0 ≤ nc ∧ ts.length = 2 ^ nc.toNat ∧ ∀ t ∈ ts, ∀ t' ∈ ts, t.nw = t'.nw) :=
      fun h => hp ((pow2_eq_some_iff _ _).mpr ⟨h.1, h.2.1⟩)
    rw [if_pos hp, if_neg hOK]

theorem ctorMultiplexed_ok_iff (ts : List Obj) (nc : ℤ) (o : Obj) :
    ctorMultiplexed ts nc = .ok o ↔
      MplxArgsOK ts nc ∧
        o = ⟨.multiplexed nc.toNat (ts.map (·.tree)), headNw ts + nc, mplxStatus ts, .mplx nc.toNat [] (ts.map (·.bind))⟩ := by
  rw [ctorMultiplexed_eq]
  split_ifs with h
  · constructor
    · intro h'; cases h'; exact ⟨h, rfl⟩
    · rintro ⟨_, rfl⟩; rfl
  · constructor
    · intro h'; cases h'
    · rintro ⟨h', _⟩; exact absurd h' h

theorem ctorMultiplexed_error_iff (ts : List Obj) (nc : ℤ) (k : ErrKind) :
    ctorMultiplexed ts nc = .error k ↔ k = .valueError ∧ ¬ MplxArgsOK ts nc := by
  rw [ctorMultiplexed_eq]
  split_ifs with h
  · constructor
    · intro h'; cases h'
    · rintro ⟨_, h'⟩; exact absurd h h'
  · constructor
    · intro h'; cases h'; exact ⟨rfl, h⟩
    · rintro ⟨rfl, _⟩; rfl

theorem mplxStatus_ne_raises {ts : List Obj} (h : mplxStatus ts ≠ .raises) : ∀ t ∈ ts, t.status ≠ .raises := by
  intro t ht hr
  apply h
  unfold mplxStatus
  rw [if_pos]
  simp only [List.any_eq_true, decide_eq_true_eq]
  exact ⟨t, ht, hr⟩

theorem mplxStatus_ok {ts : List Obj} (h : mplxStatus ts = .ok) : ∀ t ∈ ts, t.status = .ok := by
  intro t ht
  unfold mplxStatus at h
  split_ifs at h with h1 h2
  simp only [List.any_eq_true, decide_eq_true_eq, not_exists, not_and] at h1 h2
  have a := h1 t ht
  have b := h2 t ht
  cases hs : t.status <;> simp_all

end Qib.GateCtor

namespace Qib.GateCtor

/-! ### binding calls -/

/-- the class of the object (read off its attribute layout) has the method -/
def hasMethod : Bind → Meth → Bool
  | .one _, .on => true
  | .two _ _ true, .on => true
  | .list _, .on => true
  | .aux _, .setAux => true
  | .ctrl _ _ _, .setControl => true
  | .mplx _ _ _, .setControl => true
  | _, _ => false

/-- the class of the object has the method (as a proposition) -/
def HasMethod (b : Bind) (m : Meth) : Prop := hasMethod b m = true

/-- the number of particles a binding call must pass (`num_wires`, 1 or 2 for the fixed signatures, `num_aux_qubits = 1`,
`ncontrols`) -/
def requiredArity (o : Obj) : ℤ :=
  match o.bind with
  | .one _ => 1
  | .two _ _ _ => 2
  | .list _ => o.nw
  | .aux _ => 1
  | .fixed => 0
  | .ctrl nc _ _ => nc
  | .mplx nc _ _ => nc

/-- the number of particles a call passes: positional arguments for a fixed signature, the effective list for `*args` -/
def passedArity (o : Obj) (c : Call) : ℕ :=
  match o.bind with
  | .one _ => c.args.positional.length
  | .two _ _ _ => c.args.positional.length
  | _ => c.args.eff.length

/-- the binding after an accepted call: only the particles of the object itself are overwritten (never those of a target
gate, never `ncontrols`) -/
def newBind (b : Bind) (c : Call) : Bind :=
  match b with
  | .one _ => .one (c.args.positional.headD .none)
  | .two _ _ h => .two (c.args.positional.headD .none) ((c.args.positional.drop 1).headD .none) h
  | .list _ => .list c.args.eff
  | .aux _ => .aux c.args.eff
  | .fixed => .fixed
  | .ctrl nc _ t => .ctrl nc c.args.eff t
  | .mplx nc _ ts => .mplx nc c.args.eff ts

/-- which exception an arity mismatch raises: Python's own `TypeError` for a fixed signature, the method's `ValueError` for
`*args` -/
def arityError : Bind → ErrKind
  | .one _ => .typeError
  | .two _ _ _ => .typeError
  | _ => .valueError

theorem match_one {α : Type} (l : List Slot) (A : Slot → α) (E : α) :
    (match l with | [q] => A q | _ => E) = if ((l.length : ℕ) : ℤ) = 1 then A (l.headD .none) else E := by
  rcases l with _ | ⟨a, _ | ⟨b, l⟩⟩ <;> simp
  omega

theorem match_two {α : Type} (l : List Slot) (A : Slot → Slot → α) (E : α) :
    (match l with | [a, b] => A a b | _ => E) =
      if ((l.length : ℕ) : ℤ) = 2 then A (l.headD .none) ((l.drop 1).headD .none) else E := by
  rcases l with _ | ⟨a, _ | ⟨b, _ | ⟨c, l⟩⟩⟩ <;> simp
  omega

/-- the decision list of a binding call -/
theorem applyCall_eq (o : Obj) (c : Call) :
    applyCall o c =
      if hasMethod o.bind c.meth then
        (if (passedArity o c : ℤ) = requiredArity o then .ok { o with bind := newBind o.bind c }
         else .error (arityError o.bind))
      else .error .attributeError := by
  obtain ⟨tree, nw, st, b⟩ := o
  obtain ⟨meth, args⟩ := c
  cases b with
  | one q =>
    cases meth
    · simp only [applyCall, hasMethod, passedArity, requiredArity, newBind, arityError, if_true]
      exact match_one args.positional _ _
    · simp [applyCall, hasMethod]
    · simp [applyCall, hasMethod]
  | two q1 q2 h =>
    cases h
    · cases meth <;> simp [applyCall, hasMethod]
    · cases meth
      · simp only [applyCall, hasMethod, passedArity, requiredArity, newBind, arityError, if_true]
        exact match_two args.positional _ _
      · simp [applyCall, hasMethod]
      · simp [applyCall, hasMethod]
  | list ps =>
    cases meth
    · simp only [applyCall, hasMethod, passedArity, requiredArity, newBind, arityError, if_true]
      split_ifs <;> simp_all
    · simp [applyCall, hasMethod]
    · simp [applyCall, hasMethod]
  | aux ps =>
    cases meth
    · simp [applyCall, hasMethod]
    · simp [applyCall, hasMethod]
    · simp only [applyCall, hasMethod, passedArity, requiredArity, newBind, arityError, if_true]
      split_ifs <;> simp_all
  | fixed => cases meth <;> simp [applyCall, hasMethod]
  | ctrl nc cq t =>
    cases meth
    · simp [applyCall, hasMethod]
    · simp only [applyCall, hasMethod, passedArity, requiredArity, newBind, arityError, if_true]
      split_ifs <;> simp_all
    · simp [applyCall, hasMethod]
  | mplx nc cq ts =>
    cases meth
    · simp [applyCall, hasMethod]
    · simp only [applyCall, hasMethod, passedArity, requiredArity, newBind, arityError, if_true]
      split_ifs <;> simp_all
    · simp [applyCall, hasMethod]

theorem applyCall_ok_iff (o : Obj) (c : Call) (o' : Obj) :
    applyCall o c = .ok o' ↔
      HasMethod o.bind c.meth ∧ (passedArity o c : ℤ) = requiredArity o ∧ o' = { o with bind := newBind o.bind c } := by
  rw [applyCall_eq]
  unfold HasMethod
  split_ifs with h1 h2
  · constructor
    · intro h; cases h; exact ⟨h1, h2, rfl⟩
    · rintro ⟨_, _, rfl⟩; rfl
  · constructor
    · intro h; cases h
    · rintro ⟨_, h, _⟩; exact absurd h h2
  · constructor
    · intro h; cases h
    · rintro ⟨h, _⟩; exact absurd h h1

theorem applyCall_error_iff (o : Obj) (c : Call) (k : ErrKind) :
    applyCall o c = .error k ↔
      (k = .attributeError ∧ ¬ HasMethod o.bind c.meth) ∨
      (k = arityError o.bind ∧ HasMethod o.bind c.meth ∧ (passedArity o c : ℤ) ≠ requiredArity o) := by
  rw [applyCall_eq]
  unfold HasMethod
  split_ifs with h1 h2
  · constructor
    · intro h; cases h
    · rintro (⟨_, h⟩ | ⟨_, _, h⟩)
      · exact absurd h1 h
      · exact absurd h2 h
  · constructor
    · intro h; cases h; exact Or.inr ⟨rfl, h1, h2⟩
    · rintro (⟨_, h⟩ | ⟨rfl, _⟩)
      · exact absurd h1 h
      · rfl
  · constructor
    · intro h; cases h; exact Or.inl ⟨rfl, h1⟩
    · rintro (⟨rfl, _⟩ | ⟨_, h, _⟩)
      · rfl
      · exact absurd h h1

end Qib.GateCtor

namespace Qib.GateCtor

/-! ### the objects an expression can evaluate to -/

/-- `Built o`: `o` is a live gate object obtained from constructor calls (on already built gate objects) and accepted
binding calls -/
inductive Built : Obj → Prop
  | leaf (cls : String) (m mi : Mat) (f : Bool) (q : Slot) : Built ⟨.leaf cls 1 m mi f, 1, .ok, .one q⟩
  | leaf2 (cls : String) (m mi : Mat) (f : Bool) (q1 q2 : Slot) : Built ⟨.leaf cls 2 m mi f, 2, .ok, .two q1 q2 false⟩
  | iswap {q1 q2 : Slot} {m mi : Mat} {o : Obj} (h : ctorIswap q1 q2 m mi = .ok o) : Built o
  | rotation {shape : List ℕ} {q : Slot} {m mi : Mat} {o : Obj} (h : ctorRotation shape q m mi = .ok o) : Built o
  | phase (nw : ℤ) (m mi : Mat) : Built (ctorPhase nw m mi)
  | prepare {v : NdArr} {nq : ℤ} {tr : Bool} {q : Mat} {x : List ℚ} {o : Obj} (h : ctorPrepare v nq tr q x = .ok o) : Built o
  | general {a : NdArr} {nw : ℤ} {o : Obj} (h : ctorGeneral a nw = .ok o) : Built o
  | timeEvo (w : ℕ) (m mi : Mat) : Built (ctorTimeEvo w m mi)
  | block (ns : ℕ) (meth : Method) (h s : Mat) : Built (ctorBlock ns meth h s)
  | controlled {t : Obj} {nc : ℤ} {ctrl : Option (List ℚ)} {o : Obj} (ht : Built t) (h : ctorControlled t nc ctrl = .ok o) : Built o
  | multiplexed {ts : List Obj} {nc : ℤ} {o : Obj} (hts : ∀ t ∈ ts, Built t) (h : ctorMultiplexed ts nc = .ok o) : Built o
  | call {o : Obj} {c : Call} {o' : Obj} (ho : Built o) (h : applyCall o c = .ok o') : Built o'

mutual
/-- whatever an expression evaluates to is `Built` -/
theorem eval_built : ∀ (e : Expr) (o : Obj), eval e = .ok o → Built o
  | .leaf cls m mi f q, o, h => by rw [eval_leaf] at h; cases h; exact .leaf ..
  | .leaf2 cls m mi f q1 q2, o, h => by rw [eval_leaf2] at h; cases h; exact .leaf2 ..
  | .iswap q1 q2 m mi, o, h => by rw [eval_iswap] at h; exact .iswap h
  | .rotation shape q m mi, o, h => by rw [eval_rotation] at h; exact .rotation h
  | .phase nw m mi, o, h => by rw [eval_phase] at h; cases h; exact .phase ..
  | .prepare v nq tr q x, o, h => by rw [eval_prepare] at h; exact .prepare h
  | .general a nw, o, h => by rw [eval_general] at h; exact .general h
  | .timeEvo w hm t m mi, o, h => by rw [eval_timeEvo] at h; cases h; exact .timeEvo ..
  | .block ns meth hm s, o, h => by rw [eval_block] at h; cases h; exact .block ..
  | .controlled tg nc ctrl, o, h => by
    rw [eval_controlled] at h
    obtain ⟨t, ht, ho⟩ := bind_eq_ok.mp h
    exact .controlled (eval_built tg t ht) ho
  | .multiplexed tgs nc, o, h => by
    rw [eval_multiplexed] at h
    obtain ⟨ts, hts, ho⟩ := bind_eq_ok.mp h
    exact .multiplexed (evalList_built tgs ts hts) ho
  | .call e c, o, h => by
    rw [eval_call] at h
    obtain ⟨o1, ho1, ho⟩ := bind_eq_ok.mp h
    exact .call (eval_built e o1 ho1) ho
theorem evalList_built : ∀ (es : List Expr) (os : List Obj), evalList es = .ok os → ∀ o ∈ os, Built o
  | [], os, h => by rw [evalList_nil] at h; cases h; intro o ho; cases ho
  | e :: es, os, h => by
    rw [evalList_cons] at h
    obtain ⟨o1, ho1, h'⟩ := bind_eq_ok.mp h
    obtain ⟨os', hos', h''⟩ := bind_eq_ok.mp h'
    cases h''
    intro o ho
    rcases List.mem_cons.mp ho with rfl | ho
    · exact eval_built e _ ho1
    · exact evalList_built es os' hos' o ho
end

end Qib.GateCtor

namespace Qib.Gate
open Qib.GateCtor

/-! ### what the constructors guarantee about the tree (`WF'`) and what is left to the numerical payload -/

/-- `t.CtorWF`: the well-formedness the constructors themselves establish (the "WF'" of the constructor stage): a user
matrix is a `2^w × 2^w` array passing `np.allclose(U Uᴴ, 1)`; a block encoding has at least the auxiliary wire; a multiplexer
has `2^nc` targets of one width. Nothing about closed-form / `expm` / `qr` / `sqrtm` payloads, nothing about the encoded
operators. -/
inductive Tree.CtorWF : Tree → Prop
  | leaf (c : String) (w : ℕ) (m mi : Mat) (f : Bool) : Tree.CtorWF (.leaf c w m mi f)
  | general (w : ℕ) (m : Mat) (hsq : m.IsSq (2 ^ w)) (hclose : allcloseUnitary m = true) : Tree.CtorWF (.general w m)
  | timeEvo (w : ℕ) (m mi : Mat) : Tree.CtorWF (.timeEvo w m mi)
  | prepare (w : ℕ) (q : Mat) (x : List ℚ) (tr : Bool) : Tree.CtorWF (.prepare w q x tr)
  | block (w' : ℕ) (m : Method) (h s : Mat) : Tree.CtorWF (.block (w' + 1) m h s)
  | controlled (cs : List Bool) (t : Tree) (ht : Tree.CtorWF t) : Tree.CtorWF (.controlled cs t)
  | multiplexed (nc : ℕ) (ts : List Tree) (hlen : ts.length = 2 ^ nc) (hts : ∀ t ∈ ts, Tree.CtorWF t)
      (hw : ∀ t ∈ ts, t.wires = wiresHead ts) : Tree.CtorWF (.multiplexed nc ts)

/-- `t.PayloadOK`: the recorded assumptions on the numbers a tree carries, exactly those of `Tree.WF` that no constructor
can check: closed-form leaves unitary with `invMat` their inverse (and a `True` flag meaning Hermitian), the user matrix
EXACTLY unitary, `expm(∓ i t H)` mutually inverse unitaries (true for Hermitian `H`), the `qr` factor real orthogonal (true
for a non-zero vector), the block-encoding hypotheses on `H` and `sqrtm(1 - H²)` (true for Hermitian `H` of norm ≤ 1) -/
inductive Tree.PayloadOK : Tree → Prop
  | leaf (c : String) (w : ℕ) (m mi : Mat) (f : Bool) (hm : m.IsUnitaryN (2 ^ w)) (hmi : mi.IsSq (2 ^ w))
      (hinv : mi.toM (2 ^ w) (2 ^ w) * m.toM (2 ^ w) (2 ^ w) = 1)
      (hflag : f = true → (m.toM (2 ^ w) (2 ^ w))ᴴ = m.toM (2 ^ w) (2 ^ w)) : Tree.PayloadOK (.leaf c w m mi f)
  | general (w : ℕ) (m : Mat) (hm : m.toM (2 ^ w) (2 ^ w) * (m.toM (2 ^ w) (2 ^ w))ᴴ = 1) : Tree.PayloadOK (.general w m)
  | timeEvo (w : ℕ) (m mi : Mat) (hm : m.IsUnitaryN (2 ^ w)) (hmi : mi.IsSq (2 ^ w))
      (hinv : mi.toM (2 ^ w) (2 ^ w) * m.toM (2 ^ w) (2 ^ w) = 1) : Tree.PayloadOK (.timeEvo w m mi)
  | prepare (w : ℕ) (q : Mat) (x : List ℚ) (tr : Bool) (hq : q.IsUnitaryN (2 ^ w)) (hre : q.IsReal (2 ^ w)) :
      Tree.PayloadOK (.prepare w q x tr)
  | block (w' : ℕ) (m : Method) (h s : Mat) (hb : Mat.BlockHyp h s (2 ^ w')) : Tree.PayloadOK (.block (w' + 1) m h s)
  | controlled (cs : List Bool) (t : Tree) (ht : Tree.PayloadOK t) : Tree.PayloadOK (.controlled cs t)
  | multiplexed (nc : ℕ) (ts : List Tree) (hts : ∀ t ∈ ts, Tree.PayloadOK t) : Tree.PayloadOK (.multiplexed nc ts)

end Qib.Gate

namespace Qib.GateCtor

/-- constructor guarantees + payload assumptions = the well-formedness the unitarity theorems of C01Tree need -/
theorem wf_of_ctorWF_payloadOK (t : Tree) (hc : t.CtorWF) (hp : t.PayloadOK) : t.WF := by
  induction t using Tree.induction' with
  | leaf c w m mi f => cases hp with | leaf _ _ _ _ _ hm hmi hinv hflag => exact .leaf _ _ _ _ _ hm hmi hinv hflag
  | general w m =>
    cases hp with
    | general _ _ hm =>
      cases hc with
      | general _ _ hsq _ => exact .general _ _ ⟨hsq.n_eq, hsq.m_eq, hsq.wf, hm⟩
  | timeEvo w m mi => cases hp with | timeEvo _ _ _ hm hmi hinv => exact .timeEvo _ _ _ hm hmi hinv
  | prepare w q x tr => cases hp with | prepare _ _ _ _ hq hre => exact .prepare _ _ _ _ hq hre
  | block w m h s => cases hp with | block w' _ _ _ hb => exact .block _ _ _ _ hb
  | controlled cs t ih =>
    cases hp with
    | controlled _ _ hpt =>
      cases hc with
      | controlled _ _ hct => exact .controlled _ _ (ih hct hpt)
  | multiplexed nc ts ih =>
    cases hp with
    | multiplexed _ _ hpts =>
      cases hc with
      | multiplexed _ _ hlen hcts hw => exact .multiplexed _ _ hlen (fun t ht => ih t ht (hcts t ht) (hpts t ht)) hw

/-- conversely the well-formedness of C01Tree contains both -/
theorem ctorWF_payloadOK_of_wf (t : Tree) (h : t.WF) : t.CtorWF ∧ t.PayloadOK := by
  induction t using Tree.induction' with
  | leaf c w m mi f => cases h with | leaf _ _ _ _ _ hm hmi hinv hflag => exact ⟨.leaf .., .leaf _ _ _ _ _ hm hmi hinv hflag⟩
  | general w m =>
    cases h with
    | general _ _ hm =>
      exact ⟨.general _ _ hm.isSq (allcloseUnitary_of_unitary m hm.n_eq hm.m_eq hm.mul_adj), .general _ _ hm.mul_adj⟩
  | timeEvo w m mi => cases h with | timeEvo _ _ _ hm hmi hinv => exact ⟨.timeEvo .., .timeEvo _ _ _ hm hmi hinv⟩
  | prepare w q x tr => cases h with | prepare _ _ _ _ hq hre => exact ⟨.prepare .., .prepare _ _ _ _ hq hre⟩
  | block w m hh s => cases h with | block w' _ _ _ hb => exact ⟨.block .., .block _ _ _ _ hb⟩
  | controlled cs t ih =>
    cases h with
    | controlled _ _ ht => exact ⟨.controlled _ _ (ih ht).1, .controlled _ _ (ih ht).2⟩
  | multiplexed nc ts ih =>
    cases h with
    | multiplexed _ _ hlen hts hw =>
      exact ⟨.multiplexed _ _ hlen (fun t ht => (ih t ht (hts t ht)).1) hw, .multiplexed _ _ (fun t ht => (ih t ht (hts t ht)).2)⟩

end Qib.GateCtor

namespace Qib.GateCtor

/-! ### invariants of built objects -/

theorem wiresHead_map_tree (t0 : Obj) (ts : List Obj) : wiresHead ((t0 :: ts).map (·.tree)) = t0.tree.wires := by
  simp

/-- unless `as_matrix()` raises, a built object denotes a tree with the constructor-level well-formedness, and its
`num_wires` is the tree's wire count -/
theorem Built.ctorWF {o : Obj} (h : Built o) : o.status ≠ .raises → o.tree.CtorWF ∧ o.nw = (o.tree.wires : ℤ) := by
  induction h with
  | leaf cls m mi f q => intro _; exact ⟨.leaf .., by simp⟩
  | leaf2 cls m mi f q1 q2 => intro _; exact ⟨.leaf .., by simp⟩
  | iswap h => obtain ⟨_, rfl⟩ := (ctorIswap_ok_iff ..).mp h; intro _; exact ⟨.leaf .., by simp⟩
  | rotation h => obtain ⟨_, rfl⟩ := (ctorRotation_ok_iff ..).mp h; intro _; exact ⟨.leaf .., by simp⟩
  | phase nw m mi =>
    intro hs
    refine ⟨.leaf .., ?_⟩
    simp only [ctorPhase] at hs ⊢
    split_ifs at hs with hneg
    · exact absurd rfl hs
    · simp only [wires_leaf]; omega
  | prepare h =>
    obtain ⟨⟨_, h0, _⟩, _, rfl⟩ := (ctorPrepare_ok_iff ..).mp h
    intro _
    exact ⟨.prepare .., by simp only [wires_prepare]; omega⟩
  | general h =>
    obtain ⟨⟨h0, hs, hu⟩, rfl⟩ := (ctorGeneral_ok_iff ..).mp h
    intro _
    exact ⟨.general _ _ (NdArr.toMat_isSq _ hs) hu, by simp only [wires_general]; omega⟩
  | timeEvo w m mi => intro _; exact ⟨.timeEvo .., by simp [ctorTimeEvo]⟩
  | block ns meth hh s => intro _; exact ⟨.block .., by simp [ctorBlock]⟩
  | controlled ht h ih =>
    obtain ⟨hOK, rfl⟩ := (ctorControlled_ok_iff ..).mp h
    intro hs
    obtain ⟨hc, hw⟩ := ih hs
    obtain ⟨hl, _⟩ := ctrlPattern_length hOK
    refine ⟨.controlled _ _ hc, ?_⟩
    simp only [wires_controlled, Nat.cast_add]
    rw [hw, hl]
  | @multiplexed ts nc o hts h ih =>
    obtain ⟨⟨h0, hlen, heq⟩, rfl⟩ := (ctorMultiplexed_ok_iff ..).mp h
    intro hs
    have hall := mplxStatus_ne_raises hs
    cases ts with
    | nil =>
      have : 0 < 2 ^ nc.toNat := Nat.pow_pos (by norm_num)
      simp only [List.length_nil] at hlen; omega
    | cons t0 ts' =>
      have h00 := ih t0 List.mem_cons_self (hall t0 List.mem_cons_self)
      refine ⟨.multiplexed _ _ (by simpa using hlen) ?_ ?_, ?_⟩
      · intro tr htr
        obtain ⟨t, ht, rfl⟩ := List.mem_map.mp htr
        exact (ih t ht (hall t ht)).1
      · intro tr htr
        obtain ⟨t, ht, rfl⟩ := List.mem_map.mp htr
        rw [wiresHead_map_tree]
        have h1 := (ih t ht (hall t ht)).2
        have h2 := heq t ht t0 List.mem_cons_self
        have : (t.tree.wires : ℤ) = (t0.tree.wires : ℤ) := by rw [← h1, ← h00.2, h2]
        exact_mod_cast this
      · simp only [wires_multiplexed, wiresHead_map_tree, Nat.cast_add, headNw]
        rw [h00.2]; omega
  | call ho h ih =>
    obtain ⟨_, _, rfl⟩ := (applyCall_ok_iff ..).mp h
    exact ih

/-- `as_matrix()` raises only where a phase-factor gate with negative `nwires` is involved: every other constructor
produces an object that reports a matrix (possibly NaN) -/
theorem Built.status_ok_of_nonneg {o : Obj} (h : Built o) : o.status = .ok → 0 ≤ o.nw := by
  intro hs
  have := (h.ctorWF (by rw [hs]; decide)).2
  omega

/-- the binding layout of a built object fits its tree: a controlled gate stores as many controls as its pattern has
entries, a multiplexer its `ncontrols` -/
def TopMatches : Tree → Bind → Prop
  | .controlled cs _, .ctrl nc _ _ => nc = cs.length
  | .multiplexed nc _, .mplx nc' _ _ => nc' = nc
  | .leaf _ _ _ _ _, .one _ => True
  | .leaf _ _ _ _ _, .two _ _ _ => True
  | .leaf _ _ _ _ _, .list _ => True
  | .general _ _, .list _ => True
  | .prepare _ _ _ _, .list _ => True
  | .block _ _ _ _, .aux _ => True
  | .timeEvo _ _ _, .fixed => True
  | _, _ => False

theorem topMatches_newBind {t : Tree} {b : Bind} (c : Call) (h : TopMatches t b) : TopMatches t (newBind b c) := by
  cases b <;> cases t <;> simp_all [TopMatches, newBind]

theorem Built.topMatches {o : Obj} (h : Built o) : TopMatches o.tree o.bind := by
  induction h with
  | leaf | leaf2 => trivial
  | iswap h => obtain ⟨_, rfl⟩ := (ctorIswap_ok_iff ..).mp h; trivial
  | rotation h => obtain ⟨_, rfl⟩ := (ctorRotation_ok_iff ..).mp h; trivial
  | phase => trivial
  | prepare h => obtain ⟨_, _, rfl⟩ := (ctorPrepare_ok_iff ..).mp h; trivial
  | general h => obtain ⟨_, rfl⟩ := (ctorGeneral_ok_iff ..).mp h; trivial
  | timeEvo => trivial
  | block => trivial
  | controlled ht h ih =>
    obtain ⟨hOK, rfl⟩ := (ctorControlled_ok_iff ..).mp h
    obtain ⟨hl, h0⟩ := ctrlPattern_length hOK
    show _ = _
    omega
  | multiplexed hts h ih =>
    obtain ⟨_, rfl⟩ := (ctorMultiplexed_ok_iff ..).mp h
    show _ = _
    rfl
  | call ho h ih =>
    obtain ⟨_, _, rfl⟩ := (applyCall_ok_iff ..).mp h
    exact topMatches_newBind _ ih

end Qib.GateCtor

namespace Qib.GateCtor

theorem exists_evalList {ts : List Obj} (h : ∀ t ∈ ts, ∃ e, eval e = .ok t) : ∃ es, evalList es = .ok ts := by
  induction ts with
  | nil => exact ⟨[], evalList_nil⟩
  | cons t ts ih =>
    obtain ⟨e, he⟩ := h t List.mem_cons_self
    obtain ⟨es, hes⟩ := ih (fun t' ht' => h t' (List.mem_cons_of_mem _ ht'))
    refine ⟨e :: es, ?_⟩
    rw [evalList_cons, he, hes]; rfl

/-- every built object is the value of some expression: `Built` describes exactly what `eval` can return -/
theorem Built.exists_expr {o : Obj} (h : Built o) : ∃ e, eval e = .ok o := by
  induction h with
  | leaf cls m mi f q => exact ⟨.leaf cls m mi f q, eval_leaf ..⟩
  | leaf2 cls m mi f q1 q2 => exact ⟨.leaf2 cls m mi f q1 q2, eval_leaf2 ..⟩
  | @iswap q1 q2 m mi o h => exact ⟨.iswap q1 q2 m mi, by rw [eval_iswap, h]⟩
  | @rotation shape q m mi o h => exact ⟨.rotation shape q m mi, by rw [eval_rotation, h]⟩
  | phase nw m mi => exact ⟨.phase nw m mi, eval_phase ..⟩
  | @prepare v nq tr q x o h => exact ⟨.prepare v nq tr q x, by rw [eval_prepare, h]⟩
  | @general a nw o h => exact ⟨.general a nw, by rw [eval_general, h]⟩
  | timeEvo w m mi => exact ⟨.timeEvo w default 0 m mi, eval_timeEvo ..⟩
  | block ns meth hh s => exact ⟨.block ns meth hh s, eval_block ..⟩
  | @controlled t nc ctrl o ht h ih =>
    obtain ⟨e, he⟩ := ih
    exact ⟨.controlled e nc ctrl, by rw [eval_controlled, he]; exact h⟩
  | @multiplexed ts nc o hts h ih =>
    obtain ⟨es, hes⟩ := exists_evalList ih
    exact ⟨.multiplexed es nc, by rw [eval_multiplexed, hes]; exact h⟩
  | @call o c o' ho h ih =>
    obtain ⟨e, he⟩ := ih
    exact ⟨.call e c, by rw [eval_call, he]; exact h⟩

theorem built_iff (o : Obj) : Built o ↔ ∃ e, construct e = .ok o :=
  ⟨fun h => h.exists_expr, fun ⟨e, he⟩ => eval_built e o he⟩

end Qib.GateCtor

namespace Qib.GateCtor

/-! ### evaluating concrete witnesses -/

/-- acceptance as a Boolean (for `decide`) -/
def isOk {ε α : Type} : Except ε α → Bool
  | .ok _ => true
  | .error _ => false

theorem exists_of_isOk {ε α : Type} {r : Except ε α} (h : isOk r = true) : ∃ a, r = .ok a := by
  cases r with
  | ok a => exact ⟨a, rfl⟩
  | error e => cases h

theorem not_unitary_of_exec {A : Mat} {d : ℕ} (hn : A.n = d) (hm : A.m = d) (h : (A.mul A.adjoint).beq (Mat.one d) = false) :
    ¬ (A.toM d d * (A.toM d d)ᴴ = 1) := by
  intro hu
  have := (mul_adj_iff_exec A hn hm).mp hu
  rw [← beq_iff] at this
  rw [this] at h
  cases h

theorem exec_eq_toM {A B : Mat} {n m : ℕ} (h : A.beq B = true) : A.toM n m = B.toM n m := by
  rw [(beq_iff A B).mp h]

end Qib.GateCtor
