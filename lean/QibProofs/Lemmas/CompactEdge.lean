import QibProofs.Lemmas.CompactAlg
import QibProofs.Lemmas.CompactGeom
/-!
C13 helper lemmas, part 3: the edge strings in normal form (`xyStr`: X on one endpoint, Y on the other, optional
auxiliary letter), their pointwise letters, and the anticommutation bit of such a string with any other string.
-/
set_option linter.unusedSimpArgs false
namespace Qib.Compact
open Qib.Pauli Qib.Lattice

/-- `X` on qubit `a`, `Y` on qubit `b`, optionally `Y` (`isY`) or `X` on the auxiliary qubit `f`, phase `q` -/
def xyStr (n a b : Nat) (aux : Option (Nat × Bool)) (q : Fin 4) : PS :=
  match aux with
  | none => two n a b q
  | some (f, isY) => setL (two n a b q) f isY true

theorem base_hasLen (n : Nat) (q : Fin 4) : (⟨List.replicate n false, List.replicate n false, q⟩ : PS).HasLen n := by
  simp [PS.HasLen]

theorem two_hasLen (n a b : Nat) (q : Fin 4) : (two n a b q).HasLen n :=
  setL_hasLen _ _ _ _ _ (setL_hasLen _ _ _ _ _ (base_hasLen n q))

theorem xyStr_hasLen (n a b : Nat) (aux : Option (Nat × Bool)) (q : Fin 4) : (xyStr n a b aux q).HasLen n := by
  unfold xyStr
  split
  · exact two_hasLen n a b q
  · exact setL_hasLen _ _ _ _ _ (two_hasLen n a b q)

theorem xyStr_q (n a b : Nat) (aux : Option (Nat × Bool)) (q : Fin 4) : (xyStr n a b aux q).q = q := by
  unfold xyStr; split <;> rfl

theorem base_zf (n : Nat) (q : Fin 4) (t : Nat) : (⟨List.replicate n false, List.replicate n false, q⟩ : PS).zf t = false :=
  getD_replicate_false n t
theorem base_xf (n : Nat) (q : Fin 4) (t : Nat) : (⟨List.replicate n false, List.replicate n false, q⟩ : PS).xf t = false :=
  getD_replicate_false n t

theorem two_zf (n a b : Nat) (q : Fin 4) (t : Nat) : (two n a b q).zf t = decide (t = b ∧ b < n) := by
  simp only [two, zf_setL, base_zf, setL_z_length, List.length_replicate]
  by_cases h : t = b ∧ b < n <;> simp [h]

theorem two_xf (n a b : Nat) (q : Fin 4) (t : Nat) :
    (two n a b q).xf t = (decide (t = b ∧ b < n) || decide (t = a ∧ a < n)) := by
  simp only [two, xf_setL, base_xf, setL_x_length, List.length_replicate]
  by_cases h : t = b ∧ b < n <;> by_cases h' : t = a ∧ a < n <;> simp [h, h']

theorem xyStr_zf (n a b : Nat) (aux : Option (Nat × Bool)) (q : Fin 4) (t : Nat)
    (hf : ∀ f y, aux = some (f, y) → f ≠ a ∧ f ≠ b ∧ f < n) :
    (xyStr n a b aux q).zf t = (decide (t = b ∧ b < n) || (aux.any fun p => decide (t = p.1) && p.2)) := by
  unfold xyStr
  split
  · simp [two_zf]
  · rename_i f isY
    obtain ⟨h1, h2, h3⟩ := hf f isY rfl
    have hl : (two n a b q).z.length = n := (two_hasLen n a b q).1
    simp only [zf_setL, two_zf, hl, Option.any_some]
    by_cases h : t = f
    · subst h; cases isY <;> simp [h3, h2]
    · simp [h]

theorem xyStr_xf (n a b : Nat) (aux : Option (Nat × Bool)) (q : Fin 4) (t : Nat)
    (hf : ∀ f y, aux = some (f, y) → f ≠ a ∧ f ≠ b ∧ f < n) :
    (xyStr n a b aux q).xf t =
      (decide (t = b ∧ b < n) || decide (t = a ∧ a < n) || (aux.any fun p => decide (t = p.1))) := by
  unfold xyStr
  split
  · simp [two_xf]
  · rename_i f isY
    obtain ⟨h1, h2, h3⟩ := hf f isY rfl
    have hl : (two n a b q).x.length = n := (two_hasLen n a b q).2
    simp only [xf_setL, two_xf, hl, Option.any_some]
    by_cases h : t = f
    · subst h; simp [h3]
    · simp [h]

/-- anticommutation bit of `X_a Y_b` with any string -/
theorem anti_two (n a b : Nat) (q : Fin 4) (R : PS) (hab : a ≠ b) (ha : a < n) (hb : b < n) :
    anti (two n a b q) R = xor (R.zf a) (xor (R.zf b) (R.xf b)) := by
  unfold two
  have hl := base_hasLen n q
  have hl1 := setL_hasLen _ n a false true hl
  have z1 : (setL ⟨List.replicate n false, List.replicate n false, q⟩ a false true).zf b = false := by
    rw [zf_setL, base_zf]; simp
  have x1 : (setL ⟨List.replicate n false, List.replicate n false, q⟩ a false true).xf b = false := by
    rw [xf_setL, base_xf]; simp [Ne.symm hab]
  rw [anti_setL _ _ _ _ _ (by rw [hl1.1]; exact hb) (by rw [hl1.2]; exact hb) z1 x1,
    anti_setL _ _ _ _ _ (by simpa using ha) (by simpa using ha) (getD_replicate_false n a) (getD_replicate_false n a)]
  have h0 : anti ⟨List.replicate n false, List.replicate n false, q⟩ R = false := by
    rw [anti_q_irrel_left _ _ q 0]; exact anti_identity_left n R
  simp [h0, PS.zf, PS.xf]

/-- anticommutation bit of an edge-type string with any string -/
theorem anti_xyStr (n a b : Nat) (aux : Option (Nat × Bool)) (q : Fin 4) (R : PS) (hab : a ≠ b) (ha : a < n) (hb : b < n)
    (hf : ∀ f y, aux = some (f, y) → f ≠ a ∧ f ≠ b ∧ f < n) :
    anti (xyStr n a b aux q) R =
      xor (xor (R.zf a) (xor (R.zf b) (R.xf b))) (aux.any fun p => xor (R.zf p.1) (p.2 && R.xf p.1)) := by
  unfold xyStr
  split
  · simp [anti_two n a b q R hab ha hb]
  · rename_i f isY
    obtain ⟨h1, h2, h3⟩ := hf f isY rfl
    have hl := two_hasLen n a b q
    have hz := two_zf n a b q f
    have hx := two_xf n a b q f
    simp only [PS.zf, PS.xf] at hz hx
    rw [anti_setL _ _ _ _ _ (by rw [hl.1]; exact h3) (by rw [hl.2]; exact h3) (by rw [hz]; simp [h2])
      (by rw [hx]; simp [h1, h2]), anti_two n a b q R hab ha hb]
    simp [PS.zf, PS.xf]

/-! ### the four kinds of oriented edges in normal form -/

/-- coordinates of the auxiliary face of the edge with smaller corner `(x, y)` (`none`: the code's `-1`):
`x + y` even: the face below a horizontal / right of a vertical edge; odd: the face above resp. to the left -/
def auxC (n0 n1 : Nat) (horiz : Bool) (x y : Nat) : Option (Nat × Nat) :=
  if (x + y) % 2 = 0 then (if x + 1 < n0 ∧ y + 1 < n1 then some (x, y) else none)
  else if horiz then (if 1 ≤ x ∧ x < n0 ∧ y + 1 < n1 then some (x - 1, y) else none)
  else (if 1 ≤ y ∧ x + 1 < n0 ∧ y < n1 then some (x, y - 1) else none)

theorem auxFace_eq_auxC (n0 n1 : Nat) (horiz : Bool) (x y : Nat) :
    auxFace n0 n1 horiz x y = (auxC n0 n1 horiz x y).map fun c => fIdx n0 n1 c.1 c.2 := by
  unfold auxC
  rcases Nat.mod_two_eq_zero_or_one (x + y) with h | h
  · rw [auxFace_even _ _ _ _ _ h, if_pos h]; split <;> rfl
  · have h' : ¬ (x + y) % 2 = 0 := by omega
    rw [if_neg h']
    cases horiz
    · rw [auxFace_odd_v _ _ _ _ h]; simp only [Bool.false_eq_true, if_false]; split <;> rfl
    · rw [auxFace_odd_h _ _ _ _ h]; simp only [if_true]; split <;> rfl

theorem auxC_faceOK {n0 n1 : Nat} {horiz : Bool} {x y : Nat} {c : Nat × Nat} (h : auxC n0 n1 horiz x y = some c) :
    FaceOK n0 n1 c.1 c.2 := by
  unfold auxC at h
  unfold FaceOK
  split at h
  · split at h
    · cases h; simp only; omega
    · cases h
  · split at h
    · split at h
      · cases h; simp only; omega
      · cases h
    · split at h
      · cases h; simp only; omega
      · cases h

/-- auxiliary entry of an edge with smaller corner `(x, y)`: its qubit and letter (`Y` on horizontal edges) -/
def auxOf (n0 n1 : Nat) (horiz : Bool) (x y : Nat) : Option (Nat × Bool) :=
  (auxFace n0 n1 horiz x y).map fun f => (f, horiz)

/-- letters of the horizontal edge `(x, y) – (x, y+1)`: `Y` on the left end in even rows, on the right end in odd rows -/
def hBody (n0 n1 x y : Nat) : PS :=
  xyStr (ofcNsites n0 n1) (vIdx n1 x (y + 1 - x % 2)) (vIdx n1 x (y + x % 2)) (auxOf n0 n1 true x y) 0

/-- letters of the vertical edge `(x, y) – (x+1, y)`: `Y` on the upper end in even columns, on the lower end in odd columns -/
def vBody (n0 n1 x y : Nat) : PS :=
  xyStr (ofcNsites n0 n1) (vIdx n1 (x + 1 - y % 2) y) (vIdx n1 (x + y % 2) y) (auxOf n0 n1 false x y) 0

theorem neg_xyStr (n a b : Nat) (aux : Option (Nat × Bool)) : neg (xyStr n a b aux 0) = xyStr n a b aux 2 := by
  unfold xyStr; split <;> rfl

/-- `(x, y) → (x, y+1)` -/
theorem edgeStr_right (n0 n1 x y : Nat) :
    edgeStr n0 n1 x y x (y + 1) = if x % 2 = 0 then neg (hBody n0 n1 x y) else hBody n0 n1 x y := by
  have hmin : min y (y + 1) = y := by omega
  have e1 : ¬ (y + 1 < y) := by omega
  have e2 : y < y + 1 := by omega
  rcases Nat.mod_two_eq_zero_or_one x with h | h <;>
    simp only [edgeStr, edgeCore, hBody, auxOf, h, e1, e2, hmin, neg_xyStr, beq_self_eq_true, if_true, Nat.min_self,
      and_false, and_true, or_false, false_or, if_false, Nat.zero_ne_one, Nat.one_ne_zero, false_and,
      Nat.sub_zero, Nat.add_zero, Nat.add_sub_cancel] <;>
    cases auxFace n0 n1 true x y <;> rfl

/-- `(x, y+1) → (x, y)` -/
theorem edgeStr_left (n0 n1 x y : Nat) :
    edgeStr n0 n1 x (y + 1) x y = if x % 2 = 0 then hBody n0 n1 x y else neg (hBody n0 n1 x y) := by
  have hmin : min (y + 1) y = y := by omega
  have e1 : ¬ (y + 1 < y) := by omega
  have e2 : y < y + 1 := by omega
  rcases Nat.mod_two_eq_zero_or_one x with h | h <;>
    simp only [edgeStr, edgeCore, hBody, auxOf, h, e1, e2, hmin, neg_xyStr, beq_self_eq_true, if_true, Nat.min_self,
      and_false, and_true, or_false, false_or, if_false, Nat.zero_ne_one, Nat.one_ne_zero, false_and, or_true, true_or,
      Nat.sub_zero, Nat.add_zero, Nat.add_sub_cancel] <;>
    cases auxFace n0 n1 true x y <;> rfl

/-- `(x, y) → (x+1, y)` -/
theorem edgeStr_down (n0 n1 x y : Nat) : edgeStr n0 n1 x y (x + 1) y = vBody n0 n1 x y := by
  have hmin : min x (x + 1) = x := by omega
  have hne : ¬ x = x + 1 := by omega
  have hb : (x == x + 1) = false := by simp
  have e1 : ¬ x + 1 < x := by omega
  have e2 : x < x + 1 := by omega
  rcases Nat.mod_two_eq_zero_or_one y with h | h <;>
    simp only [edgeStr, edgeCore, vBody, auxOf, h, e1, e2, hmin, hne, hb, neg_xyStr, if_true, Nat.min_self,
      if_false, Nat.zero_ne_one, Nat.one_ne_zero, Nat.sub_zero, Nat.add_zero, Nat.add_sub_cancel] <;>
    cases auxFace n0 n1 false x y <;> rfl

/-- `(x+1, y) → (x, y)` -/
theorem edgeStr_up (n0 n1 x y : Nat) : edgeStr n0 n1 (x + 1) y x y = neg (vBody n0 n1 x y) := by
  have hmin : min (x + 1) x = x := by omega
  have hne : ¬ x + 1 = x := by omega
  have hb : (x + 1 == x) = false := by simp
  have e1 : ¬ x + 1 < x := by omega
  have e2 : x < x + 1 := by omega
  rcases Nat.mod_two_eq_zero_or_one y with h | h <;>
    simp only [edgeStr, edgeCore, vBody, auxOf, h, e1, e2, hmin, hne, hb, neg_xyStr, if_true, Nat.min_self,
      if_false, Nat.zero_ne_one, Nat.one_ne_zero, Nat.sub_zero, Nat.add_zero, Nat.add_sub_cancel] <;>
    cases auxFace n0 n1 false x y <;> rfl

end Qib.Compact
