import QibProofs.Lemmas.CircuitNetLoop
/-!
Helper lemmas for C05 (tensor-network part), part 8: the induction over the gate list – the loop of
`Circuit.as_tensornet` and the loop of `Circuit.as_matrix` run side by side; after every gate the network denotes the
accumulated matrix. No property statements.
-/
set_option linter.unusedSimpArgs false
set_option linter.unusedSectionVars false
namespace Qib.CircuitNet
open Qib.TNet Qib.GateNet Qib.Embed

/-- entry of an array matrix at natural-number indices (0 outside) -/
def entry {α : Type} [Zero α] {N : Nat} (A : DMat α N) (R C : Nat) : α :=
  if h : R < N ∧ C < N then A.get ⟨R, h.1⟩ ⟨C, h.2⟩ else 0

theorem entry_get {α : Type} [Zero α] {N : Nat} (A : DMat α N) (i j : Fin N) : entry A i.1 j.1 = A.get i j := by
  simp [entry, i.2, j.2]

theorem length_wireDims (fields : List FieldSpec) : (wireDims fields).length = numWires fields := by
  rw [numWires_eq_sum]
  unfold wireDims
  induction fields with
  | nil => rfl
  | cons f fs ih => simp [List.flatMap_cons, ih]

theorem wireDims_eq_rep2 (fields : List FieldSpec) (h : ∀ f ∈ fields, f.localDim = 2) :
    wireDims fields = rep2 (numWires fields) := by
  rw [← length_wireDims]
  unfold rep2
  rw [List.eq_replicate_iff]
  refine ⟨rfl, ?_⟩
  intro b hb
  simp only [wireDims, List.mem_flatMap, List.mem_replicate] at hb
  obtain ⟨f, hf, _, rfl⟩ := hb
  exact h f hf

section Loop
variable {α : Type} [CommSemiring α] [DecidableEq α]

/-- what the theorems need to know about a gate of the circuit (all supplied by C06 for the gate classes it covers, and
by the harness's numbering of data references) -/
structure GateHyp (p : PGate α) : Prop where
  two : C06.TwoAxesPerWire p.g
  den : C06.Denotes p.g
  fresh : ∀ gtn, gateNet p.g = .ok gtn → ∀ k ∈ dkeys gtn.data, k ≠ 0 → k ≠ p.ref0

/-- the network denotes the accumulator of the matrix loop (the identity before the first gate) -/
def DenAcc (n : Nat) (tn : TN α) (acc : Option (DMat α (2 ^ n))) : Prop :=
  ∀ o i : List Nat, o.length = n → i.length = n → Bits o → Bits i →
    full tn.net tn.D (o ++ i) = match acc with
      | none => if o = i then 1 else 0
      | some A => entry A (bitsVal o) (bitsVal i)

theorem sum_ofFn_eq_range {N : Nat} (F : Nat → α) :
    (List.ofFn fun k : Fin N => F k.1).sum = ((List.range N).map F).sum := by
  rw [List.ofFn_eq_map, ← List.map_coe_finRange_eq_range, List.map_map]
  rfl

theorem entry_mul {N : Nat} (M A : DMat α N) (R C : Nat) (hR : R < N) (hC : C < N) :
    entry (M.mul A) R C = ((List.range N).map (fun K => entry M R K * entry A K C)).sum := by
  rw [← sum_ofFn_eq_range]
  simp only [entry, hR, hC, and_self, dite_true, DMat.mul, DMat.get_ofFn]
  congr 1
  apply List.ofFn_inj.mpr
  funext k
  simp [k.2]

/-- the accumulator of the matrix loop after one more gate matrix -/
def nextAcc {N : Nat} (acc : Option (DMat α N)) (M : DMat α N) : Option (DMat α N) :=
  some (match acc with | none => M | some A => M.mul A)

theorem placedMat_entries (fields : List FieldSpec) (ps : List ParticleSpec) (d : Nat) (g : Nat → Nat → α)
    (Mg : DMat α (2 ^ numWires fields)) (h : placedMat fields ps d g = .ok Mg) :
    GateOK fields ps d ∧
      ∀ i j, Mg.toMatrix i j = embedEntry (numWires fields) (wiresOfParticles fields ps) g i.1 j.1 := by
  unfold placedMat at h
  cases hg : gateCircuitMatrix fields ps d g with
  | error e => rw [hg] at h; cases h
  | ok r =>
    obtain ⟨n', out⟩ := r
    rw [hg] at h
    simp only [Except.ok.injEq] at h
    subst h
    obtain ⟨_, hok, _, hden⟩ := gateCircuitMatrix_spec fields ps d g n' out hg
    exact ⟨hok, fun i j => by rw [DMat.toMatrix_tab]; exact hden _ _ i.2 j.2⟩

/-- one gate: the network step against the matrix step -/
theorem gate_den {fields : List FieldSpec} {tn tn' : TN α} {p : PGate α}
    {acc acc1 : Option (DMat α (2 ^ numWires fields))}
    (hst : StateOK (numWires fields) tn) (hden : DenAcc (numWires fields) tn acc)
    (h : gateStep fields (numWires fields) tn p = .ok tn')
    (hstep : circuitMatrixStep fields acc (Instr.gate p.particles (2 ^ p.g.wires) p.g.mat) = .ok acc1)
    (hp : GateHyp p) :
    StateOK (numWires fields) tn' ∧ DenAcc (numWires fields) tn' acc1 := by
  simp only [circuitMatrixStep] at hstep
  cases hM : placedMat fields p.particles (2 ^ p.g.wires) p.g.mat with
  | error e => rw [hM] at hstep; cases hstep
  | ok M =>
  rw [hM] at hstep
  simp only [Except.ok.injEq] at hstep
  obtain ⟨hok, hMe⟩ := placedMat_entries fields p.particles _ p.g.mat M hM
  set iwire := p.particles.map (mapParticleToWire fields) with hiwire
  have hiw : wiresOfParticles fields p.particles = iwire.map Int.toNat := by
    simp [wiresOfParticles, hiwire, List.map_map, Function.comp_def]
  have hwires : ∀ x ∈ iwire, x.toNat < (numWires fields) := by
    intro x hx
    obtain ⟨q, hq, rfl⟩ := List.mem_map.mp hx
    exact hok.inRange q hq
  obtain ⟨hst', hwl, gtn, hg, hval⟩ := gateStep_value hst h hp.two hp.fresh hwires
  refine ⟨hst', ?_⟩
  intro o i hol hil hob hib
  have hiwn : (iwire.map Int.toNat).Nodup := by rw [← hiw]; exact hok.nodup
  have hiwlt : ∀ w ∈ iwire.map Int.toNat, w < (numWires fields) := by
    intro w hw; obtain ⟨x, hx, rfl⟩ := List.mem_map.mp hw; exact hwires x hx
  have hiwl : (iwire.map Int.toNat).length = p.particles.length := by simp [hiwire]
  have hRlt : bitsVal o < 2 ^ (numWires fields) := by have := bitsVal_lt o hob; rwa [hol] at this
  have hClt : bitsVal i < 2 ^ (numWires fields) := by have := bitsVal_lt i hib; rwa [hil] at this
  -- the embedded gate, entrywise
  have hME : ∀ R K, R < 2 ^ (numWires fields) → K < 2 ^ (numWires fields) → entry M R K = embedEntry (numWires fields) (iwire.map Int.toNat) p.g.mat R K := by
    intro R K hR hK
    have := hMe ⟨R, hR⟩ ⟨K, hK⟩
    rw [hiw] at this
    simp only [DMat.toMatrix] at this
    rw [← this]
    exact entry_get M ⟨R, hR⟩ ⟨K, hK⟩
  -- the value of the network after the step, as a sum over the gate's input index
  rw [hval o i hol hil hob hib]
  have hterm : ∀ t ∈ allIdx (rep2 p.particles.length),
      full tn.net tn.D (setW o (iwire.map Int.toNat) t ++ i) * full gtn.net gtn.D (pickD o 0 (iwire.map Int.toNat) ++ t) =
      p.g.mat (bitsVal (pickD o 0 (iwire.map Int.toNat))) (bitsVal t) *
        (match acc with
          | none => if bitsVal (setW o (iwire.map Int.toNat) t) = bitsVal i then (1 : α) else 0
          | some A => entry A (bitsVal (setW o (iwire.map Int.toNat) t)) (bitsVal i)) := by
    intro t ht
    obtain ⟨htl, htb⟩ := mem_allIdx_rep2.mp ht
    have hsl : (setW o (iwire.map Int.toNat) t).length = (numWires fields) := by rw [setW_length, hol]
    have hsb : Bits (setW o (iwire.map Int.toNat) t) := bits_setW hob htb
    rw [hden _ i hsl hil hsb hib,
      hp.den gtn hg _ t (by simp [pickD, hiwire, hwl]) (by rw [htl, hwl]) (bits_pickD hob _) htb, mul_comm]
    congr 1
    cases acc with
    | none =>
      simp only
      by_cases he : setW o (iwire.map Int.toNat) t = i
      · rw [if_pos he, if_pos (by rw [he])]
      · rw [if_neg he, if_neg (fun hb => he (bitsVal_inj _ _ (by rw [hsl, hil]) hsb hib hb))]
    | some A => rfl
  rw [List.map_congr_left hterm]
  -- back to a sum over the flat register index
  cases acc with
  | none =>
    subst hstep
    simp only
    have := embed_mul_bits (iwire.map Int.toNat) hiwn hiwlt p.g.mat
      (fun K => if K = bitsVal i then (1 : α) else 0) hob hol
    rw [hiwl] at this
    rw [← this]
    have hd : ∀ K ∈ List.range (2 ^ (numWires fields)),
        embedEntry (numWires fields) (iwire.map Int.toNat) p.g.mat (bitsVal o) K * (if K = bitsVal i then (1 : α) else 0) =
        if bitsVal i = K then entry M (bitsVal o) K else 0 := by
      intro K hK
      by_cases hk : K = bitsVal i
      · subst hk; rw [if_pos rfl, if_pos rfl, mul_one, hME _ _ hRlt hClt]
      · rw [if_neg hk, if_neg (fun e => hk e.symm), mul_zero]
    rw [List.map_congr_left hd, sum_delta_nodup _ List.nodup_range, if_pos (List.mem_range.mpr hClt)]
  | some A =>
    subst hstep
    simp only
    have := embed_mul_bits (iwire.map Int.toNat) hiwn hiwlt p.g.mat (fun K => entry A K (bitsVal i)) hob hol
    rw [hiwl] at this
    rw [← this, entry_mul M A _ _ hRlt hClt]
    apply congrArg
    apply List.map_congr_left
    intro K hK
    rw [hME _ _ hRlt (List.mem_range.mp hK)]

/-- **the two loops side by side**: if the network loop and the matrix loop both run through, the final network is
consistent with `2n` open axes and denotes the final accumulator -/
theorem loop_den {fields : List FieldSpec} (instrs : List (CInstr α)) :
    ∀ (tn tn' : TN α) (acc acc' : Option (DMat α (2 ^ numWires fields))),
      StateOK (numWires fields) tn → DenAcc (numWires fields) tn acc →
      circuitLoop fields (numWires fields) tn instrs = .ok tn' →
      circuitMatrixLoop fields acc (instrs.map CInstr.toInstr) = .ok acc' →
      (∀ p, CInstr.gate p ∈ instrs → GateHyp p) →
      StateOK (numWires fields) tn' ∧ DenAcc (numWires fields) tn' acc' := by
  induction instrs with
  | nil =>
    intro tn tn' acc acc' hst hden h1 h2 _
    simp only [circuitLoop, Except.ok.injEq] at h1
    simp only [List.map_nil, circuitMatrixLoop, Except.ok.injEq] at h2
    subst h1; subst h2
    exact ⟨hst, hden⟩
  | cons ins rest ih =>
    intro tn tn' acc acc' hst hden h1 h2 hg
    cases ins with
    | ctrl =>
      simp only [circuitLoop] at h1
      simp only [List.map_cons, CInstr.toInstr, circuitMatrixLoop, circuitMatrixStep] at h2
      exact ih tn tn' acc acc' hst hden h1 h2 (fun p hp => hg p (List.mem_cons_of_mem _ hp))
    | gate p =>
      simp only [circuitLoop] at h1
      simp only [List.map_cons, CInstr.toInstr, circuitMatrixLoop] at h2
      cases hs : gateStep fields (numWires fields) tn p with
      | error e => rw [hs] at h1; cases h1
      | ok tn1 =>
        rw [hs] at h1
        cases hstep : circuitMatrixStep fields acc (Instr.gate p.particles (2 ^ p.g.wires) p.g.mat) with
        | error e => rw [hstep] at h2; cases h2
        | ok acc1 =>
          rw [hstep] at h2
          obtain ⟨hst1, hden1⟩ := gate_den hst hden hs hstep (hg p List.mem_cons_self)
          exact ih tn1 tn' acc1 acc' hst1 hden1 h1 h2 (fun q hq => hg q (List.mem_cons_of_mem _ hq))

/-- the state the loop starts from: the identity wires -/
theorem init_state (wd : List Nat) (n : Nat) (hwd : wd = rep2 n) :
    StateOK n (⟨wireNetC wd, []⟩ : TN α) ∧ DenAcc n (⟨wireNetC wd, []⟩ : TN α) none := by
  have hl : wd.length = n := by rw [hwd, length_rep2]
  refine ⟨⟨wireNetC_inv wd, ⟨wireVirt wd, wireNetC_virt wd, ?_⟩, ?_⟩, ?_⟩
  · simp only [wireVirt, hwd, ← rep2_add]; congr 1; omega
  · have hc := consistent_of_wf (wireNetC_wf wd)
    simp only [GateNet.isConsistentData, hc, bind, Except.bind, Bool.not_true, Bool.false_eq_true, if_false, pure,
      Except.pure, Except.ok.injEq, List.all_eq_true]
    intro e he
    simp only [wireNetC, List.mem_cons, List.not_mem_nil, or_false] at he
    subst he
    simp [wireVirt]
  · intro o i hol hil _ _
    exact wireNetC_full wd _ o i (by rw [hol, hl]) (by rw [hil, hl])

/-- a matrix loop that started without accumulator and ended with one placed at least one gate: all fields are two-level -/
theorem loop_some_localDim {fields : List FieldSpec} (is : List (Instr α)) (P : DMat α (2 ^ numWires fields))
    (h : circuitMatrixLoop fields none is = .ok (some P)) : ∀ f ∈ fields, f.localDim = 2 := by
  induction is with
  | nil => simp [circuitMatrixLoop] at h
  | cons ins rest ih =>
    cases ins with
    | ctrl =>
      simp only [circuitMatrixLoop, circuitMatrixStep] at h
      exact ih h
    | gate ps d g =>
      simp only [circuitMatrixLoop, circuitMatrixStep] at h
      cases hM : placedMat fields ps d g with
      | error e => rw [hM] at h; cases h
      | ok M => exact (placedMat_entries fields ps d g M hM).1.localDim

/-! ### the network side alone: consistency and open axes without the final `assert` -/

/-- **the loop body keeps the network consistent** – derived from C06 (gate networks) and C08 (`merge`, `transpose`), not
from the `assert net.is_consistent()` that follows: the result of `gateStepCore` satisfies the invariant of C08 and has
`2n` open axes of dimension 2 -/
theorem gateStepCore_state {fields : List FieldSpec} {n : Nat} {tn tn' : TN α} {p : PGate α}
    (hinv : C08.Inv tn.net) (hshape : ∃ v, dget tn.net.tensors (-1) = some v ∧ v.shape = rep2 (2 * n))
    (h : gateStepCore fields n tn p = .ok tn') (htwo : C06.TwoAxesPerWire p.g) :
    C08.Inv tn'.net ∧ (∃ v, dget tn'.net.tensors (-1) = some v ∧ v.shape = rep2 (2 * n)) ∧
      p.particles.length = p.g.wires := by
  obtain ⟨hfound, gtn, net', perm, hg, hno, ho, hm, hcl, hp, ht, hd⟩ := gateStepCore_ok h
  have hlen : (p.particles.map (mapParticleToWire fields)).length = p.particles.length := by simp
  obtain ⟨va, hva, hsa⟩ := hshape
  have hgwf : WF gtn.net := gateNet_wf p.g gtn hg
  have hginv : C08.Inv (rerefNet p.ref0 gtn.net) := inv_reref ((C08.C08_inv_iff_wf _).mpr hgwf)
  obtain ⟨hgno, hgsh⟩ := htwo gtn hg
  obtain ⟨vb, hvb⟩ := hgwf.virt_get
  have hvb' : dget (rerefNet p.ref0 gtn.net).tensors (-1) = some (rerefTensor p.ref0 vb) := by
    rw [dget_reref, hvb]; rfl
  have hsb0 : vb.shape = rep2 (2 * p.g.wires) := by
    unfold netShape virt at hgsh; rw [hvb] at hgsh; exact Except.ok.inj hgsh
  have hwl : p.particles.length = p.g.wires := by
    rw [numOpenAxes_eq hvb'] at hno
    have := Except.ok.inj hno
    simp only [rerefTensor, hsb0, length_rep2] at this
    omega
  have hsb : (rerefTensor p.ref0 vb).shape = rep2 (2 * (p.particles.map (mapParticleToWire fields)).length) := by
    simp only [rerefTensor, hsb0, hlen, hwl]
  obtain ⟨hinv', hshape', _⟩ := step_full hinv hginv ho hva hvb' hsa hsb hm hp ht tn'.D
  exact ⟨hinv', hshape', hwl⟩

theorem loop_state {fields : List FieldSpec} {n : Nat} (instrs : List (CInstr α)) :
    ∀ (tn tn' : TN α), StateOK n tn → circuitLoop fields n tn instrs = .ok tn' →
      (∀ p, CInstr.gate p ∈ instrs → C06.TwoAxesPerWire p.g) → StateOK n tn' := by
  induction instrs with
  | nil =>
    intro tn tn' hst h1 _
    simp only [circuitLoop, Except.ok.injEq] at h1
    subst h1; exact hst
  | cons ins rest ih =>
    intro tn tn' hst h1 hg
    cases ins with
    | ctrl =>
      simp only [circuitLoop] at h1
      exact ih tn tn' hst h1 (fun p hp => hg p (List.mem_cons_of_mem _ hp))
    | gate p =>
      simp only [circuitLoop] at h1
      cases hs : gateStep fields n tn p with
      | error e => rw [hs] at h1; cases h1
      | ok tn1 =>
        rw [hs] at h1
        obtain ⟨hcore, hcons⟩ := gateStep_ok hs
        obtain ⟨h2, h3, _⟩ := gateStepCore_state hst.inv hst.shape hcore (hg p List.mem_cons_self)
        exact ih tn1 tn' ⟨h2, h3, hcons⟩ h1 (fun q hq => hg q (List.mem_cons_of_mem _ hq))

/-- unfolding `circuitNet`: the loop started from the identity wires -/
theorem circuitNet_ok {fields : List FieldSpec} {instrs : List (CInstr α)} {tn : TN α}
    (h : circuitNet fields instrs = .ok tn) :
    circuitLoop fields (wireDims fields).length (⟨wireNetC (wireDims fields), []⟩ : TN α) instrs = .ok tn := by
  unfold circuitNet at h
  simp only [bind, Except.bind, wireNet_eq] at h
  cases ha : assertConsistent (⟨wireNetC (wireDims fields), []⟩ : TN α) with
  | error e => rw [ha] at h; cases h
  | ok u => rw [ha] at h; exact h

end Loop

end Qib.CircuitNet
