import QibProofs.Lemmas.TNetTreeTotalLeaf
/-!
Helper lemmas for C07 totality, part 8: `permuteAt` (`ContractionTreeNode.permute_axes` on the node reached by a path)
returns on every certified tree for every valid path and every permutation of the node's legs (`permuteAt_total`), and
refuses a wrong length with `ValueError` (`permuteAt_wrong_length`) (no property statements).
-/
namespace Qib.TNet

/-- the record of the node reached from the root by `path` (`false` = left child) -/
def nodeAt : Tree → List Bool → Option NodeInfo
  | .leaf i, [] => some i
  | .node i _ _, [] => some i
  | .leaf _, _ :: _ => none
  | .node _ l r, b :: p => if b then nodeAt r p else nodeAt l p

theorem nodeAt_nil (t : Tree) : nodeAt t [] = some t.info := by cases t <;> rfl

/-- the tracking of the root of a certified tree is certified -/
theorem info_of_treeOK {net : Net} : ∀ t : Tree, (∀ x ∈ treeOKList net t, x = true) → InfoCert net t.info := by
  intro t hok
  cases t with
  | leaf i => exact (leafOK_cert (hok (leafOK net i) (by simp [treeOKList]))).info
  | node i l r => exact (nodeOK_cert (hok (nodeOK net i l.info r.info) (by simp [treeOKList]))).iN

/-- **`permute_axes` returns** on every node of a certified tree, for every permutation of the node's legs -/
theorem permuteAt_total {net : Net} {sort : List Nat} (hs : sort.Perm (List.range sort.length)) :
    ∀ (t : Tree) (path : List Bool) (j : NodeInfo), (∀ x ∈ treeOKList net t, x = true) → nodeAt t path = some j →
      sort.length = j.idxout.length → ∃ t', permuteAt t path sort = .ok t' := by
  intro t
  induction t with
  | leaf i =>
    intro path j hok hj hlen
    cases path with
    | nil =>
      simp only [nodeAt, Option.some.injEq] at hj
      subst hj
      exact permuteAt_root_total (tree := .leaf i) (info_of_treeOK _ hok) hs hlen
    | cons b p => simp [nodeAt] at hj
  | node i l r ihl ihr =>
    intro path j hok hj hlen
    cases path with
    | nil =>
      simp only [nodeAt, Option.some.injEq] at hj
      subst hj
      exact permuteAt_root_total (tree := .node i l r) (info_of_treeOK _ hok) hs hlen
    | cons b p =>
      have hok' := hok
      simp only [treeOKList, List.mem_cons, List.mem_append] at hok'
      have hc : NodeCert net i l.info r.info := nodeOK_cert (hok' _ (Or.inl rfl))
      have hlt : ∀ x ∈ sort, x < sort.length := fun x hx => perm_range_lt hs hx
      cases b with
      | true =>
        simp only [nodeAt, if_true] at hj
        obtain ⟨r', hr'⟩ := ihr p j (fun x hx => hok' x (Or.inr (Or.inr hx))) hj hlen
        by_cases hp : p = []
        · subst hp
          rw [nodeAt_nil] at hj
          cases hj
          obtain ⟨io, hio⟩ := pick_total i.idxR sort (fun x hx => by rw [hc.lenR, ← hlen]; exact hlt x hx)
          simp only [permuteAt, hr', bind, Except.bind, if_true, List.isEmpty_nil, hio, pure, Except.pure]
          exact ⟨_, rfl⟩
        · have hne : p.isEmpty = false := by cases p <;> simp_all
          simp only [permuteAt, hr', bind, Except.bind, if_true, hne, Bool.false_eq_true, if_false, pure, Except.pure]
          exact ⟨_, rfl⟩
      | false =>
        simp only [nodeAt, Bool.false_eq_true, if_false] at hj
        obtain ⟨l', hl'⟩ := ihl p j (fun x hx => hok' x (Or.inr (Or.inl hx))) hj hlen
        by_cases hp : p = []
        · subst hp
          rw [nodeAt_nil] at hj
          cases hj
          obtain ⟨io, hio⟩ := pick_total i.idxL sort (fun x hx => by rw [hc.lenL, ← hlen]; exact hlt x hx)
          simp only [permuteAt, hl', bind, Except.bind, Bool.false_eq_true, if_false, if_true, List.isEmpty_nil, hio,
            pure, Except.pure]
          exact ⟨_, rfl⟩
        · have hne : p.isEmpty = false := by cases p <;> simp_all
          simp only [permuteAt, hl', bind, Except.bind, hne, Bool.false_eq_true, if_false, pure, Except.pure]
          exact ⟨_, rfl⟩

/-- an index sequence of the wrong length: `ValueError`, for every node of every tree -/
theorem permuteAt_wrong_length {sort : List Nat} : ∀ (t : Tree) (path : List Bool) (j : NodeInfo),
    nodeAt t path = some j → sort.length ≠ j.idxout.length → permuteAt t path sort = .error .valueError := by
  intro t
  induction t with
  | leaf i =>
    intro path j hj hlen
    cases path with
    | nil =>
      simp only [nodeAt, Option.some.injEq] at hj
      subst hj
      have hne : (sort.length != i.idxout.length) = true := by simpa using hlen
      simp [permuteAt, permuteInfo, hne, bind, Except.bind, throw, throwThe, MonadExceptOf.throw]
    | cons b p => simp [nodeAt] at hj
  | node i l r ihl ihr =>
    intro path j hj hlen
    cases path with
    | nil =>
      simp only [nodeAt, Option.some.injEq] at hj
      subst hj
      have hne : (sort.length != i.idxout.length) = true := by simpa using hlen
      simp [permuteAt, permuteInfo, hne, bind, Except.bind, throw, throwThe, MonadExceptOf.throw]
    | cons b p =>
      cases b with
      | true =>
        simp only [nodeAt, if_true] at hj
        simp only [permuteAt, if_true, ihr p j hj hlen, bind, Except.bind]
      | false =>
        simp only [nodeAt, Bool.false_eq_true, if_false] at hj
        simp only [permuteAt, Bool.false_eq_true, if_false, ihl p j hj hlen, bind, Except.bind]

/-- a path that runs through a leaf: the model's `KeyError` (there is no such node) -/
theorem permuteAt_no_node {sort : List Nat} : ∀ (t : Tree) (path : List Bool), nodeAt t path = none →
    permuteAt t path sort = .error .keyError := by
  intro t
  induction t with
  | leaf i =>
    intro path hj
    cases path with
    | nil => simp [nodeAt] at hj
    | cons b p => rfl
  | node i l r ihl ihr =>
    intro path hj
    cases path with
    | nil => simp [nodeAt] at hj
    | cons b p =>
      cases b with
      | true =>
        simp only [nodeAt, if_true] at hj
        simp only [permuteAt, if_true, ihr p hj, bind, Except.bind]
      | false =>
        simp only [nodeAt, Bool.false_eq_true, if_false] at hj
        simp only [permuteAt, Bool.false_eq_true, if_false, ihl p hj, bind, Except.bind]

end Qib.TNet
