import QibProofs.Lemmas.CompactRel
/-!
C13 helper lemmas, part 13: the auxiliary qubit of an edge is, in the odd-face-centred lattice of C14
(`OddFaceCenteredLattice.adjacency_matrix`), linked with both endpoints of the edge.
-/
set_option linter.unusedSimpArgs false
namespace Qib.Compact
open Qib.Pauli Qib.Lattice

theorem faceCoord_faceIndex {n0 n1 a b : Nat} (h : FaceOK n0 n1 a b) :
    faceCoord (n1 - 1) (faceIndex (n1 - 1) a b) = (a, b) := by
  have h1 := faceIndex_spec h
  have h2 := faceCells_getElem?_eq n0 n1 _ (faceIndex_lt h)
  rw [faceCells_eq, h1] at h2
  exact (Option.some.inj h2).symm

/-- the four corners of a numbered face are linked with its auxiliary qubit -/
theorem faceAdj_corner {n0 n1 a b x y : Nat} (h : FaceOK n0 n1 a b) (hx : x = a ∨ x = a + 1) (hy : y = b ∨ y = b + 1) :
    faceAdj n0 n1 (fIdx n0 n1 a b) (vIdx n1 x y) = true := by
  have hxn : x < n0 := by obtain ⟨h1, _, _⟩ := h; omega
  have hyn : y < n1 := by obtain ⟨_, h2, _⟩ := h; omega
  rw [faceAdj_iff n0 n1 _ _ (fIdx_ge _ _ _ _) (fIdx_lt h) (vIdx_lt hxn hyn)]
  have e : fIdx n0 n1 a b - n0 * n1 = faceIndex (n1 - 1) a b := by unfold fIdx; omega
  rw [e, faceCoord_faceIndex h]
  have := (eq_mul_add_iff (j := vIdx n1 x y) (a := x) hyn).mp rfl
  simp only
  omega

/-- **the auxiliary qubit of an edge is a lattice neighbour of both endpoints** -/
theorem auxFace_adjacent {n0 n1 ix iy jx jy f : Nat} (h : EdgeOk n0 n1 ix iy jx jy)
    (hf : auxFace n0 n1 (ix == jx) (min ix jx) (min iy jy) = some f) :
    faceAdj n0 n1 f (vIdx n1 ix iy) = true ∧ faceAdj n0 n1 f (vIdx n1 jx jy) = true := by
  rw [auxFace_eq_auxC] at hf
  cases hc : auxC n0 n1 (ix == jx) (min ix jx) (min iy jy) with
  | none => rw [hc] at hf; cases hf
  | some c =>
    rw [hc] at hf
    simp only [Option.map_some, Option.some.injEq] at hf
    subst hf
    have hok := auxC_faceOK hc
    obtain ⟨h1, h2, h3, h4, hnn⟩ := h
    unfold NN at hnn
    unfold auxC at hc
    by_cases e : ix = jx
    · have eb : (ix == jx) = true := by simpa using e
      simp only [eb, if_true] at hc
      split at hc
      · split at hc
        · cases hc
          exact ⟨faceAdj_corner hok (by simp only; omega) (by simp only; omega),
            faceAdj_corner hok (by simp only; omega) (by simp only; omega)⟩
        · cases hc
      · split at hc
        · cases hc
          exact ⟨faceAdj_corner hok (by simp only; omega) (by simp only; omega),
            faceAdj_corner hok (by simp only; omega) (by simp only; omega)⟩
        · cases hc
    · have eb : (ix == jx) = false := by simpa using e
      simp only [eb, Bool.false_eq_true, if_false] at hc
      split at hc
      · split at hc
        · cases hc
          exact ⟨faceAdj_corner hok (by simp only; omega) (by simp only; omega),
            faceAdj_corner hok (by simp only; omega) (by simp only; omega)⟩
        · cases hc
      · split at hc
        · cases hc
          exact ⟨faceAdj_corner hok (by simp only; omega) (by simp only; omega),
            faceAdj_corner hok (by simp only; omega) (by simp only; omega)⟩
        · cases hc

end Qib.Compact
