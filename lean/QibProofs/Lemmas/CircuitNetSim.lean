import QibProofs.Lemmas.CircuitNetEinsum
/-!
Helper lemmas for C05 (tensor-network part), part 10: the `|0>` network of `TensorNetworkSimulator.run` (closed form,
well-formedness, value) and the merge of it onto the input legs of a circuit network. No property statements.
-/
set_option linter.unusedSimpArgs false
set_option linter.unusedSectionVars false
namespace Qib.CircuitNet
open Qib.TNet Qib.GateNet

/-! ### closed form of `init_net` on a two-level register -/

def ketTensor (i : Nat) : Int × STensor := (Int.ofNat i, ⟨Int.ofNat i, [2], [Int.ofNat i], some 4⟩)
def ketBond (i : Nat) : Int × SBond := (Int.ofNat i, ⟨Int.ofNat i, [-1, Int.ofNat i]⟩)
def initVirt (n : Nat) : STensor := ⟨-1, rep2 n, irange n, none⟩

def initNetC (n : Nat) : Net :=
  ⟨(List.range n).map ketTensor ++ [(-1, initVirt n)], (List.range n).map ketBond⟩

section Closed
variable {α : Type} [Zero α] [One α] [Add α] [Mul α] [DecidableEq α]

def initDataC (n : Nat) : List (Int × DT α) := if n = 0 then [] else [(4, DT.ofFn [2] ket0Sem)]

theorem liftT_okv {β : Type} (x : β) : liftT (Except.ok x) = Except.ok x := rfl

theorem init_tensor_fold (k i0 : Nat) :
    (List.replicate k 2).foldlM (initStep (α := α))
      ((⟨(List.range i0).map ketTensor, []⟩ : Net), initDataC i0, i0) =
      .ok ((⟨(List.range (i0 + k)).map ketTensor, []⟩ : Net), initDataC (i0 + k), i0 + k) := by
  induction k generalizing i0 with
  | zero => simp [pure, Except.pure]
  | succ k ih =>
    rw [List.replicate_succ, List.foldlM_cons]
    have hmk : mkTensor (Int.ofNat i0) [2] [Int.ofNat i0] (some (ketRef 2)) = .ok (ketTensor i0).2 := by
      simp [mkTensor, ketRef, ketTensor]
    have hadd : addTensor (⟨(List.range i0).map ketTensor, []⟩ : Net) (ketTensor i0).2 =
        .ok ⟨(List.range (i0 + 1)).map ketTensor, []⟩ := by
      have hd : dhas ((List.range i0).map ketTensor) (Int.ofNat i0) = false := by
        rw [dhas_false_iff]
        simp only [dkeys, List.map_map, List.mem_map, List.mem_range, Function.comp, ketTensor, not_exists, not_and]
        intro x hx he
        have : x = i0 := by simpa using he
        omega
      simp only [addTensor, ketTensor] at hd ⊢
      simp only [hd, Bool.false_eq_true, if_false, List.range_succ, List.map_append, List.map_cons, List.map_nil, ketTensor]
    have hstep : initStep (α := α) ((⟨(List.range i0).map ketTensor, []⟩ : Net), initDataC i0, i0) 2 =
        .ok ((⟨(List.range (i0 + 1)).map ketTensor, []⟩ : Net), initDataC (i0 + 1), i0 + 1) := by
      have hmk' : mkTensor (i0 : Int) [2] [(i0 : Int)] (some 4) = .ok (ketTensor i0).2 := hmk
      have hd1 : initDataC (α := α) (i0 + 1) = [(4, DT.ofFn [2] ket0Sem)] := by simp [initDataC]
      unfold initStep
      by_cases h0 : i0 = 0
      · have hd0 : initDataC (α := α) i0 = [] := by simp [initDataC, h0]
        simp [hmk', liftT_okv, bind, Except.bind, hadd, hd0, hd1, dhas, ketRef, pure, Except.pure]
      · have hd0 : initDataC (α := α) i0 = [(4, DT.ofFn [2] ket0Sem)] := by simp [initDataC, h0]
        simp [hmk', liftT_okv, bind, Except.bind, hadd, hd0, hd1, dhas, ketRef, pure, Except.pure]
    rw [hstep]
    simp only [bind, Except.bind]
    have := ih (i0 + 1)
    rw [this]
    have e : i0 + 1 + k = i0 + (k + 1) := by omega
    rw [e]

theorem init_bond_fold (n : Nat) (ts : List (Int × STensor)) (L : List Nat) (bs : List (Int × SBond))
    (hnd : L.Nodup) (hfresh : ∀ i ∈ L, Int.ofNat i ∉ dkeys bs) :
    L.foldlM (fun (net : Net) i => do
      let b ← liftT (mkBond (Int.ofNat i) [-1, Int.ofNat i])
      liftT (addBond net b)) (⟨ts, bs⟩ : Net) = .ok ⟨ts, bs ++ L.map ketBond⟩ := by
  induction L generalizing bs with
  | nil => simp [pure, Except.pure]
  | cons i L ih =>
    rw [List.nodup_cons] at hnd
    rw [List.foldlM_cons]
    have hmk : mkBond (Int.ofNat i) [-1, Int.ofNat i] = .ok (ketBond i).2 := by
      have hs : isort [-1, (i : Int)] = [-1, (i : Int)] := by
        apply isort_eq_self
        simp only [List.pairwise_cons, List.mem_cons, List.not_mem_nil, or_false, forall_eq, IsEmpty.forall_iff,
          implies_true, List.Pairwise.nil, and_true]
        omega
      simp [mkBond, hs, ketBond]
    have hadd : addBond (⟨ts, bs⟩ : Net) (ketBond i).2 = .ok ⟨ts, bs ++ [ketBond i]⟩ := by
      have this' : dhas bs (i : Int) = false := (dhas_false_iff _ _).mpr (hfresh i List.mem_cons_self)
      simp [addBond, ketBond, this']
    simp only [hmk, liftT_okv, bind, Except.bind, hadd]
    have := ih (bs ++ [ketBond i]) hnd.2 (by
      intro j hj hm
      simp only [dkeys, List.map_append, List.map_cons, List.map_nil, List.mem_append, List.mem_singleton, ketBond] at hm
      rcases hm with hm | hm
      · exact hfresh j (List.mem_cons_of_mem _ hj) (by simpa [dkeys] using hm)
      · have : j = i := by simpa using hm
        subst this; exact hnd.1 hj)
    simp only [bind, Except.bind] at this
    rw [this]
    simp

theorem initTN_eq (n : Nat) : initTN (α := α) (rep2 n) = .ok ⟨initNetC n, initDataC n⟩ := by
  unfold initTN
  have h1 := init_tensor_fold (α := α) n 0
  simp only [List.range_zero, List.map_nil, Nat.zero_add] at h1
  have h0 : initDataC (α := α) 0 = [] := by simp [initDataC]
  rw [h0] at h1
  have hr : rep2 n = List.replicate n 2 := rfl
  simp only [bind, Except.bind, Net.empty]
  rw [hr, h1]
  simp only [List.length_replicate]
  have hv : mkTensor (-1) (List.replicate n 2) (irange n) none = .ok (initVirt n) := by
    simp [mkTensor, irange, initVirt, rep2]
  have hadd : addTensor (⟨(List.range n).map ketTensor, []⟩ : Net) (initVirt n) =
      .ok ⟨(List.range n).map ketTensor ++ [(-1, initVirt n)], []⟩ := by
    have hd : dhas ((List.range n).map ketTensor) (-1) = false := by
      rw [dhas_false_iff]
      simp only [dkeys, List.map_map, List.mem_map, List.mem_range, Function.comp, ketTensor, not_exists, not_and]
      intro x _ he
      simp only [Int.ofNat_eq_natCast] at he
      omega
    simp only [addTensor, initVirt] at hd ⊢
    simp [hd]
  simp only [hv, liftT_okv, hadd]
  have hb := init_bond_fold n ((List.range n).map ketTensor ++ [(-1, initVirt n)]) (List.range n) []
    List.nodup_range (fun i _ => by simp [dkeys])
  simp only [List.nil_append, bind, Except.bind] at hb
  rw [hb]
  rfl

end Closed

/-! ### well-formedness and value -/

theorem initNetC_virt (n : Nat) : dget (initNetC n).tensors (-1) = some (initVirt n) := by
  have hn : (-1 : Int) ∉ dkeys ((List.range n).map ketTensor) := by
    simp only [dkeys, List.map_map, List.mem_map, List.mem_range, Function.comp, ketTensor, not_exists, not_and]
    intro x _ he
    simp only [Int.ofNat_eq_natCast] at he
    omega
  simp only [initNetC, dget]
  have : ((List.range n).map ketTensor ++ [((-1 : Int), initVirt n)]).lookup (-1) = some (initVirt n) := by
    rw [lookup_append_notMem]
    have hnone : ((List.range n).map ketTensor).lookup (-1) = none := dget_eq_none_of_notMem _ hn
    simp [hnone]
  exact this

theorem initNetC_wf (n : Nat) : WF (initNetC n) := by
  apply wf_of_tables (initNetC n)
    (fun t => if t = -1 then irange n else if 0 ≤ t ∧ t < n then [t] else [])
    (fun b => if 0 ≤ b ∧ b < n then [-1, b] else [])
  · -- tensor keys distinct
    simp only [initNetC, dkeys, List.map_append, List.map_map, List.map_cons, List.map_nil]
    rw [List.nodup_append]
    refine ⟨List.Nodup.map (fun a b h => by simpa [ketTensor] using h) List.nodup_range, by simp, ?_⟩
    intro a ha b hb
    simp only [List.mem_map, List.mem_range, Function.comp, ketTensor] at ha
    obtain ⟨x, _, rfl⟩ := ha
    simp only [List.mem_singleton] at hb
    subst hb
    simp only [Int.ofNat_eq_natCast]; omega
  · simp only [initNetC, dkeys, List.map_map]
    exact List.Nodup.map (fun a b h => by simpa [ketBond] using h) List.nodup_range
  · intro e he
    simp only [initNetC, List.mem_append, List.mem_map, List.mem_singleton] at he
    rcases he with ⟨i, _, rfl⟩ | rfl <;> rfl
  · intro e he; simp only [initNetC, List.mem_map] at he; obtain ⟨i, _, rfl⟩ := he; rfl
  · intro e he
    simp only [initNetC, List.mem_append, List.mem_map, List.mem_singleton] at he
    rcases he with ⟨i, _, rfl⟩ | rfl
    · rfl
    · simp [initVirt, rep2, irange]
  · intro e he
    simp only [initNetC, List.mem_append, List.mem_map, List.mem_range, List.mem_singleton] at he
    rcases he with ⟨i, hi, rfl⟩ | rfl
    · have hc : (0 : Int) ≤ (i : Int) ∧ (i : Int) < n := ⟨by omega, by omega⟩
      have hne : ¬ ((i : Int) = -1) := by omega
      simp [ketTensor, hc, hne]
    · simp [initVirt]
  · intro t ht
    simp only [initNetC, dkeys, List.map_append, List.map_map, List.map_cons, List.map_nil, List.mem_append, List.mem_map,
      List.mem_range, Function.comp, ketTensor, List.mem_singleton, not_or, not_exists, not_and] at ht
    rw [if_neg ht.2, if_neg]
    rintro ⟨h0, h1⟩
    exact ht.1 t.toNat (by omega) (by simp [Int.toNat_of_nonneg h0])
  · intro e he; simp only [initNetC, List.mem_map, List.mem_range] at he; obtain ⟨i, hi, rfl⟩ := he
    have hc : (0 : Int) ≤ (i : Int) ∧ (i : Int) < n := ⟨by omega, by omega⟩
    simp [ketBond, hc]
  · intro b hb
    simp only [initNetC, dkeys, List.map_map, List.mem_map, List.mem_range, Function.comp, not_exists, not_and, ketBond] at hb
    rw [if_neg]
    rintro ⟨h0, h1⟩
    exact hb b.toNat (by omega) (by simp [Int.toNat_of_nonneg h0])
  · intro b
    split
    · rename_i h; simp only [List.pairwise_cons, List.mem_cons, List.not_mem_nil, or_false, forall_eq, IsEmpty.forall_iff,
        implies_true, List.Pairwise.nil, and_true]; omega
    · simp
  · intro b hb
    simp only [initNetC, dkeys, List.map_map, List.mem_map, List.mem_range, Function.comp, ketBond] at hb
    obtain ⟨i, hi, rfl⟩ := hb
    simp only [Int.ofNat_eq_natCast]
    rw [if_pos ⟨by omega, by omega⟩]; simp
  · intro t b
    by_cases ht : t = -1
    · subst ht
      rw [if_pos rfl, count_irange]
      by_cases hb : 0 ≤ b ∧ b < n
      · rw [if_pos hb, if_pos hb]
        have : b ≠ -1 := by omega
        simp [List.count_cons, this]
      · rw [if_neg hb, if_neg hb]; simp
    · rw [if_neg ht]
      by_cases htr : 0 ≤ t ∧ t < n
      · rw [if_pos htr]
        by_cases hb : 0 ≤ b ∧ b < n
        · rw [if_pos hb]
          by_cases hbt : b = t
          · subst hbt; simp [List.count_cons, ht, Ne.symm ht]
          · simp [List.count_cons, ht, Ne.symm ht, hbt, Ne.symm hbt]
        · rw [if_neg hb]
          have : t ≠ b := fun e => hb (e ▸ htr)
          simp [List.count_cons, this]
      · rw [if_neg htr]
        by_cases hb : 0 ≤ b ∧ b < n
        · rw [if_pos hb]
          have : b ≠ t := fun e => htr (e ▸ hb)
          simp [List.count_cons, ht, Ne.symm ht, this]
        · rw [if_neg hb]; simp
  · apply dims_of_const (initNetC n) 2
    intro e he x hx
    simp only [initNetC, List.mem_append, List.mem_map, List.mem_singleton] at he
    rcases he with ⟨i, _, rfl⟩ | rfl
    · simpa [ketTensor] using hx
    · simp only [initVirt, rep2, List.mem_replicate] at hx; exact hx.2
  · simp [initNetC, dkeys]

theorem initNetC_inv (n : Nat) : C08.Inv (initNetC n) := (C08.C08_inv_iff_wf _).mpr (initNetC_wf n)

section Value
variable {α : Type} [CommSemiring α]

theorem realTensors_init (n : Nat) : realTensors (initNetC n) = (List.range n).map (fun i => (ketTensor i).2) := by
  simp only [realTensors, initNetC, List.filter_append, List.map_append]
  have h1 : ((List.range n).map ketTensor).filter (fun e => e.1 != -1) = (List.range n).map ketTensor := by
    apply List.filter_eq_self.mpr
    intro e he
    simp only [List.mem_map] at he
    obtain ⟨c, _, rfl⟩ := he
    simp only [ketTensor, Int.ofNat_eq_natCast, bne_iff_ne, ne_eq]; omega
  rw [h1]
  simp [List.map_map, Function.comp_def]

/-- the `|0>` network is the product of its vectors -/
theorem initNetC_full (n : Nat) (D : Option Int → List Nat → α) (y : List Nat) (hy : y.length = n) :
    full (initNetC n) D y = prodL (y.map (fun v => D (some 4) [v])) := by
  have hp : pinsOK (initVirt n).bids y = true :=
    (GateNet.pinsOK_iff _ _).mpr (exists_map_of_nodup _ _ (irange_nodup n) (by simp [initVirt, irange, hy]))
  rw [full_eval _ D _ _ (initNetC_virt n) hp]
  have hint : internalBids (initNetC n) (initVirt n) = [] := by
    apply internalBids_nil
    intro b hb
    simp only [initNetC, dkeys, List.map_map, List.mem_map, List.mem_range, Function.comp, ketBond] at hb
    obtain ⟨k, hk, rfl⟩ := hb
    exact mem_irange.mpr ⟨by simp, by simpa using hk⟩
  rw [hint, realTensors_init]
  have hm := map_pin _ _ (fun _ => 0) hp
  generalize pin (initVirt n).bids y (fun _ => 0) = σ at hm
  simp only [sumOver, List.map_map, Function.comp_def, ketTensor, List.map_cons, List.map_nil]
  congr 1
  simp only [initVirt, irange, List.map_map] at hm
  rw [← hm, List.map_map]
  rfl

end Value

end Qib.CircuitNet
