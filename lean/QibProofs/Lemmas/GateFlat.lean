import QibModel.Gate
import Mathlib.Tactic.Ring
import Mathlib.Tactic.Linarith
/-! Flat-index facts about the executable gate model (`QibModel/Gate.lean`): the control index is the
control pattern read most-significant control first. Helper lemmas only. -/
open Qib Qib.Gate
namespace Qib.GateFlat

/-- binary value of a bit list read most-significant bit first -/
def ofBitsMSB (cs : List Bool) : Nat := cs.foldl (fun acc b => 2 * acc + (if b then 1 else 0)) 0

theorem foldl_msb (cs : List Bool) (acc : Nat) :
    cs.foldl (fun acc b => 2 * acc + (if b then 1 else 0)) acc = acc * 2 ^ cs.length + ofBitsMSB cs := by
  induction cs generalizing acc with
  | nil => simp [ofBitsMSB]
  | cons b bs ih =>
    simp only [List.foldl_cons, List.length_cons, ofBitsMSB]
    rw [ih, ih (2 * 0 + _)]
    ring

theorem ofBitsMSB_cons (b : Bool) (bs : List Bool) :
    ofBitsMSB (b :: bs) = (if b then 1 else 0) * 2 ^ bs.length + ofBitsMSB bs := by
  simp only [ofBitsMSB, List.foldl_cons]
  rw [foldl_msb]; simp [ofBitsMSB]

/-- the loop of `ControlledGate.as_matrix` from position `j` on -/
theorem ctrl_loop (nc : Nat) (cs : List Bool) (pre : List Bool) (hlen : (pre ++ cs).length = nc) (ic : Nat) :
    (List.range' pre.length cs.length).foldl (fun ic j => if (pre ++ cs).getD j false then ic + (1 <<< (nc - 1 - j)) else ic) ic
      = ic + ofBitsMSB cs := by
  induction cs generalizing pre ic with
  | nil => simp [ofBitsMSB]
  | cons b bs ih =>
    have h1 : (pre ++ b :: bs).getD pre.length false = b := by simp [List.getD]
    have hnc : nc - 1 - pre.length = bs.length := by simp at hlen; omega
    rw [List.length_cons, List.range'_succ, List.foldl_cons, h1, hnc]
    have := ih (pre ++ [b]) (by simpa using hlen)
    simp only [List.length_append, List.length_singleton, List.append_assoc, List.singleton_append] at this
    rw [this, ofBitsMSB_cons, Nat.shiftLeft_eq]
    cases b <;> simp <;> ring

theorem ctrlIndex_msb (cs : List Bool) : ctrlIndex cs = ofBitsMSB cs := by
  have := ctrl_loop cs.length cs [] (by simp) 0
  simp only [List.length_nil, List.nil_append, Nat.zero_add] at this
  show List.foldl _ 0 (List.range cs.length) = _
  rw [List.range_eq_range']
  exact this

theorem ofBitsMSB_lt (cs : List Bool) : ofBitsMSB cs < 2 ^ cs.length := by
  induction cs with
  | nil => simp [ofBitsMSB]
  | cons b bs ih =>
    rw [ofBitsMSB_cons, List.length_cons, pow_succ]
    cases b <;> simp <;> omega

theorem ofBitsMSB_injective (cs ds : List Bool) (hl : cs.length = ds.length) (h : ofBitsMSB cs = ofBitsMSB ds) : cs = ds := by
  induction cs generalizing ds with
  | nil => cases ds with
    | nil => rfl
    | cons d ds => simp at hl
  | cons b bs ih =>
    cases ds with
    | nil => simp at hl
    | cons d ds =>
      have hl' : bs.length = ds.length := by simpa using hl
      rw [ofBitsMSB_cons, ofBitsMSB_cons, hl'] at h
      have h1 := ofBitsMSB_lt bs
      have h2 := ofBitsMSB_lt ds
      rw [hl'] at h1
      have hb : b = d := by
        cases b <;> cases d <;> simp at h ⊢ <;> omega
      subst hb
      have : ofBitsMSB bs = ofBitsMSB ds := by omega
      rw [ih ds hl' this]

end Qib.GateFlat
