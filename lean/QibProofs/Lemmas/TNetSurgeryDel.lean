import QibProofs.Lemmas.TNetSurgeryJoin
/-!
Helper lemmas for C08, part 10: the value of a network as a sum over all labellings against an indicator, and the
value after removing open axes (the last stage of `merge`) as the partial sum over the removed axes (no property
statements).
-/
namespace Qib.TNet
variable {α : Type} [CommSemiring α]

/-- the value as a sum over ALL bond labellings, the open legs tested instead of pinned -/
theorem full_eq_allsum {net : Net} (h : WF net) {v : STensor} (hv : dget net.tensors (-1) = some v)
    (D : Option Int → List Nat → α) (z : List Nat)
    (hr : ∀ (k i d : Nat), z[k]? = some i → v.shape[k]? = some d → i < d) :
    full net D z = sumOver (bondDim net) (dkeys net.bonds)
      (fun σ => if v.bids.map σ == z then tensorTerm D (realTs net) σ else 0) (fun _ => 0) := by
  have hm := mem_of_dget_eq_some _ hv
  rw [full_eq_sem net D z hv]
  symm
  apply sumOver_indicator_eq_sem (bondDim net) (dkeys net.bonds) h.bnodup v.bids
    (fun x hx => h.toWF0.mem_bond_keys hm hx) (realTs net) D z
  intro k hk i hi
  have := h.toWF0.shape_eq_bondDim hm (List.getElem?_eq_getElem hk)
  exact hr k i _ hi this

theorem legDims_restrict_subset {ts : List (Int × STensor)} {bs bs' : List (Int × SBond)} {toa : STensor}
    (hn : (dkeys ts).Nodup) (hv : dget ts (-1) = some toa) (hsh : toa.shape.length = toa.bids.length) (K : List Nat)
    (hK : ∀ a ∈ K, a < toa.bids.length) {p : Int × Nat}
    (hp : p ∈ legDims ⟨dmodify ts (-1) (fun t => { t with shape := pickD toa.shape 0 K, bids := pickD toa.bids 0 K }), bs'⟩) :
    p ∈ legDims ⟨ts, bs⟩ := by
  have hmv := mem_of_dget_eq_some _ hv
  obtain ⟨e, he, ax, hb1, hs1⟩ := mem_legDims_iff.mp hp
  obtain ⟨e0, he0, rfl⟩ := List.mem_map.mp he
  by_cases hk : (e0.1 == -1) = true
  · simp only [hk, if_true] at hb1 hs1
    simp only [pickD, List.getElem?_map] at hb1 hs1
    cases hka : K[ax]? with
    | none => rw [hka] at hb1; cases hb1
    | some a =>
      rw [hka] at hb1 hs1
      have ha := hK a (List.mem_of_getElem? hka)
      simp only [Option.map_some, Option.some.injEq] at hb1 hs1
      refine mem_legDims (net := ⟨ts, bs⟩) hmv (ax := a) ?_ ?_
      · show toa.bids[a]? = some p.1
        rw [List.getElem?_eq_getElem ha] at hb1 ⊢; simpa using hb1
      · show toa.shape[a]? = some p.2
        have ha' : a < toa.shape.length := by omega
        rw [List.getElem?_eq_getElem ha'] at hs1 ⊢; simpa using hs1
  · simp only [hk, Bool.false_eq_true, if_false] at hb1 hs1
    exact mem_legDims (net := ⟨ts, bs⟩) he0 hb1 hs1

theorem map_pickD (l : List Int) (σ : Int → Nat) (K : List Nat) (hK : ∀ a ∈ K, a < l.length) :
    (pickD l 0 K).map σ = pickD (l.map σ) 0 K := by
  simp only [pickD, List.map_map]
  apply List.map_congr_left
  intro a ha
  have := hK a ha
  simp [this]

theorem ite_sumOver {L : Type} [DecidableEq L] (dim : L → Nat) (ls : List L) (c : Bool) (f : (L → Nat) → α) (σ : L → Nat) :
    (if c then sumOver dim ls f σ else 0) = sumOver dim ls (fun τ => if c then f τ else 0) σ := by
  cases c
  · simp [sumOver_zero]
  · simp

/-- **Removing open axes sums over them**: the network whose virtual tensor keeps only the axes `K` (and whose bond
dictionary has the same keys) has, at an index within its shape, the sum of the values of the original network over
all multi-indices that restrict to `idx` on `K`. -/
theorem restrict_full {m2 net' : Net} {toa2 : STensor} (h2 : WF m2) (hv2 : dget m2.tensors (-1) = some toa2)
    (hw' : WF net') (K : List Nat) (hK : ∀ a ∈ K, a < toa2.bids.length)
    (hts : net'.tensors = dmodify m2.tensors (-1) (fun t => { t with shape := pickD toa2.shape 0 K, bids := pickD toa2.bids 0 K }))
    (hkeys : dkeys net'.bonds = dkeys m2.bonds) (D : Option Int → List Nat → α) (idx : List Nat)
    (hidx : idx ∈ allIdx (pickD toa2.shape 0 K)) :
    full net' D idx = ((allIdx toa2.shape).map (fun z => if pickD z 0 K == idx then full m2 D z else 0)).sum := by
  have hm2 := mem_of_dget_eq_some _ hv2
  have hsh2 : toa2.shape.length = toa2.bids.length := h2.tshape _ hm2
  have hv' : dget net'.tensors (-1) = some { toa2 with shape := pickD toa2.shape 0 K, bids := pickD toa2.bids 0 K } := by
    rw [hts, dget_dmodify, hv2]; simp
  have hreal : realTs net' = realTs m2 := by
    simp only [realTs, realTensors]
    rw [hts, filter_dmodify_ne]
  have hdim : ∀ l ∈ dkeys net'.bonds, bondDim net' l = bondDim m2 l := by
    intro l hl
    obtain ⟨d, hd⟩ := hw'.toWF0.exists_leg hl
    rw [hw'.toWF0.bondDim_of_leg hd]
    symm
    apply h2.toWF0.bondDim_of_leg
    have : (⟨net'.tensors, net'.bonds⟩ : Net) = net' := rfl
    rw [← this, hts] at hd
    exact legDims_restrict_subset (bs := m2.bonds) h2.tnodup hv2 hsh2 K hK hd
  -- the left-hand side as a sum over all labellings of `m2`
  have hL : full net' D idx = sumOver (bondDim m2) (dkeys m2.bonds)
      (fun σ => if pickD (toa2.bids.map σ) 0 K == idx then tensorTerm D (realTs m2) σ else 0) (fun _ => 0) := by
    rw [full_eq_allsum hw' hv' D idx (by
      intro k i d hi hd
      have := (mem_allIdx.mp hidx)
      simp only at hd
      obtain ⟨_, h3⟩ := List.forall₂_iff_get.mp this
      have hk : k < idx.length := by
        by_contra hc; rw [List.getElem?_eq_none (by omega)] at hi; cases hi
      have hk' : k < (pickD toa2.shape 0 K).length := by
        by_contra hc; rw [List.getElem?_eq_none (by omega)] at hd; cases hd
      have := h3 k hk hk'
      simp only [List.get_eq_getElem] at this
      rw [List.getElem?_eq_getElem hk] at hi
      rw [List.getElem?_eq_getElem hk'] at hd
      rw [← Option.some.inj hi, ← Option.some.inj hd]; exact this)]
    rw [sumOver_congr_dim _ _ _ _ hdim, hkeys, hreal]
    apply sumOver_congr
    intro σ
    simp only
    rw [map_pickD _ _ _ hK]
  rw [hL]
  -- the right-hand side
  have hR : ∀ z ∈ allIdx toa2.shape, (if pickD z 0 K == idx then full m2 D z else 0) =
      sumOver (bondDim m2) (dkeys m2.bonds)
        (fun σ => if toa2.bids.map σ = z then (if pickD z 0 K == idx then tensorTerm D (realTs m2) σ else 0) else 0)
        (fun _ => 0) := by
    intro z hz
    rw [full_eq_allsum h2 hv2 D z (by
      intro k i d hi hd
      obtain ⟨_, h3⟩ := List.forall₂_iff_get.mp (mem_allIdx.mp hz)
      have hk : k < z.length := by
        by_contra hc; rw [List.getElem?_eq_none (by omega)] at hi; cases hi
      have hk' : k < toa2.shape.length := by
        by_contra hc; rw [List.getElem?_eq_none (by omega)] at hd; cases hd
      have := h3 k hk hk'
      simp only [List.get_eq_getElem] at this
      rw [List.getElem?_eq_getElem hk] at hi
      rw [List.getElem?_eq_getElem hk'] at hd
      rw [← Option.some.inj hi, ← Option.some.inj hd]; exact this)]
    rw [ite_sumOver]
    apply sumOver_congr
    intro σ
    by_cases c1 : (pickD z 0 K == idx) = true <;> by_cases c2 : toa2.bids.map σ = z <;> simp [c1, c2]
  rw [List.map_congr_left hR, ← sumOver_list_sum]
  apply sumOver_congr_inrange
  intro σ hσ _
  rw [sum_delta_nodup (allIdx toa2.shape) (nodup_allIdx _) (toa2.bids.map σ)
    (fun z => if pickD z 0 K == idx then tensorTerm D (realTs m2) σ else 0)]
  have hin : toa2.bids.map σ ∈ allIdx toa2.shape := by
    rw [mem_allIdx]
    apply List.forall₂_iff_get.mpr
    refine ⟨by simp [hsh2], ?_⟩
    intro k hk1 hk2
    simp only [List.get_eq_getElem, List.getElem_map]
    have hk : k < toa2.bids.length := by simpa using hk1
    have := h2.toWF0.shape_eq_bondDim hm2 (List.getElem?_eq_getElem hk)
    simp only at this
    rw [List.getElem?_eq_getElem hk2] at this
    rw [Option.some.inj this]
    exact hσ _ (h2.toWF0.mem_bond_keys hm2 (List.getElem_mem hk))
  rw [if_pos hin]

end Qib.TNet
