import Mathlib.Analysis.Complex.Basic
import QibProofs.Lemmas.FermiTerm
/-!
Core D / C10: the Hermiticity flag with the tolerances of `np.allclose`.

* `closeTol_sound`   : the exact rational test `Term.closeTol atol rtol a b` implies `‖a - b‖ ≤ atol + rtol ‖b‖` in ℂ.
* `closeTol_zero`    : with zero tolerances it is equality.
* `ColSub A`         : every column of `A` has 1-norm ≤ 1; closed under products and tensor products; holds for the
                       ladder matrices, hence every entry of a ladder string has modulus ≤ 1.
* `Term.isHermitianTol_bound` : a term flagged Hermitian with tolerances `(atol, rtol)` has
                       `|M - Mᴴ| ≤ Σ_idx (atol + rtol |coeffs[reversed idx]|)` entrywise.
Helper lemmas only; the property statements are in `Properties/C10.lean`.
-/

open Complex Matrix
namespace Qib.Fermi

theorem GQ_sub_def (a b : Qib.GQ) : a - b = ⟨a.re - b.re, a.im - b.im⟩ := rfl

theorem gqC_sub (a b : Qib.GQ) : gqC (a - b) = gqC a - gqC b := by
  simp only [gqC, GQ_sub_def, Rat.cast_sub]; ring

theorem gqC_normSq (a : Qib.GQ) : ‖gqC a‖ ^ 2 = ((a.re * a.re + a.im * a.im : ℚ) : ℝ) := by
  rw [Complex.sq_norm, Complex.normSq_apply]
  simp [gqC]

/-- the exact rational test implies the real inequality of `np.isclose` -/
theorem closeTol_sound (atol rtol : ℚ) (ha : 0 ≤ atol) (hr : 0 ≤ rtol) (a b : Qib.GQ)
    (h : Term.closeTol atol rtol a b = true) : ‖gqC a - gqC b‖ ≤ (atol : ℝ) + (rtol : ℝ) * ‖gqC b‖ := by
  have hA : (0 : ℝ) ≤ (atol : ℝ) := by exact_mod_cast ha
  have hR : (0 : ℝ) ≤ (rtol : ℝ) := by exact_mod_cast hr
  set x := ‖gqC a - gqC b‖ with hx
  set y := ‖gqC b‖ with hy
  have hx0 : 0 ≤ x := norm_nonneg _
  have hy0 : 0 ≤ y := norm_nonneg _
  have hx2 : x ^ 2 = (((a - b).re * (a - b).re + (a - b).im * (a - b).im : ℚ) : ℝ) := by
    rw [hx, ← gqC_sub, gqC_normSq]
  have hy2 : y ^ 2 = ((b.re * b.re + b.im * b.im : ℚ) : ℝ) := gqC_normSq b
  simp only [Term.closeTol, Bool.or_eq_true, decide_eq_true_eq] at h
  by_contra hcon
  have hcon := not_le.mp hcon
  have hpos : 0 ≤ (atol : ℝ) + rtol * y := by positivity
  have hsq : ((atol : ℝ) + rtol * y) ^ 2 < x ^ 2 := by nlinarith
  -- lhs = x² - atol² - rtol² y² > 2 atol rtol y ≥ 0
  have hl : 2 * (atol : ℝ) * rtol * y < x ^ 2 - atol * atol - rtol * rtol * y ^ 2 := by nlinarith
  have hl0 : 0 ≤ 2 * (atol : ℝ) * rtol * y := by positivity
  rcases h with h | h
  · have h' : (x ^ 2 - (atol : ℝ) * atol - rtol * rtol * y ^ 2) ≤ 0 := by
      rw [hx2, hy2]; exact_mod_cast h
    linarith
  · have h' : (x ^ 2 - (atol : ℝ) * atol - rtol * rtol * y ^ 2) * (x ^ 2 - (atol : ℝ) * atol - rtol * rtol * y ^ 2)
        ≤ 4 * atol * atol * rtol * rtol * y ^ 2 := by
      rw [hx2, hy2]; exact_mod_cast h
    nlinarith

theorem closeTol_zero (a b : Qib.GQ) : Term.closeTol 0 0 a b = true ↔ a = b := by
  simp only [Term.closeTol, Bool.or_eq_true, decide_eq_true_eq, GQ_sub_def]
  obtain ⟨ar, ai⟩ := a
  obtain ⟨br, bi⟩ := b
  simp only [Qib.GQ.mk.injEq]
  constructor
  · intro h
    have h0 : (ar - br) * (ar - br) + (ai - bi) * (ai - bi) = 0 := by
      rcases h with h | h
      · have := add_nonneg (mul_self_nonneg (ar - br)) (mul_self_nonneg (ai - bi))
        nlinarith
      · have := add_nonneg (mul_self_nonneg (ar - br)) (mul_self_nonneg (ai - bi))
        nlinarith
    obtain ⟨h1, h2⟩ := mul_self_add_mul_self_eq_zero.mp h0
    exact ⟨by linarith, by linarith⟩
  · rintro ⟨rfl, rfl⟩
    left; simp

/-! ### column sums -/

/-- every column has 1-norm at most 1 (true of signed partial permutation matrices) -/
def ColSub {ι : Type*} [Fintype ι] (A : Matrix ι ι ℂ) : Prop := ∀ c, ∑ r, ‖A r c‖ ≤ 1

theorem ColSub.entry_le {ι : Type*} [Fintype ι] {A : Matrix ι ι ℂ} (h : ColSub A) (r c : ι) : ‖A r c‖ ≤ 1 :=
  (Finset.single_le_sum (f := fun i => ‖A i c‖) (fun _ _ => norm_nonneg _) (Finset.mem_univ r)).trans (h c)

theorem colSub_zero {ι : Type*} [Fintype ι] : ColSub (0 : Matrix ι ι ℂ) := by
  intro c; simp

theorem colSub_one {ι : Type*} [Fintype ι] [DecidableEq ι] : ColSub (1 : Matrix ι ι ℂ) := by
  intro c
  rw [Finset.sum_eq_single c]
  · simp
  · intro r _ hr; simp [Matrix.one_apply_ne hr]
  · intro h; exact absurd (Finset.mem_univ c) h

theorem ColSub.mul {ι : Type*} [Fintype ι] {A B : Matrix ι ι ℂ} (hA : ColSub A) (hB : ColSub B) : ColSub (A * B) := by
  intro c
  calc ∑ r, ‖(A * B) r c‖ ≤ ∑ r, ∑ m, ‖A r m‖ * ‖B m c‖ := by
        apply Finset.sum_le_sum
        intro r _
        rw [Matrix.mul_apply]
        refine (norm_sum_le _ _).trans (le_of_eq ?_)
        simp only [norm_mul]
    _ = ∑ m, (∑ r, ‖A r m‖) * ‖B m c‖ := by
        rw [Finset.sum_comm]
        simp only [Finset.sum_mul]
    _ ≤ ∑ m, 1 * ‖B m c‖ := by
        apply Finset.sum_le_sum
        intro m _
        exact mul_le_mul_of_nonneg_right (hA m) (norm_nonneg _)
    _ ≤ 1 := by simpa using hB c

theorem colSub_tens {n : ℕ} (A : Fin n → Matrix Bool Bool ℂ) (h : ∀ k, ColSub (A k)) : ColSub (tens A) := by
  intro c
  have e : ∑ r : Fin n → Bool, ‖tens A r c‖ = ∏ k, ∑ b : Bool, ‖A k b (c k)‖ := by
    simp only [tens, norm_prod]
    rw [Finset.prod_univ_sum]
    simp only [Fintype.piFinset_univ]
  rw [e]
  exact Finset.prod_le_one (fun k _ => Finset.sum_nonneg fun b _ => norm_nonneg _) (fun k _ => h k (c k))

theorem colSub_site_one : ColSub (1 : Matrix Bool Bool ℂ) := colSub_one
theorem colSub_pauliZ : ColSub pauliZ := by
  intro c; cases c <;> simp [pauliZ]
theorem colSub_ladSite (a : Bool) : ColSub (ladSite a) := by
  intro c; cases a <;> cases c <;> simp [ladSite, siteUm, siteDm]

theorem colSub_ladderM (L : ℕ) (i : Fin L) (a : Bool) : ColSub (ladderM L i a) := by
  apply colSub_tens
  intro k
  simp only [ladFam]
  split_ifs
  · exact colSub_site_one
  · exact colSub_ladSite a
  · exact colSub_pauliZ

theorem colSub_ladderN (L : ℕ) (o : IFOType) (j : ℕ) : ColSub (ladderN L o j) := by
  simp only [ladderN]
  split
  · split_ifs
    · exact colSub_ladderM _ _ _
    · exact colSub_zero
  · exact colSub_zero

theorem colSub_stringM (L : ℕ) (ds : List IFODesc) (js : List ℕ) : ColSub (stringM L ds js) := by
  induction ds generalizing js with
  | nil => rw [stringM_nil_left]; exact colSub_one
  | cons d ds ih =>
    cases js with
    | nil => rw [stringM_nil_right]; exact colSub_one
    | cons j js => rw [stringM_cons]; exact (colSub_ladderN L d.otype j).mul (ih js)

/-- every entry of a ladder string has modulus at most 1 -/
theorem stringM_entry_le (L : ℕ) (ds : List IFODesc) (js : List ℕ) (r c : Fin L → Bool) :
    ‖stringM L ds js r c‖ ≤ 1 := (colSub_stringM L ds js).entry_le r c

/-! ### the flag with tolerances -/

theorem list_sum_apply {ι : Type*} (l : List (Matrix ι ι ℂ)) (r c : ι) : l.sum r c = (l.map fun M => M r c).sum := by
  induction l with
  | nil => simp
  | cons M l ih => simp [Matrix.add_apply, ih]

theorem norm_list_sum_le {α : Type*} (l : List α) (f : α → ℂ) (g : α → ℝ) (h : ∀ x ∈ l, ‖f x‖ ≤ g x) :
    ‖(l.map f).sum‖ ≤ (l.map g).sum := by
  induction l with
  | nil => simp
  | cons a l ih =>
    simp only [List.map_cons, List.sum_cons]
    exact (norm_add_le _ _).trans (add_le_add (h a (List.mem_cons_self ..))
      (ih fun x hx => h x (List.mem_cons_of_mem _ hx)))

theorem list_sum_sub {α : Type*} {M : Type*} [AddCommGroup M] (l : List α) (f g : α → M) :
    (l.map f).sum - (l.map g).sum = (l.map fun x => f x - g x).sum := by
  induction l with
  | nil => simp
  | cons a l ih => simp only [List.map_cons, List.sum_cons, ← ih]; abel

theorem Term.isHermitianTol_bound (L : ℕ) (t : Term) (hwf : t.WF) (atol rtol : ℚ) (ha : 0 ≤ atol) (hr : 0 ≤ rtol)
    (h : t.isHermitianTol atol rtol = true) (r c : Fin L → Bool) :
    ‖(t.mat L - (t.mat L)ᴴ) r c‖ ≤
      ((multiIndices t.coeffs.shape).map fun idx => (atol : ℝ) + (rtol : ℝ) * ‖gqC (t.coeffs.get idx.reverse)‖).sum := by
  unfold Term.isHermitianTol at h
  split at h
  · cases h
  · rename_i hs
    split at h
    · cases h
    · rename_i hsh
      simp only [Bool.not_eq_true, Bool.not_eq_false'] at hs
      simp only [ne_eq, not_not] at hsh
      simp only [List.all_eq_true] at h
      have hop := structHermitian_opdesc t (by simpa using hs)
      -- the adjoint term has the same operator descriptions and shape
      have hadj : (t.mat L)ᴴ = ((multiIndices t.coeffs.shape).map fun idx =>
          gqC ((t.coeffs.get idx.reverse).conj) • stringM L t.opdesc idx).sum := by
        rw [← Term.adjoint_mat L t hwf]
        simp only [Term.mat, Term.adjoint, Tensor.conjT_shape, hop, ← hsh]
        congr 1
        apply List.map_congr_left
        intro idx hidx
        rw [Tensor.get_conjT t.coeffs (by rw [← hsh]; exact mem_multiIndices.mp hidx)]
      rw [hadj]
      simp only [Term.mat]
      rw [list_sum_sub, list_sum_apply, List.map_map]
      apply norm_list_sum_le
      intro idx hidx
      have hc := closeTol_sound atol rtol ha hr _ _ (h idx hidx)
      simp only [Function.comp, ← sub_smul, Matrix.smul_apply, smul_eq_mul, norm_mul]
      have hconj : ‖gqC (t.coeffs.get idx.reverse).conj‖ = ‖gqC (t.coeffs.get idx.reverse)‖ := by
        rw [gqC_conj, norm_star]
      rw [hconj] at hc
      calc ‖gqC (t.coeffs.get idx) - gqC (t.coeffs.get idx.reverse).conj‖ * ‖stringM L t.opdesc idx r c‖
          ≤ ((atol : ℝ) + rtol * ‖gqC (t.coeffs.get idx.reverse)‖) * 1 :=
            mul_le_mul hc (stringM_entry_le L _ _ r c) (norm_nonneg _) (by positivity)
        _ = _ := mul_one _

/-- the allowance `Σ_idx (atol + rtol |coeffs[reversed idx]|)` of one term -/
noncomputable def Term.tolAllowance (atol rtol : ℚ) (t : Term) : ℝ :=
  ((multiIndices t.coeffs.shape).map fun idx => (atol : ℝ) + (rtol : ℝ) * ‖gqC (t.coeffs.get idx.reverse)‖).sum

theorem FieldOp.isHermitianTol_bound (L : ℕ) (op : FieldOp) (hwf : ∀ t ∈ op.terms, t.WF) (atol rtol : ℚ)
    (ha : 0 ≤ atol) (hr : 0 ≤ rtol) (h : op.isHermitianTol atol rtol = .ok true) (r c : Fin L → Bool) :
    ‖(op.mat L - (op.mat L)ᴴ) r c‖ ≤ (op.terms.map (Term.tolAllowance atol rtol)).sum := by
  unfold FieldOp.isHermitianTol at h
  split at h
  · rename_i hall
    simp only [List.all_eq_true] at hall
    simp only [FieldOp.mat, Matrix.conjTranspose_list_sum, List.map_map]
    rw [list_sum_sub, list_sum_apply, List.map_map]
    apply norm_list_sum_le
    intro t ht
    exact Term.isHermitianTol_bound L t (hwf t ht) atol rtol ha hr (hall t ht) r c
  · cases h

theorem Term.isHermitianTol_zero (t : Term) : t.isHermitianTol 0 0 = t.isHermitian := by
  unfold Term.isHermitianTol Term.isHermitian
  split
  · rfl
  · split
    · rfl
    · rw [Bool.eq_iff_iff]
      simp only [List.all_eq_true, closeTol_zero, beq_iff_eq]

end Qib.Fermi
