import QibProofs.Lemmas.TNetSurgeryTotal
import QibModel.TNetPublic
/-!
Helper lemmas for C08 (public stage): which `merge_tensors` / `merge_bonds` calls return, for EVERY network (no invariant), the shape of
the exception, well-formedness after the calls, `add_tensor` of a tensor without axes (no property statements).
-/
namespace Qib.TNet

/-! ### `mergeTensors`: acceptance on arbitrary networks -/

/-- the only exception `merge_tensors` can raise is `KeyError` -/
theorem mergeTensors_err {net : Net} {tid1 tid2 : Int} {e : Err} (h : mergeTensors net tid1 tid2 = .error e) :
    e = .keyError := by
  rw [mergeTensors_eq] at h
  split at h
  · cases h
  · cases h1 : dget net.tensors tid1 with
    | none => rw [h1] at h; cases h; rfl
    | some T1 =>
      cases h2 : dget net.tensors tid2 with
      | none => rw [h1, h2] at h; cases h; rfl
      | some T2 =>
        rw [h1, h2] at h
        simp only at h
        split at h
        · cases h; rfl
        · cases h

theorem mergeTensors_ok_iff (net : Net) (tid1 tid2 : Int) :
    (∃ n, mergeTensors net tid1 tid2 = .ok n) ↔
      tid1 = tid2 ∨ ∃ T1 T2, dget net.tensors tid1 = some T1 ∧ dget net.tensors tid2 = some T2 ∧
        ∀ b ∈ T2.bids, b ∈ dkeys net.bonds := by
  rw [mergeTensors_eq]
  by_cases hb : tid1 = tid2
  · subst hb; simp
  · have hb' : (tid1 == tid2) = false := by simpa using hb
    simp only [hb', Bool.false_eq_true, if_false, hb, false_or]
    cases h1 : dget net.tensors tid1 with
    | none => simp
    | some T1 =>
      cases h2 : dget net.tensors tid2 with
      | none => simp
      | some T2 =>
        simp only [Option.some.injEq, exists_and_left, exists_eq_left']
        by_cases hall : T2.bids.all (dhas net.bonds) = true
        · have : ∀ b ∈ T2.bids, b ∈ dkeys net.bonds := fun b hb =>
            (dhas_iff _ _).mp (List.all_eq_true.mp hall b hb)
          simp only [hall, Bool.not_true, Bool.false_eq_true, if_false]
          exact ⟨fun _ => this, fun _ => ⟨_, rfl⟩⟩
        · have hall' : T2.bids.all (dhas net.bonds) = false := by
            cases h : T2.bids.all (dhas net.bonds) <;> simp_all
          have : ¬ ∀ b ∈ T2.bids, b ∈ dkeys net.bonds := fun hc =>
            hall (List.all_eq_true.mpr fun b hb => (dhas_iff _ _).mpr (hc b hb))
          simp [hall', this]

/-- an unknown tensor id: nothing is written -/
theorem mergeTensorsLeft_unknown {net : Net} {tid1 tid2 : Int}
    (h : dget net.tensors tid1 = none ∨ dget net.tensors tid2 = none) : mergeTensorsLeft net tid1 tid2 = net := by
  unfold mergeTensorsLeft
  rcases h with h | h
  · rw [h]
  · rw [h]; cases dget net.tensors tid1 <;> rfl

/-! ### `mergeBonds`: acceptance on arbitrary networks -/

theorem mergeBonds_err {net : Net} {bid1 bid2 : Int} {e : Err} (h : mergeBonds net bid1 bid2 = .error e) :
    e = .keyError := by
  rw [mergeBonds_eq] at h
  split at h
  · cases h
  · cases h1 : dget net.bonds bid1 with
    | none => rw [h1] at h; cases h; rfl
    | some B1 =>
      cases h2 : dget net.bonds bid2 with
      | none => rw [h1, h2] at h; cases h; rfl
      | some B2 =>
        rw [h1, h2] at h
        simp only at h
        split at h
        · cases h; rfl
        · cases h

theorem mergeBonds_ok_iff (net : Net) (bid1 bid2 : Int) :
    (∃ n, mergeBonds net bid1 bid2 = .ok n) ↔
      bid1 = bid2 ∨ ∃ B1 B2, dget net.bonds bid1 = some B1 ∧ dget net.bonds bid2 = some B2 ∧
        ∀ t ∈ B2.tids, t ∈ dkeys net.tensors := by
  rw [mergeBonds_eq]
  by_cases hb : bid1 = bid2
  · subst hb; simp
  · have hb' : (bid1 == bid2) = false := by simpa using hb
    simp only [hb', Bool.false_eq_true, if_false, hb, false_or]
    cases h1 : dget net.bonds bid1 with
    | none => simp
    | some B1 =>
      cases h2 : dget net.bonds bid2 with
      | none => simp
      | some B2 =>
        simp only [Option.some.injEq, exists_and_left, exists_eq_left']
        by_cases hall : B2.tids.all (dhas net.tensors) = true
        · have : ∀ t ∈ B2.tids, t ∈ dkeys net.tensors := fun b hb =>
            (dhas_iff _ _).mp (List.all_eq_true.mp hall b hb)
          simp only [hall, Bool.not_true, Bool.false_eq_true, if_false]
          exact ⟨fun _ => this, fun _ => ⟨_, rfl⟩⟩
        · have hall' : B2.tids.all (dhas net.tensors) = false := by
            cases h : B2.tids.all (dhas net.tensors) <;> simp_all
          have : ¬ ∀ t ∈ B2.tids, t ∈ dkeys net.tensors := fun hc =>
            hall (List.all_eq_true.mpr fun b hb => (dhas_iff _ _).mpr (hc b hb))
          simp [hall', this]

theorem mergeBondsLeft_unknown {net : Net} {bid1 bid2 : Int}
    (h : dget net.bonds bid1 = none ∨ dget net.bonds bid2 = none) : mergeBondsLeft net bid1 bid2 = net := by
  unfold mergeBondsLeft
  rcases h with h | h
  · rw [h]
  · rw [h]; cases dget net.bonds bid1 <;> rfl

theorem dget_none_iff {β : Type} (d : List (Int × β)) (k : Int) : dget d k = none ↔ k ∉ dkeys d := by
  constructor
  · intro h hk
    have := (dget_isSome_iff d k).mpr hk
    rw [h] at this; cases this
  · exact dget_eq_none_of_notMem d

theorem dget_some_of_mem_dkeys {β : Type} {d : List (Int × β)} {k : Int} (h : k ∈ dkeys d) : ∃ v, dget d k = some v :=
  Option.isSome_iff_exists.mp ((dget_isSome_iff d k).mpr h)

/-! ### the virtual tensor after `mergeTensors` -/

theorem dkeys_mergeTensors {net net' : Net} {tid1 tid2 : Int} (h : WF0 net) (hne : tid1 ≠ tid2)
    (hok : mergeTensors net tid1 tid2 = .ok net') :
    dkeys net'.tensors = (dkeys net.tensors).filter (· != tid2) ∧ dkeys net'.bonds = dkeys net.bonds := by
  obtain ⟨T1, T2, h1, h2, rfl⟩ := mergeTensors_spec h hne hok
  exact ⟨by simp only [dkeys_dmodify, dkeys_dpop], dkeys_relBonds _ _⟩

theorem dkeys_mergeBonds {net net' : Net} {bid1 bid2 : Int} (h : WF0 net) (hne : bid1 ≠ bid2)
    (hok : mergeBonds net bid1 bid2 = .ok net') :
    dkeys net'.tensors = dkeys net.tensors ∧ dkeys net'.bonds = (dkeys net.bonds).filter (· != bid2) := by
  obtain ⟨B1, B2, h1, h2, rfl⟩ := mergeBonds_spec h hne hok
  exact ⟨dkeys_relTensors _ _, by simp only [dkeys_dmodify, dkeys_dpop]⟩

/-! ### `add_tensor` of a tensor without axes -/

theorem tLegs_append_scalar (ts : List (Int × STensor)) (bs : List (Int × SBond)) (k : Int) (T : STensor)
    (hT : T.bids = []) : tLegs ⟨ts ++ [(k, T)], bs⟩ = tLegs ⟨ts, bs⟩ := by
  simp [tLegs, hT]

theorem legDims_append_scalar (ts : List (Int × STensor)) (bs : List (Int × SBond)) (k : Int) (T : STensor)
    (hT : T.bids = []) : legDims ⟨ts ++ [(k, T)], bs⟩ = legDims ⟨ts, bs⟩ := by
  simp [legDims, hT]

theorem addTensor_scalar_wf {net net' : Net} {T : STensor} (h : WF net) (hb : T.bids = []) (hs : T.shape = [])
    (hok : addTensor net T = .ok net') : WF net' := by
  unfold addTensor at hok
  split at hok
  · cases hok
  · rename_i hnot
    have hnk : T.tid ∉ dkeys net.tensors := by
      intro hc; exact hnot ((dhas_iff _ _).mpr hc)
    have hnet : net' = ⟨net.tensors ++ [(T.tid, T)], net.bonds⟩ := (Except.ok.inj hok).symm
    subst hnet
    refine ⟨⟨?_, h.bnodup, ?_, h.bkey, ?_, h.bsorted, h.blen, ?_, ?_⟩, ?_⟩
    · simp only [dkeys_append, dkeys_cons, dkeys_nil]
      exact List.Nodup.append h.tnodup (List.nodup_singleton _) (by
        intro k hk1 hk2
        rw [List.mem_singleton] at hk2
        exact hnk (hk2 ▸ hk1))
    · intro e he
      rcases List.mem_append.mp he with he | he
      · exact h.tkey e he
      · rw [List.mem_singleton] at he; subst he; rfl
    · intro e he
      rcases List.mem_append.mp he with he | he
      · exact h.tshape e he
      · rw [List.mem_singleton] at he; subst he; simp [hb, hs]
    · show (tLegs ⟨net.tensors ++ [(T.tid, T)], net.bonds⟩).Perm (bLegs ⟨net.tensors ++ [(T.tid, T)], net.bonds⟩)
      rw [tLegs_append_scalar _ _ _ _ hb]
      exact h.legs
    · show ∀ p ∈ legDims ⟨net.tensors ++ [(T.tid, T)], net.bonds⟩, ∀ q ∈ legDims ⟨net.tensors ++ [(T.tid, T)], net.bonds⟩, _
      rw [legDims_append_scalar _ _ _ _ hb]
      exact h.dims
    · show (-1 : Int) ∈ dkeys (net.tensors ++ [(T.tid, T)])
      rw [dkeys_append]
      exact List.mem_append_left _ h.virt

end Qib.TNet
