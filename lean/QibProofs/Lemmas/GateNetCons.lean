import QibProofs.Lemmas.GateNetCtrl
import QibProofs.Lemmas.TNetSurgeryCheck
/-!
Helper lemmas for C06: every gate network satisfies the declarative well-formedness predicate `WF` of Core C
(`TNetSurgeryBasic.lean`), hence passes `isConsistent` (`consistent_of_wf`). No property statements.
-/
set_option linter.unusedSimpArgs false
set_option linter.unnecessarySeqFocus false
set_option linter.unusedVariables false
namespace Qib.GateNet
open Qib.TNet

/-- A convenient sufficient condition for `WF`: the bond lists of the tensors and the tensor lists of the bonds are
given by two functions `tb`, `bt` of the key, and these count each other's references. -/
theorem wf_of_tables (net : Net) (tb bt : Int → List Int)
    (tnodup : (dkeys net.tensors).Nodup) (bnodup : (dkeys net.bonds).Nodup)
    (tkey : ∀ e ∈ net.tensors, e.2.tid = e.1) (bkey : ∀ e ∈ net.bonds, e.2.bid = e.1)
    (tshape : ∀ e ∈ net.tensors, e.2.shape.length = e.2.bids.length)
    (T1 : ∀ e ∈ net.tensors, e.2.bids = tb e.1) (T2 : ∀ t, t ∉ dkeys net.tensors → tb t = [])
    (B1 : ∀ e ∈ net.bonds, e.2.tids = bt e.1) (B2 : ∀ b, b ∉ dkeys net.bonds → bt b = [])
    (bsorted : ∀ b, (bt b).Pairwise (· ≤ ·)) (blen : ∀ b ∈ dkeys net.bonds, 2 ≤ (bt b).length)
    (hcount : ∀ t b, (tb t).count b = (bt b).count t)
    (dims : ∀ p ∈ legDims net, ∀ q ∈ legDims net, p.1 = q.1 → p.2 = q.2)
    (virt : (-1 : Int) ∈ dkeys net.tensors) : WF net := by
  refine { tnodup := tnodup, bnodup := bnodup, tkey := tkey, bkey := bkey, tshape := tshape, bsorted := ?_, blen := ?_,
           legs := ?_, dims := dims, virt := virt }
  · intro e he; rw [B1 e he]; exact bsorted _
  · intro e he; rw [B1 e he]; exact blen _ (mem_dkeys_of_mem he)
  · rw [List.perm_iff_count]
    rintro ⟨t, b⟩
    have hT : (tLegs net).count (t, b) = (tb t).count b := by
      rw [count_tLegs net tnodup]
      cases hd : dget net.tensors t with
      | none =>
        have : t ∉ dkeys net.tensors := fun h => by
          have := (dget_isSome_iff net.tensors t).mpr h; rw [hd] at this; cases this
        simp [T2 t this]
      | some T =>
        have := T1 _ (mem_of_dget_eq_some _ hd)
        simp only at this ⊢
        rw [this]
    have hB : (bLegs net).count (t, b) = (bt b).count t := by
      rw [count_bLegs net bnodup]
      cases hd : dget net.bonds b with
      | none =>
        have : b ∉ dkeys net.bonds := fun h => by
          have := (dget_isSome_iff net.bonds b).mpr h; rw [hd] at this; cases this
        simp [B2 b this]
      | some B =>
        have := B1 _ (mem_of_dget_eq_some _ hd)
        simp only at this ⊢
        rw [this]
    rw [hT, hB, hcount]

theorem count_irange (k : Nat) (b : Int) : (irange k).count b = if 0 ≤ b ∧ b < k then 1 else 0 := by
  rw [List.Nodup.count (irange_nodup k)]
  simp only [mem_irange]

theorem count_irange' (s k : Nat) (b : Int) : (irange' s k).count b = if (s : Int) ≤ b ∧ b < s + k then 1 else 0 := by
  rw [List.Nodup.count (irange'_nodup s k)]
  simp only [mem_irange']

/-- all legs of a network have dimension `d` -/
theorem dims_of_const (net : Net) (d : Nat) (h : ∀ e ∈ net.tensors, ∀ x ∈ e.2.shape, x = d) :
    ∀ p ∈ legDims net, ∀ q ∈ legDims net, p.1 = q.1 → p.2 = q.2 := by
  have key : ∀ p ∈ legDims net, p.2 = d := by
    intro p hp
    simp only [legDims, List.mem_flatMap] at hp
    obtain ⟨e, he, hpe⟩ := hp
    exact h e he _ (List.of_mem_zip hpe).2
  intro p hp q hq _
  rw [key p hp, key q hq]

/-! ### wrapped arrays -/

theorem wrap_wf (shape : List Nat) : WF (wrapNet shape) := by
  apply wf_of_tables (wrapNet shape)
    (fun t => if t = 0 ∨ t = -1 then irange shape.length else [])
    (fun b => if 0 ≤ b ∧ b < shape.length then [-1, 0] else [])
  · simp [wrapNet, dkeys]
  · simp only [wrapNet, dkeys, List.map_map]
    exact List.Nodup.map (fun a b h => by simpa using h) List.nodup_range
  · intro e he; simp only [wrapNet, List.mem_cons, List.not_mem_nil, or_false] at he; rcases he with rfl | rfl <;> rfl
  · intro e he; simp only [wrapNet, List.mem_map] at he; obtain ⟨i, _, rfl⟩ := he; rfl
  · intro e he; simp only [wrapNet, List.mem_cons, List.not_mem_nil, or_false] at he
    rcases he with rfl | rfl <;> simp
  · intro e he; simp only [wrapNet, List.mem_cons, List.not_mem_nil, or_false] at he
    rcases he with rfl | rfl <;> simp
  · intro t ht
    simp only [wrapNet, dkeys, List.map_cons, List.map_nil, List.mem_cons, List.not_mem_nil, or_false, not_or] at ht
    simp [ht.1, ht.2]
  · intro e he; simp only [wrapNet, List.mem_map, List.mem_range] at he; obtain ⟨i, hi, rfl⟩ := he
    simp only [Int.ofNat_eq_natCast]
    rw [if_pos ⟨by omega, by omega⟩]
  · intro b hb
    simp only [wrapNet, dkeys, List.map_map, List.mem_map, List.mem_range, Function.comp, not_exists, not_and] at hb
    rw [if_neg]
    rintro ⟨h0, h1⟩
    exact hb b.toNat (by omega) (by simp [Int.toNat_of_nonneg h0])
  · intro b; split <;> simp
  · intro b hb; simp only [wrapNet, dkeys, List.map_map, List.mem_map, List.mem_range, Function.comp] at hb
    obtain ⟨i, hi, rfl⟩ := hb
    simp only [Int.ofNat_eq_natCast]
    rw [if_pos ⟨by omega, by omega⟩]; simp
  · intro t b
    by_cases ht : t = 0 ∨ t = -1
    · rw [if_pos ht, count_irange]
      by_cases hb : 0 ≤ b ∧ b < shape.length
      · rw [if_pos hb, if_pos hb]; rcases ht with rfl | rfl <;> simp
      · rw [if_neg hb, if_neg hb]; simp
    · rw [if_neg ht]
      simp only [not_or] at ht
      split <;> simp [List.count_cons, ht.1, ht.2, Ne.symm ht.1, Ne.symm ht.2]
  · -- both tensors have the same shape and the same distinct bond ids
    intro p hp q hq hpq
    simp only [legDims, wrapNet, List.flatMap_cons, List.flatMap_nil, List.append_nil, List.mem_append, or_self] at hp hq
    have hfun : ∀ (l : List Int) (s : List Nat), l.Nodup → ∀ p ∈ l.zip s, ∀ q ∈ l.zip s, p.1 = q.1 → p.2 = q.2 := by
      intro l s hn
      induction l generalizing s with
      | nil => intro p hp; simp at hp
      | cons a l ih =>
        cases s with
        | nil => intro p hp; simp at hp
        | cons x s =>
          intro p hp q hq h
          simp only [List.zip_cons_cons, List.mem_cons] at hp hq
          have hna : a ∉ l := (List.nodup_cons.mp hn).1
          rcases hp with rfl | hp <;> rcases hq with rfl | hq
          · rfl
          · exact absurd (by simp only at h; rw [h]; exact (List.of_mem_zip hq).1) hna
          · exact absurd (by simp only at h; rw [← h]; exact (List.of_mem_zip hp).1) hna
          · exact ih s (List.nodup_cons.mp hn).2 p hp q hq h
    exact hfun _ _ (irange_nodup _) p hp q hq hpq
  · simp [wrapNet, dkeys]

end Qib.GateNet

namespace Qib.GateNet
open Qib.TNet

/-! ### phase-factor chain -/

theorem flatMap_pairs_eq_irange (n : Nat) :
    (List.range n).flatMap (fun i => [2 * Int.ofNat i, 2 * Int.ofNat i + 1]) = irange (2 * n) := by
  induction n with
  | zero => rfl
  | succ n ih =>
    rw [List.range_succ, List.flatMap_append, ih, show 2 * (n + 1) = 2 * n + 2 by ring, irange_add]
    simp [irange', List.range'_succ]

theorem mem_evens {n : Nat} {b : Int} : b ∈ evens n ↔ 0 ≤ b ∧ b < 2 * n ∧ b % 2 = 0 := by
  simp only [evens, List.mem_map, List.mem_range, Int.ofNat_eq_natCast]
  constructor
  · rintro ⟨i, hi, rfl⟩; omega
  · rintro ⟨h0, h1, h2⟩; exact ⟨(b / 2).toNat, by omega, by omega⟩

theorem mem_odds {n : Nat} {b : Int} : b ∈ odds n ↔ 0 ≤ b ∧ b < 2 * n ∧ b % 2 = 1 := by
  simp only [odds, List.mem_map, List.mem_range, Int.ofNat_eq_natCast]
  constructor
  · rintro ⟨i, hi, rfl⟩; omega
  · rintro ⟨h0, h1, h2⟩; exact ⟨(b / 2).toNat, by omega, by omega⟩

theorem count_evens_odds (n : Nat) (b : Int) : (evens n ++ odds n).count b = if 0 ≤ b ∧ b < 2 * n then 1 else 0 := by
  rw [List.Nodup.count (phase_labels_nodup n)]
  simp only [List.mem_append, mem_evens, mem_odds]
  congr 1
  apply propext
  constructor
  · rintro (h | h) <;> omega
  · intro h; have : b % 2 = 0 ∨ b % 2 = 1 := by omega
    rcases this with h2 | h2
    · left; omega
    · right; omega

theorem phase_wf (n : Nat) : WF (phaseNet n) := by
  apply wf_of_tables (phaseNet n)
    (fun t => if t = -1 then evens n ++ odds n else if 0 ≤ t ∧ t < n then [2 * t, 2 * t + 1] else [])
    (fun b => if 0 ≤ b ∧ b < 2 * n then [-1, b / 2] else [])
  · simp only [phaseNet, dkeys, List.map_append, List.map_map, List.map_cons, List.map_nil]
    rw [List.nodup_append]
    refine ⟨List.Nodup.map (fun a b h => by simpa using h) List.nodup_range, by simp, ?_⟩
    intro x hx y hy e
    simp only [List.mem_map, List.mem_range, Function.comp, Int.ofNat_eq_natCast, List.mem_singleton] at hx hy
    obtain ⟨i, _, rfl⟩ := hx
    omega
  · simp only [phaseNet, dkeys, List.map_flatMap, List.map_cons, List.map_nil]
    rw [flatMap_pairs_eq_irange]; exact irange_nodup _
  · intro e he
    simp only [phaseNet, List.mem_append, List.mem_map, List.mem_range, List.mem_singleton] at he
    rcases he with ⟨i, _, rfl⟩ | rfl <;> rfl
  · intro e he
    simp only [phaseNet, List.mem_flatMap, List.mem_range, List.mem_cons, List.not_mem_nil, or_false] at he
    obtain ⟨i, _, rfl | rfl⟩ := he <;> rfl
  · intro e he
    simp only [phaseNet, List.mem_append, List.mem_map, List.mem_range, List.mem_singleton] at he
    rcases he with ⟨i, _, rfl⟩ | rfl <;> simp [rep2]; omega
  · intro e he
    simp only [phaseNet, List.mem_append, List.mem_map, List.mem_range, List.mem_singleton] at he
    rcases he with ⟨i, hi, rfl⟩ | rfl
    · simp only [Int.ofNat_eq_natCast]
      rw [if_neg (by omega), if_pos ⟨by omega, by omega⟩]
    · simp [evens, odds]
  · intro t ht
    simp only [phaseNet, dkeys, List.map_append, List.map_map, List.map_cons, List.map_nil, List.mem_append, List.mem_map,
      List.mem_range, Function.comp, List.mem_singleton, not_or, not_exists, not_and, Int.ofNat_eq_natCast] at ht
    rw [if_neg ht.2, if_neg]
    rintro ⟨h0, h1⟩
    exact ht.1 t.toNat (by omega) (by omega)
  · intro e he
    simp only [phaseNet, List.mem_flatMap, List.mem_range, List.mem_cons, List.not_mem_nil, or_false] at he
    obtain ⟨i, hi, rfl | rfl⟩ := he <;> simp only [Int.ofNat_eq_natCast] <;> rw [if_pos ⟨by omega, by omega⟩] <;>
      (congr 2; omega)
  · intro b hb
    simp only [phaseNet, dkeys, List.map_flatMap, List.map_cons, List.map_nil] at hb
    rw [flatMap_pairs_eq_irange, mem_irange] at hb
    rw [if_neg]; push_cast at hb; omega
  · intro b; split
    · simp; omega
    · simp
  · intro b hb
    simp only [phaseNet, dkeys, List.map_flatMap, List.map_cons, List.map_nil] at hb
    rw [flatMap_pairs_eq_irange, mem_irange] at hb
    rw [if_pos (by push_cast at hb; omega)]; simp
  · intro t b
    by_cases ht : t = -1
    · subst ht
      rw [if_pos rfl, count_evens_odds]
      split
      · simp [List.count_cons]; omega
      · simp
    · rw [if_neg ht]
      by_cases ht2 : 0 ≤ t ∧ t < n
      · rw [if_pos ht2]
        by_cases hb : 0 ≤ b ∧ b < 2 * n
        · rw [if_pos hb]
          simp only [List.count_cons, List.count_nil, beq_iff_eq]
          split_ifs <;> omega
        · rw [if_neg hb]
          simp only [List.count_cons, List.count_nil, beq_iff_eq]
          split_ifs <;> omega
      · rw [if_neg ht2]
        split
        · simp only [List.count_cons, List.count_nil, beq_iff_eq]
          split_ifs <;> omega
        · simp
  · apply dims_of_const _ 2
    intro e he
    simp only [phaseNet, List.mem_append, List.mem_map, List.mem_range, List.mem_singleton] at he
    rcases he with ⟨i, _, rfl⟩ | rfl
    · intro x hx; simp at hx; omega
    · intro x hx; simp only [rep2, List.mem_replicate] at hx; omega
  · simp [phaseNet, dkeys]

end Qib.GateNet

namespace Qib.GateNet
open Qib.TNet

/-! ### state preparation -/

theorem count_prepare_vb (n : Nat) (tr : Bool) (b : Int) :
    (if tr then irange' n n ++ irange n else irange (2 * n)).count b = if 0 ≤ b ∧ b < 2 * n then 1 else 0 := by
  cases tr
  · simp only [Bool.false_eq_true, if_false, count_irange]; push_cast; rfl
  · simp only [if_true, List.count_append, count_irange, count_irange']
    split_ifs <;> omega

theorem prepare_wf (n : Nat) (tr : Bool) : WF (prepareNet n tr) := by
  apply wf_of_tables (prepareNet n tr)
    (fun t => if t = 0 then irange n else if t = -1 then (if tr then irange' n n ++ irange n else irange (2 * n))
      else if 1 ≤ t ∧ t ≤ n then [n + t - 1] else [])
    (fun b => if 0 ≤ b ∧ b < n then [-1, 0] else if (n : Int) ≤ b ∧ b < 2 * n then [-1, b - n + 1] else [])
  · simp only [prepareNet, dkeys, List.map_append, List.map_map, List.map_cons, List.map_nil, List.cons_append, List.nil_append]
    rw [List.nodup_cons, List.nodup_append]
    refine ⟨?_, List.Nodup.map (fun a b h => by simp only [Function.comp, Int.ofNat_eq_natCast] at h; omega) List.nodup_range,
      by simp, ?_⟩
    · simp only [List.mem_append, List.mem_map, List.mem_range, Function.comp, Int.ofNat_eq_natCast, List.mem_singleton, not_or,
        not_exists, not_and]
      exact ⟨fun i _ => by omega, by omega⟩
    · intro x hx y hy e
      simp only [List.mem_map, List.mem_range, Function.comp, Int.ofNat_eq_natCast, List.mem_singleton] at hx hy
      obtain ⟨i, _, rfl⟩ := hx
      omega
  · simp only [prepareNet, dkeys, List.map_append, List.map_map]
    rw [List.nodup_append]
    refine ⟨List.Nodup.map (fun a b h => by simpa using h) List.nodup_range,
      List.Nodup.map (fun a b h => by simp only [Function.comp, Int.ofNat_eq_natCast] at h; omega) List.nodup_range, ?_⟩
    intro x hx y hy e
    simp only [List.mem_map, List.mem_range, Function.comp, Int.ofNat_eq_natCast] at hx hy
    obtain ⟨i, _, rfl⟩ := hx
    obtain ⟨j, _, rfl⟩ := hy
    omega
  · intro e he
    simp only [prepareNet, List.mem_append, List.mem_map, List.mem_range, List.mem_singleton, List.mem_cons, List.not_mem_nil,
      or_false] at he
    rcases he with (rfl | ⟨i, _, rfl⟩) | rfl <;> rfl
  · intro e he
    simp only [prepareNet, List.mem_append, List.mem_map, List.mem_range] at he
    rcases he with ⟨i, _, rfl⟩ | ⟨i, _, rfl⟩ <;> rfl
  · intro e he
    simp only [prepareNet, List.mem_append, List.mem_map, List.mem_range, List.mem_singleton, List.mem_cons, List.not_mem_nil,
      or_false] at he
    rcases he with (rfl | ⟨i, _, rfl⟩) | rfl
    · simp [rep2]
    · simp
    · cases tr <;> simp [rep2] <;> omega
  · intro e he
    simp only [prepareNet, List.mem_append, List.mem_map, List.mem_range, List.mem_singleton, List.mem_cons, List.not_mem_nil,
      or_false] at he
    rcases he with (rfl | ⟨i, hi, rfl⟩) | rfl
    · simp
    · simp only [Int.ofNat_eq_natCast]
      rw [if_neg (by omega), if_neg (by omega), if_pos ⟨by omega, by omega⟩]
      congr 1; omega
    · simp
  · intro t ht
    simp only [prepareNet, dkeys, List.map_append, List.map_map, List.map_cons, List.map_nil, List.mem_append, List.mem_map,
      List.mem_range, Function.comp, List.mem_singleton, List.mem_cons, List.not_mem_nil, or_false, not_or, not_exists, not_and,
      Int.ofNat_eq_natCast] at ht
    rw [if_neg ht.1.1, if_neg ht.2, if_neg]
    rintro ⟨h0, h1⟩
    exact ht.1.2 (t - 1).toNat (by omega) (by omega)
  · intro e he
    simp only [prepareNet, List.mem_append, List.mem_map, List.mem_range] at he
    rcases he with ⟨i, hi, rfl⟩ | ⟨i, hi, rfl⟩ <;> simp only [Int.ofNat_eq_natCast]
    · rw [if_pos ⟨by omega, by omega⟩]
    · rw [if_neg (by omega), if_pos ⟨by omega, by omega⟩]
      congr 2; omega
  · intro b hb
    simp only [prepareNet, dkeys, List.map_append, List.map_map, List.mem_append, List.mem_map, List.mem_range, Function.comp,
      not_or, not_exists, not_and, Int.ofNat_eq_natCast] at hb
    rw [if_neg, if_neg]
    · rintro ⟨h0, h1⟩; exact hb.2 (b - n).toNat (by omega) (by omega)
    · rintro ⟨h0, h1⟩; exact hb.1 b.toNat (by omega) (by omega)
  · intro b; split
    · simp
    · split
      · simp; omega
      · simp
  · intro b hb
    simp only [prepareNet, dkeys, List.map_append, List.map_map, List.mem_append, List.mem_map, List.mem_range, Function.comp,
      Int.ofNat_eq_natCast] at hb
    rcases hb with ⟨i, hi, rfl⟩ | ⟨i, hi, rfl⟩
    · rw [if_pos ⟨by omega, by omega⟩]; simp
    · rw [if_neg (by omega), if_pos ⟨by omega, by omega⟩]; simp
  · intro t b
    by_cases ht0 : t = 0
    · subst ht0
      rw [if_pos rfl, count_irange]
      split_ifs <;> simp [List.count_cons] <;> omega
    · rw [if_neg ht0]
      by_cases ht1 : t = -1
      · subst ht1
        rw [if_pos rfl, count_prepare_vb]
        split_ifs <;> simp [List.count_cons] <;> omega
      · rw [if_neg ht1]
        split_ifs <;> simp only [List.count_cons, List.count_nil, beq_iff_eq] <;> split_ifs <;> omega
  · apply dims_of_const _ 2
    intro e he
    simp only [prepareNet, List.mem_append, List.mem_map, List.mem_range, List.mem_singleton, List.mem_cons, List.not_mem_nil,
      or_false] at he
    rcases he with (rfl | ⟨i, _, rfl⟩) | rfl
    · intro x hx; simp only [rep2, List.mem_replicate] at hx; omega
    · intro x hx; simp at hx; omega
    · intro x hx; simp only [rep2, List.mem_replicate] at hx; omega
  · simp [prepareNet, dkeys]

/-! ### multiplexer -/

theorem mplx_wf (nc nt : Nat) : WF (multiplexedNet nc nt) := by
  apply wf_of_tables (multiplexedNet nc nt)
    (fun t => if t = 0 then irange' (2 * nt) nc ++ irange (2 * nt)
      else if t = -1 then irange' (2 * nt) nc ++ irange nt ++ (irange' (2 * nt) nc ++ irange' nt nt) else [])
    (fun b => if 0 ≤ b ∧ b < 2 * nt then [-1, 0] else if (2 * nt : Int) ≤ b ∧ b < 2 * nt + nc then [-1, -1, 0] else [])
  · simp [multiplexedNet, dkeys]
  · simp only [multiplexedNet, dkeys, List.map_append, List.map_map]
    rw [List.nodup_append]
    refine ⟨List.Nodup.map (fun a b h => by simpa using h) List.nodup_range,
      List.Nodup.map (fun a b h => by simp only [Function.comp, Int.ofNat_eq_natCast] at h; omega) List.nodup_range, ?_⟩
    intro x hx y hy e
    simp only [List.mem_map, List.mem_range, Function.comp, Int.ofNat_eq_natCast] at hx hy
    obtain ⟨i, _, rfl⟩ := hx
    obtain ⟨j, _, rfl⟩ := hy
    omega
  · intro e he
    simp only [multiplexedNet, List.mem_cons, List.not_mem_nil, or_false] at he
    rcases he with rfl | rfl <;> rfl
  · intro e he
    simp only [multiplexedNet, List.mem_append, List.mem_map, List.mem_range] at he
    rcases he with ⟨i, _, rfl⟩ | ⟨i, _, rfl⟩ <;> rfl
  · intro e he
    simp only [multiplexedNet, List.mem_cons, List.not_mem_nil, or_false] at he
    rcases he with rfl | rfl <;> simp [rep2] <;> omega
  · intro e he
    simp only [multiplexedNet, List.mem_cons, List.not_mem_nil, or_false] at he
    rcases he with rfl | rfl <;> simp
  · intro t ht
    simp only [multiplexedNet, dkeys, List.map_cons, List.map_nil, List.mem_cons, List.not_mem_nil, or_false, not_or] at ht
    rw [if_neg ht.1, if_neg ht.2]
  · intro e he
    simp only [multiplexedNet, List.mem_append, List.mem_map, List.mem_range] at he
    rcases he with ⟨i, hi, rfl⟩ | ⟨i, hi, rfl⟩ <;> simp only [Int.ofNat_eq_natCast]
    · rw [if_pos ⟨by omega, by omega⟩]
    · rw [if_neg (by omega), if_pos ⟨by omega, by omega⟩]
  · intro b hb
    simp only [multiplexedNet, dkeys, List.map_append, List.map_map, List.mem_append, List.mem_map, List.mem_range, Function.comp,
      not_or, not_exists, not_and, Int.ofNat_eq_natCast] at hb
    rw [if_neg, if_neg]
    · rintro ⟨h0, h1⟩; exact hb.2 (b - 2 * nt).toNat (by omega) (by omega)
    · rintro ⟨h0, h1⟩; exact hb.1 b.toNat (by omega) (by omega)
  · intro b; split
    · simp
    · split <;> simp
  · intro b hb
    simp only [multiplexedNet, dkeys, List.map_append, List.map_map, List.mem_append, List.mem_map, List.mem_range, Function.comp,
      Int.ofNat_eq_natCast] at hb
    rcases hb with ⟨i, hi, rfl⟩ | ⟨i, hi, rfl⟩
    · rw [if_pos ⟨by omega, by omega⟩]; simp
    · rw [if_neg (by omega), if_pos ⟨by omega, by omega⟩]; simp
  · intro t b
    by_cases ht0 : t = 0
    · subst ht0
      rw [if_pos rfl, List.count_append, count_irange, count_irange']
      split_ifs <;> simp [List.count_cons] <;> omega
    · rw [if_neg ht0]
      by_cases ht1 : t = -1
      · subst ht1
        rw [if_pos rfl]
        simp only [List.count_append, count_irange, count_irange']
        split_ifs <;> simp [List.count_cons] <;> omega
      · rw [if_neg ht1]
        split_ifs <;> simp only [List.count_cons, List.count_nil, beq_iff_eq] <;> split_ifs <;> omega
  · apply dims_of_const _ 2
    intro e he
    simp only [multiplexedNet, List.mem_cons, List.not_mem_nil, or_false] at he
    rcases he with rfl | rfl <;> (intro x hx; simp only [rep2, List.mem_replicate] at hx; omega)
  · simp [multiplexedNet, dkeys]

end Qib.GateNet
