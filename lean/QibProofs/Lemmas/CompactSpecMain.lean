import QibProofs.Lemmas.CompactSpecSum
/-!
C13, spectral part — helper lemmas, part 4: assembly.  For a single row (`1 × n`) the matrix of the compact-encoded operator is
`W · (field operator's own matrix) · W` with `W = Z₁ Z₃ …`; for a single column (`n × 1`) the two matrices are equal.
-/
set_option linter.unusedSimpArgs false
set_option linter.unusedVariables false
open Complex Matrix
namespace Qib.Compact
open Qib.Pauli Qib.Lattice

/-- the coefficient matrix is exactly symmetric on the `L` sites -/
def SymmC (L : ℕ) (c : List (List Rat)) : Prop := ∀ i j, i < L → j < L → cget c i j = cget c j i

/-- the geometry of a row: neighbours in the integer lattice `1 × n` are consecutive sites -/
theorem row_adj (n i j : ℕ) (hij : i < j) (hj : j < n) (h : gridAdj [1, n] [false, false] i j = true) : j = i + 1 := by
  have hok := gridAdj_edgeOk h
  obtain ⟨h1, h2, h3, h4, hnn⟩ := hok
  have hi : i < n := by omega
  rw [Nat.mod_eq_of_lt hi, Nat.mod_eq_of_lt hj, Nat.div_eq_of_lt hi, Nat.div_eq_of_lt hj] at hnn
  unfold NN at hnn
  omega

/-- the geometry of a column -/
theorem col_adj (n i j : ℕ) (hij : i < j) (hj : j < n) (h : gridAdj [n, 1] [false, false] i j = true) : j = i + 1 := by
  have hok := gridAdj_edgeOk h
  obtain ⟨h1, h2, h3, h4, hnn⟩ := hok
  simp only [Nat.div_one, Nat.mod_one] at hnn
  unfold NN at hnn
  omega

theorem cfun_ne_zero (c : List (List Rat)) (i j : ℕ) (h : cfun c i j ≠ 0) : cget c i j ≠ 0 := by
  intro h0; apply h; simp [cfun, h0]

/-- one term, single row -/
theorem row_term (n : ℕ) (c : List (List Rat)) (hsym : SymmC n c)
    (hnn : ∀ i j, i < j → j < n → cget c i j ≠ 0 → gridAdj [1, n] [false, false] i j = true) :
    termDK n 1 n c = (wString n).mat n * quadF n (cfun c) * (wString n).mat n := by
  unfold termDK
  rw [Nat.one_mul, wString_mat]
  have hN : n = ofcNsites 1 n := (ofcNsites_row n).symm
  apply chain_core n (cfun c) (VmN n 1 n) (EmN n 1 n) _ (-1)
  · intro i j hi hj; simp only [cfun]; rw [hsym i j hi hj]
  · intro i j hij hj h0
    exact row_adj n i j hij hj (hnn i j hij hj (cfun_ne_zero c i j h0))
  · intro i hi
    exact vertexStr_mat 1 n n i hN (by omega)
  · intro i hi
    have e1 : VmN n 1 n (i + 1) = zSite n (i + 1) := vertexStr_mat 1 n n (i + 1) hN (by omega)
    have e2 : VmN n 1 n i = zSite n i := vertexStr_mat 1 n n i hN (by omega)
    rw [e1, e2]
    apply hop_of_edge n i hi
    unfold EmN
    rw [Nat.div_eq_of_lt (show i < n by omega), Nat.mod_eq_of_lt (show i < n by omega), Nat.div_eq_of_lt hi, Nat.mod_eq_of_lt hi]
    exact edgeStr_row_mat n i hi
  · exact conj_self n dOdd dOdd_sq
  · intro i hi
    exact conj_zSite n i dOdd dOdd_sq (dOdd_Z i)
  · intro i hi
    exact conjW_hopT n i hi

/-- one term, single column -/
theorem col_term (n : ℕ) (c : List (List Rat)) (hsym : SymmC n c)
    (hnn : ∀ i j, i < j → j < n → cget c i j ≠ 0 → gridAdj [n, 1] [false, false] i j = true) :
    termDK n n 1 c = quadF n (cfun c) := by
  unfold termDK
  rw [Nat.mul_one]
  have hN : n = ofcNsites n 1 := (ofcNsites_col n).symm
  have := chain_core n (cfun c) (VmN n n 1) (EmN n n 1) 1 1
    (by intro i j hi hj; simp only [cfun]; rw [hsym i j hi hj])
    (by intro i j hij hj h0; exact col_adj n i j hij hj (hnn i j hij hj (cfun_ne_zero c i j h0)))
    (by intro i hi; exact vertexStr_mat n 1 n i hN (by omega))
    (by
      intro i hi
      have e1 : VmN n n 1 (i + 1) = zSite n (i + 1) := vertexStr_mat n 1 n (i + 1) hN (by omega)
      have e2 : VmN n n 1 i = zSite n i := vertexStr_mat n 1 n i hN (by omega)
      rw [e1, e2]
      apply hop_of_edge n i hi
      unfold EmN
      simp only [Nat.div_one, Nat.mod_one, one_smul]
      exact edgeStr_col_mat n i hi)
    (by simp) (by intro i hi; simp) (by intro i hi; simp)
  simpa using this


/-- what the encoder guarantees about an accepted input of shape `[n0, n1]` -/
theorem encode_shape (inp : Input) (op : PauliOp GQ) (m n0 n1 : ℕ) (hshape : inp.shape = [n0, n1])
    (hs : encode inp = .ok (op, m)) :
    m = ofcNsites n0 n1 ∧ Admissible inp n0 n1 ∧
      ∀ N, N = ofcNsites n0 n1 → PauliOp.mat GQ.toC N op = (inp.terms.map fun t => termDK N n0 n1 t.coeffs).sum := by
  obtain ⟨a0, a1, h1, h2, h3⟩ := encode_mat_N inp op m hs
  rw [hshape] at h1
  simp only [List.cons.injEq, and_true] at h1
  obtain ⟨rfl, rfl⟩ := h1
  refine ⟨h2, ?_, h3⟩
  exact (encode_ok_iff inp n0 n1).mp ⟨op, h2 ▸ hs, hshape⟩

/-- **single row**: `mat (compact op) = W · mat(op) · W`, `W = Z₁ Z₃ …` -/
theorem row_equiv (inp : Input) (op : PauliOp GQ) (m n : ℕ) (hshape : inp.shape = [1, n])
    (hs : encode inp = .ok (op, m)) (hsym : ∀ t ∈ inp.terms, SymmC n t.coeffs) :
    m = n ∧ PauliOp.mat GQ.toC n op =
      (wString n).mat n * Encode.refMat GQ.toC n (fermiOp 1 n inp.terms) * (wString n).mat n := by
  obtain ⟨hm, hadm, hmat⟩ := encode_shape inp op m 1 n hshape hs
  refine ⟨hm.trans (ofcNsites_row n), ?_⟩
  rw [hmat n (ofcNsites_row n).symm, refMat_fermiOp n 1 n inp.terms (Nat.one_mul n), list_sum_conj', List.map_map]
  congr 1
  apply List.map_congr_left
  intro t ht
  obtain ⟨_, _, _, h4⟩ := hadm.2.2.2.2.2 t ht
  rw [Nat.one_mul] at h4
  exact row_term n t.coeffs (hsym t ht) h4

/-- **single column**: the two matrices are equal -/
theorem col_equiv (inp : Input) (op : PauliOp GQ) (m n : ℕ) (hshape : inp.shape = [n, 1])
    (hs : encode inp = .ok (op, m)) (hsym : ∀ t ∈ inp.terms, SymmC n t.coeffs) :
    m = n ∧ PauliOp.mat GQ.toC n op = Encode.refMat GQ.toC n (fermiOp n 1 inp.terms) := by
  obtain ⟨hm, hadm, hmat⟩ := encode_shape inp op m n 1 hshape hs
  refine ⟨hm.trans (ofcNsites_col n), ?_⟩
  rw [hmat n (ofcNsites_col n).symm, refMat_fermiOp n n 1 inp.terms (Nat.mul_one n)]
  congr 1
  apply List.map_congr_left
  intro t ht
  obtain ⟨_, _, _, h4⟩ := hadm.2.2.2.2.2 t ht
  rw [Nat.mul_one] at h4
  exact col_term n t.coeffs (hsym t ht) h4


/-! ### without exact symmetry: the encoder reads the diagonal and the upper triangle only -/

/-- the symmetric matrix with the diagonal and the upper triangle of `c` -/
def upperSym (L : ℕ) (c : List (List Rat)) : List (List Rat) :=
  (List.range L).map fun i => (List.range L).map fun j => cget c (min i j) (max i j)

theorem cget_upperSym (L : ℕ) (c : List (List Rat)) (i j : ℕ) (hi : i < L) (hj : j < L) :
    cget (upperSym L c) i j = cget c (min i j) (max i j) := by
  simp [cget, upperSym, List.getD_eq_getElem?_getD, List.getElem?_map, List.getElem?_range, hi, hj]

theorem upperSym_symm (L : ℕ) (c : List (List Rat)) : SymmC L (upperSym L c) := by
  intro i j hi hj
  rw [cget_upperSym L c i j hi hj, cget_upperSym L c j i hj hi, Nat.min_comm, Nat.max_comm]

theorem termDK_congr (N n0 n1 : ℕ) (c c' : List (List Rat))
    (h : ∀ i j, i ≤ j → j < n0 * n1 → cget c i j = cget c' i j) : termDK N n0 n1 c = termDK N n0 n1 c' := by
  unfold termDK quadDK
  congr 1
  · apply Finset.sum_congr rfl; intro i hi
    simp only [cfun, h i i (le_refl i) (Finset.mem_range.mp hi)]
  · apply Finset.sum_congr rfl; intro i hi
    apply Finset.sum_congr rfl; intro j hj
    by_cases hij : i < j
    · simp only [if_pos hij, cfun, h i j (le_of_lt hij) (Finset.mem_range.mp hj)]
    · simp only [if_neg hij]

theorem quadF_congr (n : ℕ) (c c' : ℕ → ℕ → ℂ) (h : ∀ i j, i < n → j < n → c i j = c' i j) : quadF n c = quadF n c' := by
  unfold quadF
  apply Finset.sum_congr rfl; intro i hi
  apply Finset.sum_congr rfl; intro j hj
  rw [h i j (Finset.mem_range.mp hi) (Finset.mem_range.mp hj)]

/-- the terms with their coefficient matrices symmetrised from the upper triangle -/
def upperTerms (L : ℕ) (terms : List Term) : List Term := terms.map fun t => { t with coeffs := upperSym L t.coeffs }

/-- single row, no symmetry hypothesis: what is encoded is the operator of the diagonal and upper triangle -/
theorem row_equiv_upper (inp : Input) (op : PauliOp GQ) (m n : ℕ) (hshape : inp.shape = [1, n])
    (hs : encode inp = .ok (op, m)) :
    m = n ∧ PauliOp.mat GQ.toC n op =
      (wString n).mat n * Encode.refMat GQ.toC n (fermiOp 1 n (upperTerms n inp.terms)) * (wString n).mat n := by
  obtain ⟨hm, hadm, hmat⟩ := encode_shape inp op m 1 n hshape hs
  refine ⟨hm.trans (ofcNsites_row n), ?_⟩
  rw [hmat n (ofcNsites_row n).symm, refMat_fermiOp n 1 n _ (Nat.one_mul n), list_sum_conj', upperTerms, List.map_map, List.map_map]
  congr 1
  apply List.map_congr_left
  intro t ht
  obtain ⟨_, _, _, h4⟩ := hadm.2.2.2.2.2 t ht
  rw [Nat.one_mul] at h4
  simp only [Function.comp]
  rw [termDK_congr n 1 n t.coeffs (upperSym n t.coeffs) (fun i j hij hj => by
    rw [Nat.one_mul] at hj
    rw [cget_upperSym n _ i j (by omega) hj, Nat.min_eq_left hij, Nat.max_eq_right hij])]
  apply row_term n _ (upperSym_symm n t.coeffs)
  intro i j hij hj h0
  rw [cget_upperSym n _ i j (by omega) hj, Nat.min_eq_left (le_of_lt hij), Nat.max_eq_right (le_of_lt hij)] at h0
  exact h4 i j hij hj h0

/-- single column, no symmetry hypothesis -/
theorem col_equiv_upper (inp : Input) (op : PauliOp GQ) (m n : ℕ) (hshape : inp.shape = [n, 1])
    (hs : encode inp = .ok (op, m)) :
    m = n ∧ PauliOp.mat GQ.toC n op = Encode.refMat GQ.toC n (fermiOp n 1 (upperTerms n inp.terms)) := by
  obtain ⟨hm, hadm, hmat⟩ := encode_shape inp op m n 1 hshape hs
  refine ⟨hm.trans (ofcNsites_col n), ?_⟩
  rw [hmat n (ofcNsites_col n).symm, refMat_fermiOp n n 1 _ (Nat.mul_one n), upperTerms, List.map_map]
  congr 1
  apply List.map_congr_left
  intro t ht
  obtain ⟨_, _, _, h4⟩ := hadm.2.2.2.2.2 t ht
  rw [Nat.mul_one] at h4
  simp only [Function.comp]
  rw [termDK_congr n n 1 t.coeffs (upperSym n t.coeffs) (fun i j hij hj => by
    rw [Nat.mul_one] at hj
    rw [cget_upperSym n _ i j (by omega) hj, Nat.min_eq_left hij, Nat.max_eq_right hij])]
  apply col_term n _ (upperSym_symm n t.coeffs)
  intro i j hij hj h0
  rw [cget_upperSym n _ i j (by omega) hj, Nat.min_eq_left (le_of_lt hij), Nat.max_eq_right (le_of_lt hij)] at h0
  exact h4 i j hij hj h0


/-- for exactly symmetric coefficients the symmetrised operator is the operator itself -/
theorem refMat_upperTerms (n n0 n1 : ℕ) (terms : List Term) (hL : n0 * n1 = n) (hsym : ∀ t ∈ terms, SymmC n t.coeffs) :
    Encode.refMat GQ.toC n (fermiOp n0 n1 (upperTerms n terms)) = Encode.refMat GQ.toC n (fermiOp n0 n1 terms) := by
  rw [refMat_fermiOp n n0 n1 _ hL, refMat_fermiOp n n0 n1 _ hL, upperTerms, List.map_map]
  congr 1
  apply List.map_congr_left
  intro t ht
  simp only [Function.comp]
  apply quadF_congr
  intro i j hi hj
  simp only [cfun]
  rw [cget_upperSym n _ i j hi hj]
  rcases Nat.le_total i j with h | h
  · rw [Nat.min_eq_left h, Nat.max_eq_right h]
  · rw [Nat.min_eq_right h, Nat.max_eq_left h, hsym t ht i j hi hj]

end Qib.Compact
