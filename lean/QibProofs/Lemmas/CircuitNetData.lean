import QibModel.CircuitNet
import QibProofs.Properties.C08
import QibProofs.Properties.C06
/-!
Helper lemmas for C05 (tensor-network part), part 1: error lifting, data dictionaries (`dict.update`, the clash check),
re-numbering of a gate network's data references. No property statements.
-/
namespace Qib.CircuitNet
open Qib.TNet Qib.GateNet

/-! ### error lifting -/

theorem liftT_ok {β : Type} {x : Except TNet.Err β} {y : β} : liftT x = .ok y ↔ x = .ok y := by
  cases x <;> simp [liftT]

theorem liftG_ok {β : Type} {x : Except GErr β} {y : β} : liftG x = .ok y ↔ x = .ok y := by
  cases x <;> simp [liftG]

/-! ### structural equality of arrays -/
section Eq
variable {α : Type} [DecidableEq α]

mutual
theorem ntBeq_eq : ∀ (x y : NT α), ntBeq x y = true → x = y
  | .s a, .s b, h => by simp only [ntBeq, decide_eq_true_eq] at h; rw [h]
  | .a xs, .a ys, h => by simp only [ntBeq] at h; rw [ntBeqL_eq xs ys h]
  | .s _, .a _, h => by simp [ntBeq] at h
  | .a _, .s _, h => by simp [ntBeq] at h
theorem ntBeqL_eq : ∀ (xs ys : List (NT α)), ntBeqL xs ys = true → xs = ys
  | [], [], _ => rfl
  | x :: xs, y :: ys, h => by
    simp only [ntBeqL, Bool.and_eq_true] at h
    rw [ntBeq_eq x y h.1, ntBeqL_eq xs ys h.2]
  | [], _ :: _, h => by simp [ntBeqL] at h
  | _ :: _, [], h => by simp [ntBeqL] at h
end

theorem dtEq_eq {a b : DT α} (h : dtEq a b = true) : a = b := by
  simp only [dtEq, Bool.and_eq_true, beq_iff_eq] at h
  cases a; cases b
  simp only at h
  rw [h.1, ntBeq_eq _ _ h.2]

/-- no clash: every key present in both dictionaries carries the same array -/
theorem dataClash_false {self other : List (Int × DT α)} (h : dataClash self other = false) :
    ∀ e ∈ other, ∀ d, self.lookup e.1 = some d → d = e.2 := by
  intro e he d hd
  simp only [dataClash, List.any_eq_false] at h
  have := h e he
  rw [hd] at this
  simp only [Bool.not_eq_true, Bool.not_eq_false'] at this
  exact dtEq_eq (by simpa using this)

end Eq

/-! ### `dict.update` -/
section Dict
variable {β : Type}

theorem lookup_cons' (a k : Int) (b : β) (es : List (Int × β)) :
    ((a, b) :: es).lookup k = if k = a then some b else es.lookup k := by
  by_cases h : k = a
  · subst h; simp [List.lookup]
  · have : (k == a) = false := by simpa using h
    simp [List.lookup, this, h]

theorem lookup_map_replace_ne (l : List (Int × β)) (k k' : Int) (v : β) (hk : k ≠ k') :
    (l.map (fun e => if e.1 == k' then (k', v) else e)).lookup k = l.lookup k := by
  induction l with
  | nil => rfl
  | cons e es ih =>
    obtain ⟨a, b⟩ := e
    by_cases ha : a = k'
    · subst ha
      simp only [List.map_cons, beq_self_eq_true, if_true, lookup_cons', if_neg hk, ih]
    · have ha' : (a == k') = false := by simpa using ha
      simp only [List.map_cons, ha', Bool.false_eq_true, if_false, lookup_cons', ih]

theorem lookup_map_replace_eq (l : List (Int × β)) (k' : Int) (v : β) (h : k' ∈ dkeys l) :
    (l.map (fun e => if e.1 == k' then (k', v) else e)).lookup k' = some v := by
  induction l with
  | nil => simp [dkeys] at h
  | cons e es ih =>
    obtain ⟨a, b⟩ := e
    by_cases ha : a = k'
    · subst ha
      simp only [List.map_cons, beq_self_eq_true, if_true, lookup_cons', if_true]
    · have ha' : (a == k') = false := by simpa using ha
      have hne : ¬ k' = a := fun e => ha e.symm
      simp only [List.map_cons, ha', Bool.false_eq_true, if_false, lookup_cons', if_neg hne]
      apply ih
      simp only [dkeys, List.map_cons, List.mem_cons] at h
      rcases h with h | h
      · exact absurd h hne
      · exact h

theorem lookup_append_notMem (l : List (Int × β)) (k k' : Int) (v : β) :
    (l ++ [(k', v)]).lookup k = match l.lookup k with | some x => some x | none => if k = k' then some v else none := by
  induction l with
  | nil => simp [lookup_cons', List.lookup]
  | cons e es ih =>
    obtain ⟨a, b⟩ := e
    simp only [List.cons_append, lookup_cons']
    by_cases h : k = a
    · simp [h]
    · simp only [if_neg h]; exact ih

theorem lookup_dset (d : List (Int × β)) (k k' : Int) (v : β) :
    (dset d k' v).lookup k = if k = k' then some v else d.lookup k := by
  unfold dset
  by_cases hh : dhas d k' = true
  · rw [if_pos hh]
    by_cases hk : k = k'
    · subst hk; rw [if_pos rfl]; exact lookup_map_replace_eq d k v ((dhas_iff d k).mp hh)
    · rw [if_neg hk]; exact lookup_map_replace_ne d k k' v hk
  · rw [if_neg hh]
    have hn : k' ∉ dkeys d := (dhas_false_iff d k').mp (by simpa using hh)
    rw [lookup_append_notMem]
    by_cases hk : k = k'
    · subst hk
      have hnone : d.lookup k = none := dget_eq_none_of_notMem d hn
      simp [hnone]
    · simp only [if_neg hk]
      cases d.lookup k <;> rfl

theorem lookup_dupdate_of_notMem (d o : List (Int × β)) (k : Int) (h : k ∉ dkeys o) :
    (dupdate d o).lookup k = d.lookup k := by
  unfold dupdate
  induction o generalizing d with
  | nil => rfl
  | cons e es ih =>
    simp only [dkeys, List.map_cons, List.mem_cons, not_or] at h
    rw [List.foldl_cons, ih _ (by simpa [dkeys] using h.2), lookup_dset, if_neg h.1]

theorem lookup_dupdate_of_mem (d o : List (Int × β)) (hn : (dkeys o).Nodup) {k : Int} {v : β} (h : (k, v) ∈ o) :
    (dupdate d o).lookup k = some v := by
  induction o generalizing d with
  | nil => cases h
  | cons e es ih =>
    simp only [dkeys, List.map_cons, List.nodup_cons] at hn
    have hfold : dupdate d (e :: es) = dupdate (dset d e.1 e.2) es := rfl
    rw [hfold]
    rcases List.mem_cons.mp h with rfl | h'
    · rw [lookup_dupdate_of_notMem _ _ _ (by simpa [dkeys] using hn.1), lookup_dset, if_pos rfl]
    · exact ih _ (by simpa [dkeys] using hn.2) h'

theorem lookup_eq_some_of_mem {l : List (Int × β)} (hn : (dkeys l).Nodup) {k : Int} {v : β} (h : (k, v) ∈ l) :
    l.lookup k = some v := dget_eq_some_of_mem l hn h

theorem mem_of_lookup_eq_some {l : List (Int × β)} {k : Int} {v : β} (h : l.lookup k = some v) : (k, v) ∈ l :=
  mem_of_dget_eq_some l h

end Dict

/-! ### data access of a merged dictionary -/
section Access
variable {α : Type} [Zero α] [DecidableEq α]

/-- under the united dictionary the first operand's references read what they read before (given no clash) -/
theorem D_dupdate_left (da db : List (Int × DT α)) (hb : (dkeys db).Nodup) (hclash : dataClash da db = false)
    (net : Net) (k : Int) (hk : k ∈ dkeys da) :
    (⟨net, dupdate da db⟩ : TN α).D (some k) = (⟨net, da⟩ : TN α).D (some k) := by
  funext idx
  simp only [TN.D]
  by_cases hkb : k ∈ dkeys db
  · obtain ⟨v, hv⟩ := exists_mem_of_mem_dkeys hkb
    rw [lookup_dupdate_of_mem da db hb hv]
    obtain ⟨d, hd⟩ := Option.isSome_iff_exists.mp ((dget_isSome_iff da k).mpr hk)
    have hd' : da.lookup k = some d := hd
    rw [hd']
    have := dataClash_false hclash (k, v) hv d hd'
    simp only at this
    rw [this]
  · rw [lookup_dupdate_of_notMem da db k hkb]

omit [DecidableEq α] in
/-- … and the second operand's references read the second dictionary -/
theorem D_dupdate_right (da db : List (Int × DT α)) (hb : (dkeys db).Nodup) (net : Net) (k : Int)
    (hk : k ∈ dkeys db) : (⟨net, dupdate da db⟩ : TN α).D (some k) = (⟨net, db⟩ : TN α).D (some k) := by
  funext idx
  simp only [TN.D]
  obtain ⟨v, hv⟩ := exists_mem_of_mem_dkeys hk
  rw [lookup_dupdate_of_mem da db hb hv, lookup_eq_some_of_mem hb hv]

omit [DecidableEq α] in
theorem D_net_irrel (n1 n2 : Net) (d : List (Int × DT α)) (r : Option Int) :
    (⟨n1, d⟩ : TN α).D r = (⟨n2, d⟩ : TN α).D r := rfl

end Access

end Qib.CircuitNet
