import QibProofs.Lemmas.TNetTreeCert
import QibProofs.Lemmas.TNetEinsumSound
/-!
Helper lemmas for C07, part 5: the bonds contracted at a node / inside a subtree of a certified contraction tree and the
structural invariants of certified subtrees (open axes = legs whose bond has not been contracted yet; a contracted bond
has all its legs below the node) (no property statements).
-/
namespace Qib.TNet

/-- labels summed by the einsum call of a node -/
def summedAt (n : NodeInfo) : List Nat := ((n.idxL ++ n.idxR).eraseDups).filter (fun l => !n.idxout.contains l)

/-- bonds contracted at a node (read off the summed labels) -/
def elimAt (net : Net) (n cL cR : NodeInfo) : List Int := (summedAt n).map (bondOf (pairsN net n cL cR))

/-- all bonds contracted inside a subtree -/
def treeElims (net : Net) : Tree → List Int
  | .leaf _ => []
  | .node i l r => elimAt net i l.info r.info ++ (treeElims net l ++ treeElims net r)

theorem contractedAt_iff {net : Net} {cL cR : NodeInfo} {b : Int} : contractedAt net cL cR b = true ↔
    bondLegs net b ≠ [] ∧ ∀ ta ∈ bondLegs net b, ta ∈ cL.openaxes ∨ ta ∈ cR.openaxes := by
  unfold contractedAt
  simp only [Bool.and_eq_true, Bool.not_eq_true', List.isEmpty_eq_false_iff, List.all_eq_true, Bool.or_eq_true,
    List.contains_iff_mem]

section Node
variable {net : Net} {n cL cR : NodeInfo}

theorem mem_pairsN {p : Int × Nat} : p ∈ pairsN net n cL cR ↔
    (∃ k, k < cL.idxout.length ∧ p = (legB net cL k, n.idxL[k]?.getD 0)) ∨
    (∃ k, k < cR.idxout.length ∧ p = (legB net cR k, n.idxR[k]?.getD 0)) := by
  unfold pairsN
  simp only [List.mem_append, List.mem_map, List.mem_range]
  constructor
  · rintro (⟨k, hk, rfl⟩ | ⟨k, hk, rfl⟩)
    · exact Or.inl ⟨k, hk, rfl⟩
    · exact Or.inr ⟨k, hk, rfl⟩
  · rintro (⟨k, hk, rfl⟩ | ⟨k, hk, rfl⟩)
    · exact Or.inl ⟨k, hk, rfl⟩
    · exact Or.inr ⟨k, hk, rfl⟩

theorem NodeCert.pairL (hc : NodeCert net n cL cR) {k : Nat} (hk : k < cL.idxout.length) :
    (legB net cL k, n.idxL[k]'(by rw [hc.lenL]; exact hk)) ∈ pairsN net n cL cR := by
  rw [mem_pairsN]
  exact Or.inl ⟨k, hk, by rw [List.getElem?_eq_getElem (by rw [hc.lenL]; exact hk)]; rfl⟩

theorem NodeCert.pairR (hc : NodeCert net n cL cR) {k : Nat} (hk : k < cR.idxout.length) :
    (legB net cR k, n.idxR[k]'(by rw [hc.lenR]; exact hk)) ∈ pairsN net n cL cR := by
  rw [mem_pairsN]
  exact Or.inr ⟨k, hk, by rw [List.getElem?_eq_getElem (by rw [hc.lenR]; exact hk)]; rfl⟩

/-- the labels of the einsum call are exactly the labels of the pairs -/
theorem NodeCert.mem_labels (hc : NodeCert net n cL cR) {l : Nat} :
    l ∈ n.idxL ++ n.idxR ↔ ∃ b, (b, l) ∈ pairsN net n cL cR := by
  rw [List.mem_append]
  constructor
  · rintro (h | h)
    · obtain ⟨k, hk, rfl⟩ := List.getElem_of_mem h
      exact ⟨_, hc.pairL (by rw [← hc.lenL]; exact hk)⟩
    · obtain ⟨k, hk, rfl⟩ := List.getElem_of_mem h
      exact ⟨_, hc.pairR (by rw [← hc.lenR]; exact hk)⟩
  · rintro ⟨b, hb⟩
    rcases mem_pairsN.mp hb with ⟨k, hk, he⟩ | ⟨k, hk, he⟩
    · left
      have hk' : k < n.idxL.length := by rw [hc.lenL]; exact hk
      rw [List.getElem?_eq_getElem hk'] at he
      simp only [Option.getD_some, Prod.mk.injEq] at he
      rw [he.2]; exact List.getElem_mem hk'
    · right
      have hk' : k < n.idxR.length := by rw [hc.lenR]; exact hk
      rw [List.getElem?_eq_getElem hk'] at he
      simp only [Option.getD_some, Prod.mk.injEq] at he
      rw [he.2]; exact List.getElem_mem hk'

theorem mem_summedAt {l : Nat} : l ∈ summedAt n ↔ l ∈ n.idxL ++ n.idxR ∧ l ∉ n.idxout := by
  unfold summedAt
  rw [List.mem_filter, List.mem_eraseDups]
  simp

theorem NodeCert.mem_elimAt (hc : NodeCert net n cL cR) {b : Int} :
    b ∈ elimAt net n cL cR ↔ ∃ l, (b, l) ∈ pairsN net n cL cR ∧ l ∉ n.idxout := by
  unfold elimAt
  rw [List.mem_map]
  constructor
  · rintro ⟨l, hl, rfl⟩
    rw [mem_summedAt] at hl
    obtain ⟨b, hb⟩ := hc.mem_labels.mp hl.1
    rw [bondOf_eq hc.bij hb]
    exact ⟨l, hb, hl.2⟩
  · rintro ⟨l, hb, hl⟩
    exact ⟨l, mem_summedAt.mpr ⟨hc.mem_labels.mpr ⟨b, hb⟩, hl⟩, bondOf_eq hc.bij hb⟩

theorem NodeCert.contracted_of_elim (hc : NodeCert net n cL cR) {b : Int} (h : b ∈ elimAt net n cL cR) :
    contractedAt net cL cR b = true := by
  obtain ⟨l, hb, hl⟩ := hc.mem_elimAt.mp h
  have := (hc.outIff _ hb).not.mp hl
  simpa using this

theorem NodeCert.elim_of_contracted (hc : NodeCert net n cL cR) {b : Int} {l : Nat} (hb : (b, l) ∈ pairsN net n cL cR)
    (h : contractedAt net cL cR b = true) : b ∈ elimAt net n cL cR := by
  refine hc.mem_elimAt.mpr ⟨l, hb, ?_⟩
  intro hl
  have := (hc.outIff _ hb).mp hl
  simp only at this
  rw [h] at this; cases this

theorem NodeCert.elimAt_nodup (hc : NodeCert net n cL cR) : (elimAt net n cL cR).Nodup := by
  unfold elimAt
  apply List.Nodup.map_on
  · intro l hl l' hl' heq
    obtain ⟨b, hb⟩ := hc.mem_labels.mp (mem_summedAt.mp hl).1
    obtain ⟨b', hb'⟩ := hc.mem_labels.mp (mem_summedAt.mp hl').1
    rw [bondOf_eq hc.bij hb, bondOf_eq hc.bij hb'] at heq
    exact (hc.bij _ hb _ hb').mp heq
  · unfold summedAt
    exact (nodup_eraseDups' _).filter _

/-- an open axis of a child lies on a bond that labels one of the child's legs -/
theorem NodeCert.pair_of_openL (hc : NodeCert net n cL cR) {oa : Int × Nat} (ho : oa ∈ cL.openaxes) :
    ∃ b l, legBond net oa = some b ∧ (b, l) ∈ pairsN net n cL cR := by
  obtain ⟨k, hk, _, hb⟩ := hc.iL.track ho
  exact ⟨_, _, hb, hc.pairL hk⟩

theorem NodeCert.pair_of_openR (hc : NodeCert net n cL cR) {oa : Int × Nat} (ho : oa ∈ cR.openaxes) :
    ∃ b l, legBond net oa = some b ∧ (b, l) ∈ pairsN net n cL cR := by
  obtain ⟨k, hk, _, hb⟩ := hc.iR.track ho
  exact ⟨_, _, hb, hc.pairR hk⟩

end Node
end Qib.TNet

namespace Qib.TNet

/-- structural invariants of a certified subtree -/
structure TreeInv (net : Net) (t : Tree) : Prop where
  /-- open axes belong to leaves of the subtree -/
  i1 : ∀ ta ∈ t.info.openaxes, ta.1 ∈ treeLeaves t
  /-- a leg of a leaf is still open iff its bond has not been contracted inside the subtree -/
  i2 : ∀ tid ∈ treeLeaves t, ∀ a b, legBond net (tid, a) = some b → ((tid, a) ∈ t.info.openaxes ↔ b ∉ treeElims net t)
  /-- a bond contracted inside the subtree has all its legs on leaves of the subtree -/
  i3 : ∀ b ∈ treeElims net t, bondLegs net b ≠ [] ∧ ∀ ta ∈ bondLegs net b, ta.1 ∈ treeLeaves t
  i4 : (treeElims net t).Nodup
  i5 : ∀ tid ∈ treeLeaves t, tid ≠ -1 ∧ tid ∈ dkeys net.tensors
  info : InfoCert net t.info

theorem treeInv {net : Net} (hwf : WF net) : ∀ t : Tree, (∀ x ∈ treeOKList net t, x = true) → (treeLeaves t).Nodup →
    TreeInv net t := by
  intro t
  induction t with
  | leaf i =>
    intro hok _
    have hl : LeafCert net i := leafOK_cert (hok (leafOK net i) (by simp [treeOKList]))
    obtain ⟨T, hT, hopen, hlen⟩ := hl.T
    have hsh : T.shape.length = T.bids.length := hwf.tshape _ (mem_of_dget_eq_some _ hT)
    refine ⟨?_, ?_, ?_, ?_, ?_, hl.info⟩
    · intro ta hta
      simp only [Tree.info] at hta
      rw [hopen] at hta
      obtain ⟨a, _, rfl⟩ := List.mem_map.mp hta
      simp [treeLeaves]
    · intro tid htid a b hb
      simp only [treeLeaves, List.mem_singleton] at htid
      subst htid
      simp only [treeElims, List.not_mem_nil, not_false_eq_true, iff_true, Tree.info]
      rw [hopen]
      obtain ⟨T', hT', hb'⟩ := legBond_eq_some_iff.mp hb
      rw [hT] at hT'; cases hT'
      have ha : a < T.bids.length := by
        by_contra h; rw [List.getElem?_eq_none (by omega)] at hb'; cases hb'
      exact List.mem_map.mpr ⟨a, List.mem_range.mpr (by omega), rfl⟩
    · intro b hb; simp [treeElims] at hb
    · simp [treeElims]
    · intro tid htid
      simp only [treeLeaves, List.mem_singleton] at htid
      subst htid
      exact ⟨hl.ne, (dget_isSome_iff _ _).mp (by rw [hT]; rfl)⟩
  | node n l r ihl ihr =>
    intro hok hnd
    simp only [treeOKList, List.mem_cons, List.mem_append] at hok
    have hc : NodeCert net n l.info r.info := nodeOK_cert (hok (nodeOK net n l.info r.info) (Or.inl rfl))
    simp only [treeLeaves] at hnd
    have hndl := (List.nodup_append.mp hnd).1
    have hndr := (List.nodup_append.mp hnd).2.1
    have hdisj : ∀ x, x ∈ treeLeaves l → x ∉ treeLeaves r := fun x hx hx' =>
      (List.nodup_append.mp hnd).2.2 x hx x hx' rfl
    have IL := ihl (fun x hx => hok x (Or.inr (Or.inl hx))) hndl
    have IR := ihr (fun x hx => hok x (Or.inr (Or.inr hx))) hndr
    have hopen : ∀ ta, ta ∈ n.openaxes ↔ (ta ∈ l.info.openaxes ∨ ta ∈ r.info.openaxes) ∧ keepAx net l.info r.info ta = true := by
      intro ta
      rw [hc.opn, List.mem_filter, List.mem_append]
    -- a bond contracted here has its legs on the leaves below
    have hE : ∀ b ∈ elimAt net n l.info r.info, bondLegs net b ≠ [] ∧
        ∀ ta ∈ bondLegs net b, ta.1 ∈ treeLeaves l ∨ ta.1 ∈ treeLeaves r := by
      intro b hb
      obtain ⟨h1, h2⟩ := contractedAt_iff.mp (hc.contracted_of_elim hb)
      refine ⟨h1, fun ta hta => ?_⟩
      rcases h2 ta hta with h | h
      · exact Or.inl (IL.i1 ta h)
      · exact Or.inr (IR.i1 ta h)
    refine ⟨?_, ?_, ?_, ?_, ?_, hc.iN⟩
    · intro ta hta
      simp only [Tree.info] at hta
      simp only [treeLeaves, List.mem_append]
      rcases ((hopen ta).mp hta).1 with h | h
      · exact Or.inl (IL.i1 ta h)
      · exact Or.inr (IR.i1 ta h)
    · intro tid htid a b hb
      simp only [Tree.info, treeElims, List.mem_append, not_or]
      have hkeep : keepAx net l.info r.info (tid, a) = !contractedAt net l.info r.info b := by
        simp [keepAx, hb]
      obtain ⟨T, hT, hbT⟩ := legBond_eq_some_iff.mp hb
      have hleg : (tid, a) ∈ bondLegs net b := (mem_bondLegs_iff hwf).mpr ⟨T, hT, hbT⟩
      simp only [treeLeaves, List.mem_append] at htid
      rcases htid with htid | htid
      · have hnr : tid ∉ treeLeaves r := hdisj tid htid
        have hnotR : (tid, a) ∉ r.info.openaxes := fun h => hnr (IR.i1 _ h)
        have hbR : b ∉ treeElims net r := fun h => hnr ((IR.i3 b h).2 _ hleg)
        constructor
        · intro h
          obtain ⟨h1, h2⟩ := (hopen _).mp h
          have h1' : (tid, a) ∈ l.info.openaxes := h1.resolve_right hnotR
          rw [hkeep] at h2
          refine ⟨fun he => ?_, (IL.i2 tid htid a b hb).mp h1', hbR⟩
          rw [hc.contracted_of_elim he] at h2; cases h2
        · rintro ⟨h1, h2, _⟩
          have ho : (tid, a) ∈ l.info.openaxes := (IL.i2 tid htid a b hb).mpr h2
          refine (hopen _).mpr ⟨Or.inl ho, ?_⟩
          rw [hkeep]
          cases hcon : contractedAt net l.info r.info b
          · rfl
          · exfalso
            obtain ⟨b', l', hb', hp⟩ := hc.pair_of_openL ho
            rw [hb] at hb'; cases hb'
            exact h1 (hc.elim_of_contracted hp hcon)
      · have hnl : tid ∉ treeLeaves l := fun h => hdisj tid h htid
        have hnotL : (tid, a) ∉ l.info.openaxes := fun h => hnl (IL.i1 _ h)
        have hbL : b ∉ treeElims net l := fun h => hnl ((IL.i3 b h).2 _ hleg)
        constructor
        · intro h
          obtain ⟨h1, h2⟩ := (hopen _).mp h
          have h1' : (tid, a) ∈ r.info.openaxes := h1.resolve_left hnotL
          rw [hkeep] at h2
          refine ⟨fun he => ?_, hbL, (IR.i2 tid htid a b hb).mp h1'⟩
          rw [hc.contracted_of_elim he] at h2; cases h2
        · rintro ⟨h1, _, h2⟩
          have ho : (tid, a) ∈ r.info.openaxes := (IR.i2 tid htid a b hb).mpr h2
          refine (hopen _).mpr ⟨Or.inr ho, ?_⟩
          rw [hkeep]
          cases hcon : contractedAt net l.info r.info b
          · rfl
          · exfalso
            obtain ⟨b', l', hb', hp⟩ := hc.pair_of_openR ho
            rw [hb] at hb'; cases hb'
            exact h1 (hc.elim_of_contracted hp hcon)
    · intro b hb
      simp only [treeElims, List.mem_append] at hb
      simp only [treeLeaves, List.mem_append]
      rcases hb with hb | hb | hb
      · exact hE b hb
      · exact ⟨(IL.i3 b hb).1, fun ta hta => Or.inl ((IL.i3 b hb).2 ta hta)⟩
      · exact ⟨(IR.i3 b hb).1, fun ta hta => Or.inr ((IR.i3 b hb).2 ta hta)⟩
    · simp only [treeElims]
      -- a leg of a contracted bond that is an open axis of a child
      have hEopen : ∀ b ∈ elimAt net n l.info r.info, b ∉ treeElims net l ∧ b ∉ treeElims net r := by
        intro b hb
        obtain ⟨h1, h2⟩ := contractedAt_iff.mp (hc.contracted_of_elim hb)
        obtain ⟨ta, hta⟩ := List.exists_mem_of_ne_nil _ h1
        obtain ⟨tid, a⟩ := ta
        obtain ⟨T, hT, hbT⟩ := (mem_bondLegs_iff hwf).mp hta
        have hlb : legBond net (tid, a) = some b := legBond_eq_some_iff.mpr ⟨T, hT, hbT⟩
        rcases h2 _ hta with h | h
        · have htl := IL.i1 _ h
          exact ⟨(IL.i2 tid htl a b hlb).mp h, fun hr => hdisj tid htl ((IR.i3 b hr).2 _ hta)⟩
        · have htr := IR.i1 _ h
          exact ⟨fun hl' => hdisj tid ((IL.i3 b hl').2 _ hta) htr, (IR.i2 tid htr a b hlb).mp h⟩
      rw [List.nodup_append]
      refine ⟨hc.elimAt_nodup, ?_, ?_⟩
      · rw [List.nodup_append]
        refine ⟨IL.i4, IR.i4, ?_⟩
        intro b hbl b' hbr heq
        subst heq
        obtain ⟨h1, h2⟩ := IL.i3 b hbl
        obtain ⟨ta, hta⟩ := List.exists_mem_of_ne_nil _ h1
        exact hdisj _ (h2 ta hta) ((IR.i3 b hbr).2 ta hta)
      · intro b hb b' hb' heq
        subst heq
        rcases List.mem_append.mp hb' with h | h
        · exact (hEopen b hb).1 h
        · exact (hEopen b hb).2 h
    · intro tid htid
      simp only [treeLeaves, List.mem_append] at htid
      rcases htid with h | h
      · exact IL.i5 tid h
      · exact IR.i5 tid h

end Qib.TNet
