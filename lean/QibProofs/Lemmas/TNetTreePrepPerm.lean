import QibProofs.Lemmas.TNetTreeBuildOK
import QibProofs.Lemmas.TNetTreePermTree
import Mathlib.Data.List.TakeWhile
/-!
Helper lemmas for C07, part 20: `argsort` of a permutation is the inverse permutation (`argsort_spec`,
`argsort_inverse`); `permute_axes` keeps a certified node certified and relabels its legs (`permuteInfo_cert`)
(no property statements).
-/
namespace Qib.TNet

/-- insertion step of `argsort` -/
def argIns (l : List Nat) (acc : List Nat) (i : Nat) : List Nat :=
  (acc.takeWhile (fun j => l[j]! ≤ l[i]!)) ++ [i] ++ (acc.dropWhile (fun j => l[j]! ≤ l[i]!))

theorem argsort_eq (l : List Nat) : argsort l = (List.range l.length).foldl (argIns l) [] := rfl

theorem argIns_inv (l : List Nat) (acc : List Nat) (m : Nat) (hp : acc.Perm (List.range m))
    (hs : (acc.map (fun j => l[j]!)).Pairwise (· ≤ ·)) :
    (argIns l acc m).Perm (List.range (m + 1)) ∧ ((argIns l acc m).map (fun j => l[j]!)).Pairwise (· ≤ ·) := by
  set p : Nat → Bool := fun j => decide (l[j]! ≤ l[m]!) with hpdef
  have hsplit : acc.takeWhile p ++ acc.dropWhile p = acc := List.takeWhile_append_dropWhile
  constructor
  · unfold argIns
    rw [List.range_succ]
    have : (acc.takeWhile p ++ [m] ++ acc.dropWhile p).Perm (acc.takeWhile p ++ acc.dropWhile p ++ [m]) := by
      rw [List.append_assoc, List.append_assoc]
      exact List.Perm.append_left _ List.perm_append_comm
    refine this.trans ?_
    rw [hsplit]
    exact hp.append_right _
  · unfold argIns
    rw [← hsplit, List.map_append, List.pairwise_append] at hs
    obtain ⟨h1, h2, h3⟩ := hs
    have htw : ∀ a ∈ acc.takeWhile p, l[a]! ≤ l[m]! := by
      intro a ha
      have := List.mem_takeWhile_imp ha
      simpa [hpdef] using this
    have hdw : ∀ b ∈ acc.dropWhile p, l[m]! ≤ l[b]! := by
      intro b hb
      have hh := List.head?_dropWhile_not p acc
      cases hd : acc.dropWhile p with
      | nil => rw [hd] at hb; cases hb
      | cons x xs =>
        rw [hd] at hh hb h2
        simp only [List.head?_cons, hpdef, decide_eq_false_iff_not, Nat.not_le] at hh
        rcases List.mem_cons.mp hb with rfl | hb
        · omega
        · rw [List.map_cons, List.pairwise_cons] at h2
          have := h2.1 (l[b]!) (List.mem_map.mpr ⟨b, hb, rfl⟩)
          omega
    rw [List.map_append, List.map_append, List.pairwise_append]
    refine ⟨?_, h2, ?_⟩
    · rw [List.pairwise_append]
      refine ⟨h1, by simp, ?_⟩
      intro a ha b hb
      obtain ⟨a', ha', rfl⟩ := List.mem_map.mp ha
      simp only [List.map_cons, List.map_nil, List.mem_singleton] at hb
      subst hb
      exact htw a' ha'
    · intro a ha b hb
      obtain ⟨b', hb', rfl⟩ := List.mem_map.mp hb
      rcases List.mem_append.mp ha with ha | ha
      · exact h3 a ha _ (List.mem_map.mpr ⟨b', hb', rfl⟩)
      · simp only [List.map_cons, List.map_nil, List.mem_singleton] at ha
        subst ha
        exact hdw b' hb'

theorem argsort_fold_inv (l : List Nat) (m : Nat) :
    ((List.range m).foldl (argIns l) []).Perm (List.range m) ∧
    (((List.range m).foldl (argIns l) []).map (fun j => l[j]!)).Pairwise (· ≤ ·) := by
  induction m with
  | zero => simp
  | succ m ih =>
    have := argIns_inv l _ m ih.1 ih.2
    rw [List.range_succ, List.foldl_append]
    simp only [List.foldl_cons, List.foldl_nil]
    rw [List.range_succ] at this
    exact this

/-- `argsort` of a permutation of `range n` is the inverse permutation -/
theorem argsort_spec {l : List Nat} (hl : l.Perm (List.range l.length)) :
    (argsort l).Perm (List.range l.length) ∧ (argsort l).map (fun j => l[j]!) = List.range l.length := by
  obtain ⟨h1, h2⟩ := argsort_fold_inv l l.length
  rw [← argsort_eq] at h1 h2
  refine ⟨h1, ?_⟩
  have hmap : ((List.range l.length).map (fun j => l[j]!)) = l := by
    apply List.ext_getElem
    · simp
    · intro k hk1 hk2; simp [hk2]
  have hperm : ((argsort l).map (fun j => l[j]!)).Perm (List.range l.length) :=
    ((h1.map _).trans (by rw [hmap])).trans hl
  exact List.Perm.eq_of_pairwise (fun a b _ _ h1 h2 => Nat.le_antisymm h1 h2) h2 List.pairwise_le_range hperm

end Qib.TNet

namespace Qib.TNet

/-- consequences of `argsort_spec` in index form -/
theorem argsort_inverse {sort : List Nat} (hs : sort.Perm (List.range sort.length)) :
    (argsort sort).length = sort.length ∧ (∀ k (hk : k < (argsort sort).length), (argsort sort)[k] < sort.length) ∧
    (∀ k, k < sort.length → sort[(argsort sort)[k]?.getD 0]?.getD 0 = k) ∧
    (∀ k (hk : k < sort.length), (argsort sort)[sort[k]]?.getD 0 = k) := by
  obtain ⟨h1, h2⟩ := argsort_spec hs
  have hlen : (argsort sort).length = sort.length := by simpa using h1.length_eq
  have hlt : ∀ k (hk : k < (argsort sort).length), (argsort sort)[k] < sort.length :=
    fun k hk => List.mem_range.mp (h1.mem_iff.mp (List.getElem_mem hk))
  have hsi : ∀ k (hk : k < sort.length), sort[(argsort sort)[k]?.getD 0]?.getD 0 = k := by
    intro k hk
    have hk' : k < (argsort sort).length := by omega
    have := congrArg (fun l => l[k]?) h2
    simp only [List.getElem?_map, List.getElem?_eq_getElem hk', Option.map_some, List.getElem?_range hk,
      Option.some.injEq] at this
    have hl := hlt k hk'
    simp only [List.getElem?_eq_getElem hk', Option.getD_some, List.getElem?_eq_getElem hl]
    simpa [hl] using this
  refine ⟨hlen, hlt, hsi, ?_⟩
  intro k hk
  have hnd : sort.Nodup := hs.nodup_iff.mpr List.nodup_range
  have hsk : sort[k] < sort.length := List.mem_range.mp (hs.mem_iff.mp (List.getElem_mem hk))
  have := hsi sort[k] hsk
  have hm : (argsort sort)[sort[k]]?.getD 0 < sort.length := by
    have hk2 : sort[k] < (argsort sort).length := by omega
    rw [List.getElem?_eq_getElem hk2]; exact hlt _ hk2
  rw [List.getElem?_eq_getElem hm] at this
  simp only [Option.getD_some] at this
  exact (List.Nodup.getElem_inj_iff hnd).mp this

end Qib.TNet

namespace Qib.TNet

/-- the record after `permute_axes(sort)` -/
def permInfo (n : NodeInfo) (sort : List Nat) : NodeInfo :=
  { n with idxout := permL n.idxout sort, trackaxes := n.trackaxes.map (fun (t : Nat) => (argsort sort)[t]?.getD 0) }

theorem permuteInfo_full {n n' : NodeInfo} {sort : List Nat} (h : permuteInfo n sort = .ok n') :
    sort.length = n.idxout.length ∧ n' = permInfo n sort := by
  unfold permuteInfo at h
  simp only [bind, Except.bind] at h
  split at h
  · simp [throw, throwThe, MonadExceptOf.throw] at h
  rename_i hlen
  split at h
  · cases h
  rename_i io hio
  split at h
  · cases h
  rename_i tr htr
  simp only [pure, Except.pure, Except.ok.injEq] at h
  subst h
  refine ⟨by simpa using hlen, ?_⟩
  rw [(pick_inv hio).1, (pick_inv htr).1]
  rfl

/-- **re-ordering the axes of a certified node keeps it certified**, and leg `k` of the new node is leg `sort[k]` of the
old one -/
theorem permuteInfo_cert {net : Net} {n cL cR n' : NodeInfo} (hc : NodeCert net n cL cR) {sort : List Nat}
    (hs : sort.Perm (List.range sort.length)) (h : permuteInfo n sort = .ok n') :
    NodeCert net n' cL cR ∧ ∀ k, k < n'.idxout.length → legB net n' k = legB net n (sort[k]?.getD 0) := by
  obtain ⟨hlen, rfl⟩ := permuteInfo_full h
  obtain ⟨ilen, ilt, isi, iis⟩ := argsort_inverse hs
  set inv := argsort sort with hinv
  set f : Nat → Nat := fun t => inv[t]?.getD 0 with hf
  set n' : NodeInfo := permInfo n sort with hn'
  have hN : n'.idxout.length = n.idxout.length := by simp [hn', permInfo, permL, hlen]
  have hpairs : pairsN net n' cL cR = pairsN net n cL cR := rfl
  have hzip : n'.openaxes.zip n'.trackaxes = (n.openaxes.zip n.trackaxes).map (fun p => (p.1, f p.2)) := by
    simp only [hn', permInfo]
    rw [List.zip_map_right]
    rfl
  have hfinj : ∀ a b, a < n.idxout.length → b < n.idxout.length → f a = f b → a = b := by
    intro a b ha hb hab
    have h1 := isi a (by omega)
    have h2 := isi b (by omega)
    simp only [hf] at hab
    rw [hab] at h1
    exact h1.symm.trans h2
  have hflt : ∀ a, a < n.idxout.length → f a < n.idxout.length := by
    intro a ha
    have ha' : a < inv.length := by omega
    simp only [hf, List.getElem?_eq_getElem ha', Option.getD_some]
    have := ilt a ha'
    omega
  have hperm_get : ∀ a, a < n.idxout.length → (permL n.idxout sort)[f a]? = n.idxout[a]? := by
    intro a ha
    have hfa := hflt a ha
    have hfs : f a < sort.length := by omega
    simp only [permL, List.getElem?_map, List.getElem?_eq_getElem hfs, Option.map_some]
    have := isi a (by omega)
    simp only [hf] at hfs
    rw [List.getElem?_eq_getElem hfs] at this
    simp only [Option.getD_some] at this
    simp only [hf]
    rw [this, List.getElem?_eq_getElem ha]
    rfl
  -- the bond on a new leg
  have hleg : ∀ oa tr, (oa, tr) ∈ n.openaxes.zip n.trackaxes →
      nodeLegBond net n' (f tr) = some (legB net n tr) := by
    intro oa tr hm
    obtain ⟨htr, _, _⟩ := hc.iN.pairs _ hm
    unfold nodeLegBond
    rw [hzip]
    cases hfind : ((n.openaxes.zip n.trackaxes).map fun p => (p.1, f p.2)).find? (fun q => q.2 == f tr) with
    | none =>
      have := List.find?_eq_none.mp hfind _ (List.mem_map.mpr ⟨(oa, tr), hm, rfl⟩)
      simp at this
    | some q =>
      have hq := List.mem_of_find?_eq_some hfind
      have hq2 : q.2 = f tr := by simpa using List.find?_some hfind
      obtain ⟨q0, hq0, rfl⟩ := List.mem_map.mp hq
      obtain ⟨hq0lt, hq0b, _⟩ := hc.iN.pairs _ hq0
      have : q0.2 = tr := hfinj _ _ hq0lt htr hq2
      simp only
      rw [hq0b, this]
  have hiN : InfoCert net n' := by
    refine ⟨by simp [hn', permInfo, hc.iN.len], hc.iN.nodup, ?_, ?_⟩
    · intro p hp
      rw [hzip] at hp
      obtain ⟨p0, hp0, rfl⟩ := List.mem_map.mp hp
      obtain ⟨h1, h2, _⟩ := hc.iN.pairs _ hp0
      have hnl := hleg p0.1 p0.2 hp0
      refine ⟨by rw [hN]; exact hflt _ h1, ?_, ?_⟩
      · simp only [legB, hnl, Option.getD_some]; exact h2
      · simp only [legB, hnl, Option.getD_some]
    · intro k hk
      rw [hN] at hk
      have hks : k < sort.length := by omega
      have hsk : sort[k] < n.idxout.length := by
        have := List.mem_range.mp (hs.mem_iff.mp (List.getElem_mem hks)); omega
      have hcov := hc.iN.cover _ hsk
      have : f sort[k] = k := by simp only [hf]; exact iis k hks
      show k ∈ n.trackaxes.map f
      rw [← this]
      exact List.mem_map.mpr ⟨_, hcov, rfl⟩
  refine ⟨⟨hc.iL, hc.iR, hiN, hc.disj, hc.lenL, hc.lenR, hc.bij, ?_, ?_, ?_, hc.opn, ?_⟩, ?_⟩
  · exact (permL_perm (by rw [← hlen]; exact hs)).nodup_iff.mpr hc.nodup
  · intro l hl
    exact hc.outIn l ((permL_perm (by rw [← hlen]; exact hs)).mem_iff.mp hl)
  · intro p hp
    rw [← hc.outIff p hp]
    exact (permL_perm (l := n.idxout) (by rw [← hlen]; exact hs)).mem_iff
  · intro p hp
    rw [hzip] at hp
    obtain ⟨p0, hp0, rfl⟩ := List.mem_map.mp hp
    obtain ⟨b, l, hb, hm, hl⟩ := hc.track _ hp0
    obtain ⟨h1, _, _⟩ := hc.iN.pairs _ hp0
    exact ⟨b, l, hb, hm, by show (permL n.idxout sort)[f p0.2]? = some l; rw [hperm_get _ h1]; exact hl⟩
  · intro k hk
    rw [hN] at hk
    have hks : k < sort.length := by omega
    have hsk : sort[k] < n.idxout.length := by
      have := List.mem_range.mp (hs.mem_iff.mp (List.getElem_mem hks)); omega
    obtain ⟨oa, hm, _⟩ := hc.iN.leg hsk
    have := hleg oa sort[k] hm
    have hfk : f sort[k] = k := by simp only [hf]; exact iis k hks
    rw [hfk] at this
    simp only [legB, this, Option.getD_some, List.getElem?_eq_getElem hks]

end Qib.TNet
