import QibProofs.Lemmas.CircuitNetReref
import QibProofs.Lemmas.GateNetCons
/-!
Helper lemmas for C05 (tensor-network part), part 3: the identity-wire network produced by `generate_bonds`
(closed form, well-formedness, value). No property statements.
-/
set_option linter.unusedSimpArgs false
namespace Qib.CircuitNet
open Qib.TNet Qib.GateNet

/-! ### `sorted(list(set(2*list(range(n)))))` -/

theorem eraseDups_sublist {γ : Type} [BEq γ] [LawfulBEq γ] (l : List γ) : l.eraseDups.Sublist l := by
  induction hn : l.length using Nat.strong_induction_on generalizing l with
  | _ n ih =>
    cases l with
    | nil => simp
    | cons a as =>
      rw [List.eraseDups_cons]
      apply List.Sublist.cons_cons
      have hlt : (as.filter fun b => !b == a).length < n := by
        rw [← hn]; exact Nat.lt_succ_of_le (List.length_filter_le _ _)
      exact (ih _ hlt _ rfl).trans List.filter_sublist

theorem irange_sorted (n : Nat) : (irange n).Pairwise (· ≤ ·) := by
  unfold irange
  rw [List.pairwise_map]
  exact (List.pairwise_lt_range).imp (fun h => by simp only [Int.ofNat_eq_natCast]; omega)

theorem sortedDedup_double (n : Nat) : sortedDedup (irange n ++ irange n) = irange n := by
  unfold sortedDedup
  have hs : (isort (irange n ++ irange n)).eraseDups.Pairwise (· ≤ ·) :=
    (isort_sorted _).sublist (eraseDups_sublist _)
  have hnd : (isort (irange n ++ irange n)).eraseDups.Nodup := nodup_eraseDups_int _
  apply eq_of_perm_sorted _ hs (irange_sorted n)
  rw [List.perm_ext_iff_of_nodup hnd (irange_nodup n)]
  intro a
  rw [List.mem_eraseDups, mem_isort, List.mem_append, or_self]

/-! ### closed form of the identity-wire network -/

/-- the virtual tensor of the identity wires -/
def wireVirt (wd : List Nat) : STensor := ⟨-1, wd ++ wd, irange wd.length ++ irange wd.length, none⟩

def wireBond (i : Nat) : Int × SBond := (Int.ofNat i, ⟨Int.ofNat i, [-1, -1]⟩)

/-- what `generate_bonds` produces on the virtual tensor with bond ids `2*list(range(n))` -/
def wireNetC (wd : List Nat) : Net := ⟨[(-1, wireVirt wd)], (List.range wd.length).map wireBond⟩

theorem filter_beq_irange2 (n i : Nat) (hi : i < n) :
    ((irange n ++ irange n).filter (· == Int.ofNat i)).map (fun _ => (-1 : Int)) = [-1, -1] := by
  have hc : (irange n ++ irange n).count (Int.ofNat i) = 2 := by
    rw [List.count_append, count_irange]
    simp only [Int.ofNat_eq_natCast]
    rw [if_pos ⟨by omega, by omega⟩]
  have : (irange n ++ irange n).filter (· == Int.ofNat i) = List.replicate 2 (Int.ofNat i) := by
    rw [List.filter_beq, hc]
  rw [this]; rfl

theorem wire_fold (wd : List Nat) (L : List Nat) (bs : List (Int × SBond))
    (hL : ∀ i ∈ L, i < wd.length) (hnd : L.Nodup) (hfresh : ∀ i ∈ L, Int.ofNat i ∉ dkeys bs) :
    (L.map Int.ofNat).foldlM (fun (net : Net) bid => do
      let tids := net.tensors.flatMap (fun (e : Int × STensor) => (e.2.bids.filter (· == bid)).map (fun _ => e.2.tid))
      addBond net (← mkBond bid tids)) (⟨[(-1, wireVirt wd)], bs⟩ : Net)
      = .ok ⟨[(-1, wireVirt wd)], bs ++ L.map wireBond⟩ := by
  induction L generalizing bs with
  | nil => simp [pure, Except.pure]
  | cons i L ih =>
    have hi : i < wd.length := hL i List.mem_cons_self
    rw [List.nodup_cons] at hnd
    simp only [List.map_cons, List.foldlM_cons]
    have htids : ([(-1, wireVirt wd)] : List (Int × STensor)).flatMap
        (fun (e : Int × STensor) => (e.2.bids.filter (· == Int.ofNat i)).map (fun _ => e.2.tid)) = [-1, -1] := by
      simp only [List.flatMap_cons, List.flatMap_nil, List.append_nil, wireVirt]
      exact filter_beq_irange2 wd.length i hi
    simp only [htids]
    have hmk : mkBond (Int.ofNat i) [-1, -1] = .ok ⟨Int.ofNat i, [-1, -1]⟩ := by
      simp [mkBond, isort, insertSorted]
    have hadd : addBond (⟨[(-1, wireVirt wd)], bs⟩ : Net) ⟨Int.ofNat i, [-1, -1]⟩ =
        .ok ⟨[(-1, wireVirt wd)], bs ++ [wireBond i]⟩ := by
      have : dhas bs (Int.ofNat i) = false := (dhas_false_iff _ _).mpr (hfresh i List.mem_cons_self)
      have this' : dhas bs (i : Int) = false := this
      simp [addBond, this', wireBond]
    simp only [hmk, bind, Except.bind, hadd]
    have := ih (bs ++ [wireBond i]) (fun j hj => hL j (List.mem_cons_of_mem _ hj)) hnd.2 (by
      intro j hj hm
      simp only [dkeys, List.map_append, List.map_cons, List.map_nil, List.mem_append, List.mem_singleton, wireBond] at hm
      rcases hm with hm | hm
      · exact hfresh j (List.mem_cons_of_mem _ hj) (by simpa [dkeys] using hm)
      · have : j = i := by simpa using hm
        subst this; exact hnd.1 hj)
    simp only [bind, Except.bind] at this
    rw [this]
    simp

theorem wireNet_eq (wd : List Nat) : wireNet wd = .ok (wireNetC wd) := by
  unfold wireNet
  have h1 : mkTensor (-1) (wd ++ wd) (irange wd.length ++ irange wd.length) none = .ok (wireVirt wd) := by
    simp [mkTensor, irange, wireVirt]
  have h2 : addTensor Net.empty (wireVirt wd) = .ok ⟨[(-1, wireVirt wd)], []⟩ := by
    simp [addTensor, Net.empty, dhas, wireVirt]
  simp only [h1, liftT, bind, Except.bind, h2]
  have h3 : generateBonds ⟨[(-1, wireVirt wd)], []⟩ = .ok (wireNetC wd) := by
    unfold generateBonds
    simp only [List.isEmpty_nil, Bool.not_true, Bool.false_eq_true, if_false, bind, Except.bind, pure, Except.pure]
    have hb : ([(-1, wireVirt wd)] : List (Int × STensor)).flatMap (fun e => e.2.bids) =
        irange wd.length ++ irange wd.length := by simp [wireVirt]
    rw [hb, sortedDedup_double]
    have := wire_fold wd (List.range wd.length) [] (fun i hi => List.mem_range.mp hi) List.nodup_range
      (fun i _ => by simp [dkeys])
    simp only [bind, Except.bind, List.nil_append] at this
    exact this
  rw [h3]

/-! ### well-formedness and value -/

theorem zip_functional (l : List Int) (s : List Nat) (hn : l.Nodup) :
    ∀ p ∈ l.zip s, ∀ q ∈ l.zip s, p.1 = q.1 → p.2 = q.2 := by
  induction l generalizing s with
  | nil => intro p hp; simp at hp
  | cons a l ih =>
    cases s with
    | nil => intro p hp; simp at hp
    | cons x s =>
      intro p hp q hq h
      simp only [List.zip_cons_cons, List.mem_cons] at hp hq
      have hna : a ∉ l := (List.nodup_cons.mp hn).1
      rcases hp with rfl | hp <;> rcases hq with rfl | hq
      · rfl
      · exact absurd (by simp only at h; rw [h]; exact (List.of_mem_zip hq).1) hna
      · exact absurd (by simp only at h; rw [← h]; exact (List.of_mem_zip hp).1) hna
      · exact ih s (List.nodup_cons.mp hn).2 p hp q hq h

theorem wireNetC_virt (wd : List Nat) : dget (wireNetC wd).tensors (-1) = some (wireVirt wd) := by
  simp [wireNetC, dget, List.lookup]

theorem wireNetC_wf (wd : List Nat) : WF (wireNetC wd) := by
  apply wf_of_tables (wireNetC wd)
    (fun t => if t = -1 then irange wd.length ++ irange wd.length else [])
    (fun b => if 0 ≤ b ∧ b < wd.length then [-1, -1] else [])
  · simp [wireNetC, dkeys]
  · simp only [wireNetC, dkeys, List.map_map]
    exact List.Nodup.map (fun a b h => by simpa [wireBond] using h) List.nodup_range
  · intro e he; simp only [wireNetC, List.mem_cons, List.not_mem_nil, or_false] at he; subst he; rfl
  · intro e he; simp only [wireNetC, List.mem_map] at he; obtain ⟨i, _, rfl⟩ := he; rfl
  · intro e he; simp only [wireNetC, List.mem_cons, List.not_mem_nil, or_false] at he; subst he
    simp [wireVirt, irange]
  · intro e he; simp only [wireNetC, List.mem_cons, List.not_mem_nil, or_false] at he; subst he; simp [wireVirt]
  · intro t ht
    simp only [wireNetC, dkeys, List.map_cons, List.map_nil, List.mem_cons, List.not_mem_nil, or_false] at ht
    simp [ht]
  · intro e he; simp only [wireNetC, List.mem_map, List.mem_range] at he; obtain ⟨i, hi, rfl⟩ := he
    have hc : (0 : Int) ≤ (i : Int) ∧ (i : Int) < wd.length := ⟨by omega, by omega⟩
    simp [wireBond, hc]
  · intro b hb
    simp only [wireNetC, dkeys, List.map_map, List.mem_map, List.mem_range, Function.comp, not_exists, not_and, wireBond] at hb
    rw [if_neg]
    rintro ⟨h0, h1⟩
    exact hb b.toNat (by omega) (by simp [Int.toNat_of_nonneg h0])
  · intro b; split <;> simp
  · intro b hb; simp only [wireNetC, dkeys, List.map_map, List.mem_map, List.mem_range, Function.comp, wireBond] at hb
    obtain ⟨i, hi, rfl⟩ := hb
    simp only [Int.ofNat_eq_natCast]
    rw [if_pos ⟨by omega, by omega⟩]; simp
  · intro t b
    by_cases ht : t = -1
    · subst ht
      rw [if_pos rfl, List.count_append, count_irange]
      by_cases hb : 0 ≤ b ∧ b < wd.length
      · rw [if_pos hb, if_pos hb]; simp
      · rw [if_neg hb, if_neg hb]; simp
    · rw [if_neg ht]
      split <;> simp [List.count_cons, ht, Ne.symm ht]
  · intro p hp q hq hpq
    simp only [legDims, wireNetC, List.flatMap_cons, List.flatMap_nil, List.append_nil, wireVirt] at hp hq
    have hz : (irange wd.length ++ irange wd.length).zip (wd ++ wd) =
        (irange wd.length).zip wd ++ (irange wd.length).zip wd :=
      List.zip_append (by simp [irange])
    rw [hz, List.mem_append, or_self] at hp hq
    exact zip_functional _ _ (irange_nodup _) p hp q hq hpq
  · simp [wireNetC, dkeys]

theorem wireNetC_inv (wd : List Nat) : C08.Inv (wireNetC wd) := (C08.C08_inv_iff_wf _).mpr (wireNetC_wf wd)

section Value
variable {α : Type} [CommSemiring α]

/-- **idle wires are identities**: the network of identity wires has the value `δ(o, i)` -/
theorem wireNetC_full (wd : List Nat) (D : Option Int → List Nat → α) (o i : List Nat)
    (ho : o.length = wd.length) (hi : i.length = wd.length) :
    full (wireNetC wd) D (o ++ i) = if o = i then 1 else 0 := by
  have hint : internalBids (wireNetC wd) (wireVirt wd) = [] := by
    apply internalBids_nil
    intro b hb
    simp only [wireNetC, dkeys, List.map_map, List.mem_map, List.mem_range, Function.comp, wireBond] at hb
    obtain ⟨k, hk, rfl⟩ := hb
    simp only [wireVirt, List.mem_append, or_self]
    exact mem_irange.mpr ⟨by simp, by simpa using hk⟩
  have hreal : realTensors (wireNetC wd) = [] := by simp [realTensors, wireNetC]
  by_cases hoi : o = i
  · subst hoi
    rw [if_pos rfl]
    have hp : pinsOK (wireVirt wd).bids (o ++ o) = true := by
      rw [GateNet.pinsOK_iff]
      refine ⟨fun b => o[b.toNat]?.getD 0, ?_⟩
      have : (irange wd.length).map (fun b => o[b.toNat]?.getD 0) = o := by
        apply List.ext_getElem
        · simp [irange, ho]
        · intro k h1 h2
          simp [irange, h2]
      simp only [wireVirt, List.map_append, this]
    rw [full_eval _ _ _ _ (wireNetC_virt wd) hp, hint, hreal]
    simp [sumOver, prodL]
  · rw [if_neg hoi]
    apply full_eq_zero _ _ _ _ (wireNetC_virt wd)
    by_contra hp
    have hp' : pinsOK (wireVirt wd).bids (o ++ i) = true := by simpa using hp
    rw [GateNet.pinsOK_iff] at hp'
    obtain ⟨τ, hτ⟩ := hp'
    simp only [wireVirt, List.map_append] at hτ
    have hl : ((irange wd.length).map τ).length = o.length := by simp [irange, ho]
    have := List.append_inj hτ hl
    exact hoi (this.1.symm.trans this.2)

end Value

end Qib.CircuitNet
