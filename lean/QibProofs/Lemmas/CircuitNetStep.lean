import QibProofs.Lemmas.CircuitNetIdx
/-!
Helper lemmas for C05 (tensor-network part), part 5: one loop iteration of `Circuit.as_tensornet` at the level of
symbolic networks – merging a gate network onto the output axes of its wires and re-transposing keeps the network
well formed with `2n` open axes of dimension 2, and its value is the sum over the gate's input index of
(circuit network with the wires' outputs overwritten) × (gate network). No property statements.
-/
set_option linter.unusedSimpArgs false
namespace Qib.CircuitNet
open Qib.TNet Qib.GateNet

theorem mem_allIdx_rep2 {k : Nat} {z : List Nat} : z ∈ allIdx (rep2 k) ↔ z.length = k ∧ Bits z := by
  rw [mem_allIdx]
  constructor
  · intro h
    have hl := h.length_eq
    simp only [rep2, List.length_replicate] at hl
    refine ⟨hl, fun x hx => ?_⟩
    obtain ⟨i, hi, rfl⟩ := List.getElem_of_mem hx
    have := (List.forall₂_iff_get.mp h).2 i hi (by simp [rep2]; omega)
    simpa [rep2] using this
  · rintro ⟨hl, hb⟩
    exact forall2_rep2' z k hl hb

theorem rep2_add (a b : Nat) : rep2 (a + b) = rep2 a ++ rep2 b := by
  unfold rep2; rw [List.replicate_add]

theorem length_rep2 (k : Nat) : (rep2 k).length = k := by simp [rep2]

theorem pickD_rep2 (k : Nat) (ax : List Nat) (h : ∀ a ∈ ax, a < k) : pickD (rep2 k) 0 ax = rep2 ax.length := by
  simp only [pickD, rep2]
  rw [List.eq_replicate_iff]
  refine ⟨by simp, ?_⟩
  intro b hb
  obtain ⟨a, ha, rfl⟩ := List.mem_map.mp hb
  simp [h a ha]

theorem keepAxes_length (N : Nat) (iw : List Nat) (hn : iw.Nodup) (hlt : ∀ w ∈ iw, w < N) :
    (keepAxes N iw).length + iw.length = N := by
  have := (keep_append_perm N iw hn hlt).length_eq
  simpa using this

section Step
variable {α : Type} [CommSemiring α]

/-- **one loop iteration, symbolically.** `a` = the circuit network so far (`N` open axes of dimension 2), `b` = the
gate network (`2m` open axes of dimension 2, outputs first), `iwire` = the wires of the gate. -/
theorem step_full {a b net' net'' : Net} {n : Nat} {iwire perm tor bor : List Int}
    (ha : C08.Inv a) (hb : C08.Inv b) (ho : C08.OrdersOK a b tor bor)
    {va vb : STensor} (hva : dget a.tensors (-1) = some va) (hvb : dget b.tensors (-1) = some vb)
    (hsa : va.shape = rep2 (2 * n)) (hsb : vb.shape = rep2 (2 * iwire.length))
    (hm : merge a b (joinOf iwire) tor bor = .ok net') (hp : permOf n iwire = .ok perm)
    (ht : transpose net' (some ((argsort (perm.map Int.toNat)).map Int.ofNat)) = .ok net'')
    (D : Option Int → List Nat → α) :
    C08.Inv net'' ∧ (∃ v'', dget net''.tensors (-1) = some v'' ∧ v''.shape = rep2 (2 * n)) ∧
    ∀ T, T.length = 2 * n → Bits T →
      full net'' D T = ((allIdx (rep2 iwire.length)).map (fun t =>
        full a D (setW T (iwire.map Int.toNat) t) * full b D (pickD T 0 (iwire.map Int.toNat) ++ t))).sum := by
  obtain ⟨hnd, hrange, hP⟩ := permOf_ok hp
  set iw := iwire.map Int.toNat with hiw
  have hiwl : iw.length = iwire.length := by simp [hiw]
  have hiwn : iw.Nodup := toNat_nodup hnd (fun x hx => (hrange x hx).1)
  have hiwlt : ∀ w ∈ iw, w < 2 * n := by
    intro w hw; obtain ⟨x, hx, rfl⟩ := List.mem_map.mp hw; exact (hrange x hx).2
  have hrem : remainingAxes (2 * n) (2 * iwire.length) (joinOf iwire) = keepAxes (2 * n) iw ++ List.range' (2 * n) iwire.length :=
    remainingAxes_joinOf (2 * n) iwire (fun x hx => (hrange x hx).2)
  have hkeep := keepAxes_length (2 * n) iw hiwn hiwlt
  -- dimensions of the joined axes
  have hdim : C08.JoinDimsMatch a b (joinOf iwire) := by
    intro va' vb' hva' hvb' ja hja
    rw [hva] at hva'; rw [hvb] at hvb'
    cases hva'; cases hvb'
    obtain ⟨q, hq, rfl⟩ := mem_joinOf.mp hja
    have h1 := (hrange _ (List.getElem_mem hq)).2
    rw [hsa, hsb]
    simp only [rep2, Int.ofNat_eq_natCast, Int.toNat_natCast]
    rw [List.getElem?_replicate, List.getElem?_replicate, if_pos h1, if_pos (by omega)]
  have hinv' : C08.Inv net' := C08.C08_merge_consistent ha hb ho hdim hm
  have hinv'' : C08.Inv net'' := C08.C08_transpose_consistent hinv' ht
  obtain ⟨v', hv', hsh', hval'⟩ := C08.C08_merge_full ha hb ho hdim hm D hva hvb
  rw [hsa, hsb] at hsh' hval'
  simp only [length_rep2] at hsh' hval'
  rw [hrem] at hsh' hval'
  -- shape after the merge
  have hsh2 : v'.shape = rep2 (2 * n) := by
    rw [hsh', ← rep2_add, pickD_rep2]
    · simp only [List.length_append, List.length_range']
      rw [← hiwl, hkeep]
    · intro p hp'
      rcases List.mem_append.mp hp' with h | h
      · have := (mem_keepAxes.mp h).1; omega
      · have := List.mem_range'_1.mp h; omega
  have hPperm : (perm.map Int.toNat).Perm (List.range (perm.map Int.toNat).length) := by
    rw [hP]
    have : (keepAxes (2 * n) iw ++ iw).length = 2 * n := by simp [hkeep]
    rw [this]
    exact keep_append_perm _ _ hiwn hiwlt
  have hPlen : (perm.map Int.toNat).length = 2 * n := by rw [hP]; simp [hkeep]
  have hPlen' : perm.length = 2 * n := by simpa using hPlen
  have hax : ((resolveAxes v'.shape.length (some ((argsort (perm.map Int.toNat)).map Int.ofNat))).map Int.toNat) =
      argsort (perm.map Int.toNat) := by
    simp only [resolveAxes, List.map_map]
    have : (Int.toNat ∘ Int.ofNat) = id := by funext k; simp
    rw [this, List.map_id]
  refine ⟨hinv'', ?_, ?_⟩
  · -- shape after the transposition
    have := C08.C08_transpose_shape hinv' ht hv'
    rw [hax, hsh2] at this
    unfold netShape virt at this
    cases hv'' : dget net''.tensors (-1) with
    | none => rw [hv''] at this; cases this
    | some v'' =>
      rw [hv''] at this
      simp only [bind, Except.bind, pure, Except.pure, Except.ok.injEq] at this
      refine ⟨v'', rfl, ?_⟩
      rw [this, pickD_rep2]
      · rw [(argsort_inverse hPperm).1, hPlen]
      · intro p hp'
        obtain ⟨i, hi, rfl⟩ := List.getElem_of_mem hp'
        have := (argsort_inverse hPperm).2.1 i hi
        omega
  · intro T hTl hTb
    -- un-transpose
    have hj : (pickD T 0 (perm.map Int.toNat)).length = v'.shape.length := by
      simp [pickD, hsh2, rep2, hPlen']
    have htr := C08.C08_transpose_full hinv' ht D hv' (pickD T 0 (perm.map Int.toNat)) hj
    rw [hax, pickD_argsort hPperm (by rw [hTl, hPlen])] at htr
    rw [htr]
    -- the merged value
    have hidx : pickD T 0 (perm.map Int.toNat) ∈ allIdx v'.shape := by
      rw [hsh2, mem_allIdx_rep2]
      exact ⟨by simp [pickD, hPlen'], bits_pickD hTb _⟩
    rw [hval' _ hidx, hP]
    have e2 : rep2 (2 * iwire.length) = rep2 iwire.length ++ rep2 iwire.length := by rw [← rep2_add]; congr 1; omega
    rw [e2, allIdx_append]
    -- collapse the double sum
    have hterm : ∀ x ∈ allIdx (rep2 (2 * n)),
        (((allIdx (rep2 iwire.length)).flatMap fun y1 => (allIdx (rep2 iwire.length)).map fun t => y1 ++ t).map fun y =>
          if (pickD (x ++ y) 0 (keepAxes (2 * n) iw ++ List.range' (2 * n) iwire.length) == pickD T 0 (keepAxes (2 * n) iw ++ iw) &&
              joinsAgree (joinOf iwire) x y) = true then full a D x * full b D y else 0).sum =
        ((allIdx (rep2 iwire.length)).map fun t => if setW T iw t = x then full a D x * full b D (pickD T 0 iw ++ t) else 0).sum := by
      intro x hx
      have hxl : x.length = 2 * n := (mem_allIdx_rep2.mp hx).1
      rw [sum_flatMap_map, sum_swap]
      apply congrArg
      apply List.map_congr_left
      intro t ht'
      have htl : t.length = iwire.length := (mem_allIdx_rep2.mp ht').1
      have hY0 : pickD T 0 iw ∈ allIdx (rep2 iwire.length) := by
        rw [mem_allIdx_rep2]; exact ⟨by simp [pickD, hiwl], bits_pickD hTb _⟩
      have hcond : ∀ y1 ∈ allIdx (rep2 iwire.length),
          (if (pickD (x ++ (y1 ++ t)) 0 (keepAxes (2 * n) iw ++ List.range' (2 * n) iwire.length) ==
              pickD T 0 (keepAxes (2 * n) iw ++ iw) && joinsAgree (joinOf iwire) x (y1 ++ t)) = true
            then full a D x * full b D (y1 ++ t) else 0) =
          if pickD T 0 iw = y1 then (if setW T iw t = x then full a D x * full b D (y1 ++ t) else 0) else 0 := by
        intro y1 hy1
        have hy1l : y1.length = iwire.length := (mem_allIdx_rep2.mp hy1).1
        have hiff := survive_iff (2 * n) iwire.length iw hiwl hiwn hiwlt T x y1 t hTl hxl hy1l htl
        have hc : ((pickD (x ++ (y1 ++ t)) 0 (keepAxes (2 * n) iw ++ List.range' (2 * n) iwire.length) ==
              pickD T 0 (keepAxes (2 * n) iw ++ iw) && joinsAgree (joinOf iwire) x (y1 ++ t)) = true) ↔
            (x = setW T iw t ∧ y1 = pickD T 0 iw) := by
          rw [Bool.and_eq_true, beq_iff_eq, joinsAgree_joinOf, ← hiw]
          exact hiff
        by_cases hc' : x = setW T iw t ∧ y1 = pickD T 0 iw
        · rw [if_pos (hc.mpr hc'), if_pos hc'.2.symm, if_pos hc'.1.symm]
        · rw [if_neg (fun h => hc' (hc.mp h))]
          by_cases h1 : pickD T 0 iw = y1
          · rw [if_pos h1, if_neg (fun h2 => hc' ⟨h2.symm, h1.symm⟩)]
          · rw [if_neg h1]
      rw [List.map_congr_left hcond, sum_delta_nodup _ (nodup_allIdx _), if_pos hY0]
    rw [List.map_congr_left hterm, sum_swap]
    apply congrArg
    apply List.map_congr_left
    intro t ht'
    have hX : setW T iw t ∈ allIdx (rep2 (2 * n)) := by
      rw [mem_allIdx_rep2]
      exact ⟨by rw [setW_length, hTl], bits_setW hTb (mem_allIdx_rep2.mp ht').2⟩
    rw [sum_delta_nodup _ (nodup_allIdx _) (setW T iw t)
      (fun x => full a D x * full b D (pickD T 0 iw ++ t)), if_pos hX]

end Step

end Qib.CircuitNet
