import QibProofs.Lemmas.TNetSurgeryOps
/-!
Helper lemmas for C08, part 4: the stages of `merge` (`mergeTensors`, `mergeBonds`, dictionary union, the two
renaming loops, the join loop, the deletion loop) preserve well-formedness (no property statements).
-/
namespace Qib.TNet

/-! ### `mergeTensors` -/

def mrgTBonds (T2 : STensor) (tid1 tid2 : Int) (bonds : List (Int × SBond)) : List (Int × SBond) :=
  bonds.map (fun e => if T2.bids.contains e.1 then (e.1, { e.2 with tids := isort (replaceAll tid2 tid1 e.2.tids) }) else e)

/-- the fused tensor -/
def catTensor (T1 T2 : STensor) : STensor := { T1 with shape := T1.shape ++ T2.shape, bids := T1.bids ++ T2.bids }

theorem mergeTensors_eq (net : Net) (tid1 tid2 : Int) : mergeTensors net tid1 tid2 =
    if tid1 == tid2 then .ok net else
    match dget net.tensors tid1 with
    | none => .error .keyError
    | some _ =>
      match dget net.tensors tid2 with
      | none => .error .keyError
      | some T2 =>
        if !(T2.bids.all (dhas net.bonds)) then .error .keyError else
        .ok ⟨dmodify (dpop net.tensors tid2) tid1 (fun t => catTensor t T2), mrgTBonds T2 tid1 tid2 net.bonds⟩ := by
  unfold mergeTensors mrgTBonds catTensor
  cases (tid1 == tid2) <;> try rfl
  cases dget net.tensors tid1 with
  | none => rfl
  | some T1 =>
    cases dget net.tensors tid2 with
    | none => rfl
    | some T2 => cases T2.bids.all (dhas net.bonds) <;> rfl

theorem mrgTBonds_eq_relBonds {net : Net} (h : WF0 net) {tid1 tid2 : Int} {T2 : STensor}
    (hT : dget net.tensors tid2 = some T2) : mrgTBonds T2 tid1 tid2 net.bonds = relBonds (rep tid2 tid1) net.bonds := by
  unfold mrgTBonds relBonds
  apply List.map_congr_left
  intro e he
  by_cases hc : T2.bids.contains e.1 = true
  · simp only [hc, if_true]; rfl
  · simp only [hc, Bool.false_eq_true, if_false]
    have hb : e.1 ∉ T2.bids := by simpa using hc
    have hnot := h.notMem_tids_of_notMem_bids hT he hb
    have h1 : e.2.tids.map (rep tid2 tid1) = e.2.tids := by
      rw [← replaceAll_eq_map]; exact replaceAll_of_notMem _ _ _ hnot
    rw [h1, isort_eq_self (h.bsorted e he)]

theorem mergeTensors_spec {net net' : Net} {tid1 tid2 : Int} (h : WF0 net) (hne : tid1 ≠ tid2)
    (hok : mergeTensors net tid1 tid2 = .ok net') :
    ∃ T1 T2, dget net.tensors tid1 = some T1 ∧ dget net.tensors tid2 = some T2 ∧
      net' = ⟨dmodify (dpop net.tensors tid2) tid1 (fun t => catTensor t T2), relBonds (rep tid2 tid1) net.bonds⟩ := by
  rw [mergeTensors_eq] at hok
  have hb : (tid1 == tid2) = false := by simpa using hne
  simp only [hb, Bool.false_eq_true, if_false] at hok
  cases h1 : dget net.tensors tid1 with
  | none => rw [h1] at hok; cases hok
  | some T1 =>
    cases h2 : dget net.tensors tid2 with
    | none => rw [h1, h2] at hok; cases hok
    | some T2 =>
      rw [h1, h2] at hok
      simp only at hok
      split at hok
      · cases hok
      · refine ⟨T1, T2, rfl, rfl, ?_⟩
        rw [← mrgTBonds_eq_relBonds h h2]
        exact (Except.ok.inj hok).symm

theorem mergeTensors_wf0 {net net' : Net} {tid1 tid2 : Int} (h : WF0 net) (hne : tid1 ≠ tid2)
    (hok : mergeTensors net tid1 tid2 = .ok net') : WF0 net' := by
  obtain ⟨T1, T2, h1, h2, rfl⟩ := mergeTensors_spec h hne hok
  have hm1 := mem_of_dget_eq_some _ h1
  have hm2 := mem_of_dget_eq_some _ h2
  have hp2 := perm_cons_dpop net.tensors h.tnodup h2
  have h1' : dget (dpop net.tensors tid2) tid1 = some T1 := by rw [dget_dpop_ne _ hne]; exact h1
  have hn2 := nodup_dkeys_dpop h.tnodup tid2
  have hp1 := perm_cons_dpop (dpop net.tensors tid2) hn2 h1'
  have hpm := perm_dmodify (dpop net.tensors tid2) hn2 (fun t => catTensor t T2) h1'
  -- abbreviations
  generalize hrest : dpop (dpop net.tensors tid2) tid1 = rest at hp1 hpm
  have hall : net.tensors.Perm ((tid2, T2) :: (tid1, T1) :: rest) := hp2.trans (hp1.cons _)
  have hnd : (dkeys ((tid2, T2) :: (tid1, T1) :: rest)).Nodup := (perm_dkeys hall).nodup_iff.mp h.tnodup
  simp only [dkeys_cons, List.nodup_cons, List.mem_cons, not_or] at hnd
  have hrest_mem : ∀ e ∈ rest, e ∈ net.tensors := fun e he =>
    hall.mem_iff.mpr (List.mem_cons_of_mem _ (List.mem_cons_of_mem _ he))
  refine WF0.perm hpm.symm (List.Perm.refl _) ?_
  apply wf0_of_relT (ts := net.tensors) (rep tid2 tid1) h
  · simp only [dkeys_cons, List.nodup_cons]
    exact ⟨hnd.2.1, hnd.2.2⟩
  · intro e he
    rcases List.mem_cons.mp he with rfl | he
    · exact h.tkey (tid1, T1) hm1
    · exact h.tkey e (hrest_mem e he)
  · intro e he
    rcases List.mem_cons.mp he with rfl | he
    · simp only [catTensor, List.length_append]
      rw [h.tshape (tid1, T1) hm1, h.tshape (tid2, T2) hm2]
    · exact h.tshape e (hrest_mem e he)
  · have ha : (tLegs ⟨net.tensors, net.bonds⟩).Perm (tLegs ⟨(tid2, T2) :: (tid1, T1) :: rest, net.bonds⟩) :=
      tLegs_perm hall
    refine List.Perm.trans ?_ (ha.map _).symm
    rw [tLegs_cons, tLegs_cons, tLegs_cons, List.map_append, List.map_append,
      tLegs_map_relT_of_notMem tid2 tid1 _ _ hnd.1.2, List.map_map, List.map_map]
    have e2 : (relT (rep tid2 tid1) ∘ fun b => (tid2, b)) = fun b => (tid1, b) := by
      funext b; simp [relT, rep_self]
    have e1 : (relT (rep tid2 tid1) ∘ fun b => (tid1, b)) = fun b => (tid1, b) := by
      funext b; simp [relT, rep_of_ne hne]
    rw [e1, e2]
    simp only [catTensor, List.map_append]
    rw [← List.append_assoc]
    exact List.Perm.append_right _ List.perm_append_comm
  · have ha : (legDims ⟨net.tensors, net.bonds⟩).Perm (legDims ⟨(tid2, T2) :: (tid1, T1) :: rest, net.bonds⟩) :=
      legDims_perm hall
    refine List.Perm.trans ?_ ha.symm
    rw [legDims_cons, legDims_cons, legDims_cons]
    simp only [catTensor]
    rw [List.zip_append (by rw [h.tshape (tid1, T1) hm1])]
    rw [← List.append_assoc]
    exact List.Perm.append_right _ List.perm_append_comm

/-! ### `mergeBonds` -/

def mrgBTensors (B2 : SBond) (bid1 bid2 : Int) (ts : List (Int × STensor)) : List (Int × STensor) :=
  ts.map (fun e => if B2.tids.contains e.1 then (e.1, { e.2 with bids := replaceAll bid2 bid1 e.2.bids }) else e)

/-- the fused bond -/
def catBond (B1 B2 : SBond) : SBond := { B1 with tids := isort (B1.tids ++ B2.tids) }

theorem mergeBonds_eq (net : Net) (bid1 bid2 : Int) : mergeBonds net bid1 bid2 =
    if bid1 == bid2 then .ok net else
    match dget net.bonds bid1 with
    | none => .error .keyError
    | some _ =>
      match dget net.bonds bid2 with
      | none => .error .keyError
      | some B2 =>
        if !(B2.tids.all (dhas net.tensors)) then .error .keyError else
        .ok ⟨mrgBTensors B2 bid1 bid2 net.tensors, dmodify (dpop net.bonds bid2) bid1 (fun b => catBond b B2)⟩ := by
  unfold mergeBonds mrgBTensors catBond
  cases (bid1 == bid2) <;> try rfl
  cases dget net.bonds bid1 with
  | none => rfl
  | some B1 =>
    cases dget net.bonds bid2 with
    | none => rfl
    | some B2 => cases B2.tids.all (dhas net.tensors) <;> rfl

theorem mrgBTensors_eq_relTensors {net : Net} (h : WF0 net) {bid1 bid2 : Int} {B2 : SBond}
    (hB : dget net.bonds bid2 = some B2) :
    mrgBTensors B2 bid1 bid2 net.tensors = relTensors (rep bid2 bid1) net.tensors := by
  unfold mrgBTensors relTensors
  apply List.map_congr_left
  intro e he
  by_cases hc : B2.tids.contains e.1 = true
  · simp only [hc, if_true]; rfl
  · simp only [hc, Bool.false_eq_true, if_false]
    have hb : e.1 ∉ B2.tids := by simpa using hc
    have hnot := h.notMem_bids_of_notMem_tids hB he hb
    have h1 : e.2.bids.map (rep bid2 bid1) = e.2.bids := by
      rw [← replaceAll_eq_map]; exact replaceAll_of_notMem _ _ _ hnot
    rw [h1]

theorem mergeBonds_spec {net net' : Net} {bid1 bid2 : Int} (h : WF0 net) (hne : bid1 ≠ bid2)
    (hok : mergeBonds net bid1 bid2 = .ok net') :
    ∃ B1 B2, dget net.bonds bid1 = some B1 ∧ dget net.bonds bid2 = some B2 ∧
      net' = ⟨relTensors (rep bid2 bid1) net.tensors, dmodify (dpop net.bonds bid2) bid1 (fun b => catBond b B2)⟩ := by
  rw [mergeBonds_eq] at hok
  have hb : (bid1 == bid2) = false := by simpa using hne
  simp only [hb, Bool.false_eq_true, if_false] at hok
  cases h1 : dget net.bonds bid1 with
  | none => rw [h1] at hok; cases hok
  | some B1 =>
    cases h2 : dget net.bonds bid2 with
    | none => rw [h1, h2] at hok; cases hok
    | some B2 =>
      rw [h1, h2] at hok
      simp only at hok
      split at hok
      · cases hok
      · refine ⟨B1, B2, rfl, rfl, ?_⟩
        rw [← mrgBTensors_eq_relTensors h h2]
        exact (Except.ok.inj hok).symm

theorem mergeBonds_ok_of {net : Net} {bid1 bid2 : Int} (h : WF0 net) (h1 : bid1 ∈ dkeys net.bonds)
    (h2 : bid2 ∈ dkeys net.bonds) : ∃ net', mergeBonds net bid1 bid2 = .ok net' := by
  rw [mergeBonds_eq]
  by_cases hb : (bid1 == bid2) = true
  · simp only [hb, if_true]; exact ⟨_, rfl⟩
  · simp only [hb, Bool.false_eq_true, if_false]
    obtain ⟨B1, hB1⟩ := Option.isSome_iff_exists.mp ((dget_isSome_iff _ _).mpr h1)
    obtain ⟨B2, hB2⟩ := Option.isSome_iff_exists.mp ((dget_isSome_iff _ _).mpr h2)
    have hm := mem_of_dget_eq_some _ hB2
    have h4 : B2.tids.all (dhas net.tensors) = true := by
      rw [List.all_eq_true]; intro t ht
      exact (dhas_iff _ _).mpr (h.mem_tensor_keys hm ht)
    simp only [hB1, hB2, h4, Bool.not_true, Bool.false_eq_true, if_false]
    exact ⟨_, rfl⟩

theorem mergeBonds_wf0 {net net' : Net} {bid1 bid2 : Int} (h : WF0 net) (hne : bid1 ≠ bid2)
    (hdim : ∀ p ∈ legDims net, ∀ q ∈ legDims net, p.1 = bid1 → q.1 = bid2 → p.2 = q.2)
    (hok : mergeBonds net bid1 bid2 = .ok net') : WF0 net' := by
  obtain ⟨B1, B2, h1, h2, rfl⟩ := mergeBonds_spec h hne hok
  have hm1 := mem_of_dget_eq_some _ h1
  have hm2 := mem_of_dget_eq_some _ h2
  have hp2 := perm_cons_dpop net.bonds h.bnodup h2
  have h1' : dget (dpop net.bonds bid2) bid1 = some B1 := by rw [dget_dpop_ne _ hne]; exact h1
  have hn2 := nodup_dkeys_dpop h.bnodup bid2
  have hp1 := perm_cons_dpop (dpop net.bonds bid2) hn2 h1'
  have hpm := perm_dmodify (dpop net.bonds bid2) hn2 (fun b => catBond b B2) h1'
  generalize hrest : dpop (dpop net.bonds bid2) bid1 = rest at hp1 hpm
  have hall : net.bonds.Perm ((bid2, B2) :: (bid1, B1) :: rest) := hp2.trans (hp1.cons _)
  have hnd : (dkeys ((bid2, B2) :: (bid1, B1) :: rest)).Nodup := (perm_dkeys hall).nodup_iff.mp h.bnodup
  simp only [dkeys_cons, List.nodup_cons, List.mem_cons, not_or] at hnd
  have hrest_mem : ∀ e ∈ rest, e ∈ net.bonds := fun e he =>
    hall.mem_iff.mpr (List.mem_cons_of_mem _ (List.mem_cons_of_mem _ he))
  refine WF0.perm (List.Perm.refl _) hpm.symm ?_
  apply wf0_of_relB (bs := net.bonds) (rep bid2 bid1) h
  · simp only [dkeys_cons, List.nodup_cons]
    exact ⟨hnd.2.1, hnd.2.2⟩
  · intro e he
    rcases List.mem_cons.mp he with rfl | he
    · exact h.bkey (bid1, B1) hm1
    · exact h.bkey e (hrest_mem e he)
  · intro e he
    rcases List.mem_cons.mp he with rfl | he
    · exact isort_sorted _
    · exact h.bsorted e (hrest_mem e he)
  · intro e he
    rcases List.mem_cons.mp he with rfl | he
    · simp only [catBond, length_isort, List.length_append]
      have := h.blen (bid1, B1) hm1
      simp only at this
      omega
    · exact h.blen e (hrest_mem e he)
  · have ha : (bLegs ⟨net.tensors, net.bonds⟩).Perm (bLegs ⟨net.tensors, (bid2, B2) :: (bid1, B1) :: rest⟩) :=
      bLegs_perm hall
    refine List.Perm.trans ?_ (ha.map _).symm
    rw [bLegs_cons, bLegs_cons, bLegs_cons, List.map_append, List.map_append,
      bLegs_map_relB_of_notMem bid2 bid1 _ _ hnd.1.2, List.map_map, List.map_map]
    have e2 : (relB (rep bid2 bid1) ∘ fun t => (t, bid2)) = fun t => (t, bid1) := by
      funext b; simp [relB, rep_self]
    have e1 : (relB (rep bid2 bid1) ∘ fun t => (t, bid1)) = fun t => (t, bid1) := by
      funext b; simp [relB, rep_of_ne hne]
    rw [e1, e2]
    simp only [catBond]
    refine (List.Perm.append_right _ ((isort_perm _).map _)).trans ?_
    rw [List.map_append, ← List.append_assoc]
    exact List.Perm.append_right _ List.perm_append_comm
  · intro p hp q hq hpq
    by_cases hp2' : p.1 = bid2 <;> by_cases hq2 : q.1 = bid2
    · exact h.dims p hp q hq (hp2'.trans hq2.symm)
    · rw [hp2', rep_self, rep_of_ne hq2] at hpq
      exact (hdim q hq p hp hpq.symm hp2').symm
    · rw [hq2, rep_self, rep_of_ne hp2'] at hpq
      exact hdim p hp q hq hpq hq2
    · rw [rep_of_ne hp2', rep_of_ne hq2] at hpq
      exact h.dims p hp q hq hpq

/-! ### dictionary union with disjoint keys, `maxKey` -/
section Union
variable {β : Type}

theorem dset_of_notMem (d : List (Int × β)) (k : Int) (v : β) (h : k ∉ dkeys d) : dset d k v = d ++ [(k, v)] := by
  unfold dset
  rw [(dhas_false_iff d k).mpr h]
  rfl

theorem dupdate_eq_append (d o : List (Int × β)) (hn : (dkeys o).Nodup) (hd : ∀ k ∈ dkeys o, k ∉ dkeys d) :
    dupdate d o = d ++ o := by
  induction o generalizing d with
  | nil => simp [dupdate]
  | cons e es ih =>
    simp only [dkeys_cons, List.nodup_cons, List.mem_cons, forall_eq_or_imp] at hn hd
    have h1 : dupdate d (e :: es) = dupdate (dset d e.1 e.2) es := rfl
    rw [h1, dset_of_notMem d e.1 e.2 hd.1, ih _ hn.2]
    · simp
    · intro k hk
      simp only [dkeys_append, dkeys_cons, dkeys_nil, List.mem_append, List.mem_singleton, not_or]
      exact ⟨hd.2 k hk, fun e' => hn.1 (e' ▸ hk)⟩

end Union

theorem init_le_foldl_max (l : List Int) (init : Int) : init ≤ l.foldl max init := by
  induction l generalizing init with
  | nil => exact le_refl _
  | cons y ys ih => exact le_trans (le_max_left _ _) (ih (max init y))

theorem le_foldl_max (l : List Int) (init x : Int) (h : x = init ∨ x ∈ l) : x ≤ l.foldl max init := by
  induction l generalizing init with
  | nil =>
    rcases h with rfl | h
    · exact le_refl _
    · simp at h
  | cons y ys ih =>
    simp only [List.foldl_cons]
    rcases h with rfl | h
    · exact le_trans (le_max_left _ _) (init_le_foldl_max ys _)
    · rcases List.mem_cons.mp h with rfl | h
      · exact le_trans (le_max_right _ _) (init_le_foldl_max ys _)
      · exact ih _ (Or.inr h)

theorem le_maxKey {l : List Int} {x : Int} (h : x ∈ l) : x ≤ maxKey l := by
  cases l with
  | nil => simp at h
  | cons y ys =>
    simp only [maxKey]
    exact le_foldl_max ys y x (by simpa using h)

theorem tLegs_append (ts ts' : List (Int × STensor)) (bs : List (Int × SBond)) :
    tLegs ⟨ts ++ ts', bs⟩ = tLegs ⟨ts, bs⟩ ++ tLegs ⟨ts', bs⟩ := by simp [tLegs]

theorem bLegs_append (ts : List (Int × STensor)) (bs bs' : List (Int × SBond)) :
    bLegs ⟨ts, bs ++ bs'⟩ = bLegs ⟨ts, bs⟩ ++ bLegs ⟨ts, bs'⟩ := by simp [bLegs]

theorem legDims_append (ts ts' : List (Int × STensor)) (bs : List (Int × SBond)) :
    legDims ⟨ts ++ ts', bs⟩ = legDims ⟨ts, bs⟩ ++ legDims ⟨ts', bs⟩ := by simp [legDims]

/-- the disjoint union of two well-formed networks is well-formed -/
theorem union_wf0 {a b : Net} (ha : WF0 a) (hb : WF0 b) (ht : ∀ k ∈ dkeys b.tensors, k ∉ dkeys a.tensors)
    (hbd : ∀ k ∈ dkeys b.bonds, k ∉ dkeys a.bonds) : WF0 ⟨a.tensors ++ b.tensors, a.bonds ++ b.bonds⟩ where
  tnodup := by
    rw [dkeys_append]
    exact List.Nodup.append ha.tnodup hb.tnodup (fun k h1 h2 => ht k h2 h1)
  bnodup := by
    rw [dkeys_append]
    exact List.Nodup.append ha.bnodup hb.bnodup (fun k h1 h2 => hbd k h2 h1)
  tkey := fun e he => (List.mem_append.mp he).elim (ha.tkey e) (hb.tkey e)
  bkey := fun e he => (List.mem_append.mp he).elim (ha.bkey e) (hb.bkey e)
  tshape := fun e he => (List.mem_append.mp he).elim (ha.tshape e) (hb.tshape e)
  bsorted := fun e he => (List.mem_append.mp he).elim (ha.bsorted e) (hb.bsorted e)
  blen := fun e he => (List.mem_append.mp he).elim (ha.blen e) (hb.blen e)
  legs := by
    rw [tLegs_append, bLegs_append]
    exact List.Perm.append ha.legs hb.legs
  dims := by
    intro p hp q hq hpq
    rw [legDims_append] at hp hq
    rcases List.mem_append.mp hp with hp | hp <;> rcases List.mem_append.mp hq with hq | hq
    · exact ha.dims p hp q hq hpq
    · exact absurd (ha.legDims_key hp) (by rw [hpq]; exact hbd _ (hb.legDims_key hq))
    · exact absurd (ha.legDims_key hq) (by rw [← hpq]; exact hbd _ (hb.legDims_key hp))
    · exact hb.dims p hp q hq hpq

/-! ### the two renaming loops of `merge` -/

/-- loop body: rename a shared tensor id of the copy to the next fresh id; remember where the virtual tensor went -/
def renTStep (st : Net × Int × Int) (tid : Int) : Except Err (Net × Int × Int) := do
  let o ← renameTensor st.1 tid st.2.2
  pure (o, (if tid == -1 then st.2.2 else st.2.1), st.2.2 + 1)

/-- loop body: rename a shared bond id of the copy to the next fresh id -/
def renBStep (st : Net × Int) (bid : Int) : Except Err (Net × Int) := do
  let o ← renameBond st.1 bid st.2
  pure (o, st.2 + 1)

theorem foldlM_cons_ok {σ α : Type} (f : σ → α → Except Err σ) (s s' : σ) (x : α) (xs : List α)
    (h : (x :: xs).foldlM f s = .ok s') : ∃ s1, f s x = .ok s1 ∧ xs.foldlM f s1 = .ok s' := by
  rw [List.foldlM_cons] at h
  cases hs : f s x with
  | error e => rw [hs] at h; cases h
  | ok s1 => rw [hs] at h; exact ⟨s1, rfl, h⟩

theorem foldlM_nil_ok {σ α : Type} (f : σ → α → Except Err σ) (s s' : σ)
    (h : ([] : List α).foldlM f s = .ok s') : s' = s := by
  simp only [List.foldlM_nil, pure, Except.pure] at h
  exact (Except.ok.inj h).symm

theorem renTStep_ok {st st' : Net × Int × Int} {tid : Int} (h : renTStep st tid = .ok st') :
    renameTensor st.1 tid st.2.2 = .ok st'.1 ∧ st'.2.1 = (if tid == -1 then st.2.2 else st.2.1) ∧
      st'.2.2 = st.2.2 + 1 := by
  unfold renTStep at h
  cases ho : renameTensor st.1 tid st.2.2 with
  | error e => rw [ho] at h; cases h
  | ok o =>
    rw [ho] at h
    have := Except.ok.inj h
    subst this
    exact ⟨rfl, rfl, rfl⟩

theorem renBStep_ok {st st' : Net × Int} {bid : Int} (h : renBStep st bid = .ok st') :
    renameBond st.1 bid st.2 = .ok st'.1 ∧ st'.2 = st.2 + 1 := by
  unfold renBStep at h
  cases ho : renameBond st.1 bid st.2 with
  | error e => rw [ho] at h; cases h
  | ok o =>
    rw [ho] at h
    have := Except.ok.inj h
    subst this
    exact ⟨rfl, rfl⟩

theorem renT_fold {tor : List Int} {st st' : Net × Int × Int} (h : WF0 st.1)
    (hf : tor.foldlM renTStep st = .ok st') :
    WF0 st'.1 ∧ st'.2.2 = st.2.2 + tor.length ∧ dkeys st'.1.bonds = dkeys st.1.bonds ∧
    st'.1.tensors.length = st.1.tensors.length ∧
    (∀ k ∈ dkeys st'.1.tensors, (k ∈ dkeys st.1.tensors ∧ k ∉ tor) ∨ (st.2.2 ≤ k ∧ k < st.2.2 + tor.length)) ∧
    ((st'.2.1 = st.2.1 ∧ (-1 : Int) ∉ tor) ∨ (st.2.2 ≤ st'.2.1 ∧ st'.2.1 < st.2.2 + tor.length ∧ (-1 : Int) ∈ tor)) := by
  induction tor generalizing st with
  | nil =>
    have := foldlM_nil_ok _ _ _ hf
    subst this
    exact ⟨h, by simp, rfl, rfl, fun k hk => Or.inl ⟨hk, by simp⟩, Or.inl ⟨rfl, by simp⟩⟩
  | cons t ts ih =>
    obtain ⟨s1, hs, hrest⟩ := foldlM_cons_ok _ _ _ _ _ hf
    obtain ⟨hren, htmp, hnxt⟩ := renTStep_ok hs
    have hw1 := renameTensor_wf0 h hren
    obtain ⟨T, hT, hnew, heq⟩ := renameTensor_spec h hren
    obtain ⟨i1, i2, i3, i4, i5, i6⟩ := ih hw1 hrest
    refine ⟨i1, ?_, ?_, ?_, ?_, ?_⟩
    · rw [i2, hnxt]; simp only [List.length_cons]; push_cast; omega
    · rw [i3, heq]; exact dkeys_relBonds _ _
    · rw [i4, heq]
      simp only [List.length_append, List.length_cons, List.length_nil]
      have := length_dpop_of_nodup st.1.tensors h.tnodup (mem_dkeys_of_mem (mem_of_dget_eq_some _ hT))
      omega
    · intro k hk
      simp only [List.length_cons]; push_cast
      rcases i5 k hk with ⟨hk1, hk2⟩ | ⟨hk1, hk2⟩
      · rw [heq] at hk1
        simp only [dkeys_append, dkeys_cons, dkeys_nil, List.mem_append, List.mem_singleton] at hk1
        rcases hk1 with hk1 | hk1
        · rw [dkeys_dpop] at hk1
          have := List.mem_filter.mp hk1
          left
          refine ⟨this.1, ?_⟩
          simp only [List.mem_cons, not_or]
          exact ⟨by simpa using this.2, hk2⟩
        · right; rw [hk1]; omega
      · right; rw [hnxt] at hk1 hk2; omega
    · simp only [List.length_cons, List.mem_cons]; push_cast
      rcases i6 with ⟨j1, j2⟩ | ⟨j1, j2, j3⟩
      · rw [htmp] at j1
        by_cases ht : t = -1
        · right
          have : (t == -1) = true := by simpa using ht
          rw [this] at j1; simp only [if_true] at j1
          rw [j1]; exact ⟨le_refl _, by omega, Or.inl ht.symm⟩
        · left
          have : (t == -1) = false := by simpa using ht
          rw [this] at j1; simp only [Bool.false_eq_true, if_false] at j1
          exact ⟨j1, by simp only [not_or]; exact ⟨fun e => ht e.symm, j2⟩⟩
      · right; rw [hnxt] at j1 j2; exact ⟨by omega, by omega, Or.inr j3⟩

theorem renB_fold {bor : List Int} {st st' : Net × Int} (h : WF0 st.1)
    (hf : bor.foldlM renBStep st = .ok st') :
    WF0 st'.1 ∧ st'.2 = st.2 + bor.length ∧ dkeys st'.1.tensors = dkeys st.1.tensors ∧
    st'.1.bonds.length = st.1.bonds.length ∧
    (∀ k ∈ dkeys st'.1.bonds, (k ∈ dkeys st.1.bonds ∧ k ∉ bor) ∨ (st.2 ≤ k ∧ k < st.2 + bor.length)) := by
  induction bor generalizing st with
  | nil =>
    have := foldlM_nil_ok _ _ _ hf
    subst this
    exact ⟨h, by simp, rfl, rfl, fun k hk => Or.inl ⟨hk, by simp⟩⟩
  | cons t ts ih =>
    obtain ⟨s1, hs, hrest⟩ := foldlM_cons_ok _ _ _ _ _ hf
    obtain ⟨hren, hnxt⟩ := renBStep_ok hs
    have hw1 := renameBond_wf0 h hren
    obtain ⟨B, hB, hnew, heq⟩ := renameBond_spec h hren
    obtain ⟨i1, i2, i3, i4, i5⟩ := ih hw1 hrest
    refine ⟨i1, ?_, ?_, ?_, ?_⟩
    · rw [i2, hnxt]; simp only [List.length_cons]; push_cast; omega
    · rw [i3, heq]; exact dkeys_relTensors _ _
    · rw [i4, heq]
      simp only [List.length_append, List.length_cons, List.length_nil]
      have := length_dpop_of_nodup st.1.bonds h.bnodup (mem_dkeys_of_mem (mem_of_dget_eq_some _ hB))
      omega
    · intro k hk
      simp only [List.length_cons]; push_cast
      rcases i5 k hk with ⟨hk1, hk2⟩ | ⟨hk1, hk2⟩
      · rw [heq] at hk1
        simp only [dkeys_append, dkeys_cons, dkeys_nil, List.mem_append, List.mem_singleton] at hk1
        rcases hk1 with hk1 | hk1
        · rw [dkeys_dpop] at hk1
          have := List.mem_filter.mp hk1
          left
          refine ⟨this.1, ?_⟩
          simp only [List.mem_cons, not_or]
          exact ⟨by simpa using this.2, hk2⟩
        · right; rw [hk1]; omega
      · right; rw [hnxt] at hk1 hk2; omega

/-! ### the join loop -/

theorem joinStep_ok {orig : Nat} {st st' : Net × List Nat} {ja : Nat × Nat} (h : joinStep orig st ja = .ok st') :
    ∃ toa b1 b2, dget st.1.tensors (-1) = some toa ∧ toa.bids[ja.1]? = some b1 ∧ toa.bids[orig + ja.2]? = some b2 ∧
      mergeBonds st.1 b1 b2 = .ok st'.1 ∧ st'.2 = (st.2.erase ja.1).erase (orig + ja.2) := by
  unfold joinStep at h
  cases h1 : dget st.1.tensors (-1) with
  | none => rw [h1] at h; cases h
  | some toa =>
    rw [h1] at h
    simp only at h
    cases h2 : toa.bids[ja.1]? with
    | none => rw [h2] at h; cases h
    | some b1 =>
      rw [h2] at h
      simp only at h
      cases h3 : toa.bids[orig + ja.2]? with
      | none => rw [h3] at h; cases h
      | some b2 =>
        rw [h3] at h
        simp only at h
        cases h4 : mergeBonds st.1 b1 b2 with
        | error e => rw [h4] at h; cases h
        | ok net =>
          rw [h4] at h
          have := Except.ok.inj h
          subst this
          exact ⟨toa, b1, b2, rfl, h2, h3, h4, rfl⟩

/-- the state of the join loop: a consistent network whose virtual tensor has the (unchanging) shape `S` -/
def JInv (S : List Nat) (net : Net) : Prop := WF net ∧ ∃ v, dget net.tensors (-1) = some v ∧ v.shape = S

theorem dget_relTensors (ρ : Int → Int) (ts : List (Int × STensor)) (k : Int) :
    dget (relTensors ρ ts) k = (dget ts k).map (fun T => { T with bids := T.bids.map ρ }) := by
  induction ts with
  | nil => rfl
  | cons e es ih =>
    obtain ⟨e1, e2⟩ := e
    simp only [relTensors, List.map_cons, dget, List.lookup]
    cases (k == e1)
    · exact ih
    · rfl

theorem joinStep_inv {S : List Nat} {orig : Nat} {st st' : Net × List Nat} {ja : Nat × Nat} (h : JInv S st.1)
    (hdim : S[ja.1]? = S[orig + ja.2]?) (hok : joinStep orig st ja = .ok st') : JInv S st'.1 := by
  obtain ⟨toa, b1, b2, hv, h1, h2, hm, _⟩ := joinStep_ok hok
  obtain ⟨hw, v, hv', hS⟩ := h
  rw [hv] at hv'; cases hv'
  by_cases hb : b1 = b2
  · subst hb
    rw [mergeBonds_eq] at hm
    simp only [beq_self_eq_true, if_true] at hm
    rw [← Except.ok.inj hm]
    exact ⟨hw, toa, hv, hS⟩
  · have hmem := mem_of_dget_eq_some _ hv
    have hd1 := hw.toWF0.shape_eq_bondDim hmem h1
    have hd2 := hw.toWF0.shape_eq_bondDim hmem h2
    simp only at hd1 hd2
    rw [hS] at hd1 hd2
    have hdd : bondDim st.1 b1 = bondDim st.1 b2 := by
      rw [hd1, hd2] at hdim; exact Option.some.inj hdim
    have hw0 : WF0 st'.1 := by
      apply mergeBonds_wf0 hw.toWF0 hb _ hm
      intro p hp q hq hp1 hq2
      have e1 := hw.dims p hp (b1, bondDim st.1 b1) (mem_legDims hmem h1 (by rw [hS]; exact hd1)) hp1
      have e2 := hw.dims q hq (b2, bondDim st.1 b2) (mem_legDims hmem h2 (by rw [hS]; exact hd2)) hq2
      simp only at e1 e2
      rw [e1, e2, hdd]
    obtain ⟨B1, B2, _, _, heq⟩ := mergeBonds_spec hw.toWF0 hb hm
    refine ⟨⟨hw0, ?_⟩, { toa with bids := toa.bids.map (rep b2 b1) }, ?_, hS⟩
    · rw [heq]; show (-1 : Int) ∈ dkeys (relTensors _ _)
      rw [dkeys_relTensors]; exact hw.virt
    · rw [heq]; show dget (relTensors _ _) (-1) = _
      rw [dget_relTensors, hv]; rfl

theorem join_fold_inv {S : List Nat} {orig : Nat} {joinN : List (Nat × Nat)} {st st' : Net × List Nat}
    (h : JInv S st.1) (hdim : ∀ ja ∈ joinN, S[ja.1]? = S[orig + ja.2]?)
    (hf : joinN.foldlM (joinStep orig) st = .ok st') :
    JInv S st'.1 ∧ st'.2 = joinN.foldl (fun am ja => (am.erase ja.1).erase (orig + ja.2)) st.2 ∧
      (∀ ja ∈ joinN, ja.1 < S.length ∧ orig + ja.2 < S.length) := by
  induction joinN generalizing st with
  | nil =>
    have := foldlM_nil_ok _ _ _ hf
    subst this
    exact ⟨h, rfl, by simp⟩
  | cons ja js ih =>
    obtain ⟨s1, hs, hrest⟩ := foldlM_cons_ok _ _ _ _ _ hf
    have h1 := joinStep_inv h (hdim ja List.mem_cons_self) hs
    obtain ⟨i1, i2, i3⟩ := ih h1 (fun x hx => hdim x (List.mem_cons_of_mem _ hx)) hrest
    obtain ⟨toa, b1, b2, hv, hb1, hb2, _, ham⟩ := joinStep_ok hs
    refine ⟨i1, by rw [i2, ham]; rfl, ?_⟩
    intro x hx
    rcases List.mem_cons.mp hx with rfl | hx
    · obtain ⟨hw, v, hv', hS⟩ := h
      rw [hv] at hv'; cases hv'
      have hl := hw.tshape _ (mem_of_dget_eq_some _ hv)
      simp only at hl
      rw [← hS, hl]
      constructor
      · by_contra hc; rw [List.getElem?_eq_none (by omega)] at hb1; cases hb1
      · by_contra hc; rw [List.getElem?_eq_none (by omega)] at hb2; cases hb2
    · exact i3 x hx

theorem join_fold_counts {S : List Nat} {orig : Nat} {joinN : List (Nat × Nat)} {st st' : Net × List Nat}
    (h : JInv S st.1) (hdim : ∀ ja ∈ joinN, S[ja.1]? = S[orig + ja.2]?)
    (hf : joinN.foldlM (joinStep orig) st = .ok st') :
    st'.1.tensors.length = st.1.tensors.length ∧ st'.1.bonds.length ≤ st.1.bonds.length ∧
      st.1.bonds.length ≤ st'.1.bonds.length + joinN.length := by
  induction joinN generalizing st with
  | nil =>
    have := foldlM_nil_ok _ _ _ hf
    subst this
    exact ⟨rfl, le_refl _, by simp⟩
  | cons ja js ih =>
    obtain ⟨s1, hs, hrest⟩ := foldlM_cons_ok _ _ _ _ _ hf
    have h1 := joinStep_inv h (hdim ja List.mem_cons_self) hs
    obtain ⟨i1, i2, i3⟩ := ih h1 (fun x hx => hdim x (List.mem_cons_of_mem _ hx)) hrest
    obtain ⟨toa, b1, b2, hv, hb1, hb2, hm, _⟩ := joinStep_ok hs
    have hstep : s1.1.tensors.length = st.1.tensors.length ∧ s1.1.bonds.length ≤ st.1.bonds.length ∧
        st.1.bonds.length ≤ s1.1.bonds.length + 1 := by
      by_cases hb : b1 = b2
      · subst hb
        rw [mergeBonds_eq] at hm
        simp only [beq_self_eq_true, if_true] at hm
        rw [← Except.ok.inj hm]
        exact ⟨rfl, le_refl _, by omega⟩
      · obtain ⟨B1, B2, _, hB2, heq⟩ := mergeBonds_spec h.1.toWF0 hb hm
        rw [heq]
        have := length_dpop_of_nodup _ h.1.bnodup (mem_dkeys_of_mem (mem_of_dget_eq_some _ hB2))
        simp only [relTensors, dmodify, List.length_map]
        simp only at this
        refine ⟨trivial, ?_, ?_⟩ <;> omega
    simp only [List.length_cons]
    omega


/-! ### the deletion loop -/

/-- erase `n` occurrences of `x` -/
def eraseN (x : Int) : Nat → List Int → List Int
  | 0, l => l
  | n + 1, l => eraseN x n (l.erase x)

theorem eraseN_sublist (x : Int) (n : Nat) (l : List Int) : (eraseN x n l).Sublist l := by
  induction n generalizing l with
  | zero => exact List.Sublist.refl _
  | succ n ih => exact (ih _).trans List.erase_sublist

theorem count_eraseN_self (x : Int) (n : Nat) (l : List Int) : (eraseN x n l).count x = l.count x - n := by
  induction n generalizing l with
  | zero => rfl
  | succ n ih => rw [eraseN, ih, List.count_erase_self]; omega

theorem count_eraseN_of_ne {x y : Int} (h : y ≠ x) (n : Nat) (l : List Int) : (eraseN x n l).count y = l.count y := by
  induction n generalizing l with
  | zero => rfl
  | succ n ih => rw [eraseN, ih, List.count_erase_of_ne h]

/-- how many of the deleted axes `D` sit on bond `b` -/
def hits (bids : List Int) (D : List Nat) (b : Int) : Nat := D.countP (fun d => bids[d]?.getD 0 == b)

theorem delStep_ok {net net' : Net} {d : Nat} (h : delStep net d = .ok net') :
    ∃ toa bid B, dget net.tensors (-1) = some toa ∧ toa.bids[d]? = some bid ∧ dget net.bonds bid = some B ∧
      2 ≤ (B.tids.erase (-1)).length ∧
      net' = { net with bonds := dmodify net.bonds bid (fun b => { b with tids := B.tids.erase (-1) }) } := by
  unfold delStep at h
  cases h1 : dget net.tensors (-1) with
  | none => rw [h1] at h; cases h
  | some toa =>
    rw [h1] at h
    simp only at h
    cases h2 : toa.bids[d]? with
    | none => rw [h2] at h; cases h
    | some bid =>
      rw [h2] at h
      simp only at h
      cases h3 : dget net.bonds bid with
      | none => rw [h3] at h; cases h
      | some B =>
        rw [h3] at h
        simp only at h
        by_cases hl : (B.tids.erase (-1)).length < 2
        · simp only [hl, if_true] at h; cases h
        · simp only [hl, if_false] at h
          exact ⟨toa, bid, B, rfl, h2, h3, by omega, (Except.ok.inj h).symm⟩

/-- one deletion step as a map over the bonds -/
theorem delStep_bonds {net net' : Net} {d : Nat} {toa : STensor} (hn : (dkeys net.bonds).Nodup)
    (hv : dget net.tensors (-1) = some toa) (h : delStep net d = .ok net') :
    d < toa.bids.length ∧ net'.tensors = net.tensors ∧
    net'.bonds = net.bonds.map (fun e => if e.1 == toa.bids[d]?.getD 0 then (e.1, { e.2 with tids := e.2.tids.erase (-1) }) else e) ∧
    (∀ e ∈ net'.bonds, e.1 = toa.bids[d]?.getD 0 → 2 ≤ e.2.tids.length) := by
  obtain ⟨toa', bid, B, hv', hb, hB, hlen, rfl⟩ := delStep_ok h
  rw [hv] at hv'; cases hv'
  have hd : d < toa.bids.length := by
    by_contra hc; rw [List.getElem?_eq_none (by omega)] at hb; cases hb
  have hbid : toa.bids[d]?.getD 0 = bid := by rw [hb]; rfl
  have hmap : dmodify net.bonds bid (fun b => { b with tids := B.tids.erase (-1) }) =
      net.bonds.map (fun e => if e.1 == bid then (e.1, { e.2 with tids := e.2.tids.erase (-1) }) else e) := by
    unfold dmodify
    apply List.map_congr_left
    intro e he
    by_cases hk : e.1 = bid
    · have : e.2 = B := by
        have := dget_of_mem hn he
        rw [hk, hB] at this; exact (Option.some.inj this).symm
      simp [hk, this]
    · have : (e.1 == bid) = false := by simpa using hk
      simp [this]
  refine ⟨hd, rfl, ?_, ?_⟩
  · rw [hbid]; exact hmap
  · intro e he hk
    rw [hbid] at hk
    simp only at he
    rw [hmap] at he
    obtain ⟨e0, he0, rfl⟩ := List.mem_map.mp he
    by_cases hk0 : e0.1 = bid
    · have : e0.2 = B := by
        have := dget_of_mem hn he0
        rw [hk0, hB] at this; exact (Option.some.inj this).symm
      simp only [hk0, beq_self_eq_true, if_true, this]
      exact hlen
    · have hb0 : (e0.1 == bid) = false := by simpa using hk0
      simp only [hb0, Bool.false_eq_true, if_false] at hk
      exact absurd hk hk0

theorem del_fold {D : List Nat} {net net' : Net} {toa : STensor} (hn : (dkeys net.bonds).Nodup)
    (hv : dget net.tensors (-1) = some toa) (hlen : ∀ e ∈ net.bonds, 2 ≤ e.2.tids.length)
    (hf : D.foldlM delStep net = .ok net') :
    (∀ d ∈ D, d < toa.bids.length) ∧ net'.tensors = net.tensors ∧
    net'.bonds = net.bonds.map (fun e => (e.1, { e.2 with tids := eraseN (-1) (hits toa.bids D e.1) e.2.tids })) ∧
    (∀ e ∈ net'.bonds, 2 ≤ e.2.tids.length) := by
  induction D generalizing net with
  | nil =>
    have := foldlM_nil_ok _ _ _ hf
    rw [this]
    refine ⟨by simp, rfl, ?_, hlen⟩
    conv_lhs => rw [← List.map_id net.bonds]
    apply List.map_congr_left
    intro e _
    simp [hits, eraseN]
  | cons d ds ih =>
    obtain ⟨n1, hs, hrest⟩ := foldlM_cons_ok _ _ _ _ _ hf
    obtain ⟨hd, ht, hb, hl⟩ := delStep_bonds hn hv hs
    have hk1 : dkeys n1.bonds = dkeys net.bonds := by
      rw [hb]; simp only [dkeys, List.map_map]
      apply List.map_congr_left
      intro e _
      simp only [Function.comp]
      split <;> rfl
    have hlen1 : ∀ e ∈ n1.bonds, 2 ≤ e.2.tids.length := by
      intro e he
      by_cases hk : e.1 = toa.bids[d]?.getD 0
      · exact hl e he hk
      · rw [hb] at he
        obtain ⟨e0, he0, rfl⟩ := List.mem_map.mp he
        by_cases hk0 : (e0.1 == toa.bids[d]?.getD 0) = true
        · simp only [hk0, if_true] at hk
          exact absurd (by simpa using hk0) hk
        · simp only [hk0, Bool.false_eq_true, if_false]
          exact hlen e0 he0
    obtain ⟨i1, i2, i3, i4⟩ := ih (by rw [hk1]; exact hn) (by rw [ht]; exact hv) hlen1 hrest
    refine ⟨?_, by rw [i2, ht], ?_, i4⟩
    · intro x hx
      rcases List.mem_cons.mp hx with rfl | hx
      · exact hd
      · exact i1 x hx
    · rw [i3, hb, List.map_map]
      apply List.map_congr_left
      intro e _
      simp only [Function.comp, hits, List.countP_cons]
      by_cases hk0 : (e.1 == toa.bids[d]?.getD 0) = true
      · have hk0' : (toa.bids[d]?.getD 0 == e.1) = true := by
          rw [beq_iff_eq] at hk0 ⊢; exact hk0.symm
        simp only [hk0, if_true, hk0']
        rfl
      · have hk0' : (toa.bids[d]?.getD 0 == e.1) = false := by
          have : ¬ (e.1 = toa.bids[d]?.getD 0) := by simpa using hk0
          simpa using (fun h => this h.symm)
        simp only [hk0, Bool.false_eq_true, if_false, hk0']
        rfl

/-! ### removing the joined open axes -/
section Dict2
variable {β : Type}

theorem dget_dmodify (d : List (Int × β)) (k k' : Int) (f : β → β) :
    dget (dmodify d k f) k' = (dget d k').map (fun v => if k' == k then f v else v) := by
  induction d with
  | nil => rfl
  | cons e es ih =>
    obtain ⟨e1, e2⟩ := e
    simp only [dmodify, List.map_cons] at ih ⊢
    by_cases h1 : e1 = k
    · subst h1
      simp only [beq_self_eq_true, if_true, dget, List.lookup]
      by_cases h2 : k' = e1
      · subst h2; simp
      · have : (k' == e1) = false := by simpa using h2
        simp only [this] at ih ⊢; exact ih
    · have hb : (e1 == k) = false := by simpa using h1
      simp only [hb, Bool.false_eq_true, if_false, dget, List.lookup]
      by_cases h2 : k' = e1
      · subst h2
        have : (k' == k) = false := hb
        simp [this]
      · have : (k' == e1) = false := by simpa using h2
        simp only [this]; exact ih

theorem dget_map_val (d : List (Int × β)) (g : Int × β → β) (k : Int) :
    dget (d.map (fun e => (e.1, g e))) k = (dget d k).map (fun v => g (k, v)) := by
  induction d with
  | nil => rfl
  | cons e es ih =>
    obtain ⟨e1, e2⟩ := e
    simp only [List.map_cons, dget, List.lookup]
    by_cases h2 : k = e1
    · subst h2; simp
    · have : (k == e1) = false := by simpa using h2
      simp only [this]; exact ih

end Dict2

theorem count_pickD (l : List Int) (K : List Nat) (b : Int) :
    (pickD l 0 K).count b = K.countP (fun a => l[a]?.getD 0 == b) := by
  unfold pickD
  rw [List.count, List.countP_map]
  rfl

theorem kept_add_hits (l : List Int) (D : List Nat) (hD : D.Nodup) (hlt : ∀ d ∈ D, d < l.length) (b : Int) :
    (pickD l 0 ((List.range l.length).filter (fun a => !D.contains a))).count b + hits l D b = l.count b := by
  have h1 : l.count b = (List.range l.length).countP (fun a => l[a]?.getD 0 == b) := by
    rw [← count_pickD, pickD_range]
  have h2 := (List.filter_append_perm (fun a => !D.contains a) (List.range l.length)).countP_eq
    (fun a => l[a]?.getD 0 == b)
  rw [List.countP_append] at h2
  have h3 : ((List.range l.length).filter (fun a => !(!D.contains a))).Perm D := by
    apply (List.perm_ext_iff_of_nodup (List.nodup_range.filter _) hD).mpr
    intro a
    simp only [List.mem_filter, List.mem_range, Bool.not_not, List.contains_iff_mem]
    exact ⟨fun h => h.2, fun h => ⟨hlt a h, h⟩⟩
  rw [h1, ← h2, count_pickD, h3.countP_eq]
  rfl

theorem restrict_wf {net : Net} {toa : STensor} {D : List Nat} (h : WF net) (hv : dget net.tensors (-1) = some toa)
    (hD : D.Nodup) (hlt : ∀ d ∈ D, d < toa.bids.length) (bonds' : List (Int × SBond))
    (hb : bonds' = net.bonds.map (fun e => (e.1, { e.2 with tids := eraseN (-1) (hits toa.bids D e.1) e.2.tids })))
    (hlen : ∀ e ∈ bonds', 2 ≤ e.2.tids.length) (K : List Nat)
    (hK : K = (List.range toa.bids.length).filter (fun a => !D.contains a)) :
    WF ⟨dmodify net.tensors (-1) (fun t => { t with shape := pickD toa.shape 0 K, bids := pickD toa.bids 0 K }), bonds'⟩ := by
  have hmv := mem_of_dget_eq_some _ hv
  have hsh := h.tshape _ hmv
  simp only at hsh
  have hKlt : ∀ a ∈ K, a < toa.bids.length := by
    intro a ha; rw [hK] at ha; exact List.mem_range.mp (List.mem_filter.mp ha).1
  have hkb : dkeys bonds' = dkeys net.bonds := by
    rw [hb]; simp [dkeys, Function.comp_def]
  have htn : (dkeys (dmodify net.tensors (-1) (fun t => { t with shape := pickD toa.shape 0 K, bids := pickD toa.bids 0 K }))).Nodup := by
    rw [dkeys_dmodify]; exact h.tnodup
  have hbn : (dkeys bonds').Nodup := by rw [hkb]; exact h.bnodup
  refine { tnodup := htn, bnodup := hbn, tkey := ?_, bkey := ?_, tshape := ?_, bsorted := ?_, blen := hlen,
           legs := ?_, dims := ?_, virt := by rw [dkeys_dmodify]; exact h.virt }
  · intro e he
    obtain ⟨e0, he0, rfl⟩ := List.mem_map.mp he
    split
    · exact h.tkey e0 he0
    · exact h.tkey e0 he0
  · intro e he
    rw [hb] at he
    obtain ⟨e0, he0, rfl⟩ := List.mem_map.mp he
    exact h.bkey e0 he0
  · intro e he
    obtain ⟨e0, he0, rfl⟩ := List.mem_map.mp he
    split
    · simp [pickD]
    · exact h.tshape e0 he0
  · intro e he
    rw [hb] at he
    obtain ⟨e0, he0, rfl⟩ := List.mem_map.mp he
    exact (h.bsorted e0 he0).sublist (eraseN_sublist _ _ _)
  · rw [List.perm_iff_count]
    rintro ⟨t, b⟩
    rw [count_tLegs _ htn, count_bLegs _ hbn]
    simp only
    rw [dget_dmodify, hb, dget_map_val]
    cases hT : dget net.tensors t with
    | none =>
      cases hB : dget net.bonds b with
      | none => rfl
      | some B =>
        simp only [Option.map_none, Option.map_some]
        have ht : t ∉ B.tids := fun hm => by
          obtain ⟨T, hT'⟩ := h.toWF0.tensor_of_ref hB hm
          rw [hT] at hT'; cases hT'
        symm
        rw [List.count_eq_zero]
        exact fun hm => ht ((eraseN_sublist _ _ _).subset hm)
    | some T =>
      cases hB : dget net.bonds b with
      | none =>
        simp only [Option.map_none, Option.map_some]
        have hnb : b ∉ T.bids := fun hm => by
          obtain ⟨B, hB'⟩ := h.toWF0.bond_of_leg hT hm
          rw [hB] at hB'; cases hB'
        by_cases ht : t = -1
        · subst ht
          rw [hv] at hT; cases hT
          simp only [beq_self_eq_true, if_true]
          rw [List.count_eq_zero]
          intro hm
          obtain ⟨a, ha, rfl⟩ := List.mem_map.mp hm
          apply hnb
          have ha' := hKlt a ha
          rw [List.getElem?_eq_getElem ha']
          exact List.getElem_mem _
        · have : (t == -1) = false := by simpa using ht
          simp only [this, Bool.false_eq_true, if_false]
          exact List.count_eq_zero.mpr hnb
      | some B =>
        simp only [Option.map_some]
        have hm := h.toWF0.mult hT hB
        by_cases ht : t = -1
        · subst ht
          rw [hv] at hT; cases hT
          simp only [beq_self_eq_true, if_true]
          rw [count_eraseN_self, hm, hK]
          have := kept_add_hits toa.bids D hD hlt b
          omega
        · have : (t == -1) = false := by simpa using ht
          simp only [this, Bool.false_eq_true, if_false]
          rw [count_eraseN_of_ne ht, hm]
  · have hsub : ∀ p ∈ legDims ⟨dmodify net.tensors (-1) (fun t => { t with shape := pickD toa.shape 0 K, bids := pickD toa.bids 0 K }), bonds'⟩,
        p ∈ legDims net := by
      intro p hp
      obtain ⟨e, he, ax, hb1, hs1⟩ := mem_legDims_iff.mp hp
      obtain ⟨e0, he0, rfl⟩ := List.mem_map.mp he
      by_cases hk : (e0.1 == -1) = true
      · simp only [hk, if_true] at hb1 hs1
        have he0' : e0 = (-1, toa) := by
          have := dget_of_mem h.tnodup he0
          rw [show e0.1 = -1 by simpa using hk, hv] at this
          exact Prod.ext (by simpa using hk) (Option.some.inj this).symm
        simp only [pickD, List.getElem?_map] at hb1 hs1
        cases hka : K[ax]? with
        | none => rw [hka] at hb1; cases hb1
        | some a =>
          rw [hka] at hb1 hs1
          have ha := hKlt a (List.mem_of_getElem? hka)
          simp only [Option.map_some, Option.some.injEq] at hb1 hs1
          refine mem_legDims hmv (ax := a) ?_ ?_
          · rw [List.getElem?_eq_getElem ha] at hb1 ⊢; simpa using hb1
          · have ha' : a < toa.shape.length := by omega
            rw [List.getElem?_eq_getElem ha'] at hs1 ⊢; simpa using hs1
      · simp only [hk, Bool.false_eq_true, if_false] at hb1 hs1
        exact mem_legDims he0 hb1 hs1
    intro p hp q hq hpq
    exact h.dims p (hsub p hp) q (hsub q hq) hpq

/-! ### the stages of a successful `merge` -/

theorem forIn_unit_ok {α : Type} (l : List α) (f : α → PUnit → Except Err (ForInStep PUnit))
    (hf : ∀ x r, f x PUnit.unit = .ok r → r = .yield PUnit.unit)
    (h : forIn l PUnit.unit f = .ok PUnit.unit) : ∀ x ∈ l, f x PUnit.unit = .ok (.yield PUnit.unit) := by
  induction l with
  | nil => simp
  | cons y ys ih =>
    rw [List.forIn_cons] at h
    cases hy : f y PUnit.unit with
    | error e => rw [hy] at h; cases h
    | ok r =>
      have := hf y r hy
      subst this
      rw [hy] at h
      intro x hx
      rcases List.mem_cons.mp hx with rfl | hx
      · exact hy
      · exact ih h x hx

theorem pick_forall₂ {γ : Type} (l : List γ) (d : γ) (f : Nat → Except Err γ)
    (hf : ∀ a y, f a = .ok y → l[a]? = some y) {ax : List Nat} {r : List γ}
    (h : List.Forall₂ (fun x y => f x = .ok y) ax r) : r = pickD l d ax ∧ ∀ a ∈ ax, a < l.length := by
  induction h with
  | nil => exact ⟨rfl, by simp⟩
  | @cons x y xs ys hxy _ ih =>
    have := hf x y hxy
    have hlt : x < l.length := by
      by_contra hc; rw [List.getElem?_eq_none (by omega)] at this; cases this
    refine ⟨?_, ?_⟩
    · simp only [pickD, List.map_cons]
      rw [this, ih.1]; rfl
    · intro a ha
      rcases List.mem_cons.mp ha with rfl | ha
      · exact hlt
      · exact ih.2 a ha

/-- the join list as natural numbers -/
def joinNat (j : List (Int × Int)) : List (Nat × Nat) := j.map (fun ja => (ja.1.toNat, ja.2.toNat))

/-- the axes to delete: both ends of every join, each once -/
def delAxesOf (orig : Nat) (joinN : List (Nat × Nat)) : List Nat := (joinN.flatMap (fun ja => [ja.1, orig + ja.2])).eraseDups

/-- every stage of a successful `merge` -/
theorem merge_ok_inv {a b : Net} {j : List (Int × Int)} {tor bor : List Int} {net' : Net}
    (h : merge a b j tor bor = .ok net') :
    ∃ (orig nb : Nat) (o1 : Net) (tmpOpen n1 : Int) (o2 : Net) (n2 : Int) (m1 : Net) (toa1 : STensor) (m2 : Net)
      (axesMap : List Nat) (m3 : Net) (toa3 : STensor),
      numOpenAxes a = .ok orig ∧ (j ≠ [] → numOpenAxes b = .ok nb) ∧
      (∀ ja ∈ j, 0 ≤ ja.1 ∧ ja.1 < orig ∧ 0 ≤ ja.2 ∧ ja.2 < nb) ∧
      tor.foldlM renTStep (b, -1, maxKey (dkeys a.tensors ++ dkeys b.tensors) + 1) = .ok (o1, tmpOpen, n1) ∧
      bor.foldlM renBStep (o1, maxKey (dkeys a.bonds ++ dkeys o1.bonds) + 1) = .ok (o2, n2) ∧
      mergeTensors ⟨dupdate a.tensors o2.tensors, dupdate a.bonds o2.bonds⟩ (-1) tmpOpen = .ok m1 ∧
      dget m1.tensors (-1) = some toa1 ∧
      (joinNat j).foldlM (joinStep orig) (m1, List.range toa1.shape.length) = .ok (m2, axesMap) ∧
      (delAxesOf orig (joinNat j)).foldlM delStep m2 = .ok m3 ∧
      dget m3.tensors (-1) = some toa3 ∧ (∀ x ∈ axesMap, x < toa3.shape.length ∧ x < toa3.bids.length) ∧
      net' = ⟨dmodify m3.tensors (-1) (fun t => { t with shape := pickD toa3.shape 0 axesMap, bids := pickD toa3.bids 0 axesMap }),
              m3.bonds⟩ := by
  unfold merge at h
  simp only [bind, Except.bind] at h
  split at h
  · cases h
  · rename_i u hloop
    split at h
    · cases h
    · rename_i orig horig
      split at h
      · cases h
      · rename_i x1 hf1
        obtain ⟨o1, tmpOpen, n1⟩ := x1
        simp only at h
        split at h
        · cases h
        · rename_i x2 hf2
          obtain ⟨o2, n2⟩ := x2
          simp only at h
          split at h
          · cases h
          · rename_i m1 hm1
            split at h
            · rename_i toa1 htoa1
              split at h
              · cases h
              · rename_i x3 hf3
                obtain ⟨m2, axesMap⟩ := x3
                split at h
                · cases h
                · rename_i m3 hf4
                  split at h
                  · rename_i toa3 htoa3
                    split at h
                    · cases h
                    · rename_i shape hshape
                      split at h
                      · cases h
                      · rename_i bids hbids
                        have hs := pick_forall₂ toa3.shape 0 _ (by
                          intro x y hy; split at hy
                          · rename_i d hd; rw [hd]; exact congrArg some (Except.ok.inj hy)
                          · cases hy) (mapM_ok_inv hshape)
                        have hb := pick_forall₂ toa3.bids 0 _ (by
                          intro x y hy; split at hy
                          · rename_i d hd; rw [hd]; exact congrArg some (Except.ok.inj hy)
                          · cases hy) (mapM_ok_inv hbids)
                        have hnet : net' = ⟨dmodify m3.tensors (-1) (fun t => { t with shape := pickD toa3.shape 0 axesMap, bids := pickD toa3.bids 0 axesMap }), m3.bonds⟩ := by
                          rw [← hs.1, ← hb.1]; exact (Except.ok.inj h).symm
                        have hrange : ∀ nb, numOpenAxes b = .ok nb → ∀ ja ∈ j, 0 ≤ ja.1 ∧ ja.1 < orig ∧ 0 ≤ ja.2 ∧ ja.2 < nb := by
                          intro nb hnb ja hja
                          have := forIn_unit_ok j _ (by
                            intro x r hr
                            rw [horig, hnb] at hr
                            simp only at hr
                            split at hr
                            · cases hr
                            · split at hr
                              · cases hr
                              · exact (Except.ok.inj hr).symm) hloop ja hja
                          rw [horig, hnb] at this
                          simp only at this
                          split at this
                          · cases this
                          · rename_i h1
                            split at this
                            · cases this
                            · rename_i h2
                              simp only [Bool.or_eq_true, decide_eq_true_eq, not_or, not_lt, ge_iff_le, not_le] at h1 h2
                              exact ⟨h1.1, h1.2, h2.1, h2.2⟩
                        cases hnb : numOpenAxes b with
                        | ok nb =>
                          exact ⟨orig, nb, o1, tmpOpen, n1, o2, n2, m1, toa1, m2, axesMap, m3, toa3, horig, fun _ => rfl,
                            hrange nb hnb, hf1, hf2, hm1, htoa1, hf3, hf4, htoa3,
                            fun x hx => ⟨hs.2 x hx, hb.2 x hx⟩, hnet⟩
                        | error e =>
                          have hj : j = [] := by
                            cases j with
                            | nil => rfl
                            | cons ja js =>
                              exfalso
                              rw [List.forIn_cons, horig, hnb] at hloop
                              simp only at hloop
                              split at hloop <;> cases hloop
                          subst hj
                          exact ⟨orig, 0, o1, tmpOpen, n1, o2, n2, m1, toa1, m2, axesMap, m3, toa3, horig, fun hne => absurd rfl hne,
                            by simp, hf1, hf2, hm1, htoa1, hf3, hf4, htoa3,
                            fun x hx => ⟨hs.2 x hx, hb.2 x hx⟩, hnet⟩
                  · cases h
            · cases h

end Qib.TNet
