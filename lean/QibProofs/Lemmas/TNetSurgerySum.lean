import QibProofs.Lemmas.TNetSurgeryFull
/-!
Helper lemmas for C08, part 8: more about `sumOver` – linearity, in-range congruence, pulling out conditions,
collapsing a sum against an indicator (no property statements).
-/
namespace Qib.TNet
variable {α : Type} [CommSemiring α] {L : Type} [DecidableEq L]

theorem sumOver_zero (dim : L → Nat) (ls : List L) (σ : L → Nat) : sumOver dim ls (fun _ => (0 : α)) σ = 0 := by
  induction ls generalizing σ with
  | nil => rfl
  | cons l ls ih =>
    simp only [sumOver_cons, ih]
    simp

theorem sumOver_add (dim : L → Nat) (ls : List L) (f g : (L → Nat) → α) (σ : L → Nat) :
    sumOver dim ls (fun τ => f τ + g τ) σ = sumOver dim ls f σ + sumOver dim ls g σ := by
  induction ls generalizing σ with
  | nil => rfl
  | cons l ls ih =>
    simp only [sumOver_cons, ih]
    exact List.sum_map_add

/-- a finite outer sum commutes with `sumOver` -/
theorem sumOver_list_sum {Z : Type} (dim : L → Nat) (ls : List L) (zs : List Z) (g : Z → (L → Nat) → α) (σ : L → Nat) :
    sumOver dim ls (fun τ => (zs.map (fun z => g z τ)).sum) σ = (zs.map (fun z => sumOver dim ls (g z) σ)).sum := by
  induction zs with
  | nil => simp [sumOver_zero]
  | cons z zs ih =>
    simp only [List.map_cons, List.sum_cons]
    rw [sumOver_add, ih]

/-- inside the sum the summed labels are in range and the other labels untouched -/
theorem sumOver_congr_inrange (dim : L → Nat) (ls : List L) (f g : (L → Nat) → α) (σ : L → Nat)
    (h : ∀ τ, (∀ l ∈ ls, τ l < dim l) → (∀ x, x ∉ ls → τ x = σ x) → f τ = g τ) :
    sumOver dim ls f σ = sumOver dim ls g σ := by
  induction ls generalizing σ with
  | nil => exact h σ (by simp) (fun _ _ => rfl)
  | cons l ls ih =>
    simp only [sumOver_cons]
    congr 1
    apply List.map_congr_left
    intro v hv
    have hv' : v < dim l := List.mem_range.mp hv
    apply ih
    intro τ h1 h2
    apply h τ
    · intro x hx
      rcases List.mem_cons.mp hx with rfl | hx
      · by_cases hm : x ∈ ls
        · exact h1 x hm
        · rw [h2 x hm, upd_same]; exact hv'
      · exact h1 x hx
    · intro x hx
      simp only [List.mem_cons, not_or] at hx
      rw [h2 x hx.2, upd_other _ hx.1]

/-- a condition that does not look at the summed labels can be pulled out -/
theorem sumOver_ite_indep (dim : L → Nat) (ls : List L) (c : (L → Nat) → Bool) (f : (L → Nat) → α) (σ : L → Nat)
    (hc : ∀ τ, (∀ x, x ∉ ls → τ x = σ x) → c τ = c σ) :
    sumOver dim ls (fun τ => if c τ then f τ else 0) σ = if c σ then sumOver dim ls f σ else 0 := by
  by_cases h : c σ = true
  · rw [if_pos h]
    apply sumOver_congr_inrange
    intro τ _ h2
    rw [hc τ h2, if_pos h]
  · rw [if_neg h]
    have : sumOver dim ls (fun τ => if c τ then f τ else 0) σ = sumOver dim ls (fun _ => (0 : α)) σ := by
      apply sumOver_congr_inrange
      intro τ _ h2
      rw [hc τ h2, if_neg h]
    rw [this, sumOver_zero]

theorem sum_range_delta (d w : Nat) (g : Nat → α) :
    ((List.range d).map (fun v => if w = v then g v else 0)).sum = if w < d then g w else 0 := by
  induction d with
  | zero => simp
  | succ d ih =>
    rw [List.range_succ, List.map_append, List.sum_append, ih]
    simp only [List.map_cons, List.map_nil, List.sum_cons, List.sum_nil, add_zero]
    by_cases h1 : w < d
    · have : w ≠ d := by omega
      have h2 : w < d + 1 := by omega
      simp [h1, this, h2]
    · by_cases h2 : w = d
      · subst h2; simp
      · have : ¬ w < d + 1 := by omega
        simp [h1, h2, this]

/-- overriding an assignment on a list of labels -/
def override (σ τ : L → Nat) (U : List L) : L → Nat := fun x => if x ∈ U then τ x else σ x

/-- **collapse**: summing an indicator of a single in-range point over distinct labels picks that point -/
theorem sumOver_collapse (dim : L → Nat) (U : List L) (hU : U.Nodup) (τ : L → Nat) (hτ : ∀ u ∈ U, τ u < dim u)
    (G : (L → Nat) → α) (σ : L → Nat) :
    sumOver dim U (fun ρ => if (U.all fun u => ρ u == τ u) then G ρ else 0) σ = G (override σ τ U) := by
  induction U generalizing σ with
  | nil =>
    simp only [sumOver_nil, List.all_nil, if_true]
    congr 1
  | cons u U ih =>
    rw [List.nodup_cons] at hU
    simp only [sumOver_cons]
    have step : ∀ v ∈ List.range (dim u),
        sumOver dim U (fun ρ => if ((u :: U).all fun u' => ρ u' == τ u') then G ρ else 0) (upd σ u v)
          = if τ u = v then G (override σ τ (u :: U)) else 0 := by
      intro v _
      have h1 : sumOver dim U (fun ρ => if ((u :: U).all fun u' => ρ u' == τ u') then G ρ else 0) (upd σ u v)
          = sumOver dim U (fun ρ => if (v == τ u) then (if (U.all fun u' => ρ u' == τ u') then G ρ else 0) else 0)
              (upd σ u v) := by
        apply sumOver_congr_inrange
        intro ρ _ h2
        have : ρ u = v := by rw [h2 u hU.1, upd_same]
        simp only [List.all_cons, this]
        by_cases hv : (v == τ u) = true <;> simp [hv]
      rw [h1]
      by_cases hv : τ u = v
      · have hb : (v == τ u) = true := by simp [hv]
        simp only [hb, if_true]
        rw [if_pos hv, ih hU.2 (fun x hx => hτ x (List.mem_cons_of_mem _ hx))]
        congr 1
        funext x
        simp only [override, List.mem_cons, upd]
        by_cases hx : x = u
        · subst hx; simp [hU.1, hv]
        · simp [hx]
      · have hb : (v == τ u) = false := by simpa using (fun e => hv e.symm)
        simp only [hb, Bool.false_eq_true, if_false]
        rw [if_neg hv]
        exact sumOver_zero dim U _
    rw [List.map_congr_left step]
    rw [sum_range_delta (dim u) (τ u) (fun _ => G (override σ τ (u :: U)))]
    rw [if_pos (hτ u List.mem_cons_self)]

/-- the sum only looks at `σ` where `f` does -/
theorem sumOver_agree_on (dim : L → Nat) (ls : List L) (f : (L → Nat) → α) (P : L → Prop)
    (hf : ∀ σ τ, (∀ x, P x → σ x = τ x) → f σ = f τ) (σ τ : L → Nat)
    (h : ∀ x, P x → x ∉ ls → σ x = τ x) : sumOver dim ls f σ = sumOver dim ls f τ := by
  induction ls generalizing σ τ with
  | nil => exact hf σ τ (fun x hx => h x hx (by simp))
  | cons l ls ih =>
    simp only [sumOver_cons]
    congr 1
    apply List.map_congr_left
    intro v _
    apply ih
    intro x hx hxl
    by_cases hxe : x = l
    · subst hxe; simp [upd]
    · rw [upd_other _ hxe, upd_other _ hxe]
      exact h x hx (by simp [hxe, hxl])

/-! ### pinning = summing against an indicator -/
section PI
variable {α : Type} [CommSemiring α]

theorem pinsOK_of_map_eq (opn : List Int) (σ : Int → Nat) : pinsOK opn (opn.map σ) = true := by
  rw [pinsOK_iff]
  refine ⟨by simp, fun k k' _ _ he => ?_⟩
  simp only [List.getElem?_map, he]

theorem nodup_eraseDups_int (l : List Int) : l.eraseDups.Nodup := nodup_eraseDups' l

/-- **Pinning the open legs equals summing all labels against the indicator "the open legs read `idx`"**, for an
index within the dimensions. `lab` are all labels (bond ids), `opn` the open legs. -/
theorem sumOver_indicator_eq_sem (dim : Int → Nat) (lab : List Int) (hlab : lab.Nodup) (opn : List Int)
    (hsub : ∀ x ∈ opn, x ∈ lab) (ts : List (Option Int × List Int)) (D : Option Int → List Nat → α) (idx : List Nat)
    (hr : ∀ k (hk : k < opn.length), ∀ i, idx[k]? = some i → i < dim opn[k]) :
    sumOver dim lab (fun σ => if opn.map σ == idx then tensorTerm D ts σ else 0) (fun _ => 0)
      = sem dim opn (lab.filter (fun b => !opn.contains b)) ts D idx := by
  set rest := lab.filter (fun b => !opn.contains b) with hrest
  set U := opn.eraseDups with hUdef
  have hU : U.Nodup := nodup_eraseDups_int opn
  have hUmem : ∀ x, x ∈ U ↔ x ∈ opn := fun x => List.mem_eraseDups
  have hfm : ∀ x, (!opn.contains x) = true ↔ x ∉ opn := by intro x; simp
  have hperm : lab.Perm (U ++ rest) := by
    apply (List.perm_ext_iff_of_nodup hlab ?_).mpr
    · intro x
      simp only [List.mem_append, hUmem, hrest, List.mem_filter, hfm]
      constructor
      · intro hx
        by_cases ho : x ∈ opn
        · exact Or.inl ho
        · exact Or.inr ⟨hx, ho⟩
      · rintro (ho | ⟨hx, _⟩)
        · exact hsub x ho
        · exact hx
    · apply List.Nodup.append hU (hlab.filter _)
      intro x h1 h2
      rw [hUmem] at h1
      simp only [hrest, List.mem_filter, hfm] at h2
      exact h2.2 h1
  rw [sumOver_perm dim hperm, sumOver_append]
  -- pull the indicator out of the inner sum
  have hinner : ∀ σ : Int → Nat, sumOver dim rest (fun σ => if opn.map σ == idx then tensorTerm D ts σ else 0) σ
      = if opn.map σ == idx then sumOver dim rest (tensorTerm D ts) σ else 0 := by
    intro σ
    apply sumOver_ite_indep dim rest (fun σ => opn.map σ == idx)
    intro τ hτ
    congr 1
    apply List.map_congr_left
    intro x hx
    apply hτ
    simp only [hrest, List.mem_filter, hfm, not_and, not_not]
    exact fun _ => hx
  rw [show (sumOver dim rest fun σ => if opn.map σ == idx then tensorTerm D ts σ else 0) =
      fun σ => if opn.map σ == idx then sumOver dim rest (tensorTerm D ts) σ else 0 from funext hinner]
  unfold sem
  by_cases hok : pinsOK opn idx = true
  · rw [if_pos hok]
    have hlen : opn.length = idx.length := ((pinsOK_iff _ _).mp hok).1
    set τ := pin opn idx (fun _ => 0) with hτdef
    have hτval : ∀ k (hk : k < opn.length), some (τ opn[k]) = idx[k]? :=
      fun k hk => pin_of_pinsOK opn idx _ hok k hk
    have hτr : ∀ u ∈ U, τ u < dim u := by
      intro u hu
      obtain ⟨k, hk, rfl⟩ := List.getElem_of_mem ((hUmem u).mp hu)
      exact hr k hk _ (hτval k hk).symm
    have hcond : ∀ σ : Int → Nat, (opn.map σ == idx) = (U.all fun u => σ u == τ u) := by
      intro σ
      rw [Bool.eq_iff_iff]
      simp only [beq_iff_eq, List.all_eq_true]
      constructor
      · intro he u hu
        obtain ⟨k, hk, rfl⟩ := List.getElem_of_mem ((hUmem u).mp hu)
        have h1 := hτval k hk
        rw [← he, List.getElem?_map, List.getElem?_eq_getElem hk] at h1
        exact (Option.some.inj h1).symm
      · intro hall
        apply List.ext_getElem?
        intro k
        by_cases hk : k < opn.length
        · rw [List.getElem?_map, List.getElem?_eq_getElem hk, ← hτval k hk]
          simp only [Option.map_some]
          rw [hall opn[k] ((hUmem _).mpr (List.getElem_mem hk))]
        · rw [List.getElem?_eq_none (by simpa using hk), List.getElem?_eq_none (by omega)]
    simp only [hcond]
    rw [sumOver_collapse dim U hU τ hτr]
    congr 1
    funext x
    simp only [override, hUmem]
    by_cases hx : x ∈ opn
    · simp [hx]
    · simp only [hx, if_false]
      rw [hτdef, pin_notMem _ _ _ _ hx]
  · rw [if_neg hok]
    have : ∀ σ : Int → Nat, (opn.map σ == idx) = false := by
      intro σ
      rw [beq_eq_false_iff_ne]
      intro he
      apply hok
      rw [← he]; exact pinsOK_of_map_eq opn σ
    simp only [this, Bool.false_eq_true, if_false]
    exact sumOver_zero dim U _

end PI

/-! ### all multi-indices of a shape -/

/-- all multi-indices `z` with `z[k] < S[k]`, in row-major order -/
def allIdx : List Nat → List (List Nat)
  | [] => [[]]
  | d :: ds => (List.range d).flatMap (fun i => (allIdx ds).map (fun z => i :: z))

theorem mem_allIdx {S z : List Nat} : z ∈ allIdx S ↔ List.Forall₂ (fun i d => i < d) z S := by
  induction S generalizing z with
  | nil =>
    simp only [allIdx, List.mem_singleton]
    constructor
    · rintro rfl; exact List.Forall₂.nil
    · intro h; cases h; rfl
  | cons d ds ih =>
    simp only [allIdx, List.mem_flatMap, List.mem_range, List.mem_map]
    constructor
    · rintro ⟨i, hi, z', hz', rfl⟩
      exact List.Forall₂.cons hi (ih.mp hz')
    · intro h
      cases h with
      | cons hi hrest => exact ⟨_, hi, _, ih.mpr hrest, rfl⟩

theorem nodup_allIdx (S : List Nat) : (allIdx S).Nodup := by
  induction S with
  | nil => simp [allIdx]
  | cons d ds ih =>
    simp only [allIdx]
    rw [List.nodup_flatMap]
    refine ⟨fun i _ => ih.map (fun a b h => by simpa using h), ?_⟩
    apply List.Pairwise.imp_of_mem (R := fun a b => a ≠ b)
    · intro a b _ _ hab
      intro x
      simp only [List.mem_map, not_and]
      rintro ⟨z, _, rfl⟩ ⟨z', _, h⟩
      have : b = a := (List.cons.inj h).1
      exact hab this.symm
    · exact List.nodup_range

theorem sum_delta_nodup {Z : Type} [DecidableEq Z] {α : Type} [CommSemiring α] (l : List Z) (hl : l.Nodup) (c : Z)
    (g : Z → α) : (l.map (fun z => if c = z then g z else 0)).sum = if c ∈ l then g c else 0 := by
  induction l with
  | nil => simp
  | cons z zs ih =>
    rw [List.nodup_cons] at hl
    simp only [List.map_cons, List.sum_cons, List.mem_cons]
    rw [ih hl.2]
    by_cases h : c = z
    · subst h; simp [hl.1]
    · simp [h]

end Qib.TNet
