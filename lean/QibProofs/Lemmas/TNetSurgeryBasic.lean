import QibProofs.Lemmas.TNetBasic
import Mathlib.Data.List.Perm.Basic
import Mathlib.Data.List.Count
import Mathlib.Data.List.Nodup
/-!
Helper lemmas for C08 (network surgery), part 1: monadic list helpers, `nthIdx`, the two views of the legs of
a network (`tLegs` from the tensors, `bLegs` from the bonds) and the declarative well-formedness predicate `WF`
(no property statements).
-/
namespace Qib.TNet

/-! ### `Except` helpers -/
section Exc
variable {ε α β : Type}

theorem mapM_ok_of_forall {f : α → Except ε β} {g : α → β} (l : List α) (h : ∀ x ∈ l, f x = .ok (g x)) :
    l.mapM f = .ok (l.map g) := by
  induction l with
  | nil => rfl
  | cons a as ih =>
    rw [List.mapM_cons, h a List.mem_cons_self, ih (fun x hx => h x (List.mem_cons_of_mem _ hx))]
    rfl

theorem mapM_ok_inv {f : α → Except ε β} {l : List α} {r : List β} (h : l.mapM f = .ok r) :
    List.Forall₂ (fun x y => f x = .ok y) l r := by
  induction l generalizing r with
  | nil =>
    have : r = [] := by simpa [List.mapM_nil, pure, Except.pure] using h.symm
    subst this; exact List.Forall₂.nil
  | cons a as ih =>
    rw [List.mapM_cons] at h
    cases ha : f a with
    | error e => rw [ha] at h; cases h
    | ok b =>
      rw [ha] at h
      cases has : as.mapM f with
      | error e => rw [has] at h; cases h
      | ok bs =>
        rw [has] at h
        have : r = b :: bs := by
          have h' : (Except.ok (b :: bs) : Except ε (List β)) = .ok r := h
          cases h'; rfl
        subst this
        exact List.Forall₂.cons ha (ih has)

theorem allM_ok_true_iff {γ : Type} (f : γ → Except Err Bool) (l : List γ) :
    allM f l = .ok true ↔ ∀ x ∈ l, f x = .ok true := by
  induction l with
  | nil => simp [allM]
  | cons a as ih =>
    simp only [allM, List.mem_cons, forall_eq_or_imp]
    cases ha : f a with
    | error e => simp [bind, Except.bind]
    | ok b =>
      cases b with
      | false => simp [bind, Except.bind, pure, Except.pure]
      | true => simp [bind, Except.bind, ih]

end Exc

/-! ### `nthIdx`: the position of the `j`-th occurrence -/

theorem nthIdxFrom_eq_some (b : Int) (l : List Int) (j off r : Nat) :
    nthIdxFrom b l j off = some r ↔
      ∃ ax, r = off + ax ∧ l[ax]? = some b ∧ (l.take ax).count b = j := by
  induction l generalizing j off with
  | nil => simp [nthIdxFrom]
  | cons x xs ih =>
    simp only [nthIdxFrom]
    by_cases hx : x = b
    · subst hx
      simp only [beq_self_eq_true, if_true]
      cases j with
      | zero =>
        constructor
        · intro h; cases h; exact ⟨0, by simp⟩
        · rintro ⟨ax, rfl, h1, h2⟩
          cases ax with
          | zero => rfl
          | succ n => simp [List.take_succ_cons] at h2
      | succ j =>
        rw [ih]
        constructor
        · rintro ⟨ax, rfl, h1, h2⟩
          exact ⟨ax + 1, by omega, by simpa using h1, by simp [List.take_succ_cons, h2]⟩
        · rintro ⟨ax, rfl, h1, h2⟩
          cases ax with
          | zero => simp at h2
          | succ n =>
            exact ⟨n, by omega, by simpa using h1, by simpa [List.take_succ_cons, List.count_cons] using h2⟩
    · have hb : (x == b) = false := by simpa using hx
      simp only [hb, Bool.false_eq_true, if_false]
      rw [ih]
      constructor
      · rintro ⟨ax, rfl, h1, h2⟩
        exact ⟨ax + 1, by omega, by simpa using h1, by simp [List.take_succ_cons, h2, hx]⟩
      · rintro ⟨ax, rfl, h1, h2⟩
        cases ax with
        | zero => simp at h1; exact absurd h1 hx
        | succ n =>
          exact ⟨n, by omega, by simpa using h1, by simpa [List.take_succ_cons, List.count_cons, hx] using h2⟩

theorem nthIdx_eq_some (b : Int) (l : List Int) (j r : Nat) :
    nthIdx b l j = some r ↔ l[r]? = some b ∧ (l.take r).count b = j := by
  unfold nthIdx
  rw [nthIdxFrom_eq_some]
  constructor
  · rintro ⟨ax, rfl, h⟩; simpa using h
  · intro h; exact ⟨r, by simp, h⟩

theorem nthIdxFrom_isSome (b : Int) (l : List Int) (j off : Nat) :
    (nthIdxFrom b l j off).isSome ↔ j < l.count b := by
  induction l generalizing j off with
  | nil => simp [nthIdxFrom]
  | cons x xs ih =>
    simp only [nthIdxFrom]
    by_cases hx : x = b
    · subst hx
      simp only [beq_self_eq_true, if_true, List.count_cons_self]
      cases j with
      | zero => simp
      | succ j => simp only [ih]; omega
    · have hb : (x == b) = false := by simpa using hx
      simp only [hb, Bool.false_eq_true, if_false, ih]
      rw [List.count_cons_of_ne hx]

theorem nthIdx_isSome (b : Int) (l : List Int) (j : Nat) : (nthIdx b l j).isSome ↔ j < l.count b :=
  nthIdxFrom_isSome b l j 0

/-- every occurrence of `b` is the `j`-th one for the right `j` -/
theorem nthIdx_of_getElem? (b : Int) (l : List Int) (ax : Nat) (h : l[ax]? = some b) :
    nthIdx b l ((l.take ax).count b) = some ax :=
  (nthIdx_eq_some b l _ ax).mpr ⟨h, rfl⟩

theorem count_take_lt_count {l : List Int} {b : Int} {ax : Nat} (h : l[ax]? = some b) :
    (l.take ax).count b < l.count b := by
  have := (nthIdx_isSome b l ((l.take ax).count b)).mp (by rw [nthIdx_of_getElem? b l ax h]; rfl)
  exact this

/-! ### the legs of a network, seen from the tensors and from the bonds -/

/-- `(tensor key, bond id)` for every axis of every tensor -/
def tLegs (net : Net) : List (Int × Int) := net.tensors.flatMap (fun e => e.2.bids.map (fun b => (e.1, b)))

/-- `(tensor id, bond key)` for every reference stored in a bond -/
def bLegs (net : Net) : List (Int × Int) := net.bonds.flatMap (fun e => e.2.tids.map (fun t => (t, e.1)))

/-- Well-formedness without the requirement that the virtual tensor exists (the state of the copy of the second
operand inside `merge` after its virtual tensor has been renamed). -/
structure WF0 (net : Net) : Prop where
  tnodup : (dkeys net.tensors).Nodup
  bnodup : (dkeys net.bonds).Nodup
  tkey : ∀ e ∈ net.tensors, e.2.tid = e.1
  bkey : ∀ e ∈ net.bonds, e.2.bid = e.1
  tshape : ∀ e ∈ net.tensors, e.2.shape.length = e.2.bids.length
  bsorted : ∀ e ∈ net.bonds, e.2.tids.Pairwise (· ≤ ·)
  blen : ∀ e ∈ net.bonds, 2 ≤ e.2.tids.length
  /-- both directions of the incidence, with multiplicities -/
  legs : (tLegs net).Perm (bLegs net)
  /-- all axes attached to one bond have the same dimension -/
  dims : ∀ p ∈ legDims net, ∀ q ∈ legDims net, p.1 = q.1 → p.2 = q.2

/-- Declarative form of "the network is consistent". -/
structure WF (net : Net) : Prop extends WF0 net where
  virt : (-1 : Int) ∈ dkeys net.tensors

/-- What the dictionaries and constructors of the implementation guarantee and `is_consistent` therefore does
not test: keys are unique (Python `dict`), `len(shape) == len(bids)` (`SymbolicTensor.__init__`), the tensor
ids of a bond are kept sorted (`SymbolicBond.__init__` and every mutator). -/
structure RepOK (net : Net) : Prop where
  tnodup : (dkeys net.tensors).Nodup
  bnodup : (dkeys net.bonds).Nodup
  tshape : ∀ e ∈ net.tensors, e.2.shape.length = e.2.bids.length
  bsorted : ∀ e ∈ net.bonds, e.2.tids.Pairwise (· ≤ ·)

theorem WF0.repOK {net : Net} (h : WF0 net) : RepOK net := ⟨h.tnodup, h.bnodup, h.tshape, h.bsorted⟩

/-! ### counting legs -/
section Count
variable {β : Type}

theorem dget_eq_none_of_notMem (d : List (Int × β)) {k : Int} (h : k ∉ dkeys d) : dget d k = none := by
  cases hd : dget d k with
  | none => rfl
  | some v =>
    have := (dget_isSome_iff d k).mp (by rw [hd]; rfl)
    exact absurd this h

theorem mem_dkeys_of_mem {d : List (Int × β)} {e : Int × β} (h : e ∈ d) : e.1 ∈ dkeys d :=
  List.mem_map.mpr ⟨e, h, rfl⟩

theorem exists_mem_of_mem_dkeys {d : List (Int × β)} {k : Int} (h : k ∈ dkeys d) : ∃ v, (k, v) ∈ d := by
  obtain ⟨e, he, rfl⟩ := List.mem_map.mp h
  exact ⟨e.2, he⟩

theorem dget_of_mem {d : List (Int × β)} (hn : (dkeys d).Nodup) {e : Int × β} (h : e ∈ d) : dget d e.1 = some e.2 :=
  dget_eq_some_of_mem d hn (k := e.1) (v := e.2) h

theorem count_flatMap_dict {γ : Type} [BEq γ] [LawfulBEq γ] (d : List (Int × β)) (hn : (dkeys d).Nodup)
    (g : Int × β → List γ) (x : γ) (k : Int) (hg : ∀ e ∈ d, e.1 ≠ k → x ∉ g e) :
    (d.flatMap g).count x = match dget d k with
      | some v => (g (k, v)).count x
      | none => 0 := by
  induction d with
  | nil => simp [dget]
  | cons e es ih =>
    obtain ⟨e1, e2⟩ := e
    simp only [dkeys, List.map_cons, List.nodup_cons] at hn
    rw [List.flatMap_cons, List.count_append]
    simp only [dget, List.lookup]
    by_cases hk : k = e1
    · subst hk
      simp only [beq_self_eq_true]
      have : (es.flatMap g).count x = 0 := by
        rw [List.count_eq_zero]
        intro hm
        obtain ⟨e', he', hx⟩ := List.mem_flatMap.mp hm
        refine hg e' (List.mem_cons_of_mem _ he') ?_ hx
        intro h'
        apply hn.1
        rw [← h']
        exact mem_dkeys_of_mem he'
      omega
    · have hb : (k == e1) = false := by simpa using hk
      simp only [hb]
      have h0 : (g (e1, e2)).count x = 0 :=
        List.count_eq_zero.mpr (hg (e1, e2) List.mem_cons_self (fun h => hk h.symm))
      rw [h0, Nat.zero_add]
      exact ih hn.2 (fun e' he' => hg e' (List.mem_cons_of_mem _ he'))

end Count

theorem count_tLegs (net : Net) (hn : (dkeys net.tensors).Nodup) (t b : Int) :
    (tLegs net).count (t, b) = match dget net.tensors t with
      | some T => T.bids.count b
      | none => 0 := by
  unfold tLegs
  rw [count_flatMap_dict net.tensors hn _ (t, b) t]
  · cases dget net.tensors t with
    | none => rfl
    | some T =>
      simp only
      rw [List.count_map_of_injective _ _ (by intro a b h; simpa using h)]
  · intro e _ hne hm
    simp only [List.mem_map, Prod.mk.injEq] at hm
    obtain ⟨_, _, h1, _⟩ := hm
    exact hne h1

theorem count_bLegs (net : Net) (hn : (dkeys net.bonds).Nodup) (t b : Int) :
    (bLegs net).count (t, b) = match dget net.bonds b with
      | some B => B.tids.count t
      | none => 0 := by
  unfold bLegs
  rw [count_flatMap_dict net.bonds hn _ (t, b) b]
  · cases dget net.bonds b with
    | none => rfl
    | some B =>
      simp only
      exact List.count_map_of_injective B.tids (fun t => (t, b)) (by intro a b h; simpa using h) t
  · intro e _ hne hm
    simp only [List.mem_map, Prod.mk.injEq] at hm
    obtain ⟨_, _, _, h1⟩ := hm
    exact hne h1

end Qib.TNet
