import Mathlib.Data.Complex.Basic
import Mathlib.Data.Matrix.Mul
import Mathlib.Algebra.BigOperators.Ring.Finset
import Mathlib.Algebra.BigOperators.Fin
import Mathlib.LinearAlgebra.Matrix.ConjTranspose
import Mathlib.Tactic.Ring
import Mathlib.Tactic.Linarith
/-!
Core D / C10: tensor products in bit-function indexing and the flat-index convention (site 0 most significant).

These are the same definitions as in `Lemmas/PauliMat.lean` (`tens`, `tens_mul`, `natOfBits`, `bitAt`, …), copied into the
`Qib.Fermi` namespace on purpose: `PauliMat.lean` imports the Pauli tables that are *regenerated* from
`pauli_operator.py`, and a change of that file must not take the proofs about `field_operator.py` down with it.
Helper lemmas only.
-/

open Complex Matrix
namespace Qib.Fermi

/-- tensor product in bit-function indexing: site 0 is the outermost Kronecker factor -/
def tens {n : ℕ} (A : Fin n → Matrix Bool Bool ℂ) : Matrix (Fin n → Bool) (Fin n → Bool) ℂ :=
  fun r c => ∏ k, A k (r k) (c k)

theorem tens_mul {n : ℕ} (A B : Fin n → Matrix Bool Bool ℂ) :
    tens A * tens B = tens (fun k => A k * B k) := by
  ext r c
  simp only [tens, Matrix.mul_apply]
  rw [Finset.prod_univ_sum]
  simp only [Finset.prod_mul_distrib, Fintype.piFinset_univ]

theorem tens_smul {n : ℕ} (a : Fin n → ℂ) (A : Fin n → Matrix Bool Bool ℂ) :
    tens (fun k => a k • A k) = (∏ k, a k) • tens A := by
  ext r c
  simp [tens, Finset.prod_mul_distrib]

theorem tens_conjTranspose {n : ℕ} (A : Fin n → Matrix Bool Bool ℂ) :
    (tens A)ᴴ = tens (fun k => (A k)ᴴ) := by
  ext r c
  simp [tens, Matrix.conjTranspose_apply]

theorem tens_one {n : ℕ} : tens (fun _ : Fin n => (1 : Matrix Bool Bool ℂ)) = 1 := by
  ext r c
  simp only [tens, Matrix.one_apply]
  by_cases h : r = c
  · subst h; simp
  · rw [if_neg h]
    obtain ⟨k, hk⟩ := Function.ne_iff.mp h
    exact Finset.prod_eq_zero (Finset.mem_univ k) (by simp [hk])

/-- site 0 is the outermost Kronecker factor: `tens A = A 0 ⊗ tens (tail A)` entrywise -/
theorem tens_succ {n : ℕ} (A : Fin (n + 1) → Matrix Bool Bool ℂ) (r c : Fin (n + 1) → Bool) :
    tens A r c = A 0 (r 0) (c 0) * tens (Fin.tail A) (Fin.tail r) (Fin.tail c) := by
  simp [tens, Fin.prod_univ_succ, Fin.tail]

/-- `Z = [[1, 0], [0, -1]]` -/
def pauliZ : Matrix Bool Bool ℂ := fun r c => if r = c then (if r then -1 else 1) else 0

/-- bit of site `k` in a flat index of `n` sites, site 0 most significant -/
def bitAt (n k idx : ℕ) : Bool := idx.testBit (n - 1 - k)

/-- bit function of a flat index -/
def bitsOfIdx (n idx : ℕ) : Fin n → Bool := fun k => bitAt n k idx

/-- flat index of a bit function, site 0 most significant (NumPy's `kron` order) -/
def natOfBits : (n : ℕ) → (Fin n → Bool) → ℕ
  | 0, _ => 0
  | n + 1, r => (r 0).toNat * 2 ^ n + natOfBits n (Fin.tail r)

theorem natOfBits_lt (n : ℕ) (r : Fin n → Bool) : natOfBits n r < 2 ^ n := by
  induction n with
  | zero => simp [natOfBits]
  | succ n ih =>
    have := ih (Fin.tail r)
    simp only [natOfBits]
    cases r 0 <;> simp <;> omega

theorem bitAt_natOfBits (n : ℕ) (r : Fin n → Bool) (k : Fin n) : bitAt n k (natOfBits n r) = r k := by
  induction n with
  | zero => exact k.elim0
  | succ n ih =>
    have hlt := natOfBits_lt n (Fin.tail r)
    simp only [bitAt, natOfBits]
    rw [Nat.mul_comm, Nat.testBit_two_pow_mul_add _ hlt]
    refine Fin.cases ?_ (fun j => ?_) k
    · simp; cases r 0 <;> rfl
    · have hj : n + 1 - 1 - (j.succ : ℕ) < n := by have := j.isLt; simp only [Fin.val_succ]; omega
      rw [if_pos hj]
      have := ih (Fin.tail r) j
      simp only [bitAt] at this
      have e : n + 1 - 1 - (j.succ : ℕ) = n - 1 - (j : ℕ) := by simp only [Fin.val_succ]; omega
      rw [e, this]; rfl

theorem bitsOfIdx_natOfBits (n : ℕ) (r : Fin n → Bool) : bitsOfIdx n (natOfBits n r) = r := by
  funext k; exact bitAt_natOfBits n r k

end Qib.Fermi
