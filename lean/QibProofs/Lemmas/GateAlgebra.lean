import Mathlib.Analysis.Normed.Algebra.MatrixExponential
import Mathlib.Analysis.SpecialFunctions.Trigonometric.Series
import Mathlib.LinearAlgebra.UnitaryGroup
import Mathlib.LinearAlgebra.Matrix.Kronecker
import Mathlib.Tactic.Ring
import Mathlib.Tactic.FinCases
import Mathlib.Tactic.FieldSimp
import Mathlib.Tactic.Linarith
/-!
Helper lemmas for the gate properties (C01, C02, C03, C16, C19, C20). No property statements here.
-/
open Matrix NormedSpace Complex

namespace Qib.GateAlgebra

/-! ### exponential of a multiple of an involution -/

section Involution
variable {𝔸 : Type*} [NormedRing 𝔸] [NormedAlgebra ℂ 𝔸] [CompleteSpace 𝔸]

private theorem smul_pow_even (A : 𝔸) (h : A * A = 1) (z : ℂ) (n : ℕ) :
    (z • A) ^ (2 * n) = z ^ (2 * n) • (1 : 𝔸) := by
  rw [smul_pow, pow_mul A, pow_two, h, one_pow]

private theorem smul_pow_odd (A : 𝔸) (h : A * A = 1) (z : ℂ) (n : ℕ) :
    (z • A) ^ (2 * n + 1) = z ^ (2 * n + 1) • A := by
  rw [smul_pow, pow_succ A, pow_mul A, pow_two, h, one_pow, one_mul]

/-- `A² = 1 ⇒ exp (z • A) = cosh z • 1 + sinh z • A` -/
theorem exp_smul_of_sq_eq_one (A : 𝔸) (h : A * A = 1) (z : ℂ) :
    exp (z • A) = Complex.cosh z • (1 : 𝔸) + Complex.sinh z • A := by
  rw [exp_eq_tsum ℂ]
  refine HasSum.tsum_eq ?_
  refine HasSum.even_add_odd ?_ ?_
  · have := (Complex.hasSum_cosh z).smul_const (1 : 𝔸)
    convert this using 1
    ext n
    rw [smul_pow_even A h, smul_smul, div_eq_inv_mul]
  · have := (Complex.hasSum_sinh z).smul_const A
    convert this using 1
    ext n
    rw [smul_pow_odd A h, smul_smul, div_eq_inv_mul]

end Involution

/-- matrix version (no norm instance in the statement) -/
theorem Matrix.exp_smul_of_sq_eq_one {n : Type*} [Fintype n] [DecidableEq n]
    (A : Matrix n n ℂ) (h : A * A = 1) (z : ℂ) :
    exp (z • A) = Complex.cosh z • (1 : Matrix n n ℂ) + Complex.sinh z • A := by
  open scoped Matrix.Norms.Operator in exact Qib.GateAlgebra.exp_smul_of_sq_eq_one A h z

/-- `exp (-(iθ/2) P) = cos(θ/2) 1 - i sin(θ/2) P` for an involution `P` -/
theorem Matrix.exp_rotation {n : Type*} [Fintype n] [DecidableEq n]
    (P : Matrix n n ℂ) (h : P * P = 1) (θ : ℝ) :
    exp ((-(I * (θ / 2 : ℝ))) • P) = ((Real.cos (θ / 2) : ℝ) : ℂ) • (1 : Matrix n n ℂ) - (I * ((Real.sin (θ / 2) : ℝ) : ℂ)) • P := by
  rw [Matrix.exp_smul_of_sq_eq_one P h]
  have h1 : Complex.cosh (-(I * ((θ / 2 : ℝ) : ℂ))) = ((Real.cos (θ / 2) : ℝ) : ℂ) := by
    rw [Complex.cosh_neg, mul_comm, Complex.cosh_mul_I, Complex.ofReal_cos]
  have h2 : Complex.sinh (-(I * ((θ / 2 : ℝ) : ℂ))) = -(I * ((Real.sin (θ / 2) : ℝ) : ℂ)) := by
    rw [Complex.sinh_neg, mul_comm, Complex.sinh_mul_I, Complex.ofReal_sin, mul_comm]
  rw [h1, h2, neg_smul, sub_eq_add_neg]

/-! ### unit complex numbers -/

theorem exp_mul_conj_of_re_zero (z : ℂ) (h : z.re = 0) : Complex.exp z * starRingEnd ℂ (Complex.exp z) = 1 := by
  rw [← Complex.exp_conj, ← Complex.exp_add]
  have : z + starRingEnd ℂ z = 0 := by
    apply Complex.ext <;> simp [h]
  rw [this, Complex.exp_zero]

/-! ### real orthogonal matrices are unitary -/

theorem real_orthogonal_unitary {ι : Type*} [Fintype ι] [DecidableEq ι] (M : Matrix ι ι ℝ) (h : M * Mᵀ = 1) :
    M.map Complex.ofReal * (M.map Complex.ofReal)ᴴ = 1 := by
  ext i j
  have hij := congrFun (congrFun h i) j
  simp only [Matrix.mul_apply, Matrix.transpose_apply, Matrix.one_apply] at hij
  simp only [Matrix.mul_apply, Matrix.map_apply, Matrix.conjTranspose_apply, Matrix.one_apply, Complex.star_def, Complex.conj_ofReal]
  split_ifs at hij ⊢ <;> exact_mod_cast hij

theorem orthogonal_mul_signs {ι : Type*} [Fintype ι] [DecidableEq ι] (Q : Matrix ι ι ℝ) (hQ : Q * Qᵀ = 1)
    (d : ι → ℝ) (hd : ∀ i, d i * d i = 1) : (Q * diagonal d) * (Q * diagonal d)ᵀ = 1 := by
  rw [Matrix.transpose_mul, diagonal_transpose, Matrix.mul_assoc, ← Matrix.mul_assoc (diagonal d), diagonal_mul_diagonal]
  have : (diagonal fun i => d i * d i) = (1 : Matrix ι ι ℝ) := by
    ext i j; by_cases hij : i = j <;> simp [diagonal, hij, hd, Matrix.one_apply]
  rw [this, Matrix.one_mul, hQ]

theorem orthogonal_mul_signs_transpose {ι : Type*} [Fintype ι] [DecidableEq ι] (Q : Matrix ι ι ℝ) (hQ' : Qᵀ * Q = 1)
    (d : ι → ℝ) (hd : ∀ i, d i * d i = 1) : (Q * diagonal d)ᵀ * ((Q * diagonal d)ᵀ)ᵀ = 1 := by
  rw [Matrix.transpose_transpose, Matrix.transpose_mul, diagonal_transpose, Matrix.mul_assoc, ← Matrix.mul_assoc Qᵀ, hQ', Matrix.one_mul,
    diagonal_mul_diagonal]
  ext i j; by_cases hij : i = j <;> simp [diagonal, hij, hd, Matrix.one_apply]

/-! ### controlled gates on a product index type (controls most significant) -/

section Ctrl
variable {κ ι : Type*} [Fintype κ] [DecidableEq κ] [Fintype ι] [DecidableEq ι] {α : Type*} [CommRing α] [StarRing α]

/-- `blockOn cs U`: apply `U` on the block where the control index equals `cs`, identity elsewhere.
This is `np.kron(diag(1-cidx), I) + np.kron(diag(cidx), U)` with `cidx = e_cs`. -/
def blockOn (cs : κ) (U : Matrix ι ι α) : Matrix (κ × ι) (κ × ι) α :=
  fun a b => if a.1 = b.1 then (if a.1 = cs then U a.2 b.2 else (1 : Matrix ι ι α) a.2 b.2) else 0

/-- multiplexer: block `k` is `U k` (`scipy.linalg.block_diag`) -/
def blocks (U : κ → Matrix ι ι α) : Matrix (κ × ι) (κ × ι) α :=
  fun a b => if a.1 = b.1 then U a.1 a.2 b.2 else 0

theorem blockOn_eq_blocks (cs : κ) (U : Matrix ι ι α) :
    blockOn cs U = blocks (fun k => if k = cs then U else 1) := by
  ext a b; simp only [blockOn, blocks]; split_ifs <;> rfl

theorem blocks_mul (U V : κ → Matrix ι ι α) : blocks U * blocks V = blocks (fun k => U k * V k) := by
  ext a b
  simp only [blocks, Matrix.mul_apply, Fintype.sum_prod_type]
  by_cases hab : a.1 = b.1
  · simp only [hab, if_true]
    rw [Finset.sum_eq_single b.1]
    · simp
    · intro k _ hk; simp [Ne.symm hk]
    · simp
  · simp only [hab, if_false]
    apply Finset.sum_eq_zero; intro k _
    by_cases h1 : a.1 = k
    · have : ¬ k = b.1 := fun h => hab (h1.trans h)
      simp [this]
    · simp [h1]

theorem blocks_one : blocks (fun _ : κ => (1 : Matrix ι ι α)) = 1 := by
  ext a b
  simp only [blocks, Matrix.one_apply]
  by_cases h1 : a.1 = b.1 <;> by_cases h2 : a.2 = b.2 <;> simp [h1, h2, Prod.ext_iff]

theorem blocks_conjTranspose (U : κ → Matrix ι ι α) : (blocks U)ᴴ = blocks (fun k => (U k)ᴴ) := by
  ext a b
  simp only [blocks, Matrix.conjTranspose_apply]
  by_cases h : a.1 = b.1
  · simp [h]
  · have : ¬ b.1 = a.1 := fun h' => h h'.symm
    simp [h, this]

theorem blocks_unitary (U : κ → Matrix ι ι α) (h : ∀ k, U k * (U k)ᴴ = 1) : blocks U * (blocks U)ᴴ = 1 := by
  rw [blocks_conjTranspose, blocks_mul]
  simp only [h]; exact blocks_one

theorem blocks_unitary' (U : κ → Matrix ι ι α) (h : ∀ k, (U k)ᴴ * U k = 1) : (blocks U)ᴴ * blocks U = 1 := by
  rw [blocks_conjTranspose, blocks_mul]
  simp only [h]; exact blocks_one

end Ctrl

end Qib.GateAlgebra
