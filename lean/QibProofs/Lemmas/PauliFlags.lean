import QibProofs.Lemmas.PauliOpSum
import Mathlib.Analysis.Complex.Norm
/-!
Core D: Hermiticity / unitarity answers of weighted Pauli strings and Pauli operators (helper lemmas for C16 and C01).
-/
open Complex Matrix
namespace Qib.Pauli

theorem GQ.mul_def (a b : GQ) : a * b = ⟨a.re * b.re - a.im * b.im, a.re * b.im + a.im * b.re⟩ := rfl

theorem GQ.toC_mul (a b : GQ) : (a * b).toC = a.toC * b.toC := by
  simp only [GQ.toC, GQ.mul_def, Rat.cast_add, Rat.cast_sub, Rat.cast_mul]
  ring_nf
  rw [Complex.I_sq]; ring

theorem GQ.toC_im (a : GQ) : a.toC.im = (a.im : ℝ) := by
  simp [GQ.toC]

theorem GQ.toC_ofInts (p : Int × Int) : (GQ.ofInts p).toC = gi p := by
  simp [GQ.toC, GQ.ofInts, gi]

/-- a scalar multiple of a string matrix is Hermitian iff `(-i)^q · w` is real -/
theorem wps_hermitian_iff (n : ℕ) (P : PS) (w : ℂ) :
    ((-I) ^ P.q.val * w).im = 0 ↔ (w • P.mat n)ᴴ = w • P.mat n := by
  rw [Matrix.conjTranspose_smul, mat_conjTranspose, mat_eq_smul_body, smul_smul, smul_smul]
  set c : ℂ := (-I) ^ P.q.val with hc
  have hstar : star w * (starRingEnd ℂ) c = (starRingEnd ℂ) (c * w) := by
    simp [mul_comm]
  constructor
  · intro h
    congr 1
    rw [hstar, mul_comm w c]
    exact Complex.conj_eq_iff_im.mpr h
  · intro h
    have := smul_body_inj n P h
    rw [hstar, mul_comm w c] at this
    exact Complex.conj_eq_iff_im.mp this

/-- the executable answer of `WeightedPauliString.is_hermitian` (table regenerated from the source) is exact -/
theorem wpsIsHermitian_iff (n : ℕ) (P : PS) (w : GQ) :
    wpsIsHermitian P w = true ↔ (w.toC • P.mat n)ᴴ = w.toC • P.mat n := by
  rw [← wps_hermitian_iff]
  have hq : P.q.val < 4 := P.q.isLt
  have e : ((GQ.ofInts (QibGen.Pauli.phaseWeightedHerm.getD P.q.val (0, 0))) * w).toC = (-I) ^ P.q.val * w.toC := by
    rw [GQ.toC_mul, GQ.toC_ofInts, phaseWeightedHerm_eq _ hq]
  unfold wpsIsHermitian
  rw [beq_iff_eq, ← e, GQ.toC_im]
  constructor
  · intro h; rw [h]; simp
  · intro h; exact_mod_cast h

/-- `PauliOperator.is_hermitian` (all weighted strings answer True) is sound for the weighted sum -/
theorem pauliOp_isHermitian_sound (n : ℕ) (op : PauliOp GQ) (h : PauliOp.isHermitian op = true) :
    (PauliOp.mat GQ.toC n op)ᴴ = PauliOp.mat GQ.toC n op := by
  induction op with
  | nil => simp [PauliOp.mat, PauliOp.matG]
  | cons e rest ih =>
    simp only [PauliOp.isHermitian, List.all_cons, Bool.and_eq_true] at h
    have h1 := (wpsIsHermitian_iff n e.1 e.2).mp h.1
    have h2 := ih (by simpa [PauliOp.isHermitian] using h.2)
    simp only [PauliOp.mat, PauliOp.matG_cons, Matrix.conjTranspose_add] at h2 ⊢
    rw [h1, h2]

/-- a scalar multiple of a string matrix is unitary iff the scalar has modulus one -/
theorem wps_unitary_iff (n : ℕ) (P : PS) (w : ℂ) :
    ‖w‖ = 1 ↔ (w • P.mat n)ᴴ * (w • P.mat n) = 1 := by
  rw [Matrix.conjTranspose_smul, Matrix.smul_mul, Matrix.mul_smul, mat_conjTranspose_mul_self, smul_smul]
  have hk : star w * w = ((‖w‖ ^ 2 : ℝ) : ℂ) := by
    rw [mul_comm]; show w * (starRingEnd ℂ) w = _; rw [Complex.mul_conj, Complex.normSq_eq_norm_sq]
  rw [hk]
  constructor
  · intro h; rw [h]; simp
  · intro h
    have h1 : ((‖w‖ ^ 2 : ℝ) : ℂ) = 1 := by
      have := congrFun (congrFun h (fun _ => false)) (fun _ => false)
      simpa using this
    have h2 : ‖w‖ ^ 2 = 1 := by exact_mod_cast h1
    have h3 : (0 : ℝ) ≤ ‖w‖ := norm_nonneg w
    nlinarith

/-- the executable answer `|w|² = 1` of the model is the modulus-one condition -/
theorem wpsIsUnitary_iff (w : GQ) : wpsIsUnitary w = true ↔ ‖w.toC‖ = 1 := by
  unfold wpsIsUnitary
  rw [beq_iff_eq]
  have hn : ‖w.toC‖ ^ 2 = ((w.normSq : ℚ) : ℝ) := by
    rw [← Complex.normSq_eq_norm_sq]
    simp [GQ.toC, GQ.normSq, Complex.normSq_apply]
  constructor
  · intro h
    rw [h] at hn
    have h3 : (0 : ℝ) ≤ ‖w.toC‖ := norm_nonneg _
    have : ‖w.toC‖ ^ 2 = 1 := by simpa using hn
    nlinarith
  · intro h
    rw [h] at hn
    have : ((w.normSq : ℚ) : ℝ) = 1 := by simpa using hn.symm
    exact_mod_cast this

end Qib.Pauli
