import QibProofs.Lemmas.TNetTreeRoot
import QibProofs.Lemmas.TNetEinsumData
/-!
Helper lemmas for C07, part 8: the data dictionary of the driver serves the leaves produced by the tree builder; the
driver's `contractTree` (`TensorNetwork.contract_tree`) returns the defining sum on every scaffold with at least two
leaves whose tree is certified (no property statements).
-/
namespace Qib.TNet
variable {α : Type} [CommSemiring α]

/-- a leaf as produced by the tree builder: axis `a` of the tensor is leg `a` -/
def LeafId (net : Net) (i : NodeInfo) : Prop :=
  ∃ T, dget net.tensors i.tid = some T ∧ i.idxout.length = T.shape.length ∧
    i.openaxes = (List.range T.shape.length).map (fun a => (i.tid, a)) ∧ i.trackaxes = List.range T.shape.length

theorem legB_of_leafId {net : Net} (hwf : WF net) {i : NodeInfo} (hi : InfoCert net i) {T : STensor}
    (hT : dget net.tensors i.tid = some T) (hlen : i.idxout.length = T.shape.length)
    (hopen : i.openaxes = (List.range T.shape.length).map (fun a => (i.tid, a)))
    (htrack : i.trackaxes = List.range T.shape.length) {k : Nat} (hk : k < T.shape.length) :
    ∃ (h : k < T.bids.length), legB net i k = T.bids[k] := by
  have hsh : T.shape.length = T.bids.length := hwf.tshape _ (mem_of_dget_eq_some _ hT)
  obtain ⟨oa, hm, hb⟩ := hi.leg (k := k) (by omega)
  obtain ⟨j, hj⟩ := List.mem_iff_getElem?.mp hm
  rw [List.getElem?_zip_eq_some, hopen, htrack] at hj
  obtain ⟨h1, h2⟩ := hj
  have hjk : j = k := by
    have hjl : j < T.shape.length := by
      by_contra hcon; rw [List.getElem?_eq_none (by simpa using hcon)] at h2; cases h2
    rw [List.getElem?_range hjl] at h2
    exact Option.some.inj h2
  subst hjk
  rw [List.getElem?_map, List.getElem?_range hk] at h1
  simp only [Option.map_some, Option.some.injEq] at h1
  subst h1
  refine ⟨by omega, ?_⟩
  have : legBond net (i.tid, j) = some T.bids[j] := legBond_eq_some_iff.mpr ⟨T, hT, List.getElem?_eq_getElem (by omega)⟩
  rw [this] at hb
  exact (Option.some.inj hb).symm

/-- the data dictionary of the network serves the leaves produced by the builder -/
theorem leafData_of_leafId {net : Net} (hwf : WF net) {D : Option Int → List Nat → α} {dict : Int → Option (DT α)}
    {i : NodeInfo} (hi : InfoCert net i) (hid : LeafId net i)
    (hd : ∀ T, dget net.tensors i.tid = some T → ∃ d, dict i.tid = some d ∧ d.shape = T.shape ∧ ∀ idx, d.get idx = D T.dataref idx) :
    LeafDataOK net D dict i := by
  obtain ⟨T, hT, hlen, hopen, htrack⟩ := hid
  obtain ⟨d, hd1, hd2, hd3⟩ := hd T hT
  have hsh : T.shape.length = T.bids.length := hwf.tshape _ (mem_of_dget_eq_some _ hT)
  refine ⟨d, hd1, ?_, ?_⟩
  · rw [hd2]
    unfold nodeShape
    apply List.ext_getElem
    · simp [hlen]
    · intro k h1 h2
      obtain ⟨hkb, hlb⟩ := legB_of_leafId hwf hi hT hlen hopen htrack h1
      simp only [List.getElem_map, List.getElem_range, hlb]
      have := hwf.toWF0.shape_eq_bondDim (mem_of_dget_eq_some _ hT) (List.getElem?_eq_getElem hkb)
      simp only at this
      rw [List.getElem?_eq_getElem h1] at this
      exact Option.some.inj this
  · intro σ _
    have : nodeIdx net i σ = T.bids.map σ := by
      unfold nodeIdx
      apply List.ext_getElem
      · simp [hlen, hsh]
      · intro k h1 h2
        have hk : k < T.shape.length := by simpa [hlen] using h1
        obtain ⟨hkb, hlb⟩ := legB_of_leafId hwf hi hT hlen hopen htrack hk
        simp only [List.getElem_map, List.getElem_range, hlb]
    rw [this, hd3]
    simp [leafTerm, hT]

end Qib.TNet
namespace Qib.TNet

theorem buildTree_node_inv {net : Net} {sl sr : Scaffold} {k : Int} {t : Tree}
    (h : buildTree net (.node sl sr) k = .ok t) :
    ∃ tL tR i k', buildTree net sl k = .ok tL ∧ buildTree net sr k' = .ok tR ∧ t = .node i tL tR := by
  unfold buildTree at h
  simp only [bind, Except.bind] at h
  split at h
  · cases h
  · rename_i tL hL
    split at h
    · cases h
    · rename_i tR hR
      split at h
      · cases h
      · split at h
        · cases h
        · split at h
          · cases h
          · split at h
            · cases h
            · simp only [pure, Except.pure, Except.ok.injEq] at h
              exact ⟨tL, tR, _, _, hL, hR, h.symm⟩

end Qib.TNet

namespace Qib.TNet

theorem buildTree_leafId {net : Net} : ∀ (s : Scaffold) (k : Int) (t : Tree), buildTree net s k = .ok t →
    ∀ i ∈ leafInfos t, LeafId net i := by
  intro s
  induction s with
  | bad => intro k t h; simp [buildTree] at h
  | leaf tid =>
    intro k t h
    unfold buildTree at h
    simp only [bind, Except.bind] at h
    split at h
    · cases h
    · split at h
      · rename_i T hT
        simp only [pure, Except.pure, Except.ok.injEq] at h
        subst h
        intro i hi
        simp only [leafInfos, List.mem_singleton] at hi
        subst hi
        exact ⟨T, hT, by simp, rfl, rfl⟩
      · cases h
  | node sl sr ihl ihr =>
    intro k t h
    obtain ⟨tL, tR, i, k', hL, hR, rfl⟩ := buildTree_node_inv h
    intro j hj
    simp only [leafInfos, List.mem_append] at hj
    rcases hj with hj | hj
    · exact ihl k tL hL j hj
    · exact ihr k' tR hR j hj

theorem permuteAt_root_node {i : NodeInfo} {l r : Tree} {sort : List Nat} {t : Tree}
    (h : permuteAt (.node i l r) [] sort = .ok t) : ∃ i', t = .node i' l r := by
  simp only [permuteAt, bind, Except.bind] at h
  split at h
  · cases h
  · simp only [pure, Except.pure, Except.ok.injEq] at h
    exact ⟨_, h.symm⟩

theorem contractTreePrep_node {net : Net} {i : NodeInfo} {l r : Tree} {t : Tree} {perm am : List Nat}
    (h : contractTreePrep net (.node i l r) = .ok (t, perm, am)) : ∃ i', t = .node i' l r := by
  unfold contractTreePrep at h
  simp only [bind, Except.bind] at h
  split at h
  swap
  · simp [throw, throwThe, MonadExceptOf.throw] at h
  split at h
  · cases h
  split at h
  · cases h
  split at h
  · simp [throw, throwThe, MonadExceptOf.throw] at h
  split at h
  · cases h
  rename_i t' ht'
  split at h
  · cases h
  simp only [pure, Except.pure, Except.ok.injEq, Prod.mk.injEq] at h
  obtain ⟨i', hi'⟩ := permuteAt_root_node ht'
  exact ⟨i', by rw [← h.1, hi']⟩

end Qib.TNet

namespace Qib.TNet

theorem leafOK_mem_treeOKList {net : Net} : ∀ (t : Tree) (i : NodeInfo), i ∈ leafInfos t → leafOK net i ∈ treeOKList net t := by
  intro t
  induction t with
  | leaf j => intro i hi; simp only [leafInfos, List.mem_singleton] at hi; subst hi; simp [treeOKList]
  | node n l r ihl ihr =>
    intro i hi
    simp only [leafInfos, List.mem_append] at hi
    simp only [treeOKList, List.mem_cons, List.mem_append]
    rcases hi with h | h
    · exact Or.inr (Or.inl (ihl i h))
    · exact Or.inr (Or.inr (ihr i h))

theorem tensorDict_ok {net : Net} {data : Data} (hk : ∀ e ∈ net.tensors, e.2.tid = e.1)
    (hcd : isConsistentData net data = .ok true) {tid : Int} (hne : tid ≠ -1) {T : STensor}
    (hT : dget net.tensors tid = some T) :
    ∃ d, tensorDict net data tid = some d ∧ d.shape = T.shape ∧ ∀ idx, d.get idx = dataAcc data T.dataref idx := by
  have hm := mem_of_dget_eq_some _ hT
  have hne' : T.tid ≠ -1 := by rw [hk _ hm]; exact hne
  obtain ⟨r, d, hr, hd, hs⟩ := (isConsistentData_ok hcd).2 _ hm hne'
  simp only at hr hd hs
  have hb : (tid == -1) = false := by simpa using hne
  exact ⟨d, by simp [tensorDict, hb, hT, hr, hd], hs, fun idx => by simp [dataAcc, hr, hd]⟩

/-- **`contract_tree` returns the defining sum** for every scaffold with at least two leaves whose built tree is
certified -/
theorem contractTree_sound {net : Net} {data : Data} (hrep : RepOK net) (hcd : isConsistentData net data = .ok true)
    {sl sr : Scaffold} {r : DT Int} {am : List Nat} {t : Tree}
    (hct : contractTree net data (.node sl sr) = .ok (r, am, t))
    (hok : ∀ x ∈ treeOKList net t, x = true) (hroot : rootOK net t am = true)
    {v : STensor} (hv : dget net.tensors (-1) = some v) (idx : List Nat)
    (hidx : List.Forall₂ (fun i d => i < d) idx v.shape) :
    toFullSem r am idx = full net (dataAcc data) idx := by
  have hwf : WF net := wf_of_consistent hrep (isConsistentData_ok hcd).1
  unfold contractTree at hct
  simp only [bind, Except.bind] at hct
  split at hct
  · cases hct
  rename_i tree0 h0
  split at hct
  · cases hct
  rename_i prep hprep
  obtain ⟨t', perm, am'⟩ := prep
  simp only at hct
  split at hct
  · cases hct
  split at hct
  · cases hct
  rename_i r' hr'
  simp only [pure, Except.pure, Except.ok.injEq, Prod.mk.injEq] at hct
  obtain ⟨rfl, rfl, rfl⟩ := hct
  unfold buildContractionTree at h0
  obtain ⟨tL, tR, i0, k', hL, hR, rfl⟩ := buildTree_node_inv h0
  obtain ⟨i', rfl⟩ := contractTreePrep_node hprep
  simp only at hr'
  have hleaf : ∀ i ∈ leafInfos (Tree.node i' tL tR), LeafDataOK net (dataAcc data) (tensorDict net data) i := by
    intro i hi
    have hlc := leafOK_cert (hok _ (leafOK_mem_treeOKList _ i hi))
    have hid : LeafId net i := by
      simp only [leafInfos, List.mem_append] at hi
      rcases hi with h | h
      · exact buildTree_leafId _ _ _ hL i h
      · exact buildTree_leafId _ _ _ hR i h
    exact leafData_of_leafId hwf hlc.info hid (fun T hT => tensorDict_ok hwf.tkey hcd hlc.ne hT)
  have hnc : NodeCert net i' tL.info tR.info := nodeOK_cert (hok _ (by simp [treeOKList]))
  exact tree_sound hwf hv (dataAcc data) (tensorDict net data) _ _ hok hroot hnc.legB_inj hleaf hr' idx hidx

end Qib.TNet
