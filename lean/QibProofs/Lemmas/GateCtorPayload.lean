import QibProofs.Lemmas.GateCtor
/-!
The payload assumptions stated on the caller's EXPRESSION (`Expr.PayloadOK`) and their transport to the tree of the constructed
object (`eval_payloadOK`): helper lemmas for `C01_construct_unitary_of_arguments` (`Properties/C01Ctor.lean`). No property statements.
-/
open Matrix Qib Qib.Mat Qib.Gate

namespace Qib.GateCtor

/-- `e.PayloadOK`: every numerical payload named in the expression satisfies the recorded assumption of its class (closed forms
unitary with their inverse, `expm` results mutually inverse unitaries, `qr` factor real orthogonal, block-encoding hypotheses), and
every user matrix is EXACTLY unitary. Nothing is assumed about shapes, lengths, patterns, arities: those are the constructors' job. -/
inductive Expr.PayloadOK : Expr → Prop
  | leaf (cls : String) (m mi : Mat) (f : Bool) (q : Slot) (h : (Tree.leaf cls 1 m mi f).PayloadOK) : Expr.PayloadOK (.leaf cls m mi f q)
  | leaf2 (cls : String) (m mi : Mat) (f : Bool) (q1 q2 : Slot) (h : (Tree.leaf cls 2 m mi f).PayloadOK) :
      Expr.PayloadOK (.leaf2 cls m mi f q1 q2)
  | iswap (q1 q2 : Slot) (m mi : Mat) (h : (Tree.leaf "ISwapGate" 2 m mi false).PayloadOK) : Expr.PayloadOK (.iswap q1 q2 m mi)
  | rotation (shape : List ℕ) (q : Slot) (m mi : Mat) (h : (Tree.leaf "RotationGate" 1 m mi false).PayloadOK) :
      Expr.PayloadOK (.rotation shape q m mi)
  | phase (nw : ℤ) (m mi : Mat) (h : (Tree.leaf "PhaseFactorGate" nw.toNat m mi false).PayloadOK) : Expr.PayloadOK (.phase nw m mi)
  | prepare (v : NdArr) (nq : ℤ) (tr : Bool) (q : Mat) (x : List ℚ) (h : (Tree.prepare nq.toNat q x tr).PayloadOK) :
      Expr.PayloadOK (.prepare v nq tr q x)
  | general (a : NdArr) (nw : ℤ)
      (h : (a.toMat (2 ^ nw.toNat)).toM (2 ^ nw.toNat) (2 ^ nw.toNat) * ((a.toMat (2 ^ nw.toNat)).toM (2 ^ nw.toNat) (2 ^ nw.toNat))ᴴ = 1) :
      Expr.PayloadOK (.general a nw)
  | timeEvo (w : ℕ) (hm : Mat) (t : ℚ) (m mi : Mat) (h : (Tree.timeEvo w m mi).PayloadOK) : Expr.PayloadOK (.timeEvo w hm t m mi)
  | block (ns : ℕ) (meth : Method) (hm s : Mat) (h : (Tree.block (ns + 1) meth hm s).PayloadOK) : Expr.PayloadOK (.block ns meth hm s)
  | controlled (tg : Expr) (nc : ℤ) (ctrl : Option (List ℚ)) (h : Expr.PayloadOK tg) : Expr.PayloadOK (.controlled tg nc ctrl)
  | multiplexed (tgs : List Expr) (nc : ℤ) (h : ∀ tg ∈ tgs, Expr.PayloadOK tg) : Expr.PayloadOK (.multiplexed tgs nc)
  | call (e : Expr) (c : Call) (h : Expr.PayloadOK e) : Expr.PayloadOK (.call e c)

mutual
/-- the payload assumptions on the expression are the payload assumptions on the tree of the object it evaluates to -/
theorem eval_payloadOK : ∀ (e : Expr) (o : Obj), eval e = .ok o → e.PayloadOK → o.tree.PayloadOK
  | .leaf cls m mi f q, o, h, hp => by
    rw [eval_leaf] at h; cases h
    cases hp with | leaf _ _ _ _ _ h => exact h
  | .leaf2 cls m mi f q1 q2, o, h, hp => by
    rw [eval_leaf2] at h; cases h
    cases hp with | leaf2 _ _ _ _ _ _ h => exact h
  | .iswap q1 q2 m mi, o, h, hp => by
    rw [eval_iswap] at h
    obtain ⟨_, rfl⟩ := (ctorIswap_ok_iff ..).mp h
    cases hp with | iswap _ _ _ _ h => exact h
  | .rotation shape q m mi, o, h, hp => by
    rw [eval_rotation] at h
    obtain ⟨_, rfl⟩ := (ctorRotation_ok_iff ..).mp h
    cases hp with | rotation _ _ _ _ h => exact h
  | .phase nw m mi, o, h, hp => by
    rw [eval_phase] at h; cases h
    cases hp with | phase _ _ _ h => exact h
  | .prepare v nq tr q x, o, h, hp => by
    rw [eval_prepare] at h
    obtain ⟨_, _, rfl⟩ := (ctorPrepare_ok_iff ..).mp h
    cases hp with | prepare _ _ _ _ _ h => exact h
  | .general a nw, o, h, hp => by
    rw [eval_general] at h
    obtain ⟨_, rfl⟩ := (ctorGeneral_ok_iff ..).mp h
    cases hp with | general _ _ h => exact .general _ _ h
  | .timeEvo w hm t m mi, o, h, hp => by
    rw [eval_timeEvo] at h; cases h
    cases hp with | timeEvo _ _ _ _ _ h => exact h
  | .block ns meth hm s, o, h, hp => by
    rw [eval_block] at h; cases h
    cases hp with | block _ _ _ _ h => exact h
  | .controlled tg nc ctrl, o, h, hp => by
    rw [eval_controlled] at h
    obtain ⟨t, ht, ho⟩ := bind_eq_ok.mp h
    obtain ⟨_, rfl⟩ := (ctorControlled_ok_iff ..).mp ho
    cases hp with
    | controlled _ _ _ hp' => exact .controlled _ _ (eval_payloadOK tg t ht hp')
  | .multiplexed tgs nc, o, h, hp => by
    rw [eval_multiplexed] at h
    obtain ⟨ts, hts, ho⟩ := bind_eq_ok.mp h
    obtain ⟨_, rfl⟩ := (ctorMultiplexed_ok_iff ..).mp ho
    cases hp with
    | multiplexed _ _ hp' =>
      refine .multiplexed _ _ ?_
      intro tr htr
      obtain ⟨t, ht, rfl⟩ := List.mem_map.mp htr
      exact evalList_payloadOK tgs ts hts hp' t ht
  | .call e c, o, h, hp => by
    rw [eval_call] at h
    obtain ⟨o1, ho1, ho⟩ := bind_eq_ok.mp h
    obtain ⟨_, _, rfl⟩ := (applyCall_ok_iff ..).mp ho
    cases hp with
    | call _ _ hp' => exact eval_payloadOK e o1 ho1 hp'
theorem evalList_payloadOK : ∀ (es : List Expr) (os : List Obj), evalList es = .ok os → (∀ e ∈ es, e.PayloadOK) →
    ∀ o ∈ os, o.tree.PayloadOK
  | [], os, h, _ => by rw [evalList_nil] at h; cases h; intro o ho; cases ho
  | e :: es, os, h, hp => by
    rw [evalList_cons] at h
    obtain ⟨o1, ho1, h'⟩ := bind_eq_ok.mp h
    obtain ⟨os', hos', h''⟩ := bind_eq_ok.mp h'
    cases h''
    intro o ho
    rcases List.mem_cons.mp ho with rfl | ho
    · exact eval_payloadOK e _ ho1 (hp e List.mem_cons_self)
    · exact evalList_payloadOK es os' hos' (fun e' he' => hp e' (List.mem_cons_of_mem _ he')) o ho
end

end Qib.GateCtor
