import QibProofs.Lemmas.CircuitNetData
/-!
Helper lemmas for C05 (tensor-network part), part 2: re-numbering the data references of a gate network
(`rerefTN`) changes neither its well-formedness nor its value. No property statements.
-/
namespace Qib.CircuitNet
open Qib.TNet Qib.GateNet

/-- the symbolic part of `rerefTN` -/
def rerefNet (ref0 : Int) (net : Net) : Net :=
  ⟨net.tensors.map (fun e => (e.1, rerefTensor ref0 e.2)), net.bonds⟩

theorem rerefTN_net {α : Type} (ref0 : Int) (tn : TN α) : (rerefTN ref0 tn).net = rerefNet ref0 tn.net := rfl

theorem dkeys_reref (ref0 : Int) (net : Net) : dkeys (rerefNet ref0 net).tensors = dkeys net.tensors := by
  simp [rerefNet, dkeys, List.map_map, Function.comp_def]

theorem dget_reref (ref0 : Int) (net : Net) (k : Int) :
    dget (rerefNet ref0 net).tensors k = (dget net.tensors k).map (rerefTensor ref0) := by
  simp only [rerefNet, dget]
  induction net.tensors with
  | nil => rfl
  | cons e es ih =>
    obtain ⟨a, b⟩ := e
    simp only [List.map_cons, List.lookup]
    split
    · rfl
    · exact ih

theorem legDims_reref (ref0 : Int) (net : Net) : legDims (rerefNet ref0 net) = legDims net := by
  simp [legDims, rerefNet, List.flatMap_map, rerefTensor]

theorem tLegs_reref (ref0 : Int) (net : Net) : tLegs (rerefNet ref0 net) = tLegs net := by
  simp [tLegs, rerefNet, List.flatMap_map, rerefTensor]

theorem bLegs_reref (ref0 : Int) (net : Net) : bLegs (rerefNet ref0 net) = bLegs net := rfl

theorem bondDim_reref (ref0 : Int) (net : Net) : bondDim (rerefNet ref0 net) = bondDim net := by
  funext b; simp [bondDim, legDims_reref]

theorem realTensors_reref (ref0 : Int) (net : Net) :
    realTensors (rerefNet ref0 net) = (realTensors net).map (rerefTensor ref0) := by
  simp only [realTensors, rerefNet, List.filter_map, List.map_map]
  rfl

theorem wf_reref {ref0 : Int} {net : Net} (h : WF net) : WF (rerefNet ref0 net) where
  tnodup := by rw [dkeys_reref]; exact h.tnodup
  bnodup := h.bnodup
  tkey := by
    intro e he
    obtain ⟨e0, he0, rfl⟩ := List.mem_map.mp he
    exact h.tkey e0 he0
  bkey := h.bkey
  tshape := by
    intro e he
    obtain ⟨e0, he0, rfl⟩ := List.mem_map.mp he
    exact h.tshape e0 he0
  bsorted := h.bsorted
  blen := h.blen
  legs := by rw [tLegs_reref, bLegs_reref]; exact h.legs
  dims := by rw [legDims_reref]; exact h.dims
  virt := by rw [dkeys_reref]; exact h.virt

theorem inv_reref {ref0 : Int} {net : Net} (h : C08.Inv net) : C08.Inv (rerefNet ref0 net) :=
  (C08.C08_inv_iff_wf _).mpr (wf_reref ((C08.C08_inv_iff_wf _).mp h))

section Value
variable {α : Type} [Zero α] [One α] [Add α] [Mul α]

/-- the value of the re-numbered network under `D` is the value of the original under `D ∘ reref` -/
theorem full_reref (ref0 : Int) (net : Net) (D : Option Int → List Nat → α) (idx : List Nat) :
    full (rerefNet ref0 net) D idx = full net (fun r => D (r.map (reref ref0))) idx := by
  unfold full
  rw [dget_reref]
  cases hv : dget net.tensors (-1) with
  | none => rfl
  | some v =>
    simp only [Option.map_some]
    have hb : (rerefTensor ref0 v).bids = v.bids := rfl
    have hi : internalBids (rerefNet ref0 net) (rerefTensor ref0 v) = internalBids net v := rfl
    rw [hb, hi, bondDim_reref, realTensors_reref]
    simp only [List.map_map, Function.comp_def, rerefTensor]

end Value

section Access
variable {α : Type} [Zero α]

theorem lookup_map_key_inj {β : Type} (l : List (Int × β)) (f : Int → Int) (k : Int)
    (hinj : ∀ k' ∈ dkeys l, f k' = f k → k' = k) :
    (l.map (fun e => (f e.1, e.2))).lookup (f k) = l.lookup k := by
  induction l with
  | nil => rfl
  | cons e es ih =>
    obtain ⟨a, b⟩ := e
    simp only [List.map_cons, lookup_cons']
    by_cases h : k = a
    · subst h; simp
    · have : ¬ f k = f a := fun e => h (hinj a (by simp [dkeys]) e.symm).symm
      rw [if_neg h, if_neg this]
      exact ih (fun k' hk' => hinj k' (by simp only [dkeys, List.map_cons, List.mem_cons] at hk' ⊢; exact Or.inr hk'))

/-- the re-numbered dictionary read at the re-numbered reference gives the original array, as long as the new number
of reference `0` does not collide with another reference of the gate network -/
theorem D_reref (ref0 : Int) (tn : TN α) (hfresh : ∀ k ∈ dkeys tn.data, k ≠ 0 → k ≠ ref0) (r : Option Int)
    (hr : ∀ k, r = some k → (k = 0 ∨ k ≠ ref0)) :
    (rerefTN ref0 tn).D (r.map (reref ref0)) = tn.D r := by
  funext idx
  cases r with
  | none => rfl
  | some k =>
    simp only [Option.map_some, TN.D, rerefTN]
    rw [lookup_map_key_inj tn.data (reref ref0) k]
    intro k' hk' he
    unfold reref at he
    by_cases h1 : k' = 0 <;> by_cases h2 : k = 0
    · rw [h1, h2]
    · simp only [h1, h2, if_true, if_false] at he
      rcases hr k rfl with h | h
      · exact absurd h h2
      · exact absurd he.symm h
    · simp only [h1, h2, if_true, if_false] at he
      exact absurd he (hfresh k' hk' h1)
    · simpa [h1, h2] using he

end Access

end Qib.CircuitNet
