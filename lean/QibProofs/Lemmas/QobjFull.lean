import QibModel.QobjFull
/-!
Helper lemmas for `QibProofs/Properties/C18Qobj.lean`: dictionary assignment / update on association lists with distinct keys,
`optional()` as a filter, attribute lookup of `WMIOptions(**kw)`, injectivity of the canonical instruction rendering.
-/
namespace Qib.Wmi.Full
open QibGen.Wmi (Val QEnv RSrc Proc)

/-! ### `d[k] = v` and `d.update(u)` on distinct keys -/

theorem dictSet_append (d : Dict) (k : String) (v : Val) (h : k ∉ d.map (·.1)) : dictSet d k v = d ++ [(k, v)] := by
  induction d with
  | nil => rfl
  | cons p r ih =>
    obtain ⟨k', v'⟩ := p
    simp only [List.map_cons, List.mem_cons, not_or] at h
    have hne : ¬ k' = k := fun e => h.1 e.symm
    simp [dictSet, hne, ih h.2]

theorem dictUpdate_append (d u : Dict) (hu : (u.map (·.1)).Nodup) (hd : ∀ k ∈ u.map (·.1), k ∉ d.map (·.1)) :
    dictUpdate d u = d ++ u := by
  unfold dictUpdate
  induction u generalizing d with
  | nil => simp
  | cons p r ih =>
    obtain ⟨k, v⟩ := p
    simp only [List.map_cons, List.nodup_cons] at hu
    simp only [List.foldl_cons]
    rw [dictSet_append d k v (hd k (by simp))]
    rw [ih (d ++ [(k, v)]) hu.2]
    · simp
    · intro k' hk' hmem
      simp only [List.map_append, List.map_cons, List.map_nil, List.mem_append, List.mem_singleton] at hmem
      rcases hmem with hmem | hmem
      · exact hd k' (by simp [hk']) hmem
      · subst hmem; exact hu.1 hk'

/-! ### `optional()` is a filter -/

/-- the entry a row contributes -/
def rowEntry (a : Dict) (r : String × String × String) : Option (String × Val) :=
  if (attr a r.1).truthy then some (r.2.1, attr a r.2.2) else none

theorem filterMap_rowEntry_keys (a : Dict) (rows : List (String × String × String)) :
    ∀ k ∈ (rows.filterMap (rowEntry a)).map (·.1), k ∈ rows.map (·.2.1) := by
  intro k hk
  simp only [List.mem_map, List.mem_filterMap] at hk ⊢
  obtain ⟨⟨k', v⟩, ⟨r, hr, hre⟩, rfl⟩ := hk
  refine ⟨r, hr, ?_⟩
  unfold rowEntry at hre
  split at hre
  · cases hre; rfl
  · cases hre

theorem filterMap_rowEntry_keys_sublist (a : Dict) (rows : List (String × String × String)) :
    ((rows.filterMap (rowEntry a)).map (·.1)).Sublist (rows.map (·.2.1)) := by
  induction rows with
  | nil => simp
  | cons r rs ih =>
    simp only [List.filterMap_cons, List.map_cons]
    by_cases ht : (attr a r.1).truthy = true
    · have h2 : rowEntry a r = some (r.2.1, attr a r.2.2) := by simp [rowEntry, ht]
      simp only [h2, List.map_cons]
      exact ih.cons_cons _
    · have h2 : rowEntry a r = none := by simp [rowEntry, ht]
      simp only [h2]
      exact ih.cons _

theorem optionalOf_foldl (a : Dict) (rows : List (String × String × String)) (acc : Dict)
    (hn : (rows.map (·.2.1)).Nodup) (hd : ∀ k ∈ rows.map (·.2.1), k ∉ acc.map (·.1)) :
    rows.foldl (optionalStep a) acc = acc ++ rows.filterMap (rowEntry a) := by
  induction rows generalizing acc with
  | nil => simp
  | cons r rs ih =>
    simp only [List.map_cons, List.nodup_cons] at hn
    simp only [List.foldl_cons, List.filterMap_cons]
    by_cases ht : (attr a r.1).truthy = true
    · have h1 : optionalStep a acc r = acc ++ [(r.2.1, attr a r.2.2)] := by
        simp only [optionalStep, ht, if_true]
        exact dictSet_append _ _ _ (hd _ (by simp))
      have h2 : rowEntry a r = some (r.2.1, attr a r.2.2) := by simp [rowEntry, ht]
      rw [h1, h2, ih _ hn.2]
      · simp
      · intro k hk hmem
        simp only [List.map_append, List.map_cons, List.map_nil, List.mem_append, List.mem_singleton] at hmem
        rcases hmem with hmem | hmem
        · exact hd k (by simp [hk]) hmem
        · subst hmem; exact hn.1 hk
    · have h1 : optionalStep a acc r = acc := by simp [optionalStep, ht]
      have h2 : rowEntry a r = none := by simp [rowEntry, ht]
      rw [h1, h2, ih _ hn.2]
      intro k hk; exact hd k (by simp [hk])

/-- with pairwise distinct keys, `optional()` is: the rows whose tested attribute is truthy, in order -/
theorem optionalOf_eq_filterMap (a : Dict) (rows : List (String × String × String)) (hn : (rows.map (·.2.1)).Nodup) :
    optionalOf rows a = rows.filterMap (rowEntry a) := by
  unfold optionalOf
  rw [optionalOf_foldl a rows [] hn (by simp)]
  simp

/-- lookup in the filter, for rows that test, name and copy the same attribute -/
theorem lookup_filterMap_rowEntry (a : Dict) (rows : List (String × String × String))
    (hwf : ∀ r ∈ rows, r.1 = r.2.1 ∧ r.2.2 = r.2.1) (k : String) :
    (rows.filterMap (rowEntry a)).lookup k =
      if k ∈ rows.map (·.2.1) ∧ (attr a k).truthy = true then some (attr a k) else none := by
  induction rows with
  | nil => simp
  | cons r rs ih =>
    have hr := hwf r (by simp)
    have ih' := ih (fun r' h' => hwf r' (by simp [h']))
    simp only [List.filterMap_cons]
    by_cases hk : k = r.2.1
    · subst hk
      by_cases ht : (attr a r.2.1).truthy = true
      · have : rowEntry a r = some (r.2.1, attr a r.2.1) := by simp [rowEntry, hr.1, hr.2, ht]
        simp [this, ht]
      · have : rowEntry a r = none := by simp [rowEntry, hr.1, ht]
        simp [this, ih', ht]
    · have hmem : (k ∈ (r :: rs).map (·.2.1)) ↔ (k ∈ rs.map (·.2.1)) := by simp [hk]
      cases hre : rowEntry a r with
      | none => simp only [ih', hmem]
      | some e =>
        have he : e.1 = r.2.1 := by
          unfold rowEntry at hre; split at hre
          · cases hre; rfl
          · cases hre
        have hne : (k == e.1) = false := by simp [he, hk]
        obtain ⟨e1, e2⟩ := e
        simp only [List.lookup, hne, ih', hmem]

/-! ### Paths -/

theorem getPath_two (v c : Val) (k₁ k₂ : String) (h : getPath [k₁] v = some c) : getPath [k₁, k₂] v = child c k₂ := by
  simp only [getPath] at h ⊢
  cases h1 : child v k₁ with
  | none => rw [h1] at h; cases h
  | some c' =>
    rw [h1] at h; cases h
    cases h2 : child c k₂ <;> simp [h2]

/-! ### `WMIOptions(**kw)` -/

theorem lookup_map_assign (assign : List (String × String)) (g : String → Val) (a : String) :
    (assign.map fun ap => (ap.1, g ap.2)).lookup a = (assign.lookup a).map g := by
  induction assign with
  | nil => rfl
  | cons p r ih =>
    obtain ⟨a', p'⟩ := p
    by_cases h : a = a'
    · subst h; simp [List.lookup]
    · have : (a == a') = false := by simp [h]
      simp [List.lookup, this, ih]

theorem mkOptionsOf_ok (params : Dict) (assign : List (String × String)) (kw o : Dict) (h : mkOptionsOf params assign kw = .ok o) :
    o = assign.map (fun ap => (ap.1, (kw.lookup ap.2).getD (attr params ap.2))) ∧
    ∀ p ∈ kw, p.1 ∈ params.map (·.1) := by
  unfold mkOptionsOf at h
  split at h
  · cases h
  · rename_i hnone
    refine ⟨by cases h; rfl, ?_⟩
    intro p hp
    have := List.find?_eq_none.mp hnone p hp
    simpa using this

/-- an attribute stored under the name of its parameter holds the caller's value, or the default -/
theorem attr_mkOptionsOf (params : Dict) (assign : List (String × String)) (kw o : Dict) (h : mkOptionsOf params assign kw = .ok o)
    (p : String) (hp : assign.lookup p = some p) : attr o p = (kw.lookup p).getD (attr params p) := by
  rw [(mkOptionsOf_ok params assign kw o h).1]
  unfold attr
  rw [lookup_map_assign assign (fun q => (kw.lookup q).getD ((params.lookup q).getD .none)) p, hp]
  rfl

/-! ### Canonical instruction rendering is injective -/

theorem intsVal_inj (l₁ l₂ : List Int) (h : intsVal l₁ = intsVal l₂) : l₁ = l₂ := by
  unfold intsVal at h
  injection h with h
  exact (List.map_inj_right (by intro x y hxy; injection hxy)).mp h

theorem strsVal_inj (l₁ l₂ : List String) (h : l₁.map Val.str = l₂.map Val.str) : l₁ = l₂ :=
  (List.map_inj_right (by intro x y hxy; injection hxy)).mp h

theorem instrVal_inj (q₁ q₂ : QInstr) (h : instrVal q₁ = instrVal q₂) : q₁ = q₂ := by
  unfold instrVal at h
  injection h with h
  simp only [List.cons.injEq, Prod.mk.injEq, true_and, and_true, Val.str.injEq, Val.list.injEq] at h
  obtain ⟨hn, hq, hp, hm⟩ := h
  cases q₁; cases q₂
  simp only at hn hq hp hm
  simp only [QInstr.mk.injEq]
  exact ⟨hn, intsVal_inj _ _ hq, strsVal_inj _ _ hp, intsVal_inj _ _ hm⟩

theorem toQ_inj (i₁ i₂ : Instr) (h : i₁.toQ = i₂.toQ) : i₁ = i₂ := by
  cases i₁; cases i₂
  simp only [Instr.toQ, QInstr.mk.injEq] at h
  simp only [Instr.mk.injEq]
  exact h

theorem instructions_inj (l₁ l₂ : List Instr)
    (h : Val.list ((l₁.map Instr.toQ).map instrVal) = Val.list ((l₂.map Instr.toQ).map instrVal)) : l₁ = l₂ := by
  injection h with h
  have h1 := (List.map_inj_right instrVal_inj).mp h
  exact (List.map_inj_right toQ_inj).mp h1

end Qib.Wmi.Full
