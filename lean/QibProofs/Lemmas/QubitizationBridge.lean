import QibProofs.Lemmas.QubitizationMat
import QibProofs.Lemmas.Embed
import QibProofs.Lemmas.GateAlgebra
import QibProofs.Lemmas.GateBridge
import Mathlib.Tactic.FinCases
import Mathlib.Data.Fin.SuccPred
import Mathlib.Data.Fin.Tuple.Basic
/-!
Helper lemmas for C19: the matrix of the basis-state action of an emitted (multi-)controlled single-qubit gate
(`gateMat`, `QubitizationMat.lean`) is the wire embedding (`embed`, Core B / C04) of the controlled-gate combinator
(`blockOn`, Core A / C02: `np.kron(diag(1-c), I) + np.kron(diag(c), U)`) applied to the target matrix.
No property statements here.
-/
open Matrix Complex Qib.Embed Qib.GateAlgebra

namespace Qib.Qubitization

/-- bit ↦ index of a 2×2 matrix -/
def b2f (b : Bool) : Fin 2 := if b then 1 else 0

theorem b2f_injective : Function.Injective b2f := by
  intro a b h; cases a <;> cases b <;> simp_all [b2f]

/-- (control bits, target bit) of the `k+1` wires of a `k`-fold controlled single-qubit gate: controls first, i.e.
`|control⟩ ⊗ |target⟩` of `ControlledGate.as_matrix` -/
def splitCT (k : ℕ) (r : Fin (k + 1) → Bool) : (Fin k → Bool) × Fin 2 := (Fin.init r, b2f (r (Fin.last k)))

/-- `ControlledGate(U-gate, k, [0]*k).as_matrix()` in bit-function indexing -/
def ctrlGate (k : ℕ) (U : Matrix (Fin 2) (Fin 2) ℂ) : Matrix (Fin (k + 1) → Bool) (Fin (k + 1) → Bool) ℂ :=
  (blockOn (fun _ : Fin k => false) U).submatrix (splitCT k) (splitCT k)

/-- a single-qubit gate that maps basis states to basis states times phases, given by its action -/
noncomputable def monoMat (u : Bool → Bool × ℝ) : Matrix (Fin 2) (Fin 2) ℂ :=
  fun i j => if i = b2f (u (j = 1)).1 then Complex.exp (I * ((u (j = 1)).2 : ℂ)) else 0

theorem monoMat_b2f (u : Bool → Bool × ℝ) (x y : Bool) :
    monoMat u (b2f x) (b2f y) = if x = (u y).1 then Complex.exp (I * ((u y).2 : ℂ)) else 0 := by
  have : (decide (b2f y = 1)) = y := by cases y <;> simp [b2f]
  simp only [monoMat, this, b2f_injective.eq_iff]

/-- the action of a single-qubit gate `u` on qubit `t`, controlled on the qubits `ctrls` all reading 0 -/
noncomputable def ctrlAct (ctrls : List ℕ) (t : ℕ) (u : Bool → Bool × ℝ) : (ℕ → Bool) → (ℕ → Bool) × ℝ :=
  fun bits => if AllZero bits ctrls then (Function.update bits t (u (bits t)).1, (u (bits t)).2) else (bits, 0)

section Bridge
variable {n k : ℕ} (iw : Fin (k + 1) ↪ Fin n)

/-- labels of the control wires, in the order of `set_control` -/
def ctrlLabels : List ℕ := List.ofFn fun j : Fin k => (iw j.castSucc).1

/-- label of the target wire -/
def tgtLabel : ℕ := (iw (Fin.last k)).1

theorem allZero_ctrlLabels (C : Fin n → Bool) :
    AllZero (ext n C) (ctrlLabels iw) ↔ ∀ j : Fin k, C (iw j.castSucc) = false := by
  simp only [AllZero, ctrlLabels, List.mem_ofFn]
  constructor
  · intro h j
    have := h _ ⟨j, rfl⟩
    rwa [ext_apply_lt C (iw j.castSucc).2] at this
  · rintro h e ⟨j, rfl⟩
    rw [ext_apply_lt C (iw j.castSucc).2]; exact h j

theorem res_update_ext (C : Fin n → Bool) (t : Fin n) (b : Bool) :
    res n (Function.update (ext n C) t.1 b) = Function.update C t b := by
  funext x
  by_cases hx : x = t
  · subst hx; simp [res]
  · have : x.1 ≠ t.1 := fun h => hx (Fin.ext h)
    simp [res, Function.update_of_ne this, Function.update_of_ne hx, ext]

/-- `R` is `C` with the target bit replaced by `b` iff they agree off the gate's wires, on the control wires, and `R` reads
`b` on the target -/
theorem eq_update_iff (R C : Fin n → Bool) (b : Bool) :
    Function.update C (iw (Fin.last k)) b = R ↔
      AgreeOff iw R C ∧ Fin.init (R ∘ iw) = Fin.init (C ∘ iw) ∧ R (iw (Fin.last k)) = b := by
  constructor
  · rintro rfl
    refine ⟨?_, ?_, by simp⟩
    · intro x hx
      have : x ≠ iw (Fin.last k) := fun h => hx ⟨_, h.symm⟩
      simp [Function.update_of_ne this]
    · funext j
      have : iw j.castSucc ≠ iw (Fin.last k) := fun h => (Fin.castSucc_lt_last j).ne (iw.injective h)
      simp [Fin.init]
  · rintro ⟨h1, h2, h3⟩
    funext x
    by_cases hx : ∃ a, iw a = x
    · obtain ⟨a, rfl⟩ := hx
      refine Fin.lastCases ?_ (fun j => ?_) a
      · simp [h3]
      · have hne : iw j.castSucc ≠ iw (Fin.last k) := fun h => (Fin.castSucc_lt_last j).ne (iw.injective h)
        have := congrFun h2 j
        simp only [Fin.init, Function.comp] at this
        rw [Function.update_of_ne hne, this]
    · have : x ≠ iw (Fin.last k) := fun h => hx ⟨_, h.symm⟩
      rw [Function.update_of_ne this, h1 x hx]

theorem init_eq_false_iff (C : Fin n → Bool) :
    Fin.init (C ∘ iw) = (fun _ : Fin k => false) ↔ ∀ j : Fin k, C (iw j.castSucc) = false := by
  constructor
  · intro h j; exact congrFun h j
  · intro h; funext j; exact h j

/-- **bridge**: the matrix of the controlled action on the register = wire embedding of the controlled-gate combinator -/
theorem actMat_ctrlAct (u : Bool → Bool × ℝ) :
    actMat n (ctrlAct (ctrlLabels iw) (tgtLabel iw) u) = embed iw (ctrlGate k (monoMat u)) := by
  ext R C
  have hext : ext n C (tgtLabel iw) = C (iw (Fin.last k)) := ext_apply_lt C (iw (Fin.last k)).2
  simp only [actMat, ctrlAct, embed, ctrlGate, Matrix.submatrix_apply, splitCT, blockOn, Function.comp, monoMat_b2f,
    allZero_ctrlLabels, hext]
  by_cases hz : ∀ j : Fin k, C (iw j.castSucc) = false
  · have hzi : Fin.init (C ∘ iw) = (fun _ : Fin k => false) := (init_eq_false_iff iw C).mpr hz
    simp only [hz, implies_true, if_true, tgtLabel, res_update_ext, eq_update_iff]
    by_cases h1 : AgreeOff iw R C
    · by_cases h2 : Fin.init (R ∘ iw) = Fin.init (C ∘ iw)
      · have hzr : Fin.init (R ∘ iw) = (fun _ : Fin k => false) := h2.trans hzi
        simp only [h1, h2, hzi, true_and, if_true]
      · simp only [h1, h2, false_and, and_false, if_false, if_true]
    · simp only [h1, false_and, if_false]
  · have hzi : ¬ Fin.init (C ∘ iw) = (fun _ : Fin k => false) := fun h => hz ((init_eq_false_iff iw C).mp h)
    simp only [hz, if_false, res_ext]
    have key := eq_update_iff iw R C (C (iw (Fin.last k)))
    rw [Function.update_eq_self] at key
    simp only [key]
    by_cases h1 : AgreeOff iw R C
    · by_cases h2 : Fin.init (R ∘ iw) = Fin.init (C ∘ iw)
      · have hzr : ¬ Fin.init (R ∘ iw) = (fun _ : Fin k => false) := fun h => hzi (h2.symm.trans h)
        simp only [h1, h2, hzi, true_and, if_true, if_false, splitCT, Function.comp, Matrix.one_apply, b2f_injective.eq_iff]
        simp
      · simp only [h1, h2, false_and, and_false, if_false, if_true]
    · simp only [h1, false_and, if_false]

end Bridge

/-- distinct in-range control and target labels are the image of a wire placement -/
theorem placement_exists (n : ℕ) (cs : List ℕ) (t : ℕ) (hnd : (cs ++ [t]).Nodup) (hlt : ∀ e ∈ cs ++ [t], e < n) :
    ∃ iw : Fin (cs.length + 1) ↪ Fin n, ctrlLabels iw = cs ∧ tgtLabel iw = t := by
  have hl : (cs ++ [t]).length = cs.length + 1 := by simp
  let f : Fin (cs.length + 1) → Fin n := fun j => ⟨(cs ++ [t])[j.1]'(by rw [hl]; exact j.2), hlt _ (List.getElem_mem _)⟩
  have hinj : Function.Injective f := by
    intro a b hab
    have h1 : (cs ++ [t])[a.1]'(by rw [hl]; exact a.2) = (cs ++ [t])[b.1]'(by rw [hl]; exact b.2) := congrArg Fin.val hab
    exact Fin.ext ((hnd.getElem_inj_iff).mp h1)
  refine ⟨⟨f, hinj⟩, ?_, ?_⟩
  · apply List.ext_getElem
    · simp [ctrlLabels]
    · intro j h1 h2
      simp only [ctrlLabels, List.getElem_ofFn, Function.Embedding.coeFn_mk, f, Fin.val_castSucc]
      exact List.getElem_append_left h2
  · simp only [tgtLabel, Function.Embedding.coeFn_mk, f, Fin.val_last]
    simp

/-- a gate embedded on wires that do not include wire `a` does not touch wire `a` -/
theorem embed_commute_wireZero {n m : ℕ} (iw : Fin m ↪ Fin n) (g : Matrix (Fin m → Bool) (Fin m → Bool) ℂ) (a : ℕ)
    (ha : ∀ j, (iw j).1 ≠ a) : embed iw g * wireZero n a = wireZero n a * embed iw g := by
  ext R C
  rw [wireZero, Matrix.mul_diagonal, Matrix.diagonal_mul]
  by_cases h : AgreeOff iw R C
  · have hRC : ext n R a = ext n C a := by
      by_cases han : a < n
      · rw [ext_apply_lt R han, ext_apply_lt C han]
        exact h ⟨a, han⟩ (by rintro ⟨j, hj⟩; exact ha j (congrArg Fin.val hj))
      · simp [ext, han]
    rw [hRC]; ring
  · simp [embed, h]

/-! ### the emitted gates as controlled actions -/

theorem flipBit_eq_update (bits : ℕ → Bool) (t : ℕ) : flipBit bits t = Function.update bits t (!bits t) := by
  funext x; by_cases h : x = t
  · subst h; simp [flipBit]
  · simp [flipBit, h]

/-- the multi-controlled X emitted by the auxiliary construction is the controlled action of the bit flip -/
theorem act_cx (ctrls : List ℕ) (t : ℕ) :
    (GateDesc.cx ctrls (List.replicate ctrls.length 0) t : GateDesc ℝ).act = ctrlAct ctrls t (fun b => (!b, 0)) := by
  funext bits
  have h := ctrlActive_zeros bits ctrls ctrls.length le_rfl
  simp only [GateDesc.act, ctrlAct]
  by_cases hz : AllZero bits ctrls
  · rw [if_pos (h.mpr hz), if_pos hz, flipBit_eq_update]
  · have : ¬ ctrlActive bits ctrls (List.replicate ctrls.length 0) = true := fun h' => hz (h.mp h')
    rw [if_neg this, if_neg hz]

/-- the controlled Rz emitted by the c-phase construction is the controlled action of the diagonal phase pair -/
theorem act_crz (a : ℝ) (ctrls : List ℕ) (t : ℕ) :
    (GateDesc.crz a ctrls (List.replicate ctrls.length 0) t : GateDesc ℝ).act = ctrlAct ctrls t (fun b => (b, rzPhase a b)) := by
  funext bits
  have h := ctrlActive_zeros bits ctrls ctrls.length le_rfl
  simp only [GateDesc.act, ctrlAct]
  by_cases hz : AllZero bits ctrls
  · rw [if_pos (h.mpr hz), if_pos hz, Function.update_eq_self]
  · have : ¬ ctrlActive bits ctrls (List.replicate ctrls.length 0) = true := fun h' => hz (h.mp h')
    rw [if_neg this, if_neg hz]

/-- an uncontrolled Rz is the same action without controls -/
theorem act_rz (a : ℝ) (t : ℕ) : (GateDesc.rz a t : GateDesc ℝ).act = ctrlAct [] t (fun b => (b, rzPhase a b)) := by
  funext bits
  simp only [GateDesc.act, ctrlAct, if_pos (allZero_nil bits), Function.update_eq_self]

/-! ### the generated closed forms as actions -/

open QibGen QibRef in
/-- `Rz(a)` (definition regenerated from `gates.py`) multiplies `|b⟩` by `e^{i·rzPhase a b}` -/
theorem rz_generated (a : ℝ) :
    RzGate.mat a = !![Complex.exp (I * (rzPhase a false : ℝ)), 0; 0, Complex.exp (I * (rzPhase a true : ℝ))] := by
  simp only [RzGate.mat, rzPhase]
  have e : (((1 : ℝ) : ℂ) * I) * ((a : ℝ) : ℂ) / (((2 : ℝ) : ℝ) : ℂ) = I * ((a / 2 : ℝ) : ℂ) := by push_cast; ring
  rw [e]
  have hc : starRingEnd ℂ (Complex.exp (I * ((a / 2 : ℝ) : ℂ))) = Complex.exp (I * ((-(a / 2) : ℝ) : ℂ)) := by
    rw [← Complex.exp_conj]; congr 1
    rw [map_mul, Complex.conj_I, Complex.conj_ofReal]; push_cast; ring
  rw [hc]
  ext i j; fin_cases i <;> fin_cases j <;> simp

open QibGen QibRef in
theorem x_generated : PauliXGate.mat = !![0, 1; 1, 0] := by
  simp only [PauliXGate.mat]; ext i j; fin_cases i <;> fin_cases j <;> simp

open QibGen QibRef in
theorem phase_generated (φ : ℝ) (k : ℕ) : PhaseFactorGate.mat φ k = Complex.exp (I * φ) • 1 := by
  simp only [PhaseFactorGate.mat]; congr 1; simp

open QibGen QibRef in
theorem monoMat_flip : monoMat (fun b => (!b, (0 : ℝ))) = PauliXGate.mat := by
  rw [x_generated]
  ext i j; fin_cases i <;> fin_cases j <;> simp [monoMat, b2f]

open QibGen QibRef in
theorem monoMat_rz (a : ℝ) : monoMat (fun b => (b, rzPhase a b)) = RzGate.mat a := by
  rw [rz_generated]
  ext i j; fin_cases i <;> fin_cases j <;> simp [monoMat, b2f]

end Qib.Qubitization
