import QibProofs.Lemmas.LatticeOfc
import QibModel.Compact
/-!
C13 helper lemmas, part 2: the qubit numbering of the encoding lattice. Primary qubits `vIdx` and auxiliary
qubits `fIdx` are in range, pairwise distinct, and determined by their coordinates (injectivity of
`coord_to_index`, from the C14 lemmas on the odd-face numbering).
-/
namespace Qib.Compact
open Qib.Lattice

theorem vIdx_lt {n0 n1 x y : Nat} (hx : x < n0) (hy : y < n1) : vIdx n1 x y < n0 * n1 := by
  unfold vIdx
  have : (x + 1) * n1 ≤ n0 * n1 := Nat.mul_le_mul_right n1 hx
  rw [Nat.succ_mul] at this
  omega

theorem nverts_le (n0 n1 : Nat) : n0 * n1 ≤ ofcNsites n0 n1 := by unfold ofcNsites; omega

theorem vIdx_lt_nsites {n0 n1 x y : Nat} (hx : x < n0) (hy : y < n1) : vIdx n1 x y < ofcNsites n0 n1 :=
  Nat.lt_of_lt_of_le (vIdx_lt hx hy) (nverts_le n0 n1)

theorem vIdx_inj {n1 x y x' y' : Nat} (hy : y < n1) (hy' : y' < n1) :
    vIdx n1 x y = vIdx n1 x' y' ↔ x = x' ∧ y = y' := by
  constructor
  · intro h
    unfold vIdx at h
    have h1 := (eq_mul_add_iff (j := x * n1 + y) (a := x') hy').mp h
    have h2 := (eq_mul_add_iff (j := x * n1 + y) (a := x) hy).mp rfl
    omega
  · rintro ⟨rfl, rfl⟩; rfl

/-- a numbered face: inside the rectangle, even coordinate sum -/
def FaceOK (n0 n1 x y : Nat) : Prop := x + 1 < n0 ∧ y + 1 < n1 ∧ (x + y) % 2 = 0

instance (n0 n1 x y : Nat) : Decidable (FaceOK n0 n1 x y) := by unfold FaceOK; infer_instance

theorem faceIn_iff (n0 n1 x y : Nat) : faceIn n0 n1 x y = true ↔ x + 1 < n0 ∧ y + 1 < n1 := by
  simp [faceIn]

theorem faceIndex_spec {n0 n1 x y : Nat} (h : FaceOK n0 n1 x y) :
    (cellsUpTo (n1 - 1) (n0 - 1))[faceIndex (n1 - 1) x y]? = some (x, y) := by
  obtain ⟨h1, h2, h3⟩ := h
  exact (cellsUpTo_getElem? (n1 - 1) (n0 - 1) _ x y).mpr ⟨by omega, by omega, h3, rfl⟩

theorem faceIndex_lt {n0 n1 x y : Nat} (h : FaceOK n0 n1 x y) :
    faceIndex (n1 - 1) x y < ((n0 - 1) * (n1 - 1) + 1) / 2 := by
  have := faceIndex_spec h
  rw [← cellsUpTo_length (n1 - 1) (n0 - 1)]
  by_contra hc
  rw [List.getElem?_eq_none (by omega)] at this
  cases this

theorem fIdx_lt {n0 n1 x y : Nat} (h : FaceOK n0 n1 x y) : fIdx n0 n1 x y < ofcNsites n0 n1 := by
  have := faceIndex_lt h
  unfold fIdx ofcNsites; omega

theorem fIdx_ge (n0 n1 x y : Nat) : n0 * n1 ≤ fIdx n0 n1 x y := by unfold fIdx; omega

theorem fIdx_inj {n0 n1 x y x' y' : Nat} (h : FaceOK n0 n1 x y) (h' : FaceOK n0 n1 x' y') :
    fIdx n0 n1 x y = fIdx n0 n1 x' y' ↔ x = x' ∧ y = y' := by
  constructor
  · intro e
    have e' : faceIndex (n1 - 1) x y = faceIndex (n1 - 1) x' y' := by unfold fIdx at e; omega
    have a := faceIndex_spec h
    have b := faceIndex_spec h'
    rw [e', b] at a
    simpa [eq_comm] using a
  · rintro ⟨rfl, rfl⟩; rfl

theorem vIdx_ne_fIdx {n0 n1 x y a b : Nat} (hx : x < n0) (hy : y < n1) : vIdx n1 x y ≠ fIdx n0 n1 a b := by
  have := vIdx_lt hx hy
  have := fIdx_ge n0 n1 a b
  omega

theorem fIdx_ne_vIdx {n0 n1 x y a b : Nat} (hx : x < n0) (hy : y < n1) : fIdx n0 n1 a b ≠ vIdx n1 x y :=
  fun e => vIdx_ne_fIdx hx hy e.symm

/-- the auxiliary qubit of an edge with smaller corner `(x, y)`, `x + y` even: the face below a horizontal edge /
to the right of a vertical edge -/
theorem auxFace_even (n0 n1 : Nat) (horiz : Bool) (x y : Nat) (hp : (x + y) % 2 = 0) :
    auxFace n0 n1 horiz x y = if x + 1 < n0 ∧ y + 1 < n1 then some (fIdx n0 n1 x y) else none := by
  simp only [auxFace, hp, faceIn, Bool.and_eq_true, decide_eq_true_eq]
  rfl

/-- `x + y` odd, horizontal edge: the face above -/
theorem auxFace_odd_h (n0 n1 x y : Nat) (hp : (x + y) % 2 = 1) :
    auxFace n0 n1 true x y = if 1 ≤ x ∧ x < n0 ∧ y + 1 < n1 then some (fIdx n0 n1 (x - 1) y) else none := by
  simp only [auxFace, hp, faceIn, Bool.and_eq_true, decide_eq_true_eq, beq_self_eq_true, if_true, beq_iff_eq]
  by_cases hx : x = 0
  · subst hx; simp
  · have e : x - 1 + 1 < n0 ↔ x < n0 := by omega
    have e' : 1 ≤ x := by omega
    simp only [hx, if_false, e, e', true_and]

/-- `x + y` odd, vertical edge: the face to the left -/
theorem auxFace_odd_v (n0 n1 x y : Nat) (hp : (x + y) % 2 = 1) :
    auxFace n0 n1 false x y = if 1 ≤ y ∧ x + 1 < n0 ∧ y < n1 then some (fIdx n0 n1 x (y - 1)) else none := by
  simp only [auxFace, hp, faceIn, Bool.and_eq_true, decide_eq_true_eq, beq_self_eq_true, if_true, beq_iff_eq,
    Bool.false_eq_true, if_false]
  by_cases hy : y = 0
  · subst hy; simp
  · have e : y - 1 + 1 < n1 ↔ y < n1 := by omega
    have e' : 1 ≤ y := by omega
    simp only [hy, if_false, e, e', true_and]

end Qib.Compact
