import QibProofs.Lemmas.EncodeLadder
import QibProofs.Lemmas.PauliOpSum
import Mathlib.Tactic.LinearCombination
/-!
Encoders (C11, C12): the matrix of the encoded operator.

* `expand_sum`        : the product expansion sums to the ordered product of `(s₀ + s₁)` matrices.
* `addStrings_mat`    : inserting the strings with their signs moved into the weight adds `w • Σ matrices`.
* `encodeEntry_mat`, `encodeTerm_mat`, `encodeRaw_mat` : one coefficient, one term, the whole operator:
  `mat (encodeRaw enc op) = Σ_terms Σ_entries coeff • Π encLadder`.
* for Jordan-Wigner the right-hand side is the field operator's own matrix (`refMat`, products of `ladder`).
Helper lemmas only.
-/
set_option linter.unusedVariables false
set_option linter.unnecessarySeqFocus false
open Complex Matrix
namespace Qib.Encode
open Qib.Pauli

variable {α : Type} [EncScalar α]

/-- what a map of the weights into ℂ has to respect for the theorems (the driver's `GQ.toC` does) -/
structure ScalarHom (φ : α → ℂ) : Prop where
  add : ∀ a b, φ (a + b) = φ a + φ b
  mul : ∀ a b, φ (a * b) = φ a * φ b
  one : φ 1 = 1
  half : φ EncScalar.half = 1 / 2
  ofInt : ∀ n : Int, φ (EncScalar.ofInt n) = (n : ℂ)
  zero : ∀ a, EncScalar.isZero a = true → φ a = 0

theorem GQ.toC_mul (a b : GQ) : (a * b).toC = a.toC * b.toC := by
  have h : a * b = ⟨a.re * b.re - a.im * b.im, a.re * b.im + a.im * b.re⟩ := rfl
  rw [h]
  simp only [GQ.toC, Rat.cast_sub, Rat.cast_add, Rat.cast_mul]
  linear_combination (-(a.im : ℂ) * (b.im : ℂ)) * I_mul_I

theorem GQ.scalarHom : ScalarHom GQ.toC where
  add := GQ.toC_add
  mul := GQ.toC_mul
  one := by show (⟨1, 0⟩ : GQ).toC = 1; simp [GQ.toC]
  half := by show (⟨1 / 2, 0⟩ : GQ).toC = 1 / 2; simp [GQ.toC]
  ofInt := fun n => by show (⟨(n : Rat), 0⟩ : GQ).toC = n; simp [GQ.toC]
  zero := fun a h => by
    have h' : (a.re == 0 && a.im == 0) = true := h
    simp only [Bool.and_eq_true, beq_iff_eq] at h'
    simp [GQ.toC, h'.1, h'.2]

theorem powHalf_hom {φ : α → ℂ} (hφ : ScalarHom φ) (k : ℕ) : φ (powHalf k) = (1 / 2 : ℂ) ^ k := by
  induction k with
  | zero => simpa [powHalf] using hφ.one
  | succ k ih => rw [powHalf, hφ.mul, ih, hφ.half, pow_succ]

/-! ### the product expansion -/

/-- sum of the matrices of a list of strings -/
noncomputable def sumMat (L : ℕ) (ps : List PS) : Matrix (Fin L → Bool) (Fin L → Bool) ℂ := (ps.map (PS.mat L)).sum

theorem sumMat_map_mul (L : ℕ) (ps : List PS) (a : PS) (ha : a.HasLen L) (hps : ∀ p ∈ ps, p.HasLen L) :
    sumMat L (ps.map (·.mul a)) = sumMat L ps * a.mat L := by
  induction ps with
  | nil => simp [sumMat]
  | cons p ps ih =>
    have := ih (fun q hq => hps q (List.mem_cons_of_mem _ hq))
    simp only [sumMat, List.map_cons, List.sum_cons] at this ⊢
    rw [this, mat_mul L p a (hps p (List.mem_cons_self ..)) ha, add_mul]

theorem expandStep_sum (L : ℕ) (ps : List PS) (a b : PS) (ha : a.HasLen L) (hb : b.HasLen L)
    (hps : ∀ p ∈ ps, p.HasLen L) :
    sumMat L (expandStep ps a b) = sumMat L ps * (a.mat L + b.mat L) := by
  have h1 := sumMat_map_mul L ps a ha hps
  have h2 := sumMat_map_mul L ps b hb hps
  simp only [sumMat] at h1 h2 ⊢
  rw [expandStep, List.map_append, List.sum_append, h1, h2, mul_add]

theorem expandStep_hasLen (L : ℕ) (ps : List PS) (a b : PS) (ha : a.HasLen L) (hb : b.HasLen L)
    (hps : ∀ p ∈ ps, p.HasLen L) : ∀ p ∈ expandStep ps a b, p.HasLen L := by
  intro p hp
  simp only [expandStep, List.mem_append, List.mem_map] at hp
  rcases hp with ⟨q, hq, rfl⟩ | ⟨q, hq, rfl⟩
  · exact mul_hasLen L q a (hps q hq) ha
  · exact mul_hasLen L q b (hps q hq) hb

/-- `s₀.mat + s₁.mat` -/
noncomputable def pairSum (enc : Enc) (L j : ℕ) (create : Bool) : Matrix (Fin L → Bool) (Fin L → Bool) ℂ :=
  (ladderPair enc L j create).1.mat L + (ladderPair enc L j create).2.mat L

theorem pairSum_eq (enc : Enc) (L j : ℕ) (create : Bool) : pairSum enc L j create = (2 : ℂ) • encLadder enc L j create := by
  simp only [pairSum, encLadder, smul_smul]; norm_num

/-- ordered product of the `(s₀ + s₁)` matrices along `zip(opdesc, multi_index)` -/
noncomputable def stringProd (enc : Enc) (L : ℕ) : List Desc → List ℕ → Matrix (Fin L → Bool) (Fin L → Bool) ℂ
  | d :: ds, j :: js => pairSum enc L j (d.otype == .create) * stringProd enc L ds js
  | _, _ => 1

/-- ordered product of the encoded ladder operators along `zip(opdesc, multi_index)` -/
noncomputable def ladderProd (enc : Enc) (L : ℕ) : List Desc → List ℕ → Matrix (Fin L → Bool) (Fin L → Bool) ℂ
  | d :: ds, j :: js => encLadder enc L j (d.otype == .create) * ladderProd enc L ds js
  | _, _ => 1

/-- ordered product of the reference ladder operators (the field operator's own `fstring`) -/
noncomputable def refProd (L : ℕ) : List Desc → List ℕ → Matrix (Fin L → Bool) (Fin L → Bool) ℂ
  | d :: ds, j :: js => ladder L j (d.otype == .create) * refProd L ds js
  | _, _ => 1

theorem stringProd_eq (enc : Enc) (L : ℕ) (ops : List Desc) (idx : List ℕ) (h : idx.length = ops.length) :
    ((1 / 2 : ℂ) ^ ops.length) • stringProd enc L ops idx = ladderProd enc L ops idx := by
  induction ops generalizing idx with
  | nil => cases idx <;> simp [stringProd, ladderProd]
  | cons d ds ih =>
    cases idx with
    | nil => simp at h
    | cons j js =>
      have := ih js (by simpa using h)
      simp only [stringProd, ladderProd, pairSum_eq, List.length_cons, ← this, Matrix.smul_mul, Matrix.mul_smul, smul_smul]
      congr 1
      rw [pow_succ]; ring

/-- a successful expansion: the strings sum to `Σ acc * Π (s₀ + s₁)`, all have length `L`, and every site index met
was `< L` with a fermionic operator type -/
theorem expand_sum (enc : Enc) (L : ℕ) (ops : List Desc) (idx : List ℕ) (acc out : List PS)
    (h : expand enc L ops idx acc = .ok out) (hacc : ∀ p ∈ acc, p.HasLen L) :
    sumMat L out = sumMat L acc * stringProd enc L ops idx ∧ (∀ p ∈ out, p.HasLen L) ∧
      (enc = .jw → ladderProd .jw L ops idx = refProd L ops idx) := by
  induction ops generalizing idx acc with
  | nil =>
    cases idx with
    | nil => simp only [expand, Except.ok.injEq] at h; subst h; exact ⟨by simp [stringProd], hacc, fun _ => by simp [ladderProd, refProd]⟩
    | cons j js => simp [expand] at h
  | cons d ds ih =>
    cases idx with
    | nil => simp only [expand, Except.ok.injEq] at h; subst h; exact ⟨by simp [stringProd], hacc, fun _ => by simp [ladderProd, refProd]⟩
    | cons j js =>
      cases hd : d.otype with
      | other => simp [expand, hd] at h
      | create =>
        simp only [expand, hd] at h
        by_cases hj : j < L
        · rw [if_pos hj] at h
          have ha := s0_hasLen enc L j hj
          have hb := s1c_hasLen enc L j hj
          obtain ⟨h1, h2, h3⟩ := ih js _ h (expandStep_hasLen L acc _ _ ha hb hacc)
          refine ⟨?_, h2, ?_⟩
          · rw [h1, expandStep_sum L acc _ _ ha hb hacc, mul_assoc]
            simp [stringProd, pairSum, ladderPair, hd]
          · intro he; subst he
            simp only [ladderProd, refProd, hd, h3 rfl, jw_ladder L j hj]
        · rw [if_neg hj] at h; simp at h
      | annihil =>
        simp only [expand, hd] at h
        by_cases hj : j < L
        · rw [if_pos hj] at h
          have ha := s0_hasLen enc L j hj
          have hb := s1a_hasLen enc L j hj
          obtain ⟨h1, h2, h3⟩ := ih js _ h (expandStep_hasLen L acc _ _ ha hb hacc)
          refine ⟨?_, h2, ?_⟩
          · rw [h1, expandStep_sum L acc _ _ ha hb hacc, mul_assoc]
            simp [stringProd, pairSum, ladderPair, hd]
          · intro he; subst he
            simp only [ladderProd, refProd, hd, h3 rfl, jw_ladder L j hj]
        · rw [if_neg hj] at h; simp at h

/-! ### inserting the strings -/

theorem addStrings_mat {φ : α → ℂ} (hφ : ScalarHom φ) (L : ℕ) (op : PauliOp α) (strings : List PS) (w : α) :
    PauliOp.mat φ L (addStrings op strings w) = PauliOp.mat φ L op + φ w • sumMat L strings := by
  induction strings generalizing op with
  | nil => simp [addStrings, sumMat]
  | cons p ps ih =>
    have := ih (op.add p.refactorSign.2 (EncScalar.ofInt p.refactorSign.1 * w))
    simp only [addStrings, List.foldl_cons] at this ⊢
    rw [this]
    simp only [PauliOp.mat, sumMat, List.map_cons, List.sum_cons, smul_add]
    rw [PauliOp.add_matG (PS.mat L) φ hφ.add, hφ.mul, hφ.ofInt, mul_comm, ← smul_smul, (refactorSign_spec L p).1]
    abel

/-! ### one coefficient, one term, the whole operator -/

theorem encodeEntry_mat {φ : α → ℂ} (hφ : ScalarHom φ) (enc : Enc) (L : ℕ) (ops : List Desc) (op op' : PauliOp α)
    (e : List ℕ × α) (h : encodeEntry enc L ops op e = .ok op') (hlen : e.1.length = ops.length) :
    PauliOp.mat φ L op' = PauliOp.mat φ L op + φ e.2 • ladderProd enc L ops e.1 ∧
      (enc = .jw → φ e.2 • ladderProd .jw L ops e.1 = φ e.2 • refProd L ops e.1) := by
  unfold encodeEntry at h
  by_cases hz : EncScalar.isZero e.2 = true
  · rw [if_pos hz] at h
    simp only [Except.ok.injEq] at h; subst h
    simp [hφ.zero _ hz]
  · rw [if_neg hz] at h
    cases hx : expand enc L ops e.1 [PS.identity L] with
    | error err => simp [hx] at h
    | ok strings =>
      simp only [hx, Except.ok.injEq] at h; subst h
      obtain ⟨h1, _, h3⟩ := expand_sum enc L ops e.1 _ strings hx (by
        intro p hp; simp only [List.mem_singleton] at hp; subst hp; exact identity_hasLen L)
      have hid : sumMat L [PS.identity L] = 1 := by simp [sumMat, identity_mat]
      rw [hid, one_mul] at h1
      refine ⟨?_, fun he => by rw [h3 he]⟩
      rw [addStrings_mat hφ, h1, hφ.mul, powHalf_hom hφ, ← stringProd_eq enc L ops e.1 hlen, smul_smul, mul_comm]

/-- `foldE` accumulates an additive quantity -/
theorem foldE_sum {β γ M : Type} [AddCommMonoid M] (f : β → γ → Except Err β) (g : β → M) (hc : γ → M)
    (P : γ → Prop) (hstep : ∀ b c b', P c → f b c = .ok b' → g b' = g b + hc c)
    (b b' : β) (cs : List γ) (hP : ∀ c ∈ cs, P c) (h : foldE f b cs = .ok b') :
    g b' = g b + (cs.map hc).sum := by
  induction cs generalizing b with
  | nil => simp only [foldE, Except.ok.injEq] at h; subst h; simp
  | cons c cs ih =>
    simp only [foldE] at h
    cases hf : f b c with
    | error e => simp [hf] at h
    | ok b1 =>
      simp only [hf] at h
      rw [ih b1 (fun c hc => hP c (List.mem_cons_of_mem _ hc)) h, hstep b c b1 (hP c (List.mem_cons_self ..)) hf]
      simp [add_assoc]

/-- what the `FieldOperatorTerm` constructor guarantees: every multi-index has one entry per operator -/
def Term.WF (t : Term α) : Prop := ∀ e ∈ t.entries, e.1.length = t.ops.length

/-- `Σ_entries coeff • Π encoded ladder operators` -/
noncomputable def termMat (φ : α → ℂ) (enc : Enc) (L : ℕ) (t : Term α) : Matrix (Fin L → Bool) (Fin L → Bool) ℂ :=
  (t.entries.map fun e => φ e.2 • ladderProd enc L t.ops e.1).sum

/-- the term's own matrix `Σ_entries coeff • Π ladder operators` (`FieldOperator.as_matrix`, one term) -/
noncomputable def refTermMat (φ : α → ℂ) (L : ℕ) (t : Term α) : Matrix (Fin L → Bool) (Fin L → Bool) ℂ :=
  (t.entries.map fun e => φ e.2 • refProd L t.ops e.1).sum

theorem encodeTerm_mat {φ : α → ℂ} (hφ : ScalarHom φ) (enc : Enc) (L : ℕ) (op op' : PauliOp α) (t : Term α)
    (h : encodeTerm enc L op t = .ok op') (hwf : t.WF) :
    PauliOp.mat φ L op' = PauliOp.mat φ L op + termMat φ enc L t := by
  unfold encodeTerm at h
  split at h
  · simp at h
  · exact foldE_sum (encodeEntry enc L t.ops) (PauliOp.mat φ L) (fun e => φ e.2 • ladderProd enc L t.ops e.1)
      (fun e => e.1.length = t.ops.length)
      (fun b c b' hc hf => (encodeEntry_mat hφ enc L t.ops b b' c hf hc).1) op op' t.entries hwf h

theorem encodeTerm_mat_jw {φ : α → ℂ} (hφ : ScalarHom φ) (L : ℕ) (op op' : PauliOp α) (t : Term α)
    (h : encodeTerm .jw L op t = .ok op') (hwf : t.WF) :
    PauliOp.mat φ L op' = PauliOp.mat φ L op + refTermMat φ L t := by
  unfold encodeTerm at h
  split at h
  · simp at h
  · exact foldE_sum (encodeEntry .jw L t.ops) (PauliOp.mat φ L) (fun e => φ e.2 • refProd L t.ops e.1)
      (fun e => e.1.length = t.ops.length)
      (fun b c b' hc hf => by
        obtain ⟨h1, h2⟩ := encodeEntry_mat hφ .jw L t.ops b b' c hf hc
        rw [h1, h2 rfl]) op op' t.entries hwf h

/-- every term was built by the constructor -/
def FieldOp.WF (fop : FieldOp α) : Prop := ∀ t ∈ fop.terms, t.WF

/-- `Σ_terms Σ_entries coeff • Π encoded ladder operators` -/
noncomputable def encMat (φ : α → ℂ) (enc : Enc) (L : ℕ) (fop : FieldOp α) : Matrix (Fin L → Bool) (Fin L → Bool) ℂ :=
  (fop.terms.map (termMat φ enc L)).sum

/-- the field operator's own matrix (`FieldOperator.as_matrix`): `Σ_terms Σ_entries coeff • Π ladder operators` -/
noncomputable def refMat (φ : α → ℂ) (L : ℕ) (fop : FieldOp α) : Matrix (Fin L → Bool) (Fin L → Bool) ℂ :=
  (fop.terms.map (refTermMat φ L)).sum

omit [EncScalar α] in
theorem mat_nil (φ : α → ℂ) (L : ℕ) : PauliOp.mat φ L ([] : PauliOp α) = 0 := rfl

theorem encodeRaw_mat {φ : α → ℂ} (hφ : ScalarHom φ) (enc : Enc) (fop : FieldOp α) (op : PauliOp α)
    (h : encodeRaw enc fop = .ok op) (hwf : fop.WF) :
    ∃ L, fieldCheck fop = .ok L ∧ PauliOp.mat φ L op = encMat φ enc L fop ∧
      (enc = .jw → PauliOp.mat φ L op = refMat φ L fop) := by
  unfold encodeRaw at h
  cases hL : fieldCheck fop with
  | error e => simp [hL] at h
  | ok L =>
    simp only [hL] at h
    refine ⟨L, rfl, ?_, ?_⟩
    · have := foldE_sum (encodeTerm enc L) (PauliOp.mat φ L) (termMat φ enc L) (fun t => t.WF)
        (fun b c b' hc hf => encodeTerm_mat hφ enc L b b' c hf hc) [] op fop.terms hwf h
      rw [this, mat_nil, zero_add, encMat]
    · intro he; subst he
      have := foldE_sum (encodeTerm .jw L) (PauliOp.mat φ L) (refTermMat φ L) (fun t => t.WF)
        (fun b c b' hc hf => encodeTerm_mat_jw hφ L b b' c hf hc) [] op fop.terms hwf h
      rw [this, mat_nil, zero_add, refMat]

end Qib.Encode
