import QibProofs.Lemmas.VqeBridge
/-!
C20 helper lemmas about the executable cluster operator of `QibModel/Vqe.lean`:

* the weight `wt L b` = number of occupied sites of the basis state with flat index `b`;
  `numberOp L` is the diagonal matrix of these weights;
* the creation matrix `cre L i` (`i < L`) is graded by `+1`, the annihilation matrix by `−1`
  (a non-zero entry forces all site bits to agree except bit `i`, which goes 0 → 1);
* every product `fstring` is graded by (#creators − #annihilators); `termMat` is graded by the same number;
* hence the single- and double-excitation cluster matrices commute with the number operator.
No property statements here.
-/
open Matrix Complex

namespace Qib.Vqe
open Qib VqeLemmas

/-- particle number of the basis state with flat index `b` -/
def wt (L : ℕ) : Fin (2 ^ L) → ℤ := fun b => (bitCount L b : ℤ)

theorem toM_numberOp (L : ℕ) : (numberOp L).toM (2 ^ L) = diagonal fun b => ((wt L b : ℤ) : ℂ) := by
  ext i j
  rw [numberOp, Mat.toM_ofFn, Matrix.diagonal_apply]
  by_cases h : i = j
  · subst h
    simp [GQ.toC_ofRat, wt]
  · have : (i : ℕ) ≠ j := fun h' => h (Fin.ext h')
    simp [h, this]

theorem numberOp_sq (L : ℕ) : (numberOp L).Sq (2 ^ L) := ⟨rfl, rfl⟩

theorem list_range_sum_nat (n : ℕ) (g : ℕ → ℕ) : ((List.range n).map g).sum = ∑ k ∈ Finset.range n, g k := by
  induction n with
  | zero => simp
  | succ n ih => simp [List.range_succ, Finset.sum_range_succ, ih]

/-- if the site bits of `r` and `c` agree except at site `i < L`, where `r` is occupied and `c` is empty,
then `r` has one particle more -/
theorem bitCount_succ (L i r c : ℕ) (hi : i < L)
    (hne : ∀ k, k < L → k ≠ i → Qib.Pauli.bitAt L k r = Qib.Pauli.bitAt L k c)
    (hr : Qib.Pauli.bitAt L i r = true) (hc : Qib.Pauli.bitAt L i c = false) :
    bitCount L r = bitCount L c + 1 := by
  simp only [bitCount, list_range_sum_nat]
  have : ∀ k ∈ Finset.range L, (Qib.Pauli.bitAt L k r).toNat = (Qib.Pauli.bitAt L k c).toNat + (if k = i then 1 else 0) := by
    intro k hk
    by_cases h : k = i
    · subst h; simp [hr, hc]
    · simp [h, hne k (Finset.mem_range.mp hk) h]
  rw [Finset.sum_congr rfl this, Finset.sum_add_distrib, Finset.sum_ite_eq']
  simp [hi]

theorem gqOfInts_toC_ne_zero {z : ℤ} (h : (gqOfInts (z, 0)).toC ≠ 0) : z ≠ 0 := by
  intro h0
  apply h
  subst h0
  simp [gqOfInts, GQ.toC]

theorem creSite_ne_zero {i k : ℕ} {r c : Bool} (h : creSite i k r c ≠ 0) :
    (k ≠ i → r = c) ∧ (k = i → r = true ∧ c = false) := by
  unfold creSite at h
  constructor
  · intro hk
    by_cases h1 : k < i
    · simp only [h1, if_true] at h
      by_contra hrc; simp [hrc] at h
    · simp only [h1, if_false, hk] at h
      by_contra hrc; simp [hrc] at h
  · intro hk
    subst hk
    simp only [Nat.lt_irrefl, if_false, if_true] at h
    cases r <;> cases c <;> simp_all

theorem cre_sq (L i : ℕ) : (cre L i).Sq (2 ^ L) := ⟨rfl, rfl⟩

theorem cre_graded (L i : ℕ) (hi : i < L) : Graded (wt L) 1 ((cre L i).toM (2 ^ L)) := by
  intro r c h
  rw [cre, Mat.toM_ofFn] at h
  have hz := gqOfInts_toC_ne_zero h
  have hall : ∀ k, k < L → creSite i k (Qib.Pauli.bitAt L k r) (Qib.Pauli.bitAt L k c) ≠ 0 := by
    intro k hk h0
    apply hz
    rw [creEntry, List.prod_eq_zero_iff]
    exact List.mem_map.mpr ⟨k, List.mem_range.mpr hk, h0⟩
  have := bitCount_succ L i r c hi (fun k hk hne => (creSite_ne_zero (hall k hk)).1 hne)
    ((creSite_ne_zero (hall i hi)).2 rfl).1 ((creSite_ne_zero (hall i hi)).2 rfl).2
  simp only [wt, this]
  push_cast
  ring

theorem ann_sq (L i : ℕ) : (ann L i).Sq (2 ^ L) := adjoint_sq _ _ (cre_sq L i)

theorem toM_ann (L i : ℕ) : (ann L i).toM (2 ^ L) = ((cre L i).toM (2 ^ L))ᴴ := toM_adjoint _ _ (cre_sq L i)

theorem ann_graded (L i : ℕ) (hi : i < L) : Graded (wt L) (-1) ((ann L i).toM (2 ^ L)) := by
  rw [toM_ann]; exact (cre_graded L i hi).conjTranspose

/-- grade of one ladder operator -/
def gradeOf1 (create : Bool) : ℤ := if create then 1 else -1

/-- grade of a string of ladder operators: #creators − #annihilators -/
def gradeOf (kinds : List Bool) : ℤ := (kinds.map gradeOf1).sum

theorem ladder_sq (L : ℕ) (b : Bool) (i : ℕ) : (ladder L b i).Sq (2 ^ L) := by
  cases b
  · exact ann_sq L i
  · exact cre_sq L i

theorem ladder_graded (L : ℕ) (b : Bool) (i : ℕ) (hi : i < L) : Graded (wt L) (gradeOf1 b) ((ladder L b i).toM (2 ^ L)) := by
  cases b
  · exact ann_graded L i hi
  · exact cre_graded L i hi

theorem fstring_fold (L : ℕ) (ps : List (Bool × ℕ)) (hps : ∀ p ∈ ps, p.2 < L) (acc : Mat) (d0 : ℤ)
    (hsq : acc.Sq (2 ^ L)) (hg : Graded (wt L) d0 (acc.toM (2 ^ L))) :
    (ps.foldl (fun acc p => acc.mul (ladder L p.1 p.2)) acc).Sq (2 ^ L) ∧
    Graded (wt L) (d0 + (ps.map fun p => gradeOf1 p.1).sum) ((ps.foldl (fun acc p => acc.mul (ladder L p.1 p.2)) acc).toM (2 ^ L)) := by
  induction ps generalizing acc d0 with
  | nil => simpa using ⟨hsq, hg⟩
  | cons p ps ih =>
    have hl := ladder_sq L p.1 p.2
    have h1 := ih (fun q hq => hps q (List.mem_cons_of_mem _ hq)) (acc.mul (ladder L p.1 p.2)) (d0 + gradeOf1 p.1)
      (mul_sq _ _ _ hsq hl.2)
      (by rw [toM_mul _ _ _ hsq hl.2]; exact hg.mul (ladder_graded L p.1 p.2 (hps p (List.mem_cons_self ..))))
    simp only [List.foldl_cons, List.map_cons, List.sum_cons]
    refine ⟨h1.1, h1.2.cast (by ring)⟩

theorem fstring_sq_graded (L : ℕ) (kinds : List Bool) (js : List ℕ) (hlen : js.length = kinds.length)
    (hjs : ∀ j ∈ js, j < L) :
    (fstring L kinds js).Sq (2 ^ L) ∧ Graded (wt L) (gradeOf kinds) ((fstring L kinds js).toM (2 ^ L)) := by
  have h := fstring_fold L (List.zip kinds js) (fun p hp => hjs p.2 (List.of_mem_zip hp).2) (Mat.one (2 ^ L)) 0
    (one_sq _) (by rw [toM_one]; exact Graded.one)
  refine ⟨h.1, h.2.cast ?_⟩
  rw [zero_add, gradeOf]
  congr 1
  have hcomp : (fun p : Bool × ℕ => gradeOf1 p.1) = gradeOf1 ∘ Prod.fst := rfl
  rw [hcomp, ← List.map_map, List.map_fst_zip (by omega)]

theorem multiIndex_length (L k idx : ℕ) : (multiIndex L k idx).length = k := by
  induction k with
  | zero => rfl
  | succ k ih => simp [multiIndex, ih]

theorem multiIndex_lt (L k idx : ℕ) (hL : 0 < L ∨ k = 0) : ∀ j ∈ multiIndex L k idx, j < L := by
  rcases hL with hL | rfl
  · induction k with
    | zero => intro j hj; simp [multiIndex] at hj
    | succ k ih =>
      intro j hj
      simp only [multiIndex, List.mem_cons] at hj
      rcases hj with rfl | hj
      · exact Nat.mod_lt _ hL
      · exact ih j hj
  · intro j hj; simp [multiIndex] at hj

theorem termStep_sq_graded (L : ℕ) (kinds : List Bool) (coeffs : Array GQ) (acc : Mat) (idx : ℕ)
    (hL : 0 < L ∨ kinds.length = 0) (hsq : acc.Sq (2 ^ L)) (hg : Graded (wt L) (gradeOf kinds) (acc.toM (2 ^ L))) :
    (termStep L kinds coeffs acc idx).Sq (2 ^ L) ∧
    Graded (wt L) (gradeOf kinds) ((termStep L kinds coeffs acc idx).toM (2 ^ L)) := by
  unfold termStep
  simp only
  split
  · exact ⟨hsq, hg⟩
  · have hf := fstring_sq_graded L kinds (multiIndex L kinds.length idx) (multiIndex_length ..) (multiIndex_lt L _ idx hL)
    refine ⟨add_sq _ _ _ hsq, ?_⟩
    rw [toM_add _ _ _ hsq, toM_smul _ _ _ hf.1]
    exact hg.add (hf.2.smul _)

theorem termMat_fold (L : ℕ) (kinds : List Bool) (coeffs : Array GQ) (l : List ℕ) (acc : Mat)
    (hL : 0 < L ∨ kinds.length = 0) (hsq : acc.Sq (2 ^ L)) (hg : Graded (wt L) (gradeOf kinds) (acc.toM (2 ^ L))) :
    (l.foldl (termStep L kinds coeffs) acc).Sq (2 ^ L) ∧
    Graded (wt L) (gradeOf kinds) ((l.foldl (termStep L kinds coeffs) acc).toM (2 ^ L)) := by
  induction l generalizing acc with
  | nil => exact ⟨hsq, hg⟩
  | cons x l ih =>
    have h := termStep_sq_graded L kinds coeffs acc x hL hsq hg
    exact ih _ h.1 h.2

/-- the matrix of a field-operator term is graded by #creators − #annihilators, for every coefficient array -/
theorem termMat_sq_graded (L : ℕ) (kinds : List Bool) (coeffs : Array GQ) :
    (termMat L kinds coeffs).Sq (2 ^ L) ∧ Graded (wt L) (gradeOf kinds) ((termMat L kinds coeffs).toM (2 ^ L)) := by
  unfold termMat
  by_cases hL : 0 < L
  · exact termMat_fold L kinds coeffs _ _ (Or.inl hL) (zeros_sq _) (by rw [toM_zeros]; exact Graded.zero)
  · have h0 : L = 0 := by omega
    subst h0
    cases kinds with
    | nil => exact termMat_fold 0 [] coeffs _ _ (Or.inr rfl) (zeros_sq _) (by rw [toM_zeros]; exact Graded.zero)
    | cons b bs =>
      have he : 0 ^ (b :: bs).length = 0 := by simp
      rw [he, List.range_zero, List.foldl_nil]
      exact ⟨zeros_sq _, by rw [toM_zeros]; exact Graded.zero⟩

/-- bridging fact over the generated table: in every branch of `as_matrix` every cluster term has as many creators as
annihilators -/
theorem branches_balanced : ∀ b ∈ QibGen.Vqe.branches, ∀ k ∈ b.2, gradeOf k = 0 := by decide

theorem kindsOf_balanced (exc : String) (kss : List (List Bool)) (h : kindsOf exc = some kss) :
    ∀ k ∈ kss, gradeOf k = 0 := by
  unfold kindsOf at h
  cases hf : QibGen.Vqe.branches.find? (fun b => b.1 == exc) with
  | none => rw [hf] at h; cases h
  | some b =>
    rw [hf] at h
    simp only [Option.map_some, Option.some.injEq] at h
    subst h
    exact branches_balanced b (List.mem_of_find?_eq_some hf)

theorem sliceTerms_sq_graded (L : ℕ) (kss : List (List Bool)) (params : Array GQ) (off : ℕ)
    (h : ∀ k ∈ kss, gradeOf k = 0) :
    ∀ T ∈ sliceTerms L kss params off, T.Sq (2 ^ L) ∧ Graded (wt L) 0 (T.toM (2 ^ L)) := by
  induction kss generalizing off with
  | nil => intro T hT; simp [sliceTerms] at hT
  | cons k ks ih =>
    intro T hT
    simp only [sliceTerms, List.mem_cons] at hT
    rcases hT with rfl | hT
    · have := termMat_sq_graded L k (params.extract off (off + L ^ k.length))
      rw [h k (List.mem_cons_self ..)] at this
      exact this
    · exact ih _ (fun k' hk' => h k' (List.mem_cons_of_mem _ hk')) T hT

theorem sliceTerms_length (L : ℕ) (kss : List (List Bool)) (params : Array GQ) (off : ℕ) :
    (sliceTerms L kss params off).length = kss.length := by
  induction kss generalizing off with
  | nil => rfl
  | cons k ks ih => simp [sliceTerms, ih]

theorem quccTerms_ok (L : ℕ) (exc : String) (params : Array GQ) (Ts : List Mat) (h : quccTerms L exc params = .ok Ts) :
    ∃ kss, kindsOf exc = some kss ∧ params.size = paramCount L kss ∧ Ts = sliceTerms L kss params 0 := by
  unfold quccTerms at h
  cases hk : kindsOf exc with
  | none => rw [hk] at h; cases h
  | some kss =>
    rw [hk] at h
    simp only at h
    split at h
    · cases h
    · rename_i hn
      simp only [Except.ok.injEq] at h
      exact ⟨kss, rfl, not_not.mp hn, h.symm⟩

/-- every cluster matrix produced by `quccTerms` is `2^L × 2^L` and number balanced -/
theorem quccTerms_sq_graded (L : ℕ) (exc : String) (params : Array GQ) (Ts : List Mat)
    (h : quccTerms L exc params = .ok Ts) :
    ∀ T ∈ Ts, T.Sq (2 ^ L) ∧ Graded (wt L) 0 (T.toM (2 ^ L)) := by
  obtain ⟨kss, hk, _, rfl⟩ := quccTerms_ok L exc params Ts h
  exact sliceTerms_sq_graded L kss params 0 (kindsOf_balanced exc kss hk)

theorem quccTerms_ok_iff (L : ℕ) (exc : String) (params : Array GQ) :
    (∃ Ts, quccTerms L exc params = .ok Ts) ↔ ∃ kss, kindsOf exc = some kss ∧ params.size = paramCount L kss := by
  constructor
  · rintro ⟨Ts, h⟩
    obtain ⟨kss, hk, hs, _⟩ := quccTerms_ok L exc params Ts h
    exact ⟨kss, hk, hs⟩
  · rintro ⟨kss, hk, hs⟩
    unfold quccTerms
    rw [hk]
    simp only
    rw [if_neg (not_not.mpr hs)]
    exact ⟨_, rfl⟩

end Qib.Vqe

/-! ### the ansatz matrix: product of the exponentials of the generators -/

namespace Qib.Vqe
open Qib VqeLemmas NormedSpace

/-- `qUCC.as_matrix`: `expm(T₁ − T₁ᴴ)` or `expm(T₁ − T₁ᴴ) @ expm(T₂ − T₂ᴴ)`, with `expm ↦ NormedSpace.exp` -/
noncomputable def ansatzMat (L : ℕ) (Ts : List Mat) : Matrix (Fin (2 ^ L)) (Fin (2 ^ L)) ℂ :=
  (Ts.map fun T => exp ((quccGenerator T).toM (2 ^ L))).prod

theorem generator_skew (d : ℕ) (T : Mat) (hT : T.Sq d) :
    ((quccGenerator T).toM d)ᴴ = -(quccGenerator T).toM d := by
  rw [toM_quccGenerator d T hT]; exact gen_skew _

theorem generator_graded (L : ℕ) (T : Mat) (hT : T.Sq (2 ^ L)) (hg : Graded (wt L) 0 (T.toM (2 ^ L))) :
    Graded (wt L) 0 ((quccGenerator T).toM (2 ^ L)) := by
  rw [toM_quccGenerator _ T hT]
  exact hg.sub (hg.conjTranspose.cast (by norm_num))

theorem exp_graded {n : Type*} [Fintype n] [DecidableEq n] (w : n → ℤ) (G : Matrix n n ℂ) (hg : Graded w 0 G) :
    Graded w 0 (exp G) :=
  Graded.of_commute (commute_exp hg.commute)

theorem ansatzMat_props (L : ℕ) (Ts : List Mat)
    (h : ∀ T ∈ Ts, T.Sq (2 ^ L) ∧ Graded (wt L) 0 (T.toM (2 ^ L))) :
    (ansatzMat L Ts)ᴴ * ansatzMat L Ts = 1 ∧ ansatzMat L Ts * (ansatzMat L Ts)ᴴ = 1 ∧
    Graded (wt L) 0 (ansatzMat L Ts) := by
  unfold ansatzMat
  induction Ts with
  | nil => simpa using Graded.one
  | cons T Ts ih =>
    have hT := h T (List.mem_cons_self ..)
    have ih' := ih fun T' hT' => h T' (List.mem_cons_of_mem _ hT')
    have hs := generator_skew (2 ^ L) T hT.1
    simp only [List.map_cons, List.prod_cons]
    refine ⟨unitary_mul_left (exp_skew_conjTranspose_mul _ hs) ih'.1,
      unitary_mul_right (exp_skew_mul_conjTranspose _ hs) ih'.2.1, ?_⟩
    exact ((exp_graded _ _ (generator_graded L T hT.1 hT.2)).mul ih'.2.2).cast (by norm_num)

end Qib.Vqe
