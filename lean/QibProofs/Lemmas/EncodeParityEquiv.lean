import QibProofs.Lemmas.EncodeSum
import QibProofs.Lemmas.EncodeParityBasis
/-!
Encoders (C12): the parity-encoded operator is unitarily equivalent to the field operator,
`mat (parityEncode op) = V · op.mat · Vᴴ` with the signed prefix-parity permutation `V`. Helper lemmas only.
-/
set_option linter.unusedVariables false
set_option linter.unusedSectionVars false
open Complex Matrix
namespace Qib.Encode
open Qib.Pauli

variable {α : Type} [EncScalar α]

/-- every site index met along `zip(opdesc, multi_index)` is inside the lattice -/
def InRange (L : ℕ) : List Desc → List ℕ → Prop
  | _ :: ds, j :: js => j < L ∧ InRange L ds js
  | _, _ => True

theorem expand_inRange (enc : Enc) (L : ℕ) (ops : List Desc) (idx : List ℕ) (acc out : List PS)
    (h : expand enc L ops idx acc = .ok out) : InRange L ops idx := by
  induction ops generalizing idx acc with
  | nil => cases idx <;> simp [InRange]
  | cons d ds ih =>
    cases idx with
    | nil => simp [InRange]
    | cons j js =>
      cases hd : d.otype with
      | other => simp [expand, hd] at h
      | create =>
        simp only [expand, hd] at h
        by_cases hj : j < L
        · rw [if_pos hj] at h; exact ⟨hj, ih js _ h⟩
        · rw [if_neg hj] at h; simp at h
      | annihil =>
        simp only [expand, hd] at h
        by_cases hj : j < L
        · rw [if_pos hj] at h; exact ⟨hj, ih js _ h⟩
        · rw [if_neg hj] at h; simp at h

theorem ladderProd_parity_conj (L : ℕ) (ops : List Desc) (idx : List ℕ) (h : InRange L ops idx) :
    ladderProd .parity L ops idx = parityBasis L * refProd L ops idx * (parityBasis L)ᴴ := by
  induction ops generalizing idx with
  | nil => cases idx <;> simp [ladderProd, refProd, parityBasis_unitary']
  | cons d ds ih =>
    cases idx with
    | nil => simp [ladderProd, refProd, parityBasis_unitary']
    | cons j js =>
      obtain ⟨hj, hrest⟩ := h
      simp only [ladderProd, refProd]
      rw [ih js hrest, parLadder_conj L j hj]
      calc parityBasis L * ladder L j (d.otype == .create) * (parityBasis L)ᴴ *
            (parityBasis L * refProd L ds js * (parityBasis L)ᴴ)
          = parityBasis L * ladder L j (d.otype == .create) * ((parityBasis L)ᴴ * parityBasis L) *
              refProd L ds js * (parityBasis L)ᴴ := by simp only [Matrix.mul_assoc]
        _ = _ := by rw [parityBasis_unitary, Matrix.mul_one]; simp only [Matrix.mul_assoc]

theorem encodeEntry_parity_conj {φ : α → ℂ} (hφ : ScalarHom φ) (L : ℕ) (ops : List Desc) (op op' : PauliOp α)
    (e : List ℕ × α) (h : encodeEntry .parity L ops op e = .ok op') (hlen : e.1.length = ops.length) :
    PauliOp.mat φ L op' = PauliOp.mat φ L op + φ e.2 • (parityBasis L * refProd L ops e.1 * (parityBasis L)ᴴ) := by
  obtain ⟨h1, _⟩ := encodeEntry_mat hφ .parity L ops op op' e h hlen
  rw [h1]
  unfold encodeEntry at h
  by_cases hz : EncScalar.isZero e.2 = true
  · simp [hφ.zero _ hz]
  · rw [if_neg hz] at h
    cases hx : expand .parity L ops e.1 [PS.identity L] with
    | error err => simp [hx] at h
    | ok strings => rw [ladderProd_parity_conj L ops e.1 (expand_inRange .parity L ops e.1 _ strings hx)]

theorem list_sum_conj {n : Type} [Fintype n] [DecidableEq n] (V W : Matrix n n ℂ) (l : List (Matrix n n ℂ)) :
    V * l.sum * W = (l.map fun A => V * A * W).sum := by
  induction l with
  | nil => simp
  | cons a l ih => simp only [List.sum_cons, List.map_cons, Matrix.mul_add, Matrix.add_mul, ih]

theorem conj_refTermMat (φ : α → ℂ) (L : ℕ) (t : Term α) :
    parityBasis L * refTermMat φ L t * (parityBasis L)ᴴ =
      (t.entries.map fun e => φ e.2 • (parityBasis L * refProd L t.ops e.1 * (parityBasis L)ᴴ)).sum := by
  rw [refTermMat, list_sum_conj, List.map_map]
  congr 1
  apply List.map_congr_left
  intro e _
  simp

theorem encodeTerm_parity_conj {φ : α → ℂ} (hφ : ScalarHom φ) (L : ℕ) (op op' : PauliOp α) (t : Term α)
    (h : encodeTerm .parity L op t = .ok op') (hwf : t.WF) :
    PauliOp.mat φ L op' = PauliOp.mat φ L op + parityBasis L * refTermMat φ L t * (parityBasis L)ᴴ := by
  rw [conj_refTermMat]
  unfold encodeTerm at h
  split at h
  · simp at h
  · exact foldE_sum (encodeEntry .parity L t.ops) (PauliOp.mat φ L)
      (fun e => φ e.2 • (parityBasis L * refProd L t.ops e.1 * (parityBasis L)ᴴ))
      (fun e => e.1.length = t.ops.length)
      (fun b c b' hc hf => encodeEntry_parity_conj hφ L t.ops b b' c hf hc) op op' t.entries hwf h

/-- the whole operator: `mat (encodeRaw .parity op) = V · refMat op · Vᴴ` -/
theorem encodeRaw_parity_conj {φ : α → ℂ} (hφ : ScalarHom φ) (fop : FieldOp α) (op : PauliOp α)
    (h : encodeRaw .parity fop = .ok op) (hwf : fop.WF) :
    ∃ L, fieldCheck fop = .ok L ∧
      PauliOp.mat φ L op = parityBasis L * refMat φ L fop * (parityBasis L)ᴴ := by
  unfold encodeRaw at h
  cases hL : fieldCheck fop with
  | error e => simp [hL] at h
  | ok L =>
    simp only [hL] at h
    refine ⟨L, rfl, ?_⟩
    have := foldE_sum (encodeTerm .parity L) (PauliOp.mat φ L)
      (fun t => parityBasis L * refTermMat φ L t * (parityBasis L)ᴴ) (fun t => t.WF)
      (fun b c b' hc hf => encodeTerm_parity_conj hφ L b b' c hf hc) [] op fop.terms hwf h
    rw [this, mat_nil, zero_add, refMat, list_sum_conj, List.map_map]
    rfl

end Qib.Encode
