import QibProofs.Lemmas.CompactEncode
/-!
C13 helper lemmas, part 10: reversal of an edge, and transport of the string-level facts about the encoded operator
to its matrix (weighted sum of the string matrices).
-/
set_option linter.unusedSimpArgs false
open Complex Matrix
namespace Qib.Compact
open Qib.Pauli Qib.Lattice

theorem neg_neg (P : PS) : neg (neg P) = P := by
  obtain ⟨z, x, q⟩ := P
  simp only [neg]
  congr 1
  fin_cases q <;> rfl

/-- reversing the orientation of an edge flips the sign of its operator -/
theorem edgeStr_rev {n0 n1 ix iy jx jy : Nat} (h : EdgeOk n0 n1 ix iy jx jy) :
    edgeStr n0 n1 jx jy ix iy = neg (edgeStr n0 n1 ix iy jx jy) := by
  obtain ⟨-, -, -, -, hnn⟩ := h
  rcases hnn with ⟨rfl, rfl | rfl⟩ | ⟨rfl, rfl | rfl⟩
  · rw [edgeStr_right, edgeStr_left]; split <;> simp [neg_neg]
  · rw [edgeStr_right, edgeStr_left]; split <;> simp [neg_neg]
  · rw [edgeStr_down, edgeStr_up]
  · rw [edgeStr_down, edgeStr_up, neg_neg]

theorem edgeOk_symm {n0 n1 ix iy jx jy : Nat} (h : EdgeOk n0 n1 ix iy jx jy) : EdgeOk n0 n1 jx jy ix iy := by
  obtain ⟨h1, h2, h3, h4, hnn⟩ := h
  refine ⟨h3, h4, h1, h2, ?_⟩
  unfold NN at *; omega

theorem isHermitian_of_even (P : PS) (h : P.q.val % 2 = 0) : P.isHermitian = true := by
  simp [PS.isHermitian, QibGen.Pauli.hermMod, QibGen.Pauli.hermEq, h]

/-- a Pauli operator all of whose strings commute with `L` has a matrix commuting with the matrix of `L` -/
theorem pauliOp_mat_comm (n : ℕ) (φ : GQ → ℂ) (L : PS) (hL : L.HasLen n) (op : PauliOp GQ)
    (h : ∀ e ∈ op, e.1.HasLen n ∧ anti L e.1 = false) :
    PauliOp.mat φ n op * L.mat n = L.mat n * PauliOp.mat φ n op := by
  induction op with
  | nil => simp [PauliOp.mat, PauliOp.matG]
  | cons e rest ih =>
    have h1 := h e (by simp)
    have h2 := ih (fun e' he' => h e' (by simp [he']))
    have hc := mat_comm_of_not_anti n L e.1 hL h1.1 h1.2
    simp only [PauliOp.mat, PauliOp.matG_cons] at h2 ⊢
    rw [add_mul, mul_add, h2, Matrix.smul_mul, Matrix.mul_smul, hc]

end Qib.Compact
