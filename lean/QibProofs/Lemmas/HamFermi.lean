import Mathlib.Algebra.Star.Module
import Mathlib.Algebra.Star.BigOperators
import Mathlib.Algebra.Algebra.Basic
import Mathlib.Algebra.BigOperators.Intervals
import Mathlib.Algebra.BigOperators.Ring.Finset
import Mathlib.Tactic.NoncommRing
import Mathlib.Tactic.Abel
import Mathlib.Algebra.BigOperators.GroupWithZero.Action
import QibProofs.Lemmas.HamEdges
/-!
C15 helper lemmas, fermionic models. The matrix semantics of field operators is C10's; here the operators live in
an arbitrary `*`-ring `R` (an algebra over a commutative ring `K` of coefficients) containing a family
`a 0 … a (L-1)` that satisfies the canonical anticommutation relations (`CAR R L`); the Jordan-Wigner matrices of
`FieldOperator.as_matrix` are one such family (C10).

* `CAR.termDen pat coef` : denotation of a `FieldOperatorTerm` with operator pattern `pat` and coefficient tensor
  `coef`: `Σ_{i₁…i_k < L} coef[i₁…i_k] • op₁(i₁) ⋯ op_k(i_k)`; explicit forms for 0, 2 and 4 operators.
* `CAR.N_comm_termDen`   : `[N, term] = (#creators − #annihilators) • term` (from the CAR, by induction on the pattern).
* Hubbard: the coefficient tensors of the model denote `−t Σ_{edges once}(a†_i a_j + a†_j a_i)` (per spin layer) and
  `u Σ n n`; this operator is self-adjoint for real `t`, `u`.
* molecular: `½ Σ v_ijkl a†_i a†_j a_l a_k` form of the swapped tensor, adjoints of the one- and two-body terms.
Helper lemmas only; the property statements are in `Properties/C15.lean`.
-/
open Finset
namespace Qib.Ham

/-- a family of `L` fermionic modes in a `*`-ring `R`: the canonical anticommutation relations -/
structure CAR (R : Type) [Ring R] [StarRing R] (L : ℕ) where
  a : ℕ → R
  anti : ∀ i j, i < L → j < L → a i * a j + a j * a i = 0
  antiStar : ∀ i j, i < L → j < L → a i * star (a j) + star (a j) * a i = if i = j then 1 else 0

variable {R : Type} [Ring R] [StarRing R] {L : ℕ} (C : CAR R L)

def CAR.ad (i : ℕ) : R := star (C.a i)
def CAR.op : Op → ℕ → R
  | .create, i => C.ad i
  | .annihil, i => C.a i
def CAR.n (i : ℕ) : R := C.ad i * C.a i
def CAR.N : R := ∑ k ∈ range L, C.n k

theorem CAR.anti_ad (i j : ℕ) (hi : i < L) (hj : j < L) : C.ad i * C.ad j + C.ad j * C.ad i = 0 := by
  have := congrArg star (C.anti j i hj hi)
  simpa [CAR.ad, add_comm] using this

theorem CAR.n_mul_ad (k i : ℕ) (hk : k < L) (hi : i < L) :
    C.n k * C.ad i - C.ad i * C.n k = if k = i then C.ad i else 0 := by
  have h1 : C.a k * C.ad i = (if k = i then 1 else 0) - C.ad i * C.a k :=
    eq_sub_of_add_eq (C.antiStar k i hk hi)
  have h2 : C.ad k * C.ad i = - (C.ad i * C.ad k) := eq_neg_of_add_eq_zero_left (C.anti_ad k i hk hi)
  unfold CAR.n
  rw [mul_assoc, h1, mul_sub, ← mul_assoc, h2]
  split
  · rename_i h; subst h; noncomm_ring
  · noncomm_ring

theorem CAR.n_mul_a (k i : ℕ) (hk : k < L) (hi : i < L) :
    C.n k * C.a i - C.a i * C.n k = if k = i then - C.a i else 0 := by
  have h1 : C.a i * C.ad k = (if i = k then 1 else 0) - C.ad k * C.a i :=
    eq_sub_of_add_eq (C.antiStar i k hi hk)
  have h2 : C.a k * C.a i = - (C.a i * C.a k) := eq_neg_of_add_eq_zero_left (C.anti k i hk hi)
  unfold CAR.n
  rw [mul_assoc, h2, ← mul_assoc (C.a i), h1]
  by_cases h : k = i
  · subst h; simp only [if_true]; noncomm_ring
  · have : ¬ i = k := fun e => h e.symm
    simp only [if_neg h, if_neg this]; noncomm_ring

/-- `[N, a†_i] = a†_i`, `[N, a_i] = -a_i` -/
theorem CAR.N_comm_op (o : Op) (i : ℕ) (hi : i < L) :
    C.N * C.op o i - C.op o i * C.N = (match o with | .create => (1 : ℤ) | .annihil => -1) • C.op o i := by
  unfold CAR.N
  rw [Finset.sum_mul, Finset.mul_sum, ← Finset.sum_sub_distrib]
  cases o
  · simp only [CAR.op]
    rw [Finset.sum_congr rfl (fun k hk => C.n_mul_ad k i (Finset.mem_range.mp hk) hi)]
    simp [hi]
  · simp only [CAR.op]
    rw [Finset.sum_congr rfl (fun k hk => C.n_mul_a k i (Finset.mem_range.mp hk) hi)]
    simp [hi]


variable {K : Type} [CommRing K] [Algebra K R]

/-- denotation of a field-operator term: `Σ_{i₁…i_k < L} coef[i₁,…,i_k] • op₁(i₁) ⋯ op_k(i_k)` -/
def CAR.termDen (C : CAR R L) : (pat : List Op) → (List ℕ → K) → R
  | [], coef => coef [] • (1 : R)
  | o :: rest, coef => ∑ i ∈ range L, C.op o i * C.termDen rest (fun idx => coef (i :: idx))

/-- creators minus annihilators -/
def charge : List Op → ℤ
  | [] => 0
  | .create :: rest => 1 + charge rest
  | .annihil :: rest => -1 + charge rest

theorem CAR.N_comm_termDen (pat : List Op) (coef : List ℕ → K) :
    C.N * C.termDen pat coef - C.termDen pat coef * C.N = charge pat • C.termDen pat coef := by
  induction pat generalizing coef with
  | nil => simp [CAR.termDen, charge]
  | cons o rest ih =>
    simp only [CAR.termDen]
    rw [Finset.mul_sum, Finset.sum_mul, ← Finset.sum_sub_distrib, Finset.smul_sum]
    apply Finset.sum_congr rfl
    intro i hi
    have hi' := Finset.mem_range.mp hi
    have split : ∀ (N x T : R), N * (x * T) - x * T * N = (N * x - x * N) * T + x * (N * T - T * N) := by
      intro N x T; noncomm_ring
    rw [split, C.N_comm_op o i hi', ih]
    cases o <;> simp only [charge, smul_mul_assoc, mul_smul_comm, add_smul]


/-! ### coefficient tensors as functions of the index list, explicit forms of short terms -/

def coef0 (c : K) : List ℕ → K := fun _ => c
def coef2 (t : ℕ → ℕ → K) : List ℕ → K
  | [i, j] => t i j
  | _ => 0
def coef4 (v : ℕ → ℕ → ℕ → ℕ → K) : List ℕ → K
  | [i, j, k, l] => v i j k l
  | _ => 0

theorem CAR.termDen_nil (c : K) : C.termDen [] (coef0 c) = c • (1 : R) := rfl

theorem CAR.termDen_two (o1 o2 : Op) (t : ℕ → ℕ → K) :
    C.termDen [o1, o2] (coef2 t) = ∑ i ∈ range L, ∑ j ∈ range L, t i j • (C.op o1 i * C.op o2 j) := by
  simp only [CAR.termDen, coef2, Finset.mul_sum, mul_smul_comm, mul_one]

theorem CAR.termDen_four (o1 o2 o3 o4 : Op) (v : ℕ → ℕ → ℕ → ℕ → K) :
    C.termDen [o1, o2, o3, o4] (coef4 v) =
      ∑ i ∈ range L, ∑ j ∈ range L, ∑ k ∈ range L, ∑ l ∈ range L,
        v i j k l • (C.op o1 i * C.op o2 j * C.op o3 k * C.op o4 l) := by
  simp only [CAR.termDen, coef4, Finset.mul_sum, mul_smul_comm, mul_one, mul_assoc]


/-! ### Fermi-Hubbard, spinless -/

theorem sum_filter_edgeSet {M : Type} [AddCommMonoid M] (n : ℕ) (adj : ℕ → ℕ → ℤ) (f : ℕ → ℕ → M) :
    (∑ i ∈ range n, ∑ j ∈ range n, if i < j ∧ adj i j ≠ 0 then f i j else 0) = ∑ p ∈ edgeSet n adj, f p.1 p.2 := by
  unfold edgeSet
  rw [Finset.sum_filter, Finset.sum_product]

theorem CAR.hubbard_kin_spinless (adj : ℕ → ℕ → ℤ) (t : K)
    (h01 : ∀ i j, i < L → j < L → adj i j = 0 ∨ adj i j = 1)
    (hsym : ∀ i j, i < L → j < L → adj i j = adj j i) (hdiag : ∀ i, i < L → adj i i = 0) :
    C.termDen hubbardPatternT (coef2 (hubbardKin L adj t false)) =
      (-t) • ∑ p ∈ edgeSet L adj, (C.ad p.1 * C.a p.2 + C.ad p.2 * C.a p.1) := by
  rw [hubbardPatternT, C.termDen_two]
  have : ∀ i ∈ range L, ∀ j ∈ range L, hubbardKin L adj t false i j • (C.op .create i * C.op .annihil j) =
      if adj i j = 0 then 0 else (-t) • (C.ad i * C.a j) := by
    intro i hi j hj
    simp only [hubbardKin, Bool.false_eq_true, if_false, CAR.op]
    rcases h01 i j (mem_range.mp hi) (mem_range.mp hj) with h | h <;> simp [h]
  rw [Finset.sum_congr rfl (fun i hi => Finset.sum_congr rfl (this i hi)),
    sum_ordered_eq_sum_edgeSet L adj (fun i j => (-t) • (C.ad i * C.a j)) hsym hdiag, Finset.smul_sum]
  simp only [smul_add]

theorem CAR.hubbard_int_spinless (adj : ℕ → ℕ → ℤ) (u : K) :
    C.termDen hubbardPatternV (coef4 (hubbardInt L adj u false)) = u • ∑ p ∈ edgeSet L adj, C.n p.1 * C.n p.2 := by
  rw [hubbardPatternV, C.termDen_four, Finset.smul_sum,
    ← sum_filter_edgeSet L adj (fun i j => u • (C.n i * C.n j))]
  apply Finset.sum_congr rfl
  intro a ha
  rw [Finset.sum_comm]
  apply Finset.sum_congr rfl
  intro c hc
  have hcL := mem_range.mp hc
  rw [Finset.sum_eq_single a, Finset.sum_eq_single c]
  · simp only [hubbardInt, Bool.false_eq_true, if_false, true_and, hcL, CAR.op, CAR.n]
    by_cases h : a < c ∧ adj a c ≠ 0
    · rw [if_pos h, if_pos h]; simp only [mul_assoc]
    · rw [if_neg h, if_neg h]; simp
  · intro d _ hd
    simp [hubbardInt, hd]
  · intro h; exact absurd hc h
  · intro b _ hb
    apply Finset.sum_eq_zero
    intro d _
    simp [hubbardInt, hb]
  · intro h; exact absurd ha h


/-! ### Fermi-Hubbard, spinful (`L = h + h`, layer `s` occupies the sites `s*h … s*h + h - 1`) -/

omit [StarRing R] in
/-- hopping block: `Σ_{i,j<h} (-t·adj i j) • x_i y_j = -t • Σ_{edges once} (x_i y_j + x_j y_i)` -/
theorem hop_block {h : ℕ} (adj : ℕ → ℕ → ℤ) (t : K) (x y : ℕ → R)
    (h01 : ∀ i j, i < h → j < h → adj i j = 0 ∨ adj i j = 1)
    (hsym : ∀ i j, i < h → j < h → adj i j = adj j i) (hdiag : ∀ i, i < h → adj i i = 0) :
    (∑ i ∈ range h, ∑ j ∈ range h, (-t * ((adj i j : ℤ) : K)) • (x i * y j)) =
      (-t) • ∑ p ∈ edgeSet h adj, (x p.1 * y p.2 + x p.2 * y p.1) := by
  have : ∀ i ∈ range h, ∀ j ∈ range h, (-t * ((adj i j : ℤ) : K)) • (x i * y j) =
      if adj i j = 0 then 0 else (-t) • (x i * y j) := by
    intro i hi j hj
    rcases h01 i j (mem_range.mp hi) (mem_range.mp hj) with e | e <;> simp [e]
  rw [Finset.sum_congr rfl (fun i hi => Finset.sum_congr rfl (this i hi)),
    sum_ordered_eq_sum_edgeSet h adj (fun i j => (-t) • (x i * y j)) hsym hdiag, Finset.smul_sum]
  simp only [smul_add]

theorem kronI2_block (h : ℕ) (adj : ℕ → ℕ → ℤ) (s s' i j : ℕ) (hi : i < h) (hj : j < h) :
    kronI2 h adj (s * h + i) (s' * h + j) = if s = s' then adj i j else 0 := by
  have hpos : 0 < h := by omega
  have e1 : (s * h + i) / h = s := by
    rw [Nat.mul_comm, Nat.mul_add_div hpos, Nat.div_eq_of_lt hi, Nat.add_zero]
  have e2 : (s' * h + j) / h = s' := by
    rw [Nat.mul_comm, Nat.mul_add_div hpos, Nat.div_eq_of_lt hj, Nat.add_zero]
  have e3 : (s * h + i) % h = i := by rw [Nat.mul_comm, Nat.mul_add_mod, Nat.mod_eq_of_lt hi]
  have e4 : (s' * h + j) % h = j := by rw [Nat.mul_comm, Nat.mul_add_mod, Nat.mod_eq_of_lt hj]
  simp only [kronI2, e1, e2, e3, e4]
  split <;> simp

theorem sum_range_two_blocks {M : Type} [AddCommMonoid M] (h : ℕ) (f : ℕ → M) :
    ∑ a ∈ range (h + h), f a = ∑ s ∈ range 2, ∑ i ∈ range h, f (s * h + i) := by
  rw [Finset.sum_range_add, Finset.sum_range_succ, Finset.sum_range_one]
  simp

theorem CAR.hubbard_kin_spinful {h : ℕ} (C : CAR R (h + h)) (adj : ℕ → ℕ → ℤ) (t : K)
    (h01 : ∀ i j, i < h → j < h → adj i j = 0 ∨ adj i j = 1)
    (hsym : ∀ i j, i < h → j < h → adj i j = adj j i) (hdiag : ∀ i, i < h → adj i i = 0) :
    C.termDen hubbardPatternT (coef2 (hubbardKin (h + h) adj t true)) =
      (-t) • ∑ s ∈ range 2, ∑ p ∈ edgeSet h adj,
        (C.ad (s * h + p.1) * C.a (s * h + p.2) + C.ad (s * h + p.2) * C.a (s * h + p.1)) := by
  rw [hubbardPatternT, C.termDen_two, sum_range_two_blocks, Finset.smul_sum]
  apply Finset.sum_congr rfl
  intro s _
  rw [← hop_block adj t (fun i => C.ad (s * h + i)) (fun j => C.a (s * h + j)) h01 hsym hdiag]
  apply Finset.sum_congr rfl
  intro i hi
  rw [sum_range_two_blocks]
  have hh : (h + h) / 2 = h := by omega
  rw [Finset.sum_eq_single s]
  · apply Finset.sum_congr rfl
    intro j hj
    simp only [hubbardKin, if_true, hh, kronI2_block h adj s s i j (mem_range.mp hi) (mem_range.mp hj), CAR.op]
  · intro s' _ hs'
    apply Finset.sum_eq_zero
    intro j hj
    simp only [hubbardKin, if_true, hh, kronI2_block h adj s s' i j (mem_range.mp hi) (mem_range.mp hj),
      if_neg (Ne.symm hs')]
    simp
  · intro hs; exact absurd ‹s ∈ range 2› hs


theorem CAR.hubbard_int_spinful {h : ℕ} (C : CAR R (h + h)) (adj : ℕ → ℕ → ℤ) (u : K) :
    C.termDen hubbardPatternV (coef4 (hubbardInt (h + h) adj u true)) = u • ∑ i ∈ range h, C.n i * C.n (i + h) := by
  have hh : (h + h) / 2 = h := by omega
  rw [hubbardPatternV, C.termDen_four, Finset.smul_sum]
  have hsub : range h ⊆ range (h + h) := by
    intro x hx; simp only [mem_range] at hx ⊢; omega
  rw [← Finset.sum_subset hsub]
  · apply Finset.sum_congr rfl
    intro a ha
    have haL := mem_range.mp ha
    rw [Finset.sum_eq_single a, Finset.sum_eq_single (a + h), Finset.sum_eq_single (a + h)]
    · simp only [hubbardInt, if_true, hh, haL, true_and, and_self, CAR.op, CAR.n, mul_assoc]
    · intro d _ hd; simp [hubbardInt, hh, hd]
    · intro hn; exact absurd (mem_range.mpr (by omega)) hn
    · intro c _ hc
      apply Finset.sum_eq_zero
      intro d _; simp [hubbardInt, hh, hc]
    · intro hn; exact absurd (mem_range.mpr (by omega)) hn
    · intro b _ hb
      apply Finset.sum_eq_zero
      intro c _
      apply Finset.sum_eq_zero
      intro d _; simp [hubbardInt, hh, hb]
    · intro hn; exact absurd (hsub ha) hn
  · intro a _ ha
    have : ¬ a < h := fun e => ha (mem_range.mpr e)
    apply Finset.sum_eq_zero
    intro b _
    apply Finset.sum_eq_zero
    intro c _
    apply Finset.sum_eq_zero
    intro d _; simp [hubbardInt, hh, this]


/-! ### adjoints -/

theorem CAR.star_a (i : ℕ) : star (C.a i) = C.ad i := rfl
theorem CAR.star_ad (i : ℕ) : star (C.ad i) = C.a i := star_star _
theorem CAR.star_n (i : ℕ) : star (C.n i) = C.n i := by
  simp only [CAR.n, star_mul, C.star_a, C.star_ad]

theorem CAR.n_comm (i j : ℕ) (hi : i < L) (hj : j < L) (hij : i ≠ j) : C.n i * C.n j = C.n j * C.n i := by
  have h1 : C.n i * C.ad j = C.ad j * C.n i := by
    have := C.n_mul_ad i j hi hj; rw [if_neg hij] at this; exact sub_eq_zero.mp this
  have h2 : C.n i * C.a j = C.a j * C.n i := by
    have := C.n_mul_a i j hi hj; rw [if_neg hij] at this; exact sub_eq_zero.mp this
  calc C.n i * C.n j = C.n i * C.ad j * C.a j := by rw [mul_assoc]; rfl
    _ = C.ad j * (C.n i * C.a j) := by rw [h1, mul_assoc]
    _ = C.n j * C.n i := by rw [h2, ← mul_assoc]; rfl

/-- the interaction term in the form of the docstring: `½ Σ v_ijkl a†_i a†_j a_l a_k` -/
theorem CAR.mol_int_form (half : K) (v : ℕ → ℕ → ℕ → ℕ → K) :
    C.termDen molPatternV (coef4 (molV half v)) =
      half • ∑ i ∈ range L, ∑ j ∈ range L, ∑ k ∈ range L, ∑ l ∈ range L,
        v i j k l • (C.ad i * C.ad j * C.a l * C.a k) := by
  rw [molPatternV, C.termDen_four, Finset.smul_sum]
  apply Finset.sum_congr rfl; intro i _
  rw [Finset.smul_sum]
  apply Finset.sum_congr rfl; intro j _
  rw [Finset.sum_comm, Finset.smul_sum]
  apply Finset.sum_congr rfl; intro k _
  rw [Finset.smul_sum]
  apply Finset.sum_congr rfl; intro l _
  simp only [molV, CAR.op, mul_smul]

section star
variable [StarRing K] [StarModule K R]

/-- the operator `-t Σ hopping + u Σ density-density` is self-adjoint for real `t`, `u` -/
theorem CAR.hubbard_form_star (E : Finset (ℕ × ℕ)) (hE : ∀ p ∈ E, p.1 < L ∧ p.2 < L ∧ p.1 ≠ p.2) (t u : K)
    (ht : star t = t) (hu : star u = u) :
    star ((-t) • ∑ p ∈ E, (C.ad p.1 * C.a p.2 + C.ad p.2 * C.a p.1) + u • ∑ p ∈ E, C.n p.1 * C.n p.2) =
      (-t) • ∑ p ∈ E, (C.ad p.1 * C.a p.2 + C.ad p.2 * C.a p.1) + u • ∑ p ∈ E, C.n p.1 * C.n p.2 := by
  rw [star_add, star_smul, star_smul, star_neg, ht, hu, star_sum, star_sum]
  congr 2
  · apply Finset.sum_congr rfl
    intro p _
    simp only [star_add, star_mul, C.star_a, C.star_ad]
    exact add_comm _ _
  · apply Finset.sum_congr rfl
    intro p hp
    obtain ⟨h1, h2, h3⟩ := hE p hp
    rw [star_mul, C.star_n, C.star_n, C.n_comm _ _ h2 h1 (Ne.symm h3)]


theorem sum4_swap_pairs {M : Type} [AddCommMonoid M] (s : Finset ℕ) (F : ℕ → ℕ → ℕ → ℕ → M) :
    (∑ a ∈ s, ∑ b ∈ s, ∑ c ∈ s, ∑ d ∈ s, F a b c d) = ∑ c ∈ s, ∑ d ∈ s, ∑ a ∈ s, ∑ b ∈ s, F a b c d := by
  have e1 : (∑ a ∈ s, ∑ b ∈ s, ∑ c ∈ s, ∑ d ∈ s, F a b c d) =
      ∑ p ∈ s ×ˢ s, ∑ q ∈ s ×ˢ s, F p.1 p.2 q.1 q.2 := by
    rw [Finset.sum_product]
    apply Finset.sum_congr rfl; intro a _
    apply Finset.sum_congr rfl; intro b _
    rw [Finset.sum_product]
  have e2 : (∑ c ∈ s, ∑ d ∈ s, ∑ a ∈ s, ∑ b ∈ s, F a b c d) =
      ∑ q ∈ s ×ˢ s, ∑ p ∈ s ×ˢ s, F p.1 p.2 q.1 q.2 := by
    rw [Finset.sum_product]
    apply Finset.sum_congr rfl; intro c _
    apply Finset.sum_congr rfl; intro d _
    rw [Finset.sum_product]
  rw [e1, e2, Finset.sum_comm]

/-- `Σ t_ij a†_i a_j` has the adjoint `Σ conj(t_ji) a†_i a_j` -/
theorem CAR.star_hop_term (t : ℕ → ℕ → K) :
    star (C.termDen molPatternT (coef2 t)) = C.termDen molPatternT (coef2 fun i j => star (t j i)) := by
  rw [molPatternT, C.termDen_two, C.termDen_two, star_sum, Finset.sum_comm]
  apply Finset.sum_congr rfl; intro i _
  rw [star_sum]
  apply Finset.sum_congr rfl; intro j _
  simp only [star_smul, star_mul, CAR.op, C.star_a, C.star_ad]

/-- adjoint of `Σ v_ijkl a†_i a†_j a_l a_k`: the same form with `conj v_klij` -/
theorem CAR.star_int_form (v : ℕ → ℕ → ℕ → ℕ → K) :
    star (∑ i ∈ range L, ∑ j ∈ range L, ∑ k ∈ range L, ∑ l ∈ range L, v i j k l • (C.ad i * C.ad j * C.a l * C.a k)) =
      ∑ i ∈ range L, ∑ j ∈ range L, ∑ k ∈ range L, ∑ l ∈ range L,
        star (v k l i j) • (C.ad i * C.ad j * C.a l * C.a k) := by
  rw [sum4_swap_pairs (range L) (fun i j k l => star (v k l i j) • (C.ad i * C.ad j * C.a l * C.a k)), star_sum]
  apply Finset.sum_congr rfl; intro i _
  rw [star_sum]
  apply Finset.sum_congr rfl; intro j _
  rw [star_sum]
  apply Finset.sum_congr rfl; intro k _
  rw [star_sum]
  apply Finset.sum_congr rfl; intro l _
  simp only [star_smul, star_mul, C.star_a, C.star_ad, mul_assoc]

end star

/-! ### particle number -/

theorem charge_patterns : charge hubbardPatternT = 0 ∧ charge hubbardPatternV = 0 ∧ charge molPatternC = 0 ∧
    charge molPatternT = 0 ∧ charge molPatternV = 0 := by decide

/-- a term whose pattern has as many creators as annihilators commutes with the number operator -/
theorem CAR.N_commutes_balanced (pat : List Op) (hb : charge pat = 0) (coef : List ℕ → K) :
    C.N * C.termDen pat coef = C.termDen pat coef * C.N := by
  have := C.N_comm_termDen pat coef
  rw [hb, zero_smul] at this
  exact sub_eq_zero.mp this

end Qib.Ham
