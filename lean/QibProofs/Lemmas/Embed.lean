import QibModel.Embed
import QibProofs.Lemmas.EmbedScatter
import Mathlib.Data.List.OfFn
import Mathlib.Data.Matrix.Mul
import Mathlib.Algebra.BigOperators.Ring.Finset
import Mathlib.Data.Fintype.Pi
import Mathlib.Logic.Embedding.Basic
import Mathlib.Tactic.Ring
import Mathlib.LinearAlgebra.Matrix.ConjTranspose
import Mathlib.LinearAlgebra.Matrix.Kronecker
import Mathlib.Data.Fin.Embedding
import Mathlib.Data.Fin.Tuple.Basic
import Mathlib.Logic.Equiv.Fintype
/-!
Core B, Mathlib side (helper lemmas for C03, C04, C05, C19): the wire embedding in bit-function indexing
(`embed`, multiplicative, unital, compatible with `ᴴ`, hence preserving inverses and unitarity), leading wires
= `g ⊗ₖ 1`, wire permutations = conjugation by a basis permutation, `permute_gate_wires`, and the bridge between
flat indices (`Nat`, wire 0 most significant) and bit functions, plus the bridge array matrix ↦ Mathlib matrix.
No property statements here.
-/
open Matrix

namespace Qib.Embed

variable {α : Type*} [CommRing α] {n m : ℕ}

/-- override the bits of `R` on the wires `iw` by `t`. -/
noncomputable def override (iw : Fin m ↪ Fin n) (R : Fin n → Bool) (t : Fin m → Bool) : Fin n → Bool :=
  fun k => if h : ∃ a, iw a = k then t h.choose else R k

/-- `R` and `C` carry the same bit on every wire outside the range of `iw` -/
def AgreeOff (iw : Fin m ↪ Fin n) (R C : Fin n → Bool) : Prop := ∀ k, (¬ ∃ a, iw a = k) → R k = C k
instance (iw : Fin m ↪ Fin n) (R C : Fin n → Bool) : Decidable (AgreeOff iw R C) := by
  unfold AgreeOff; infer_instance

/-- the gate `g` acting on the wires `iw` of an `n`-wire register (bit-function indices), identity elsewhere -/
def embed (iw : Fin m ↪ Fin n) (g : Matrix (Fin m → Bool) (Fin m → Bool) α) :
    Matrix (Fin n → Bool) (Fin n → Bool) α :=
  fun R C => if AgreeOff iw R C then g (R ∘ iw) (C ∘ iw) else 0

theorem override_comp (iw : Fin m ↪ Fin n) (R : Fin n → Bool) (t : Fin m → Bool) :
    override iw R t ∘ iw = t := by
  funext a
  have h : ∃ b, iw b = iw a := ⟨a, rfl⟩
  simp only [Function.comp, override, h, dite_true]
  congr 1
  exact iw.injective h.choose_spec

theorem override_agree (iw : Fin m ↪ Fin n) (R : Fin n → Bool) (t : Fin m → Bool) :
    AgreeOff iw R (override iw R t) := by
  intro k hk; simp [override, hk]

theorem eq_override_of_agree (iw : Fin m ↪ Fin n) (R M : Fin n → Bool) (h : AgreeOff iw R M) :
    M = override iw R (M ∘ iw) := by
  funext k
  by_cases hk : ∃ a, iw a = k
  · simp only [override, hk, dite_true, Function.comp]; rw [hk.choose_spec]
  · simp only [override, hk, dite_false]; exact (h k hk).symm

theorem embed_mul (iw : Fin m ↪ Fin n) (g h : Matrix (Fin m → Bool) (Fin m → Bool) α) :
    embed iw g * embed iw h = embed iw (g * h) := by
  ext R C
  simp only [Matrix.mul_apply, embed]
  by_cases hRC : AgreeOff iw R C
  · simp only [hRC, if_true]
    -- reindex the sum over M by t = M ∘ iw
    rw [← Finset.sum_subset (Finset.subset_univ (Finset.univ.image (override iw R)))]
    · rw [Finset.sum_image]
      · apply Finset.sum_congr rfl
        intro t _
        have h1 : AgreeOff iw R (override iw R t) := override_agree iw R t
        have h2 : AgreeOff iw (override iw R t) C := by
          intro k hk; rw [← hRC k hk]; simp [override, hk]
        simp [h1, h2, override_comp]
      · intro t _ t' _ htt
        have := congrArg (· ∘ iw) htt
        simpa [override_comp] using this
    · intro M _ hM
      have : ¬ AgreeOff iw R M := by
        intro hag
        apply hM
        exact Finset.mem_image.mpr ⟨M ∘ iw, Finset.mem_univ _, (eq_override_of_agree iw R M hag).symm⟩
      simp [this]
  · simp only [hRC, if_false]
    apply Finset.sum_eq_zero
    intro M _
    by_cases h1 : AgreeOff iw R M
    · by_cases h2 : AgreeOff iw M C
      · exact absurd (fun k hk => (h1 k hk).trans (h2 k hk)) hRC
      · simp [h2]
    · simp [h1]

theorem agreeOff_symm {iw : Fin m ↪ Fin n} {R C : Fin n → Bool} (h : AgreeOff iw R C) : AgreeOff iw C R :=
  fun k hk => (h k hk).symm

theorem eq_iff_agreeOff_and (iw : Fin m ↪ Fin n) (R C : Fin n → Bool) :
    R = C ↔ AgreeOff iw R C ∧ R ∘ iw = C ∘ iw := by
  constructor
  · rintro rfl; exact ⟨fun _ _ => rfl, rfl⟩
  · rintro ⟨h1, h2⟩
    funext k
    by_cases hk : ∃ a, iw a = k
    · obtain ⟨a, rfl⟩ := hk; exact congrFun h2 a
    · exact h1 k hk

theorem embed_one (iw : Fin m ↪ Fin n) : embed iw (1 : Matrix (Fin m → Bool) (Fin m → Bool) α) = 1 := by
  ext R C
  simp only [embed, Matrix.one_apply]
  by_cases h : R = C
  · subst h; simp [(eq_iff_agreeOff_and iw R R).mp rfl]
  · rw [if_neg h]
    by_cases ha : AgreeOff iw R C
    · have : ¬ R ∘ iw = C ∘ iw := fun hc => h ((eq_iff_agreeOff_and iw R C).mpr ⟨ha, hc⟩)
      simp [ha, this]
    · simp [ha]

theorem embed_zero (iw : Fin m ↪ Fin n) : embed iw (0 : Matrix (Fin m → Bool) (Fin m → Bool) α) = 0 := by
  ext R C; simp [embed]

theorem embed_add (iw : Fin m ↪ Fin n) (g h : Matrix (Fin m → Bool) (Fin m → Bool) α) :
    embed iw (g + h) = embed iw g + embed iw h := by
  ext R C; by_cases ha : AgreeOff iw R C <;> simp [embed, ha]

theorem embed_smul (iw : Fin m ↪ Fin n) (z : α) (g : Matrix (Fin m → Bool) (Fin m → Bool) α) :
    embed iw (z • g) = z • embed iw g := by
  ext R C; by_cases ha : AgreeOff iw R C <;> simp [embed, ha]

theorem embed_conjTranspose [StarRing α] (iw : Fin m ↪ Fin n) (g : Matrix (Fin m → Bool) (Fin m → Bool) α) :
    (embed iw g)ᴴ = embed iw gᴴ := by
  ext R C
  simp only [embed, Matrix.conjTranspose_apply]
  by_cases h : AgreeOff iw R C
  · simp [h, agreeOff_symm h]
  · have : ¬ AgreeOff iw C R := fun hc => h (agreeOff_symm hc)
    simp [h, this]

/-- embedding preserves inverses -/
theorem embed_inverse (iw : Fin m ↪ Fin n) (g h : Matrix (Fin m → Bool) (Fin m → Bool) α) (hgh : g * h = 1) :
    embed iw g * embed iw h = 1 := by
  rw [embed_mul, hgh, embed_one]

/-- embedding preserves unitarity -/
theorem embed_unitary [StarRing α] (iw : Fin m ↪ Fin n) (g : Matrix (Fin m → Bool) (Fin m → Bool) α)
    (hu : g * gᴴ = 1 ∧ gᴴ * g = 1) :
    embed iw g * (embed iw g)ᴴ = 1 ∧ (embed iw g)ᴴ * embed iw g = 1 := by
  rw [embed_conjTranspose]
  exact ⟨embed_inverse iw _ _ hu.1, embed_inverse iw _ _ hu.2⟩

/-- injective: different gates embed differently -/
theorem embed_injective (iw : Fin m ↪ Fin n) : Function.Injective (embed (α := α) iw) := by
  intro g h hgh
  ext r c
  have := congrFun (congrFun hgh (override iw (fun _ => false) r)) (override iw (fun _ => false) c)
  have ha : AgreeOff iw (override iw (fun _ => false) r) (override iw (fun _ => false) c) := by
    intro k hk; simp [override, hk]
  simpa [embed, ha, override_comp] using this


/-! ### leading wires: `g ⊗ 1` -/

theorem agreeOff_castAdd_iff {k : ℕ} (r1 c1 : Fin m → Bool) (r2 c2 : Fin k → Bool) :
    AgreeOff (Fin.castAddEmb k) (Fin.append r1 r2) (Fin.append c1 c2) ↔ r2 = c2 := by
  constructor
  · intro h
    funext j
    have := h (Fin.natAdd m j) (by
      rintro ⟨a, ha⟩
      have := congrArg Fin.val ha
      simp at this; omega)
    simpa using this
  · rintro rfl x
    refine Fin.addCases (fun a hx => ?_) (fun j _ => ?_) x
    · exact absurd ⟨a, rfl⟩ hx
    · simp

/-- a gate on the first `m` wires of `m + k`: entry form of `g ⊗ₖ 1` (first factor = leading wires) -/
theorem embed_leading_apply {k : ℕ} (g : Matrix (Fin m → Bool) (Fin m → Bool) α)
    (r1 c1 : Fin m → Bool) (r2 c2 : Fin k → Bool) :
    embed (Fin.castAddEmb k) g (Fin.append r1 r2) (Fin.append c1 c2)
      = (Matrix.kroneckerMap (· * ·) g (1 : Matrix (Fin k → Bool) (Fin k → Bool) α)) (r1, r2) (c1, c2) := by
  have e1 : Fin.append r1 r2 ∘ (Fin.castAddEmb k) = r1 := by funext a; simp
  have e2 : Fin.append c1 c2 ∘ (Fin.castAddEmb k) = c1 := by funext a; simp
  simp only [embed, agreeOff_castAdd_iff, e1, e2, Matrix.kroneckerMap_apply, Matrix.one_apply]
  by_cases h : r2 = c2 <;> simp [h]

/-- matrix form: `embed [0..m-1] g = g ⊗ₖ 1` up to the splitting `(Fin m → Bool) × (Fin k → Bool) ≃ (Fin (m+k) → Bool)` -/
theorem embed_leading {k : ℕ} (g : Matrix (Fin m → Bool) (Fin m → Bool) α) :
    embed (Fin.castAddEmb k) g
      = Matrix.reindex (Fin.appendEquiv m k) (Fin.appendEquiv m k)
          (Matrix.kroneckerMap (· * ·) g (1 : Matrix (Fin k → Bool) (Fin k → Bool) α)) := by
  ext R C
  obtain ⟨⟨r1, r2⟩, rfl⟩ := (Fin.appendEquiv m k).surjective R
  obtain ⟨⟨c1, c2⟩, rfl⟩ := (Fin.appendEquiv m k).surjective C
  simp only [Matrix.reindex_apply, Matrix.submatrix_apply, Equiv.symm_apply_apply]
  exact embed_leading_apply g r1 c1 r2 c2

/-! ### wire permutations -/

/-- the basis permutation induced by a wire permutation: `|R⟩ ↦ |R ∘ σ⁻¹⟩`, as a 0/1 matrix -/
def wirePermMatrix (σ : Equiv.Perm (Fin n)) : Matrix (Fin n → Bool) (Fin n → Bool) α :=
  fun R C => if R ∘ σ = C then 1 else 0

theorem wirePermMatrix_mul (σ : Equiv.Perm (Fin n)) (M : Matrix (Fin n → Bool) (Fin n → Bool) α) (R C) :
    ((wirePermMatrix σ : Matrix (Fin n → Bool) (Fin n → Bool) α) * M) R C = M (R ∘ σ) C := by
  simp [Matrix.mul_apply, wirePermMatrix]

theorem mul_wirePermMatrix_conjTranspose [StarRing α] (σ : Equiv.Perm (Fin n))
    (M : Matrix (Fin n → Bool) (Fin n → Bool) α) (R C) :
    (M * (wirePermMatrix σ : Matrix (Fin n → Bool) (Fin n → Bool) α)ᴴ) R C = M R (C ∘ σ) := by
  simp only [Matrix.mul_apply, wirePermMatrix, Matrix.conjTranspose_apply]
  rw [Finset.sum_eq_single (C ∘ σ)]
  · simp
  · intro B _ hB
    have : ¬ C ∘ σ = B := fun h => hB h.symm
    simp [this]
  · simp

theorem wirePermMatrix_unitary [StarRing α] (σ : Equiv.Perm (Fin n)) :
    (wirePermMatrix σ : Matrix _ _ α) * (wirePermMatrix σ)ᴴ = 1 := by
  ext R C
  rw [mul_wirePermMatrix_conjTranspose]
  simp only [wirePermMatrix, Matrix.one_apply]
  have : R ∘ σ = C ∘ σ ↔ R = C := by
    constructor
    · intro h; funext k
      have := congrFun h (σ.symm k); simpa using this
    · rintro rfl; rfl
  simp [this]

/-- re-routing the wires through `σ`: reindexing form -/
theorem embed_perm_apply (iw : Fin m ↪ Fin n) (σ : Equiv.Perm (Fin n))
    (g : Matrix (Fin m → Bool) (Fin m → Bool) α) (R C : Fin n → Bool) :
    embed (iw.trans σ.toEmbedding) g R C = embed iw g (R ∘ σ) (C ∘ σ) := by
  have hag : AgreeOff (iw.trans σ.toEmbedding) R C ↔ AgreeOff iw (R ∘ σ) (C ∘ σ) := by
    constructor
    · intro h j hj
      apply h (σ j)
      rintro ⟨a, ha⟩
      exact hj ⟨a, σ.injective (by simpa using ha)⟩
    · intro h k hk
      have := h (σ.symm k) (by
        rintro ⟨a, ha⟩
        exact hk ⟨a, by simp [ha]⟩)
      simpa using this
  simp only [embed, hag]
  rfl

/-- re-routing the wires through `σ` = conjugation with the induced basis permutation -/
theorem embed_perm [StarRing α] (iw : Fin m ↪ Fin n) (σ : Equiv.Perm (Fin n))
    (g : Matrix (Fin m → Bool) (Fin m → Bool) α) :
    embed (iw.trans σ.toEmbedding) g = wirePermMatrix σ * embed iw g * (wirePermMatrix σ)ᴴ := by
  ext R C
  rw [mul_wirePermMatrix_conjTranspose, wirePermMatrix_mul, embed_perm_apply]

/-- any two placements of `m` wires differ by a wire permutation -/
theorem exists_perm_extending (iw iw' : Fin m ↪ Fin n) :
    ∃ σ : Equiv.Perm (Fin n), ∀ a, σ (iw a) = iw' a := by
  classical
  let e : {x // x ∈ Set.range iw} ≃ {x // x ∈ Set.range iw'} :=
    (Equiv.ofInjective iw iw.injective).symm.trans (Equiv.ofInjective iw' iw'.injective)
  refine ⟨e.extendSubtype, fun a => ?_⟩
  have hm : iw a ∈ Set.range iw := ⟨a, rfl⟩
  rw [Equiv.extendSubtype_apply_of_mem e (iw a) hm]
  simp [e, Equiv.ofInjective_symm_apply]

/-- every placement is a conjugate of the leading placement `g ⊗ₖ 1` -/
theorem embed_eq_conj_leading [StarRing α] {k : ℕ} (iw : Fin m ↪ Fin (m + k))
    (g : Matrix (Fin m → Bool) (Fin m → Bool) α) :
    ∃ σ : Equiv.Perm (Fin (m + k)), (∀ a, σ (Fin.castAdd k a) = iw a) ∧
      embed iw g = wirePermMatrix σ *
        Matrix.reindex (Fin.appendEquiv m k) (Fin.appendEquiv m k)
          (Matrix.kroneckerMap (· * ·) g (1 : Matrix (Fin k → Bool) (Fin k → Bool) α)) * (wirePermMatrix σ)ᴴ := by
  obtain ⟨σ, hσ⟩ := exists_perm_extending (Fin.castAddEmb k) iw
  refine ⟨σ, fun a => by simpa using hσ a, ?_⟩
  have : iw = (Fin.castAddEmb k).trans σ.toEmbedding := by
    ext a; simp [← hσ a]
  rw [← embed_leading, this, embed_perm]

/-! ### `permute_gate_wires` in bit-function form -/

/-- new axis `a` of the result is old axis `π a` : `(permuteGate π u) r c = u r' c'` with `r' (π a) = r a` -/
def permuteGate (π : Equiv.Perm (Fin m)) (u : Matrix (Fin m → Bool) (Fin m → Bool) α) :
    Matrix (Fin m → Bool) (Fin m → Bool) α :=
  fun r c => u (r ∘ π.symm) (c ∘ π.symm)

theorem permuteGate_eq_conj [StarRing α] (π : Equiv.Perm (Fin m)) (u : Matrix (Fin m → Bool) (Fin m → Bool) α) :
    permuteGate π u = wirePermMatrix π.symm * u * (wirePermMatrix π.symm)ᴴ := by
  ext r c
  rw [mul_wirePermMatrix_conjTranspose, wirePermMatrix_mul]; rfl

/-- placing the permuted gate on wires `iw` = placing the original gate on the wires `iw ∘ π⁻¹` -/
theorem embed_permuteGate (iw : Fin m ↪ Fin n) (π : Equiv.Perm (Fin m))
    (u : Matrix (Fin m → Bool) (Fin m → Bool) α) :
    embed iw (permuteGate π u) = embed (π.symm.toEmbedding.trans iw) u := by
  ext R C
  have hag : AgreeOff iw R C ↔ AgreeOff (π.symm.toEmbedding.trans iw) R C := by
    constructor
    · intro h k hk
      exact h k (by rintro ⟨a, ha⟩; exact hk ⟨π a, by simp [ha]⟩)
    · intro h k hk
      exact h k (by rintro ⟨a, ha⟩; exact hk ⟨π.symm a, by simpa using ha⟩)
  simp only [embed, hag, permuteGate]
  rfl


/-! ### bridge: flat indices (`Nat`, wire 0 = most significant bit) ↔ bit functions -/

/-- the bit function of a flat register index -/
def toBits (n R : ℕ) : Fin n → Bool := fun w => wireBit n R w

/-- the flat index of a bit function (wire 0 most significant) -/
def bitsToNat {m : ℕ} (r : Fin m → Bool) : ℕ := undigits (List.ofFn r)

theorem undigits_append_singleton (bs : List Bool) (b : Bool) :
    undigits (bs ++ [b]) = 2 * undigits bs + b.toNat := by
  simp [undigits, List.foldl_append]

theorem undigits_lt (bs : List Bool) : undigits bs < 2 ^ bs.length := by
  induction bs using List.reverseRecOn with
  | nil => simp [undigits]
  | append_singleton bs b ih =>
    rw [undigits_append_singleton, List.length_append, List.length_singleton, Nat.pow_succ]
    have : b.toNat ≤ 1 := Bool.toNat_le _
    omega

theorem undigits_testBit (bs : List Bool) (j : ℕ) :
    (undigits bs).testBit j = (bs.reverse[j]?).getD false := by
  induction bs using List.reverseRecOn generalizing j with
  | nil => simp [undigits]
  | append_singleton bs b ih =>
    rw [undigits_append_singleton, List.reverse_append, List.reverse_singleton, List.singleton_append]
    have hb : b.toNat ≤ 1 := Bool.toNat_le _
    cases j with
    | zero =>
      simp only [Nat.testBit_zero, List.getElem?_cons_zero, Option.getD_some]
      cases b <;> simp
    | succ j =>
      simp only [Nat.testBit_add_one, List.getElem?_cons_succ]
      have : (2 * undigits bs + b.toNat) / 2 = undigits bs := by omega
      rw [this, ih]

theorem bitsToNat_lt {m : ℕ} (r : Fin m → Bool) : bitsToNat r < 2 ^ m := by
  have := undigits_lt (List.ofFn r)
  simpa [bitsToNat] using this

theorem toBits_bitsToNat {m : ℕ} (r : Fin m → Bool) : toBits m (bitsToNat r) = r := by
  funext w
  simp only [toBits, wireBit, bitsToNat, undigits_testBit]
  have hw := w.2
  rw [List.getElem?_reverse (by simp; omega)]
  simp only [List.length_ofFn]
  have e : m - 1 - (m - 1 - w.1) = w.1 := by omega
  rw [e]
  simp

theorem bitsToNat_toBits {n R : ℕ} (hR : R < 2 ^ n) : bitsToNat (toBits n R) = R := by
  apply Nat.eq_of_testBit_eq
  intro j
  simp only [bitsToNat, undigits_testBit]
  by_cases hj : j < n
  · rw [List.getElem?_reverse (by simp; omega)]
    simp only [List.length_ofFn]
    rw [List.getElem?_ofFn]
    have h2 : n - 1 - j < n := by omega
    simp only [h2, dite_true, Option.getD_some, toBits, wireBit]
    congr 1; omega
  · have hle : 2 ^ n ≤ 2 ^ j := Nat.pow_le_pow_right (by decide) (by omega)
    rw [Nat.testBit_lt_two_pow (Nat.lt_of_lt_of_le hR hle)]
    rw [List.getElem?_eq_none (by simp; omega)]; rfl

theorem bitsToNat_injective {m : ℕ} : Function.Injective (bitsToNat (m := m)) := by
  intro r c h
  rw [← toBits_bitsToNat r, ← toBits_bitsToNat c, h]

/-- the wire list of a placement -/
def wiresOf (iw : Fin m ↪ Fin n) : List ℕ := List.ofFn fun a => (iw a).1

theorem wiresOf_length (iw : Fin m ↪ Fin n) : (wiresOf iw).length = m := by simp [wiresOf]

theorem mem_wiresOf {iw : Fin m ↪ Fin n} {w : ℕ} : w ∈ wiresOf iw ↔ ∃ a, (iw a).1 = w := by
  simp [wiresOf, List.mem_ofFn]

theorem wiresOf_nodup (iw : Fin m ↪ Fin n) : (wiresOf iw).Nodup := by
  unfold wiresOf
  rw [List.nodup_ofFn]
  intro a b h
  exact iw.injective (Fin.ext h)

theorem wiresOf_lt (iw : Fin m ↪ Fin n) : ∀ w ∈ wiresOf iw, w < n := by
  intro w hw
  obtain ⟨a, rfl⟩ := mem_wiresOf.mp hw
  exact (iw a).2

theorem gateIdx_wiresOf (iw : Fin m ↪ Fin n) (R : ℕ) :
    gateIdx n (wiresOf iw) R = bitsToNat (toBits n R ∘ iw) := by
  unfold gateIdx bitsToNat undigits wiresOf
  have : (List.ofFn (toBits n R ∘ iw)) = (List.ofFn fun a => (iw a).1).map (fun w => wireBit n R w) := by
    rw [List.map_ofFn]; rfl
  rw [this, List.foldl_map]

theorem agreeOff_wiresOf (iw : Fin m ↪ Fin n) (R C : ℕ) :
    agreeOff n (wiresOf iw) R C = true ↔ AgreeOff iw (toBits n R) (toBits n C) := by
  rw [agreeOff_iff]
  constructor
  · intro h k hk
    exact h k.1 k.2 (by
      intro hm
      obtain ⟨a, ha⟩ := mem_wiresOf.mp hm
      exact hk ⟨a, Fin.ext ha⟩)
  · intro h w hw hni
    exact h ⟨w, hw⟩ (by
      rintro ⟨a, ha⟩
      exact hni (mem_wiresOf.mpr ⟨a, by simp [ha]⟩))

/-- the flat reference `embedEntry` is the bit-function embedding read through `toBits` / `bitsToNat` -/
theorem embedEntry_eq_embed {β : Type} [CommRing β] (iw : Fin m ↪ Fin n) (g : ℕ → ℕ → β) (R C : ℕ) :
    embedEntry n (wiresOf iw) g R C
      = embed iw (fun r c => g (bitsToNat r) (bitsToNat c)) (toBits n R) (toBits n C) := by
  unfold embedEntry embed
  by_cases h : agreeOff n (wiresOf iw) R C = true
  · have h' := (agreeOff_wiresOf iw R C).mp h
    simp only [h, h', if_true, gateIdx_wiresOf]
  · have h' : ¬ AgreeOff iw (toBits n R) (toBits n C) := fun hc => h ((agreeOff_wiresOf iw R C).mpr hc)
    simp only [h, h', if_false]
    rfl


/-! ### bridge for `permute_gate_wires` -/

/-- a wire permutation as the list handed to `permute_gate_wires` -/
def permList (π : Equiv.Perm (Fin m)) : List ℕ := List.ofFn fun a => (π a).1

theorem permList_nodup (π : Equiv.Perm (Fin m)) : (permList π).Nodup := by
  unfold permList
  rw [List.nodup_ofFn]
  intro a b h
  exact π.injective (Fin.ext h)

theorem idxOf_permList (π : Equiv.Perm (Fin m)) (k : Fin m) : (permList π).idxOf k.1 = (π.symm k).1 := by
  have hlt : (π.symm k).1 < (permList π).length := by simp [permList]
  have hget : (permList π)[(π.symm k).1] = k.1 := by simp [permList]
  conv_lhs => rw [← hget]
  exact (permList_nodup π).idxOf_getElem _ hlt

theorem isPermOfRange_permList (π : Equiv.Perm (Fin m)) : isPermOfRange m (permList π) = true := by
  simp only [isPermOfRange, Bool.and_eq_true, beq_iff_eq, List.all_eq_true, List.mem_range,
    List.contains_iff_mem]
  refine ⟨by simp [permList], fun k hk => ?_⟩
  simp only [permList, List.mem_ofFn]
  exact ⟨π.symm ⟨k, hk⟩, by simp⟩

theorem permSrcIdx_permList (π : Equiv.Perm (Fin m)) (R : ℕ) :
    permSrcIdx m (permList π) R = bitsToNat (toBits m R ∘ π.symm) := by
  unfold permSrcIdx bitsToNat
  congr 1
  rw [List.ofFn_eq_map, ← List.map_coe_finRange_eq_range, List.map_map]
  apply List.map_congr_left
  intro k _
  simp [toBits, idxOf_permList]

/-- the flat model of `permute_gate_wires` is `permuteGate` read through `toBits` / `bitsToNat` -/
theorem permuteGateWires_permList {β : Type} (π : Equiv.Perm (Fin m)) (u : ℕ → ℕ → β) :
    ∃ f, permuteGateWires (permList π) (2 ^ m) (2 ^ m) u = .ok f ∧
      ∀ R C, f R C = u (bitsToNat (toBits m R ∘ π.symm)) (bitsToNat (toBits m C ∘ π.symm)) := by
  have hl : (permList π).length = m := by simp [permList]
  refine ⟨_, ?_, fun R C => rfl⟩
  simp only [permuteGateWires, hl, and_self, not_true_eq_false, if_false, isPermOfRange_permList]
  simp only [permSrcIdx_permList]

/-! ### bridge for dense matrices -/

namespace DMat
variable {β : Type} {N : ℕ}

/-- the Mathlib matrix of an array-backed matrix -/
def toMatrix (A : DMat β N) : Matrix (Fin N) (Fin N) β := fun i j => A.get i j

theorem get_ofFn (f : Fin N → Fin N → β) (i j : Fin N) : (DMat.ofFn f).get i j = f i j := by
  simp [DMat.get, DMat.ofFn]

theorem toMatrix_ofFn (f : Fin N → Fin N → β) : (DMat.ofFn f).toMatrix = Matrix.of f := by
  ext i j; simp [toMatrix, get_ofFn]

theorem toMatrix_tab (f : ℕ → ℕ → β) (i j : Fin N) : (DMat.tab f : DMat β N).toMatrix i j = f i.1 j.1 := by
  simp [toMatrix, DMat.tab, get_ofFn]

theorem toMatrix_mul [Semiring β] (A B : DMat β N) : (A.mul B).toMatrix = A.toMatrix * B.toMatrix := by
  ext i j
  simp only [toMatrix, DMat.mul, get_ofFn, Matrix.mul_apply]
  rw [List.sum_ofFn]

end DMat

end Qib.Embed
