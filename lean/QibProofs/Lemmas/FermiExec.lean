import QibProofs.Lemmas.FermiBridge
/-!
Core D / C10: closure of the "processable" conditions under `adjoint`, `add`, `mul`, the `fields()` bookkeeping, the
exception branches of `as_matrix`, and end-to-end statements about what the executable `FieldOp.asMatrix` returns
for adjoints, sums, products and the elementary ladder operators.
Helper lemmas only; the property statements are in `Properties/C10.lean`.
-/

open Complex Matrix
namespace Qib.Fermi

/-! ### Gaussian rationals: no zero divisors, conjugation -/

theorem GQ_mul_eq_zero {a b : Qib.GQ} (h : a * b = 0) : a = 0 ∨ b = 0 := by
  have := (gqC_eq_zero_iff (a * b)).mpr h
  rw [gqC_mul] at this
  rcases mul_eq_zero.mp this with h1 | h1
  · exact Or.inl ((gqC_eq_zero_iff a).mp h1)
  · exact Or.inr ((gqC_eq_zero_iff b).mp h1)

theorem GQ_conj_eq_zero {a : Qib.GQ} (h : a.conj = 0) : a = 0 := by
  have := (gqC_eq_zero_iff a.conj).mpr h
  rw [gqC_conj] at this
  exact (gqC_eq_zero_iff a).mp (by simpa using this)

theorem gqC_one : gqC 1 = 1 := by
  have : (1 : Qib.GQ) = ⟨1, 0⟩ := rfl
  simp [gqC, this]

theorem gqC_injective : Function.Injective gqC := by
  intro a b h
  have h1 := congrArg Complex.re h
  have h2 := congrArg Complex.im h
  simp [gqC] at h1 h2
  obtain ⟨r1, i1⟩ := a
  obtain ⟨r2, i2⟩ := b
  simp only [Qib.GQ.mk.injEq]
  exact ⟨by exact_mod_cast h1, by exact_mod_cast h2⟩

/-! ### `fields()`: first-occurrence order, no repetitions -/

/-- `if f not in acc: acc.append(f)` -/
def insertNew (acc : List FieldD) (g : FieldD) : List FieldD := if g ∈ acc then acc else acc ++ [g]

theorem mem_foldl_insertNew (l acc : List FieldD) (g : FieldD) :
    g ∈ l.foldl insertNew acc ↔ g ∈ acc ∨ g ∈ l := by
  induction l generalizing acc with
  | nil => simp
  | cons a l ih =>
    simp only [List.foldl_cons, ih, insertNew, List.mem_cons]
    by_cases ha : a ∈ acc
    · simp only [ha, if_true]
      constructor
      · rintro (h | h); exact Or.inl h; exact Or.inr (Or.inr h)
      · rintro (h | rfl | h); exact Or.inl h; exact Or.inl ha; exact Or.inr h
    · simp only [ha, if_false, List.mem_append, List.mem_singleton]
      tauto

theorem nodup_foldl_insertNew (l acc : List FieldD) (h : acc.Nodup) : (l.foldl insertNew acc).Nodup := by
  induction l generalizing acc with
  | nil => simpa
  | cons a l ih =>
    simp only [List.foldl_cons]
    apply ih
    simp only [insertNew]
    split_ifs with ha
    · exact h
    · exact List.Nodup.append h (List.nodup_singleton a) (by simpa using ha)

theorem Term.fields_eq (t : Term) : t.fields = (t.opdesc.map (·.field)).foldl insertNew [] := by
  simp only [Term.fields, Term.fieldsInto, List.foldl_map]; rfl

theorem Term.mem_fields (t : Term) (g : FieldD) : g ∈ t.fields ↔ ∃ d ∈ t.opdesc, d.field = g := by
  rw [Term.fields_eq, mem_foldl_insertNew]; simp

theorem FieldOp.fields_aux (ts : List Term) (acc : List FieldD) (hacc : acc.Nodup) :
    (ts.foldl (fun acc t => t.fields.foldl insertNew acc) acc).Nodup ∧
    ∀ g, g ∈ ts.foldl (fun acc t => t.fields.foldl insertNew acc) acc ↔ g ∈ acc ∨ ∃ t ∈ ts, g ∈ t.fields := by
  induction ts generalizing acc with
  | nil => simp [hacc]
  | cons t ts ih =>
    simp only [List.foldl_cons]
    obtain ⟨h1, h2⟩ := ih (t.fields.foldl insertNew acc) (nodup_foldl_insertNew _ _ hacc)
    refine ⟨h1, fun g => ?_⟩
    rw [h2, mem_foldl_insertNew]
    simp only [List.mem_cons, exists_eq_or_imp]
    tauto

theorem FieldOp.fields_nodup (op : FieldOp) : op.fields.Nodup :=
  (FieldOp.fields_aux op.terms [] List.nodup_nil).1

theorem FieldOp.mem_fields (op : FieldOp) (g : FieldD) :
    g ∈ op.fields ↔ ∃ t ∈ op.terms, ∃ d ∈ t.opdesc, d.field = g := by
  have := (FieldOp.fields_aux op.terms [] List.nodup_nil).2 g
  simp only [List.not_mem_nil, false_or] at this
  simp only [← Term.mem_fields]
  exact this

/-- `fields() == [f]` ⇔ some operator description exists and every one of them lives on `f` -/
theorem FieldOp.fields_eq_singleton_iff (op : FieldOp) (f : FieldD) :
    op.fields = [f] ↔ (∃ t ∈ op.terms, t.opdesc ≠ []) ∧ ∀ t ∈ op.terms, ∀ d ∈ t.opdesc, d.field = f := by
  constructor
  · intro h
    have hm := FieldOp.mem_fields op
    rw [h] at hm
    constructor
    · obtain ⟨t, ht, d, hd, _⟩ := (hm f).mp (by simp)
      exact ⟨t, ht, List.ne_nil_of_mem hd⟩
    · intro t ht d hd
      have := (hm d.field).mpr ⟨t, ht, d, hd, rfl⟩
      simpa using this
  · rintro ⟨⟨t, ht, hne⟩, hall⟩
    have hm := FieldOp.mem_fields op
    have hnd := FieldOp.fields_nodup op
    have hf : f ∈ op.fields := by
      obtain ⟨d, ds, hd⟩ := List.exists_cons_of_ne_nil hne
      exact (hm f).mpr ⟨t, ht, d, by simp [hd], hall t ht d (by simp [hd])⟩
    have hall' : ∀ g ∈ op.fields, g = f := by
      intro g hg
      obtain ⟨t, ht, d, hd, rfl⟩ := (hm g).mp hg
      exact hall t ht d hd
    generalize op.fields = l at hf hall' hnd
    match l, hf, hall', hnd with
    | [a], _, h2, _ => rw [h2 a (by simp)]
    | a :: b :: l, _, h2, h3 =>
      have ha := h2 a (by simp)
      have hb := h2 b (by simp)
      subst ha; subst hb
      simp at h3

/-! ### "processable" is closed under adjoint, sum and product -/

theorem opKind_adjoint_isSome {o : IFOType} (h : (opKind o).isSome) : (opKind o.adjoint).isSome := by
  cases o <;> simp_all [opKind, IFOType.adjoint]

theorem Term.adjoint_good (L : ℕ) (t : Term) (h : t.Good L) : t.adjoint.Good L := by
  refine ⟨?_, ?_, ?_⟩
  · intro d hd
    simp only [Term.adjoint, List.mem_map, List.mem_reverse] at hd
    obtain ⟨e, he, rfl⟩ := hd
    exact opKind_adjoint_isSome (h.fermi e he)
  · simp only [Term.adjoint, Tensor.conjT_shape, prodL_reverse]; exact h.nonempty
  · intro idx hin hne j hj
    simp only [Term.adjoint, Tensor.conjT_shape] at hin hne
    rw [Tensor.get_conjT t.coeffs hin] at hne
    have hne' : t.coeffs.get idx.reverse ≠ 0 := fun e => hne (by rw [e]; rfl)
    have hin' : InShape idx.reverse t.coeffs.shape := List.forall₂_reverse_iff.mp (by simpa using hin)
    exact h.inRange idx.reverse hin' hne' j (by simpa using hj)

theorem Term.mul_good (L : ℕ) (a b : Term) (ha : a.Good L) (hb : b.Good L) : (a.mul b).Good L := by
  refine ⟨?_, ?_, ?_⟩
  · intro d hd
    simp only [Term.mul, List.mem_append] at hd
    rcases hd with hd | hd
    · exact ha.fermi d hd
    · exact hb.fermi d hd
  · simp only [Term.mul, Tensor.outer_shape, prodL_append]
    exact Nat.mul_ne_zero ha.nonempty hb.nonempty
  · intro idx hin hne j hj
    simp only [Term.mul, Tensor.outer_shape] at hin hne
    have h1 : InShape (idx.take a.coeffs.shape.length) a.coeffs.shape := List.forall₂_take_append _ _ _ hin
    have h2 : InShape (idx.drop a.coeffs.shape.length) b.coeffs.shape := List.forall₂_drop_append _ _ _ hin
    have hsplit : idx = idx.take a.coeffs.shape.length ++ idx.drop a.coeffs.shape.length :=
      (List.take_append_drop _ _).symm
    rw [hsplit, Tensor.get_outer a.coeffs b.coeffs h1 h2] at hne
    have hna : a.coeffs.get (idx.take a.coeffs.shape.length) ≠ 0 := by
      intro e; apply hne; rw [e]
      exact (gqC_eq_zero_iff _).mp (by rw [gqC_mul]; simp)
    have hnb : b.coeffs.get (idx.drop a.coeffs.shape.length) ≠ 0 := by
      intro e; apply hne; rw [e]
      exact (gqC_eq_zero_iff _).mp (by rw [gqC_mul]; simp)
    rw [hsplit, List.mem_append] at hj
    rcases hj with hj | hj
    · exact ha.inRange _ h1 hna j hj
    · exact hb.inRange _ h2 hnb j hj

/-- an operator that `as_matrix` processes: exactly one field, fermionic, every term processable -/
structure FieldOp.Good (f : FieldD) (op : FieldOp) : Prop where
  fields : op.fields = [f]
  fermion : f.ptype = .fermion
  terms : ∀ t ∈ op.terms, t.Good f.nsites
  wf : ∀ t ∈ op.terms, t.WF

theorem FieldOp.adjoint_good (f : FieldD) (op : FieldOp) (h : op.Good f) : op.adjoint.Good f := by
  obtain ⟨⟨t, ht, hne⟩, hall⟩ := (FieldOp.fields_eq_singleton_iff op f).mp h.fields
  refine ⟨(FieldOp.fields_eq_singleton_iff _ f).mpr ⟨⟨t.adjoint, ?_, ?_⟩, ?_⟩, h.fermion, ?_, ?_⟩
  · simp only [FieldOp.adjoint, List.mem_map]; exact ⟨t, ht, rfl⟩
  · simpa [Term.adjoint] using hne
  · intro u hu d hd
    simp only [FieldOp.adjoint, List.mem_map] at hu
    obtain ⟨v, hv, rfl⟩ := hu
    simp only [Term.adjoint, List.mem_map, List.mem_reverse] at hd
    obtain ⟨e, he, rfl⟩ := hd
    exact hall v hv e he
  · intro u hu
    simp only [FieldOp.adjoint, List.mem_map] at hu
    obtain ⟨v, hv, rfl⟩ := hu
    exact Term.adjoint_good _ v (h.terms v hv)
  · intro u hu
    simp only [FieldOp.adjoint, List.mem_map] at hu
    obtain ⟨v, hv, rfl⟩ := hu
    exact Term.adjoint_wf v (h.wf v hv)

theorem FieldOp.add_good (f : FieldD) (a b : FieldOp) (ha : a.Good f) (hb : b.Good f) : (a.add b).Good f := by
  obtain ⟨⟨t, ht, hne⟩, hall⟩ := (FieldOp.fields_eq_singleton_iff a f).mp ha.fields
  obtain ⟨_, hallb⟩ := (FieldOp.fields_eq_singleton_iff b f).mp hb.fields
  refine ⟨(FieldOp.fields_eq_singleton_iff _ f).mpr ⟨⟨t, ?_, hne⟩, ?_⟩, ha.fermion, ?_, ?_⟩
  · simp [FieldOp.add, ht]
  all_goals
    intro u hu
    simp only [FieldOp.add, List.mem_append] at hu
    rcases hu with hu | hu
  · exact hall u hu
  · exact hallb u hu
  · exact ha.terms u hu
  · exact hb.terms u hu
  · exact ha.wf u hu
  · exact hb.wf u hu

/-- a product needs one term on each side (else the product has no terms and `as_matrix` refuses) -/
theorem FieldOp.mul_good (f : FieldD) (a b : FieldOp) (ha : a.Good f) (hb : b.Good f) (hbne : b.terms ≠ []) :
    (a.mul b).Good f := by
  obtain ⟨⟨t, ht, hne⟩, hall⟩ := (FieldOp.fields_eq_singleton_iff a f).mp ha.fields
  obtain ⟨_, hallb⟩ := (FieldOp.fields_eq_singleton_iff b f).mp hb.fields
  obtain ⟨u, us, hu⟩ := List.exists_cons_of_ne_nil hbne
  have hmem : ∀ w, w ∈ (a.mul b).terms ↔ ∃ t1 ∈ a.terms, ∃ t2 ∈ b.terms, w = t1.mul t2 := by
    intro w; simp only [FieldOp.mul, List.mem_flatMap, List.mem_map]
    constructor
    · rintro ⟨t1, h1, t2, h2, rfl⟩; exact ⟨t1, h1, t2, h2, rfl⟩
    · rintro ⟨t1, h1, t2, h2, rfl⟩; exact ⟨t1, h1, t2, h2, rfl⟩
  refine ⟨(FieldOp.fields_eq_singleton_iff _ f).mpr ⟨⟨t.mul u, (hmem _).mpr ⟨t, ht, u, by simp [hu], rfl⟩, ?_⟩, ?_⟩,
    ha.fermion, ?_, ?_⟩
  · simp only [Term.mul]; intro e; exact hne (List.append_eq_nil_iff.mp e).1
  · intro w hw d hd
    obtain ⟨t1, h1, t2, h2, rfl⟩ := (hmem w).mp hw
    simp only [Term.mul, List.mem_append] at hd
    rcases hd with hd | hd
    · exact hall t1 h1 d hd
    · exact hallb t2 h2 d hd
  · intro w hw
    obtain ⟨t1, h1, t2, h2, rfl⟩ := (hmem w).mp hw
    exact Term.mul_good _ t1 t2 (ha.terms t1 h1) (hb.terms t2 h2)
  · intro w hw
    obtain ⟨t1, h1, t2, h2, rfl⟩ := (hmem w).mp hw
    exact Term.mul_wf t1 t2 (ha.wf t1 h1) (hb.wf t2 h2)

/-! ### what the executable `as_matrix` returns -/

/-- the value of `as_matrix()` as a complex matrix in bit-function indexing (0 if it raises) -/
noncomputable def FieldOp.execM (L : ℕ) (op : FieldOp) : Matrix (Fin L → Bool) (Fin L → Bool) ℂ :=
  match op.asMatrix with
  | .ok M => MtoM L M
  | .error _ => 0

theorem FieldOp.execM_eq (f : FieldD) (op : FieldOp) (h : op.Good f) :
    (∃ M, op.asMatrix = .ok M ∧ M.n = 2 ^ f.nsites ∧ M.m = 2 ^ f.nsites) ∧ op.execM f.nsites = op.mat f.nsites := by
  obtain ⟨M, e, m1, m2, m3⟩ := asMatrix_spec op f h.fields h.fermion h.terms
  exact ⟨⟨M, e, m1, m2⟩, by simp only [FieldOp.execM, e]; exact m3⟩

/-! ### the exception branches of `as_matrix` -/

/-- a site index outside the lattice makes `clist[j]` / `alist[j]` raise `IndexError` -/
theorem stringMat_indexError (L : ℕ) (ds : List IFODesc) (hk : ∀ d ∈ ds, (opKind d.otype).isSome) :
    ∀ (js : List ℕ) (acc : IMat), js.length ≤ ds.length → (∃ j ∈ js, L ≤ j) →
      stringMat (clist L) (alist L) ds js acc = .error .indexError := by
  induction ds with
  | nil =>
    intro js acc hlen ⟨j, hj, _⟩
    have : js = [] := List.length_eq_zero_iff.mp (by simpa using hlen)
    subst this; simp at hj
  | cons d ds ih =>
    intro js acc hlen hbad
    cases js with
    | nil => obtain ⟨j, hj, _⟩ := hbad; simp at hj
    | cons j js =>
      have hk' : ∀ d ∈ ds, (opKind d.otype).isSome := fun e he => hk e (List.mem_cons_of_mem _ he)
      have hd := hk d (List.mem_cons_self ..)
      have hlen' : js.length ≤ ds.length := by simpa using hlen
      by_cases hjL : j < L
      · have hbad' : ∃ j ∈ js, L ≤ j := by
          obtain ⟨k, hkm, hkL⟩ := hbad
          rcases List.mem_cons.mp hkm with rfl | hkm
          · omega
          · exact ⟨k, hkm, hkL⟩
        cases ho : d.otype <;> simp only [ho, opKind, Option.isSome_none, Bool.false_eq_true] at hd
        · simp only [stringMat, ho, clist_getElem?, hjL, if_true]; exact ih hk' js _ hlen' hbad'
        · simp only [stringMat, ho, alist_getElem?, hjL, if_true]; exact ih hk' js _ hlen' hbad'
      · cases ho : d.otype <;> simp only [ho, opKind, Option.isSome_none, Bool.false_eq_true] at hd
        · simp only [stringMat, ho, clist_getElem?, hjL, if_false]
        · simp only [stringMat, ho, alist_getElem?, hjL, if_false]

/-- a non-zero coefficient whose index tuple leaves the lattice makes the coefficient loop raise `IndexError` -/
theorem coeffLoop_indexError (L : ℕ) (t : Term) (hk : ∀ d ∈ t.opdesc, (opKind d.otype).isSome) :
    ∀ (idxs : List (List ℕ)) (op : Qib.Mat), (∀ idx ∈ idxs, idx.length ≤ t.opdesc.length) →
      (∃ idx ∈ idxs, t.coeffs.get idx ≠ 0 ∧ ∃ j ∈ idx, L ≤ j) →
      coeffLoop L (clist L) (alist L) t idxs op = .error .indexError := by
  intro idxs
  induction idxs with
  | nil => intro op _ ⟨idx, hidx, _⟩; simp at hidx
  | cons idx rest ih =>
    intro op hlen hbad
    have hlen' : ∀ i ∈ rest, i.length ≤ t.opdesc.length := fun i hi => hlen i (List.mem_cons_of_mem _ hi)
    by_cases hc : t.coeffs.get idx = 0
    · have hbad' : ∃ i ∈ rest, t.coeffs.get i ≠ 0 ∧ ∃ j ∈ i, L ≤ j := by
        obtain ⟨i, hi, hne, hj⟩ := hbad
        rcases List.mem_cons.mp hi with rfl | hi
        · exact absurd hc hne
        · exact ⟨i, hi, hne, hj⟩
      simp only [coeffLoop, coeffStep, hc, if_true]
      exact ih op hlen' hbad'
    · by_cases hb : ∃ j ∈ idx, L ≤ j
      · have := stringMat_indexError L t.opdesc hk idx (IMat.one (2 ^ L)) (hlen idx (List.mem_cons_self ..)) hb
        simp only [coeffLoop, coeffStep, hc, if_false, this]
      · have hin : ∀ j ∈ idx, j < L := fun j hj => by
          by_contra hlt; exact hb ⟨j, hj, not_lt.mp hlt⟩
        obtain ⟨fs, f1, _, _⟩ := stringMat_ok L t.opdesc hk idx (IMat.one (2 ^ L)) rfl hin
        have hbad' : ∃ i ∈ rest, t.coeffs.get i ≠ 0 ∧ ∃ j ∈ i, L ≤ j := by
          obtain ⟨i, hi, hne, hj⟩ := hbad
          rcases List.mem_cons.mp hi with rfl | hi
          · exact absurd hj hb
          · exact ⟨i, hi, hne, hj⟩
        simp only [coeffLoop, coeffStep, hc, if_false, f1]
        exact ih _ hlen' hbad'

/-- what every term built by the constructors on a fermionic field satisfies, apart from the index ranges -/
structure Term.Pre (t : Term) : Prop where
  wf : t.WF
  fermi : ∀ d ∈ t.opdesc, (opKind d.otype).isSome
  nonempty : prodL t.coeffs.shape ≠ 0

/-- some non-zero coefficient of the term sits at an index tuple that leaves the lattice -/
def Term.OutOfRange (L : ℕ) (t : Term) : Prop :=
  ∃ idx, InShape idx t.coeffs.shape ∧ t.coeffs.get idx ≠ 0 ∧ ∃ j ∈ idx, L ≤ j

theorem Term.good_of_pre (L : ℕ) (t : Term) (h : t.Pre) (hn : ¬ t.OutOfRange L) : t.Good L :=
  ⟨h.fermi, h.nonempty, fun idx hin hne j hj => by
    by_contra hlt; exact hn ⟨idx, hin, hne, j, hj, not_lt.mp hlt⟩⟩

theorem termLoop_indexError (L : ℕ) :
    ∀ (ts : List Term) (op : Qib.Mat), op.n = 2 ^ L → op.m = 2 ^ L → (∀ t ∈ ts, t.Pre) →
      (∃ t ∈ ts, t.OutOfRange L) → termLoop L (clist L) (alist L) ts op = .error .indexError := by
  intro ts
  induction ts with
  | nil => intro op _ _ _ ⟨t, ht, _⟩; simp at ht
  | cons t rest ih =>
    intro op h1 h2 hpre hbad
    have hp := hpre t (List.mem_cons_self ..)
    by_cases hb : t.OutOfRange L
    · obtain ⟨idx, hin, hne, hj⟩ := hb
      have := coeffLoop_indexError L t hp.fermi (multiIndices t.coeffs.shape) op
        (fun i hi => by rw [(mem_multiIndices.mp hi).length_eq]; exact le_of_eq hp.wf)
        ⟨idx, mem_multiIndices.mpr hin, hne, hj⟩
      simp only [termLoop, termStep, hp.nonempty, if_false, this]
    · have g := Term.good_of_pre L t hp hb
      obtain ⟨M1, e1, a1, a2, _⟩ := coeffLoop_ok L t g.fermi (multiIndices t.coeffs.shape) op h1 h2
        (fun idx hidx => g.inRange idx (mem_multiIndices.mp hidx))
      have hbad' : ∃ u ∈ rest, u.OutOfRange L := by
        obtain ⟨u, hu, hub⟩ := hbad
        rcases List.mem_cons.mp hu with rfl | hu
        · exact absurd hub hb
        · exact ⟨u, hu, hub⟩
      simp only [termLoop, termStep, hp.nonempty, if_false, e1]
      exact ih M1 a1 a2 (fun u hu => hpre u (List.mem_cons_of_mem _ hu)) hbad'

/-- `as_matrix` on one fermionic field: `IndexError` exactly when a non-zero coefficient leaves the lattice -/
theorem asMatrix_indexError (op : FieldOp) (f : FieldD) (hf : op.fields = [f]) (hp : f.ptype = .fermion)
    (hpre : ∀ t ∈ op.terms, t.Pre) (hbad : ∃ t ∈ op.terms, t.OutOfRange f.nsites) :
    op.asMatrix = .error .indexError := by
  simp only [FieldOp.asMatrix, hf, hp, ne_eq, not_true_eq_false, if_false, asMatrixL]
  exact termLoop_indexError f.nsites op.terms _ rfl rfl hpre hbad

theorem termLoop_append (L : ℕ) (cl al : Array IMat) (ts rest : List Term) (op M : Qib.Mat)
    (h : termLoop L cl al ts op = .ok M) : termLoop L cl al (ts ++ rest) op = termLoop L cl al rest M := by
  induction ts generalizing op with
  | nil => simp only [termLoop] at h; cases h; rfl
  | cons t ts ih =>
    simp only [termLoop, List.cons_append] at h ⊢
    cases hs : termStep L cl al t op with
    | ok op' => simp only [hs] at h ⊢; exact ih op' h
    | error e => simp [hs] at h

/-- a zero-sized coefficient array makes `np.nditer` raise `ValueError` (if the terms before it were processed) -/
theorem asMatrix_valueError (op : FieldOp) (f : FieldD) (hf : op.fields = [f]) (hp : f.ptype = .fermion)
    (ts rest : List Term) (t : Term) (hts : op.terms = ts ++ t :: rest) (hg : ∀ u ∈ ts, u.Good f.nsites)
    (h0 : prodL t.coeffs.shape = 0) : op.asMatrix = .error .valueError := by
  obtain ⟨M, e, _, _, _⟩ := termLoop_ok f.nsites ts (zeroMat (2 ^ f.nsites)) rfl rfl hg
  simp only [FieldOp.asMatrix, hf, hp, ne_eq, not_true_eq_false, if_false, asMatrixL, hts]
  rw [termLoop_append _ _ _ _ _ _ _ e]
  simp [termLoop, termStep, h0]

/-! ### elementary ladder operators as field operators -/

/-- coefficient vector `e_i` of length `L` -/
def oneHot (L i : ℕ) : Tensor := ⟨[L], Array.ofFn (n := L) fun k => if k.val = i then 1 else 0⟩

/-- the operator `a†_i` (`create = true`) or `a_i` on the field `f` -/
def ladderOp (f : FieldD) (i : ℕ) (create : Bool) : FieldOp :=
  ⟨[⟨[⟨f, if create then .fermiCreate else .fermiAnnihil⟩], oneHot f.nsites i⟩]⟩

theorem oneHot_get (L i j : ℕ) (hj : j < L) : (oneHot L i).get [j] = if j = i then 1 else 0 := by
  simp only [Tensor.get, oneHot, ravel, prodL, Nat.mul_one, Nat.add_zero]
  rw [getD_ofFn _ _ hj]

theorem multiIndices_singleton (L : ℕ) : multiIndices [L] = (List.range L).map fun j => [j] := by
  simp only [multiIndices, List.map_cons, List.map_nil]
  induction List.range L with
  | nil => rfl
  | cons a l ih => simp [List.flatMap_cons, ih]

theorem ladderOp_mat (f : FieldD) (i : Fin f.nsites) (create : Bool) :
    (ladderOp f i create).mat f.nsites = ladderM f.nsites i create := by
  simp only [FieldOp.mat, ladderOp, List.map_cons, List.map_nil, List.sum_cons, List.sum_nil, add_zero, Term.mat]
  have hs : (oneHot f.nsites i).shape = [f.nsites] := rfl
  rw [hs, multiIndices_singleton, List.map_map]
  have : ∀ j ∈ List.range f.nsites,
      ((fun idx => gqC ((oneHot f.nsites i).get idx) •
        stringM f.nsites [⟨f, if create then IFOType.fermiCreate else IFOType.fermiAnnihil⟩] idx) ∘ fun j => [j]) j =
      if j = (i : ℕ) then ladderM f.nsites i create else 0 := by
    intro j hj
    have hjL : j < f.nsites := List.mem_range.mp hj
    simp only [Function.comp, oneHot_get _ _ _ hjL, stringM_cons, stringM_nil_left, mul_one]
    by_cases hji : j = (i : ℕ)
    · subst hji
      cases create <;> simp [ladderN, opKind, gqC_one]
    · simp [hji]
  rw [List.map_congr_left this]
  have hsum : ∀ (n : ℕ) (X : Matrix (Fin f.nsites → Bool) (Fin f.nsites → Bool) ℂ) (k : ℕ),
      ((List.range n).map fun j => if j = k then X else 0).sum = if k < n then X else 0 := by
    intro n X k
    induction n with
    | zero => simp
    | succ n ih =>
      rw [List.range_succ, List.map_append, List.sum_append, ih]
      by_cases h1 : k < n
      · have : n ≠ k := by omega
        simp [h1, this, Nat.lt_succ_of_lt h1]
      · by_cases h2 : n = k
        · subst h2; simp
        · have : ¬ k < n + 1 := by omega
          simp [h1, h2, this]
  rw [hsum, if_pos i.isLt]

theorem ladderOp_good (f : FieldD) (hp : f.ptype = .fermion) (i : Fin f.nsites) (create : Bool) :
    (ladderOp f i create).Good f := by
  refine ⟨?_, hp, ?_, ?_⟩
  · rw [FieldOp.fields_eq_singleton_iff]
    constructor
    · exact ⟨_, List.mem_singleton.mpr rfl, by simp⟩
    · intro t ht d hd
      simp only [ladderOp, List.mem_singleton] at ht
      subst ht
      simp only [List.mem_singleton] at hd
      subst hd; rfl
  · intro t ht
    simp only [ladderOp, List.mem_singleton] at ht
    subst ht
    refine ⟨?_, ?_, ?_⟩
    · intro d hd
      simp only [List.mem_singleton] at hd
      subst hd
      cases create <;> simp [opKind]
    · simp only [oneHot, prodL, Nat.mul_one]
      have := i.isLt; omega
    · intro idx hin _ j hj
      simp only [oneHot] at hin
      obtain ⟨a, u', hau, hu', rfl⟩ := List.forall₂_cons_right_iff.mp hin
      rw [List.forall₂_nil_right_iff.mp hu'] at hj
      simp only [List.mem_singleton] at hj
      subst hj; exact hau
  · intro t ht
    simp only [ladderOp, List.mem_singleton] at ht
    subst ht
    rfl

end Qib.Fermi

namespace Qib.Fermi
open Complex Matrix

/-! ### the sum over index tuples as a sum over functions `Fin n → Fin L` -/

theorem list_range_sum {M : Type*} [AddCommMonoid M] (f : ℕ → M) (n : ℕ) :
    ((List.range n).map f).sum = ∑ i : Fin n, f i := by
  rw [← Finset.sum_range]
  induction n with
  | zero => simp
  | succ n ih => simp [List.range_succ, Finset.sum_range_succ, ih]

theorem sum_multiIndices_replicate {M : Type*} [AddCommMonoid M] (n L : ℕ) (F : List ℕ → M) :
    ((multiIndices (List.replicate n L)).map F).sum = ∑ g : Fin n → Fin L, F (List.ofFn fun a => (g a : ℕ)) := by
  induction n generalizing F with
  | zero => simp [multiIndices]
  | succ n ih =>
    simp only [List.replicate_succ, multiIndices, sum_map_flatMap, List.map_map]
    have : ∀ i ∈ List.range L, ((multiIndices (List.replicate n L)).map (F ∘ fun is => i :: is)).sum =
        ∑ g : Fin n → Fin L, F (i :: List.ofFn fun a => (g a : ℕ)) := fun i _ => ih _
    rw [List.map_congr_left this, list_range_sum]
    rw [← Fintype.sum_prod_type']
    refine Fintype.sum_equiv (Fin.consEquiv fun _ : Fin (n + 1) => Fin L) _ _ ?_
    rintro ⟨a, g⟩
    simp [Fin.consEquiv, List.ofFn_succ]

theorem stringM_ofFn (L n : ℕ) (ds : Fin n → IFODesc) (js : Fin n → ℕ) :
    stringM L (List.ofFn ds) (List.ofFn js) = (List.ofFn fun a => ladderN L (ds a).otype (js a)).prod := by
  induction n with
  | zero => simp
  | succ n ih => simp only [List.ofFn_succ, stringM_cons, List.prod_cons, ih]

/-- the matrix of a term with `n` fermionic operators and an `L × … × L` coefficient array, as a sum over all index
tuples `g : Fin n → Fin L` of the coefficient times the ordered product of the ladder matrices -/
theorem Term.mat_sum (L n : ℕ) (ds : Fin n → IFODesc) (kind : Fin n → Bool)
    (hkind : ∀ a, opKind (ds a).otype = some (kind a)) (c : Tensor) (hs : c.shape = List.replicate n L) :
    (Term.mk (List.ofFn ds) c).mat L =
      ∑ g : Fin n → Fin L, gqC (c.get (List.ofFn fun a => (g a : ℕ))) •
        (List.ofFn fun a => ladderM L (g a) (kind a)).prod := by
  simp only [Term.mat, hs, sum_multiIndices_replicate, stringM_ofFn]
  apply Finset.sum_congr rfl
  intro g _
  congr 3
  funext a
  simp [ladderN, hkind a]

end Qib.Fermi
