import QibModel.Validate
/-! Helper lemmas for C18 (list utilities of `QibModel/Validate.lean`). No property statements here. -/
namespace Qib.Wmi

/-! ### `sortDedup` -/

theorem mem_insertSorted (a x : Int) (l : List Int) : a ∈ insertSorted x l ↔ a = x ∨ a ∈ l := by
  induction l with
  | nil => simp [insertSorted]
  | cons y ys ih =>
    unfold insertSorted
    split
    · simp
    · split
      · rename_i h1 h2; subst h2; simp
      · simp [ih]; grind

theorem mem_sortDedup (a : Int) (l : List Int) : a ∈ sortDedup l ↔ a ∈ l := by
  induction l with
  | nil => simp [sortDedup]
  | cons x xs ih =>
    have : sortDedup (x :: xs) = insertSorted x (sortDedup xs) := rfl
    rw [this, mem_insertSorted, ih]; simp

theorem insertSorted_sorted (x : Int) (l : List Int) (h : l.Pairwise (· < ·)) :
    (insertSorted x l).Pairwise (· < ·) := by
  induction l with
  | nil => simp [insertSorted]
  | cons y ys ih =>
    rw [List.pairwise_cons] at h
    unfold insertSorted
    split
    · rename_i hxy
      rw [List.pairwise_cons]
      refine ⟨?_, List.pairwise_cons.mpr h⟩
      intro a ha
      rcases List.mem_cons.mp ha with rfl | ha
      · exact hxy
      · have := h.1 a ha; omega
    · split
      · exact List.pairwise_cons.mpr h
      · rename_i h1 h2
        rw [List.pairwise_cons]
        refine ⟨?_, ih h.2⟩
        intro a ha
        rcases (mem_insertSorted a x ys).mp ha with rfl | ha
        · omega
        · exact h.1 a ha

theorem sortDedup_sorted (l : List Int) : (sortDedup l).Pairwise (· < ·) := by
  induction l with
  | nil => simp [sortDedup]
  | cons x xs ih => exact insertSorted_sorted x _ ih

theorem sortDedup_nodup (l : List Int) : (sortDedup l).Nodup := by
  have h := sortDedup_sorted l
  unfold List.Nodup
  exact h.imp (fun hab => by omega)

/-- a strictly increasing list of integers inside `[lo, hi)` has at most `hi - lo` elements -/
theorem sorted_length_le (l : List Int) (lo hi : Int) (hlh : lo ≤ hi) (hs : l.Pairwise (· < ·))
    (hb : ∀ x ∈ l, lo ≤ x ∧ x < hi) : (l.length : Int) ≤ hi - lo := by
  induction l generalizing lo with
  | nil => simp; omega
  | cons x xs ih =>
    rw [List.pairwise_cons] at hs
    have hx := hb x (by simp)
    have := ih (x + 1) (by omega) hs.2 (fun y hy => by
      have h1 := hs.1 y hy
      have h2 := hb y (by simp [hy])
      omega)
    simp only [List.length_cons]
    omega

/-! ### `min(l, default=0)`, `max(l, default=0)` -/

theorem minOf_lt (x c : Int) (l : List Int) : minOf x l < c ↔ x < c ∨ ∃ y ∈ l, y < c := by
  induction l generalizing x with
  | nil => simp [minOf]
  | cons y ys ih =>
    simp only [minOf, ih, List.mem_cons, exists_eq_or_imp]
    have : min x y < c ↔ x < c ∨ y < c := by omega
    rw [this, or_assoc]

theorem maxOf_ge (x c : Int) (l : List Int) : c ≤ maxOf x l ↔ c ≤ x ∨ ∃ y ∈ l, c ≤ y := by
  induction l generalizing x with
  | nil => simp [maxOf]
  | cons y ys ih =>
    simp only [maxOf, ih, List.mem_cons, exists_eq_or_imp]
    have : c ≤ max x y ↔ c ≤ x ∨ c ≤ y := by omega
    rw [this, or_assoc]

theorem minD_lt_zero (l : List Int) : minD l 0 < 0 ↔ ∃ y ∈ l, y < 0 := by
  cases l with
  | nil => simp [minD]
  | cons x xs => simp [minD, minOf_lt]

theorem maxD_ge (l : List Int) (c : Int) (hc : 0 < c) : c ≤ maxD l 0 ↔ ∃ y ∈ l, c ≤ y := by
  cases l with
  | nil => simp [maxD]; omega
  | cons x xs => simp [maxD, maxOf_ge]

/-! ### `combinations(l, 2)` -/

theorem pairs_eq_nil_of_length_le_one (l : List Int) (h : l.length ≤ 1) : pairs l = [] := by
  match l, h with
  | [], _ => rfl
  | [x], _ => rfl

theorem mem_pairs (a b : Int) (l : List Int) : (a, b) ∈ pairs l ↔ [a, b].Sublist l := by
  induction l with
  | nil => simp [pairs]
  | cons x xs ih =>
    simp only [pairs, List.mem_append, List.mem_map, Prod.mk.injEq, ih]
    rw [List.sublist_cons_iff]
    constructor
    · rintro (⟨y, hy, rfl, rfl⟩ | h)
      · right; exact ⟨[y], rfl, by simpa using hy⟩
      · left; exact h
    · rintro (h | ⟨r, hr, hs⟩)
      · right; exact h
      · left
        simp only [List.cons.injEq] at hr
        obtain ⟨rfl, rfl⟩ := hr
        exact ⟨b, by simpa using hs, rfl, rfl⟩

/-! ### binary digits -/

theorem binVal_append (s t : List Char) :
    binVal (s ++ t) = t.foldl (fun a c => 2 * a + (if c = '1' then 1 else 0)) (binVal s) := by
  simp [binVal, List.foldl_append]

theorem binVal_snoc (s : List Char) (c : Char) : binVal (s ++ [c]) = 2 * binVal s + (if c = '1' then 1 else 0) := by
  simp [binVal_append]

theorem binVal_binDigits (v : Nat) : binVal (binDigits v) = v := by
  induction v using Nat.strongRecOn with
  | _ v ih =>
    cases v with
    | zero => simp [binDigits, binVal]
    | succ n =>
      rw [binDigits, binVal_snoc, ih ((n + 1) / 2) (by omega)]
      by_cases h : (n + 1) % 2 = 1 <;> simp [h] <;> omega

theorem binVal_replicate_zero (k : Nat) (s : List Char) : binVal (List.replicate k '0' ++ s) = binVal s := by
  induction k with
  | zero => simp
  | succ k ih =>
    rw [List.replicate_succ, List.cons_append]
    have : ∀ t : List Char, binVal ('0' :: t) = binVal t := by
      intro t; simp [binVal]
    rw [this, ih]

/-- for `v > 0` the number of binary digits `L` satisfies `2^(L-1) ≤ v < 2^L` -/
theorem binDigits_length_spec (v : Nat) (hv : v ≠ 0) :
    2 ^ ((binDigits v).length - 1) ≤ v ∧ v < 2 ^ (binDigits v).length := by
  induction v using Nat.strongRecOn with
  | _ v ih =>
    cases v with
    | zero => exact absurd rfl hv
    | succ n =>
      rw [binDigits]
      simp only [List.length_append, List.length_singleton, Nat.add_sub_cancel]
      by_cases h0 : (n + 1) / 2 = 0
      · have : n = 0 := by omega
        subst this; simp [binDigits]
      · obtain ⟨h1, h2⟩ := ih ((n + 1) / 2) (by omega) h0
        have hpos : 0 < (binDigits ((n + 1) / 2)).length := by
          cases hm : (n + 1) / 2 with
          | zero => exact absurd hm h0
          | succ m => rw [binDigits]; simp
        constructor
        · have : (binDigits ((n + 1) / 2)).length = ((binDigits ((n + 1) / 2)).length - 1) + 1 := by omega
          rw [this, Nat.pow_succ]; omega
        · rw [Nat.pow_succ]; omega

theorem binDigits_chars (v : Nat) : ∀ c ∈ binDigits v, c = '0' ∨ c = '1' := by
  induction v using Nat.strongRecOn with
  | _ v ih =>
    cases v with
    | zero => simp [binDigits]
    | succ n =>
      rw [binDigits]
      intro c hc
      rcases List.mem_append.mp hc with h | h
      · exact ih _ (by omega) c h
      · simp only [List.mem_singleton] at h
        subst h; split <;> simp

/-! ### the validation loop -/

theorem mem_particles (q : Int) (instrs : List Instr) : q ∈ particles instrs ↔ ∃ i ∈ instrs, q ∈ i.qubits := by
  simp [particles, mem_sortDedup, List.mem_flatMap]

theorem mem_clbitsOf (c : Int) (instrs : List Instr) : c ∈ clbitsOf instrs ↔ ∃ i ∈ instrs, c ∈ i.clbits := by
  simp [clbitsOf, mem_sortDedup, List.mem_flatMap]

theorem checkInstr_iff (cfg : ProcConfig) (i : Instr) : checkInstr cfg i = .ok () ↔ InstrOK cfg i := by
  unfold checkInstr InstrOK
  by_cases hm : i.name = "measure"
  · simp [hm]
  · have hm' : (i.name == "measure") = false := by simpa using hm
    simp only [hm', Bool.false_eq_true, if_false, hm, false_or]
    by_cases hb : i.name ∈ cfg.basisGates
    · have hb' : cfg.basisGates.contains i.name = true := by simpa using hb
      simp only [hb', Bool.not_true, Bool.false_eq_true, if_false, hb, true_and]
      cases hg : cfg.findGate i.name with
      | none => simp
      | some gp =>
        simp only [Option.some.injEq, exists_eq_left']
        unfold GateOK
        by_cases hq : i.qubits ∈ gp.qubits
        · have hq' : gp.qubits.contains i.qubits = true := by simpa using hq
          simp only [hq', Bool.not_true, Bool.false_eq_true, if_false, hq, true_and]
          by_cases hp : i.params.length = gp.nparams
          · have hp' : (i.params.length != gp.nparams) = false := by simpa using hp
            simp only [hp', Bool.false_eq_true, if_false]
            simp only [hp, true_and]
            by_cases hl : i.qubits.length ≤ 1
            · have h1 : (decide (i.qubits.length > 1) && !cfg.couplingMap.isEmpty) = false := by
                simp; intro h; omega
              simp [h1, pairs_eq_nil_of_length_le_one _ hl]
            · by_cases hc : cfg.couplingMap = []
              · simp [hc]
              · have h1 : (decide (i.qubits.length > 1) && !cfg.couplingMap.isEmpty) = true := by
                  simp [hc]; omega
                simp only [h1, if_true, ne_eq, hc, not_false_eq_true, forall_const]
                by_cases ha : ((pairs i.qubits).all fun p => cfg.couplingMap.contains [p.1, p.2]) = true
                · simp only [ha, if_true]
                  simpa using ha
                · simp only [ha, Bool.false_eq_true, if_false]
                  constructor
                  · intro h; simp at h
                  · intro h; exact absurd (by simpa using h) ha
          · have hp' : (i.params.length != gp.nparams) = true := by simpa using hp
            simp [hp', hp]
        · simp [hq]
    · simp [hb]

theorem validateLoop_iff (cfg : ProcConfig) (instrs : List Instr) :
    validateLoop cfg instrs = .ok () ↔ ∀ i ∈ instrs, InstrOK cfg i := by
  induction instrs with
  | nil => simp [validateLoop]
  | cons i is ih =>
    unfold validateLoop
    cases h : checkInstr cfg i with
    | error e =>
      have : ¬ InstrOK cfg i := by rw [← checkInstr_iff, h]; simp
      simp [this]
    | ok u =>
      have : InstrOK cfg i := by rw [← checkInstr_iff, h]
      simp [this, ih]

/-- the first offending instruction decides the error, wherever it stands -/
theorem validateLoop_first_error (cfg : ProcConfig) (pre post : List Instr) (i : Instr) (e : Err)
    (hpre : ∀ j ∈ pre, InstrOK cfg j) (hi : checkInstr cfg i = .error e) :
    validateLoop cfg (pre ++ i :: post) = .error e := by
  induction pre with
  | nil => simp [validateLoop, hi]
  | cons j js ih =>
    have hj : checkInstr cfg j = .ok () := (checkInstr_iff cfg j).mpr (hpre j (by simp))
    simp only [List.cons_append, validateLoop, hj]
    exact ih (fun k hk => hpre k (by simp [hk]))

theorem rangeCheck_iff (cfg : ProcConfig) (instrs : List Instr) (hn : 0 < cfg.nQubits) :
    rangeCheck cfg instrs = .ok () ↔ ∀ i ∈ instrs, ∀ q ∈ i.qubits, 0 ≤ q ∧ q < (cfg.nQubits : Int) := by
  have hn' : (0 : Int) < (cfg.nQubits : Int) := by omega
  unfold rangeCheck
  simp only []
  constructor
  · intro h i hi q hq
    have hmem : q ∈ particles instrs := (mem_particles q instrs).mpr ⟨i, hi, hq⟩
    split at h
    · cases h
    · rename_i hc
      simp only [Bool.or_eq_true, decide_eq_true_eq, not_or] at hc
      obtain ⟨⟨_, h2⟩, h3⟩ := hc
      have h2' : ¬ ∃ y ∈ particles instrs, y < 0 := fun hex => h2 ((minD_lt_zero _).mpr hex)
      have h3' : ¬ ∃ y ∈ particles instrs, (cfg.nQubits : Int) ≤ y :=
        fun hex => h3 ((maxD_ge _ _ hn').mpr hex)
      constructor
      · exact Int.not_lt.mp (fun hlt => h2' ⟨q, hmem, hlt⟩)
      · exact Int.not_le.mp (fun hge => h3' ⟨q, hmem, hge⟩)
  · intro h
    have hall : ∀ x ∈ particles instrs, 0 ≤ x ∧ x < (cfg.nQubits : Int) := by
      intro x hx
      obtain ⟨i, hi, hq⟩ := (mem_particles x instrs).mp hx
      exact h i hi x hq
    have hlen := sorted_length_le (particles instrs) 0 cfg.nQubits (by omega) (sortDedup_sorted _) hall
    have h2 : ¬ minD (particles instrs) 0 < 0 := by
      rw [minD_lt_zero]; rintro ⟨y, hy, hlt⟩; have := hall y hy; omega
    have h3 : ¬ (cfg.nQubits : Int) ≤ maxD (particles instrs) 0 := by
      rw [maxD_ge _ _ hn']; rintro ⟨y, hy, hge⟩; have := hall y hy; omega
    have h1 : ¬ (particles instrs).length > cfg.nQubits := by omega
    simp [h1, h2, h3]

theorem rangeCheck_zero (cfg : ProcConfig) (instrs : List Instr) (hn : cfg.nQubits = 0) :
    rangeCheck cfg instrs = .error .range := by
  unfold rangeCheck
  simp only [hn]
  cases hp : particles instrs with
  | nil => simp [maxD]
  | cons x xs => simp

/-! ### count keys -/

theorem binVal_zfill_toBin (n v : Nat) : binVal (zfill n (toBin v)) = v := by
  unfold zfill
  rw [binVal_replicate_zero]
  unfold toBin
  split
  · rename_i h; subst h; simp [binVal]
  · exact binVal_binDigits v

theorem dictInsert_fresh (d : List (List Char × Int)) (k : List Char) (v : Int) (h : k ∉ d.map Prod.fst) :
    dictInsert d k v = d ++ [(k, v)] := by
  induction d with
  | nil => rfl
  | cons kv rest ih =>
    obtain ⟨k', v'⟩ := kv
    simp only [List.map_cons, List.mem_cons, not_or] at h
    have hne : ¬ k' = k := fun e => h.1 e.symm
    simp [dictInsert, hne, ih h.2]

theorem countsFold (n : Nat) (kvs : List (List Char × Int)) (vs : List Nat) (d : List (List Char × Int))
    (hk : kvs.map (fun kv => parseHex kv.1) = vs.map some) (hnd : vs.Nodup)
    (hd : ∀ v ∈ vs, zfill n (toBin v) ∉ d.map Prod.fst) :
    kvs.foldl (countsStep n) (some d) =
      some (d ++ List.zipWith (fun v kv => (zfill n (toBin v), kv.2)) vs kvs) := by
  induction kvs generalizing vs d with
  | nil => cases vs <;> simp at hk ⊢
  | cons kv rest ih =>
    cases vs with
    | nil => simp at hk
    | cons v vs' =>
      simp only [List.map_cons, List.cons.injEq] at hk
      obtain ⟨hv, hrest⟩ := hk
      rw [List.nodup_cons] at hnd
      have hstep : countsStep n (some d) kv = some (d ++ [(zfill n (toBin v), kv.2)]) := by
        simp only [countsStep, hexToBin, hv]
        rw [dictInsert_fresh _ _ _ (hd v (by simp))]
      rw [List.foldl_cons, hstep, ih vs' _ hrest hnd.2]
      · simp
      · intro w hw
        simp only [List.map_append, List.map_cons, List.map_nil, List.mem_append, List.mem_singleton, not_or]
        refine ⟨hd w (by simp [hw]), ?_⟩
        intro heq
        have := congrArg binVal heq
        rw [binVal_zfill_toBin, binVal_zfill_toBin] at this
        subst this
        exact hnd.1 hw

end Qib.Wmi
