import Mathlib.Algebra.BigOperators.Ring.List
import Mathlib.Algebra.BigOperators.Group.List.Basic
import QibProofs.Lemmas.FermiMat
import QibProofs.Lemmas.FermiTensor
/-!
Core D / C10: the matrix a `FieldOperatorTerm` / `FieldOperator` of the executable model denotes, and the algebra
of `adjoint`, `add`, `mul` and the Hermiticity flag.

* `gqC`          : the driver's Gaussian rationals into ℂ (ring homomorphism, commutes with conjugation).
* `ladderN L o j`: the ladder matrix of operator type `o` on site `j` (0 for a foreign type or `j ≥ L`; such
                   strings only ever occur with a zero coefficient or make `as_matrix` raise).
* `stringM L ds js` : ordered product `∏ₐ ladderN L dsₐ jsₐ`.
* `Term.mat L t` : `Σ_{idx ∈ multiIndices shape} coeff[idx] • stringM L opdesc idx`, `FieldOp.mat` = sum over terms.
* `Term.adjoint_mat`, `Term.mul_mat`, `FieldOp.adjoint_mat`, `FieldOp.add_mat`, `FieldOp.mul_mat`,
  `Term.isHermitian_sound`.
Helper lemmas only; the property statements are in `Properties/C10.lean`.
-/

open Complex Matrix
namespace Qib.Fermi

noncomputable section

/-! ### Gaussian rationals into ℂ -/

def gqC (g : Qib.GQ) : ℂ := (g.re : ℂ) + (g.im : ℂ) * I

theorem GQ_add_def (a b : Qib.GQ) : a + b = ⟨a.re + b.re, a.im + b.im⟩ := rfl
theorem GQ_mul_def (a b : Qib.GQ) : a * b = ⟨a.re * b.re - a.im * b.im, a.re * b.im + a.im * b.re⟩ := rfl
theorem GQ_zero_def : (0 : Qib.GQ) = ⟨0, 0⟩ := rfl

@[simp] theorem gqC_zero : gqC 0 = 0 := by simp [gqC, GQ_zero_def]
theorem gqC_add (a b : Qib.GQ) : gqC (a + b) = gqC a + gqC b := by
  simp only [gqC, GQ_add_def, Rat.cast_add]; ring
theorem gqC_mul (a b : Qib.GQ) : gqC (a * b) = gqC a * gqC b := by
  simp only [gqC, GQ_mul_def, Rat.cast_add, Rat.cast_sub, Rat.cast_mul]
  ring_nf
  rw [Complex.I_sq]
  ring
theorem gqC_conj (a : Qib.GQ) : gqC a.conj = star (gqC a) := by
  simp [gqC, Qib.GQ.conj]
theorem gqC_ofInt (n : Int) : gqC (Qib.GQ.ofRat (n : Rat)) = (n : ℂ) := by
  simp [gqC, Qib.GQ.ofRat]
theorem gqC_eq_zero_iff (a : Qib.GQ) : gqC a = 0 ↔ a = 0 := by
  constructor
  · intro h
    have h1 := congrArg Complex.re h
    have h2 := congrArg Complex.im h
    simp [gqC] at h1 h2
    obtain ⟨re, im⟩ := a
    simp only [GQ_zero_def, Qib.GQ.mk.injEq]
    exact ⟨by exact_mod_cast h1, by exact_mod_cast h2⟩
  · rintro rfl; exact gqC_zero

/-! ### ladder strings -/

/-- `some true` for a fermionic creation operator, `some false` for an annihilation operator -/
def opKind : IFOType → Option Bool
  | .fermiCreate => some true
  | .fermiAnnihil => some false
  | _ => none

/-- ladder matrix of type `o` on site `j` of `L` sites -/
def ladderN (L : ℕ) (o : IFOType) (j : ℕ) : Matrix (Fin L → Bool) (Fin L → Bool) ℂ :=
  match opKind o with
  | some b => if h : j < L then ladderM L ⟨j, h⟩ b else 0
  | none => 0

theorem ladderN_conjTranspose (L : ℕ) (o : IFOType) (j : ℕ) : (ladderN L o j)ᴴ = ladderN L o.adjoint j := by
  cases o <;> simp only [ladderN, opKind, IFOType.adjoint] <;> try simp
  all_goals (split_ifs <;> simp [ladderM_conjTranspose])

/-- the ordered product of the ladder matrices of a string -/
def stringM (L : ℕ) (ds : List IFODesc) (js : List ℕ) : Matrix (Fin L → Bool) (Fin L → Bool) ℂ :=
  (List.zipWith (fun d j => ladderN L d.otype j) ds js).prod

@[simp] theorem stringM_nil_left (L : ℕ) (js : List ℕ) : stringM L [] js = 1 := by simp [stringM]
@[simp] theorem stringM_nil_right (L : ℕ) (ds : List IFODesc) : stringM L ds [] = 1 := by simp [stringM]
@[simp] theorem stringM_cons (L : ℕ) (d : IFODesc) (ds : List IFODesc) (j : ℕ) (js : List ℕ) :
    stringM L (d :: ds) (j :: js) = ladderN L d.otype j * stringM L ds js := by simp [stringM]

theorem stringM_append (L : ℕ) (d1 d2 : List IFODesc) (i1 i2 : List ℕ) (h : d1.length = i1.length) :
    stringM L (d1 ++ d2) (i1 ++ i2) = stringM L d1 i1 * stringM L d2 i2 := by
  simp only [stringM, List.zipWith_append h, List.prod_append]

theorem stringM_conjTranspose (L : ℕ) (ds : List IFODesc) (js : List ℕ) (h : ds.length = js.length) :
    (stringM L ds js)ᴴ = stringM L (ds.reverse.map IFODesc.adjoint) js.reverse := by
  simp only [stringM, Matrix.conjTranspose_list_prod, List.map_zipWith, ladderN_conjTranspose]
  rw [List.reverse_zipWith h, List.zipWith_map_left]
  rfl

/-! ### the matrix of a term and of an operator -/

/-- coefficient-weighted sum over all multi-indices of the ordered products -/
def Term.mat (L : ℕ) (t : Term) : Matrix (Fin L → Bool) (Fin L → Bool) ℂ :=
  ((multiIndices t.coeffs.shape).map fun idx => gqC (t.coeffs.get idx) • stringM L t.opdesc idx).sum

def FieldOp.mat (L : ℕ) (op : FieldOp) : Matrix (Fin L → Bool) (Fin L → Bool) ℂ :=
  (op.terms.map (Term.mat L)).sum

/-- what the constructor guarantees: one coefficient axis per operator description -/
def Term.WF (t : Term) : Prop := t.coeffs.ndim = t.opdesc.length

theorem Term.make_wf (ds : List IFODesc) (c : Tensor) (t : Term) (h : Term.make ds c = .ok t) : t.WF := by
  unfold Term.make at h
  split at h
  · cases h
  · cases h; simp_all [Term.WF]

theorem Term.adjoint_wf (t : Term) (h : t.WF) : t.adjoint.WF := by
  simp_all [Term.WF, Term.adjoint, Tensor.ndim, Tensor.conjT]

theorem Term.mul_wf (a b : Term) (ha : a.WF) (hb : b.WF) : (a.mul b).WF := by
  simp_all [Term.WF, Term.mul, Tensor.ndim, Tensor.outer]

/-- the matrix only depends on the operator descriptions, the shape and the entries at the multi-indices -/
theorem Term.mat_congr (L : ℕ) (t u : Term) (hd : t.opdesc = u.opdesc) (hs : t.coeffs.shape = u.coeffs.shape)
    (hg : ∀ idx, InShape idx t.coeffs.shape → t.coeffs.get idx = u.coeffs.get idx) : t.mat L = u.mat L := by
  simp only [Term.mat, ← hs, ← hd]
  congr 1
  apply List.map_congr_left
  intro idx hidx
  rw [hg idx (mem_multiIndices.mp hidx)]

theorem Term.adjoint_mat (L : ℕ) (t : Term) (h : t.WF) : t.adjoint.mat L = (t.mat L)ᴴ := by
  have step : ∀ idx ∈ multiIndices t.coeffs.shape.reverse,
      gqC (t.coeffs.conjT.get idx) • stringM L (t.opdesc.reverse.map IFODesc.adjoint) idx =
        (fun i => (gqC (t.coeffs.get i) • stringM L t.opdesc i)ᴴ) idx.reverse := by
    intro idx hidx
    have hin := mem_multiIndices.mp hidx
    have hlen : t.opdesc.length = idx.reverse.length := by
      rw [List.length_reverse, hin.length_eq, List.length_reverse]; exact h.symm
    simp only [Tensor.get_conjT t.coeffs hin, gqC_conj, Matrix.conjTranspose_smul,
      stringM_conjTranspose L t.opdesc idx.reverse hlen, List.reverse_reverse]
  simp only [Term.mat, Term.adjoint, Tensor.conjT_shape]
  rw [List.map_congr_left step, Matrix.conjTranspose_list_sum, List.map_map]
  have hp := (multiIndices_reverse_perm t.coeffs.shape).map
    (fun i => (gqC (t.coeffs.get i) • stringM L t.opdesc i)ᴴ)
  have e := hp.sum_eq
  rw [List.map_map] at e
  exact e

theorem sum_map_flatMap {α β M : Type*} [AddMonoid M] (l : List α) (g : α → List β) (f : β → M) :
    ((l.flatMap g).map f).sum = (l.map fun a => ((g a).map f).sum).sum := by
  induction l with
  | nil => simp
  | cons a l ih => simp [List.flatMap_cons, ih]

theorem sum_mul_sum {α β R : Type*} [NonUnitalNonAssocSemiring R] (l1 : List α) (l2 : List β) (f : α → R) (g : β → R) :
    (l1.map f).sum * (l2.map g).sum = (l1.map fun a => (l2.map fun b => f a * g b).sum).sum := by
  rw [← List.sum_map_mul_right]
  congr 1
  apply List.map_congr_left
  intro a _
  rw [List.sum_map_mul_left]

theorem Term.mul_mat (L : ℕ) (a b : Term) (ha : a.WF) : (a.mul b).mat L = a.mat L * b.mat L := by
  simp only [Term.mat, Term.mul, Tensor.outer_shape, multiIndices_append, sum_map_flatMap, List.map_map]
  rw [sum_mul_sum]
  congr 1
  apply List.map_congr_left
  intro i1 h1
  congr 1
  apply List.map_congr_left
  intro i2 h2
  have hi1 := mem_multiIndices.mp h1
  have hi2 := mem_multiIndices.mp h2
  have hlen : a.opdesc.length = i1.length := by rw [hi1.length_eq]; exact ha.symm
  simp only [Function.comp, Tensor.get_outer a.coeffs b.coeffs hi1 hi2, gqC_mul, stringM_append L _ _ _ _ hlen,
    smul_mul_smul_comm]

/-! ### operators -/

theorem FieldOp.add_mat (L : ℕ) (a b : FieldOp) : (a.add b).mat L = a.mat L + b.mat L := by
  simp [FieldOp.mat, FieldOp.add]

theorem FieldOp.adjoint_mat (L : ℕ) (a : FieldOp) (h : ∀ t ∈ a.terms, t.WF) : a.adjoint.mat L = (a.mat L)ᴴ := by
  simp only [FieldOp.mat, FieldOp.adjoint, Matrix.conjTranspose_list_sum, List.map_map]
  congr 1
  apply List.map_congr_left
  intro t ht
  exact Term.adjoint_mat L t (h t ht)

theorem FieldOp.mul_mat (L : ℕ) (a b : FieldOp) (h : ∀ t ∈ a.terms, t.WF) : (a.mul b).mat L = a.mat L * b.mat L := by
  simp only [FieldOp.mat, FieldOp.mul, sum_map_flatMap, List.map_map]
  rw [sum_mul_sum]
  congr 1
  apply List.map_congr_left
  intro t1 h1
  congr 1
  apply List.map_congr_left
  intro t2 _
  exact Term.mul_mat L t1 t2 (h t1 h1)

theorem FieldOp.sumOps_mat (L : ℕ) (a : FieldOp) (as : List FieldOp) :
    ((as.foldl FieldOp.add a).mat L) = a.mat L + (as.map (FieldOp.mat L)).sum := by
  induction as generalizing a with
  | nil => simp
  | cons b as ih => simp [ih, FieldOp.add_mat, add_assoc]

/-! ### the Hermiticity flag -/

theorem structHermitian_opdesc (t : Term) (h : t.structHermitian = true) :
    t.opdesc.reverse.map IFODesc.adjoint = t.opdesc := by
  simp only [Term.structHermitian, List.all_eq_true, Bool.and_eq_true, beq_iff_eq] at h
  apply List.ext_getElem
  · simp
  · intro k h1 h2
    have hk : k < (List.zip t.opdesc t.opdesc.reverse).length := by simpa using h2
    have := h ((List.zip t.opdesc t.opdesc.reverse)[k]) (List.getElem_mem hk)
    simp only [List.getElem_zip] at this
    simp only [List.getElem_map]
    obtain ⟨hf, ho⟩ := this
    cases hd : t.opdesc[k] with
    | mk f o =>
      simp only [hd] at hf ho
      simp only [IFODesc.adjoint, IFODesc.mk.injEq]
      exact ⟨hf.symm, ho.symm⟩

theorem Term.isHermitian_sound (L : ℕ) (t : Term) (hwf : t.WF) (h : t.isHermitian = true) :
    (t.mat L)ᴴ = t.mat L := by
  unfold Term.isHermitian at h
  split at h
  · cases h
  · rename_i hs
    split at h
    · cases h
    · rename_i hsh
      simp only [Bool.not_eq_true, Bool.not_eq_false'] at hs
      simp only [ne_eq, not_not] at hsh
      simp only [List.all_eq_true, beq_iff_eq] at h
      rw [← Term.adjoint_mat L t hwf]
      apply Term.mat_congr
      · exact structHermitian_opdesc t (by simpa using hs)
      · simp only [Term.adjoint, Tensor.conjT_shape]; exact hsh.symm
      · intro idx hidx
        simp only [Term.adjoint, Tensor.conjT_shape] at hidx
        simp only [Term.adjoint]
        rw [Tensor.get_conjT t.coeffs hidx]
        have hidx' : idx ∈ multiIndices t.coeffs.shape := by rw [hsh]; exact mem_multiIndices.mpr hidx
        exact (h idx hidx').symm

end

end Qib.Fermi
