import Mathlib.Data.List.Forall2
import Mathlib.Data.List.Nodup
import Mathlib.Data.List.Perm.Basic
import Mathlib.Data.List.Range
import Mathlib.Tactic.Ring
import Mathlib.Tactic.Linarith
import QibModel.Fermi
/-!
Core D / C10: index arithmetic of the executable coefficient arrays (`QibModel/Fermi.lean`).

* `InShape idx s` : `idx` is a multi-index of an array of shape `s` (`Forall₂ (· < ·)`).
* `mem_multiIndices`, `nodup_multiIndices` : `multiIndices s` lists every multi-index of the shape exactly once.
* `multiIndices_append`, `multiIndices_reverse_perm`.
* `ravel_lt`, `unravel_ravel`, `ravel_append`.
* `Tensor.get_conjT` : `coeffs.conj().T[idx] = conj(coeffs[reversed idx])`,
  `Tensor.get_outer` : `kron(a.reshape(-1), b.reshape(-1)).reshape(a.shape + b.shape)[i1 ++ i2] = a[i1] * b[i2]`.
Helper lemmas only.
-/
namespace Qib.Fermi

/-- `idx` is a multi-index of an array of shape `s` -/
abbrev InShape (idx s : List Nat) : Prop := List.Forall₂ (· < ·) idx s

theorem mem_multiIndices {s idx : List Nat} : idx ∈ multiIndices s ↔ InShape idx s := by
  induction s generalizing idx with
  | nil => simp [multiIndices, InShape, List.forall₂_nil_right_iff]
  | cons d ds ih =>
    simp only [multiIndices, List.mem_flatMap, List.mem_range, List.mem_map, InShape, List.forall₂_cons_right_iff]
    constructor
    · rintro ⟨i, hi, is, his, rfl⟩
      exact ⟨i, is, hi, ih.mp his, rfl⟩
    · rintro ⟨i, is, hi, his, rfl⟩
      exact ⟨i, hi, is, ih.mpr his, rfl⟩

theorem nodup_multiIndices (s : List Nat) : (multiIndices s).Nodup := by
  induction s with
  | nil => simp [multiIndices]
  | cons d ds ih =>
    simp only [multiIndices]
    rw [List.nodup_flatMap]
    constructor
    · intro i _
      exact ih.map (fun a b h => by simpa using h)
    · apply List.Nodup.pairwise_of_forall_ne List.nodup_range
      intro a _ b _ hab
      simp only [Function.onFun, List.disjoint_left, List.mem_map]
      rintro x ⟨u, _, rfl⟩ ⟨v, _, hv⟩
      simp only [List.cons.injEq] at hv
      exact hab hv.1.symm

theorem InShape.length_eq {idx s : List Nat} (h : InShape idx s) : idx.length = s.length :=
  List.Forall₂.length_eq h

theorem multiIndices_append (s1 s2 : List Nat) :
    multiIndices (s1 ++ s2) = (multiIndices s1).flatMap fun i1 => (multiIndices s2).map (i1 ++ ·) := by
  induction s1 with
  | nil => simp [multiIndices]
  | cons d ds ih =>
    simp only [List.cons_append, multiIndices, ih, List.flatMap_assoc, List.map_flatMap, List.flatMap_map,
      List.map_map]
    rfl

theorem multiIndices_reverse_perm (s : List Nat) :
    ((multiIndices s.reverse).map List.reverse).Perm (multiIndices s) := by
  rw [List.perm_ext_iff_of_nodup ((nodup_multiIndices _).map List.reverse_injective) (nodup_multiIndices _)]
  intro idx
  simp only [List.mem_map, mem_multiIndices]
  constructor
  · rintro ⟨u, hu, rfl⟩
    exact List.forall₂_reverse_iff.mp (by simpa using hu)
  · intro h
    exact ⟨idx.reverse, List.forall₂_reverse_iff.mpr h, List.reverse_reverse idx⟩

theorem prodL_append (s1 s2 : List Nat) : prodL (s1 ++ s2) = prodL s1 * prodL s2 := by
  induction s1 with
  | nil => simp [prodL]
  | cons d ds ih => simp [prodL, ih, Nat.mul_assoc]

theorem prodL_reverse (s : List Nat) : prodL s.reverse = prodL s := by
  induction s with
  | nil => rfl
  | cons d ds ih => simp [prodL, prodL_append, ih, Nat.mul_comm]

theorem ravel_lt {s idx : List Nat} (h : InShape idx s) : ravel s idx < prodL s := by
  induction h with
  | nil => simp [ravel, prodL]
  | @cons i d is ds hid _ ih =>
    simp only [ravel, prodL]
    calc i * prodL ds + ravel ds is < i * prodL ds + prodL ds := by omega
      _ = (i + 1) * prodL ds := by ring
      _ ≤ d * prodL ds := Nat.mul_le_mul_right _ hid

theorem unravel_ravel {s idx : List Nat} (h : InShape idx s) : unravel s (ravel s idx) = idx := by
  induction h with
  | nil => simp [unravel]
  | @cons i d is ds hid his ih =>
    have hr : ravel ds is < prodL ds := ravel_lt his
    have hP : 0 < prodL ds := by omega
    simp only [ravel, unravel]
    rw [Nat.add_comm, Nat.add_mul_div_right _ _ hP, Nat.div_eq_of_lt hr, Nat.zero_add, Nat.mod_eq_of_lt hid,
      Nat.add_mul_mod_self_right, Nat.mod_eq_of_lt hr, ih]

theorem ravel_append {s1 i1 : List Nat} (h1 : InShape i1 s1) (s2 i2 : List Nat) :
    ravel (s1 ++ s2) (i1 ++ i2) = ravel s1 i1 * prodL s2 + ravel s2 i2 := by
  induction h1 with
  | nil => simp [ravel]
  | @cons i d is ds _ _ ih =>
    simp only [List.cons_append, ravel, ih, prodL_append]
    ring

theorem getD_ofFn {α : Type} {n : Nat} (f : Fin n → α) (k : Nat) (h : k < n) (d : α) :
    (Array.ofFn f).getD k d = f ⟨k, h⟩ := by
  simp [Array.getD, h]

namespace Tensor

theorem conjT_shape (t : Tensor) : t.conjT.shape = t.shape.reverse := rfl
theorem outer_shape (a b : Tensor) : (a.outer b).shape = a.shape ++ b.shape := rfl

theorem conjT_wf (t : Tensor) : t.conjT.WF := by simp [WF, conjT]
theorem outer_wf (a b : Tensor) : (a.outer b).WF := by simp [WF, outer, size, prodL_append]

/-- `coeffs.conj().T[idx] = conj(coeffs[reversed idx])` -/
theorem get_conjT (t : Tensor) {idx : List Nat} (h : InShape idx t.shape.reverse) :
    t.conjT.get idx = (t.get idx.reverse).conj := by
  have hlt := ravel_lt h
  simp only [get, conjT]
  rw [getD_ofFn _ _ hlt]
  simp only [unravel_ravel h]

/-- `kron(a.reshape(-1), b.reshape(-1)).reshape(a.shape + b.shape)[i1 ++ i2] = a[i1] * b[i2]` -/
theorem get_outer (a b : Tensor) {i1 i2 : List Nat} (h1 : InShape i1 a.shape) (h2 : InShape i2 b.shape) :
    (a.outer b).get (i1 ++ i2) = a.get i1 * b.get i2 := by
  have l1 := ravel_lt h1
  have l2 := ravel_lt h2
  have hk : ravel a.shape i1 * prodL b.shape + ravel b.shape i2 < a.size * b.size := by
    simp only [size]
    calc ravel a.shape i1 * prodL b.shape + ravel b.shape i2
        < ravel a.shape i1 * prodL b.shape + prodL b.shape := by omega
      _ = (ravel a.shape i1 + 1) * prodL b.shape := by ring
      _ ≤ prodL a.shape * prodL b.shape := Nat.mul_le_mul_right _ l1
  have hP : 0 < prodL b.shape := by omega
  simp only [get, outer, ravel_append h1]
  rw [getD_ofFn _ _ hk]
  simp only [size]
  rw [Nat.add_comm, Nat.add_mul_div_right _ _ hP, Nat.div_eq_of_lt l2, Nat.zero_add,
    Nat.add_mul_mod_self_right, Nat.mod_eq_of_lt l2]

end Tensor

end Qib.Fermi
