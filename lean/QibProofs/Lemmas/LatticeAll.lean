import QibProofs.Lemmas.LatticeMaps
import QibProofs.Lemmas.LatticeTri
import QibProofs.Lemmas.LatticeOfc
import QibProofs.Lemmas.LatticeBrickMaps
/-! Helper lemmas for C14: statements about the sum type `Lat` (all lattice classes, layered recursively). -/
namespace Qib.Lattice
open Lat

/-- what the `CustomizedLattice` constructor has checked: symmetric, zero diagonal -/
def customOK (shape : List Nat) (a : List (List Bool)) : Prop :=
  (∀ i j, i < sprod shape → j < sprod shape → (a.getD i []).getD j false = (a.getD j []).getD i false) ∧
  (∀ i, i < sprod shape → (a.getD i []).getD i false = false)

theorem mkCustom_ok {shape : List Nat} {rows : List (List Int)} {l : Lat} (h : mkCustom shape rows = .ok l) :
    ∃ a, l = .custom shape a ∧ customOK shape a := by
  unfold mkCustom at h
  simp only at h
  split at h
  · simp at h
  · split at h
    · simp at h
    · split at h
      · simp at h
      · rename_i h1 h2 h3
        simp only [Except.ok.injEq] at h
        refine ⟨_, h.symm, ?_, ?_⟩
        · intro i j hi hj
          simp only [Bool.not_eq_true, Bool.not_eq_false', List.all_eq_true, List.mem_range, beq_iff_eq] at h2
          exact h2 i hi j hj
        · intro i hi
          simp only [Bool.not_eq_true, Bool.not_eq_false', List.all_eq_true, List.mem_range, beq_iff_eq] at h3
          exact h3 i hi

/-- well-formed lattices: what the constructors guarantee, plus extents `≥ 1` for brick/hexagonal shapes -/
def Lat.WF : Lat → Prop
  | .integer _ _ => True
  | .triangular _ _ => True
  | .ofc _ _ _ => True
  | .brick b => 1 ≤ b.m ∧ 1 ≤ b.n
  | .hex m n _ => 1 ≤ m ∧ 1 ≤ n
  | .full _ => True
  | .custom shape a => customOK shape a
  | .layered base _ => base.WF

/-- does `index_to_coord` hand out this coordinate as floats? (only the odd-face-centred lattice dispatches on it:
a face centre has odd doubled coordinates) -/
def Lat.isFloat : Lat → List Int → Bool
  | .ofc _ _ _, c => c.getD 0 0 % 2 == 1
  | .layered base _, c => base.isFloat (c.drop 1)
  | _, _ => false

theorem bool_eq_of_iff {a b : Bool} (h : a = true ↔ b = true) : a = b := by
  cases a <;> cases b <;> simp_all

theorem adj_symm (l : Lat) (h : l.WF) (i j : Nat) : l.adj i j = l.adj j i := by
  induction l generalizing i j with
  | integer shape pbc =>
    apply bool_eq_of_iff
    simp only [Lat.adj, gridAdj_iff]
    exact ⟨fun ⟨a, b, c⟩ => ⟨b, a, c.symm⟩, fun ⟨a, b, c⟩ => ⟨b, a, c.symm⟩⟩
  | triangular shape pbc =>
    apply bool_eq_of_iff
    simp only [Lat.adj, triAdj, Bool.or_eq_true, gridAdj_iff, triDiag_iff]
    constructor <;> rintro (⟨a, b, c⟩ | ⟨a, b, c⟩)
    · exact Or.inl ⟨b, a, c.symm⟩
    · exact Or.inr ⟨b, a, c.symm⟩
    · exact Or.inl ⟨b, a, c.symm⟩
    · exact Or.inr ⟨b, a, c.symm⟩
  | ofc n0 n1 pbc =>
    apply bool_eq_of_iff
    simp only [Lat.adj, ofcAdj_iff]
    exact ⟨fun ⟨a, b, c⟩ => ⟨b, a, c.symm⟩, fun ⟨a, b, c⟩ => ⟨b, a, c.symm⟩⟩
  | brick b =>
    apply bool_eq_of_iff
    simp only [Lat.adj, Brick.adj_iff b h.1 h.2]
    exact ⟨fun ⟨a, b, c, d, e⟩ => ⟨b, a, c.symm, e, d⟩, fun ⟨a, b, c, d, e⟩ => ⟨b, a, c.symm, e, d⟩⟩
  | hex m n conv =>
    apply bool_eq_of_iff
    simp only [Lat.adj, Brick.adj_iff ⟨m, n, true, conv⟩ h.1 h.2]
    exact ⟨fun ⟨a, b, c, d, e⟩ => ⟨b, a, c.symm, e, d⟩, fun ⟨a, b, c, d, e⟩ => ⟨b, a, c.symm, e, d⟩⟩
  | full shape =>
    apply bool_eq_of_iff
    simp only [Lat.adj, Bool.and_eq_true, decide_eq_true_eq, bne_iff_ne, ne_eq]
    exact ⟨fun ⟨⟨a, b⟩, c⟩ => ⟨⟨b, a⟩, fun e => c e.symm⟩, fun ⟨⟨a, b⟩, c⟩ => ⟨⟨b, a⟩, fun e => c e.symm⟩⟩
  | custom shape a =>
    simp only [Lat.adj]
    by_cases hi : i < sprod shape <;> by_cases hj : j < sprod shape <;> simp [hi, hj]
    exact h.1 i j hi hj
  | layered base nl ih =>
    simp only [Lat.adj]
    rw [ih h (i % base.nsites) (j % base.nsites)]
    by_cases e : i / base.nsites = j / base.nsites
    · simp [e, Bool.and_comm]
    · have e' : ¬ j / base.nsites = i / base.nsites := fun x => e x.symm
      by_cases e2 : i % base.nsites = j % base.nsites
      · simp [e, e', e2, Bool.and_comm]
      · have e2' : ¬ j % base.nsites = i % base.nsites := fun x => e2 x.symm
        simp [e, e', e2, e2']

theorem adj_irrefl (l : Lat) (h : l.WF) (i : Nat) : l.adj i i = false := by
  induction l generalizing i with
  | integer shape pbc =>
    rw [Bool.eq_false_iff]; simp only [Lat.adj, ne_eq, gridAdj_iff]
    rintro ⟨_, _, c⟩; exact GridNN.irrefl c
  | triangular shape pbc =>
    rw [Bool.eq_false_iff]; simp only [Lat.adj, ne_eq, triAdj, Bool.or_eq_true, gridAdj_iff, triDiag_iff]
    rintro (⟨_, _, c⟩ | ⟨_, _, c⟩)
    · exact GridNN.irrefl c
    · exact DiagNN.irrefl c
  | ofc n0 n1 pbc =>
    rw [Bool.eq_false_iff]; simp only [Lat.adj, ne_eq, ofcAdj_iff]
    rintro ⟨_, _, c⟩; exact OfcNN.irrefl c
  | brick b =>
    rw [Bool.eq_false_iff]; simp only [Lat.adj, ne_eq, Brick.adj_iff b h.1 h.2]
    rintro ⟨_, _, c, _⟩; exact BrickNN.irrefl c
  | hex m n conv =>
    rw [Bool.eq_false_iff]; simp only [Lat.adj, ne_eq, Brick.adj_iff ⟨m, n, true, conv⟩ h.1 h.2]
    rintro ⟨_, _, c, _⟩; exact BrickNN.irrefl c
  | full shape => simp [Lat.adj]
  | custom shape a =>
    simp only [Lat.adj]
    by_cases hi : i < sprod shape <;> simp [hi]
    exact h.2 i hi
  | layered base nl ih =>
    simp only [Lat.adj, beq_self_eq_true, if_true, ih h]
    simp

theorem adj_lt (l : Lat) {i j : Nat} (h : l.adj i j = true) : i < l.nsites ∧ j < l.nsites := by
  cases l <;> simp only [Lat.adj, Lat.nsites] at h ⊢
  case integer shape pbc => simp only [gridAdj, Bool.and_eq_true, decide_eq_true_eq] at h; exact h.1
  case triangular shape pbc =>
    simp only [triAdj, Bool.or_eq_true, gridAdj_iff, triDiag_iff] at h
    rcases h with h | h <;> exact ⟨h.1, h.2.1⟩
  case ofc n0 n1 pbc => simp only [ofcAdj, Bool.and_eq_true, decide_eq_true_eq] at h; exact h.1
  case brick b => simp only [Brick.adj, Bool.and_eq_true, decide_eq_true_eq] at h; exact h.1
  case hex m n conv =>
    simp only [Brick.adj, Bool.and_eq_true, decide_eq_true_eq] at h
    have := h.1
    simpa [Brick.nsites] using this
  case full shape => simp only [Bool.and_eq_true, decide_eq_true_eq] at h; exact h.1
  case custom shape a => simp only [Bool.and_eq_true, decide_eq_true_eq] at h; exact h.1
  case layered base nl => simp only [Bool.and_eq_true, decide_eq_true_eq] at h; exact h.1

end Qib.Lattice
