import QibProofs.Lemmas.LatticeMaps
import QibProofs.Lemmas.LatticeTri
import QibProofs.Lemmas.LatticeOfc
import QibProofs.Lemmas.LatticeBrickMaps
/-! Helper lemmas for C14: statements about the sum type `Lat` (all lattice classes, layered recursively). -/
namespace Qib.Lattice
open Lat

/-- what the `CustomizedLattice` constructor has checked: symmetric, zero diagonal -/
def customOK (shape : List Nat) (a : List (List Bool)) : Prop :=
  (∀ i j, i < sprod shape → j < sprod shape → (a.getD i []).getD j false = (a.getD j []).getD i false) ∧
  (∀ i, i < sprod shape → (a.getD i []).getD i false = false)

theorem mkCustom_ok {shape : List Nat} {rows : List (List Int)} {l : Lat} (h : mkCustom shape rows = .ok l) :
    ∃ a, l = .custom shape a ∧ customOK shape a := by
  unfold mkCustom at h
  simp only at h
  split at h
  · simp at h
  · split at h
    · simp at h
    · split at h
      · simp at h
      · rename_i h1 h2 h3
        simp only [Except.ok.injEq] at h
        refine ⟨_, h.symm, ?_, ?_⟩
        · intro i j hi hj
          simp only [Bool.not_eq_true, Bool.not_eq_false', List.all_eq_true, List.mem_range, beq_iff_eq] at h2
          exact h2 i hi j hj
        · intro i hi
          simp only [Bool.not_eq_true, Bool.not_eq_false', List.all_eq_true, List.mem_range, beq_iff_eq] at h3
          exact h3 i hi

/-- well-formed lattices: what the constructors guarantee (odd-face-centred: no periodic axis of extent 1 – the constructor
even demands even extents there; customized: validated matrix), plus extents `≥ 1` for brick/hexagonal shapes -/
def Lat.WF : Lat → Prop
  | .integer _ _ => True
  | .triangular _ _ => True
  | .ofc n0 n1 pbc => NoTrivialWrap [n0, n1] pbc
  | .brick b => 1 ≤ b.m ∧ 1 ≤ b.n
  | .hex m n _ => 1 ≤ m ∧ 1 ≤ n
  | .full _ => True
  | .custom shape a => customOK shape a
  | .layered base _ => base.WF

/-- does `index_to_coord` hand out this coordinate as floats? (only the odd-face-centred lattice dispatches on it:
a face centre has odd doubled coordinates) -/
def Lat.isFloat : Lat → List Int → Bool
  | .ofc _ _ _, c => c.getD 0 0 % 2 == 1
  | .layered base _, c => base.isFloat (c.drop 1)
  | _, _ => false

theorem bool_eq_of_iff {a b : Bool} (h : a = true ↔ b = true) : a = b := by
  cases a <;> cases b <;> simp_all

theorem adj_symm (l : Lat) (h : l.WF) (i j : Nat) : l.adj i j = l.adj j i := by
  induction l generalizing i j with
  | integer shape pbc =>
    apply bool_eq_of_iff
    simp only [Lat.adj, gridAdj_iff]
    exact ⟨fun ⟨a, b, c⟩ => ⟨b, a, c.symm⟩, fun ⟨a, b, c⟩ => ⟨b, a, c.symm⟩⟩
  | triangular shape pbc =>
    apply bool_eq_of_iff
    simp only [Lat.adj, triAdj, Bool.or_eq_true, gridAdj_iff, triDiag_iff]
    constructor <;> rintro (⟨a, b, c⟩ | ⟨a, b, c⟩)
    · exact Or.inl ⟨b, a, c.symm⟩
    · exact Or.inr ⟨b, a, c.symm⟩
    · exact Or.inl ⟨b, a, c.symm⟩
    · exact Or.inr ⟨b, a, c.symm⟩
  | ofc n0 n1 pbc =>
    apply bool_eq_of_iff
    simp only [Lat.adj, ofcAdj_iff n0 n1 pbc h]
    exact ⟨fun ⟨a, b, c⟩ => ⟨b, a, c.symm⟩, fun ⟨a, b, c⟩ => ⟨b, a, c.symm⟩⟩
  | brick b =>
    apply bool_eq_of_iff
    simp only [Lat.adj, Brick.adj_iff b h.1 h.2]
    exact ⟨fun ⟨a, b, c, d, e⟩ => ⟨b, a, c.symm, e, d⟩, fun ⟨a, b, c, d, e⟩ => ⟨b, a, c.symm, e, d⟩⟩
  | hex m n conv =>
    apply bool_eq_of_iff
    simp only [Lat.adj, Brick.adj_iff ⟨m, n, true, conv⟩ h.1 h.2]
    exact ⟨fun ⟨a, b, c, d, e⟩ => ⟨b, a, c.symm, e, d⟩, fun ⟨a, b, c, d, e⟩ => ⟨b, a, c.symm, e, d⟩⟩
  | full shape =>
    apply bool_eq_of_iff
    simp only [Lat.adj, Bool.and_eq_true, decide_eq_true_eq, bne_iff_ne, ne_eq]
    exact ⟨fun ⟨⟨a, b⟩, c⟩ => ⟨⟨b, a⟩, fun e => c e.symm⟩, fun ⟨⟨a, b⟩, c⟩ => ⟨⟨b, a⟩, fun e => c e.symm⟩⟩
  | custom shape a =>
    simp only [Lat.adj]
    by_cases hi : i < sprod shape <;> by_cases hj : j < sprod shape <;> simp [hi, hj]
    exact h.1 i j hi hj
  | layered base nl ih =>
    simp only [Lat.adj]
    rw [ih h (i % base.nsites) (j % base.nsites)]
    have c1 : (i / base.nsites == j / base.nsites) = (j / base.nsites == i / base.nsites) :=
      bool_eq_of_iff (by simp only [beq_iff_eq]; exact eq_comm)
    have c2 : (i % base.nsites == j % base.nsites) = (j % base.nsites == i % base.nsites) :=
      bool_eq_of_iff (by simp only [beq_iff_eq]; exact eq_comm)
    rw [c1, c2, Bool.and_comm (decide (i < nl * base.nsites))]

theorem adj_irrefl (l : Lat) (h : l.WF) (i : Nat) : l.adj i i = false := by
  induction l generalizing i with
  | integer shape pbc =>
    rw [Bool.eq_false_iff]; simp only [Lat.adj, ne_eq, gridAdj_iff]
    rintro ⟨_, _, c⟩; exact GridNN.irrefl c
  | triangular shape pbc =>
    rw [Bool.eq_false_iff]; simp only [Lat.adj, ne_eq, triAdj, Bool.or_eq_true, gridAdj_iff, triDiag_iff]
    rintro (⟨_, _, c⟩ | ⟨_, _, c⟩)
    · exact GridNN.irrefl c
    · exact DiagNN.irrefl c
  | ofc n0 n1 pbc =>
    rw [Bool.eq_false_iff]; simp only [Lat.adj, ne_eq, ofcAdj_iff n0 n1 pbc h]
    rintro ⟨_, _, c⟩; exact OfcNN.irrefl c
  | brick b =>
    rw [Bool.eq_false_iff]; simp only [Lat.adj, ne_eq, Brick.adj_iff b h.1 h.2]
    rintro ⟨_, _, c, _⟩; exact BrickNN.irrefl c
  | hex m n conv =>
    rw [Bool.eq_false_iff]; simp only [Lat.adj, ne_eq, Brick.adj_iff ⟨m, n, true, conv⟩ h.1 h.2]
    rintro ⟨_, _, c, _⟩; exact BrickNN.irrefl c
  | full shape => simp [Lat.adj]
  | custom shape a =>
    simp only [Lat.adj]
    by_cases hi : i < sprod shape <;> simp [hi]
    exact h.2 i hi
  | layered base nl ih =>
    simp only [Lat.adj, beq_self_eq_true, if_true, ih h]
    simp

theorem adj_lt (l : Lat) {i j : Nat} (h : l.adj i j = true) : i < l.nsites ∧ j < l.nsites := by
  cases l <;> simp only [Lat.adj, Lat.nsites] at h ⊢
  case integer shape pbc => simp only [gridAdj, Bool.and_eq_true, decide_eq_true_eq] at h; exact h.1
  case triangular shape pbc =>
    simp only [triAdj, Bool.or_eq_true, gridAdj_iff, triDiag_iff] at h
    rcases h with h | h <;> exact ⟨h.1, h.2.1⟩
  case ofc n0 n1 pbc => simp only [ofcAdj, Bool.and_eq_true, decide_eq_true_eq] at h; exact h.1
  case brick b => simp only [Brick.adj, Bool.and_eq_true, decide_eq_true_eq] at h; exact h.1
  case hex m n conv =>
    simp only [Brick.adj, Bool.and_eq_true, decide_eq_true_eq] at h
    have := h.1
    simpa [Brick.nsites] using this
  case full shape => simp only [Bool.and_eq_true, decide_eq_true_eq] at h; exact h.1
  case custom shape a => simp only [Bool.and_eq_true, decide_eq_true_eq] at h; exact h.1
  case layered base nl => simp only [Bool.and_eq_true, decide_eq_true_eq] at h; exact h.1


theorem roundHalfEven_odd (x : Nat) : roundHalfEven (2 * (x : Int) + 1) = x := by
  unfold roundHalfEven
  rw [if_pos (by simp)]
  omega

theorem ofc_roundtrip (n0 n1 : Nat) (pbc : List Bool) (i : Nat) (hi : i < ofcNsites n0 n1) :
    ∃ c, (Lat.ofc n0 n1 pbc).i2c (i : Int) = .ok c ∧
      (Lat.ofc n0 n1 pbc).c2i ((Lat.ofc n0 n1 pbc).isFloat c) c = .ok (some (i : Int)) := by
  by_cases hv : i < n0 * n1
  · have hs : sprod [n0, n1] = n0 * n1 := by simp [sprod]
    refine ⟨(unravel [n0, n1] i).map fun (v : Nat) => 2 * (v : Int), ?_, ?_⟩
    · simp only [Lat.i2c]
      rw [if_pos (by exact_mod_cast hv), if_neg (by omega)]
      simp
    · have hfl : (Lat.ofc n0 n1 pbc).isFloat ((unravel [n0, n1] i).map fun (v : Nat) => 2 * (v : Int)) = false := by
        simp [Lat.isFloat, unravel_two]
      rw [hfl]
      simp only [Lat.c2i, Bool.not_false, if_true, List.map_map]
      have : ((fun x : Int => x / 2) ∘ fun (v : Nat) => 2 * (v : Int)) = Int.ofNat := by
        funext v; simp
      rw [this, ravelChecked_ok (validCoord_unravel [n0, n1] i (hs ▸ hv)), ravel_unravel [n0, n1] i (hs ▸ hv)]
      rfl
  · have hk : i - n0 * n1 < ((n0 - 1) * (n1 - 1) + 1) / 2 := by unfold ofcNsites at hi; omega
    obtain ⟨h1, h2, h3, h4⟩ := faceCoord_spec (n1 - 1) (n0 - 1) _ hk
    have hw : n1 - 1 ≠ 0 := by omega
    have hk' : ((i : Int) - ((n0 : Int) * (n1 : Int))).toNat = i - n0 * n1 := by
      have : (n0 : Int) * (n1 : Int) = ((n0 * n1 : Nat) : Int) := by simp
      rw [this]; omega
    refine ⟨[2 * ((faceCoord (n1 - 1) (i - n0 * n1)).1 : Int) + 1, 2 * ((faceCoord (n1 - 1) (i - n0 * n1)).2 : Int) + 1], ?_, ?_⟩
    · simp only [Lat.i2c]
      rw [if_neg (by omega), if_neg hw, hk']
    · have hfl : (Lat.ofc n0 n1 pbc).isFloat [2 * ((faceCoord (n1 - 1) (i - n0 * n1)).1 : Int) + 1,
          2 * ((faceCoord (n1 - 1) (i - n0 * n1)).2 : Int) + 1] = true := by
        simp [Lat.isFloat]
      rw [hfl]
      simp only [Lat.c2i, Bool.not_true, Bool.false_eq_true, if_false, roundHalfEven_odd, Int.toNat_natCast]
      generalize faceCoord (n1 - 1) (i - n0 * n1) = f at *
      obtain ⟨x, y⟩ := f
      simp only at h1 h2 h3 h4 ⊢
      rw [if_neg (by simp; omega), if_neg (by simp; omega), h4]
      simp only [Except.ok.injEq, Option.some.injEq]
      push_cast
      omega

theorem hex_roundtrip (m n : Nat) (conv : Conv) (hm : 1 ≤ m) (hn : 1 ≤ n) (i : Nat)
    (hi : i < (Lat.hex m n conv).nsites) (flt : Bool) :
    ∃ c, (Lat.hex m n conv).i2c (i : Int) = .ok c ∧ (Lat.hex m n conv).c2i flt c = .ok (some (i : Int)) := by
  have hi' : i < (⟨m, n, true, conv⟩ : Brick).nsites := by simpa [Lat.nsites, Brick.nsites] using hi
  have h1 := Brick.i2c_ok ⟨m, n, true, conv⟩ hm hn i hi'
  have h2 := Brick.c2i_i2c ⟨m, n, true, conv⟩ hm hn i hi'
  refine ⟨hexCoord conv (Brick.row ⟨m, n, true, conv⟩ i) (Brick.col ⟨m, n, true, conv⟩ i), ?_, ?_⟩
  · simp only [Lat.i2c, h1, bind, Except.bind, pure, Except.pure]
  · cases conv <;> simp only [Lat.c2i, hexCoord, hexLongInv_hexLong, h2]

theorem roundtrip (l : Lat) (h : l.WF) (i : Nat) (hi : i < l.nsites) :
    ∃ c, l.i2c (i : Int) = .ok c ∧ l.c2i (l.isFloat c) c = .ok (some (i : Int)) := by
  induction l generalizing i with
  | integer shape pbc => exact grid_roundtrip hi
  | triangular shape pbc => exact grid_roundtrip hi
  | full shape => exact grid_roundtrip hi
  | custom shape a => exact grid_roundtrip hi
  | ofc n0 n1 pbc => exact ofc_roundtrip n0 n1 pbc i hi
  | brick b =>
    refine ⟨[(b.row i : Int), (b.col i : Int)], ?_, ?_⟩
    · simp only [Lat.i2c, Brick.i2c_ok b h.1 h.2 i hi, bind, Except.bind, pure, Except.pure]
    · simp only [Lat.c2i]; exact Brick.c2i_i2c b h.1 h.2 i hi
  | hex m n conv => exact hex_roundtrip m n conv h.1 h.2 i hi _
  | layered base nl ih =>
    simp only [Lat.nsites] at hi
    have hnb : 0 < base.nsites := by
      rcases Nat.eq_zero_or_pos base.nsites with h0 | h0
      · rw [h0] at hi; simp at hi
      · exact h0
    obtain ⟨c, hc1, hc2⟩ := ih h (i % base.nsites) (Nat.mod_lt _ hnb)
    refine ⟨((i / base.nsites : Nat) : Int) :: c, ?_, ?_⟩
    · simp only [Lat.i2c]
      rw [if_neg (by push_cast at *; exact_mod_cast Nat.not_le.mpr hi)]
      rw [← Int.natCast_emod, hc1]
      simp [bind, Except.bind, pure, Except.pure]
    · simp only [Lat.isFloat, List.drop_succ_cons, List.drop_zero, Lat.c2i]
      have hl : i / base.nsites < nl := (Nat.div_lt_iff_lt_mul hnb).mpr hi
      rw [if_neg (by exact_mod_cast Nat.not_le.mpr hl), hc2]
      simp only [bind, Except.bind, pure, Except.pure, Except.ok.injEq, Option.some.injEq]
      have := Nat.div_add_mod' i base.nsites
      exact_mod_cast this

/-- distinct sites have distinct coordinates -/
theorem coord_injective (l : Lat) (h : l.WF) (i j : Nat) (hi : i < l.nsites) (hj : j < l.nsites)
    (e : l.i2c (i : Int) = l.i2c (j : Int)) : i = j := by
  obtain ⟨c, h1, h2⟩ := roundtrip l h i hi
  obtain ⟨c', h1', h2'⟩ := roundtrip l h j hj
  rw [e, h1'] at h1
  have : c' = c := Except.ok.inj h1
  subst this
  rw [h2'] at h2
  have := Option.some.inj (Except.ok.inj h2)
  exact_mod_cast this.symm


end Qib.Lattice
