import Mathlib.Analysis.Matrix.Spectrum
import Mathlib.LinearAlgebra.Matrix.Charpoly.Basic
import Mathlib.LinearAlgebra.Matrix.Rank
import Mathlib.LinearAlgebra.Eigenspace.Basic
/-!
C13, spectral part — helper lemmas, part 5 (pure linear algebra, no qib content): what a unitary equivalence
`A = W B Wᴴ` says about spectra.  Equal characteristic polynomials (eigenvalues with algebraic multiplicity), for Hermitian
matrices equal sorted eigenvalue lists, eigenvectors carried over by `W` / `Wᴴ`, equal geometric multiplicities
(`rank (A − μ) = rank (B − μ)`, equal dimensions of the eigenspaces).
-/
open Matrix
namespace Qib.Spec

variable {k : Type} [Fintype k] [DecidableEq k]

/-- `A = W B Wᴴ` with `W` unitary -/
structure UEquiv (A B W : Matrix k k ℂ) : Prop where
  left : Wᴴ * W = 1
  right : W * Wᴴ = 1
  conj : A = W * B * Wᴴ

theorem UEquiv.symm {A B W : Matrix k k ℂ} (h : UEquiv A B W) : UEquiv B A Wᴴ where
  left := by rw [conjTranspose_conjTranspose]; exact h.right
  right := by rw [conjTranspose_conjTranspose]; exact h.left
  conj := by
    rw [h.conj, conjTranspose_conjTranspose]
    simp only [Matrix.mul_assoc]
    rw [h.left, Matrix.mul_one, ← Matrix.mul_assoc, h.left, Matrix.one_mul]

/-- equal characteristic polynomials: the same eigenvalues with the same algebraic multiplicities -/
theorem UEquiv.charpoly_eq {A B W : Matrix k k ℂ} (h : UEquiv A B W) : A.charpoly = B.charpoly := by
  rw [h.conj, Matrix.charpoly_mul_comm, ← Matrix.mul_assoc, h.left, Matrix.one_mul]

theorem UEquiv.isHermitian {A B W : Matrix k k ℂ} (h : UEquiv A B W) (hB : B.IsHermitian) : A.IsHermitian := by
  rw [h.conj]; exact isHermitian_mul_mul_conjTranspose W hB

/-- Hermitian case: the eigenvalues in decreasing order (with multiplicity) coincide -/
theorem UEquiv.eigenvalues₀_eq {A B W : Matrix k k ℂ} (h : UEquiv A B W) (hA : A.IsHermitian) (hB : B.IsHermitian) :
    hA.eigenvalues₀ = hB.eigenvalues₀ := by
  rw [← List.ofFn_inj, ← hA.sort_roots_charpoly_eq_eigenvalues₀, ← hB.sort_roots_charpoly_eq_eigenvalues₀, h.charpoly_eq]

theorem UEquiv.eigenvalues_eq {A B W : Matrix k k ℂ} (h : UEquiv A B W) (hA : A.IsHermitian) (hB : B.IsHermitian) :
    hA.eigenvalues = hB.eigenvalues :=
  (Matrix.IsHermitian.eigenvalues_eq_eigenvalues_iff hA hB).mpr h.charpoly_eq

/-- eigenvectors are carried over: `B v = μ v → A (W v) = μ (W v)`, and `W` kills no vector -/
theorem UEquiv.eigenvector {A B W : Matrix k k ℂ} (h : UEquiv A B W) (μ : ℂ) (v : k → ℂ) :
    (B.mulVec v = μ • v → A.mulVec (W.mulVec v) = μ • W.mulVec v) ∧ (W.mulVec v = 0 → v = 0) := by
  constructor
  · intro hv
    rw [h.conj, Matrix.mulVec_mulVec, Matrix.mul_assoc, Matrix.mul_assoc, h.left, Matrix.mul_one, ← Matrix.mulVec_mulVec, hv,
      Matrix.mulVec_smul]
  · intro hv
    have := congrArg (Wᴴ.mulVec) hv
    rwa [Matrix.mulVec_mulVec, h.left, Matrix.one_mulVec, Matrix.mulVec_zero] at this

theorem UEquiv.isUnit_det {A B W : Matrix k k ℂ} (h : UEquiv A B W) : IsUnit W.det ∧ IsUnit Wᴴ.det :=
  ⟨Matrix.isUnit_det_of_left_inverse h.left, Matrix.isUnit_det_of_right_inverse h.left⟩

/-- equal geometric multiplicities: `A − μ` and `B − μ` have the same rank for every `μ` -/
theorem UEquiv.rank_sub_eq {A B W : Matrix k k ℂ} (h : UEquiv A B W) (μ : ℂ) :
    (A - μ • (1 : Matrix k k ℂ)).rank = (B - μ • (1 : Matrix k k ℂ)).rank := by
  have e : A - μ • (1 : Matrix k k ℂ) = W * (B - μ • (1 : Matrix k k ℂ)) * Wᴴ := by
    rw [h.conj, Matrix.mul_sub, Matrix.sub_mul, Matrix.mul_smul, Matrix.smul_mul, Matrix.mul_one, h.right]
  rw [e, Matrix.rank_mul_eq_left_of_isUnit_det _ _ h.isUnit_det.2, Matrix.rank_mul_eq_right_of_isUnit_det _ _ h.isUnit_det.1]

/-- the eigenspace of a matrix (as a linear map on `k → ℂ`) at `μ` has dimension `card k − rank (M − μ)` -/
theorem finrank_eigenspace (M : Matrix k k ℂ) (μ : ℂ) :
    Module.finrank ℂ (Module.End.eigenspace (Matrix.toLin' M) μ) + (M - μ • (1 : Matrix k k ℂ)).rank = Fintype.card k := by
  have h1 : Module.End.eigenspace (Matrix.toLin' M) μ = LinearMap.ker (Matrix.toLin' (M - μ • (1 : Matrix k k ℂ))) := by
    rw [Module.End.eigenspace_def]
    congr 1
    ext v i
    simp
  rw [h1]
  have h2 := LinearMap.finrank_range_add_finrank_ker (Matrix.toLin' (M - μ • (1 : Matrix k k ℂ)))
  rw [Module.finrank_fintype_fun_eq_card] at h2
  rw [Matrix.rank, ← Matrix.toLin'_apply', add_comm]
  exact h2

/-- equal dimensions of the eigenspaces -/
theorem UEquiv.finrank_eigenspace_eq {A B W : Matrix k k ℂ} (h : UEquiv A B W) (μ : ℂ) :
    Module.finrank ℂ (Module.End.eigenspace (Matrix.toLin' A) μ) =
      Module.finrank ℂ (Module.End.eigenspace (Matrix.toLin' B) μ) := by
  have hA := finrank_eigenspace A μ
  have hB := finrank_eigenspace B μ
  have hr := h.rank_sub_eq μ
  omega

/-- `μ` is an eigenvalue of the one iff of the other -/
theorem UEquiv.hasEigenvalue_iff {A B W : Matrix k k ℂ} (h : UEquiv A B W) (μ : ℂ) :
    Module.End.HasEigenvalue (Matrix.toLin' A) μ ↔ Module.End.HasEigenvalue (Matrix.toLin' B) μ := by
  have key : ∀ {A B W : Matrix k k ℂ}, UEquiv A B W → Module.End.HasEigenvalue (Matrix.toLin' B) μ →
      Module.End.HasEigenvalue (Matrix.toLin' A) μ := by
    intro A B W h hB
    obtain ⟨v, hv⟩ := hB.exists_hasEigenvector
    have hv1 : B.mulVec v = μ • v := by simpa [Matrix.toLin'_apply] using hv.apply_eq_smul
    have := h.eigenvector μ v
    refine Module.End.hasEigenvalue_of_hasEigenvector (x := W.mulVec v) ⟨?_, fun h0 => hv.2 (this.2 h0)⟩
    rw [Module.End.mem_eigenspace_iff, Matrix.toLin'_apply]
    exact this.1 hv1
  exact ⟨key h.symm, key h⟩

end Qib.Spec
