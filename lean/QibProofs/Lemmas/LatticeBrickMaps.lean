import QibProofs.Lemmas.LatticeBrick
import QibProofs.Lemmas.LatticeHex
import Mathlib.Tactic.SplitIfs
/-! Helper lemmas for C14: `coord_to_index ∘ index_to_coord = id` for the brick lattice (both conventions, delete
on/off: the shift computed from the coordinate equals the shift computed from the index) and for the hexagonal
lattice (the float coordinates, exactly encoded, are mapped back to the grid point). -/
namespace Qib.Lattice.Brick

theorem ravelSq_ok (b : Brick) (u : Nat) (hu : u < b.R * b.C) :
    b.ravelSq [((u / b.C : Nat) : Int), ((u % b.C : Nat) : Int)] = .ok (u : Int) := by
  have hC : 0 < b.C := by
    rcases Nat.eq_zero_or_pos b.C with h | h
    · rw [h] at hu; simp at hu
    · exact h
  have hr : u / b.C < b.R := (Nat.div_lt_iff_lt_mul hC).mpr hu
  have hc : u % b.C < b.C := Nat.mod_lt _ hC
  unfold ravelSq
  simp only
  rw [if_pos]
  · congr 1
    have := Nat.div_add_mod' u b.C
    exact_mod_cast this
  · simp only [Bool.and_eq_true, decide_eq_true_eq]
    exact ⟨⟨⟨Int.natCast_nonneg _, by exact_mod_cast hr⟩, Int.natCast_nonneg _⟩, by exact_mod_cast hc⟩

theorem grid_facts (R C u : Nat) (_hR : 1 ≤ R) (hu : u < R * C) :
    u = u / C * C + u % C ∧ u % C < C ∧ u / C < R ∧ (u / C = 0 → u / C * C = 0) ∧ (1 ≤ u / C → C ≤ u / C * C) ∧
      (u / C = R - 1 → u / C * C = (R - 1) * C) ∧ (u / C < R - 1 → u / C * C + C ≤ (R - 1) * C) := by
  have hC : 0 < C := by
    rcases Nat.eq_zero_or_pos C with h | h
    · rw [h] at hu; simp at hu
    · exact h
  refine ⟨(Nat.div_add_mod' u C).symm, Nat.mod_lt _ hC, (Nat.div_lt_iff_lt_mul hC).mpr hu, ?_, ?_, ?_, ?_⟩
  · intro h; rw [h]; simp
  · intro h; have := Nat.mul_le_mul_right C h; omega
  · intro h; rw [h]
  · intro h
    have := Nat.mul_le_mul_right C (show u / C + 1 ≤ R - 1 by omega)
    rw [Nat.add_mul, Nat.one_mul] at this
    exact this

theorem andEq1_some (cond : Bool) (x v : Int) : andEq1 cond (some x) v = .ok (cond && x == v) := by
  cases cond <;> simp [andEq1]

theorem c2i_i2c (b : Brick) (hm : 1 ≤ b.m) (hn : 1 ≤ b.n) (i : Nat) (hi : i < b.nsites) :
    b.c2i [(b.row i : Int), (b.col i : Int)] = .ok (some (i : Int)) := by
  have hns := b.nsites_eq hm hn
  unfold row col
  by_cases hdx : (b.delete && b.hasExtra) = true
  · simp only [hdx, if_true] at hns
    rw [hns] at hi
    simp only [Bool.and_eq_true] at hdx
    obtain ⟨e1, l1, n1, n2⟩ := b.undelete_facts hm hn hdx.2 hdx.1 i hi
    have hR := b.R_ge hm
    have hC := b.C_ge hn
    have hRC := b.RC_split hm
    have hK := b.K_ge hm
    rw [← e1] at l1 n1 n2
    obtain ⟨g1, g2, g3, g4, g5, g6, g7⟩ := grid_facts b.R b.C _ (by omega) l1
    unfold c2i
    simp only [hdx.1, hdx.2, Bool.and_self, if_true, List.head?_cons, ravelSq_ok b _ l1]
    cases hconv : b.conv
    · have hp := b.cols_parity hconv
      have hsh : b.i2cShift i =
          (if i ≥ b.C - 1 ∧ b.C % 2 = 1 then 1 else 0) +
          (if i ≥ (b.R - 1) * b.C - (if i ≥ b.C - 1 ∧ b.C % 2 = 1 then 1 else 0) then 1 else 0) := by
        unfold i2cShift; simp [hdx.1, hdx.2, hconv, hp]
      have hx1 : b.extra1 = (b.R - 1) * b.C := by unfold extra1; rw [hconv]
      have hx2 : b.extra2 = if b.C % 2 = 0 then b.R * b.C - 1 else b.C - 1 := by
        unfold extra2; rw [hconv]; simp
      rw [hx1] at n1; rw [hx2] at n2
      have hpn : (b.n % 2 = 0) ↔ (b.C % 2 = 1) := by simpa using congrArg (· = true) hp
      generalize b.i2cShift i = sh at *
      generalize hu : i + sh = u at *
      generalize u / b.C = r at *
      generalize u % b.C = c at *
      generalize r * b.C = m at *
      generalize (b.R - 1) * b.C = K at *
      generalize b.R * b.C = N at *
      generalize b.C = C at *
      generalize b.R = R at *
      simp only [andEq1_some, bind, Except.bind, pure, Except.pure]
      rcases Nat.mod_two_eq_zero_or_one C with hc | hc
      · have h5 : ¬ b.n % 2 = 0 := by rw [hpn]; omega
        simp only [hc, Nat.zero_ne_one, and_false, if_false, if_true, Nat.sub_zero, Nat.zero_add] at hsh n2
        have h5' : (b.n % 2 == 0) = false := by simpa using h5
        simp only [h5', Bool.false_eq_true, if_false]
        split_ifs at hsh ⊢ <;> simp only [Bool.and_eq_true, beq_iff_eq, Bool.true_and, Except.ok.injEq, Option.some.injEq,
          reduceCtorEq] at * <;> omega
      · have h5 : b.n % 2 = 0 := by rw [hpn]; omega
        simp only [hc, and_true, Nat.one_ne_zero, if_false] at hsh n2
        have h5' : (b.n % 2 == 0) = true := by simpa using h5
        simp only [h5', if_true]
        split_ifs at hsh ⊢ <;> simp only [Bool.and_eq_true, beq_iff_eq, Bool.true_and, Except.ok.injEq, Option.some.injEq,
          reduceCtorEq, gt_iff_lt] at * <;> omega
    · have hp := b.rows_parity hconv
      have hsh : b.i2cShift i =
          (if i ≥ b.C - 1 then 1 else 0) +
          (if i ≥ (b.R - 1) * b.C - (if i ≥ b.C - 1 then 1 else 0) ∧ b.R % 2 = 1 then 1 else 0) := by
        unfold i2cShift; simp [hdx.1, hdx.2, hconv, hp]
      have hx1 : b.extra1 = b.C - 1 := by unfold extra1; rw [hconv]
      have hx2 : b.extra2 = if b.R % 2 = 1 then (b.R - 1) * b.C else b.R * b.C - 1 := by
        unfold extra2; rw [hconv]; simp
      rw [hx1] at n1; rw [hx2] at n2
      have hpn : (b.m % 2 = 0) ↔ (b.R % 2 = 1) := by simpa using congrArg (· = true) hp
      have hK2 : b.R % 2 = 1 → 2 * b.C ≤ (b.R - 1) * b.C := fun h => b.K_ge2 (by omega)
      generalize b.i2cShift i = sh at *
      generalize hu : i + sh = u at *
      generalize u / b.C = r at *
      generalize u % b.C = c at *
      generalize r * b.C = m at *
      generalize (b.R - 1) * b.C = K at *
      generalize b.R * b.C = N at *
      generalize b.C = C at *
      generalize b.R = R at *
      simp only [andEq1_some, bind, Except.bind, pure, Except.pure]
      rcases Nat.mod_two_eq_zero_or_one R with hc | hc
      · have h5 : ¬ b.m % 2 = 0 := by rw [hpn]; omega
        simp only [hc, Nat.zero_ne_one, and_false, if_false, Nat.add_zero] at hsh n2
        have h5' : (b.m % 2 == 0) = false := by simpa using h5
        simp only [h5', Bool.false_eq_true, if_false]
        split_ifs at hsh ⊢ <;> simp only [Bool.and_eq_true, beq_iff_eq, Bool.true_and, Except.ok.injEq, Option.some.injEq,
          reduceCtorEq] at * <;> omega
      · have h5 : b.m % 2 = 0 := by rw [hpn]; omega
        simp only [hc, and_true, if_true] at hsh n2 hK2
        have h5' : (b.m % 2 == 0) = true := by simpa using h5
        simp only [h5', if_true]
        split_ifs at hsh ⊢ <;> simp only [Bool.and_eq_true, beq_iff_eq, Bool.true_and, Except.ok.injEq, Option.some.injEq,
          reduceCtorEq] at * <;> omega
  · have hs : b.i2cShift i = 0 := by simp [i2cShift, hdx]
    simp only [hdx] at hns
    rw [hns] at hi
    unfold c2i
    simp only [hdx, if_false, hs, Nat.add_zero, Bool.false_eq_true]
    rw [ravelSq_ok b i hi]; rfl

/-- `index_to_coord(i)` of a valid site returns `(row i, col i)` -/
theorem i2c_ok (b : Brick) (hm : 1 ≤ b.m) (hn : 1 ≤ b.n) (i : Nat) (hi : i < b.nsites) :
    b.i2c (i : Int) = .ok (b.row i, b.col i) := by
  have hns := b.nsites_eq hm hn
  have hlt : i + b.i2cShift i < b.nsitesSquare := by
    unfold nsitesSquare
    by_cases hdx : (b.delete && b.hasExtra) = true
    · simp only [hdx, if_true] at hns
      rw [hns] at hi
      simp only [Bool.and_eq_true] at hdx
      obtain ⟨e1, l1, -, -⟩ := b.undelete_facts hm hn hdx.2 hdx.1 i hi
      rw [e1]; exact l1
    · have hs : b.i2cShift i = 0 := by simp [i2cShift, hdx]
      simp only [hdx, Bool.false_eq_true, if_false] at hns
      rw [hs]; omega
  unfold i2c row col
  rw [if_neg, if_neg (by omega)]
  · simp only [Int.toNat_natCast]
    rw [if_pos hlt]
  · simp only [Bool.and_eq_true, decide_eq_true_eq, not_and, not_le]
    intro _; exact_mod_cast hi

end Qib.Lattice.Brick

namespace Qib.Lattice

theorem hexLongInv_hexLong (p k : Nat) : hexLongInv (p : Int) (hexLong p k : Int) = some (k : Int) := by
  rcases Nat.mod_two_eq_zero_or_one p with hp | hp
  · have hp' : ((p : Int) % 2 == 0) = true := by simp; omega
    rw [hexLong_even hp]
    unfold hexLongInv
    simp only [hp', if_true]
    rw [if_pos (by simp; omega)]
    simp only [Option.some.injEq]
    omega
  · have hp' : ((p : Int) % 2 == 0) = false := by simp; omega
    rw [hexLong_odd hp]
    unfold hexLongInv
    simp only [hp', Bool.false_eq_true, if_false]
    rw [if_pos (by simp; omega)]
    simp only [Option.some.injEq]
    omega

end Qib.Lattice
