import QibProofs.Lemmas.GateNetData
/-!
Helper lemmas for C06: matrices of nested controlled gates, the controlled-gate network on the model's own data
arrays (`ctrlTN_full`), and evaluation of the multiplexer / phase / preparation tensors. No property statements.
-/
set_option linter.unusedSimpArgs false
set_option linter.unnecessarySeqFocus false
set_option linter.unusedVariables false
namespace Qib.GateNet
open Qib.TNet
section
variable {α : Type} [CommSemiring α]

theorem ctrlMat_nested (cs cs2 : List Bool) (w : Nat) (U : Nat → Nat → α) (i j : Nat) :
    ctrlMat cs (2 ^ (w + cs2.length)) (ctrlMat cs2 (2 ^ w) U) i j = ctrlMat (cs ++ cs2) (2 ^ w) U i j := by
  have hI : ctrlIndex (cs ++ cs2) = ctrlIndex cs * 2 ^ cs2.length + ctrlIndex cs2 := by
    rw [ctrlIndex_eq, ctrlIndex_eq, ctrlIndex_eq, List.map_append, bitsVal_append, List.length_map]
  have hI2 : ctrlIndex cs2 < 2 ^ cs2.length := by
    rw [ctrlIndex_eq]; have := bitsVal_lt _ (bits_map_bit cs2); simpa using this
  simp only [ctrlMat, hI, pow_add]
  exact ctrlMat_ctrlMat cs cs2 (2 ^ w) (by positivity) U _ _ (2 ^ cs2.length) (by positivity) hI2 i j

/-- flattening nested controlled gates changes neither the number of wires nor the matrix -/
theorem flatten_spec : ∀ (cs : List Bool) (t : G α),
    (flattenCtrl cs t).2.wires + (flattenCtrl cs t).1.length = t.wires + cs.length ∧
    ∀ i j, ctrlMat (flattenCtrl cs t).1 (2 ^ (flattenCtrl cs t).2.wires) (flattenCtrl cs t).2.mat i j =
      ctrlMat cs (2 ^ t.wires) t.mat i j
  | cs, .controlled cs2 t2 => by
    have ih := flatten_spec (cs ++ cs2) t2
    have hf : flattenCtrl cs (G.controlled cs2 t2) = flattenCtrl (cs ++ cs2) t2 := by simp [flattenCtrl]
    rw [hf]
    refine ⟨?_, ?_⟩
    · rw [ih.1]; simp only [G.wires, List.length_append]; omega
    · intro i j
      rw [ih.2 i j]
      simp only [G.wires, G.mat]
      exact (ctrlMat_nested cs cs2 t2.wires t2.mat i j).symm
  | cs, .leaf w m => by simp [flattenCtrl]
  | cs, .dense w m => by simp [flattenCtrl]
  | cs, .phase n u un => by simp [flattenCtrl]
  | cs, .prepare n x m tr => by simp [flattenCtrl]
  | cs, .block w m => by simp [flattenCtrl]
  | cs, .multiplexed nc ts => by simp [flattenCtrl]

/-- entries of a controlled gate's matrix at bit multi-indices -/
theorem ctrlMat_bits (cs : List Bool) (nt : Nat) (U : Nat → Nat → α) (oc ot ic it : List Nat)
    (h1 : oc.length = cs.length) (h2 : ot.length = nt) (h3 : ic.length = cs.length) (h4 : it.length = nt)
    (b1 : Bits oc) (b2 : Bits ot) (b3 : Bits ic) (b4 : Bits it) :
    ctrlMat cs (2 ^ nt) U (bitsVal (oc ++ ot)) (bitsVal (ic ++ it)) =
      if oc = ic then (if oc = cs.map bit then U (bitsVal ot) (bitsVal it) else (if bitsVal ot = bitsVal it then 1 else 0))
      else 0 := by
  have hd1 : bitsVal (oc ++ ot) / 2 ^ nt = bitsVal oc := by rw [← h2]; exact bitsVal_append_div oc ot b2
  have hd2 : bitsVal (ic ++ it) / 2 ^ nt = bitsVal ic := by rw [← h4]; exact bitsVal_append_div ic it b4
  have hm1 : bitsVal (oc ++ ot) % 2 ^ nt = bitsVal ot := by rw [← h2]; exact bitsVal_append_mod oc ot b2
  have hm2 : bitsVal (ic ++ it) % 2 ^ nt = bitsVal it := by rw [← h4]; exact bitsVal_append_mod ic it b4
  simp only [ctrlMat, hd1, hd2, hm1, hm2, ctrlIndex_eq]
  have e1 : bitsVal oc = bitsVal ic ↔ oc = ic :=
    ⟨bitsVal_inj oc ic (by omega) b1 b3, fun h => by rw [h]⟩
  have e2 : bitsVal oc = bitsVal (cs.map bit) ↔ oc = cs.map bit :=
    ⟨bitsVal_inj oc _ (by simp [h1]) b1 (bits_map_bit cs), fun h => by rw [h]⟩
  simp only [e1, e2]

end
end Qib.GateNet

namespace Qib.GateNet
open Qib.TNet
section
variable {α : Type} [CommSemiring α]

theorem ctgSem_cons (nt : Nat) (U : Nat → Nat → α) (a : Nat) (ot it : List Nat) (h2 : ot.length = nt) :
    ctgSem nt U (a :: (ot ++ it)) =
      if a = 0 then (if bitsVal ot = bitsVal it then 1 else 0) else U (bitsVal ot) (bitsVal it) := by
  simp only [ctgSem]
  rw [← h2, List.take_left', List.drop_left'] <;> rfl

/-- **the controlled-gate network denotes the controlled matrix**, for every number of controls ≥ 1, every control
pattern and every target -/
theorem ctrlTN_full (c0 : Bool) (rest : List Bool) (nt : Nat) (U : Nat → Nat → α) (oc ot ic it : List Nat)
    (h1 : oc.length = rest.length + 1) (h2 : ot.length = nt) (h3 : ic.length = rest.length + 1) (h4 : it.length = nt)
    (b1 : Bits oc) (b2 : Bits ot) (b3 : Bits ic) (b4 : Bits it) :
    full (ctrlTN c0 rest nt U).net (ctrlTN c0 rest nt U).D (oc ++ ot ++ (ic ++ it)) =
      ctrlMat (c0 :: rest) (2 ^ nt) U (bitsVal (oc ++ ot)) (bitsVal (ic ++ it)) := by
  rw [ctrlMat_bits (c0 :: rest) nt U oc ot ic it (by simpa using h1) h2 (by simpa using h3) h4 b1 b2 b3 b4]
  obtain ⟨a, oc', rfl⟩ : ∃ a oc', oc = a :: oc' := by
    cases oc with
    | nil => simp at h1
    | cons a l => exact ⟨a, l, rfl⟩
  obtain ⟨b, ic', rfl⟩ : ∃ b ic', ic = b :: ic' := by
    cases ic with
    | nil => simp at h3
    | cons a l => exact ⟨a, l, rfl⟩
  have ha : a < 2 := b1 a List.mem_cons_self
  have hb : b < 2 := b3 b List.mem_cons_self
  have hoc : ∀ x ∈ oc', x < 2 := fun x hx => b1 x (List.mem_cons_of_mem _ hx)
  have hic : ∀ x ∈ ic', x < 2 := fun x hx => b3 x (List.mem_cons_of_mem _ hx)
  have h1' : oc'.length = rest.length := by simpa using h1
  have h3' : ic'.length = rest.length := by simpa using h3
  have hfull : full (ctrlTN c0 rest nt U).net (ctrlTN c0 rest nt U).D ((a :: oc') ++ ot ++ ((b :: ic') ++ it)) =
      if a :: oc' = b :: ic' then
        (ctrlTN c0 rest nt U).D (some 0) ((if a :: oc' = (c0 :: rest).map bit then 1 else 0) :: (ot ++ it)) else 0 := by
    cases c0
    · exact ctrl_full_neg rest nt _ (fun c hc => ctrl_Dcross false rest nt U c hc) (ctrl_D1 rest nt U)
        a b oc' ot ic' it h1' h2 h3' h4 ha hb hoc hic
    · exact ctrl_full_pos rest nt _ (fun c hc => ctrl_Dcross true rest nt U c hc)
        a b oc' ot ic' it h1' h2 h3' h4 ha hoc hic
  rw [hfull]
  by_cases he : a :: oc' = b :: ic'
  · rw [if_pos he, if_pos he]
    have hrange : List.Forall₂ (fun i d => i < d)
        ((if a :: oc' = (c0 :: rest).map bit then 1 else 0) :: (ot ++ it)) (2 :: rep2 (2 * nt)) := by
      refine List.Forall₂.cons (by split <;> omega) ?_
      exact forall2_rep2' _ _ (by simp [h2, h4]; omega) (b2.append b4)
    rw [ctrl_D0 c0 rest nt U _ hrange, ctgSem_cons nt U _ ot it h2]
    by_cases hpat : a :: oc' = (c0 :: rest).map bit
    · rw [if_pos hpat, if_pos hpat]; simp
    · rw [if_neg hpat, if_neg hpat]; simp
  · rw [if_neg he, if_neg he]

end
end Qib.GateNet

namespace Qib.GateNet
open Qib.TNet
section
variable {α : Type} [CommSemiring α]

/-! ### the other families on the model's data -/

theorem D0_of_head (tn : TN α) (shape : List Nat) (sem : List Nat → α) (rest : List (Int × DT α))
    (h : tn.data = (0, DT.ofFn shape sem) :: rest) (idx : List Nat)
    (hr : List.Forall₂ (fun i d => i < d) idx shape) : tn.D (some 0) idx = sem idx := by
  rw [TN.D_of_lookup tn 0 (DT.ofFn shape sem) (by rw [h]; simp [List.lookup]), DT.get_ofFn _ _ _ hr]

theorem bitsVal_singleton (a : Nat) : bitsVal [a] = a := by simp [bitsVal]

theorem bitsVal_replicate_zero (n : Nat) : bitsVal (List.replicate n 0) = 0 := by
  induction n with
  | zero => rfl
  | succ n ih => rw [List.replicate_succ, bitsVal_cons, ih]; simp

theorem bits_replicate_zero (n : Nat) : Bits (List.replicate n 0) := by
  intro x hx; rw [List.mem_replicate] at hx; omega

/-- multiplexer: entries of `block_diag` at bit multi-indices -/
theorem blockDiag_bits (nt : Nat) (Us : List (Nat → Nat → α)) (oc ot ic it : List Nat)
    (h1 : oc.length = ic.length) (h2 : ot.length = nt) (h4 : it.length = nt)
    (b1 : Bits oc) (b2 : Bits ot) (b3 : Bits ic) (b4 : Bits it) :
    blockDiag (2 ^ nt) Us (bitsVal (oc ++ ot)) (bitsVal (ic ++ it)) =
      if oc = ic then pick Us (bitsVal oc) (bitsVal ot) (bitsVal it) else 0 := by
  have hd1 : bitsVal (oc ++ ot) / 2 ^ nt = bitsVal oc := by rw [← h2]; exact bitsVal_append_div oc ot b2
  have hd2 : bitsVal (ic ++ it) / 2 ^ nt = bitsVal ic := by rw [← h4]; exact bitsVal_append_div ic it b4
  have hm1 : bitsVal (oc ++ ot) % 2 ^ nt = bitsVal ot := by rw [← h2]; exact bitsVal_append_mod oc ot b2
  have hm2 : bitsVal (ic ++ it) % 2 ^ nt = bitsVal it := by rw [← h4]; exact bitsVal_append_mod ic it b4
  have e1 : bitsVal oc = bitsVal ic ↔ oc = ic := ⟨bitsVal_inj oc ic h1 b1 b3, fun h => by rw [h]⟩
  simp only [blockDiag, hd1, hd2, hm1, hm2, e1]

theorem mtgSem_bits (nc nt : Nat) (Us : List (Nat → Nat → α)) (oc ot it : List Nat)
    (h1 : oc.length = nc) (h2 : ot.length = nt) :
    mtgSem nc nt Us (oc ++ (ot ++ it)) = pick Us (bitsVal oc) (bitsVal ot) (bitsVal it) := by
  simp only [mtgSem]
  rw [← h1, List.take_left', List.drop_left', ← h2, List.take_left', List.drop_left'] <;> rfl

/-- phase-factor chain: product of `n` diagonal two-leg tensors -/
theorem phase_prod (un : α) (D : Option Int → List Nat → α)
    (hD : ∀ a b, a < 2 → b < 2 → D (some 0) [a, b] = phaseSem un [a, b]) :
    ∀ (o i : List Nat), o.length = i.length → Bits o → Bits i →
      prodL ((o.zip i).map (fun p => D (some 0) [p.1, p.2])) = if o = i then un ^ o.length else 0
  | [], [], _, _, _ => by simp [prodL_nil]
  | [], _ :: _, h, _, _ => by simp at h
  | _ :: _, [], h, _, _ => by simp at h
  | a :: o, b :: i, h, bo, bi => by
    have ih := phase_prod un D hD o i (by simpa using h) (fun x hx => bo x (List.mem_cons_of_mem _ hx))
      (fun x hx => bi x (List.mem_cons_of_mem _ hx))
    simp only [List.zip_cons_cons, List.map_cons, prodL_cons, ih,
      hD a b (bo a List.mem_cons_self) (bi b List.mem_cons_self), phaseSem, List.length_cons, List.cons.injEq]
    by_cases hab : a = b
    · by_cases hoi : o = i
      · simp [hab, hoi, pow_succ, mul_comm]
      · simp [hab, hoi]
    · simp [hab]

/-- preparation: product of the `|0⟩` vectors -/
theorem ket_prod (D : Option Int → List Nat → α) (hD : ∀ v, v < 2 → D (some 4) [v] = ket0Sem [v]) :
    ∀ (b : List Nat), Bits b → prodL (b.map (fun v => D (some 4) [v])) = if b = List.replicate b.length 0 then 1 else 0
  | [], _ => by simp [prodL_nil]
  | v :: b, hb => by
    have ih := ket_prod D hD b (fun x hx => hb x (List.mem_cons_of_mem _ hx))
    have hv : v < 2 := hb v List.mem_cons_self
    simp only [List.map_cons, prodL_cons, ih, hD v hv, List.length_cons, List.replicate_succ, List.cons.injEq]
    have hv2 : v = 0 ∨ v = 1 := by omega
    rcases hv2 with rfl | rfl
    · simp [ket0Sem]
    · simp [ket0Sem]

end
end Qib.GateNet

namespace Qib.GateNet
open Qib.TNet

theorem numOpen_of_virt (net : Net) (v : STensor) (h : dget net.tensors (-1) = some v) :
    numOpenAxes net = .ok v.shape.length ∧ netShape net = .ok v.shape := by
  simp [numOpenAxes, netShape, virt, h]

theorem crossTensors_dataref (off : Int) (nc : Nat) (i : Nat) (cs : List Bool) (e : Int × STensor)
    (he : e ∈ crossTensors off nc i cs) :
    e.2.tid ≠ -1 ∧ e.2.shape = [2, 2, 2, 2] ∧ ∃ c ∈ cs, e.2.dataref = some (if c then 3 else 2) := by
  induction cs generalizing i with
  | nil => simp [crossTensors] at he
  | cons c cs ih =>
    simp only [crossTensors, List.mem_cons] at he
    rcases he with rfl | he
    · exact ⟨by simp only [Int.ofNat_eq_natCast]; omega, rfl, c, List.mem_cons_self, rfl⟩
    · obtain ⟨h1, h2, c', hc', h3⟩ := ih (i + 1) he
      exact ⟨h1, h2, c', List.mem_cons_of_mem _ hc', h3⟩

end Qib.GateNet
