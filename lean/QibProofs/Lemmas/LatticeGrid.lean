import QibProofs.Lemmas.LatticeRadix
/-! Helper lemmas for C14: the `np.roll` pairing with boundary cut equals the nearest-neighbour relation of the
coordinates (any dimension). Also the specification vocabulary (`Step`, `GridNN`). -/
namespace Qib.Lattice

/-- Nearest neighbours along one axis of extent `n`: a unit step, or the wrap-around step `n-1 ↔ 0` if the axis is
periodic. A site is never its own neighbour: for extent 1 the wrap reaches the site itself (no neighbour), for
extent 2 the wrap reaches the same neighbour as the plain step (still one link). -/
def Step (n : Nat) (per : Bool) (x y : Nat) : Prop :=
  x ≠ y ∧ (x + 1 = y ∨ y + 1 = x ∨ (per = true ∧ ((x + 1 = n ∧ y = 0) ∨ (y + 1 = n ∧ x = 0))))

instance (n per x y) : Decidable (Step n per x y) := by unfold Step; infer_instance

theorem Step.symm {n per x y} (h : Step n per x y) : Step n per y x := by
  unfold Step at *; cases per <;> simp at h ⊢ <;> omega

theorem Step.irrefl {n per x} : ¬ Step n per x x := by
  unfold Step; simp

/-- coordinates `a`, `b` differ by a `Step` in exactly one axis -/
def GridNN (shape : List Nat) (pbc : List Bool) (a b : List Nat) : Prop :=
  ∃ d, d < shape.length ∧ Step (shape.getD d 1) (pbc.getD d false) (a.getD d 0) (b.getD d 0) ∧
    ∀ e, e ≠ d → a.getD e 0 = b.getD e 0

theorem GridNN.symm {shape pbc a b} (h : GridNN shape pbc a b) : GridNN shape pbc b a := by
  obtain ⟨d, hd, hs, he⟩ := h
  exact ⟨d, hd, hs.symm, fun e h => (he e h).symm⟩

theorem GridNN.irrefl {shape pbc a} : ¬ GridNN shape pbc a a := by
  rintro ⟨d, _, hs, _⟩; exact Step.irrefl hs

theorem rollSrc_plus {n k : Nat} (h : k < n) : rollSrc n true k = if k = 0 then n - 1 else k - 1 := by
  simp only [rollSrc, if_true]
  split
  · subst k; rw [Nat.zero_add, Nat.mod_eq_of_lt]; omega
  · rw [show k + n - 1 = (k - 1) + n by omega, Nat.add_mod_right, Nat.mod_eq_of_lt]; omega

theorem rollSrc_minus {n k : Nat} (h : k < n) : rollSrc n false k = if k + 1 = n then 0 else k + 1 := by
  simp only [rollSrc, Bool.false_eq_true, if_false]
  split
  · next h1 => rw [h1, Nat.mod_self]
  · rw [Nat.mod_eq_of_lt]; omega

theorem rollSrc_lt {n k : Nat} (plus : Bool) (h : k < n) : rollSrc n plus k < n := by
  cases plus
  · rw [rollSrc_minus h]; split <;> omega
  · rw [rollSrc_plus h]; split <;> omega

/-- the roll+cut pairing along one axis is exactly `Step` -/
theorem step_iff (n : Nat) (per : Bool) (x y : Nat) (hx : x < n) (hy : y < n) :
    (∃ plus : Bool, (if per = true then y ≠ x else keptByCut n plus x = true) ∧ y = rollSrc n plus x) ↔
      Step n per x y := by
  cases per
  · simp only [Bool.false_eq_true, if_false, Step, false_and, or_false]
    constructor
    · rintro ⟨plus, h1, h2⟩
      cases plus
      · rw [rollSrc_minus hx] at h2; simp [keptByCut] at h1; split at h2 <;> omega
      · rw [rollSrc_plus hx] at h2; simp [keptByCut] at h1; split at h2 <;> omega
    · rintro ⟨hne, h | h⟩
      · refine ⟨false, ?_, ?_⟩
        · simp [keptByCut]; omega
        · rw [rollSrc_minus hx]; split <;> omega
      · refine ⟨true, ?_, ?_⟩
        · simp [keptByCut]; omega
        · rw [rollSrc_plus hx]; split <;> omega
  · simp only [if_true, Step, true_and]
    constructor
    · rintro ⟨plus, h1, h2⟩
      cases plus
      · rw [rollSrc_minus hx] at h2; split at h2 <;> omega
      · rw [rollSrc_plus hx] at h2; split at h2 <;> omega
    · rintro ⟨hne, h⟩
      by_cases hm : x + 1 = y ∨ (x + 1 = n ∧ y = 0)
      · refine ⟨false, by omega, ?_⟩
        rw [rollSrc_minus hx]; split <;> omega
      · refine ⟨true, by omega, ?_⟩
        rw [rollSrc_plus hx]; split <;> omega

theorem getD_set_self {l : List Nat} {d v : Nat} (hd : d < l.length) : (l.set d v).getD d 0 = v := by
  simp [List.getD_eq_getElem?_getD, hd]

theorem getD_set_ne {l : List Nat} {d e v : Nat} (h : e ≠ d) : (l.set d v).getD e 0 = l.getD e 0 := by
  simp [List.getD_eq_getElem?_getD, Ne.symm h]

theorem eq_set_iff {a b : List Nat} {d v : Nat} (hl : a.length = b.length) (hd : d < a.length) :
    b = a.set d v ↔ b.getD d 0 = v ∧ ∀ e, e ≠ d → a.getD e 0 = b.getD e 0 := by
  constructor
  · rintro rfl
    exact ⟨getD_set_self hd, fun e he => (getD_set_ne he).symm⟩
  · rintro ⟨h1, h2⟩
    apply List.ext_getElem
    · simp [hl]
    · intro e he1 he2
      by_cases hed : e = d
      · subst hed
        have := h1
        rw [List.getD_eq_getElem?_getD, List.getElem?_eq_getElem he1] at this
        simp at this
        simp [this]
      · have := h2 e hed
        have he3 : e < a.length := by simpa using he2
        rw [List.getD_eq_getElem?_getD, List.getD_eq_getElem?_getD, List.getElem?_eq_getElem he1,
          List.getElem?_eq_getElem he3] at this
        simp at this
        simp [Ne.symm hed, this]

/-- one `rollPair` along axis `d`: `j` is `i` with digit `d` replaced by the rolled digit -/
theorem rollPair_iff (shape : List Nat) (d : Nat) (per plus : Bool) (i j : Nat)
    (hi : i < sprod shape) (hj : j < sprod shape) (hd : d < shape.length) :
    rollPair (shape.getD d 1) (stride shape d) per plus i j = true ↔
      (if per = true then i ≠ j else keptByCut (shape.getD d 1) plus ((unravel shape i).getD d 0) = true) ∧
      unravel shape j = (unravel shape i).set d (rollSrc (shape.getD d 1) plus ((unravel shape i).getD d 0)) := by
  have hx := unravel_getD shape i d hi hd
  have hvi := validCoord_unravel shape i hi
  have hxl : (unravel shape i).getD d 0 < shape.getD d 1 := validCoord_getD_lt hvi hd
  have hk' := rollSrc_lt plus hxl
  have hset := ravel_set shape (unravel shape i) d (rollSrc (shape.getD d 1) plus ((unravel shape i).getD d 0))
    (unravel_length _ _) hd
  rw [ravel_unravel shape i hi] at hset
  have hv' := validCoord_set hvi hk' hd
  simp only [rollPair, Bool.and_eq_true, beq_iff_eq, ← hx]
  have hcond : ((if per = true then i != j else keptByCut (shape.getD d 1) plus ((unravel shape i).getD d 0)) = true) ↔
      (if per = true then i ≠ j else keptByCut (shape.getD d 1) plus ((unravel shape i).getD d 0) = true) := by
    cases per <;> simp
  rw [hcond]
  refine and_congr_right fun _ => ?_
  constructor
  · intro h
    have : j = ravel shape ((unravel shape i).set d (rollSrc (shape.getD d 1) plus ((unravel shape i).getD d 0))) := by
      omega
    rw [this, unravel_ravel hv']
  · intro h
    have : j = ravel shape ((unravel shape i).set d (rollSrc (shape.getD d 1) plus ((unravel shape i).getD d 0))) := by
      rw [← h, ravel_unravel shape j hj]
    omega

theorem list_ext_getD {a b : List Nat} (hl : a.length = b.length) (h : ∀ e, a.getD e 0 = b.getD e 0) : a = b := by
  apply List.ext_getElem hl
  intro e h1 h2
  have := h e
  rw [List.getD_eq_getElem?_getD, List.getD_eq_getElem?_getD, List.getElem?_eq_getElem h1,
    List.getElem?_eq_getElem h2] at this
  simpa using this

theorem ne_iff_digit_ne {shape : List Nat} {i j d : Nat} (hi : i < sprod shape) (hj : j < sprod shape)
    (ho : ∀ e, e ≠ d → (unravel shape i).getD e 0 = (unravel shape j).getD e 0) :
    i ≠ j ↔ (unravel shape j).getD d 0 ≠ (unravel shape i).getD d 0 := by
  constructor
  · intro h e
    apply h
    apply unravel_injective hi hj
    apply list_ext_getD (by simp [unravel_length])
    intro k
    by_cases hk : k = d
    · subst hk; exact e.symm
    · exact ho k hk
  · intro h e
    apply h
    rw [e]

/-- both shifts along axis `d` -/
theorem axisAdj_iff (shape : List Nat) (pbc : List Bool) (d i j : Nat)
    (hi : i < sprod shape) (hj : j < sprod shape) (hd : d < shape.length) :
    axisAdj shape pbc d i j = true ↔
      Step (shape.getD d 1) (pbc.getD d false) ((unravel shape i).getD d 0) ((unravel shape j).getD d 0) ∧
      ∀ e, e ≠ d → (unravel shape i).getD e 0 = (unravel shape j).getD e 0 := by
  have hli : (unravel shape i).length = (unravel shape j).length := by simp [unravel_length]
  have hdi : d < (unravel shape i).length := by simpa [unravel_length] using hd
  have hxl := validCoord_getD_lt (validCoord_unravel shape i hi) hd
  have hyl := validCoord_getD_lt (validCoord_unravel shape j hj) hd
  rw [← step_iff _ _ _ _ hxl hyl]
  simp only [axisAdj, Bool.or_eq_true]
  rw [show sprod (shape.drop (d + 1)) = stride shape d from rfl]
  rw [rollPair_iff shape d _ false i j hi hj hd, rollPair_iff shape d _ true i j hi hj hd,
    eq_set_iff hli hdi, eq_set_iff hli hdi]
  generalize pbc.getD d false = per
  constructor
  · rintro (⟨h1, h2, h3⟩ | ⟨h1, h2, h3⟩)
    · refine ⟨⟨false, ?_, h2⟩, h3⟩
      cases per
      · simpa using h1
      · simp only [if_true] at h1 ⊢; exact (ne_iff_digit_ne hi hj h3).mp h1
    · refine ⟨⟨true, ?_, h2⟩, h3⟩
      cases per
      · simpa using h1
      · simp only [if_true] at h1 ⊢; exact (ne_iff_digit_ne hi hj h3).mp h1
  · rintro ⟨⟨plus, h1, h2⟩, h3⟩
    have h1' : if per = true then i ≠ j else keptByCut (shape.getD d 1) plus ((unravel shape i).getD d 0) = true := by
      cases per
      · simpa using h1
      · simp only [if_true] at h1 ⊢; exact (ne_iff_digit_ne hi hj h3).mpr h1
    cases plus
    · exact Or.inl ⟨h1', h2, h3⟩
    · exact Or.inr ⟨h1', h2, h3⟩

/-- `IntegerLattice.adjacency_matrix` = nearest-neighbour relation of the coordinates -/
theorem gridAdj_iff (shape : List Nat) (pbc : List Bool) (i j : Nat) :
    gridAdj shape pbc i j = true ↔
      i < sprod shape ∧ j < sprod shape ∧ GridNN shape pbc (unravel shape i) (unravel shape j) := by
  simp only [gridAdj, Bool.and_eq_true, decide_eq_true_eq, List.any_eq_true, List.mem_range, GridNN]
  constructor
  · rintro ⟨⟨hi, hj⟩, d, hd, h⟩
    exact ⟨hi, hj, d, hd, (axisAdj_iff shape pbc d i j hi hj hd).mp h⟩
  · rintro ⟨hi, hj, d, hd, h⟩
    exact ⟨⟨hi, hj⟩, d, hd, (axisAdj_iff shape pbc d i j hi hj hd).mpr h⟩

/-! ### the pairing without the self-pair test (odd-face-centred lattice) -/

/-- no periodic axis has extent 1 (the odd-face-centred constructor guarantees it: periodic axes are even) -/
def NoTrivialWrap (shape : List Nat) (pbc : List Bool) : Prop :=
  ∀ d, d < shape.length → pbc.getD d false = true → shape.getD d 1 ≠ 1

theorem rollSrc_ne {n k : Nat} (plus : Bool) (hk : k < n) (hn : n ≠ 1) : rollSrc n plus k ≠ k := by
  cases plus
  · rw [rollSrc_minus hk]; split <;> omega
  · rw [rollSrc_plus hk]; split <;> omega

/-- without a periodic axis of extent 1 the wrap never pairs a site with itself, so the `i != j` test is redundant -/
theorem rollPairRaw_eq (n B : Nat) (per plus : Bool) (i j : Nat) (hn : per = true → n ≠ 1) (hn0 : 0 < n) (hB : 0 < B) :
    rollPairRaw n B per plus i j = rollPair n B per plus i j := by
  unfold rollPairRaw rollPair
  cases per
  · rfl
  · simp only [if_true, Bool.true_and]
    have hk : (i / B) % n < n := Nat.mod_lt _ hn0
    have hne := rollSrc_ne plus hk (hn rfl)
    by_cases he : j + (i / B) % n * B = i + rollSrc n plus ((i / B) % n) * B
    · have hij : i ≠ j := by
        intro e
        subst e
        apply hne
        have : (i / B) % n * B = rollSrc n plus ((i / B) % n) * B := by omega
        exact (Nat.eq_of_mul_eq_mul_right hB this).symm
      simp [he, hij]
    · simp [he]

theorem gridAdjRaw_eq (shape : List Nat) (pbc : List Bool) (i j : Nat) (h : NoTrivialWrap shape pbc) :
    gridAdjRaw shape pbc i j = gridAdj shape pbc i j := by
  unfold gridAdjRaw gridAdj axisAdj
  by_cases hi : i < sprod shape
  · congr 1
    apply Bool.eq_iff_iff.mpr
    simp only [List.any_eq_true, List.mem_range]
    refine exists_congr fun d => and_congr_right fun hd => ?_
    have hs := sprod_split shape d hd
    have hpos : 0 < shape.getD d 1 * stride shape d := by
      rcases Nat.eq_zero_or_pos (shape.getD d 1 * stride shape d) with h0 | h0
      · rw [h0] at hs; simp at hs; omega
      · exact h0
    have hn0 : 0 < shape.getD d 1 := Nat.pos_of_mul_pos_right hpos
    have hB : 0 < sprod (shape.drop (d + 1)) := Nat.pos_of_mul_pos_left hpos
    simp only [rollPairRaw_eq _ _ _ _ i j (h d hd) hn0 hB]
  · simp [hi]

end Qib.Lattice
