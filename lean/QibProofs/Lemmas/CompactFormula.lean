import QibProofs.Lemmas.CompactMat
import Mathlib.Tactic.Module
/-!
C13 helper lemmas, part 11: the matrix of the encoded operator is the Derby–Klassen image of the fermionic operator,
`Σᵢ cᵢᵢ·(1 − Vᵢ)/2 + Σ_{i<j} c_ij·(i/2)·(E_ij V_j − E_ij V_i)`, term by term; and the encoder accepts every admissible
input (totality), where adjacency of the hopping pairs is the C14 nearest-neighbour relation of the integer lattice.
-/
set_option linter.unusedSimpArgs false
open Complex Matrix
namespace Qib.Compact
open Qib.Pauli Qib.Lattice

/-! ### adjacency of the fermionic lattice ⇒ edge of the rectangle -/

theorem gridAdj_edgeOk {n0 n1 i j : Nat} (h : gridAdj [n0, n1] [false, false] i j = true) :
    EdgeOk n0 n1 (i / n1) (i % n1) (j / n1) (j % n1) := by
  obtain ⟨hi, hj, d, hd, hs, he⟩ := (gridAdj_iff _ _ _ _).mp h
  have hs2 : sprod [n0, n1] = n0 * n1 := by simp [sprod]
  rw [hs2] at hi hj
  obtain ⟨a1, a2⟩ := div_mod_lt hi
  obtain ⟨b1, b2⟩ := div_mod_lt hj
  rw [unravel_two, unravel_two] at hs he
  simp only [List.length_cons, List.length_nil] at hd
  refine ⟨a1, a2, b1, b2, ?_⟩
  unfold NN
  have hd' : d = 0 ∨ d = 1 := by omega
  rcases hd' with rfl | rfl
  · have e1 := he 1 (by omega)
    simp only [Step, List.getD_cons_zero, List.getD_cons_succ, Bool.false_eq_true, false_and, or_false] at hs e1
    right; omega
  · have e0 := he 0 (by omega)
    simp only [Step, List.getD_cons_zero, List.getD_cons_succ, Bool.false_eq_true, false_and, or_false] at hs e0
    left; omega

theorem edgeOk_gridAdj {n0 n1 i j : Nat} (hi : i < n0 * n1) (hj : j < n0 * n1)
    (h : EdgeOk n0 n1 (i / n1) (i % n1) (j / n1) (j % n1)) : gridAdj [n0, n1] [false, false] i j = true := by
  have hs2 : sprod [n0, n1] = n0 * n1 := by simp [sprod]
  obtain ⟨-, -, -, -, hnn⟩ := h
  unfold NN at hnn
  rw [gridAdj_iff, hs2, unravel_two, unravel_two]
  refine ⟨hi, hj, ?_⟩
  rcases hnn with ⟨e, hs⟩ | ⟨e, hs⟩
  · refine ⟨1, by simp, ?_, ?_⟩
    · simp only [Step, List.getD_cons_zero, List.getD_cons_succ, Bool.false_eq_true, false_and, or_false]; omega
    · intro e' he'
      rcases e' with _ | _ | e'
      · simpa using e
      · exact absurd rfl he'
      · simp
  · refine ⟨0, by simp, ?_, ?_⟩
    · simp only [Step, List.getD_cons_zero, List.getD_cons_succ, Bool.false_eq_true, false_and, or_false]; omega
    · intro e' he'
      rcases e' with _ | _ | e'
      · exact absurd rfl he'
      · simpa using e
      · simp

/-! ### the matrix of the encoded operator -/

theorem foldlM_measure {α β ε M : Type} [AddCommMonoid M] (f : β → α → Except ε β) (μ : β → M) (g : α → M)
    (hf : ∀ b a b', f b a = .ok b' → μ b' = μ b + g a) :
    ∀ (l : List α) (b b' : β), l.foldlM f b = .ok b' → μ b' = μ b + (l.map g).sum := by
  intro l
  induction l with
  | nil => intro b b' h; simp only [List.foldlM_nil, pure, Except.pure] at h; cases h; simp
  | cons a l ih =>
    intro b b' h
    simp only [List.foldlM_cons, bind, Except.bind] at h
    cases hfa : f b a with
    | error e => rw [hfa] at h; cases h
    | ok b1 =>
      rw [hfa] at h
      rw [ih b1 b' h, hf b a b1 hfa, List.map_cons, List.sum_cons, add_assoc]

abbrev CMat (n0 n1 : ℕ) := Matrix (Fin (ofcNsites n0 n1) → Bool) (Fin (ofcNsites n0 n1) → Bool) ℂ

/-- matrix of the vertex operator of fermionic site `i` (C order) -/
noncomputable def Vm (n0 n1 i : ℕ) : CMat n0 n1 := (vertexStr n0 n1 (i / n1) (i % n1)).mat (ofcNsites n0 n1)
/-- matrix of the edge operator `E_ij` of the fermionic sites `i`, `j` -/
noncomputable def Em (n0 n1 i j : ℕ) : CMat n0 n1 :=
  (edgeStr n0 n1 (i / n1) (i % n1) (j / n1) (j % n1)).mat (ofcNsites n0 n1)

/-- image of `c_ii a†_i a_i`: `c_ii (1 − V_i)/2` -/
noncomputable def onsiteMat (n0 n1 : ℕ) (c : List (List Rat)) (i : ℕ) : CMat n0 n1 :=
  ((cget c i i : ℚ) : ℂ) • ((1 / 2 : ℂ) • (1 - Vm n0 n1 i))
/-- image of `c_ij (a†_i a_j + a†_j a_i)`: `c_ij (i/2)(E_ij V_j − E_ij V_i)` -/
noncomputable def hopMat (n0 n1 : ℕ) (c : List (List Rat)) (ij : ℕ × ℕ) : CMat n0 n1 :=
  ((cget c ij.1 ij.2 : ℚ) : ℂ) • ((I / 2) • (Em n0 n1 ij.1 ij.2 * Vm n0 n1 ij.2 - Em n0 n1 ij.1 ij.2 * Vm n0 n1 ij.1))
/-- image of one quadratic term with coefficient matrix `c` -/
noncomputable def termMat (n0 n1 : ℕ) (c : List (List Rat)) : CMat n0 n1 :=
  ((List.range (n0 * n1)).map (onsiteMat n0 n1 c)).sum + ((pairs (n0 * n1)).map (hopMat n0 n1 c)).sum

theorem toC_realW (r : Rat) : (realW r).toC = (r : ℂ) := by simp [GQ.toC, realW]
theorem toC_imagW (r : Rat) : (imagW r).toC = (r : ℂ) * I := by simp [GQ.toC, imagW]

theorem mat_add (n : ℕ) (op : PauliOp GQ) (P : PS) (w : GQ) :
    PauliOp.mat GQ.toC n (op.add P w) = PauliOp.mat GQ.toC n op + w.toC • P.mat n :=
  PauliOp.add_matG (PS.mat n) GQ.toC GQ.toC_add op P w

theorem onsiteStep_mat (n0 n1 : ℕ) (c : List (List Rat)) (st st' : PauliOp GQ × Rat) (i : ℕ)
    (hs : onsiteStep n0 n1 c st i = .ok st') :
    PauliOp.mat GQ.toC (ofcNsites n0 n1) st'.1 + ((st'.2 : ℚ) : ℂ) • (1 : CMat n0 n1) =
      (PauliOp.mat GQ.toC (ofcNsites n0 n1) st.1 + ((st.2 : ℚ) : ℂ) • (1 : CMat n0 n1)) + onsiteMat n0 n1 c i := by
  unfold onsiteStep at hs
  by_cases hb : ∃ x y : Nat, (((i / n1 : Nat) : Int), ((i % n1 : Nat) : Int)) = ((x : Int), (y : Int)) ∧ x < n0 ∧ y < n1
  · obtain ⟨x, y, e, hx, hy⟩ := hb
    simp only [Prod.mk.injEq, Int.natCast_inj] at e
    obtain ⟨e1, e2⟩ := e
    rw [vertexOp_ok (e1 ▸ hx) (e2 ▸ hy)] at hs
    simp only [bind, Except.bind, pure, Except.pure] at hs
    cases hs
    simp only [mat_add, toC_realW, onsiteMat, Vm]
    push_cast
    simp only [smul_sub, add_smul, smul_smul]
    module
  · rw [vertexOp_err _ _ _ hb] at hs
    simp only [bind, Except.bind] at hs
    cases hs

theorem hopStep_mat (n0 n1 : ℕ) (c : List (List Rat)) (op op' : PauliOp GQ) (ij : ℕ × ℕ)
    (hs : hopStep n0 n1 c op ij = .ok op') :
    PauliOp.mat GQ.toC (ofcNsites n0 n1) op' = PauliOp.mat GQ.toC (ofcNsites n0 n1) op + hopMat n0 n1 c ij := by
  unfold hopStep at hs
  simp only [bind, Except.bind, pure, Except.pure] at hs
  by_cases h0 : (cget c ij.1 ij.2 == 0) = true
  · rw [if_pos h0] at hs; cases hs
    have : cget c ij.1 ij.2 = 0 := by simpa using h0
    simp [hopMat, this]
  · rw [if_neg h0] at hs
    by_cases hadj : (!gridAdj [n0, n1] [false, false] ij.1 ij.2) = true
    · rw [if_pos hadj] at hs
      simp only [throw, throwThe, MonadExceptOf.throw] at hs
      cases hs
    · rw [if_neg hadj] at hs
      cases hE : edgeOp n0 n1 (((ij.1 / n1 : Nat) : Int), ((ij.1 % n1 : Nat) : Int))
          (((ij.2 / n1 : Nat) : Int), ((ij.2 % n1 : Nat) : Int)) with
      | error e => rw [hE] at hs; cases hs
      | ok E =>
        rw [hE] at hs
        obtain ⟨ix, iy, jx, jy, e1, e2, hok, rfl⟩ := edgeOp_ok_imp _ _ _ _ _ hE
        simp only [Prod.mk.injEq, Int.natCast_inj] at e1 e2
        obtain ⟨e1a, e1b⟩ := e1
        obtain ⟨e2a, e2b⟩ := e2
        have lE := edgeStr_hasLen hok
        have lVi := vertexStr_hasLen n0 n1 ix iy
        have lVj := vertexStr_hasLen n0 n1 jx jy
        obtain ⟨h1, h2, h3, h4, hnn⟩ := hok
        rw [e1a, e1b, e2a, e2b, vertexOp_ok h1 h2, vertexOp_ok h3 h4] at hs
        simp only [mulE_ok _ _ _ lE lVi, mulE_ok _ _ _ lE lVj, liftP] at hs
        cases hs
        simp only [mat_add, toC_imagW, hopMat, Em, Vm, e1a, e1b, e2a, e2b, mat_mul _ _ _ lE lVi, mat_mul _ _ _ lE lVj]
        push_cast
        simp only [smul_sub, smul_smul]
        module

/-- one term: the matrix grows by the Derby–Klassen image of the term -/
theorem encodeTerm_mat (n0 n1 : ℕ) (op op' : PauliOp GQ) (t : Term) (hs : encodeTerm n0 n1 op t = .ok op') :
    PauliOp.mat GQ.toC (ofcNsites n0 n1) op' = PauliOp.mat GQ.toC (ofcNsites n0 n1) op + termMat n0 n1 t.coeffs := by
  unfold encodeTerm at hs
  cases h1 : t.hop <;> cases h2 : t.isFloat <;> cases h3 : allcloseT (n0 * n1) t.coeffs <;>
    simp only [h1, h2, h3, bind, Except.bind, throw, throwThe, MonadExceptOf.throw, Bool.not_true, Bool.not_false,
      if_true, if_false, Bool.false_eq_true, pure, Except.pure, reduceCtorEq] at hs
  cases hf : List.foldlM (onsiteStep n0 n1 t.coeffs) (op, (0 : Rat)) (List.range (n0 * n1)) with
  | error e => rw [hf] at hs; cases hs
  | ok st =>
    rw [hf] at hs
    have m1 := foldlM_measure (onsiteStep n0 n1 t.coeffs)
      (fun st => PauliOp.mat GQ.toC (ofcNsites n0 n1) st.1 + ((st.2 : ℚ) : ℂ) • (1 : CMat n0 n1))
      (onsiteMat n0 n1 t.coeffs) (fun b a b' h => onsiteStep_mat n0 n1 t.coeffs b b' a h) _ _ _ hf
    have m2 := foldlM_measure (hopStep n0 n1 t.coeffs) (fun op => PauliOp.mat GQ.toC (ofcNsites n0 n1) op)
      (hopMat n0 n1 t.coeffs) (fun b a b' h => hopStep_mat n0 n1 t.coeffs b b' a h) _ _ _ hs
    simp only at m1 m2
    rw [m2, mat_add, toC_realW, identity_mat, m1, termMat]
    simp only [Rat.cast_zero, zero_smul, add_zero, add_assoc]

/-- **the matrix of the encoded operator is the sum of the Derby–Klassen images of its terms** -/
theorem encode_mat (inp : Input) (op : PauliOp GQ) (n : ℕ) (hs : encode inp = .ok (op, n)) :
    ∃ n0 n1, inp.shape = [n0, n1] ∧ n = ofcNsites n0 n1 ∧
      PauliOp.mat GQ.toC (ofcNsites n0 n1) op = (inp.terms.map fun t => termMat n0 n1 t.coeffs).sum := by
  unfold encode at hs
  by_cases c1 : (inp.nfields != 1 || !inp.fermion) = true
  · simp only [c1, if_true, bind, Except.bind, throw, throwThe, MonadExceptOf.throw, reduceCtorEq] at hs
  · by_cases c2 : (!inp.integerLattice) = true
    · simp only [c1, c2, if_true, if_false, bind, Except.bind, throw, throwThe, MonadExceptOf.throw, pure, Except.pure,
        reduceCtorEq, Bool.false_eq_true] at hs
    · simp only [c1, c2, if_false, bind, Except.bind, pure, Except.pure, Bool.false_eq_true] at hs
      split at hs
      · rename_i n0 n1 hshape
        by_cases c3 : inp.pbc.any id = true
        · simp only [c3, if_true, throw, throwThe, MonadExceptOf.throw, reduceCtorEq] at hs
        · simp only [c3, if_false, Bool.false_eq_true] at hs
          cases hf : List.foldlM (encodeTerm n0 n1) [] inp.terms with
          | error e => rw [hf] at hs; cases hs
          | ok op1 =>
            rw [hf] at hs
            simp only [Except.ok.injEq, Prod.mk.injEq] at hs
            obtain ⟨rfl, rfl⟩ := hs
            refine ⟨n0, n1, hshape, rfl, ?_⟩
            have m := foldlM_measure (encodeTerm n0 n1) (fun op => PauliOp.mat GQ.toC (ofcNsites n0 n1) op)
              (fun t => termMat n0 n1 t.coeffs) (fun b a b' h => encodeTerm_mat n0 n1 b b' a h) _ _ _ hf
            rw [m]
            simp [PauliOp.mat, PauliOp.matG]
      · simp only [throw, throwThe, MonadExceptOf.throw, reduceCtorEq] at hs

/-! ### totality: every admissible input is accepted, and only those -/

/-- one term the encoder accepts: creation–annihilation pattern, float64 coefficients, symmetric up to `np.allclose`,
non-zero off-diagonal entries (upper triangle) only between nearest neighbours of the integer lattice -/
def TermOk (n0 n1 : ℕ) (t : Term) : Prop :=
  t.hop = true ∧ t.isFloat = true ∧ allcloseT (n0 * n1) t.coeffs = true ∧
    ∀ i j, i < j → j < n0 * n1 → cget t.coeffs i j ≠ 0 → gridAdj [n0, n1] [false, false] i j = true

/-- an input the encoder accepts: one fermionic field on an open two-dimensional integer lattice, admissible terms -/
def Admissible (inp : Input) (n0 n1 : ℕ) : Prop :=
  inp.nfields = 1 ∧ inp.fermion = true ∧ inp.integerLattice = true ∧ inp.shape = [n0, n1] ∧ inp.pbc.any id = false ∧
    ∀ t ∈ inp.terms, TermOk n0 n1 t

theorem foldlM_total {α β ε : Type} (f : β → α → Except ε β) (l : List α)
    (hf : ∀ b a, a ∈ l → ∃ b', f b a = .ok b') : ∀ b, ∃ b', l.foldlM f b = .ok b' := by
  induction l with
  | nil => intro b; exact ⟨b, rfl⟩
  | cons a l ih =>
    intro b
    obtain ⟨b1, h1⟩ := hf b a (by simp)
    obtain ⟨b2, h2⟩ := ih (fun b a' ha' => hf b a' (by simp [ha'])) b1
    exact ⟨b2, by simp only [List.foldlM_cons, bind, Except.bind, h1, h2]⟩

theorem foldlM_ok_mem {α β ε : Type} (f : β → α → Except ε β) (l : List α) (b b' : β) (h : l.foldlM f b = .ok b') :
    ∀ a ∈ l, ∃ b1 b2, f b1 a = .ok b2 := by
  induction l generalizing b with
  | nil => intro a ha; cases ha
  | cons a0 l ih =>
    simp only [List.foldlM_cons, bind, Except.bind] at h
    cases hfa : f b a0 with
    | error e => rw [hfa] at h; cases h
    | ok b1 =>
      rw [hfa] at h
      intro a ha
      rcases List.mem_cons.mp ha with rfl | ha
      · exact ⟨b, b1, hfa⟩
      · exact ih b1 h a ha

theorem mem_pairs (L i j : ℕ) : (i, j) ∈ pairs L ↔ i < j ∧ j < L := by
  simp only [pairs, List.mem_flatMap, List.mem_range, List.mem_map, List.mem_filter, decide_eq_true_eq, Prod.mk.injEq]
  constructor
  · rintro ⟨a, ha, b, ⟨hb, hab⟩, rfl, rfl⟩; exact ⟨hab, hb⟩
  · rintro ⟨h1, h2⟩; exact ⟨i, by omega, j, ⟨h2, h1⟩, rfl, rfl⟩

theorem onsiteStep_total (n0 n1 : ℕ) (c : List (List Rat)) (st : PauliOp GQ × Rat) (i : ℕ) (hi : i < n0 * n1) :
    ∃ st', onsiteStep n0 n1 c st i = .ok st' := by
  obtain ⟨a1, a2⟩ := div_mod_lt hi
  unfold onsiteStep
  rw [vertexOp_ok a1 a2]
  exact ⟨_, rfl⟩

theorem hopStep_total (n0 n1 : ℕ) (c : List (List Rat)) (op : PauliOp GQ) (i j : ℕ) (hi : i < n0 * n1) (hj : j < n0 * n1)
    (h : cget c i j ≠ 0 → gridAdj [n0, n1] [false, false] i j = true) : ∃ op', hopStep n0 n1 c op (i, j) = .ok op' := by
  unfold hopStep
  simp only [bind, Except.bind, pure, Except.pure]
  by_cases h0 : (cget c i j == 0) = true
  · rw [if_pos h0]; exact ⟨_, rfl⟩
  · rw [if_neg h0]
    have hadj := h (by simpa using h0)
    have hok := gridAdj_edgeOk hadj
    obtain ⟨a1, a2⟩ := div_mod_lt hi
    obtain ⟨b1, b2⟩ := div_mod_lt hj
    have lE := edgeStr_hasLen hok
    simp only [hadj, Bool.not_true, Bool.false_eq_true, if_false, edgeOp_ok hok, vertexOp_ok a1 a2, vertexOp_ok b1 b2,
      mulE_ok _ _ _ lE (vertexStr_hasLen n0 n1 _ _), liftP]
    exact ⟨_, rfl⟩

theorem hopStep_ok_adj (n0 n1 : ℕ) (c : List (List Rat)) (op op' : PauliOp GQ) (i j : ℕ)
    (hs : hopStep n0 n1 c op (i, j) = .ok op') (hc : cget c i j ≠ 0) : gridAdj [n0, n1] [false, false] i j = true := by
  unfold hopStep at hs
  simp only [bind, Except.bind, pure, Except.pure] at hs
  have h0 : ¬ (cget c i j == 0) = true := by simpa using hc
  rw [if_neg h0] at hs
  by_contra hadj
  have : (!gridAdj [n0, n1] [false, false] i j) = true := by simpa using hadj
  rw [if_pos this] at hs
  simp only [throw, throwThe, MonadExceptOf.throw] at hs
  cases hs

theorem encodeTerm_total (n0 n1 : ℕ) (op : PauliOp GQ) (t : Term) (h : TermOk n0 n1 t) :
    ∃ op', encodeTerm n0 n1 op t = .ok op' := by
  obtain ⟨h1, h2, h3, h4⟩ := h
  unfold encodeTerm
  simp only [h1, h2, h3, bind, Except.bind, Bool.not_true, Bool.false_eq_true, if_false, pure, Except.pure]
  obtain ⟨st, hst⟩ := foldlM_total (onsiteStep n0 n1 t.coeffs) (List.range (n0 * n1))
    (fun b a ha => onsiteStep_total n0 n1 t.coeffs b a (List.mem_range.mp ha)) (op, 0)
  rw [hst]
  exact foldlM_total (hopStep n0 n1 t.coeffs) (pairs (n0 * n1))
    (fun b a ha => by
      obtain ⟨i, j⟩ := a
      obtain ⟨hij, hj⟩ := (mem_pairs _ _ _).mp ha
      exact hopStep_total n0 n1 t.coeffs b i j (by omega) hj (h4 i j hij hj)) _

theorem encodeTerm_ok_termOk (n0 n1 : ℕ) (op op' : PauliOp GQ) (t : Term) (hs : encodeTerm n0 n1 op t = .ok op') :
    TermOk n0 n1 t := by
  unfold encodeTerm at hs
  cases h1 : t.hop <;> cases h2 : t.isFloat <;> cases h3 : allcloseT (n0 * n1) t.coeffs <;>
    simp only [h1, h2, h3, bind, Except.bind, throw, throwThe, MonadExceptOf.throw, Bool.not_true, Bool.not_false,
      if_true, if_false, Bool.false_eq_true, pure, Except.pure, reduceCtorEq] at hs
  cases hf : List.foldlM (onsiteStep n0 n1 t.coeffs) (op, (0 : Rat)) (List.range (n0 * n1)) with
  | error e => rw [hf] at hs; cases hs
  | ok st =>
    rw [hf] at hs
    refine ⟨h1, h2, h3, fun i j hij hj hc => ?_⟩
    obtain ⟨b1, b2, hb⟩ := foldlM_ok_mem _ _ _ _ hs (i, j) ((mem_pairs _ _ _).mpr ⟨hij, hj⟩)
    exact hopStep_ok_adj n0 n1 t.coeffs b1 b2 i j hb hc

/-- an exactly symmetric coefficient matrix passes the `np.allclose(c, c.T)` test -/
theorem allcloseT_of_symm (L : ℕ) (c : List (List Rat)) (h : ∀ i j, i < L → j < L → cget c i j = cget c j i) :
    allcloseT L c = true := by
  unfold allcloseT
  simp only [List.all_eq_true, List.mem_range, decide_eq_true_eq]
  intro i hi j hj
  rw [h i j hi hj, Rat.sub_self, Rat.abs_zero]
  have h1 : (0 : Rat) ≤ atol := by decide +kernel
  have h2 : (0 : Rat) ≤ rtol := by decide +kernel
  have h3 : (0 : Rat) ≤ (cget c j i).abs := Rat.abs_nonneg
  positivity

/-- **the encoder accepts exactly the admissible inputs** -/
theorem encode_ok_iff (inp : Input) (n0 n1 : ℕ) :
    (∃ op, encode inp = .ok (op, ofcNsites n0 n1) ∧ inp.shape = [n0, n1]) ↔ Admissible inp n0 n1 := by
  constructor
  · rintro ⟨op, hs, hshape⟩
    unfold encode at hs
    by_cases c1 : (inp.nfields != 1 || !inp.fermion) = true
    · simp only [c1, if_true, bind, Except.bind, throw, throwThe, MonadExceptOf.throw, reduceCtorEq] at hs
    · by_cases c2 : (!inp.integerLattice) = true
      · simp only [c1, c2, if_true, if_false, bind, Except.bind, throw, throwThe, MonadExceptOf.throw, pure, Except.pure,
          reduceCtorEq, Bool.false_eq_true] at hs
      · simp only [c1, c2, if_false, bind, Except.bind, pure, Except.pure, Bool.false_eq_true, hshape] at hs
        by_cases c3 : inp.pbc.any id = true
        · simp only [c3, if_true, throw, throwThe, MonadExceptOf.throw, reduceCtorEq] at hs
        · simp only [c3, if_false, Bool.false_eq_true] at hs
          cases hf : List.foldlM (encodeTerm n0 n1) [] inp.terms with
          | error e => rw [hf] at hs; cases hs
          | ok op1 =>
            simp only [Bool.or_eq_true, bne_iff_ne, ne_eq, Bool.not_eq_eq_eq_not, Bool.not_true, not_or, Decidable.not_not,
              Bool.not_eq_false] at c1 c2
            refine ⟨c1.1, c1.2, by simpa using c2, hshape, by simpa using c3, fun t ht => ?_⟩
            obtain ⟨b1, b2, hb⟩ := foldlM_ok_mem _ _ _ _ hf t ht
            exact encodeTerm_ok_termOk n0 n1 b1 b2 t hb
  · rintro ⟨h1, h2, h3, h4, h5, h6⟩
    obtain ⟨op, hop⟩ := foldlM_total (encodeTerm n0 n1) inp.terms
      (fun b t ht => encodeTerm_total n0 n1 b t (h6 t ht)) []
    refine ⟨op, ?_, h4⟩
    unfold encode
    simp only [h1, h2, h3, h4, h5, hop, bind, Except.bind, pure, Except.pure, bne_self_eq_false, Bool.not_true, Bool.or_self,
      Bool.false_eq_true, if_false]

end Qib.Compact
