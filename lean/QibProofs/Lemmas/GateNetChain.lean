import QibProofs.Lemmas.GateNetBasic
/-!
Helper lemma for C06: contraction of a chain of wire-crossing tensors over abstract labels (the induction along the
control chain of a controlled gate). No property statements.
-/
set_option linter.unusedSimpArgs false
namespace Qib.GateNet
open Qib.TNet

section Chain
variable {α : Type} [CommSemiring α] {L : Type} [DecidableEq L]

def bit (c : Bool) : Nat := if c then 1 else 0

theorem upd_self (σ : L → Nat) (l : L) : upd σ l (σ l) = σ := by
  funext x; simp only [upd]; split
  · next h => rw [h]
  · rfl

/-- product of the wire-crossing tensors of positions `i, i+1, …` (polarities `cs`) under the assignment `σ`:
position `j` reads its physical output/input labels `o j`, `n j`, the vertical label `up j` from above and hands
`up (j+1)` downwards -/
def chainProd (X : Bool → Nat → Nat → Nat → Nat → α) (o n up : Nat → L) : Nat → List Bool → (L → Nat) → α
  | _, [], _ => 1
  | i, c :: cs, σ => X c (σ (o i)) (σ (n i)) (σ (up i)) (σ (up (i + 1))) * chainProd X o n up (i + 1) cs σ

/-- the defining property of `ctrl_cross_pos/neg`: diagonal in the physical wire, and the downward leg carries
"the upward leg is active AND the physical wire matches the polarity" -/
def CrossSpec (X : Bool → Nat → Nat → Nat → Nat → α) (c : Bool) : Prop :=
  ∀ p p' u d, p < 2 → p' < 2 → u < 2 → d < 2 →
    X c p p' u d = if p = p' ∧ d = (if u = 1 ∧ p = bit c then 1 else 0) then 1 else 0

theorem sum_range_two (f : Nat → α) : ((List.range 2).map f).sum = f 0 + f 1 := by
  simp [List.range_succ]

theorem chainProd_indep (X : Bool → Nat → Nat → Nat → Nat → α) (o n up : Nat → L) (cs : List Bool) (i : Nat) (l : L)
    (ho : ∀ j, i ≤ j → j < i + cs.length → l ≠ o j ∧ l ≠ n j)
    (hu : ∀ j, i ≤ j → j ≤ i + cs.length → l ≠ up j) : Indep (chainProd X o n up i cs) l := by
  induction cs generalizing i with
  | nil => intro σ v; rfl
  | cons c cs ih =>
    intro σ v
    simp only [chainProd]
    have h1 := ho i (le_refl _) (by simp)
    have h2 := hu i (le_refl _) (by simp)
    have h3 := hu (i + 1) (by omega) (by simp)
    rw [upd_other _ h1.1.symm, upd_other _ h1.2.symm, upd_other _ h2.symm, upd_other _ h3.symm]
    rw [ih (i + 1) (fun j hj hj' => ho j (by omega) (by simp only [List.length_cons]; omega))
      (fun j hj hj' => hu j (by omega) (by simp only [List.length_cons]; omega)) σ v]

/-- **Contraction of the control chain.** Summing the vertical bonds `up (i+1) … up (i+len)` of a chain of
wire-crossing tensors gives: Kronecker deltas between physical output and input of every position, and the last
vertical bond carries the conjunction "entering leg active ∧ every physical wire matches its polarity". -/
theorem chain_sum (X : Bool → Nat → Nat → Nat → Nat → α) (o n up : Nat → L) (dim : L → Nat)
    (g : (L → Nat) → α) (cs : List Bool) (hX : ∀ c ∈ cs, CrossSpec X c) : ∀ (i : Nat) (σ : L → Nat),
    (∀ j, i < j → j ≤ i + cs.length → dim (up j) = 2) →
    (∀ j j', i ≤ j → j ≤ i + cs.length → i ≤ j' → j' ≤ i + cs.length → up j = up j' → j = j') →
    (∀ j j', i ≤ j → j < i + cs.length → i < j' → j' ≤ i + cs.length → up j' ≠ o j ∧ up j' ≠ n j) →
    (∀ j, i < j → j < i + cs.length → Indep g (up j)) →
    (∀ j, i ≤ j → j < i + cs.length → σ (o j) < 2 ∧ σ (n j) < 2) → σ (up i) < 2 →
    sumOver dim ((List.range' (i + 1) cs.length).map up) (fun τ => chainProd X o n up i cs τ * g τ) σ =
      (if (List.range' i cs.length).map (fun j => σ (o j)) = (List.range' i cs.length).map (fun j => σ (n j)) then 1 else 0) *
        g (upd σ (up (i + cs.length))
          (if σ (up i) = 1 ∧ (List.range' i cs.length).map (fun j => σ (o j)) = cs.map bit then 1 else 0)) := by
  induction cs with
  | nil =>
    intro i σ _ _ _ _ _ hu
    simp only [List.length_nil, List.range'_zero, List.map_nil, sumOver_nil, chainProd, one_mul, if_true, and_true,
      Nat.add_zero]
    have : (if σ (up i) = 1 then 1 else 0) = σ (up i) := by
      have : σ (up i) = 0 ∨ σ (up i) = 1 := by omega
      rcases this with h | h <;> simp [h]
    rw [this, upd_self]
  | cons c cs ih =>
    intro i σ hdim hinj hdisj hg hbit hu
    simp only [List.length_cons] at hdim hinj hdisj hg hbit ⊢
    simp only [List.range'_succ, List.map_cons]
    rw [sumOver_cons, hdim (i + 1) (by omega) (by omega), sum_range_two]
    -- the two values of the bond leaving position `i`
    have hstep : ∀ v, v < 2 →
        sumOver dim ((List.range' (i + 1 + 1) cs.length).map up) (fun τ => chainProd X o n up i (c :: cs) τ * g τ)
          (upd σ (up (i + 1)) v) =
        X c (σ (o i)) (σ (n i)) (σ (up i)) v *
          ((if (List.range' (i + 1) cs.length).map (fun j => σ (o j)) = (List.range' (i + 1) cs.length).map (fun j => σ (n j)) then 1 else 0) *
            g (upd σ (up (i + 1 + cs.length))
              (if v = 1 ∧ (List.range' (i + 1) cs.length).map (fun j => σ (o j)) = cs.map bit then 1 else 0))) := by
      intro v hv
      have hne_o : ∀ j, i ≤ j → j < i + (cs.length + 1) → up (i + 1) ≠ o j ∧ up (i + 1) ≠ n j :=
        fun j h1 h2 => hdisj j (i + 1) h1 h2 (by omega) (by omega)
      have hne_up : up (i + 1) ≠ up i := fun e => by have := hinj (i + 1) i (by omega) (by omega) (by omega) (by omega) e; omega
      -- pull the factor of position `i` out of the inner sum
      have hX_indep : ∀ l ∈ (List.range' (i + 1 + 1) cs.length).map up,
          Indep (fun τ : L → Nat => X c (τ (o i)) (τ (n i)) (τ (up i)) (τ (up (i + 1)))) l := by
        intro l hl
        simp only [List.mem_map, List.mem_range'_1] at hl
        obtain ⟨j, ⟨hj1, hj2⟩, rfl⟩ := hl
        intro τ w
        have a1 := hdisj i j (by omega) (by omega) (by omega) (by omega)
        have a2 : up j ≠ up i := fun e => by have := hinj j i (by omega) (by omega) (by omega) (by omega) e; omega
        have a3 : up j ≠ up (i + 1) := fun e => by have := hinj j (i + 1) (by omega) (by omega) (by omega) (by omega) e; omega
        simp only [upd_other _ a1.1.symm, upd_other _ a1.2.symm, upd_other _ a2.symm, upd_other _ a3.symm]
      have hre : (fun τ => chainProd X o n up i (c :: cs) τ * g τ) =
          (fun τ => (fun τ : L → Nat => X c (τ (o i)) (τ (n i)) (τ (up i)) (τ (up (i + 1)))) τ *
            (fun τ => chainProd X o n up (i + 1) cs τ * g τ) τ) := by
        funext τ; simp only [chainProd, mul_assoc]
      rw [hre, sumOver_mul_left dim _ _ _ hX_indep]
      simp only [upd_other _ (hne_o i (le_refl _) (by omega)).1.symm, upd_other _ (hne_o i (le_refl _) (by omega)).2.symm,
        upd_other _ hne_up.symm, upd_same]
      congr 1
      -- induction hypothesis at position `i+1`
      have hσo : ∀ j, i + 1 ≤ j → j < i + 1 + cs.length →
          upd σ (up (i + 1)) v (o j) = σ (o j) ∧ upd σ (up (i + 1)) v (n j) = σ (n j) := by
        intro j h1 h2
        have := hne_o j (by omega) (by omega)
        exact ⟨upd_other _ this.1.symm _, upd_other _ this.2.symm _⟩
      have hmo : (List.range' (i + 1) cs.length).map (fun j => upd σ (up (i + 1)) v (o j)) =
          (List.range' (i + 1) cs.length).map (fun j => σ (o j)) := by
        apply List.map_congr_left; intro j hj; rw [List.mem_range'_1] at hj; exact (hσo j hj.1 hj.2).1
      have hmn : (List.range' (i + 1) cs.length).map (fun j => upd σ (up (i + 1)) v (n j)) =
          (List.range' (i + 1) cs.length).map (fun j => σ (n j)) := by
        apply List.map_congr_left; intro j hj; rw [List.mem_range'_1] at hj; exact (hσo j hj.1 hj.2).2
      rw [ih (fun c' hc' => hX c' (List.mem_cons_of_mem _ hc')) (i + 1) (upd σ (up (i + 1)) v)
        (fun j h1 h2 => hdim j (by omega) (by omega))
        (fun j j' h1 h2 h3 h4 => hinj j j' (by omega) (by omega) (by omega) (by omega))
        (fun j j' h1 h2 h3 h4 => hdisj j j' (by omega) (by omega) (by omega) (by omega))
        (fun j h1 h2 => hg j (by omega) (by omega))
        (fun j h1 h2 => by rw [(hσo j h1 h2).1, (hσo j h1 h2).2]; exact hbit j (by omega) (by omega))
        (by rw [upd_same]; exact hv)]
      rw [hmo, hmn, upd_same]
      congr 1
      -- the bond `up (i+1)` is either the last one (overwritten) or invisible to `g`
      by_cases hlast : cs.length = 0
      · simp only [hlast, Nat.add_zero, upd_upd_same]
      · have hne : up (i + 1) ≠ up (i + 1 + cs.length) := fun e => by
          have := hinj (i + 1) (i + 1 + cs.length) (by omega) (by omega) (by omega) (by omega) e; omega
        rw [upd_comm σ hne, hg (i + 1) (by omega) (by omega)]
    rw [hstep 0 (by omega), hstep 1 (by omega)]
    obtain ⟨hp, hp'⟩ := hbit i (le_refl _) (by omega)
    rw [hX c List.mem_cons_self _ _ _ 0 hp hp' hu (by omega), hX c List.mem_cons_self _ _ _ 1 hp hp' hu (by omega)]
    have hi1 : i + (cs.length + 1) = i + 1 + cs.length := by omega
    rw [hi1]
    simp only [List.map_cons, List.cons.injEq]
    generalize (List.range' (i + 1) cs.length).map (fun j => σ (o j)) = P
    generalize (List.range' (i + 1) cs.length).map (fun j => σ (n j)) = N
    generalize σ (o i) = p at hp
    generalize σ (n i) = p' at hp'
    generalize σ (up i) = u at hu
    have hp2 : p = 0 ∨ p = 1 := by omega
    have hp2' : p' = 0 ∨ p' = 1 := by omega
    have hu2 : u = 0 ∨ u = 1 := by omega
    rcases hp2 with rfl | rfl <;> rcases hp2' with rfl | rfl <;> rcases hu2 with rfl | rfl <;> cases c <;>
      simp [bit]

end Chain
end Qib.GateNet
