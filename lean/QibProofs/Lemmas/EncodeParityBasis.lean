import Mathlib.Algebra.Ring.Parity
import Mathlib.Data.Nat.Choose.Basic
import Mathlib.Data.Fintype.Card
import Mathlib.Data.Fintype.Pi
import QibProofs.Lemmas.EncodeExtra
/-!
Encoders (C12): the parity-encoded ladder operators are the images of the fermionic ladder operators under the
signed permutation `V |n⟩ = (-1)^{N(N-1)/2} |p(n)⟩`, `p(n)_j = n_0 + … + n_j mod 2` (qubit `j` stores the parity of the
sites `0..j`; `N` = number of occupied sites). Part 1: entry formulas. Helper lemmas only.
-/
set_option linter.unusedVariables false
set_option linter.unnecessarySeqFocus false
open Complex Matrix
namespace Qib.Encode
open Qib.Pauli

/-! ### entries of tensor products of letters -/

theorem letter_apply (z x r c : Bool) :
    letter z x r c = if r = xor c x then (-I) ^ (z && x).toNat * (if z && r then -1 else 1) else 0 := by
  cases z <;> cases x <;> cases r <;> cases c <;> simp [letter, zx]

/-- a string acts as a signed permutation: entry `(r, c)` is non-zero iff `r = c xor x` -/
theorem tens_letter_apply {n : ℕ} (z x : Fin n → Bool) (r c : Fin n → Bool) :
    tens (fun k => letter (z k) (x k)) r c =
      if (∀ k, r k = xor (c k) (x k)) then ∏ k, ((-I) ^ (z k && x k).toNat * (if z k && r k then -1 else 1)) else 0 := by
  simp only [tens]
  split
  · rename_i h
    apply Finset.prod_congr rfl; intro k _
    rw [letter_apply, if_pos (h k)]
  · rename_i h
    obtain ⟨k, hk⟩ := not_forall.mp h
    exact Finset.prod_eq_zero (Finset.mem_univ k) (by rw [letter_apply, if_neg hk])

/-- `-1` if the parity qubit `i - 1` is set (no such qubit for `i = 0`) -/
noncomputable def sgnPrev (L i : ℕ) (r : Fin L → Bool) : ℂ := ∏ k : Fin L, (if k.val + 1 = i ∧ r k = true then -1 else 1)

/-- the encoded annihilation operator of the parity encoder, entrywise: it flips all qubits `≥ i`, and the amplitude is
`½ (±1 ± 1)` from the parity qubit `i - 1` and the qubit `i` of the row index -/
theorem parA_apply (L i : ℕ) (hi : i < L) (r c : Fin L → Bool) :
    encLadder .parity L i false r c =
      if (∀ k : Fin L, r k = xor (c k) (decide (i ≤ k.val))) then
        (1 / 2 : ℂ) * (sgnPrev L i r + (if r ⟨i, hi⟩ = true then -1 else 1)) else 0 := by
  rw [encLadder_annihil, S_mat_tens .parity L i hi, T_mat_tens .parity L i hi]
  simp only [Matrix.smul_apply, Matrix.add_apply, smul_eq_mul, zaI, zbI, xI]
  rw [tens_letter_apply (fun k : Fin L => decide (k.val + 1 = i)) (fun k : Fin L => decide (i ≤ k.val)),
    tens_letter_apply (fun k : Fin L => decide (k.val = i)) (fun k : Fin L => decide (i ≤ k.val))]
  split
  · rename_i hs
    have hS : (∏ k : Fin L, ((-I) ^ (decide (k.val + 1 = i) && decide (i ≤ k.val)).toNat *
        (if (decide (k.val + 1 = i) && r k) = true then (-1 : ℂ) else 1))) = sgnPrev L i r := by
      apply Finset.prod_congr rfl; intro k _
      have h0 : (decide (k.val + 1 = i) && decide (i ≤ k.val)) = false := by
        simp only [Bool.and_eq_false_imp, decide_eq_true_eq, decide_eq_false_iff_not]; omega
      rw [h0]; simp
    have hT : (∏ k : Fin L, ((-I) ^ (decide (k.val = i) && decide (i ≤ k.val)).toNat *
        (if (decide (k.val = i) && r k) = true then (-1 : ℂ) else 1))) = (-I) * (if r ⟨i, hi⟩ = true then -1 else 1) := by
      rw [Finset.prod_eq_single (⟨i, hi⟩ : Fin L)]
      · simp
      · intro k _ hk
        have : ¬ k.val = i := fun e => hk (Fin.ext e)
        simp [this]
      · intro h; exact absurd (Finset.mem_univ _) h
    rw [hS, hT]
    have hI : I * (-I * (if r ⟨i, hi⟩ = true then (-1 : ℂ) else 1)) = (if r ⟨i, hi⟩ = true then (-1 : ℂ) else 1) := by
      rw [← mul_assoc, mul_neg, I_mul_I]; simp
    rw [hI]
  · simp

/-- the reference annihilation operator, entrywise: it empties site `i` (which must be occupied) with the sign
`(-1)^{number of occupied LATER sites}` -/
theorem ladA_apply (L i : ℕ) (hi : i < L) (m n : Fin L → Bool) :
    ladder L i false m n =
      if (∀ k : Fin L, m k = (if k.val = i then false else n k)) ∧ n ⟨i, hi⟩ = true then
        ∏ k : Fin L, (if i < k.val ∧ n k = true then (-1 : ℂ) else 1) else 0 := by
  have hlad : ladder L i false = tens (fun k : Fin L => if k.val < i then 1 else if k.val = i then annihilM else pauliZ) := rfl
  rw [hlad]
  simp only [tens]
  by_cases h : (∀ k : Fin L, m k = (if k.val = i then false else n k)) ∧ n ⟨i, hi⟩ = true
  · rw [if_pos h]
    obtain ⟨hm, hn⟩ := h
    apply Finset.prod_congr rfl; intro k _
    by_cases h1 : k.val < i
    · have h2 : ¬ k.val = i := by omega
      have h3 : ¬ i < k.val := by omega
      have := hm k; rw [if_neg h2] at this
      rw [if_pos h1, this, Matrix.one_apply_eq]; simp [h3]
    · by_cases h2 : k.val = i
      · have hk : k = ⟨i, hi⟩ := Fin.ext h2
        have := hm k; rw [if_pos h2] at this
        subst hk
        simp [annihilM, this, hn]
      · have h3 : i < k.val := by omega
        have := hm k; rw [if_neg h2] at this
        rw [if_neg h1, if_neg h2, this]
        cases hnk : n k <;> simp [pauliZ, h3]
  · rw [if_neg h]
    rw [not_and_or] at h
    rcases h with h | h
    · obtain ⟨k, hk⟩ := not_forall.mp h
      apply Finset.prod_eq_zero (Finset.mem_univ k)
      by_cases h1 : k.val < i
      · have h2 : ¬ k.val = i := by omega
        rw [if_neg h2] at hk
        rw [if_pos h1, Matrix.one_apply_ne hk]
      · by_cases h2 : k.val = i
        · rw [if_pos h2] at hk
          have : m k = true := by cases hmk : m k <;> simp_all
          simp [h2, annihilM, this]
        · rw [if_neg h2] at hk
          rw [if_neg h1, if_neg h2]
          simp [pauliZ, hk]
    · apply Finset.prod_eq_zero (Finset.mem_univ (⟨i, hi⟩ : Fin L))
      have : n ⟨i, hi⟩ = false := by cases hn : n ⟨i, hi⟩ <;> simp_all
      simp [annihilM, this]

/-! ### the parity basis -/

/-- number of occupied sites among `0..j` -/
def pre {L : ℕ} (n : Fin L → Bool) (j : ℕ) : ℕ := ∑ k : Fin L, if k.val ≤ j then (n k).toNat else 0
/-- number of occupied sites before `i` -/
def preLt {L : ℕ} (n : Fin L → Bool) (i : ℕ) : ℕ := ∑ k : Fin L, if k.val < i then (n k).toNat else 0
/-- number of occupied sites after `i` -/
def postGt {L : ℕ} (n : Fin L → Bool) (i : ℕ) : ℕ := ∑ k : Fin L, if i < k.val then (n k).toNat else 0
/-- number of occupied sites -/
def total {L : ℕ} (n : Fin L → Bool) : ℕ := ∑ k : Fin L, (n k).toNat

/-- the parity basis state of an occupation basis state: qubit `j` stores `n_0 + … + n_j mod 2` -/
def parOf {L : ℕ} (n : Fin L → Bool) : Fin L → Bool := fun j => decide (pre n j.val % 2 = 1)

/-- the sign `(-1)^{N(N-1)/2}` -/
noncomputable def wSign {L : ℕ} (n : Fin L → Bool) : ℂ := (-1) ^ (total n * (total n - 1) / 2)

/-- `V |n⟩ = (-1)^{N(N-1)/2} |parOf n⟩` -/
noncomputable def parityBasis (L : ℕ) : Matrix (Fin L → Bool) (Fin L → Bool) ℂ :=
  fun p n => if p = parOf n then wSign n else 0

theorem pre_split {L : ℕ} (n : Fin L → Bool) (i : ℕ) (hi : i < L) :
    pre n i = preLt n i + (n ⟨i, hi⟩).toNat := by
  have : ∀ k : Fin L, (if k.val ≤ i then (n k).toNat else 0) =
      (if k.val < i then (n k).toNat else 0) + (if k = (⟨i, hi⟩ : Fin L) then (n ⟨i, hi⟩).toNat else 0) := by
    intro k
    by_cases h1 : k.val < i
    · have : ¬ k = (⟨i, hi⟩ : Fin L) := fun e => by rw [e] at h1; simp at h1
      simp [h1, Nat.le_of_lt h1, this]
    · by_cases h2 : k = (⟨i, hi⟩ : Fin L)
      · subst h2; simp
      · have : ¬ k.val ≤ i := fun hle => h2 (Fin.ext (by show k.val = i; omega))
        simp [h1, h2, this]
  simp only [pre, preLt, this, Finset.sum_add_distrib, Finset.sum_ite_eq', Finset.mem_univ, if_true]

theorem total_split {L : ℕ} (n : Fin L → Bool) (i : ℕ) (hi : i < L) :
    total n = preLt n i + (n ⟨i, hi⟩).toNat + postGt n i := by
  rw [← pre_split n i hi]
  have : ∀ k : Fin L, (n k).toNat = (if k.val ≤ i then (n k).toNat else 0) + (if i < k.val then (n k).toNat else 0) := by
    intro k
    by_cases h1 : k.val ≤ i
    · simp [h1, Nat.not_lt.mpr h1]
    · simp [h1, Nat.lt_of_not_le h1]
  simp only [total, pre, postGt]
  rw [← Finset.sum_add_distrib]
  exact Finset.sum_congr rfl (fun k _ => this k)

/-- emptying the occupied site `i` -/
def emptied {L : ℕ} (n : Fin L → Bool) (i : ℕ) : Fin L → Bool := fun k => if k.val = i then false else n k

theorem sum_emptied {L : ℕ} (n : Fin L → Bool) (i : ℕ) (hi : i < L) (c : Fin L → Prop) [DecidablePred c] :
    (∑ k : Fin L, if c k then ((emptied n i) k).toNat else 0) + (if c ⟨i, hi⟩ then (n ⟨i, hi⟩).toNat else 0) =
      ∑ k : Fin L, if c k then (n k).toNat else 0 := by
  have : ∀ k : Fin L, (if c k then (n k).toNat else 0) =
      (if c k then ((emptied n i) k).toNat else 0) + (if k = (⟨i, hi⟩ : Fin L) then (if c ⟨i, hi⟩ then (n ⟨i, hi⟩).toNat else 0) else 0) := by
    intro k
    by_cases h2 : k = (⟨i, hi⟩ : Fin L)
    · subst h2; simp [emptied]
    · have : ¬ k.val = i := fun e => h2 (Fin.ext e)
      simp [emptied, h2, this]
  rw [Finset.sum_congr rfl (fun k _ => this k), Finset.sum_add_distrib, Finset.sum_ite_eq']
  simp

theorem pre_emptied {L : ℕ} (n : Fin L → Bool) (i : ℕ) (hi : i < L) (hn : n ⟨i, hi⟩ = true) (j : ℕ) :
    pre (emptied n i) j + (if i ≤ j then 1 else 0) = pre n j := by
  have := sum_emptied n i hi (fun k => k.val ≤ j)
  simp only [hn, Bool.toNat_true] at this
  exact this

theorem total_emptied {L : ℕ} (n : Fin L → Bool) (i : ℕ) (hi : i < L) (hn : n ⟨i, hi⟩ = true) :
    total (emptied n i) + 1 = total n := by
  have := sum_emptied n i hi (fun _ => True)
  simpa only [total, if_true, hn, Bool.toNat_true] using this

/-- emptying site `i` flips exactly the parity qubits `≥ i` -/
theorem parOf_emptied {L : ℕ} (n : Fin L → Bool) (i : ℕ) (hi : i < L) (hn : n ⟨i, hi⟩ = true) (k : Fin L) :
    parOf (emptied n i) k = xor (parOf n k) (decide (i ≤ k.val)) := by
  have := pre_emptied n i hi hn k.val
  simp only [parOf]
  by_cases h : i ≤ k.val
  · rw [if_pos h] at this
    simp only [h, decide_true, Bool.xor_true]
    rw [← this]
    rcases Nat.mod_two_eq_zero_or_one (pre (emptied n i) k.val) with h0 | h0 <;>
      simp [h0, Nat.add_mod]
  · rw [if_neg h] at this
    simp [h, ← this]

/-- the occupation of site `j` is the difference of neighbouring parity qubits, so `parOf` is injective -/
theorem parOf_injective {L : ℕ} (n n' : Fin L → Bool) (h : parOf n = parOf n') : n = n' := by
  have hpre : ∀ j : ℕ, j < L → pre n j % 2 = pre n' j % 2 := by
    intro j hj
    have := congrFun h ⟨j, hj⟩
    simp only [parOf, decide_eq_decide] at this
    rcases Nat.mod_two_eq_zero_or_one (pre n j) with h0 | h0 <;>
      rcases Nat.mod_two_eq_zero_or_one (pre n' j) with h1 | h1 <;> simp_all
  have hlt : ∀ j : ℕ, j < L → preLt n j % 2 = preLt n' j % 2 := by
    intro j hj
    rcases Nat.eq_zero_or_pos j with h0 | h0
    · subst h0; simp [preLt]
    · have e : ∀ m : Fin L → Bool, preLt m j = pre m (j - 1) := by
        intro m; simp only [preLt, pre]
        exact Finset.sum_congr rfl (fun k _ => by
          have : (k.val < j) = (k.val ≤ j - 1) := by apply propext; omega
          simp only [this])
      rw [e n, e n']; exact hpre (j - 1) (by omega)
  funext k
  have h1 := pre_split n k.val k.isLt
  have h2 := pre_split n' k.val k.isLt
  have h3 := hpre k.val k.isLt
  have h4 := hlt k.val k.isLt
  have e : (⟨k.val, k.isLt⟩ : Fin L) = k := rfl
  rw [e] at h1 h2
  rw [h1, h2] at h3
  cases hn : n k <;> cases hn' : n' k <;> simp only [hn, hn', Bool.toNat_true, Bool.toNat_false] at h3 <;>
    first | rfl | omega

/-! ### signs -/

theorem neg_one_pow_mod2 (m : ℕ) : (-1 : ℂ) ^ m = if m % 2 = 1 then -1 else 1 := by
  rcases Nat.even_or_odd m with h | h
  · rw [h.neg_one_pow, if_neg (by rw [Nat.even_iff] at h; omega)]
  · rw [h.neg_one_pow, if_pos (Nat.odd_iff.mp h)]

theorem wSign_mul_self {L : ℕ} (n : Fin L → Bool) : wSign n * wSign n = 1 := by
  rw [wSign, ← pow_add]; exact Even.neg_one_pow ⟨_, rfl⟩

theorem wSign_conj {L : ℕ} (n : Fin L → Bool) : (starRingEnd ℂ) (wSign n) = wSign n := by
  simp [wSign]

theorem sgnPrev_eq (L i : ℕ) (hi : i < L) (n p : Fin L → Bool)
    (hp : ∀ k : Fin L, p k = xor (parOf n k) (decide (i ≤ k.val))) : sgnPrev L i p = (-1) ^ preLt n i := by
  rcases Nat.eq_zero_or_pos i with h0 | h0
  · subst h0; simp [sgnPrev, preLt]
  · have hL : i - 1 < L := by omega
    have hpk : p ⟨i - 1, hL⟩ = decide (pre n (i - 1) % 2 = 1) := by
      rw [hp]; simp only [parOf]; have : ¬ i ≤ i - 1 := by omega
      simp [this]
    have e : preLt n i = pre n (i - 1) := by
      simp only [preLt, pre]
      exact Finset.sum_congr rfl (fun k _ => by
        have : (k.val < i) = (k.val ≤ i - 1) := by apply propext; omega
        simp only [this])
    rw [sgnPrev, Finset.prod_eq_single (⟨i - 1, hL⟩ : Fin L)]
    · have h1 : i - 1 + 1 = i := by omega
      simp only [h1, true_and, hpk, decide_eq_true_eq, e, neg_one_pow_mod2]
    · intro k _ hk
      have : ¬ k.val + 1 = i := fun e => hk (Fin.ext (by show k.val = i - 1; omega))
      simp [this]
    · intro h; exact absurd (Finset.mem_univ _) h

theorem sigma_eq {L : ℕ} (n : Fin L → Bool) (i : ℕ) :
    (∏ k : Fin L, (if i < k.val ∧ n k = true then (-1 : ℂ) else 1)) = (-1) ^ postGt n i := by
  rw [postGt, ← Finset.prod_pow_eq_pow_sum]
  apply Finset.prod_congr rfl; intro k _
  by_cases h : i < k.val <;> cases hn : n k <;> simp [h]

/-- the sign bookkeeping of one annihilation: `(-1)^{#before} · w(n) = w(n with site i emptied) · (-1)^{#after}` -/
theorem sign_identity {L : ℕ} (n : Fin L → Bool) (i : ℕ) (hi : i < L) (hn : n ⟨i, hi⟩ = true) :
    (-1 : ℂ) ^ preLt n i * wSign n = wSign (emptied n i) * (-1) ^ postGt n i := by
  have h1 := total_emptied n i hi hn
  have h2 := total_split n i hi
  rw [hn, Bool.toNat_true] at h2
  have hT : total (emptied n i) = preLt n i + postGt n i := by omega
  rw [wSign, wSign, ← h1, Nat.triangle_succ, hT, pow_add, pow_add]
  have : ((-1 : ℂ) ^ preLt n i) * ((-1 : ℂ) ^ preLt n i) = 1 := by rw [← pow_add]; exact Even.neg_one_pow ⟨_, rfl⟩
  calc (-1 : ℂ) ^ preLt n i * ((-1) ^ ((preLt n i + postGt n i) * (preLt n i + postGt n i - 1) / 2) *
        ((-1) ^ preLt n i * (-1) ^ postGt n i))
      = ((-1 : ℂ) ^ preLt n i * (-1) ^ preLt n i) * ((-1) ^ ((preLt n i + postGt n i) * (preLt n i + postGt n i - 1) / 2) *
        (-1) ^ postGt n i) := by ring
    _ = _ := by rw [this, one_mul]

/-! ### `V` is unitary and intertwines the ladder operators -/

theorem parityBasis_unitary (L : ℕ) : (parityBasis L)ᴴ * parityBasis L = 1 := by
  ext n n'
  simp only [Matrix.mul_apply, Matrix.conjTranspose_apply, parityBasis, Matrix.one_apply]
  rw [Finset.sum_eq_single (parOf n)]
  · by_cases h : n = n'
    · subst h; simp [wSign_conj, wSign_mul_self]
    · have : ¬ parOf n = parOf n' := fun e => h (parOf_injective n n' e)
      simp [h, this]
  · intro p _ hp; simp [hp]
  · intro h; exact absurd (Finset.mem_univ _) h

theorem parityBasis_unitary' (L : ℕ) : parityBasis L * (parityBasis L)ᴴ = 1 := by
  ext p p'
  simp only [Matrix.mul_apply, Matrix.conjTranspose_apply, parityBasis, Matrix.one_apply]
  obtain ⟨n0, hn0⟩ := Finite.surjective_of_injective (f := @parOf L) (fun a b h => parOf_injective a b h) p
  subst hn0
  rw [Finset.sum_eq_single n0]
  · by_cases h : parOf n0 = p'
    · subst h; simp [wSign_conj, wSign_mul_self]
    · have h' : ¬ p' = parOf n0 := fun e => h e.symm
      simp [h, h']
  · intro n _ hn
    have : ¬ parOf n0 = parOf n := fun e => hn (parOf_injective n n0 e.symm)
    simp [this]
  · intro h; exact absurd (Finset.mem_univ _) h

theorem emptied_eq_iff {L : ℕ} (m n : Fin L → Bool) (i : ℕ) :
    (∀ k : Fin L, m k = (if k.val = i then false else n k)) ↔ m = emptied n i :=
  ⟨fun h => funext h, fun h k => by rw [h]; rfl⟩

/-- `a_i^{parity} V = V a_i` -/
theorem parA_intertwine (L i : ℕ) (hi : i < L) :
    encLadder .parity L i false * parityBasis L = parityBasis L * ladder L i false := by
  ext p n
  simp only [Matrix.mul_apply]
  -- left: only `m = parOf n` contributes
  have hl : ∑ m, encLadder .parity L i false p m * parityBasis L m n = encLadder .parity L i false p (parOf n) * wSign n := by
    rw [Finset.sum_eq_single (parOf n)]
    · simp [parityBasis]
    · intro m _ hm; simp [parityBasis, hm]
    · intro h; exact absurd (Finset.mem_univ _) h
  -- right: only `m = n with site i emptied` contributes
  have hr : ∑ m, parityBasis L p m * ladder L i false m n =
      (if p = parOf (emptied n i) then wSign (emptied n i) else 0) *
        (if n ⟨i, hi⟩ = true then (-1 : ℂ) ^ postGt n i else 0) := by
    rw [Finset.sum_eq_single (emptied n i)]
    · rw [ladA_apply L i hi, sigma_eq]
      by_cases hn : n ⟨i, hi⟩ = true
      · rw [if_pos ⟨(emptied_eq_iff _ n i).mpr rfl, hn⟩, if_pos hn]; rfl
      · rw [if_neg (fun h => hn h.2), if_neg hn, mul_zero, mul_zero]
    · intro m _ hm
      rw [ladA_apply L i hi, if_neg (fun h => hm ((emptied_eq_iff m n i).mp h.1)), mul_zero]
    · intro h; exact absurd (Finset.mem_univ _) h
  rw [hl, hr, parA_apply L i hi]
  by_cases hn : n ⟨i, hi⟩ = true
  · -- occupied: the support condition says `p = parOf (emptied n i)`
    have hsupp : (∀ k : Fin L, p k = xor (parOf n k) (decide (i ≤ k.val))) ↔ p = parOf (emptied n i) :=
      ⟨fun h => funext (fun k => by rw [h k, parOf_emptied n i hi hn]),
       fun h k => by rw [h, parOf_emptied n i hi hn]⟩
    by_cases hs : ∀ k : Fin L, p k = xor (parOf n k) (decide (i ≤ k.val))
    · rw [if_pos hs, if_pos (hsupp.mp hs), if_pos hn, sgnPrev_eq L i hi n p hs, ← sign_identity n i hi hn]
      have hpi : p ⟨i, hi⟩ = decide (preLt n i % 2 = 1) := by
        rw [hs]; simp only [parOf, pre_split n i hi, hn, Bool.toNat_true, Nat.le_refl, decide_true, Bool.xor_true]
        rcases Nat.mod_two_eq_zero_or_one (preLt n i) with h0 | h0 <;> simp [h0, Nat.add_mod]
      rw [hpi, neg_one_pow_mod2]
      by_cases hodd : preLt n i % 2 = 1 <;> simp [hodd] <;> ring
    · rw [if_neg hs, if_neg (fun h => hs (hsupp.mpr h))]; simp
  · -- empty site: both sides vanish
    rw [if_neg hn, mul_zero]
    by_cases hs : ∀ k : Fin L, p k = xor (parOf n k) (decide (i ≤ k.val))
    · rw [if_pos hs, sgnPrev_eq L i hi n p hs]
      have hn' : n ⟨i, hi⟩ = false := by cases h : n ⟨i, hi⟩ <;> simp_all
      have hpi : p ⟨i, hi⟩ = !decide (preLt n i % 2 = 1) := by
        rw [hs]; simp only [parOf, pre_split n i hi, hn', Bool.toNat_false, Nat.add_zero, Nat.le_refl, decide_true, Bool.xor_true]
      rw [hpi, neg_one_pow_mod2]
      by_cases hodd : preLt n i % 2 = 1 <;> simp [hodd]
    · rw [if_neg hs, zero_mul]

/-- the encoded ladder operators of the parity encoder are the images of the fermionic ones under `V` -/
theorem parLadder_conj (L i : ℕ) (hi : i < L) (create : Bool) :
    encLadder .parity L i create = parityBasis L * ladder L i create * (parityBasis L)ᴴ := by
  have hA : encLadder .parity L i false = parityBasis L * ladder L i false * (parityBasis L)ᴴ := by
    rw [← parA_intertwine L i hi, Matrix.mul_assoc, parityBasis_unitary', Matrix.mul_one]
  cases create
  · exact hA
  · rw [← encLadder_adjoint, hA, Matrix.conjTranspose_mul, Matrix.conjTranspose_mul, Matrix.conjTranspose_conjTranspose,
      ← ladder_conjTranspose, Matrix.conjTranspose_conjTranspose, Matrix.mul_assoc]

/-! ### not Jordan-Wigner, at the level of matrices -/

/-- on two or more sites the parity-encoded annihilation operator is not the Jordan-Wigner (= fermionic reference) one:
a matrix entry where they differ -/
theorem parity_ladder_ne (L i : ℕ) (hL : 2 ≤ L) (hi : i < L) (create : Bool) :
    encLadder .parity L i create ≠ ladder L i create := by
  have hA : encLadder .parity L i false ≠ ladder L i false := by
    intro heq
    by_cases hlast : i = L - 1
    · -- `c = |…011⟩`, `r = |…010⟩` (sites `L-2`, `L-1`)
      let c : Fin L → Bool := fun k => decide (k.val + 2 = L ∨ k.val + 1 = L)
      let r : Fin L → Bool := fun k => decide (k.val + 2 = L)
      have h1 : ladder L i false r c = 1 := by
        rw [ladA_apply L i hi, if_pos]
        · apply Finset.prod_eq_one; intro k _
          have : ¬ i < k.val := by have := k.isLt; omega
          simp [this]
        · refine ⟨fun k => ?_, ?_⟩
          · by_cases hk : k.val = i
            · simp only [r, c, hk, if_true, decide_eq_false_iff_not]; omega
            · simp only [r, c, hk, if_false, decide_eq_decide]; have := k.isLt; omega
          · simp only [c, decide_eq_true_eq]; omega
      have h2 : encLadder .parity L i false r c = 0 := by
        rw [parA_apply L i hi, if_pos]
        · have hs : sgnPrev L i r = -1 := by
            rw [sgnPrev, Finset.prod_eq_single (⟨L - 2, by omega⟩ : Fin L)]
            · have e1 : L - 2 + 1 = i := by omega
              have e2 : L - 2 + 2 = L := by omega
              simp [r, e1, e2]
            · intro k _ hk
              have : ¬ k.val + 1 = i := fun e => hk (Fin.ext (by show k.val = L - 2; omega))
              simp [this]
            · intro h; exact absurd (Finset.mem_univ _) h
          have hr : r ⟨i, hi⟩ = false := by simp only [r, decide_eq_false_iff_not]; omega
          rw [hs, hr]; simp
        · intro k
          simp only [r, c]
          by_cases hk : i ≤ k.val
          · have hk' : k.val + 1 = L := by have := k.isLt; omega
            have : ¬ k.val + 2 = L := by omega
            simp [hk, hk', this]
          · have : ¬ k.val + 1 = L := by omega
            simp [hk, this]
      rw [heq, h1] at h2; exact one_ne_zero h2
    · -- `c = |0…010…0⟩` (site `i`), `r = |0…0⟩`: the parity operator would also have to flip qubit `L-1`
      let c : Fin L → Bool := fun k => decide (k.val = i)
      let r : Fin L → Bool := fun _ => false
      have h1 : ladder L i false r c = 1 := by
        rw [ladA_apply L i hi, if_pos]
        · apply Finset.prod_eq_one; intro k _
          have : ¬ (i < k.val ∧ c k = true) := by simp only [c, decide_eq_true_eq]; omega
          simp [this]
        · refine ⟨fun k => ?_, by simp [c]⟩
          by_cases hk : k.val = i <;> simp [r, c, hk]
      have h2 : encLadder .parity L i false r c = 0 := by
        rw [parA_apply L i hi, if_neg]
        intro h
        have := h ⟨L - 1, by omega⟩
        have hne : ¬ L - 1 = i := fun e => hlast e.symm
        have hle : i ≤ L - 1 := by omega
        simp [r, c, hne, hle] at this
      rw [heq, h1] at h2; exact one_ne_zero h2
  cases create
  · exact hA
  · intro heq
    apply hA
    rw [← Matrix.conjTranspose_conjTranspose (encLadder .parity L i false), encLadder_adjoint, heq, ladder_conjTranspose]


end Qib.Encode
