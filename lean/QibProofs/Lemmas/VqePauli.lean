import QibProofs.Lemmas.PauliOpSum
import QibProofs.Lemmas.VqeBridge
/-!
C20 helper lemmas connecting the dense matrix that the VQE model assembles for a `PauliOperator`
(`Qib.Vqe.pauliMat`, flat indices, executable) with the denotation `PauliOp.mat` of Core D (C09; bit-function indices):

* `bitsEquiv n : (Fin n → Bool) ≃ Fin (2^n)` – the flat index with site 0 most significant (`natOfBits`);
* `toM_pauliMat : (pauliMat n op).toM (2^n) = reindex (PauliOp.mat GQ.toC n op)`;
* `ev` is invariant under reindexing, Hermiticity is preserved;
* the code's Hermiticity flag (`WeightedPauliString.is_hermitian` for every string) implies that the matrix is Hermitian.
No property statements here.
-/
open Matrix Complex
open scoped ComplexConjugate

namespace Qib.Vqe
open Qib Qib.Pauli VqeLemmas

/-! ### scalars -/

theorem gqOfPauli_toC (g : Qib.Pauli.GQ) : (gqOfPauli g).toC = Qib.Pauli.GQ.toC g := by
  simp [gqOfPauli, Qib.GQ.toC, Qib.Pauli.GQ.toC]

theorem gqOfInts_toC (p : ℤ × ℤ) : (gqOfInts p).toC = gi p := by
  simp [gqOfInts, Qib.GQ.toC, gi]

theorem pauliGQ_mul_re (a b : Qib.Pauli.GQ) : (a * b).re = a.re * b.re - a.im * b.im := rfl
theorem pauliGQ_mul_im (a b : Qib.Pauli.GQ) : (a * b).im = a.re * b.im + a.im * b.re := rfl

theorem pauliGQ_toC_mul (a b : Qib.Pauli.GQ) : (a * b).toC = a.toC * b.toC := by
  simp only [Qib.Pauli.GQ.toC, pauliGQ_mul_re, pauliGQ_mul_im, Rat.cast_add, Rat.cast_sub, Rat.cast_mul]
  ring_nf
  rw [Complex.I_sq]; ring

theorem pauliGQ_toC_im (a : Qib.Pauli.GQ) : a.toC.im = ((a.im : ℚ) : ℝ) := by simp [Qib.Pauli.GQ.toC]

theorem pauliGQ_ofInts_toC (p : ℤ × ℤ) : (Qib.Pauli.GQ.ofInts p).toC = gi p := by
  simp [Qib.Pauli.GQ.ofInts, Qib.Pauli.GQ.toC, gi]

/-! ### flat index ↔ bit function -/

theorem natOfBits_injective (n : ℕ) : Function.Injective (natOfBits n) := by
  intro r c h
  rw [← bitsOfIdx_natOfBits n r, ← bitsOfIdx_natOfBits n c, h]

/-- flat index with site 0 most significant, as an equivalence -/
noncomputable def bitsEquiv (n : ℕ) : (Fin n → Bool) ≃ Fin (2 ^ n) :=
  Equiv.ofBijective (fun r => ⟨natOfBits n r, natOfBits_lt n r⟩) (by
    rw [Fintype.bijective_iff_injective_and_card]
    refine ⟨fun r c h => natOfBits_injective n (Fin.mk.inj_iff.mp h), ?_⟩
    simp)

theorem bitsEquiv_val (n : ℕ) (r : Fin n → Bool) : ((bitsEquiv n r : Fin (2 ^ n)) : ℕ) = natOfBits n r := rfl

theorem natOfBits_symm (n : ℕ) (i : Fin (2 ^ n)) : natOfBits n ((bitsEquiv n).symm i) = i := by
  rw [← bitsEquiv_val, Equiv.apply_symm_apply]

/-! ### the assembled matrix -/

theorem matEntry_natOfBits' (n : ℕ) (P : PS) (hP : P.HasLen n) (r c : Fin n → Bool) :
    gi (P.matEntry (natOfBits n r) (natOfBits n c)) = P.mat n r c := by
  obtain ⟨hz, hx⟩ := hP
  subst hz
  exact matEntry_natOfBits P hx.symm r c

theorem foldl_add_toC' {β : Type} (l : List β) (f : β → Qib.GQ) (a : Qib.GQ) :
    (l.foldl (fun acc e => acc + f e) a).toC = a.toC + (l.map fun e => (f e).toC).sum := by
  induction l generalizing a with
  | nil => simp
  | cons x l ih => rw [List.foldl_cons, ih, Qib.GQ.toC_add, List.map_cons, List.sum_cons, add_assoc]

theorem pauliOp_mat_cons (n : ℕ) (e : PS × Qib.Pauli.GQ) (op : PauliOp Qib.Pauli.GQ) :
    PauliOp.mat Qib.Pauli.GQ.toC n (e :: op) = e.2.toC • e.1.mat n + PauliOp.mat Qib.Pauli.GQ.toC n op :=
  PauliOp.matG_cons ..

theorem pauliEntry_toC (n : ℕ) (op : PauliOp Qib.Pauli.GQ) (h : ∀ e ∈ op, e.1.HasLen n) (r c : Fin n → Bool) :
    (pauliEntry op (natOfBits n r) (natOfBits n c)).toC = PauliOp.mat Qib.Pauli.GQ.toC n op r c := by
  rw [pauliEntry, foldl_add_toC', Qib.GQ.toC_zero, zero_add]
  induction op with
  | nil => simp [PauliOp.mat, PauliOp.matG]
  | cons e op ih =>
    have ih' := ih fun e' he' => h e' (List.mem_cons_of_mem _ he')
    rw [List.map_cons, List.sum_cons, ih', pauliOp_mat_cons, Matrix.add_apply, Matrix.smul_apply,
      Qib.GQ.toC_mul, gqOfPauli_toC, gqOfInts_toC, matEntry_natOfBits' n e.1 (h e (List.mem_cons_self ..))]
    rfl

theorem pauliMat_sq (n : ℕ) (op : PauliOp Qib.Pauli.GQ) : (pauliMat n op).Sq (2 ^ n) := ⟨rfl, rfl⟩

/-- the executable dense matrix is the C09 denotation of the operator, read at flat indices -/
theorem toM_pauliMat (n : ℕ) (op : PauliOp Qib.Pauli.GQ) (h : ∀ e ∈ op, e.1.HasLen n) :
    (pauliMat n op).toM (2 ^ n) = Matrix.reindex (bitsEquiv n) (bitsEquiv n) (PauliOp.mat Qib.Pauli.GQ.toC n op) := by
  ext i j
  rw [pauliMat, Mat.toM_ofFn, Matrix.reindex_apply, Matrix.submatrix_apply,
    ← pauliEntry_toC n op h, natOfBits_symm, natOfBits_symm]

/-! ### reindexing the quadratic form -/

theorem ev_reindex {n m : Type*} [Fintype n] [Fintype m] (e : n ≃ m) (ψ : m → ℂ) (M : Matrix n n ℂ) :
    ev ψ (Matrix.reindex e e M) = ev (ψ ∘ e) M := by
  rw [ev_sum, ev_sum, ← Equiv.sum_comp e]
  refine Finset.sum_congr rfl fun i _ => ?_
  rw [← Equiv.sum_comp e]
  refine Finset.sum_congr rfl fun j _ => ?_
  simp

theorem reindex_hermitian {n m : Type*} (e : n ≃ m) {M : Matrix n n ℂ} (h : M.IsHermitian) :
    (Matrix.reindex e e M).IsHermitian := h.submatrix _

/-! ### the Hermiticity flag is sound -/

theorem wps_hermitian (n : ℕ) (P : PS) (w : Qib.Pauli.GQ) (h : wpsIsHermitian P w = true) :
    (w.toC • P.mat n)ᴴ = w.toC • P.mat n := by
  have hre : (((-I) ^ P.q.val) * w.toC).im = 0 := by
    unfold wpsIsHermitian at h
    have h1 : ((Qib.Pauli.GQ.ofInts (QibGen.Pauli.phaseWeightedHerm.getD P.q.val (0, 0))) * w).im = 0 := by
      simpa using h
    have h2 := pauliGQ_toC_im ((Qib.Pauli.GQ.ofInts (QibGen.Pauli.phaseWeightedHerm.getD P.q.val (0, 0))) * w)
    rw [h1, pauliGQ_toC_mul, pauliGQ_ofInts_toC, phaseWeightedHerm_eq _ P.q.isLt] at h2
    simpa using h2
  have hconj : conj (((-I) ^ P.q.val) * w.toC) = ((-I) ^ P.q.val) * w.toC := Complex.conj_eq_iff_im.mpr hre
  rw [Matrix.conjTranspose_smul, mat_conjTranspose, mat_eq_smul_body, smul_smul, smul_smul]
  congr 1
  rw [Complex.star_def, ← map_mul, mul_comm w.toC]
  exact hconj

theorem op_hermitian (n : ℕ) (op : PauliOp Qib.Pauli.GQ) (h : PauliOp.isHermitian op = true) :
    (PauliOp.mat Qib.Pauli.GQ.toC n op).IsHermitian := by
  unfold Matrix.IsHermitian
  induction op with
  | nil => simp [PauliOp.mat, PauliOp.matG]
  | cons e op ih =>
    simp only [PauliOp.isHermitian, List.all_cons, Bool.and_eq_true] at h
    have ih' := ih (by simpa [PauliOp.isHermitian] using h.2)
    rw [pauliOp_mat_cons, Matrix.conjTranspose_add, wps_hermitian n e.1 e.2 h.1, ih']

end Qib.Vqe
