import QibProofs.Lemmas.QubitizationHist
/-!
Helper lemmas for C19 (histories): `EigenvalueTransformation.as_matrix` / `as_circuit` run on an object in an arbitrary state
(`asMatrixH`, `asCircuitH` of `QibModel/QubitizationHist.lean`, which thread the processing object through the loops because the
loops write its angle): result = the pure loops of `QibModel/Qubitization.lean` (about which C19 is proved) resp. the defining
product, and the exact state afterwards — also when the call raises. No property statements here.
-/
namespace Qib.Qubitization

theorem getLast?_getD_cons {α : Type} (a : α) (l : List α) (x : α) : (a :: l).getLast?.getD x = l.getLast?.getD a := by
  cases l with
  | nil => rfl
  | cons b l =>
    rw [List.getLast?_cons_cons]
    cases h : (b :: l).getLast? with
    | none => simp at h
    | some v => rfl

/-! ### `as_matrix` -/

section Matrix
variable {α M : Type}

@[simp] theorem PState.asMatrixDiag_setTheta (p : PState α) (θ : α) : (p.setTheta θ).asMatrixDiag = p.asMatrixDiag := rfl

/-- the exception raised by the factor `np.kron(processing.as_matrix(), id)` of the running product, if any: that of
`processing.as_matrix()`, else the `ValueError` of `@` for a projection state whose length is not the number of auxiliary
qubits of the block encoding. It does not depend on the angle. -/
def kronErr (b : BState) (p : PState α) : Option Err :=
  match p.asMatrixDiag with
  | .error e => some e
  | .ok _ => if p.proj.length ≠ b.naux then some .valueError else none

theorem kronErr_setTheta (b : BState) (p : PState α) (θ : α) : kronErr b (p.setTheta θ) = kronErr b p := rfl

theorem kronErr_none_iff (b : BState) (p : PState α) :
    kronErr b p = none ↔ ∃ d, p.asMatrixDiag = .ok d ∧ p.proj.length = b.naux := by
  unfold kronErr
  cases h : p.asMatrixDiag with
  | error e => simp
  | ok d => by_cases hl : p.proj.length = b.naux <;> simp [hl]

variable [Monoid M]

omit [Monoid M] in
theorem kronP_ok (env : MatEnv α M) (b : BState) (p : PState α) (d : List Bool) (hd : p.asMatrixDiag = .ok d)
    (hl : p.proj.length = b.naux) (θ : α) : kronP env b (p.setTheta θ) = .ok (env.phase θ d) := by
  simp [kronP, hd, hl]

omit [Monoid M] in
theorem kronP_err (env : MatEnv α M) (b : BState) (p : PState α) (e : Err) (he : kronErr b p = some e) (θ : α) :
    kronP env b (p.setTheta θ) = .error e := by
  unfold kronErr at he
  unfold kronP
  simp only [PState.asMatrixDiag_setTheta, PState.setTheta_proj]
  cases h : p.asMatrixDiag with
  | error e' => simp only [h] at he; cases he; rfl
  | ok d =>
    simp only [h] at he ⊢
    split_ifs at he with hl
    cases he
    exact if_pos hl

theorem evtMulH_ok (env : MatEnv α M) (b : BState) (p : PState α) (d : List Bool) (hd : p.asMatrixDiag = .ok d)
    (hl : p.proj.length = b.naux) (acc : M) (θ : α) (V : M) :
    evtMulH env b p acc θ V = (p.setTheta θ, .ok (acc * env.phase θ d * V)) := by
  simp [evtMulH, kronP_ok env b p d hd hl θ]

theorem evtMulH_err (env : MatEnv α M) (b : BState) (p : PState α) (e : Err) (he : kronErr b p = some e) (acc : M) (θ : α) (V : M) :
    evtMulH env b p acc θ V = (p.setTheta θ, .error e) := by
  simp [evtMulH, kronP_err env b p e he θ]

/-- the pairing loop on an object whose phase-shift matrix exists: the defining product of the remaining angles, and the
processing object is left with the last of them -/
theorem evtLoopH_spec (env : MatEnv α M) (b : BState) (d : List Bool) (start : ℕ) :
    ∀ (k : ℕ) (rest pre : List α) (s : ℕ) (p : PState α) (acc : M), p.asMatrixDiag = .ok d → p.proj.length = b.naux →
      rest.length = 2 * k → 2 * s - start = pre.length → start ≤ 2 * s →
      evtLoopH env b (pre ++ rest) start p acc (List.range' s k)
        = (p.setTheta (rest.getLast?.getD p.theta), .ok (acc * evtSpec (fun θ => env.phase θ d) env.U env.Ui rest)) := by
  intro k
  induction k with
  | zero =>
    intro rest pre s p acc _ _ hr _ _
    have : rest = [] := List.length_eq_zero_iff.mp (by omega)
    subst this
    simp [evtLoopH, evtSpec]
  | succ k ih =>
    intro rest pre s p acc hd hl hr hs hle
    match rest, hr with
    | a :: c :: rest', hr =>
      have hr' : rest'.length = 2 * k := by simp at hr; omega
      have i1 : 2 * s - start = pre.length := hs
      have i2 : 2 * s + 1 - start = pre.length + 1 := by omega
      rw [List.range'_succ]
      simp only [evtLoopH, i1, i2, getElem?_append_len, getElem?_append_len_succ]
      rw [evtMulH_ok env b p d hd hl]
      simp only
      rw [evtMulH_ok env b (p.setTheta a) d hd hl]
      simp only [PState.setTheta_setTheta]
      have happ : pre ++ a :: c :: rest' = (pre ++ [a, c]) ++ rest' := by simp
      rw [happ, ih rest' (pre ++ [a, c]) (s + 1) (p.setTheta c) _ hd hl hr' (by simp; omega) (by omega)]
      have e1 : (c :: rest').length % 2 = 1 := by simp only [List.length_cons, hr']; omega
      have e2 : rest'.length % 2 = 0 := by omega
      simp only [PState.setTheta_setTheta, PState.setTheta_theta, getLast?_getD_cons, evtSpec, e1, e2, if_true, one_ne_zero,
        if_false, mul_assoc]

/-- the pairing loop on an object whose phase-shift factor raises: the first angle is written, then the exception -/
theorem evtLoopH_err (env : MatEnv α M) (b : BState) (e : Err) (start : ℕ) (k : ℕ) (a c : α) (rest pre : List α) (s : ℕ)
    (p : PState α) (acc : M) (he : kronErr b p = some e) (hs : 2 * s - start = pre.length) (hle : start ≤ 2 * s) :
    evtLoopH env b (pre ++ a :: c :: rest) start p acc (List.range' s (k + 1)) = (p.setTheta a, .error e) := by
  have i2 : 2 * s + 1 - start = pre.length + 1 := by omega
  rw [List.range'_succ]
  simp only [evtLoopH, hs, i2, getElem?_append_len, getElem?_append_len_succ]
  rw [evtMulH_err env b p e he]

/-- **`as_matrix` on an object whose phase-shift matrix exists and fits**: the defining alternating product of the CURRENT
angle list, and nothing changes except that the processing object keeps the last angle -/
theorem asMatrixH_ok (env : MatEnv α M) (s : EState α) (a0 : α) (rest : List α) (d : List Bool)
    (hθ : s.thetas = some (a0 :: rest)) (hd : s.proc.asMatrixDiag = .ok d) (hl : s.proc.proj.length = s.block.naux) :
    asMatrixH env s = ({ s with proc := s.proc.setTheta (rest.getLast?.getD a0) },
      .ok (evtSpec (fun θ => env.phase θ d) env.U env.Ui (a0 :: rest))) := by
  unfold asMatrixH
  simp only [hθ]
  split_ifs with hpar
  · have hk : (a0 :: rest).length = 2 * ((a0 :: rest).length / 2) := by omega
    have := evtLoopH_spec env s.block d 0 ((a0 :: rest).length / 2) (a0 :: rest) [] 0 s.proc 1 hd hl hk (by simp) (by omega)
    simp only [List.nil_append] at this
    rw [this]
    simp [getLast?_getD_cons]
  · rw [evtMulH_ok env s.block s.proc d hd hl]
    simp only
    have hlen : (a0 :: rest).length - 1 = rest.length := by simp
    have hk : rest.length = 2 * (((a0 :: rest).length - 1) / 2) := by
      rw [hlen]; simp only [List.length_cons] at hpar; omega
    have := evtLoopH_spec env s.block d 1 (((a0 :: rest).length - 1) / 2) rest [a0] 1 (s.proc.setTheta a0) (1 * env.phase a0 d * env.U)
      hd hl hk (by simp) (by omega)
    have happ : [a0] ++ rest = a0 :: rest := rfl
    rw [happ] at this
    rw [this]
    have hpar' : rest.length % 2 = 0 := by simp only [List.length_cons] at hpar; omega
    simp [evtSpec, hpar', mul_assoc]

/-- **`as_matrix` on an object whose phase-shift factor raises** (projection state with a non-zero entry, empty, or of the
wrong length): the FIRST angle has already been written to the processing object when the exception comes -/
theorem asMatrixH_err (env : MatEnv α M) (s : EState α) (a0 : α) (rest : List α) (e : Err)
    (hθ : s.thetas = some (a0 :: rest)) (he : kronErr s.block s.proc = some e) :
    asMatrixH env s = ({ s with proc := s.proc.setTheta a0 }, .error e) := by
  unfold asMatrixH
  simp only [hθ]
  split_ifs with hpar
  · match rest, hpar with
    | c :: rest', hpar =>
      have hdiv : (a0 :: c :: rest').length / 2 = rest'.length / 2 + 1 := by simp only [List.length_cons]; omega
      rw [hdiv]
      have := evtLoopH_err env s.block e 0 (rest'.length / 2) a0 c rest' [] 0 s.proc 1 he (by simp) (by omega)
      simp only [List.nil_append] at this
      rw [this]
  · rw [evtMulH_err env s.block s.proc e he]

theorem asMatrixH_noangles (env : MatEnv α M) (s : EState α) (h : s.thetas = none ∨ s.thetas = some []) :
    asMatrixH env s = (s, .error .valueError) := by
  unfold asMatrixH
  rcases h with h | h <;> simp [h]

/-- whatever happens, `as_matrix` changes nothing but the angle of the processing object -/
theorem asMatrixH_frame (env : MatEnv α M) (s : EState α) : ∃ t, (asMatrixH env s).1 = { s with proc := s.proc.setTheta t } := by
  obtain ⟨b, p, th⟩ := s
  cases th with
  | none => exact ⟨p.theta, by rw [asMatrixH_noangles env _ (Or.inl rfl)]; rfl⟩
  | some l =>
    cases l with
    | nil => exact ⟨p.theta, by rw [asMatrixH_noangles env _ (Or.inr rfl)]; rfl⟩
    | cons a0 rest =>
      cases he : kronErr b p with
      | some e => exact ⟨a0, by rw [asMatrixH_err env _ a0 rest e rfl he]⟩
      | none =>
        obtain ⟨d, hd, hl⟩ := (kronErr_none_iff b p).mp he
        exact ⟨rest.getLast?.getD a0, by rw [asMatrixH_ok env _ a0 rest d rfl hd hl]⟩

end Matrix

/-! ### `as_circuit` -/

section Circuit
variable {α : Type} [Mul α] [Div α] [Neg α] [Sub α] [OfNat α 1] [OfNat α 2]

theorem evtPrepend_setTheta (pc : Pcps α) (a θ : α) (g : EvtItem α) (circ : List (EvtItem α)) :
    evtPrepend (pc.setTheta a) θ g circ = evtPrepend pc θ g circ := rfl

theorem evtCircuitLoop_setTheta (pc : Pcps α) (t : α) (θs : List α) (start : ℕ) :
    ∀ (is : List ℕ) (circ : List (EvtItem α)), evtCircuitLoop (pc.setTheta t) θs start circ is = evtCircuitLoop pc θs start circ is := by
  intro is
  induction is with
  | nil => intro circ; rfl
  | cons i is ih =>
    intro circ
    have hb : evtCircuitBody (pc.setTheta t) θs start circ i = evtCircuitBody pc θs start circ i := rfl
    simp only [evtCircuitLoop, hb]
    cases evtCircuitBody pc θs start circ i with
    | error e => rfl
    | ok c' => exact ih c'

theorem evtPrependH_eq (p : PState α) (e : List ℕ) (he : p.enc = some e) (θ : α) (g : EvtItem α) (circ : List (EvtItem α)) :
    evtPrependH p θ g circ = (p.setTheta θ, evtPrepend (p.toPcps e) θ g circ) := by
  unfold evtPrependH evtPrepend
  have h := (p.setTheta θ).asCircuit_eq e (by simpa using he)
  rw [PState.toPcps_setTheta] at h
  simp only [h]
  cases ((p.toPcps e).setTheta θ).asCircuit <;> rfl

/-- the threaded prepend loop returns what the pure loop of `QibModel/Qubitization.lean` returns -/
theorem evtCircuitLoopH_val (θs : List α) (start : ℕ) (e : List ℕ) :
    ∀ (is : List ℕ) (p : PState α) (circ : List (EvtItem α)), p.enc = some e →
      (evtCircuitLoopH θs start p circ is).2 = evtCircuitLoop (p.toPcps e) θs start circ is := by
  intro is
  induction is with
  | nil => intro p circ _; rfl
  | cons i is ih =>
    intro p circ he
    simp only [evtCircuitLoopH, evtCircuitLoop, evtCircuitBody]
    cases h1 : θs[2 * i - start]? with
    | none => rfl
    | some a =>
      cases h2 : θs[2 * i + 1 - start]? with
      | none => rfl
      | some c =>
        simp only [evtPrependH_eq p e he]
        cases hp1 : evtPrepend (p.toPcps e) a EvtItem.encInv circ with
        | error err => rfl
        | ok c1 =>
          simp only [evtPrependH_eq (p.setTheta a) e (by simpa using he), PState.toPcps_setTheta, evtPrepend_setTheta,
            PState.setTheta_setTheta]
          cases hp2 : evtPrepend (p.toPcps e) c EvtItem.enc c1 with
          | error err => rfl
          | ok c2 =>
            simp only
            rw [ih (p.setTheta c) c2 (by simpa using he), PState.toPcps_setTheta, evtCircuitLoop_setTheta]

/-- on an object whose `as_circuit` returns, the loop leaves the processing object with the last angle -/
theorem evtCircuitLoopH_state_ok (start : ℕ) :
    ∀ (k : ℕ) (rest pre : List α) (s : ℕ) (p : PState α) (circ : List (EvtItem α)), (∃ c, p.asCircuit = .ok c) →
      rest.length = 2 * k → 2 * s - start = pre.length → start ≤ 2 * s →
      (evtCircuitLoopH (pre ++ rest) start p circ (List.range' s k)).1 = p.setTheta (rest.getLast?.getD p.theta) ∧
      ∃ out, (evtCircuitLoopH (pre ++ rest) start p circ (List.range' s k)).2 = .ok out := by
  intro k
  induction k with
  | zero =>
    intro rest pre s p circ _ hr _ _
    have : rest = [] := List.length_eq_zero_iff.mp (by omega)
    subst this
    simp [evtCircuitLoopH]
  | succ k ih =>
    intro rest pre s p circ hok hr hs hle
    have hokθ : ∀ θ, ∃ c, (p.setTheta θ).asCircuit = .ok c := by
      intro θ
      cases h : (p.setTheta θ).asCircuit with
      | ok c => exact ⟨c, rfl⟩
      | error err =>
        obtain ⟨c, hc⟩ := hok
        rw [(p.asCircuit_setTheta_error θ err).mp h] at hc; cases hc
    match rest, hr with
    | a :: c :: rest', hr =>
      have hr' : rest'.length = 2 * k := by simp at hr; omega
      have i1 : 2 * s - start = pre.length := hs
      have i2 : 2 * s + 1 - start = pre.length + 1 := by omega
      rw [List.range'_succ]
      simp only [evtCircuitLoopH, i1, i2, getElem?_append_len, getElem?_append_len_succ]
      obtain ⟨ca, hca⟩ := hokθ a
      obtain ⟨cc, hcc⟩ := hokθ c
      have hcc' : ((p.setTheta a).setTheta c).asCircuit = .ok cc := hcc
      simp only [evtPrependH, hca, hcc']
      have happ : pre ++ a :: c :: rest' = (pre ++ [a, c]) ++ rest' := by simp
      rw [happ]
      have := ih rest' (pre ++ [a, c]) (s + 1) (p.setTheta c) (EvtItem.enc :: (cc.map EvtItem.gate ++ (EvtItem.encInv :: (ca.map EvtItem.gate ++ circ))))
        ⟨cc, hcc⟩ hr' (by simp; omega) (by omega)
      simpa [getLast?_getD_cons] using this

/-- on an object whose `as_circuit` raises, the first angle is written, then the exception -/
theorem evtCircuitLoopH_err (start : ℕ) (k : ℕ) (a c : α) (rest pre : List α) (s : ℕ) (p : PState α) (circ : List (EvtItem α))
    (err : Err) (he : p.asCircuit = .error err) (hs : 2 * s - start = pre.length) (hle : start ≤ 2 * s) :
    evtCircuitLoopH (pre ++ a :: c :: rest) start p circ (List.range' s (k + 1)) = (p.setTheta a, .error err) := by
  have i2 : 2 * s + 1 - start = pre.length + 1 := by omega
  rw [List.range'_succ]
  simp only [evtCircuitLoopH, hs, i2, getElem?_append_len, getElem?_append_len_succ]
  have : (p.setTheta a).asCircuit = .error err := (p.asCircuit_setTheta_error a err).mpr he
  simp only [evtPrependH, this]

/-- **the result of `as_circuit` on an object in any state** is the result of the pure model `evtCircuit` for the current
attributes (once `processing.encoding_qubits` exists) -/
theorem asCircuitH_val (s : EState α) (e : List ℕ) (he : s.proc.enc = some e) :
    (asCircuitH s).2 = evtCircuit (s.proc.toPcps e) s.block.aux s.thetas := by
  unfold asCircuitH evtCircuit
  simp only [he]
  have hpe : (s.proc.toPcps e).enc = e := rfl
  rw [hpe]
  split_ifs with hq
  · rfl
  · cases hθ : s.thetas with
    | none => rfl
    | some l =>
      cases l with
      | nil => rfl
      | cons a0 rest =>
        simp only
        split_ifs with hpar
        · exact evtCircuitLoopH_val (a0 :: rest) 0 e _ s.proc [] he
        · rw [evtPrependH_eq s.proc e he]
          cases hp : evtPrepend (s.proc.toPcps e) a0 EvtItem.enc [] with
          | error err => rfl
          | ok c0 =>
            simp only
            rw [evtCircuitLoopH_val (a0 :: rest) 1 e _ (s.proc.setTheta a0) c0 (by simpa using he), PState.toPcps_setTheta,
              evtCircuitLoop_setTheta]

/-- the three refusals in front of the loops leave the object untouched -/
theorem asCircuitH_refused (s : EState α) :
    (s.proc.enc = none → asCircuitH s = (s, .error .other)) ∧
    (∀ e, s.proc.enc = some e → s.block.aux ≠ e → asCircuitH s = (s, .error .runtimeError)) ∧
    (∀ e, s.proc.enc = some e → s.block.aux = e → (s.thetas = none ∨ s.thetas = some []) → asCircuitH s = (s, .error .valueError)) := by
  refine ⟨fun h => by simp [asCircuitH, h], fun e h hne => by simp [asCircuitH, h, hne], fun e h heq hθ => ?_⟩
  rcases hθ with hθ | hθ <;> simp [asCircuitH, h, heq, hθ]

/-- past the refusals, with a processing object whose `as_circuit` returns: the last angle stays in the processing object -/
theorem asCircuitH_state_ok (s : EState α) (e : List ℕ) (a0 : α) (rest : List α) (he : s.proc.enc = some e) (hb : s.block.aux = e)
    (hθ : s.thetas = some (a0 :: rest)) (hok : ∃ c, s.proc.asCircuit = .ok c) :
    (asCircuitH s).1 = { s with proc := s.proc.setTheta (rest.getLast?.getD a0) } ∧ ∃ items, (asCircuitH s).2 = .ok items := by
  have hokθ : ∀ θ, ∃ c, (s.proc.setTheta θ).asCircuit = .ok c := by
    intro θ
    cases h : (s.proc.setTheta θ).asCircuit with
    | ok c => exact ⟨c, rfl⟩
    | error err =>
      obtain ⟨c, hc⟩ := hok
      rw [(s.proc.asCircuit_setTheta_error θ err).mp h] at hc; cases hc
  unfold asCircuitH
  simp only [he, hb, hθ, ne_eq, not_true_eq_false, if_false]
  split_ifs with hpar
  · have hk : (a0 :: rest).length = 2 * ((a0 :: rest).length / 2) := by omega
    have := evtCircuitLoopH_state_ok 0 ((a0 :: rest).length / 2) (a0 :: rest) [] 0 s.proc [] hok hk (by simp) (by omega)
    simp only [List.nil_append] at this
    obtain ⟨h1, out, h2⟩ := this
    refine ⟨?_, out, h2⟩
    simp only [h1, getLast?_getD_cons]
  · obtain ⟨c0, hc0⟩ := hokθ a0
    simp only [evtPrependH, hc0]
    have hlen : (a0 :: rest).length - 1 = rest.length := by simp
    have hk : rest.length = 2 * (((a0 :: rest).length - 1) / 2) := by
      rw [hlen]; simp only [List.length_cons] at hpar; omega
    have := evtCircuitLoopH_state_ok 1 (((a0 :: rest).length - 1) / 2) rest [a0] 1 (s.proc.setTheta a0)
      (EvtItem.enc :: (c0.map EvtItem.gate ++ [])) ⟨c0, hc0⟩ hk (by simp) (by omega)
    have happ : [a0] ++ rest = a0 :: rest := rfl
    rw [happ] at this
    obtain ⟨h1, out, h2⟩ := this
    refine ⟨?_, out, h2⟩
    simp only [h1, PState.setTheta_setTheta, PState.setTheta_theta]

/-- past the refusals, with a processing object whose `as_circuit` raises: the FIRST angle has been written, then the exception -/
theorem asCircuitH_err (s : EState α) (e : List ℕ) (a0 : α) (rest : List α) (err : Err) (he : s.proc.enc = some e)
    (hb : s.block.aux = e) (hθ : s.thetas = some (a0 :: rest)) (herr : s.proc.asCircuit = .error err) :
    asCircuitH s = ({ s with proc := s.proc.setTheta a0 }, .error err) := by
  unfold asCircuitH
  simp only [he, hb, hθ, ne_eq, not_true_eq_false, if_false]
  split_ifs with hpar
  · match rest, hpar with
    | c :: rest', hpar =>
      have hdiv : (a0 :: c :: rest').length / 2 = rest'.length / 2 + 1 := by simp only [List.length_cons]; omega
      rw [hdiv]
      have := evtCircuitLoopH_err 0 (rest'.length / 2) a0 c rest' [] 0 s.proc [] err herr (by simp) (by omega)
      simp only [List.nil_append] at this
      rw [this]
  · have : (s.proc.setTheta a0).asCircuit = .error err := (s.proc.asCircuit_setTheta_error a0 err).mpr herr
    simp only [evtPrependH, this]

/-- whatever happens, `as_circuit` changes nothing but the angle of the processing object -/
theorem asCircuitH_frame (s : EState α) : ∃ t, (asCircuitH s).1 = { s with proc := s.proc.setTheta t } := by
  obtain ⟨r1, r2, r3⟩ := asCircuitH_refused s
  obtain ⟨b, p, th⟩ := s
  cases he : p.enc with
  | none => exact ⟨p.theta, by rw [r1 he]; rfl⟩
  | some e =>
    by_cases hb : b.aux = e
    · cases th with
      | none => exact ⟨p.theta, by rw [r3 e he hb (Or.inl rfl)]; rfl⟩
      | some l =>
        cases l with
        | nil => exact ⟨p.theta, by rw [r3 e he hb (Or.inr rfl)]; rfl⟩
        | cons a0 rest =>
          cases hc : p.asCircuit with
          | error err => exact ⟨a0, by rw [asCircuitH_err _ e a0 rest err he hb rfl hc]⟩
          | ok c => exact ⟨rest.getLast?.getD a0, (asCircuitH_state_ok _ e a0 rest he hb rfl ⟨c, hc⟩).1⟩
    · exact ⟨p.theta, by rw [r2 e he hb]; rfl⟩

end Circuit

/-! ### calls on the object and the delegation to the processing object -/

section Exec
variable {α : Type}

/-- the call on the processing object that an `EigenvalueTransformation` call amounts to, if any (observations only move
the angle) -/
def EOp.procOp : EOp α → Option (POp α)
  | .setAux a => some (.setAux a.toArgs)
  | .setProj ps => some (.setProj ps)
  | .setMethod m => some (.setMethod m)
  | .setEnc a => some (.setEnc a.toArgs)
  | .inner op => some op
  | _ => none

/-- setting the angle commutes with every call up to the angle itself -/
theorem PState.step_setTheta_comm (p : PState α) (t : α) (op : POp α) :
    ∃ t', ((p.setTheta t).step op).state = (p.step op).state.setTheta t' := by
  obtain ⟨θ, pr, e, a, m⟩ := p
  cases op with
  | setTheta θ' => exact ⟨θ', rfl⟩
  | setProj ps => refine ⟨t, ?_⟩; simp only [PState.step, PState.setTheta]; split_ifs <;> rfl
  | setMethod str => refine ⟨t, ?_⟩; simp only [PState.step, PState.setTheta]; split_ifs <;> rfl
  | setEnc x => exact ⟨t, rfl⟩
  | setAux x => refine ⟨t, ?_⟩; cases m <;> rfl

theorem PState.run_setTheta_comm (p : PState α) (t : α) (ops : List (POp α)) :
    ∃ t', (p.setTheta t).run ops = (p.run ops).setTheta t' := by
  induction ops generalizing p t with
  | nil => exact ⟨t, rfl⟩
  | cons op ops ih =>
    obtain ⟨t1, h1⟩ := p.step_setTheta_comm t op
    obtain ⟨t2, h2⟩ := ih (p.step op).state t1
    exact ⟨t2, by rw [PState.run, h1, h2]; rfl⟩


/-- the last angle list passed to `set_theta_seq` (else the constructor's) -/
def lastThetas : Option (List α) → List (EOp α) → Option (List α)
  | θs, [] => θs
  | _, .setThetaSeq θs' :: ops => lastThetas θs' ops
  | θs, _ :: ops => lastThetas θs ops

/-- the block encoding's auxiliary qubits: the last list of exactly `naux` qubits passed to
`EigenvalueTransformation.set_encoding_qubits` or to the block encoding's own `set_auxiliary_qubits` -/
def lastBlockAux (naux : ℕ) : List ℕ → List (EOp α) → List ℕ
  | b, [] => b
  | b, .setEnc a :: ops => if a.toArgs.norm.length = naux then lastBlockAux naux a.toArgs.norm ops else lastBlockAux naux b ops
  | b, .blockSetAux a :: ops => if a.norm.length = naux then lastBlockAux naux a.norm ops else lastBlockAux naux b ops
  | b, _ :: ops => lastBlockAux naux b ops

end Exec

section ExecR
variable {α M : Type} [Monoid M] [Mul α] [Div α] [Neg α] [Sub α] [OfNat α 1] [OfNat α 2]

/-- **delegation, one call**: what a call on the `EigenvalueTransformation` does to the processing object is what the
corresponding call on the processing object itself does — up to the angle, which the observations move -/
theorem EState.exec_proc (env : MatEnv α M) (s : EState α) (op : EOp α) :
    ∃ t, (s.exec env op).state.proc =
      (match op.procOp with
        | some o => (s.proc.step o).state
        | none => s.proc).setTheta t := by
  cases op with
  | setThetaSeq θs => exact ⟨s.proc.theta, rfl⟩
  | setAux a => exact ⟨_, (PState.setTheta_self _).symm⟩
  | setProj ps => exact ⟨_, (PState.setTheta_self _).symm⟩
  | setMethod m => exact ⟨_, (PState.setTheta_self _).symm⟩
  | setEnc a => exact ⟨s.proc.theta, rfl⟩
  | inner o => exact ⟨_, (PState.setTheta_self _).symm⟩
  | blockSetAux a => exact ⟨s.proc.theta, rfl⟩
  | asMatrix =>
    obtain ⟨t, ht⟩ := asMatrixH_frame env s
    refine ⟨t, ?_⟩
    simp only [EState.exec, EOp.procOp]
    cases h : asMatrixH env s with
    | mk s' r =>
      rw [h] at ht
      cases r <;> simp only [] <;> rw [show s' = _ from ht]
  | asCircuit =>
    obtain ⟨t, ht⟩ := asCircuitH_frame s
    refine ⟨t, ?_⟩
    simp only [EState.exec, EOp.procOp]
    cases h : asCircuitH s with
    | mk s' r =>
      rw [h] at ht
      cases r <;> simp only [] <;> rw [show s' = _ from ht]

/-- **delegation, every history**: the processing object inside an `EigenvalueTransformation` is, up to its angle, in the state
it would be in had every call — on the transformation or on the processing object itself — been made on it directly -/
theorem EState.run_proc (env : MatEnv α M) (s : EState α) (ops : List (EOp α)) :
    ∃ t, (s.run env ops).proc = (s.proc.run (ops.filterMap EOp.procOp)).setTheta t := by
  induction ops generalizing s with
  | nil => exact ⟨s.proc.theta, rfl⟩
  | cons op ops ih =>
    obtain ⟨t1, h1⟩ := s.exec_proc env op
    obtain ⟨t2, h2⟩ := ih (s.exec env op).state
    rw [EState.run, h2, h1]
    cases hp : op.procOp with
    | none =>
      simp only [List.filterMap_cons, hp]
      obtain ⟨t3, h3⟩ := s.proc.run_setTheta_comm t1 (ops.filterMap EOp.procOp)
      exact ⟨t2, by rw [h3]; rfl⟩
    | some o =>
      simp only [List.filterMap_cons, hp, PState.run]
      obtain ⟨t3, h3⟩ := (s.proc.step o).state.run_setTheta_comm t1 (ops.filterMap EOp.procOp)
      exact ⟨t2, by rw [h3]; rfl⟩

theorem EState.exec_thetas (env : MatEnv α M) (s : EState α) (op : EOp α) :
    (s.exec env op).state.thetas = lastThetas s.thetas [op] := by
  cases op with
  | asMatrix =>
    obtain ⟨t, ht⟩ := asMatrixH_frame env s
    simp only [EState.exec, lastThetas]
    cases h : asMatrixH env s with
    | mk s' r => rw [h] at ht; cases r <;> simp only [] <;> rw [show s' = _ from ht]
  | asCircuit =>
    obtain ⟨t, ht⟩ := asCircuitH_frame s
    simp only [EState.exec, lastThetas]
    cases h : asCircuitH s with
    | mk s' r => rw [h] at ht; cases r <;> simp only [] <;> rw [show s' = _ from ht]
  | setEnc a =>
    simp only [EState.exec, lastThetas]
    cases (s.proc.step (POp.setEnc a.toArgs)).raised <;> rfl
  | _ => rfl

theorem EState.run_thetas (env : MatEnv α M) (s : EState α) (ops : List (EOp α)) :
    (s.run env ops).thetas = lastThetas s.thetas ops := by
  induction ops generalizing s with
  | nil => rfl
  | cons op ops ih =>
    rw [EState.run, ih, s.exec_thetas env op]
    cases op <;> rfl

theorem EState.exec_block (env : MatEnv α M) (s : EState α) (op : EOp α) :
    (s.exec env op).state.block = { s.block with aux := lastBlockAux s.block.naux s.block.aux [op] } := by
  cases op with
  | asMatrix =>
    obtain ⟨t, ht⟩ := asMatrixH_frame env s
    simp only [EState.exec, lastBlockAux]
    cases h : asMatrixH env s with
    | mk s' r => rw [h] at ht; cases r <;> simp only [] <;> rw [show s' = _ from ht]
  | asCircuit =>
    obtain ⟨t, ht⟩ := asCircuitH_frame s
    simp only [EState.exec, lastBlockAux]
    cases h : asCircuitH s with
    | mk s' r => rw [h] at ht; cases r <;> simp only [] <;> rw [show s' = _ from ht]
  | setEnc a =>
    simp only [EState.exec, lastBlockAux, PState.step, Outcome.ok, BState.setAux]
    by_cases hl : a.toArgs.norm.length = s.block.naux <;> simp [hl, Outcome.fail]
  | blockSetAux a =>
    simp only [EState.exec, lastBlockAux, BState.setAux]
    by_cases hl : a.norm.length = s.block.naux <;> simp [hl, Outcome.ok, Outcome.fail]
  | _ => rfl

theorem EState.run_block (env : MatEnv α M) (s : EState α) (ops : List (EOp α)) :
    (s.run env ops).block = { s.block with aux := lastBlockAux s.block.naux s.block.aux ops } := by
  induction ops generalizing s with
  | nil => rfl
  | cons op ops ih =>
    rw [EState.run, ih, s.exec_block env op]
    cases op <;> simp only [lastBlockAux] <;> (try split_ifs) <;> rfl

end ExecR

end Qib.Qubitization
