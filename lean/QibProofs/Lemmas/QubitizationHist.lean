import QibModel.QubitizationHist
import QibProofs.Lemmas.QubitizationAct
import QibProofs.Lemmas.QubitizationEvt
import QibProofs.Lemmas.QubitizationMat
/-!
Helper lemmas for C19 (histories): the state machine of `ProjectorControlledPhaseShift` (`PState.step`, `PState.run` of
`QibModel/QubitizationHist.lean`) — what each call does to each attribute, invariants of all histories, the last value
passed for every parameter, and the bridge from `PState.asCircuit` to `Pcps.asCircuit` (about which C19 is proved).
No property statements here.
-/
namespace Qib.Qubitization

/-! ### the acceptance test of `set_projection_state` -/

/-- `set(ps) == {0, 1}` -/
def ProjSettable (ps : List Int) : Prop := (∀ x ∈ ps, x = 0 ∨ x = 1) ∧ 0 ∈ ps ∧ 1 ∈ ps

theorem projSetIsZeroOne_iff (ps : List Int) : projSetIsZeroOne ps = true ↔ ProjSettable ps := by
  simp [projSetIsZeroOne, ProjSettable, and_assoc]

/-! ### single calls -/

section Step
variable {α : Type}

@[simp] theorem PState.setTheta_setTheta (s : PState α) (a b : α) : (s.setTheta a).setTheta b = s.setTheta b := rfl

@[simp] theorem PState.setTheta_self (s : PState α) : s.setTheta s.theta = s := rfl

@[simp] theorem PState.setTheta_theta (s : PState α) (a : α) : (s.setTheta a).theta = a := rfl
@[simp] theorem PState.setTheta_proj (s : PState α) (a : α) : (s.setTheta a).proj = s.proj := rfl
@[simp] theorem PState.setTheta_enc (s : PState α) (a : α) : (s.setTheta a).enc = s.enc := rfl
@[simp] theorem PState.setTheta_aux (s : PState α) (a : α) : (s.setTheta a).aux = s.aux := rfl
@[simp] theorem PState.setTheta_method (s : PState α) (a : α) : (s.setTheta a).method = s.method := rfl

/-- a raising call of a `ProjectorControlledPhaseShift` setter has written nothing -/
theorem PState.step_raised_unchanged (s : PState α) (op : POp α) (e : Err) (h : (s.step op).raised = some e) :
    (s.step op).state = s := by
  cases op with
  | setTheta θ => simp [PState.step, Outcome.ok] at h
  | setProj ps =>
    simp only [PState.step] at h ⊢
    split_ifs at h ⊢ with hp
    · simp [Outcome.ok] at h
    · rfl
  | setMethod m =>
    simp only [PState.step] at h ⊢
    split_ifs at h ⊢ with h1 h2
    · simp [Outcome.ok] at h
    · simp [Outcome.ok] at h
    · rfl
  | setEnc a => simp [PState.step, Outcome.ok] at h
  | setAux a =>
    simp only [PState.step] at h
    cases hm : s.method <;> simp [hm, Outcome.ok] at h

/-- which calls raise, and what -/
theorem PState.step_raised (s : PState α) (op : POp α) :
    (s.step op).raised =
      match op with
      | .setProj ps => if projSetIsZeroOne ps then none else some .valueError
      | .setMethod m => if m = "auxiliary" ∨ m = "c-phase" then none else some .runtimeError
      | _ => none := by
  cases op with
  | setTheta θ => rfl
  | setProj ps => simp only [PState.step]; split_ifs <;> rfl
  | setMethod m =>
    simp only [PState.step]
    by_cases h1 : m = "auxiliary"
    · simp [h1, Outcome.ok]
    · by_cases h2 : m = "c-phase"
      · simp [h2, Outcome.ok]
      · simp [h1, h2, Outcome.fail]
  | setEnc a => rfl
  | setAux a => simp only [PState.step]; cases s.method <;> rfl

end Step

/-! ### invariants of every history -/

section Inv
variable {α : Type}

/-- what holds of every `ProjectorControlledPhaseShift` object however it was reached: the projection state has 0/1 entries
only, and with the c-phase method the auxiliary list exists and is empty -/
def PState.Inv (s : PState α) : Prop :=
  (∀ x ∈ s.proj, x = 0 ∨ x = 1) ∧ (s.method = .cphase → s.aux = some [])

theorem PState.init_inv {θ : α} {proj : List Int} {enc aux : CArg} {method : String} {s : PState α}
    (h : PState.init θ proj enc aux method = .ok s) : s.Inv := by
  unfold PState.init at h
  split_ifs at h with h1 h2 h3
  · cases h
    refine ⟨?_, by intro hm; cases hm⟩
    intro x hx
    have := h1
    simp only [List.any_eq_true, not_exists, not_and] at this
    have hx' := this x hx
    simp only [Bool.and_eq_true, bne_iff_ne, ne_eq, not_and, not_not] at hx'
    by_cases h0 : x = 0
    · exact Or.inl h0
    · exact Or.inr (hx' h0)
  · cases h
    refine ⟨?_, fun _ => rfl⟩
    intro x hx
    have := h1
    simp only [List.any_eq_true, not_exists, not_and] at this
    have hx' := this x hx
    simp only [Bool.and_eq_true, bne_iff_ne, ne_eq, not_and, not_not] at hx'
    by_cases h0 : x = 0
    · exact Or.inl h0
    · exact Or.inr (hx' h0)

theorem PState.step_inv (s : PState α) (op : POp α) (h : s.Inv) : (s.step op).state.Inv := by
  obtain ⟨h1, h2⟩ := h
  cases op with
  | setTheta θ => exact ⟨h1, h2⟩
  | setProj ps =>
    simp only [PState.step]
    split_ifs with hp
    · exact ⟨((projSetIsZeroOne_iff ps).mp hp).1, h2⟩
    · exact ⟨h1, h2⟩
  | setMethod m =>
    simp only [PState.step]
    split_ifs with ha hc
    · exact ⟨h1, by intro hm; cases hm⟩
    · exact ⟨h1, fun _ => rfl⟩
    · exact ⟨h1, h2⟩
  | setEnc a => exact ⟨h1, h2⟩
  | setAux a =>
    simp only [PState.step]
    cases hm : s.method with
    | cphase => exact ⟨h1, h2⟩
    | auxiliary => exact ⟨h1, by intro hm'; simp [Outcome.ok] at hm'⟩

theorem PState.run_inv (s : PState α) (ops : List (POp α)) (h : s.Inv) : (s.run ops).Inv := by
  induction ops generalizing s with
  | nil => exact h
  | cons op ops ih => exact ih _ (s.step_inv op h)

/-- **no way back**: once the projection state contains a 1 it always will -/
theorem PState.step_one_mem (s : PState α) (op : POp α) (h : (1 : Int) ∈ s.proj) : (1 : Int) ∈ (s.step op).state.proj := by
  cases op with
  | setTheta θ => exact h
  | setProj ps =>
    simp only [PState.step]
    split_ifs with hp
    · exact ((projSetIsZeroOne_iff ps).mp hp).2.2
    · exact h
  | setMethod m => simp only [PState.step]; split_ifs <;> exact h
  | setEnc a => exact h
  | setAux a => simp only [PState.step]; cases s.method <;> exact h

theorem PState.run_one_mem (s : PState α) (ops : List (POp α)) (h : (1 : Int) ∈ s.proj) : (1 : Int) ∈ (s.run ops).proj := by
  induction ops generalizing s with
  | nil => exact h
  | cons op ops ih => exact ih _ (s.step_one_mem op h)

/-- the projection state after a call is the old one, or one that contains a 1 -/
theorem PState.step_proj (s : PState α) (op : POp α) :
    (s.step op).state.proj = s.proj ∨ (1 : Int) ∈ (s.step op).state.proj := by
  cases op with
  | setTheta θ => exact Or.inl rfl
  | setProj ps =>
    simp only [PState.step]
    split_ifs with hp
    · exact Or.inr ((projSetIsZeroOne_iff ps).mp hp).2.2
    · exact Or.inl rfl
  | setMethod m => simp only [PState.step]; split_ifs <;> exact Or.inl rfl
  | setEnc a => exact Or.inl rfl
  | setAux a => simp only [PState.step]; cases s.method <;> exact Or.inl rfl

theorem PState.run_proj (s : PState α) (ops : List (POp α)) :
    (s.run ops).proj = s.proj ∨ (1 : Int) ∈ (s.run ops).proj := by
  induction ops generalizing s with
  | nil => exact Or.inl rfl
  | cons op ops ih =>
    rcases s.step_proj op with h | h
    · rcases ih (s.step op).state with h' | h'
      · exact Or.inl (h'.trans h)
      · exact Or.inr h'
    · exact Or.inr (PState.run_one_mem _ ops h)

theorem any_ne_zero_of_one_mem {proj : List Int} (h : (1 : Int) ∈ proj) : proj.any (· != 0) = true := by
  simp only [List.any_eq_true]
  exact ⟨1, h, by decide⟩

/-- a projection state containing a 1: `as_matrix` raises `RuntimeError` -/
theorem PState.asMatrixDiag_of_one_mem (s : PState α) (h : (1 : Int) ∈ s.proj) : s.asMatrixDiag = .error .runtimeError := by
  simp [PState.asMatrixDiag, pcpsMatrixDiag, any_ne_zero_of_one_mem h]

end Inv

/-! ### the last value passed, per parameter -/

section Last
variable {α : Type}

/-- the last angle passed to `set_theta` (else the constructor's) -/
def lastTheta : α → List (POp α) → α
  | θ, [] => θ
  | _, .setTheta θ' :: ops => lastTheta θ' ops
  | θ, _ :: ops => lastTheta θ ops

/-- the last list passed to `set_encoding_qubits` (else what the constructor assigned, if anything) -/
def lastEnc : Option (List ℕ) → List (POp α) → Option (List ℕ)
  | e, [] => e
  | _, .setEnc a :: ops => lastEnc (some a.norm) ops
  | e, _ :: ops => lastEnc e ops

/-- the last projection state passed to `set_projection_state` AND accepted by it (else the constructor's) -/
def lastProj : List Int → List (POp α) → List Int
  | p, [] => p
  | p, .setProj ps :: ops => if projSetIsZeroOne ps then lastProj ps ops else lastProj p ops
  | p, _ :: ops => lastProj p ops

/-- the last valid method name passed to `set_method` (else the constructor's) -/
def lastMethod : Method → List (POp α) → Method
  | m, [] => m
  | m, .setMethod str :: ops =>
    if str = "auxiliary" then lastMethod .auxiliary ops else if str = "c-phase" then lastMethod .cphase ops else lastMethod m ops
  | m, _ :: ops => lastMethod m ops

/-- the auxiliary list: the last one passed to `set_auxiliary_qubits` *while the method was "auxiliary"*, emptied by every
switch to "c-phase" (and NOT restored by switching back) -/
def lastAux : Method → Option (List ℕ) → List (POp α) → Option (List ℕ)
  | _, a, [] => a
  | m, a, .setAux x :: ops =>
    match m with
    | .auxiliary => lastAux m (some x.norm) ops
    | .cphase => lastAux m a ops
  | m, a, .setMethod str :: ops =>
    if str = "auxiliary" then lastAux .auxiliary a ops else if str = "c-phase" then lastAux .cphase (some []) ops else lastAux m a ops
  | m, a, _ :: ops => lastAux m a ops

theorem PState.run_theta (s : PState α) (ops : List (POp α)) : (s.run ops).theta = lastTheta s.theta ops := by
  induction ops generalizing s with
  | nil => rfl
  | cons op ops ih =>
    rw [PState.run, ih]
    obtain ⟨t, p, e, a, m⟩ := s
    cases op <;> cases m <;> simp only [PState.step, lastTheta, Outcome.ok, Outcome.fail, PState.setTheta] <;> split_ifs <;> rfl

theorem PState.run_enc (s : PState α) (ops : List (POp α)) : (s.run ops).enc = lastEnc s.enc ops := by
  induction ops generalizing s with
  | nil => rfl
  | cons op ops ih =>
    rw [PState.run, ih]
    obtain ⟨t, p, e, a, m⟩ := s
    cases op <;> cases m <;> simp only [PState.step, lastEnc, Outcome.ok, Outcome.fail, PState.setTheta] <;> split_ifs <;> rfl

theorem PState.run_proj_last (s : PState α) (ops : List (POp α)) : (s.run ops).proj = lastProj s.proj ops := by
  induction ops generalizing s with
  | nil => rfl
  | cons op ops ih =>
    rw [PState.run, ih]
    obtain ⟨t, p, e, a, m⟩ := s
    cases op <;> cases m <;> simp only [PState.step, lastProj, Outcome.ok, Outcome.fail, PState.setTheta] <;> split_ifs <;> rfl

theorem PState.run_method (s : PState α) (ops : List (POp α)) : (s.run ops).method = lastMethod s.method ops := by
  induction ops generalizing s with
  | nil => rfl
  | cons op ops ih =>
    rw [PState.run, ih]
    obtain ⟨t, p, e, a, m⟩ := s
    cases op <;> cases m <;> simp only [PState.step, lastMethod, Outcome.ok, Outcome.fail, PState.setTheta, beq_iff_eq] <;>
      split_ifs <;> rfl

theorem PState.run_aux (s : PState α) (ops : List (POp α)) : (s.run ops).aux = lastAux s.method s.aux ops := by
  induction ops generalizing s with
  | nil => cases s.method <;> rfl
  | cons op ops ih =>
    rw [PState.run, ih]
    obtain ⟨t, p, e, a, m⟩ := s
    cases op <;> cases m <;> simp only [PState.step, lastAux, Outcome.ok, Outcome.fail, PState.setTheta, beq_iff_eq] <;>
      split_ifs <;> rfl

end Last

/-! ### bridge to `Pcps.asCircuit` -/

/-- the record of `QibModel/Qubitization.lean` a state denotes once `encoding_qubits` exists (an unset or empty auxiliary list
both make the auxiliary construction fail in the same way) -/
def PState.toPcps {α : Type} (s : PState α) (enc : List ℕ) : Pcps α := ⟨s.theta, s.proj, enc, s.aux.getD [], s.method⟩

section Bridge
variable {α : Type} [Mul α] [Div α] [Neg α] [Sub α] [OfNat α 1] [OfNat α 2]

theorem PState.asCircuit_eq (s : PState α) (e : List ℕ) (he : s.enc = some e) : s.asCircuit = (s.toPcps e).asCircuit := by
  unfold PState.asCircuit Pcps.asCircuit PState.toPcps
  simp only [he]
  split_ifs with h1 h2
  · rfl
  · rfl
  · cases hm : s.method with
    | auxiliary =>
      cases ha : s.aux with
      | none => simp
      | some l => cases l <;> simp
    | cphase => rfl

theorem PState.asCircuit_none (s : PState α) (he : s.enc = none) : s.asCircuit = .error .other := by
  simp [PState.asCircuit, he]

omit [Mul α] [Div α] [Neg α] [Sub α] [OfNat α 1] [OfNat α 2] in
theorem PState.toPcps_setTheta (s : PState α) (e : List ℕ) (θ : α) : (s.setTheta θ).toPcps e = (s.toPcps e).setTheta θ := rfl

/-- whether `as_circuit` raises, and what, does not depend on the angle -/
theorem PState.asCircuit_setTheta_error (s : PState α) (θ : α) (err : Err) :
    (s.setTheta θ).asCircuit = .error err ↔ s.asCircuit = .error err := by
  obtain ⟨t, p, e, a, m⟩ := s
  cases e with
  | none => simp [PState.asCircuit, PState.setTheta]
  | some enc =>
    simp only [PState.asCircuit, PState.setTheta]
    by_cases h1 : p.length ≠ enc.length
    · simp [h1]
    · have h1' : p.length = enc.length := by simpa using h1
      by_cases h2 : p.any (· != 0) = true
      · simp [h1', h2]
      · cases m with
        | auxiliary =>
          cases a with
          | none => simp [h1', h2]
          | some l => cases l <;> simp [h1', h2]
        | cphase => cases enc <;> simp [h1', h2]

/-- a projection state containing a 1: `as_circuit` raises -/
theorem PState.asCircuit_of_one_mem (s : PState α) (h : (1 : Int) ∈ s.proj) : ∃ e, s.asCircuit = .error e := by
  unfold PState.asCircuit
  cases s.enc with
  | none => exact ⟨_, rfl⟩
  | some enc =>
    simp only
    split_ifs with h1 h2
    · exact ⟨_, rfl⟩
    · exact ⟨_, rfl⟩
    · exact absurd (any_ne_zero_of_one_mem h) h2

/-- **when `as_circuit` returns**: the encoding qubits exist, the projection state is all-zero of their number, and the
construction has its first qubit -/
theorem PState.asCircuit_ok_iff (s : PState α) :
    (∃ c, s.asCircuit = .ok c) ↔
      ∃ e, s.enc = some e ∧ s.proj = List.replicate e.length 0 ∧
        ((s.method = .auxiliary ∧ ∃ a r, s.aux = some (a :: r)) ∨ (s.method = .cphase ∧ e ≠ [])) := by
  constructor
  · rintro ⟨c, hc⟩
    unfold PState.asCircuit at hc
    cases he : s.enc with
    | none => simp [he] at hc
    | some e =>
      simp only [he] at hc
      split_ifs at hc with h1 h2
      have hlen : s.proj.length = e.length := by simpa using h1
      have hz := all_zero_of_not_any h2
      rw [hlen] at hz
      refine ⟨e, rfl, hz, ?_⟩
      cases hm : s.method with
      | auxiliary =>
        simp only [hm] at hc
        cases ha : s.aux with
        | none => simp [ha] at hc
        | some l =>
          cases l with
          | nil => simp [ha] at hc
          | cons a r => exact Or.inl ⟨rfl, a, r, rfl⟩
      | cphase =>
        simp only [hm] at hc
        cases e with
        | nil => simp at hc
        | cons e0 r => exact Or.inr ⟨rfl, by simp⟩
  · rintro ⟨e, he, hz, hcase⟩
    unfold PState.asCircuit
    simp only [he]
    have h1 : ¬ s.proj.length ≠ e.length := by rw [hz]; simp
    have h2 : ¬ s.proj.any (· != 0) = true := by rw [hz]; simp [List.any_replicate]
    rw [if_neg h1, if_neg h2]
    rcases hcase with ⟨hm, a, r, ha⟩ | ⟨hm, hne⟩
    · simp only [hm, ha]; exact ⟨_, rfl⟩
    · simp only [hm]
      cases e with
      | nil => exact absurd rfl hne
      | cons e0 r => exact ⟨_, rfl⟩

end Bridge

end Qib.Qubitization
