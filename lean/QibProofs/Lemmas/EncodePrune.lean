import Mathlib.Analysis.Complex.Basic
import Mathlib.Tactic.Positivity
import QibProofs.Lemmas.EncodeSum
/-!
Encoders (C11, C12): pruning with a non-zero tolerance. `removeZero isZ op` and the strings it drops
(`dropped isZ op`) partition `op`; every entry of a Pauli-string matrix has modulus `≤ 1`; so the matrix changes
entrywise by at most `(#dropped) · tol`. Helper lemmas only.
-/
set_option linter.unusedVariables false
set_option linter.unnecessarySeqFocus false
open Complex Matrix
namespace Qib.Pauli

namespace PauliOp
variable {α : Type}

/-- the strings that `remove_zero_weight_strings` pops -/
def dropped (isZ : α → Bool) : PauliOp α → PauliOp α
  | [] => []
  | e :: rest =>
    let kept := rest.filter (fun p => !isZ p.2)
    let dr := rest.filter (fun p => isZ p.2)
    if isZ e.2 && !kept.isEmpty then e :: dr else dr

section generic
variable {M : Type} [AddCommGroup M] [Module ℂ M] (mat : PS → M)

theorem filter_split_matG (φ : α → ℂ) (isZ : α → Bool) (op : PauliOp α) :
    matG mat φ (op.filter fun p => !isZ p.2) + matG mat φ (op.filter fun p => isZ p.2) = matG mat φ op := by
  induction op with
  | nil => simp [matG]
  | cons e rest ih =>
    by_cases h : isZ e.2 = true
    · simp only [List.filter_cons, h, Bool.not_true, Bool.false_eq_true, if_false, if_true, matG_cons, ← ih]; abel
    · simp only [List.filter_cons, h, Bool.not_false, if_true, matG_cons, ← ih]
      simp only [Bool.false_eq_true, if_false]; abel

/-- kept + dropped = everything -/
theorem removeZero_add_dropped (φ : α → ℂ) (isZ : α → Bool) (op : PauliOp α) :
    matG mat φ (op.removeZero isZ) + matG mat φ (op.dropped isZ) = matG mat φ op := by
  cases op with
  | nil => simp [removeZero, dropped, matG]
  | cons e rest =>
    simp only [removeZero, dropped]
    split
    · rw [matG_cons, matG_cons, ← filter_split_matG mat φ isZ rest]; abel
    · rw [matG_cons, matG_cons, ← filter_split_matG mat φ isZ rest]; abel

end generic

theorem dropped_isZ (isZ : α → Bool) (op : PauliOp α) : ∀ e ∈ op.dropped isZ, isZ e.2 = true := by
  cases op with
  | nil => simp [dropped]
  | cons e rest =>
    simp only [dropped]
    split
    · rename_i h
      simp only [Bool.and_eq_true] at h
      intro e' he'
      rcases List.mem_cons.mp he' with rfl | h'
      · exact h.1
      · exact (List.mem_filter.mp h').2
    · intro e' he'; exact (List.mem_filter.mp he').2

theorem filter_length_split (isZ : α → Bool) (op : PauliOp α) :
    (op.filter fun p => !isZ p.2).length + (op.filter fun p => isZ p.2).length = op.length := by
  induction op with
  | nil => simp
  | cons e rest ih =>
    by_cases h : isZ e.2 = true
    · simp only [List.filter_cons, h, Bool.not_true, Bool.false_eq_true, if_false, if_true, List.length_cons]; omega
    · simp only [Bool.not_eq_true] at h
      simp only [List.filter_cons, h, Bool.not_false, if_true, Bool.false_eq_true, if_false, List.length_cons]; omega

theorem dropped_length (isZ : α → Bool) (op : PauliOp α) :
    (op.removeZero isZ).length + (op.dropped isZ).length = op.length := by
  cases op with
  | nil => simp [removeZero, dropped]
  | cons e rest =>
    have := filter_length_split isZ rest
    simp only [removeZero, dropped]
    split <;> simp only [List.length_cons] <;> omega

end PauliOp

/-! ### entries of a Pauli-string matrix have modulus at most one -/

theorem letter_entry_norm_le (z x r c : Bool) : ‖letter z x r c‖ ≤ 1 := by
  cases z <;> cases x <;> cases r <;> cases c <;> simp [letter, zx]

theorem mat_entry_norm_le (n : ℕ) (P : PS) (r c : Fin n → Bool) : ‖P.mat n r c‖ ≤ 1 := by
  simp only [PS.mat, Matrix.smul_apply, tens, smul_eq_mul, norm_mul, norm_pow, norm_neg, Complex.norm_I, one_pow, one_mul,
    norm_prod]
  exact Finset.prod_le_one (fun k _ => norm_nonneg _) (fun k _ => letter_entry_norm_le _ _ _ _)

theorem opMat_entry_norm_le {α : Type} (φ : α → ℂ) (n : ℕ) (tol : ℝ) (op : PauliOp α)
    (h : ∀ e ∈ op, ‖φ e.2‖ ≤ tol) (r c : Fin n → Bool) : ‖PauliOp.mat φ n op r c‖ ≤ op.length * tol := by
  induction op with
  | nil => simp [PauliOp.mat, PauliOp.matG]
  | cons e rest ih =>
    have h1 := ih (fun e' he' => h e' (List.mem_cons_of_mem _ he'))
    have h2 := h e (List.mem_cons_self ..)
    have h3 := mat_entry_norm_le n e.1 r c
    simp only [PauliOp.mat] at h1 ⊢
    rw [PauliOp.matG_cons, Matrix.add_apply, Matrix.smul_apply, smul_eq_mul, List.length_cons]
    calc ‖φ e.2 * e.1.mat n r c + PauliOp.matG (PS.mat n) φ rest r c‖
        ≤ ‖φ e.2 * e.1.mat n r c‖ + ‖PauliOp.matG (PS.mat n) φ rest r c‖ := norm_add_le _ _
      _ ≤ tol + rest.length * tol := by
          apply add_le_add _ h1
          rw [norm_mul]
          calc ‖φ e.2‖ * ‖e.1.mat n r c‖ ≤ ‖φ e.2‖ * 1 := mul_le_mul_of_nonneg_left h3 (norm_nonneg _)
            _ ≤ tol := by rw [mul_one]; exact h2
      _ = ((rest.length : ℝ) + 1) * tol := by ring
      _ = ((rest.length + 1 : ℕ) : ℝ) * tol := by push_cast; ring

/-- `abs(w) <= tol` in the driver's exact arithmetic means `‖w‖ ≤ tol` -/
theorem GQ.absLe_norm (a : GQ) (tol : ℚ) (h : a.absLe tol = true) : ‖a.toC‖ ≤ (tol : ℝ) := by
  simp only [GQ.absLe, GQ.normSq, Bool.and_eq_true, decide_eq_true_eq] at h
  obtain ⟨h0, h1⟩ := h
  have h0' : (0 : ℝ) ≤ (tol : ℝ) := by exact_mod_cast h0
  have h1q : a.re * a.re + a.im * a.im ≤ tol * tol := of_decide_eq_true h1
  have h1' : ((a.re : ℝ) * a.re + (a.im : ℝ) * a.im) ≤ (tol : ℝ) * tol := by exact_mod_cast h1q
  have hre : a.toC.re = (a.re : ℝ) := by simp [GQ.toC]
  have him : a.toC.im = (a.im : ℝ) := by simp [GQ.toC]
  have hn : ‖a.toC‖ ^ 2 = (a.re : ℝ) * a.re + (a.im : ℝ) * a.im := by
    rw [Complex.sq_norm, Complex.normSq_apply, hre, him]
  have hnn := norm_nonneg a.toC
  by_contra hc
  have hc' : (tol : ℝ) < ‖a.toC‖ := lt_of_not_ge hc
  nlinarith

end Qib.Pauli
