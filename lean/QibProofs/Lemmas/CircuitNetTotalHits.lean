import QibProofs.Lemmas.TNetSurgeryTotal
/-!
Helper lemmas for C05 (totality of `Circuit.as_tensornet`), part 1: counting the open legs of a bond that sit at a
given set of positions of the virtual tensor (`hits`), the *slack* of a bond (number of references beyond those
positions), how slack adds up when `merge_bonds` fuses two bonds, and when the deletion loop of `merge` cannot hit its
`assert`. No property statements.
-/
namespace Qib.TNet

/-! ### `hits` -/

theorem hits_nil (l : List Int) (c : Int) : hits l [] c = 0 := rfl

theorem hits_cons (l : List Int) (d : Nat) (D : List Nat) (c : Int) :
    hits l (d :: D) c = hits l D c + (if l[d]?.getD 0 = c then 1 else 0) := by
  simp only [hits, List.countP_cons, beq_iff_eq]

theorem hits_append (l : List Int) (Z1 Z2 : List Nat) (c : Int) : hits l (Z1 ++ Z2) c = hits l Z1 c + hits l Z2 c := by
  simp only [hits, List.countP_append]

theorem hits_perm {l : List Int} {Z1 Z2 : List Nat} (h : Z1.Perm Z2) (c : Int) : hits l Z1 c = hits l Z2 c :=
  h.countP_eq _

theorem hits_eq_count (l : List Int) (Z : List Nat) (c : Int) : hits l Z c = (pickD l 0 Z).count c :=
  (count_pickD l Z c).symm

/-- positions carrying other ids do not count -/
theorem hits_eq_zero {l : List Int} {Z : List Nat} {c : Int} (h : ∀ d ∈ Z, l[d]?.getD 0 ≠ c) : hits l Z c = 0 := by
  simp only [hits, List.countP_eq_zero, beq_iff_eq]
  exact h

theorem hits_le_count {l : List Int} {Z : List Nat} (hn : Z.Nodup) (hlt : ∀ d ∈ Z, d < l.length) (c : Int) :
    hits l Z c ≤ l.count c := by
  have := kept_add_hits l Z hn hlt c
  omega

/-- the same ids at the listed positions ⇒ the same count -/
theorem hits_congr {l l' : List Int} {Z Z' : List Nat} (h : pickD l 0 Z = pickD l' 0 Z') (c : Int) :
    hits l Z c = hits l' Z' c := by
  rw [hits_eq_count, hits_eq_count, h]

theorem hits_append_left (l l' : List Int) {Z : List Nat} (hZ : ∀ d ∈ Z, d < l.length) (c : Int) :
    hits (l ++ l') Z c = hits l Z c := by
  apply hits_congr
  simp only [pickD]
  apply List.map_congr_left
  intro d hd
  rw [List.getElem?_append_left (hZ d hd)]

theorem hits_append_right (l l' : List Int) (Z : List Nat) (c : Int) :
    hits (l ++ l') (Z.map (l.length + ·)) c = hits l' Z c := by
  apply hits_congr
  simp only [pickD, List.map_map]
  apply List.map_congr_left
  intro d _
  simp only [Function.comp]
  rw [List.getElem?_append_right (by omega)]
  congr 2
  omega

/-- `merge_bonds(b1, b2)` relabels `b2 ↦ b1`: the counts of the two bonds add up -/
theorem hits_map_rep {l : List Int} {Z : List Nat} (hZ : ∀ d ∈ Z, d < l.length) {b1 b2 : Int} (hne : b1 ≠ b2) (c : Int) :
    hits (l.map (rep b2 b1)) Z c =
      if c = b1 then hits l Z b1 + hits l Z b2 else if c = b2 then 0 else hits l Z c := by
  induction Z with
  | nil => simp [hits]
  | cons d ds ih =>
    have hd := hZ d List.mem_cons_self
    have ih' := ih (fun x hx => hZ x (List.mem_cons_of_mem _ hx))
    simp only [hits_cons, ih', List.getElem?_map, List.getElem?_eq_getElem hd, Option.map_some, Option.getD_some]
    by_cases h2 : l[d] = b2
    · rw [h2, rep_self]
      by_cases c1 : c = b1
      · subst c1
        have hne' : ¬ b2 = c := fun e => hne e.symm
        simp [hne']; omega
      · have c1' : ¬ b1 = c := fun e => c1 e.symm
        by_cases c2 : c = b2
        · subst c2; simp [c1, c1']
        · have c2' : ¬ b2 = c := fun e => c2 e.symm
          simp [c1, c2, c1', c2']
    · rw [rep_of_ne h2]
      by_cases c1 : c = b1
      · subst c1
        simp [h2]; omega
      · by_cases c2 : c = b2
        · subst c2; simp [c1, h2]
        · simp [c1, c2]

/-! ### slack -/

/-- bond `c` has at least `k` references beyond the open legs at the positions `W` -/
def Slk (net : Net) (bids : List Int) (W : List Nat) (k : Nat) (c : Int) : Prop :=
  ∀ B, dget net.bonds c = some B → hits bids W c + k ≤ B.tids.length

theorem Slk.mono {net : Net} {bids : List Int} {W : List Nat} {k k' : Nat} {c : Int} (hk : k' ≤ k)
    (h : Slk net bids W k c) : Slk net bids W k' c := fun B hB => by have := h B hB; omega

section Dict
variable {β : Type}
theorem dget_dpop_self (d : List (Int × β)) (k : Int) : dget (dpop d k) k = none :=
  dget_eq_none_of_notMem _ (notMem_dkeys_dpop d k)
end Dict

/-- the bonds after `merge_bonds(b1, b2)`, `b1 ≠ b2` -/
theorem dget_fused (bonds : List (Int × SBond)) (b1 b2 : Int) (B2 : SBond) (hne : b1 ≠ b2) (c : Int) :
    dget (dmodify (dpop bonds b2) b1 (fun b => catBond b B2)) c =
      if c = b2 then none else if c = b1 then (dget bonds b1).map (fun b => catBond b B2) else dget bonds c := by
  rw [dget_dmodify]
  by_cases h2 : c = b2
  · subst h2; simp [dget_dpop_self]
  · rw [dget_dpop_ne _ h2]
    simp only [h2, if_false]
    by_cases h1 : c = b1
    · subst h1; simp
    · have : (c == b1) = false := by simpa using h1
      simp only [h1, if_false, this, Bool.false_eq_true]
      cases dget bonds c <;> rfl

theorem slk_fuse_b1 {net : Net} {bids : List Int} {W : List Nat} (hW : ∀ d ∈ W, d < bids.length) {b1 b2 : Int}
    (hne : b1 ≠ b2) {B2 : SBond} (hB2 : dget net.bonds b2 = some B2) {k1 k2 : Nat} (ts : List (Int × STensor))
    (h1 : Slk net bids W k1 b1) (h2 : Slk net bids W k2 b2) :
    Slk ⟨ts, dmodify (dpop net.bonds b2) b1 (fun b => catBond b B2)⟩ (bids.map (rep b2 b1)) W (k1 + k2) b1 := by
  intro B hB
  simp only at hB
  rw [dget_fused _ _ _ _ hne, if_neg hne, if_pos rfl] at hB
  cases hB1 : dget net.bonds b1 with
  | none => rw [hB1] at hB; cases hB
  | some B1 =>
    rw [hB1] at hB
    simp only [Option.map_some, Option.some.injEq] at hB
    subst hB
    have e1 := h1 B1 hB1
    have e2 := h2 B2 hB2
    rw [hits_map_rep hW hne, if_pos rfl]
    simp only [catBond, length_isort, List.length_append]
    omega

theorem slk_fuse_b2 {net : Net} {bids : List Int} {W : List Nat} {b1 b2 : Int} (hne : b1 ≠ b2) {B2 : SBond} (k : Nat)
    (ts : List (Int × STensor)) :
    Slk ⟨ts, dmodify (dpop net.bonds b2) b1 (fun b => catBond b B2)⟩ (bids.map (rep b2 b1)) W k b2 := by
  intro B hB
  simp only at hB
  rw [dget_fused _ _ _ _ hne, if_pos rfl] at hB
  cases hB

theorem slk_fuse_other {net : Net} {bids : List Int} {W : List Nat} (hW : ∀ d ∈ W, d < bids.length) {b1 b2 c : Int}
    (hne : b1 ≠ b2) {B2 : SBond} {k : Nat} (ts : List (Int × STensor)) (hc1 : c ≠ b1) (hc2 : c ≠ b2)
    (h : Slk net bids W k c) :
    Slk ⟨ts, dmodify (dpop net.bonds b2) b1 (fun b => catBond b B2)⟩ (bids.map (rep b2 b1)) W k c := by
  intro B hB
  simp only at hB
  rw [dget_fused _ _ _ _ hne, if_neg hc2, if_neg hc1] at hB
  rw [hits_map_rep hW hne, if_neg hc1, if_neg hc2]
  exact h B hB

/-! ### the deletion loop cannot fail when every touched bond has slack 2 -/

theorem mem_dmodify {β : Type} {d : List (Int × β)} {k : Int} {f : β → β} {e : Int × β} (h : e ∈ dmodify d k f) :
    ∃ e0 ∈ d, e = if e0.1 == k then (e0.1, f e0.2) else e0 := by
  simp only [dmodify, List.mem_map] at h
  obtain ⟨e0, h0, rfl⟩ := h
  exact ⟨e0, h0, rfl⟩

theorem del_fold_ok {D : List Nat} {net : Net} {toa : STensor}
    (hv : dget net.tensors (-1) = some toa) (hD : ∀ d ∈ D, d < toa.bids.length)
    (hk : ∀ b ∈ toa.bids, b ∈ dkeys net.bonds)
    (hs : ∀ e ∈ net.bonds, hits toa.bids D e.1 = 0 ∨ hits toa.bids D e.1 + 2 ≤ e.2.tids.length) :
    ∃ net', D.foldlM delStep net = .ok net' := by
  induction D generalizing net with
  | nil => exact ⟨net, rfl⟩
  | cons d ds ih =>
    have hd := hD d List.mem_cons_self
    have hbk := hk _ (List.getElem_mem hd)
    obtain ⟨B, hB⟩ := Option.isSome_iff_exists.mp ((dget_isSome_iff _ _).mpr hbk)
    have hBm := mem_of_dget_eq_some _ hB
    rw [List.foldlM_cons]
    have hstep : delStep net d = if (B.tids.erase (-1)).length < 2 then .error .assertion else
        .ok { net with bonds := dmodify net.bonds toa.bids[d] (fun b => { b with tids := B.tids.erase (-1) }) } := by
      unfold delStep
      rw [hv]
      simp only [List.getElem?_eq_getElem hd, hB]
      split <;> rfl
    have hle : B.tids.length - 1 ≤ (B.tids.erase (-1)).length := by
      rw [List.length_erase]; split <;> omega
    have hthis := hs _ hBm
    simp only at hthis
    have hh : hits toa.bids (d :: ds) toa.bids[d] = hits toa.bids ds toa.bids[d] + 1 := by
      rw [hits_cons, List.getElem?_eq_getElem hd]; simp
    rw [hh] at hthis
    have h3 : hits toa.bids ds toa.bids[d] + 3 ≤ B.tids.length := by omega
    rw [hstep, if_neg (by omega)]
    apply ih (net := { net with bonds := dmodify net.bonds toa.bids[d] (fun b => { b with tids := B.tids.erase (-1) }) })
    · exact hv
    · exact fun x hx => hD x (List.mem_cons_of_mem _ hx)
    · intro b hb
      dsimp only
      rw [dkeys_dmodify]; exact hk b hb
    · intro e he
      dsimp only at he
      obtain ⟨e0, he0, rfl⟩ := mem_dmodify he
      by_cases hk0 : e0.1 = toa.bids[d]
      · have hb' : (e0.1 == toa.bids[d]) = true := by simpa using hk0
        simp only [hb', if_true]
        right
        rw [hk0]
        omega
      · have hb' : (e0.1 == toa.bids[d]) = false := by simpa using hk0
        simp only [hb', Bool.false_eq_true, if_false]
        have := hs e0 he0
        rw [hits_cons, List.getElem?_eq_getElem hd] at this
        simp only [Option.getD_some] at this
        rw [if_neg (fun e => hk0 e.symm)] at this
        simpa using this

end Qib.TNet
