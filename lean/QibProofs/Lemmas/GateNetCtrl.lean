import QibProofs.Lemmas.GateNetFamilies
import QibProofs.Lemmas.GateNetChain
/-!
Helper lemmas for C06: structure of the controlled-gate network (`ctrlNet`): bond keys, labels of the open legs,
pins, internal bonds, real tensors, bond dimensions, and its denotation for an arbitrary data function whose
crossing / Pauli-X entries satisfy their defining tables (`ctrl_full_pos`, `ctrl_full_neg`). No property statements.
-/
set_option linter.unusedSimpArgs false
set_option linter.unnecessarySeqFocus false
namespace Qib.GateNet
open Qib.TNet

/-! ### labels of the controlled-gate network -/

/-- consecutive integers `s, s+1, …, s+k-1` -/
def zrange (s : Int) (k : Nat) : List Int := (List.range k).map (fun j => s + Int.ofNat j)

theorem mem_zrange {s : Int} {k : Nat} {b : Int} : b ∈ zrange s k ↔ s ≤ b ∧ b < s + k := by
  simp only [zrange, List.mem_map, List.mem_range, Int.ofNat_eq_natCast]
  constructor
  · rintro ⟨a, ha, rfl⟩; omega
  · rintro ⟨h0, h1⟩; exact ⟨(b - s).toNat, by omega, by omega⟩

theorem zrange_nodup (s : Int) (k : Nat) : (zrange s k).Nodup :=
  List.Nodup.map (fun a b h => by simp only [Int.ofNat_eq_natCast] at h; omega) List.nodup_range

theorem zrange_zero (s : Int) : zrange s 0 = [] := rfl

theorem zrange_add (s : Int) (a b : Nat) : zrange s (a + b) = zrange s a ++ zrange (s + a) b := by
  simp only [zrange, List.range_add, List.map_append, List.map_map]
  congr 1
  apply List.map_congr_left
  intro j _
  simp only [Function.comp, Int.ofNat_eq_natCast]; omega

theorem zrange_three (s : Int) : zrange s 3 = [s, s + 1, s + 2] := by
  simp [zrange, List.range_succ]

theorem irange_eq_zrange (k : Nat) : irange k = zrange 0 k := by
  simp [irange, zrange]

/-- the bonds created in the loop over the controls carry consecutive ids -/
theorem dkeys_crossBonds (off : Int) (nc : Nat) (neg : Bool) (cs : List Bool) (i : Nat) (h : i + cs.length ≤ nc) :
    dkeys (crossBonds off nc neg i cs) = zrange (off + 3 * (Int.ofNat i - 1)) (3 * cs.length) := by
  induction cs generalizing i with
  | nil => rfl
  | cons c cs ih =>
    simp only [List.length_cons] at h
    have hi : i ≠ nc := by omega
    simp only [crossBonds, dkeys, List.map_cons, List.length_cons]
    have := ih (i + 1) (by omega)
    simp only [dkeys] at this
    rw [this, show 3 * (cs.length + 1) = 3 + 3 * cs.length by ring, zrange_add, zrange_three]
    simp only [cOut, cIn, cUp, if_neg hi, List.cons_append, List.nil_append, Int.ofNat_eq_natCast]
    congr 4
    push_cast; ring

end Qib.GateNet

namespace Qib.GateNet
open Qib.TNet

theorem ctrl_dkeys_bonds (c0 : Bool) (rest : List Bool) (nt : Nat) :
    dkeys (ctrlNet c0 rest nt).bonds = zrange 0 (2 * nt + (if c0 then 0 else 2) + 3 * rest.length + 1) := by
  simp only [ctrlNet, dkeys, List.map_append, List.map_map]
  have h1 : List.map (Prod.fst ∘ fun i : Nat => (Int.ofNat i, (⟨Int.ofNat i, [-1, 0]⟩ : SBond))) (List.range (2 * nt)) = zrange 0 (2 * nt) := by
    simp [zrange, Function.comp]
  have h3 := dkeys_crossBonds (cOff nt (!c0)) (rest.length + 1) (!c0) rest 1 (by omega)
  simp only [dkeys] at h3
  rw [h1, h3]
  rw [zrange_add, zrange_add, zrange_add]
  cases c0
  · simp only [Bool.not_false, if_true, List.map_cons, List.map_nil, cOff, cUp, zrange, Bool.false_eq_true, if_false]
    simp [List.range_succ]
  · simp only [Bool.not_true, Bool.false_eq_true, if_false, List.map_nil, cOff, cUp, zrange, if_true]
    simp [List.range_succ]

end Qib.GateNet

namespace Qib.GateNet
open Qib.TNet

def outs (off : Int) (len : Nat) : List Int := (List.range' 1 len).map (cOut off)
def ins (off : Int) (len : Nat) : List Int := (List.range' 1 len).map (cIn off)

/-- labels of the first control's output and input leg -/
def cFirst (c0 : Bool) (len nt : Nat) : Int × Int :=
  if (!c0) = true then (2 * Int.ofNat nt, 2 * Int.ofNat nt + 1)
  else (cUp (cOff nt (!c0)) (len + 1) 1, cUp (cOff nt (!c0)) (len + 1) 1)

/-- bond ids of the open legs, in logical order -/
def cvb (c0 : Bool) (len nt : Nat) : List Int :=
  ((cFirst c0 len nt).1 :: outs (cOff nt (!c0)) len) ++ irange nt ++
    (((cFirst c0 len nt).2 :: ins (cOff nt (!c0)) len) ++ irange' nt nt)

theorem ctrl_virt (c0 : Bool) (rest : List Bool) (nt : Nat) :
    dget (ctrlNet c0 rest nt).tensors (-1) =
      some ⟨-1, rep2 (2 * (rest.length + 1 + nt)), cvb c0 rest.length nt, none⟩ := by
  simp only [ctrlNet, dget, List.cons_append, List.lookup]
  rfl

theorem mem_outs {off : Int} {len : Nat} {b : Int} : b ∈ outs off len ↔ ∃ j, 1 ≤ j ∧ j < 1 + len ∧ b = cOut off j := by
  simp only [outs, List.mem_map, List.mem_range'_1]
  constructor
  · rintro ⟨j, ⟨h1, h2⟩, rfl⟩; exact ⟨j, h1, h2, rfl⟩
  · rintro ⟨j, h1, h2, rfl⟩; exact ⟨j, ⟨h1, h2⟩, rfl⟩

theorem mem_ins {off : Int} {len : Nat} {b : Int} : b ∈ ins off len ↔ ∃ j, 1 ≤ j ∧ j < 1 + len ∧ b = cIn off j := by
  simp only [ins, List.mem_map, List.mem_range'_1]
  constructor
  · rintro ⟨j, ⟨h1, h2⟩, rfl⟩; exact ⟨j, h1, h2, rfl⟩
  · rintro ⟨j, h1, h2, rfl⟩; exact ⟨j, ⟨h1, h2⟩, rfl⟩

theorem outs_nodup (off : Int) (len : Nat) : (outs off len).Nodup :=
  List.Nodup.map (fun a b h => by simp only [cOut, Int.ofNat_eq_natCast] at h; omega) (List.nodup_range' (step := 1) (by decide))

theorem ins_nodup (off : Int) (len : Nat) : (ins off len).Nodup :=
  List.Nodup.map (fun a b h => by simp only [cIn, Int.ofNat_eq_natCast] at h; omega) (List.nodup_range' (step := 1) (by decide))

@[simp] theorem length_outs (off : Int) (len : Nat) : (outs off len).length = len := by simp [outs]
@[simp] theorem length_ins (off : Int) (len : Nat) : (ins off len).length = len := by simp [ins]

/-- the labels of the open legs other than the first control's: pairwise distinct -/
theorem ctrl_labels_nodup (neg : Bool) (len nt : Nat) :
    (outs (cOff nt neg) len ++ irange nt ++ (ins (cOff nt neg) len ++ irange' nt nt)).Nodup := by
  rw [List.nodup_append, List.nodup_append, List.nodup_append]
  refine ⟨⟨outs_nodup _ _, irange_nodup _, ?_⟩, ⟨ins_nodup _ _, irange'_nodup _ _, ?_⟩, ?_⟩
  · intro x hx y hy e
    rw [mem_outs] at hx; rw [mem_irange] at hy
    obtain ⟨j, h1, h2, rfl⟩ := hx
    cases neg <;> simp only [cOut, cOff, Int.ofNat_eq_natCast] at e hy <;> simp at e hy <;> omega
  · intro x hx y hy e
    rw [mem_ins] at hx; rw [mem_irange'] at hy
    obtain ⟨j, h1, h2, rfl⟩ := hx
    cases neg <;> simp only [cIn, cOff, Int.ofNat_eq_natCast] at e hy <;> simp at e hy <;> omega
  · intro x hx y hy e
    rw [List.mem_append] at hx hy
    rcases hx with hx | hx <;> rcases hy with hy | hy
    · rw [mem_outs] at hx; rw [mem_ins] at hy
      obtain ⟨j, h1, h2, rfl⟩ := hx
      obtain ⟨j', h1', h2', rfl⟩ := hy
      simp only [cOut, cIn, Int.ofNat_eq_natCast] at e; omega
    · rw [mem_outs] at hx; rw [mem_irange'] at hy
      obtain ⟨j, h1, h2, rfl⟩ := hx
      cases neg <;> simp only [cOut, cOff, Int.ofNat_eq_natCast] at e hy <;> simp at e hy <;> omega
    · rw [mem_irange] at hx; rw [mem_ins] at hy
      obtain ⟨j', h1', h2', rfl⟩ := hy
      cases neg <;> simp only [cIn, cOff, Int.ofNat_eq_natCast] at e hx <;> simp at e hx <;> omega
    · rw [mem_irange] at hx; rw [mem_irange'] at hy; omega

end Qib.GateNet

namespace Qib.GateNet
open Qib.TNet

theorem cFirst_notMem (c0 : Bool) (len nt : Nat) :
    (cFirst c0 len nt).1 ∉ outs (cOff nt (!c0)) len ++ irange nt ++ (ins (cOff nt (!c0)) len ++ irange' nt nt) ∧
    (cFirst c0 len nt).2 ∉ outs (cOff nt (!c0)) len ++ irange nt ++ (ins (cOff nt (!c0)) len ++ irange' nt nt) := by
  simp only [List.mem_append, mem_outs, mem_ins, mem_irange, mem_irange', not_or, not_exists, not_and]
  cases c0 <;> simp only [cFirst, cOff, cOut, cIn, cUp, Bool.not_false, Bool.not_true, if_true, Bool.false_eq_true, if_false,
    Int.ofNat_eq_natCast] <;> refine ⟨⟨⟨?_, ?_⟩, ?_, ?_⟩, ⟨?_, ?_⟩, ?_, ?_⟩ <;> (try (intro j h1 h2)) <;> (try split) <;> omega

theorem ctrl_pins_neg (len nt : Nat) (idx : List Nat) (hl : idx.length = 2 * (len + 1 + nt)) :
    pinsOK (cvb false len nt) idx = true := by
  apply (pinsOK_iff _ _).mpr
  apply exists_map_of_nodup
  · have hn := ctrl_labels_nodup true len nt
    have hf := cFirst_notMem false len nt
    simp only [Bool.not_false] at hf
    have hperm : (cvb false len nt).Perm ((cFirst false len nt).1 :: (cFirst false len nt).2 ::
        (outs (cOff nt true) len ++ irange nt ++ (ins (cOff nt true) len ++ irange' nt nt))) := by
      simp only [cvb, Bool.not_false, List.cons_append, List.append_assoc]
      refine List.Perm.cons _ ?_
      rw [← List.append_assoc, ← List.append_assoc]
      exact List.perm_middle
    rw [hperm.nodup_iff, List.nodup_cons, List.nodup_cons]
    refine ⟨?_, hf.2, hn⟩
    rw [List.mem_cons, not_or]
    refine ⟨?_, hf.1⟩
    simp [cFirst]
  · simp [cvb, hl]; omega

theorem ctrl_pins_pos (len nt : Nat) (a b : Nat) (oc ot ic it : List Nat)
    (h1 : oc.length = len) (h2 : ot.length = nt) (h3 : ic.length = len) (h4 : it.length = nt) :
    pinsOK (cvb true len nt) ((a :: oc) ++ ot ++ ((b :: ic) ++ it)) = true ↔ a = b := by
  rw [pinsOK_iff]
  have hf := cFirst_notMem true len nt
  have h12 : (cFirst true len nt).2 = (cFirst true len nt).1 := by simp [cFirst]
  simp only [Bool.not_true] at hf
  constructor
  · rintro ⟨τ, hτ⟩
    simp only [cvb, Bool.not_true, List.map_append, List.map_cons] at hτ
    obtain ⟨hτ12, hτ34⟩ := List.append_inj hτ (by simp [h1, h2])
    obtain ⟨hτ1, _⟩ := List.append_inj hτ12 (by simp [h1])
    obtain ⟨hτ3, _⟩ := List.append_inj hτ34 (by simp [h3])
    rw [h12] at hτ3
    have e1 := (List.cons.inj hτ1).1
    have e3 := (List.cons.inj hτ3).1
    omega
  · rintro rfl
    have hn : ((cFirst true len nt).1 :: (outs (cOff nt false) len ++ irange nt ++ (ins (cOff nt false) len ++ irange' nt nt))).Nodup :=
      List.nodup_cons.mpr ⟨hf.1, ctrl_labels_nodup false len nt⟩
    obtain ⟨τ, hτ⟩ := exists_map_of_nodup _ (a :: (oc ++ ot ++ (ic ++ it))) hn (by simp [h1, h2, h3, h4])
    refine ⟨τ, ?_⟩
    simp only [List.map_cons, List.map_append] at hτ
    obtain ⟨ha, hrest⟩ := List.cons.inj hτ
    obtain ⟨hτ12, hτ34⟩ := List.append_inj hrest (by simp [h1, h2])
    obtain ⟨hτ1, hτ2⟩ := List.append_inj hτ12 (by simp [h1])
    obtain ⟨hτ3, hτ4⟩ := List.append_inj hτ34 (by simp [h3])
    simp only [cvb, Bool.not_true, List.map_append, List.map_cons, h12, ha, hτ1, hτ2, hτ3, hτ4]

/-- the values of the pinned assignment on the open legs -/
theorem ctrl_split (c0 : Bool) (len nt : Nat) (σ : Int → Nat) (a b : Nat) (oc ot ic it : List Nat)
    (h1 : oc.length = len) (h2 : ot.length = nt) (h3 : ic.length = len)
    (hm : (cvb c0 len nt).map σ = (a :: oc) ++ ot ++ ((b :: ic) ++ it)) :
    σ (cFirst c0 len nt).1 = a ∧ (outs (cOff nt (!c0)) len).map σ = oc ∧ (irange nt).map σ = ot ∧
    σ (cFirst c0 len nt).2 = b ∧ (ins (cOff nt (!c0)) len).map σ = ic ∧ (irange' nt nt).map σ = it := by
  simp only [cvb, List.map_append, List.map_cons] at hm
  obtain ⟨hm12, hm34⟩ := List.append_inj hm (by simp [h1, h2])
  obtain ⟨hm1, hm2⟩ := List.append_inj hm12 (by simp [h1])
  obtain ⟨hm3, hm4⟩ := List.append_inj hm34 (by simp [h3])
  exact ⟨(List.cons.inj hm1).1, (List.cons.inj hm1).2, hm2, (List.cons.inj hm3).1, (List.cons.inj hm3).2, hm4⟩

end Qib.GateNet

namespace Qib.GateNet
open Qib.TNet

/-- the vertical bonds that carry no open leg -/
def ups (c0 : Bool) (len nt : Nat) : List Int :=
  (if c0 then List.range' 2 len else List.range' 1 (len + 1)).map (cUp (cOff nt (!c0)) (len + 1))

set_option linter.unusedVariables false in
theorem cUp_inj (off : Int) (nc j j' : Nat) (h1 : 1 ≤ j) (h2 : j ≤ nc) (h1' : 1 ≤ j') (h2' : j' ≤ nc)
    (e : cUp off nc j = cUp off nc j') : j = j' := by
  simp only [cUp, Int.ofNat_eq_natCast] at e
  split at e <;> split at e <;> omega

theorem ups_nodup (c0 : Bool) (len nt : Nat) : (ups c0 len nt).Nodup := by
  unfold ups
  apply List.Nodup.map_on
  · intro j hj j' hj' e
    cases c0 <;> simp only [Bool.false_eq_true, if_false, if_true, List.mem_range'_1] at hj hj' <;>
      exact cUp_inj _ _ _ _ (by omega) (by omega) (by omega) (by omega) e
  · cases c0 <;> simp only [Bool.false_eq_true, if_false, if_true] <;> exact List.nodup_range' (step := 1) (by decide)

theorem mem_ups {c0 : Bool} {len nt : Nat} {b : Int} :
    b ∈ ups c0 len nt ↔ ∃ j, (if c0 then 2 else 1) ≤ j ∧ j ≤ len + 1 ∧ b = cUp (cOff nt (!c0)) (len + 1) j := by
  unfold ups
  cases c0 <;> simp only [Bool.false_eq_true, if_false, if_true, List.mem_map, List.mem_range'_1]
  · constructor
    · rintro ⟨j, ⟨h1, h2⟩, rfl⟩; exact ⟨j, h1, by omega, rfl⟩
    · rintro ⟨j, h1, h2, rfl⟩; exact ⟨j, ⟨h1, by omega⟩, rfl⟩
  · constructor
    · rintro ⟨j, ⟨h1, h2⟩, rfl⟩; exact ⟨j, h1, by omega, rfl⟩
    · rintro ⟨j, h1, h2, rfl⟩; exact ⟨j, ⟨h1, by omega⟩, rfl⟩

theorem ctrl_internal_mem (c0 : Bool) (rest : List Bool) (nt : Nat) (b : Int) :
    b ∈ ups c0 rest.length nt ↔ b ∈ dkeys (ctrlNet c0 rest nt).bonds ∧ b ∉ cvb c0 rest.length nt := by
  rw [ctrl_dkeys_bonds, mem_zrange, mem_ups]
  simp only [cvb, List.mem_append, List.mem_cons, mem_outs, mem_ins, mem_irange, mem_irange', not_or, not_exists, not_and]
  generalize rest.length = len
  constructor
  · rintro ⟨j, h1, h2, rfl⟩
    cases c0 <;> simp only [cFirst, cOff, cOut, cIn, cUp, Bool.not_false, Bool.not_true, if_true, Bool.false_eq_true, if_false,
      Int.ofNat_eq_natCast] at h1 ⊢ <;>
    refine ⟨⟨?_, ?_⟩, ⟨⟨?_, ?_⟩, ?_⟩, ⟨?_, ?_⟩, ?_⟩ <;> (try (intro j' h1' h2')) <;> (try split) <;> (try split) <;> omega
  · rintro ⟨⟨hb0, hb1⟩, ⟨⟨hf1, hout⟩, hr1⟩, ⟨hf2, hin⟩, hr2⟩
    cases c0 <;> simp only [cFirst, cOff, cOut, cIn, cUp, Bool.not_false, Bool.not_true, if_true, Bool.false_eq_true, if_false,
      Int.ofNat_eq_natCast] at hb1 hf1 hout hin hf2 hr1 hr2 ⊢
    · -- negated first control: off = 2nt + 2
      have hq := hout (((b - (2 * (nt : Int) + 2)) / 3).toNat + 1)
      have hq' := hin (((b - (2 * (nt : Int) + 2)) / 3).toNat + 1)
      refine ⟨((b - (2 * (nt : Int) + 2)) / 3).toNat + 1, ?_, ?_, ?_⟩
      · omega
      · omega
      · split <;> omega
    · -- plain first control: off = 2nt
      have hq := hout (((b - (2 * (nt : Int) + 0)) / 3).toNat + 1)
      have hq' := hin (((b - (2 * (nt : Int) + 0)) / 3).toNat + 1)
      split at hf1
      · refine ⟨((b - (2 * (nt : Int) + 0)) / 3).toNat + 1, ?_, ?_, ?_⟩
        · omega
        · omega
        · split <;> omega
      · refine ⟨((b - (2 * (nt : Int) + 0)) / 3).toNat + 1, ?_, ?_, ?_⟩
        · omega
        · omega
        · split <;> omega

end Qib.GateNet

namespace Qib.GateNet
open Qib.TNet
set_option linter.unusedVariables false

/-! ### tensors of the controlled-gate network -/

theorem crossTensors_key_ne (off : Int) (nc : Nat) (i : Nat) (cs : List Bool) :
    ∀ e ∈ crossTensors off nc i cs, (e.1 != -1) = true := by
  induction cs generalizing i with
  | nil => intro e he; simp [crossTensors] at he
  | cons c cs ih =>
    intro e he
    simp only [crossTensors, List.mem_cons] at he
    rcases he with rfl | he
    · simp only [Int.ofNat_eq_natCast, bne_iff_ne, ne_eq]; omega
    · exact ih (i + 1) e he

theorem crossTensors_shape (off : Int) (nc : Nat) (i : Nat) (cs : List Bool) :
    ∀ e ∈ crossTensors off nc i cs, e.2.shape = [2, 2, 2, 2] ∧ e.2.bids.length = 4 := by
  induction cs generalizing i with
  | nil => intro e he; simp [crossTensors] at he
  | cons c cs ih =>
    intro e he
    simp only [crossTensors, List.mem_cons] at he
    rcases he with rfl | he
    · simp
    · exact ih (i + 1) e he

theorem mem_crossTensors (off : Int) (nc : Nat) (i : Nat) (cs : List Bool) (j : Nat) (h1 : i ≤ j) (h2 : j < i + cs.length) :
    ∃ e ∈ crossTensors off nc i cs, cUp off nc j ∈ e.2.bids := by
  induction cs generalizing i with
  | nil => simp at h2; omega
  | cons c cs ih =>
    by_cases hij : j = i
    · subst hij
      exact ⟨_, List.mem_cons_self, by simp⟩
    · obtain ⟨e, he, hb⟩ := ih (i + 1) (by omega) (by simp only [List.length_cons] at h2; omega)
      exact ⟨e, List.mem_cons_of_mem _ he, hb⟩

section
variable {α : Type} [CommSemiring α]

/-- the crossing tensors as a function of polarity and the four indices -/
def Xf (D : Option Int → List Nat → α) : Bool → Nat → Nat → Nat → Nat → α :=
  fun c p p' u d => D (some (if c then 3 else 2)) [p, p', u, d]

theorem prodL_cross (D : Option Int → List Nat → α) (σ : Int → Nat) (off : Int) (nc : Nat) (i : Nat) (cs : List Bool) :
    prodL (((crossTensors off nc i cs).map (·.2)).map (fun t => D t.dataref (t.bids.map σ))) =
      chainProd (Xf D) (cOut off) (cIn off) (cUp off nc) i cs σ := by
  induction cs generalizing i with
  | nil => rfl
  | cons c cs ih =>
    simp only [crossTensors, List.map_cons, prodL_cons, chainProd, ih (i + 1)]
    rfl

theorem ctrl_real (c0 : Bool) (rest : List Bool) (nt : Nat) :
    realTensors (ctrlNet c0 rest nt) =
      (⟨0, 2 :: rep2 (2 * nt), cUp (cOff nt (!c0)) (rest.length + 1) (rest.length + 1) :: irange (2 * nt), some 0⟩ : STensor) ::
      ((if (!c0) = true then
        [(⟨Int.ofNat (rest.length + 1), [2, 2], [2 * Int.ofNat nt, cUp (cOff nt (!c0)) (rest.length + 1) 1], some 1⟩ : STensor),
         ⟨Int.ofNat (rest.length + 1) + 1, [2, 2], [cUp (cOff nt (!c0)) (rest.length + 1) 1, 2 * Int.ofNat nt + 1], some 1⟩]
       else []) ++ (crossTensors (cOff nt (!c0)) (rest.length + 1) 1 rest).map (·.2)) := by
  simp only [realTensors, ctrlNet, List.filter_append, List.map_append]
  rw [List.filter_eq_self.mpr (crossTensors_key_ne _ _ _ _)]
  cases c0
  · simp only [Bool.not_false, if_true]
    have e1 : ¬ ((rest.length : Int) + 1 = -1) := by omega
    have e2 : ¬ ((rest.length : Int) + 1 + 1 = -1) := by omega
    simp [List.filter_cons, e1, e2]
  · simp [List.filter_cons]

theorem ctrl_legDims_two (c0 : Bool) (rest : List Bool) (nt : Nat) : ∀ p ∈ legDims (ctrlNet c0 rest nt), p.2 = 2 := by
  intro p hp
  simp only [legDims, List.mem_flatMap] at hp
  obtain ⟨e, he, hpe⟩ := hp
  have hsh : p.2 ∈ e.2.shape := (List.of_mem_zip hpe).2
  suffices h : ∀ d ∈ e.2.shape, d = 2 from h _ hsh
  simp only [ctrlNet, List.mem_append, List.mem_cons, List.not_mem_nil, or_false] at he
  rcases he with ((rfl | rfl) | he) | he
  · intro d hd; simp only [List.mem_cons, rep2, List.mem_replicate] at hd; omega
  · intro d hd; simp only [rep2, List.mem_replicate] at hd; omega
  · cases c0
    · simp only [Bool.not_false, if_true, List.mem_cons, List.not_mem_nil, or_false] at he
      rcases he with rfl | rfl <;> (intro d hd; simp at hd; omega)
    · simp at he
  · intro d hd
    rw [(crossTensors_shape _ _ _ _ e he).1] at hd
    simp at hd; omega

theorem mem_legDims_of (net : Net) (e : Int × STensor) (he : e ∈ net.tensors) (hl : e.2.bids.length = e.2.shape.length)
    (b : Int) (hb : b ∈ e.2.bids) : b ∈ (legDims net).map (·.1) := by
  simp only [legDims, List.map_flatMap, List.mem_flatMap]
  refine ⟨e, he, ?_⟩
  rw [List.map_fst_zip (le_of_eq hl)]
  exact hb

/-- every vertical bond has dimension 2 -/
theorem ctrl_bondDim (c0 : Bool) (rest : List Bool) (nt : Nat) (j : Nat) (h1 : 1 ≤ j) (h2 : j ≤ rest.length + 1) :
    bondDim (ctrlNet c0 rest nt) (cUp (cOff nt (!c0)) (rest.length + 1) j) = 2 := by
  apply bondDim_eq _ _ _ (ctrl_legDims_two c0 rest nt)
  by_cases hj : j = rest.length + 1
  · subst hj
    refine mem_legDims_of _ (0, ⟨0, 2 :: rep2 (2 * nt), cUp (cOff nt (!c0)) (rest.length + 1) (rest.length + 1) :: irange (2 * nt), some 0⟩)
      ?_ ?_ _ List.mem_cons_self
    · simp [ctrlNet]
    · simp [rep2]
  · obtain ⟨e, he, hb⟩ := mem_crossTensors (cOff nt (!c0)) (rest.length + 1) 1 rest j h1 (by omega)
    refine mem_legDims_of _ e ?_ ?_ _ hb
    · simp only [ctrlNet, List.mem_append]; exact Or.inr he
    · have := crossTensors_shape _ _ _ _ e he
      rw [this.1, this.2]; rfl

end
end Qib.GateNet

namespace Qib.GateNet
open Qib.TNet

section
variable {α : Type} [CommSemiring α]

/-- `chain_sum` on the labels of the controlled-gate network -/
theorem ctrl_chain (c0 : Bool) (rest : List Bool) (nt : Nat) (D : Option Int → List Nat → α) (hX : ∀ c ∈ rest, CrossSpec (Xf D) c)
    (g : (Int → Nat) → α) (σ : Int → Nat) (oc ic : List Nat)
    (hg : ∀ j, 1 < j → j < 1 + rest.length → Indep g (cUp (cOff nt (!c0)) (rest.length + 1) j))
    (ho : (outs (cOff nt (!c0)) rest.length).map σ = oc) (hi : (ins (cOff nt (!c0)) rest.length).map σ = ic)
    (hoc : ∀ x ∈ oc, x < 2) (hic : ∀ x ∈ ic, x < 2) (hu : σ (cUp (cOff nt (!c0)) (rest.length + 1) 1) < 2) :
    sumOver (bondDim (ctrlNet c0 rest nt)) ((List.range' 2 rest.length).map (cUp (cOff nt (!c0)) (rest.length + 1)))
      (fun τ => chainProd (Xf D) (cOut (cOff nt (!c0))) (cIn (cOff nt (!c0))) (cUp (cOff nt (!c0)) (rest.length + 1)) 1 rest τ * g τ) σ =
    (if oc = ic then 1 else 0) *
      g (upd σ (cUp (cOff nt (!c0)) (rest.length + 1) (1 + rest.length))
        (if σ (cUp (cOff nt (!c0)) (rest.length + 1) 1) = 1 ∧ oc = rest.map bit then 1 else 0)) := by
  have h := chain_sum (Xf D) (cOut (cOff nt (!c0))) (cIn (cOff nt (!c0))) (cUp (cOff nt (!c0)) (rest.length + 1))
    (bondDim (ctrlNet c0 rest nt)) g rest hX 1 σ
    (fun j h1 h2 => ctrl_bondDim c0 rest nt j (by omega) (by omega))
    (fun j j' h1 h2 h3 h4 e => cUp_inj _ _ _ _ h1 (by omega) h3 (by omega) e)
    (fun j j' h1 h2 h3 h4 => by
      constructor <;> (simp only [cUp, cOut, cIn, Int.ofNat_eq_natCast]; split <;> omega))
    hg
    (fun j h1 h2 => by
      constructor
      · apply hoc; rw [← ho]; exact List.mem_map_of_mem (mem_outs.mpr ⟨j, h1, h2, rfl⟩)
      · apply hic; rw [← hi]; exact List.mem_map_of_mem (mem_ins.mpr ⟨j, h1, h2, rfl⟩))
    hu
  simp only [outs, ins, List.map_map, Function.comp_def] at ho hi
  rw [ho, hi] at h
  exact h

end
end Qib.GateNet

namespace Qib.GateNet
open Qib.TNet
section
variable {α : Type} [CommSemiring α]

theorem map_upd_of_notMem {L : Type} [DecidableEq L] (xs : List L) (σ : L → Nat) (l : L) (v : Nat) (h : l ∉ xs) :
    xs.map (upd σ l v) = xs.map σ := by
  apply List.map_congr_left
  intro x hx
  exact upd_other _ (fun e => h (by rw [← e]; exact hx)) _

theorem cUp_notMem_irange (neg : Bool) (nt nc j : Nat) (h1 : 1 ≤ j) : cUp (cOff nt neg) nc j ∉ irange (2 * nt) := by
  rw [mem_irange]
  cases neg <;> simp only [cUp, cOff, Int.ofNat_eq_natCast, Bool.false_eq_true, if_false, if_true] <;> split <;> omega

theorem ctrl_dkeys_nodup (c0 : Bool) (rest : List Bool) (nt : Nat) : (dkeys (ctrlNet c0 rest nt).bonds).Nodup := by
  rw [ctrl_dkeys_bonds]; exact zrange_nodup _ _

theorem ctrl_full_pos (rest : List Bool) (nt : Nat) (D : Option Int → List Nat → α) (hX : ∀ c ∈ rest, CrossSpec (Xf D) c)
    (a b : Nat) (oc ot ic it : List Nat)
    (h1 : oc.length = rest.length) (h2 : ot.length = nt) (h3 : ic.length = rest.length) (h4 : it.length = nt)
    (ha : a < 2) (hoc : ∀ x ∈ oc, x < 2) (hic : ∀ x ∈ ic, x < 2) :
    full (ctrlNet true rest nt) D ((a :: oc) ++ ot ++ ((b :: ic) ++ it)) =
      if a :: oc = b :: ic then D (some 0) ((if a :: oc = (true :: rest).map bit then 1 else 0) :: (ot ++ it)) else 0 := by
  by_cases hab : a = b
  · subst hab
    have hp := (ctrl_pins_pos rest.length nt a a oc ot ic it h1 h2 h3 h4).mpr rfl
    rw [full_eval _ D _ _ (ctrl_virt true rest nt) hp,
      sumOver_internal _ _ (ups true rest.length nt) (ctrl_dkeys_nodup true rest nt) (ups_nodup _ _ _) (ctrl_internal_mem true rest nt)]
    have hm := map_pin _ _ (fun _ => 0) hp
    generalize pin (cvb true rest.length nt) ((a :: oc) ++ ot ++ ((a :: ic) ++ it)) (fun _ => 0) = σ at hm
    obtain ⟨hf1, ho, hto, hf2, hi, hti⟩ := ctrl_split true rest.length nt σ a a oc ot ic it h1 h2 h3 hm
    simp only [cFirst, Bool.not_true, Bool.false_eq_true, if_false] at hf1
    simp only [ups, if_true, Bool.not_true] at ho hi ⊢
    -- the summand: control chain times target tensor
    have hprod : (fun τ : Int → Nat => prodL ((realTensors (ctrlNet true rest nt)).map (fun t => D t.dataref (t.bids.map τ)))) =
        fun τ => chainProd (Xf D) (cOut (cOff nt false)) (cIn (cOff nt false)) (cUp (cOff nt false) (rest.length + 1)) 1 rest τ *
          (fun τ : Int → Nat => D (some 0) (τ (cUp (cOff nt false) (rest.length + 1) (rest.length + 1)) :: (irange (2 * nt)).map τ)) τ := by
      funext τ
      rw [ctrl_real]
      simp only [Bool.not_true, Bool.false_eq_true, if_false, List.nil_append, List.map_cons, prodL_cons, prodL_cross]
      rw [mul_comm]
    have hg : ∀ j, 1 < j → j < 1 + rest.length → Indep (fun τ : Int → Nat =>
        D (some 0) (τ (cUp (cOff nt false) (rest.length + 1) (rest.length + 1)) :: (irange (2 * nt)).map τ))
        (cUp (cOff nt false) (rest.length + 1) j) := by
      intro j hj1 hj2 τ v
      have hne : cUp (cOff nt false) (rest.length + 1) (rest.length + 1) ≠ cUp (cOff nt false) (rest.length + 1) j :=
        fun e => by have := cUp_inj _ _ _ _ (by omega) (by omega) (by omega) (by omega) e; omega
      simp only [upd_other _ hne, map_upd_of_notMem _ _ _ _ (cUp_notMem_irange false nt _ j (by omega))]
    rw [hprod]
    refine (ctrl_chain true rest nt D hX _ σ oc ic hg ho hi hoc hic (by rw [← hf1] at ha; exact ha)).trans ?_
    simp only [Bool.not_true]
    rw [show 1 + rest.length = rest.length + 1 by omega, upd_same,
      map_upd_of_notMem _ _ _ _ (cUp_notMem_irange false nt _ _ (by omega)), hf1]
    have hr : (irange (2 * nt)).map σ = ot ++ it := by rw [two_mul, irange_add, List.map_append, hto, hti]
    rw [hr]
    have ha2 : a = 0 ∨ a = 1 := by omega
    by_cases hoi : oc = ic
    · subst hoi
      rcases ha2 with rfl | rfl <;> simp [bit]
    · simp [hoi]
  · have hp : pinsOK (cvb true rest.length nt) ((a :: oc) ++ ot ++ ((b :: ic) ++ it)) = false := by
      rw [Bool.eq_false_iff]
      intro h
      exact hab ((ctrl_pins_pos rest.length nt a b oc ot ic it h1 h2 h3 h4).mp h)
    rw [full_eq_zero _ D _ _ (ctrl_virt true rest nt) hp, if_neg]
    intro e
    exact hab (List.cons.inj e).1

end
end Qib.GateNet

namespace Qib.GateNet
open Qib.TNet
section
variable {α : Type} [CommSemiring α]

theorem cUp_notMem_outs_ins (neg : Bool) (nt len j : Nat) (h1 : 1 ≤ j) (h2 : j ≤ len + 1) :
    cUp (cOff nt neg) (len + 1) j ∉ outs (cOff nt neg) len ∧ cUp (cOff nt neg) (len + 1) j ∉ ins (cOff nt neg) len := by
  rw [mem_outs, mem_ins]
  constructor <;> (rintro ⟨j', h1', h2', e⟩; simp only [cUp, cOut, cIn, Int.ofNat_eq_natCast] at e; split at e <;> omega)

theorem ctrl_full_neg (rest : List Bool) (nt : Nat) (D : Option Int → List Nat → α) (hX : ∀ c ∈ rest, CrossSpec (Xf D) c)
    (hPX : ∀ p q, p < 2 → q < 2 → D (some 1) [p, q] = if p = q then 0 else 1)
    (a b : Nat) (oc ot ic it : List Nat)
    (h1 : oc.length = rest.length) (h2 : ot.length = nt) (h3 : ic.length = rest.length) (h4 : it.length = nt)
    (ha : a < 2) (hb : b < 2) (hoc : ∀ x ∈ oc, x < 2) (hic : ∀ x ∈ ic, x < 2) :
    full (ctrlNet false rest nt) D ((a :: oc) ++ ot ++ ((b :: ic) ++ it)) =
      if a :: oc = b :: ic then D (some 0) ((if a :: oc = (false :: rest).map bit then 1 else 0) :: (ot ++ it)) else 0 := by
  have hp := ctrl_pins_neg rest.length nt ((a :: oc) ++ ot ++ ((b :: ic) ++ it)) (by simp [h1, h2, h3, h4]; omega)
  rw [full_eval _ D _ _ (ctrl_virt false rest nt) hp,
    sumOver_internal _ _ (ups false rest.length nt) (ctrl_dkeys_nodup false rest nt) (ups_nodup _ _ _) (ctrl_internal_mem false rest nt)]
  have hm := map_pin _ _ (fun _ => 0) hp
  generalize pin (cvb false rest.length nt) ((a :: oc) ++ ot ++ ((b :: ic) ++ it)) (fun _ => 0) = σ at hm
  obtain ⟨hf1, ho, hto, hf2, hi, hti⟩ := ctrl_split false rest.length nt σ a b oc ot ic it h1 h2 h3 hm
  simp only [cFirst, Bool.not_false, if_true] at hf1 hf2
  simp only [Bool.not_false] at ho hi
  have hprod : (fun τ : Int → Nat => prodL ((realTensors (ctrlNet false rest nt)).map (fun t => D t.dataref (t.bids.map τ)))) =
      fun τ => chainProd (Xf D) (cOut (cOff nt true)) (cIn (cOff nt true)) (cUp (cOff nt true) (rest.length + 1)) 1 rest τ *
        (fun τ : Int → Nat => D (some 0) (τ (cUp (cOff nt true) (rest.length + 1) (rest.length + 1)) :: (irange (2 * nt)).map τ) *
          (D (some 1) [τ (2 * Int.ofNat nt), τ (cUp (cOff nt true) (rest.length + 1) 1)] * D (some 1) [τ (cUp (cOff nt true) (rest.length + 1) 1), τ (2 * Int.ofNat nt + 1)])) τ := by
    funext τ
    rw [ctrl_real]
    simp only [Bool.not_false, if_true, List.cons_append, List.nil_append, List.map_cons, prodL_cons, prodL_cross, List.map_nil]
    ring
  -- facts about the labels
  have hupF : ∀ j, 1 ≤ j → j ≤ rest.length + 1 → cUp (cOff nt true) (rest.length + 1) j ≠ 2 * Int.ofNat nt ∧ cUp (cOff nt true) (rest.length + 1) j ≠ 2 * Int.ofNat nt + 1 := by
    intro j hj1 hj2
    simp only [cUp, cOff, if_true, Int.ofNat_eq_natCast]
    constructor <;> split <;> omega
  have hg : ∀ j, 1 < j → j < 1 + rest.length → Indep (fun τ : Int → Nat =>
      D (some 0) (τ (cUp (cOff nt true) (rest.length + 1) (rest.length + 1)) :: (irange (2 * nt)).map τ) *
        (D (some 1) [τ (2 * Int.ofNat nt), τ (cUp (cOff nt true) (rest.length + 1) 1)] * D (some 1) [τ (cUp (cOff nt true) (rest.length + 1) 1), τ (2 * Int.ofNat nt + 1)])) (cUp (cOff nt true) (rest.length + 1) j) := by
    intro j hj1 hj2 τ v
    have hne : cUp (cOff nt true) (rest.length + 1) (rest.length + 1) ≠ cUp (cOff nt true) (rest.length + 1) j :=
      fun e => by have := cUp_inj _ _ _ _ (by omega) (by omega) (by omega) (by omega) e; omega
    have hne1 : cUp (cOff nt true) (rest.length + 1) 1 ≠ cUp (cOff nt true) (rest.length + 1) j :=
      fun e => by have := cUp_inj _ _ _ _ (by omega) (by omega) (by omega) (by omega) e; omega
    have := hupF j (by omega) (by omega)
    simp only [upd_other _ hne, upd_other _ hne1, upd_other _ this.1.symm, upd_other _ this.2.symm,
      map_upd_of_notMem _ _ _ _ (cUp_notMem_irange true nt _ j (by omega))]
  have hups : ups false rest.length nt = cUp (cOff nt true) (rest.length + 1) 1 :: (List.range' 2 rest.length).map (cUp (cOff nt true) (rest.length + 1)) := by
    simp only [ups, Bool.false_eq_true, if_false, Bool.not_false, List.range'_succ, List.map_cons]
  have hbd : bondDim (ctrlNet false rest nt) (cUp (cOff nt true) (rest.length + 1) 1) = 2 :=
    ctrl_bondDim false rest nt 1 (by omega) (by omega)
  rw [hups, sumOver_cons, hbd, sum_range_two, hprod]
  have hstep : ∀ w, w < 2 →
      sumOver (bondDim (ctrlNet false rest nt)) ((List.range' 2 rest.length).map (cUp (cOff nt true) (rest.length + 1)))
        (fun τ => chainProd (Xf D) (cOut (cOff nt true)) (cIn (cOff nt true)) (cUp (cOff nt true) (rest.length + 1)) 1 rest τ *
          (fun τ : Int → Nat => D (some 0) (τ (cUp (cOff nt true) (rest.length + 1) (rest.length + 1)) :: (irange (2 * nt)).map τ) *
            (D (some 1) [τ (2 * Int.ofNat nt), τ (cUp (cOff nt true) (rest.length + 1) 1)] * D (some 1) [τ (cUp (cOff nt true) (rest.length + 1) 1), τ (2 * Int.ofNat nt + 1)])) τ)
        (upd σ (cUp (cOff nt true) (rest.length + 1) 1) w) =
      (if oc = ic then 1 else 0) * (D (some 0) ((if w = 1 ∧ oc = rest.map bit then 1 else 0) :: (ot ++ it)) *
        (D (some 1) [a, w] * D (some 1) [w, b])) := by
    intro w hw
    have hnm := cUp_notMem_outs_ins true nt rest.length 1 (by omega) (by omega)
    refine (ctrl_chain false rest nt D hX _ (upd σ (cUp (cOff nt true) (rest.length + 1) 1) w) oc ic hg
      ((map_upd_of_notMem _ _ _ _ hnm.1).trans ho) ((map_upd_of_notMem _ _ _ _ hnm.2).trans hi)
      hoc hic (by simp only [Bool.not_false]; rw [upd_same]; exact hw)).trans ?_
    simp only [Bool.not_false]
    congr 1
    rw [show 1 + rest.length = rest.length + 1 by omega]
    have hu1 : upd σ (cUp (cOff nt true) (rest.length + 1) 1) w (cUp (cOff nt true) (rest.length + 1) 1) = w := upd_same _ _ _
    rw [hu1]
    -- value of the first vertical bond after the last one has been set
    have hw1 : upd (upd σ (cUp (cOff nt true) (rest.length + 1) 1) w) (cUp (cOff nt true) (rest.length + 1) (rest.length + 1)) (if w = 1 ∧ oc = rest.map bit then 1 else 0) (cUp (cOff nt true) (rest.length + 1) 1) = w := by
      by_cases hlen : rest.length = 0
      · have hr : rest = [] := List.length_eq_zero_iff.mp hlen
        have ho0 : oc = [] := List.length_eq_zero_iff.mp (by rw [h1, hlen])
        subst hr ho0
        simp only [List.length_nil, Nat.zero_add, upd_same, List.map_nil, and_true]
        have : w = 0 ∨ w = 1 := by omega
        rcases this with rfl | rfl <;> simp
      · have hne : cUp (cOff nt true) (rest.length + 1) 1 ≠ cUp (cOff nt true) (rest.length + 1) (rest.length + 1) :=
          fun e => by have := cUp_inj _ _ _ _ (by omega) (by omega) (by omega) (by omega) e; omega
        rw [upd_other _ hne, upd_same]
    have hF := hupF (rest.length + 1) (by omega) (by omega)
    have h1' := hupF 1 (by omega) (by omega)
    rw [hw1, upd_same, upd_other _ hF.1.symm, upd_other _ hF.2.symm, upd_other _ h1'.1.symm, upd_other _ h1'.2.symm, hf1, hf2,
      map_upd_of_notMem _ _ _ _ (cUp_notMem_irange true nt _ _ (by omega)),
      map_upd_of_notMem _ _ _ _ (cUp_notMem_irange true nt _ _ (by omega))]
    have hr : (irange (2 * nt)).map σ = ot ++ it := by rw [two_mul, irange_add, List.map_append, hto, hti]
    rw [hr]
  rw [hstep 0 (by omega), hstep 1 (by omega), hPX a 0 ha (by omega), hPX 0 b (by omega) hb, hPX a 1 ha (by omega),
    hPX 1 b (by omega) hb]
  have ha2 : a = 0 ∨ a = 1 := by omega
  have hb2 : b = 0 ∨ b = 1 := by omega
  by_cases hoi : oc = ic
  · subst hoi
    rcases ha2 with rfl | rfl <;> rcases hb2 with rfl | rfl <;> simp [bit]
  · simp [hoi]

end
end Qib.GateNet
