import QibProofs.Lemmas.GateNetFamilies
import QibProofs.Lemmas.GateNetChain
/-!
Helper lemmas for C06: structure of the controlled-gate network (`ctrlNet`): bond keys, labels of the open legs,
pins, internal bonds, real tensors, bond dimensions. No property statements.
-/
set_option linter.unusedSimpArgs false
set_option linter.unnecessarySeqFocus false
namespace Qib.GateNet
open Qib.TNet

/-! ### labels of the controlled-gate network -/

/-- consecutive integers `s, s+1, …, s+k-1` -/
def zrange (s : Int) (k : Nat) : List Int := (List.range k).map (fun j => s + Int.ofNat j)

theorem mem_zrange {s : Int} {k : Nat} {b : Int} : b ∈ zrange s k ↔ s ≤ b ∧ b < s + k := by
  simp only [zrange, List.mem_map, List.mem_range, Int.ofNat_eq_natCast]
  constructor
  · rintro ⟨a, ha, rfl⟩; omega
  · rintro ⟨h0, h1⟩; exact ⟨(b - s).toNat, by omega, by omega⟩

theorem zrange_nodup (s : Int) (k : Nat) : (zrange s k).Nodup :=
  List.Nodup.map (fun a b h => by simp only [Int.ofNat_eq_natCast] at h; omega) List.nodup_range

theorem zrange_zero (s : Int) : zrange s 0 = [] := rfl

theorem zrange_add (s : Int) (a b : Nat) : zrange s (a + b) = zrange s a ++ zrange (s + a) b := by
  simp only [zrange, List.range_add, List.map_append, List.map_map]
  congr 1
  apply List.map_congr_left
  intro j _
  simp only [Function.comp, Int.ofNat_eq_natCast]; omega

theorem zrange_three (s : Int) : zrange s 3 = [s, s + 1, s + 2] := by
  simp [zrange, List.range_succ]

theorem irange_eq_zrange (k : Nat) : irange k = zrange 0 k := by
  simp [irange, zrange]

/-- the bonds created in the loop over the controls carry consecutive ids -/
theorem dkeys_crossBonds (off : Int) (nc : Nat) (neg : Bool) (cs : List Bool) (i : Nat) (h : i + cs.length ≤ nc) :
    dkeys (crossBonds off nc neg i cs) = zrange (off + 3 * (Int.ofNat i - 1)) (3 * cs.length) := by
  induction cs generalizing i with
  | nil => rfl
  | cons c cs ih =>
    simp only [List.length_cons] at h
    have hi : i ≠ nc := by omega
    simp only [crossBonds, dkeys, List.map_cons, List.length_cons]
    have := ih (i + 1) (by omega)
    simp only [dkeys] at this
    rw [this, show 3 * (cs.length + 1) = 3 + 3 * cs.length by ring, zrange_add, zrange_three]
    simp only [cOut, cIn, cUp, if_neg hi, List.cons_append, List.nil_append, Int.ofNat_eq_natCast]
    congr 4
    push_cast; ring

end Qib.GateNet

namespace Qib.GateNet
open Qib.TNet

theorem ctrl_dkeys_bonds (c0 : Bool) (rest : List Bool) (nt : Nat) :
    dkeys (ctrlNet c0 rest nt).bonds = zrange 0 (2 * nt + (if c0 then 0 else 2) + 3 * rest.length + 1) := by
  simp only [ctrlNet, dkeys, List.map_append, List.map_map]
  have h1 : List.map (Prod.fst ∘ fun i : Nat => (Int.ofNat i, (⟨Int.ofNat i, [-1, 0]⟩ : SBond))) (List.range (2 * nt)) = zrange 0 (2 * nt) := by
    simp [zrange, Function.comp]
  have h3 := dkeys_crossBonds (cOff nt (!c0)) (rest.length + 1) (!c0) rest 1 (by omega)
  simp only [dkeys] at h3
  rw [h1, h3]
  rw [zrange_add, zrange_add, zrange_add]
  cases c0
  · simp only [Bool.not_false, if_true, List.map_cons, List.map_nil, cOff, cUp, zrange, Bool.false_eq_true, if_false]
    simp [List.range_succ]
  · simp only [Bool.not_true, Bool.false_eq_true, if_false, List.map_nil, cOff, cUp, zrange, if_true]
    simp [List.range_succ]

end Qib.GateNet

namespace Qib.GateNet
open Qib.TNet

def outs (off : Int) (len : Nat) : List Int := (List.range' 1 len).map (cOut off)
def ins (off : Int) (len : Nat) : List Int := (List.range' 1 len).map (cIn off)

/-- labels of the first control's output and input leg -/
def cFirst (c0 : Bool) (len nt : Nat) : Int × Int :=
  if (!c0) = true then (2 * Int.ofNat nt, 2 * Int.ofNat nt + 1)
  else (cUp (cOff nt (!c0)) (len + 1) 1, cUp (cOff nt (!c0)) (len + 1) 1)

/-- bond ids of the open legs, in logical order -/
def cvb (c0 : Bool) (len nt : Nat) : List Int :=
  ((cFirst c0 len nt).1 :: outs (cOff nt (!c0)) len) ++ irange nt ++
    (((cFirst c0 len nt).2 :: ins (cOff nt (!c0)) len) ++ irange' nt nt)

theorem ctrl_virt (c0 : Bool) (rest : List Bool) (nt : Nat) :
    dget (ctrlNet c0 rest nt).tensors (-1) =
      some ⟨-1, rep2 (2 * (rest.length + 1 + nt)), cvb c0 rest.length nt, none⟩ := by
  simp only [ctrlNet, dget, List.cons_append, List.lookup]
  rfl

theorem mem_outs {off : Int} {len : Nat} {b : Int} : b ∈ outs off len ↔ ∃ j, 1 ≤ j ∧ j < 1 + len ∧ b = cOut off j := by
  simp only [outs, List.mem_map, List.mem_range'_1]
  constructor
  · rintro ⟨j, ⟨h1, h2⟩, rfl⟩; exact ⟨j, h1, h2, rfl⟩
  · rintro ⟨j, h1, h2, rfl⟩; exact ⟨j, ⟨h1, h2⟩, rfl⟩

theorem mem_ins {off : Int} {len : Nat} {b : Int} : b ∈ ins off len ↔ ∃ j, 1 ≤ j ∧ j < 1 + len ∧ b = cIn off j := by
  simp only [ins, List.mem_map, List.mem_range'_1]
  constructor
  · rintro ⟨j, ⟨h1, h2⟩, rfl⟩; exact ⟨j, h1, h2, rfl⟩
  · rintro ⟨j, h1, h2, rfl⟩; exact ⟨j, ⟨h1, h2⟩, rfl⟩

theorem outs_nodup (off : Int) (len : Nat) : (outs off len).Nodup :=
  List.Nodup.map (fun a b h => by simp only [cOut, Int.ofNat_eq_natCast] at h; omega) (List.nodup_range' (step := 1) (by decide))

theorem ins_nodup (off : Int) (len : Nat) : (ins off len).Nodup :=
  List.Nodup.map (fun a b h => by simp only [cIn, Int.ofNat_eq_natCast] at h; omega) (List.nodup_range' (step := 1) (by decide))

@[simp] theorem length_outs (off : Int) (len : Nat) : (outs off len).length = len := by simp [outs]
@[simp] theorem length_ins (off : Int) (len : Nat) : (ins off len).length = len := by simp [ins]

/-- the labels of the open legs other than the first control's: pairwise distinct -/
theorem ctrl_labels_nodup (neg : Bool) (len nt : Nat) :
    (outs (cOff nt neg) len ++ irange nt ++ (ins (cOff nt neg) len ++ irange' nt nt)).Nodup := by
  rw [List.nodup_append, List.nodup_append, List.nodup_append]
  refine ⟨⟨outs_nodup _ _, irange_nodup _, ?_⟩, ⟨ins_nodup _ _, irange'_nodup _ _, ?_⟩, ?_⟩
  · intro x hx y hy e
    rw [mem_outs] at hx; rw [mem_irange] at hy
    obtain ⟨j, h1, h2, rfl⟩ := hx
    cases neg <;> simp only [cOut, cOff, Int.ofNat_eq_natCast] at e hy <;> simp at e hy <;> omega
  · intro x hx y hy e
    rw [mem_ins] at hx; rw [mem_irange'] at hy
    obtain ⟨j, h1, h2, rfl⟩ := hx
    cases neg <;> simp only [cIn, cOff, Int.ofNat_eq_natCast] at e hy <;> simp at e hy <;> omega
  · intro x hx y hy e
    rw [List.mem_append] at hx hy
    rcases hx with hx | hx <;> rcases hy with hy | hy
    · rw [mem_outs] at hx; rw [mem_ins] at hy
      obtain ⟨j, h1, h2, rfl⟩ := hx
      obtain ⟨j', h1', h2', rfl⟩ := hy
      simp only [cOut, cIn, Int.ofNat_eq_natCast] at e; omega
    · rw [mem_outs] at hx; rw [mem_irange'] at hy
      obtain ⟨j, h1, h2, rfl⟩ := hx
      cases neg <;> simp only [cOut, cOff, Int.ofNat_eq_natCast] at e hy <;> simp at e hy <;> omega
    · rw [mem_irange] at hx; rw [mem_ins] at hy
      obtain ⟨j', h1', h2', rfl⟩ := hy
      cases neg <;> simp only [cIn, cOff, Int.ofNat_eq_natCast] at e hx <;> simp at e hx <;> omega
    · rw [mem_irange] at hx; rw [mem_irange'] at hy; omega

end Qib.GateNet

namespace Qib.GateNet
open Qib.TNet

theorem cFirst_notMem (c0 : Bool) (len nt : Nat) :
    (cFirst c0 len nt).1 ∉ outs (cOff nt (!c0)) len ++ irange nt ++ (ins (cOff nt (!c0)) len ++ irange' nt nt) ∧
    (cFirst c0 len nt).2 ∉ outs (cOff nt (!c0)) len ++ irange nt ++ (ins (cOff nt (!c0)) len ++ irange' nt nt) := by
  simp only [List.mem_append, mem_outs, mem_ins, mem_irange, mem_irange', not_or, not_exists, not_and]
  cases c0 <;> simp only [cFirst, cOff, cOut, cIn, cUp, Bool.not_false, Bool.not_true, if_true, Bool.false_eq_true, if_false,
    Int.ofNat_eq_natCast] <;> refine ⟨⟨⟨?_, ?_⟩, ?_, ?_⟩, ⟨?_, ?_⟩, ?_, ?_⟩ <;> (try (intro j h1 h2)) <;> (try split) <;> omega

theorem ctrl_pins_neg (len nt : Nat) (idx : List Nat) (hl : idx.length = 2 * (len + 1 + nt)) :
    pinsOK (cvb false len nt) idx = true := by
  apply (pinsOK_iff _ _).mpr
  apply exists_map_of_nodup
  · have hn := ctrl_labels_nodup true len nt
    have hf := cFirst_notMem false len nt
    simp only [Bool.not_false] at hf
    have hperm : (cvb false len nt).Perm ((cFirst false len nt).1 :: (cFirst false len nt).2 ::
        (outs (cOff nt true) len ++ irange nt ++ (ins (cOff nt true) len ++ irange' nt nt))) := by
      simp only [cvb, Bool.not_false, List.cons_append, List.append_assoc]
      refine List.Perm.cons _ ?_
      rw [← List.append_assoc, ← List.append_assoc]
      exact List.perm_middle
    rw [hperm.nodup_iff, List.nodup_cons, List.nodup_cons]
    refine ⟨?_, hf.2, hn⟩
    rw [List.mem_cons, not_or]
    refine ⟨?_, hf.1⟩
    simp [cFirst]
  · simp [cvb, hl]; omega

theorem ctrl_pins_pos (len nt : Nat) (a b : Nat) (oc ot ic it : List Nat)
    (h1 : oc.length = len) (h2 : ot.length = nt) (h3 : ic.length = len) (h4 : it.length = nt) :
    pinsOK (cvb true len nt) ((a :: oc) ++ ot ++ ((b :: ic) ++ it)) = true ↔ a = b := by
  rw [pinsOK_iff]
  have hf := cFirst_notMem true len nt
  have h12 : (cFirst true len nt).2 = (cFirst true len nt).1 := by simp [cFirst]
  simp only [Bool.not_true] at hf
  constructor
  · rintro ⟨τ, hτ⟩
    simp only [cvb, Bool.not_true, List.map_append, List.map_cons] at hτ
    obtain ⟨hτ12, hτ34⟩ := List.append_inj hτ (by simp [h1, h2])
    obtain ⟨hτ1, _⟩ := List.append_inj hτ12 (by simp [h1])
    obtain ⟨hτ3, _⟩ := List.append_inj hτ34 (by simp [h3])
    rw [h12] at hτ3
    have e1 := (List.cons.inj hτ1).1
    have e3 := (List.cons.inj hτ3).1
    omega
  · rintro rfl
    have hn : ((cFirst true len nt).1 :: (outs (cOff nt false) len ++ irange nt ++ (ins (cOff nt false) len ++ irange' nt nt))).Nodup :=
      List.nodup_cons.mpr ⟨hf.1, ctrl_labels_nodup false len nt⟩
    obtain ⟨τ, hτ⟩ := exists_map_of_nodup _ (a :: (oc ++ ot ++ (ic ++ it))) hn (by simp [h1, h2, h3, h4])
    refine ⟨τ, ?_⟩
    simp only [List.map_cons, List.map_append] at hτ
    obtain ⟨ha, hrest⟩ := List.cons.inj hτ
    obtain ⟨hτ12, hτ34⟩ := List.append_inj hrest (by simp [h1, h2])
    obtain ⟨hτ1, hτ2⟩ := List.append_inj hτ12 (by simp [h1])
    obtain ⟨hτ3, hτ4⟩ := List.append_inj hτ34 (by simp [h3])
    simp only [cvb, Bool.not_true, List.map_append, List.map_cons, h12, ha, hτ1, hτ2, hτ3, hτ4]

/-- the values of the pinned assignment on the open legs -/
theorem ctrl_split (c0 : Bool) (len nt : Nat) (σ : Int → Nat) (a b : Nat) (oc ot ic it : List Nat)
    (h1 : oc.length = len) (h2 : ot.length = nt) (h3 : ic.length = len)
    (hm : (cvb c0 len nt).map σ = (a :: oc) ++ ot ++ ((b :: ic) ++ it)) :
    σ (cFirst c0 len nt).1 = a ∧ (outs (cOff nt (!c0)) len).map σ = oc ∧ (irange nt).map σ = ot ∧
    σ (cFirst c0 len nt).2 = b ∧ (ins (cOff nt (!c0)) len).map σ = ic ∧ (irange' nt nt).map σ = it := by
  simp only [cvb, List.map_append, List.map_cons] at hm
  obtain ⟨hm12, hm34⟩ := List.append_inj hm (by simp [h1, h2])
  obtain ⟨hm1, hm2⟩ := List.append_inj hm12 (by simp [h1])
  obtain ⟨hm3, hm4⟩ := List.append_inj hm34 (by simp [h3])
  exact ⟨(List.cons.inj hm1).1, (List.cons.inj hm1).2, hm2, (List.cons.inj hm3).1, (List.cons.inj hm3).2, hm4⟩

end Qib.GateNet

namespace Qib.GateNet
open Qib.TNet

/-- the vertical bonds that carry no open leg -/
def ups (c0 : Bool) (len nt : Nat) : List Int :=
  (if c0 then List.range' 2 len else List.range' 1 (len + 1)).map (cUp (cOff nt (!c0)) (len + 1))

set_option linter.unusedVariables false in
theorem cUp_inj (off : Int) (nc j j' : Nat) (h1 : 1 ≤ j) (h2 : j ≤ nc) (h1' : 1 ≤ j') (h2' : j' ≤ nc)
    (e : cUp off nc j = cUp off nc j') : j = j' := by
  simp only [cUp, Int.ofNat_eq_natCast] at e
  split at e <;> split at e <;> omega

theorem ups_nodup (c0 : Bool) (len nt : Nat) : (ups c0 len nt).Nodup := by
  unfold ups
  apply List.Nodup.map_on
  · intro j hj j' hj' e
    cases c0 <;> simp only [Bool.false_eq_true, if_false, if_true, List.mem_range'_1] at hj hj' <;>
      exact cUp_inj _ _ _ _ (by omega) (by omega) (by omega) (by omega) e
  · cases c0 <;> simp only [Bool.false_eq_true, if_false, if_true] <;> exact List.nodup_range' (step := 1) (by decide)

theorem mem_ups {c0 : Bool} {len nt : Nat} {b : Int} :
    b ∈ ups c0 len nt ↔ ∃ j, (if c0 then 2 else 1) ≤ j ∧ j ≤ len + 1 ∧ b = cUp (cOff nt (!c0)) (len + 1) j := by
  unfold ups
  cases c0 <;> simp only [Bool.false_eq_true, if_false, if_true, List.mem_map, List.mem_range'_1]
  · constructor
    · rintro ⟨j, ⟨h1, h2⟩, rfl⟩; exact ⟨j, h1, by omega, rfl⟩
    · rintro ⟨j, h1, h2, rfl⟩; exact ⟨j, ⟨h1, by omega⟩, rfl⟩
  · constructor
    · rintro ⟨j, ⟨h1, h2⟩, rfl⟩; exact ⟨j, h1, by omega, rfl⟩
    · rintro ⟨j, h1, h2, rfl⟩; exact ⟨j, ⟨h1, by omega⟩, rfl⟩

theorem ctrl_internal_mem (c0 : Bool) (rest : List Bool) (nt : Nat) (b : Int) :
    b ∈ ups c0 rest.length nt ↔ b ∈ dkeys (ctrlNet c0 rest nt).bonds ∧ b ∉ cvb c0 rest.length nt := by
  rw [ctrl_dkeys_bonds, mem_zrange, mem_ups]
  simp only [cvb, List.mem_append, List.mem_cons, mem_outs, mem_ins, mem_irange, mem_irange', not_or, not_exists, not_and]
  generalize rest.length = len
  constructor
  · rintro ⟨j, h1, h2, rfl⟩
    cases c0 <;> simp only [cFirst, cOff, cOut, cIn, cUp, Bool.not_false, Bool.not_true, if_true, Bool.false_eq_true, if_false,
      Int.ofNat_eq_natCast] at h1 ⊢ <;>
    refine ⟨⟨?_, ?_⟩, ⟨⟨?_, ?_⟩, ?_⟩, ⟨?_, ?_⟩, ?_⟩ <;> (try (intro j' h1' h2')) <;> (try split) <;> (try split) <;> omega
  · rintro ⟨⟨hb0, hb1⟩, ⟨⟨hf1, hout⟩, hr1⟩, ⟨hf2, hin⟩, hr2⟩
    cases c0 <;> simp only [cFirst, cOff, cOut, cIn, cUp, Bool.not_false, Bool.not_true, if_true, Bool.false_eq_true, if_false,
      Int.ofNat_eq_natCast] at hb1 hf1 hout hin hf2 hr1 hr2 ⊢
    · -- negated first control: off = 2nt + 2
      have hq := hout (((b - (2 * (nt : Int) + 2)) / 3).toNat + 1)
      have hq' := hin (((b - (2 * (nt : Int) + 2)) / 3).toNat + 1)
      refine ⟨((b - (2 * (nt : Int) + 2)) / 3).toNat + 1, ?_, ?_, ?_⟩
      · omega
      · omega
      · split <;> omega
    · -- plain first control: off = 2nt
      have hq := hout (((b - (2 * (nt : Int) + 0)) / 3).toNat + 1)
      have hq' := hin (((b - (2 * (nt : Int) + 0)) / 3).toNat + 1)
      split at hf1
      · refine ⟨((b - (2 * (nt : Int) + 0)) / 3).toNat + 1, ?_, ?_, ?_⟩
        · omega
        · omega
        · split <;> omega
      · refine ⟨((b - (2 * (nt : Int) + 0)) / 3).toNat + 1, ?_, ?_, ?_⟩
        · omega
        · omega
        · split <;> omega

end Qib.GateNet

namespace Qib.GateNet
open Qib.TNet
set_option linter.unusedVariables false

/-! ### tensors of the controlled-gate network -/

theorem crossTensors_key_ne (off : Int) (nc : Nat) (i : Nat) (cs : List Bool) :
    ∀ e ∈ crossTensors off nc i cs, (e.1 != -1) = true := by
  induction cs generalizing i with
  | nil => intro e he; simp [crossTensors] at he
  | cons c cs ih =>
    intro e he
    simp only [crossTensors, List.mem_cons] at he
    rcases he with rfl | he
    · simp only [Int.ofNat_eq_natCast, bne_iff_ne, ne_eq]; omega
    · exact ih (i + 1) e he

theorem crossTensors_shape (off : Int) (nc : Nat) (i : Nat) (cs : List Bool) :
    ∀ e ∈ crossTensors off nc i cs, e.2.shape = [2, 2, 2, 2] ∧ e.2.bids.length = 4 := by
  induction cs generalizing i with
  | nil => intro e he; simp [crossTensors] at he
  | cons c cs ih =>
    intro e he
    simp only [crossTensors, List.mem_cons] at he
    rcases he with rfl | he
    · simp
    · exact ih (i + 1) e he

theorem mem_crossTensors (off : Int) (nc : Nat) (i : Nat) (cs : List Bool) (j : Nat) (h1 : i ≤ j) (h2 : j < i + cs.length) :
    ∃ e ∈ crossTensors off nc i cs, cUp off nc j ∈ e.2.bids := by
  induction cs generalizing i with
  | nil => simp at h2; omega
  | cons c cs ih =>
    by_cases hij : j = i
    · subst hij
      exact ⟨_, List.mem_cons_self, by simp⟩
    · obtain ⟨e, he, hb⟩ := ih (i + 1) (by omega) (by simp only [List.length_cons] at h2; omega)
      exact ⟨e, List.mem_cons_of_mem _ he, hb⟩

section
variable {α : Type} [CommSemiring α]

/-- the crossing tensors as a function of polarity and the four indices -/
def Xf (D : Option Int → List Nat → α) : Bool → Nat → Nat → Nat → Nat → α :=
  fun c p p' u d => D (some (if c then 3 else 2)) [p, p', u, d]

theorem prodL_cross (D : Option Int → List Nat → α) (σ : Int → Nat) (off : Int) (nc : Nat) (i : Nat) (cs : List Bool) :
    prodL (((crossTensors off nc i cs).map (·.2)).map (fun t => D t.dataref (t.bids.map σ))) =
      chainProd (Xf D) (cOut off) (cIn off) (cUp off nc) i cs σ := by
  induction cs generalizing i with
  | nil => rfl
  | cons c cs ih =>
    simp only [crossTensors, List.map_cons, prodL_cons, chainProd, ih (i + 1)]
    rfl

theorem ctrl_real (c0 : Bool) (rest : List Bool) (nt : Nat) :
    realTensors (ctrlNet c0 rest nt) =
      (⟨0, 2 :: rep2 (2 * nt), cUp (cOff nt (!c0)) (rest.length + 1) (rest.length + 1) :: irange (2 * nt), some 0⟩ : STensor) ::
      ((if (!c0) = true then
        [(⟨Int.ofNat (rest.length + 1), [2, 2], [2 * Int.ofNat nt, cUp (cOff nt (!c0)) (rest.length + 1) 1], some 1⟩ : STensor),
         ⟨Int.ofNat (rest.length + 1) + 1, [2, 2], [cUp (cOff nt (!c0)) (rest.length + 1) 1, 2 * Int.ofNat nt + 1], some 1⟩]
       else []) ++ (crossTensors (cOff nt (!c0)) (rest.length + 1) 1 rest).map (·.2)) := by
  simp only [realTensors, ctrlNet, List.filter_append, List.map_append]
  rw [List.filter_eq_self.mpr (crossTensors_key_ne _ _ _ _)]
  cases c0
  · simp only [Bool.not_false, if_true]
    have e1 : ¬ ((rest.length : Int) + 1 = -1) := by omega
    have e2 : ¬ ((rest.length : Int) + 1 + 1 = -1) := by omega
    simp [List.filter_cons, e1, e2]
  · simp [List.filter_cons]

theorem ctrl_legDims_two (c0 : Bool) (rest : List Bool) (nt : Nat) : ∀ p ∈ legDims (ctrlNet c0 rest nt), p.2 = 2 := by
  intro p hp
  simp only [legDims, List.mem_flatMap] at hp
  obtain ⟨e, he, hpe⟩ := hp
  have hsh : p.2 ∈ e.2.shape := (List.of_mem_zip hpe).2
  suffices h : ∀ d ∈ e.2.shape, d = 2 from h _ hsh
  simp only [ctrlNet, List.mem_append, List.mem_cons, List.not_mem_nil, or_false] at he
  rcases he with ((rfl | rfl) | he) | he
  · intro d hd; simp only [List.mem_cons, rep2, List.mem_replicate] at hd; omega
  · intro d hd; simp only [rep2, List.mem_replicate] at hd; omega
  · cases c0
    · simp only [Bool.not_false, if_true, List.mem_cons, List.not_mem_nil, or_false] at he
      rcases he with rfl | rfl <;> (intro d hd; simp at hd; omega)
    · simp at he
  · intro d hd
    rw [(crossTensors_shape _ _ _ _ e he).1] at hd
    simp at hd; omega

theorem mem_legDims_of (net : Net) (e : Int × STensor) (he : e ∈ net.tensors) (hl : e.2.bids.length = e.2.shape.length)
    (b : Int) (hb : b ∈ e.2.bids) : b ∈ (legDims net).map (·.1) := by
  simp only [legDims, List.map_flatMap, List.mem_flatMap]
  refine ⟨e, he, ?_⟩
  rw [List.map_fst_zip (le_of_eq hl)]
  exact hb

/-- every vertical bond has dimension 2 -/
theorem ctrl_bondDim (c0 : Bool) (rest : List Bool) (nt : Nat) (j : Nat) (h1 : 1 ≤ j) (h2 : j ≤ rest.length + 1) :
    bondDim (ctrlNet c0 rest nt) (cUp (cOff nt (!c0)) (rest.length + 1) j) = 2 := by
  apply bondDim_eq _ _ _ (ctrl_legDims_two c0 rest nt)
  by_cases hj : j = rest.length + 1
  · subst hj
    refine mem_legDims_of _ (0, ⟨0, 2 :: rep2 (2 * nt), cUp (cOff nt (!c0)) (rest.length + 1) (rest.length + 1) :: irange (2 * nt), some 0⟩)
      ?_ ?_ _ List.mem_cons_self
    · simp [ctrlNet]
    · simp [rep2]
  · obtain ⟨e, he, hb⟩ := mem_crossTensors (cOff nt (!c0)) (rest.length + 1) 1 rest j h1 (by omega)
    refine mem_legDims_of _ e ?_ ?_ _ hb
    · simp only [ctrlNet, List.mem_append]; exact Or.inr he
    · have := crossTensors_shape _ _ _ _ e he
      rw [this.1, this.2]; rfl

end
end Qib.GateNet
