import QibProofs.Lemmas.GateNetCons
/-!
Helper lemmas for C06: the incidence tables of the controlled-gate network in closed arithmetic form (`ctb`: bond ids
of a tensor, `cbt`: tensor ids of a bond), their evaluation at every class of key, and the tactics used to check that
they count each other's references. No property statements.
-/
set_option linter.unusedSimpArgs false
set_option linter.unnecessarySeqFocus false
set_option linter.unusedVariables false
namespace Qib.GateNet
open Qib.TNet

/-! ### controlled-gate network: tables of the incidences in closed arithmetic form -/

/-- `off` as a plain arithmetic expression -/
def zoff (neg : Bool) (nt : Nat) : Int := 2 * (nt : Int) + (if neg then 2 else 0)

theorem cOff_eq (nt : Nat) (neg : Bool) : cOff nt neg = zoff neg nt := by simp [cOff, zoff]

/-- bond ids of the tensor with id `t` -/
def ctb (c0 : Bool) (len nt : Nat) (t : Int) : List Int :=
  let off := zoff (!c0) nt
  let up1 : Int := if len = 0 then off else off + 2
  if t = 0 then (off + 3 * len) :: irange (2 * nt)
  else if t = -1 then cvb c0 len nt
  else if c0 = false ∧ t = len + 1 then [2 * (nt : Int), up1]
  else if c0 = false ∧ t = len + 2 then [up1, 2 * (nt : Int) + 1]
  else if 1 ≤ t ∧ t ≤ len then
    [off + 3 * (t - 1), off + 3 * (t - 1) + 1, off + 3 * (t - 1) + 2, if t = len then off + 3 * len else off + 3 * t + 2]
  else []

/-- tensor ids of the bond with id `b` -/
def cbt (c0 : Bool) (len nt : Nat) (b : Int) : List Int :=
  let off := zoff (!c0) nt
  if 0 ≤ b ∧ b < 2 * nt then [-1, 0]
  else if c0 = false ∧ b = 2 * nt then [-1, (len : Int) + 1]
  else if c0 = false ∧ b = 2 * nt + 1 then [-1, (len : Int) + 2]
  else if off ≤ b ∧ b < off + 3 * len then
    (if (b - off) % 3 = 2 then
      (if (b - off) / 3 = 0 then (if c0 = false then [1, (len : Int) + 1, (len : Int) + 2] else [-1, -1, 1])
       else [(b - off) / 3, (b - off) / 3 + 1])
     else [-1, (b - off) / 3 + 1])
  else if b = off + 3 * len then
    (if len = 0 then (if c0 = false then [0, 1, 2] else [-1, -1, 0]) else [0, (len : Int)])
  else []

theorem mem_crossTensors_spec (off : Int) (nc : Nat) (i : Nat) (cs : List Bool) (e : Int × STensor)
    (he : e ∈ crossTensors off nc i cs) :
    ∃ j, i ≤ j ∧ j < i + cs.length ∧ e.1 = (j : Int) ∧ e.2.tid = (j : Int) ∧
      e.2.bids = [cOut off j, cIn off j, cUp off nc j, cUp off nc (j + 1)] ∧ e.2.shape = [2, 2, 2, 2] := by
  induction cs generalizing i with
  | nil => simp [crossTensors] at he
  | cons c cs ih =>
    simp only [crossTensors, List.mem_cons] at he
    rcases he with rfl | he
    · exact ⟨i, le_refl _, by simp, rfl, rfl, rfl, rfl⟩
    · obtain ⟨j, h1, h2, h3⟩ := ih (i + 1) he
      exact ⟨j, by omega, by simp only [List.length_cons]; omega, h3⟩

theorem mem_crossBonds_spec (off : Int) (nc : Nat) (neg : Bool) (i : Nat) (cs : List Bool) (e : Int × SBond)
    (he : e ∈ crossBonds off nc neg i cs) :
    ∃ j, i ≤ j ∧ j < i + cs.length ∧
      ((e.1 = cOut off j ∧ e.2 = ⟨cOut off j, [-1, (j : Int)]⟩) ∨ (e.1 = cIn off j ∧ e.2 = ⟨cIn off j, [-1, (j : Int)]⟩) ∨
       (e.1 = cUp off nc j ∧ e.2 = ⟨cUp off nc j,
          if j = 1 then (if neg then [1, (nc : Int), (nc : Int) + 1] else [-1, -1, 1]) else [(j : Int) - 1, (j : Int)]⟩)) := by
  induction cs generalizing i with
  | nil => simp [crossBonds] at he
  | cons c cs ih =>
    simp only [crossBonds, List.mem_cons] at he
    rcases he with rfl | rfl | rfl | he
    · exact ⟨i, le_refl _, by simp, Or.inl ⟨rfl, rfl⟩⟩
    · exact ⟨i, le_refl _, by simp, Or.inr (Or.inl ⟨rfl, rfl⟩)⟩
    · exact ⟨i, le_refl _, by simp, Or.inr (Or.inr ⟨rfl, rfl⟩)⟩
    · obtain ⟨j, h1, h2, h3⟩ := ih (i + 1) he
      exact ⟨j, by omega, by simp only [List.length_cons]; omega, h3⟩

theorem dkeys_crossTensors (off : Int) (nc : Nat) (i : Nat) (cs : List Bool) :
    dkeys (crossTensors off nc i cs) = irange' i cs.length := by
  induction cs generalizing i with
  | nil => rfl
  | cons c cs ih =>
    simp only [crossTensors, dkeys, List.map_cons, List.length_cons, irange', List.range'_succ]
    have := ih (i + 1)
    simp only [dkeys, irange'] at this
    rw [this]

theorem ctrl_tensors_nodup (c0 : Bool) (rest : List Bool) (nt : Nat) : (dkeys (ctrlNet c0 rest nt).tensors).Nodup := by
  simp only [ctrlNet, dkeys, List.map_append, List.map_cons, List.map_nil]
  have hc := dkeys_crossTensors (cOff nt (!c0)) (rest.length + 1) 1 rest
  simp only [dkeys] at hc
  rw [hc]
  cases c0
  · simp only [Bool.not_false, if_true, List.map_cons, List.map_nil, List.cons_append, List.nil_append]
    refine List.nodup_cons.mpr ⟨?_, List.nodup_cons.mpr ⟨?_, List.nodup_cons.mpr ⟨?_, List.nodup_cons.mpr ⟨?_, irange'_nodup _ _⟩⟩⟩⟩ <;>
      simp only [List.mem_cons, mem_irange', Int.ofNat_eq_natCast, not_or] <;> omega
  · simp only [Bool.not_true, Bool.false_eq_true, if_false, List.map_nil, List.append_nil, List.cons_append, List.nil_append]
    refine List.nodup_cons.mpr ⟨?_, List.nodup_cons.mpr ⟨?_, irange'_nodup _ _⟩⟩ <;>
      simp only [List.mem_cons, mem_irange', Int.ofNat_eq_natCast, not_or] <;> omega

end Qib.GateNet

namespace Qib.GateNet
open Qib.TNet

theorem mem_outs_qf {neg : Bool} {nt len : Nat} {b : Int} :
    b ∈ outs (cOff nt neg) len ↔ zoff neg nt ≤ b ∧ b < zoff neg nt + 3 * len ∧ (b - zoff neg nt) % 3 = 0 := by
  rw [mem_outs, cOff_eq]
  simp only [cOut, Int.ofNat_eq_natCast]
  constructor
  · rintro ⟨j, h1, h2, rfl⟩; omega
  · rintro ⟨h0, h1, h2⟩
    exact ⟨((b - zoff neg nt) / 3).toNat + 1, by omega, by omega, by omega⟩

theorem mem_ins_qf {neg : Bool} {nt len : Nat} {b : Int} :
    b ∈ ins (cOff nt neg) len ↔ zoff neg nt ≤ b ∧ b < zoff neg nt + 3 * len ∧ (b - zoff neg nt) % 3 = 1 := by
  rw [mem_ins, cOff_eq]
  simp only [cIn, Int.ofNat_eq_natCast]
  constructor
  · rintro ⟨j, h1, h2, rfl⟩; omega
  · rintro ⟨h0, h1, h2⟩
    exact ⟨((b - zoff neg nt) / 3).toNat + 1, by omega, by omega, by omega⟩

theorem cFirst_eq (c0 : Bool) (len nt : Nat) :
    cFirst c0 len nt = if c0 = false then (2 * (nt : Int), 2 * (nt : Int) + 1)
      else ((if len = 0 then zoff false nt else zoff false nt + 2), (if len = 0 then zoff false nt else zoff false nt + 2)) := by
  cases c0
  · simp [cFirst]
  · simp only [cFirst, Bool.not_true, Bool.false_eq_true, if_false, cUp, cOff_eq, Int.ofNat_eq_natCast]
    by_cases h : len = 0
    · subst h; simp
    · have : ¬ (1 = len + 1) := by omega
      simp [h, this]

theorem count_cvb (c0 : Bool) (len nt : Nat) (b : Int) :
    (cvb c0 len nt).count b =
      (if b = (cFirst c0 len nt).1 then 1 else 0) +
      (if zoff (!c0) nt ≤ b ∧ b < zoff (!c0) nt + 3 * len ∧ (b - zoff (!c0) nt) % 3 = 0 then 1 else 0) +
      (if 0 ≤ b ∧ b < nt then 1 else 0) +
      ((if b = (cFirst c0 len nt).2 then 1 else 0) +
      (if zoff (!c0) nt ≤ b ∧ b < zoff (!c0) nt + 3 * len ∧ (b - zoff (!c0) nt) % 3 = 1 then 1 else 0) +
      (if (nt : Int) ≤ b ∧ b < nt + nt then 1 else 0)) := by
  simp only [cvb, List.count_append, List.count_cons, List.Nodup.count (outs_nodup _ _), List.Nodup.count (ins_nodup _ _),
    count_irange, count_irange', mem_outs_qf, mem_ins_qf, beq_iff_eq]
  have e1 : ((cFirst c0 len nt).1 = b) = (b = (cFirst c0 len nt).1) := propext eq_comm
  have e2 : ((cFirst c0 len nt).2 = b) = (b = (cFirst c0 len nt).2) := propext eq_comm
  simp only [e1, e2]
  ring

end Qib.GateNet

namespace Qib.GateNet
open Qib.TNet

theorem zoff_ge (neg : Bool) (nt : Nat) : 2 * (nt : Int) ≤ zoff neg nt ∧ zoff neg nt ≤ 2 * nt + 2 ∧
    (neg = true → zoff neg nt = 2 * nt + 2) ∧ (neg = false → zoff neg nt = 2 * nt) := by
  cases neg <;> simp [zoff]

theorem ctb_zero (c0 : Bool) (len nt : Nat) : ctb c0 len nt 0 = (zoff (!c0) nt + 3 * len) :: irange (2 * nt) := by
  simp [ctb]

theorem ctb_virt (c0 : Bool) (len nt : Nat) : ctb c0 len nt (-1) = cvb c0 len nt := by
  simp [ctb]

theorem cUp_one (neg : Bool) (len nt : Nat) :
    cUp (cOff nt neg) (len + 1) 1 = if len = 0 then zoff neg nt else zoff neg nt + 2 := by
  simp only [cUp, cOff_eq, Int.ofNat_eq_natCast]
  by_cases h : len = 0
  · subst h; simp
  · have : ¬ (1 = len + 1) := by omega
    simp [h, this]

theorem cUp_last (neg : Bool) (len nt : Nat) : cUp (cOff nt neg) (len + 1) (len + 1) = zoff neg nt + 3 * len := by
  simp [cUp, cOff_eq]

theorem ctb_x1 (len nt : Nat) : ctb false len nt ((len : Int) + 1) = [2 * (nt : Int), cUp (cOff nt true) (len + 1) 1] := by
  have h1 : ¬ ((len : Int) + 1 = 0) := by omega
  have h2 : ¬ ((len : Int) + 1 = -1) := by omega
  simp [ctb, cUp_one, h1, h2]

theorem ctb_x2 (len nt : Nat) : ctb false len nt ((len : Int) + 2) = [cUp (cOff nt true) (len + 1) 1, 2 * (nt : Int) + 1] := by
  have h1 : ¬ ((len : Int) + 2 = 0) := by omega
  have h2 : ¬ ((len : Int) + 2 = -1) := by omega
  simp [ctb, cUp_one, h1, h2]

theorem ctb_cross (c0 : Bool) (len nt : Nat) (j : Nat) (h1 : 1 ≤ j) (h2 : j ≤ len) :
    ctb c0 len nt (j : Int) = [cOut (cOff nt (!c0)) j, cIn (cOff nt (!c0)) j, cUp (cOff nt (!c0)) (len + 1) j,
      cUp (cOff nt (!c0)) (len + 1) (j + 1)] := by
  unfold ctb
  rw [if_neg (by omega), if_neg (by omega), if_neg (by omega), if_neg (by omega), if_pos ⟨by omega, by omega⟩]
  simp only [cOut, cIn, cUp, cOff_eq, Int.ofNat_eq_natCast]
  have hj : ¬ (j = len + 1) := by omega
  rw [if_neg hj]
  by_cases hl : j = len
  · subst hl; simp
  · have h3 : ¬ ((j : Int) = len) := by omega
    have h4 : ¬ (j + 1 = len + 1) := by omega
    rw [if_neg h3, if_neg h4]
    simp

theorem cbt_target (c0 : Bool) (len nt : Nat) (b : Int) (h : 0 ≤ b ∧ b < 2 * nt) : cbt c0 len nt b = [-1, 0] := by
  unfold cbt; rw [if_pos h]

theorem cbt_x1 (len nt : Nat) : cbt false len nt (2 * (nt : Int)) = [-1, (len : Int) + 1] := by
  unfold cbt; rw [if_neg (by omega), if_pos ⟨rfl, rfl⟩]

theorem cbt_x2 (len nt : Nat) : cbt false len nt (2 * (nt : Int) + 1) = [-1, (len : Int) + 2] := by
  unfold cbt; rw [if_neg (by omega), if_neg (by omega), if_pos ⟨rfl, rfl⟩]

theorem cbt_skip (c0 : Bool) (len nt : Nat) (b : Int) (h : zoff (!c0) nt ≤ b) :
    ¬ (0 ≤ b ∧ b < 2 * (nt : Int)) ∧ ¬ (c0 = false ∧ b = 2 * (nt : Int)) ∧ ¬ (c0 = false ∧ b = 2 * (nt : Int) + 1) := by
  cases c0
  · have : zoff (!false) nt = 2 * (nt : Int) + 2 := by simp [zoff]
    simp only [true_and]; omega
  · have : zoff (!true) nt = 2 * (nt : Int) := by simp [zoff]
    simp only [reduceCtorEq, false_and, not_false_eq_true, and_true]; omega

theorem cbt_final (c0 : Bool) (len nt : Nat) :
    cbt c0 len nt (zoff (!c0) nt + 3 * len) =
      if len = 0 then (if c0 = false then [0, 1, 2] else [-1, -1, 0]) else [0, (len : Int)] := by
  obtain ⟨s1, s2, s3⟩ := cbt_skip c0 len nt (zoff (!c0) nt + 3 * len) (by omega)
  unfold cbt
  rw [if_neg s1, if_neg s2, if_neg s3, if_neg (by omega), if_pos rfl]

theorem cbt_block (c0 : Bool) (len nt : Nat) (j : Nat) (r : Int) (h1 : 1 ≤ j) (h2 : j ≤ len) (hr : 0 ≤ r ∧ r < 3) :
    cbt c0 len nt (zoff (!c0) nt + 3 * ((j : Int) - 1) + r) =
      if r = 2 then (if j = 1 then (if c0 = false then [1, (len : Int) + 1, (len : Int) + 2] else [-1, -1, 1])
        else [(j : Int) - 1, (j : Int)]) else [-1, (j : Int)] := by
  obtain ⟨s1, s2, s3⟩ := cbt_skip c0 len nt (zoff (!c0) nt + 3 * ((j : Int) - 1) + r) (by omega)
  unfold cbt
  rw [if_neg s1, if_neg s2, if_neg s3, if_pos ⟨by omega, by omega⟩]
  have e1 : (zoff (!c0) nt + 3 * ((j : Int) - 1) + r - zoff (!c0) nt) % 3 = r := by omega
  have e2 : (zoff (!c0) nt + 3 * ((j : Int) - 1) + r - zoff (!c0) nt) / 3 = (j : Int) - 1 := by omega
  simp only [e1, e2]
  by_cases hr2 : r = 2
  · rw [if_pos hr2, if_pos hr2]
    by_cases hj : j = 1
    · subst hj; simp
    · rw [if_neg (by omega), if_neg hj]; simp
  · rw [if_neg hr2, if_neg hr2]; simp

theorem cbt_none (c0 : Bool) (len nt : Nat) (b : Int) (h : ¬ (0 ≤ b ∧ b < 2 * nt + (if c0 then 0 else 2) + 3 * len + 1)) :
    cbt c0 len nt b = [] := by
  unfold cbt
  cases c0
  · have hz : zoff (!false) nt = 2 * (nt : Int) + 2 := by simp [zoff]
    simp only [Bool.false_eq_true, if_false] at h
    simp only [hz, true_and]
    split_ifs <;> first | rfl | (exfalso; omega)
  · have hz : zoff (!true) nt = 2 * (nt : Int) := by simp [zoff]
    simp only [if_true] at h
    simp only [hz, reduceCtorEq, false_and, if_false]
    split_ifs <;> first | rfl | (exfalso; omega)


/-- decide the conditions of consecutive `if`s by linear arithmetic -/
macro "decide_ifs" : tactic => `(tactic| (repeat (first | rw [if_pos (by omega)] | rw [if_neg (by omega)])))

/-- finish a count identity between two explicit lists: split every condition, decide by linear arithmetic -/
macro "count_tac" : tactic =>
  `(tactic| (split_ifs <;>
      simp only [List.count_cons, List.count_nil, beq_iff_eq, List.count_append, count_irange] <;>
      (try split_ifs) <;> first | contradiction | omega))

end Qib.GateNet
