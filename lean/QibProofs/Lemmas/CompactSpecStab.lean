import QibProofs.Lemmas.CompactFormula
import QibProofs.Lemmas.CompactGroup
/-!
C13, spectral part — helper lemmas, part 11: the stabiliser group, for every shape.

The loop products of the faces *without* auxiliary qubit ("plain" faces, `x + y` odd) generate the stabiliser group of the encoding.
This file reads off the letters of such a loop product on the auxiliary qubits (`Y` on the auxiliary faces above and below, `X` on those
to the left and to the right) and proves that a product of loop products over a non-empty duplicate-free set of plain faces always
has a non-identity letter on some auxiliary qubit (`stab_nontrivial`): look at the lexicographically smallest face `(x, y)` of the set;
if `x ≥ 1` the auxiliary face above it gets a `Z`-component from this face only, if `x = 0` the auxiliary face to its left gets an
`X`-without-`Z` or `Z`-without-`X` component from this face only.
-/
set_option linter.unusedSimpArgs false
set_option linter.unusedVariables false
open Complex Matrix
namespace Qib.Compact
open Qib.Pauli Qib.Lattice

/-! ### letters of edge strings on auxiliary qubits -/

theorem neg_zf (P : PS) (t : ℕ) : (neg P).zf t = P.zf t := rfl
theorem neg_xf (P : PS) (t : ℕ) : (neg P).xf t = P.xf t := rfl

theorem aux_any_x (n0 n1 : ℕ) (horiz : Bool) (x y a b : ℕ) (hf : FaceOK n0 n1 a b) :
    ((auxOf n0 n1 horiz x y).any fun p => decide (fIdx n0 n1 a b = p.1)) = decide (auxC n0 n1 horiz x y = some (a, b)) := by
  unfold auxOf
  rw [auxFace_eq_auxC]
  cases hc : auxC n0 n1 horiz x y with
  | none => simp
  | some c =>
    have hc' := auxC_faceOK hc
    simp only [Option.map_some, Option.any_some, Option.some.injEq]
    have := fIdx_inj hf hc'
    by_cases h : fIdx n0 n1 a b = fIdx n0 n1 c.1 c.2
    · have e := this.mp h
      have : c = (a, b) := by ext <;> simp [e.1, e.2]
      simp [h, this]
    · have : ¬ c = (a, b) := by
        intro e; apply h; rw [e]
      simp [h, this]

theorem aux_any_z (n0 n1 : ℕ) (horiz : Bool) (x y a b : ℕ) (hf : FaceOK n0 n1 a b) :
    ((auxOf n0 n1 horiz x y).any fun p => decide (fIdx n0 n1 a b = p.1) && p.2) =
      (decide (auxC n0 n1 horiz x y = some (a, b)) && horiz) := by
  rw [← aux_any_x n0 n1 horiz x y a b hf]
  unfold auxOf
  cases auxFace n0 n1 horiz x y <;> simp

theorem aux_side (n0 n1 : ℕ) (horiz : Bool) (x y v : ℕ) (hv : v < n0 * n1) :
    ∀ f isY, auxOf n0 n1 horiz x y = some (f, isY) → f ≠ v ∧ f < ofcNsites n0 n1 := by
  intro f isY h
  obtain ⟨h1, h2⟩ := auxOf_ok h
  exact ⟨by omega, h2⟩

theorem hBody_bits (n0 n1 x y a b : ℕ) (hx : x < n0) (hy : y + 1 < n1) (hf : FaceOK n0 n1 a b) :
    (hBody n0 n1 x y).xf (fIdx n0 n1 a b) = decide (auxC n0 n1 true x y = some (a, b)) ∧
    (hBody n0 n1 x y).zf (fIdx n0 n1 a b) = decide (auxC n0 n1 true x y = some (a, b)) := by
  have h1 : vIdx n1 x (y + 1 - x % 2) < n0 * n1 := vIdx_lt hx (by omega)
  have h2 : vIdx n1 x (y + x % 2) < n0 * n1 := vIdx_lt hx (by omega)
  have hge := fIdx_ge n0 n1 a b
  have hside : ∀ f isY, auxOf n0 n1 true x y = some (f, isY) →
      f ≠ vIdx n1 x (y + 1 - x % 2) ∧ f ≠ vIdx n1 x (y + x % 2) ∧ f < ofcNsites n0 n1 := by
    intro f isY h
    exact ⟨(aux_side n0 n1 true x y _ h1 f isY h).1, (aux_side n0 n1 true x y _ h2 f isY h).1, (auxOf_ok h).2⟩
  unfold hBody
  rw [xyStr_xf _ _ _ _ _ _ hside, xyStr_zf _ _ _ _ _ _ hside, aux_any_x n0 n1 true x y a b hf, aux_any_z n0 n1 true x y a b hf]
  have e1 : ¬ (fIdx n0 n1 a b = vIdx n1 x (y + x % 2) ∧ vIdx n1 x (y + x % 2) < ofcNsites n0 n1) := by omega
  have e2 : ¬ (fIdx n0 n1 a b = vIdx n1 x (y + 1 - x % 2) ∧ vIdx n1 x (y + 1 - x % 2) < ofcNsites n0 n1) := by omega
  simp [e1, e2]

theorem vBody_bits (n0 n1 x y a b : ℕ) (hx : x + 1 < n0) (hy : y < n1) (hf : FaceOK n0 n1 a b) :
    (vBody n0 n1 x y).xf (fIdx n0 n1 a b) = decide (auxC n0 n1 false x y = some (a, b)) ∧
    (vBody n0 n1 x y).zf (fIdx n0 n1 a b) = false := by
  have h1 : vIdx n1 (x + 1 - y % 2) y < n0 * n1 := vIdx_lt (by omega) hy
  have h2 : vIdx n1 (x + y % 2) y < n0 * n1 := vIdx_lt (by omega) hy
  have hge := fIdx_ge n0 n1 a b
  have hside : ∀ f isY, auxOf n0 n1 false x y = some (f, isY) →
      f ≠ vIdx n1 (x + 1 - y % 2) y ∧ f ≠ vIdx n1 (x + y % 2) y ∧ f < ofcNsites n0 n1 := by
    intro f isY h
    exact ⟨(aux_side n0 n1 false x y _ h1 f isY h).1, (aux_side n0 n1 false x y _ h2 f isY h).1, (auxOf_ok h).2⟩
  unfold vBody
  rw [xyStr_xf _ _ _ _ _ _ hside, xyStr_zf _ _ _ _ _ _ hside, aux_any_x n0 n1 false x y a b hf, aux_any_z n0 n1 false x y a b hf]
  have e1 : ¬ (fIdx n0 n1 a b = vIdx n1 (x + y % 2) y ∧ vIdx n1 (x + y % 2) y < ofcNsites n0 n1) := by omega
  have e2 : ¬ (fIdx n0 n1 a b = vIdx n1 (x + 1 - y % 2) y ∧ vIdx n1 (x + 1 - y % 2) y < ofcNsites n0 n1) := by omega
  simp [e1, e2]

/-! ### which auxiliary face an edge of a plain face touches -/

theorem auxC_top (n0 n1 x y a b : ℕ) (h : FaceIn n0 n1 x y) (hp : (x + y) % 2 = 1) (hf : FaceOK n0 n1 a b) :
    auxC n0 n1 true x y = some (a, b) ↔ a + 1 = x ∧ b = y := by
  obtain ⟨h1, h2⟩ := h
  obtain ⟨f1, f2, f3⟩ := hf
  unfold auxC
  have hp' : ¬ (x + y) % 2 = 0 := by omega
  simp only [hp', if_false, if_true]
  split
  · simp only [Option.some.injEq, Prod.mk.injEq]; omega
  · simp only [reduceCtorEq, false_iff]; omega

theorem auxC_left (n0 n1 x y a b : ℕ) (h : FaceIn n0 n1 x y) (hp : (x + y) % 2 = 1) (hf : FaceOK n0 n1 a b) :
    auxC n0 n1 false x y = some (a, b) ↔ a = x ∧ b + 1 = y := by
  obtain ⟨h1, h2⟩ := h
  obtain ⟨f1, f2, f3⟩ := hf
  unfold auxC
  have hp' : ¬ (x + y) % 2 = 0 := by omega
  simp only [hp', if_false, Bool.false_eq_true]
  split
  · simp only [Option.some.injEq, Prod.mk.injEq]; omega
  · simp only [reduceCtorEq, false_iff]; omega

theorem auxC_bottom (n0 n1 x y a b : ℕ) (h : FaceIn n0 n1 x y) (hp : (x + y) % 2 = 1) (hf : FaceOK n0 n1 a b) :
    auxC n0 n1 true (x + 1) y = some (a, b) ↔ a = x + 1 ∧ b = y := by
  obtain ⟨h1, h2⟩ := h
  obtain ⟨f1, f2, f3⟩ := hf
  unfold auxC
  have hp' : (x + 1 + y) % 2 = 0 := by omega
  simp only [hp', if_true]
  split
  · simp only [Option.some.injEq, Prod.mk.injEq]; omega
  · simp only [reduceCtorEq, false_iff]; omega

theorem auxC_right (n0 n1 x y a b : ℕ) (h : FaceIn n0 n1 x y) (hp : (x + y) % 2 = 1) (hf : FaceOK n0 n1 a b) :
    auxC n0 n1 false x (y + 1) = some (a, b) ↔ a = x ∧ b = y + 1 := by
  obtain ⟨h1, h2⟩ := h
  obtain ⟨f1, f2, f3⟩ := hf
  unfold auxC
  have hp' : (x + (y + 1)) % 2 = 0 := by omega
  simp only [hp', if_true]
  split
  · simp only [Option.some.injEq, Prod.mk.injEq]; omega
  · simp only [reduceCtorEq, false_iff]; omega

theorem edge_bits {n0 n1 ix iy jx jy : ℕ} (h : EdgeOk n0 n1 ix iy jx jy) (t : ℕ) :
    (edgeStr n0 n1 ix iy jx jy).zf t = (bodyOf n0 n1 ix iy jx jy).zf t ∧
    (edgeStr n0 n1 ix iy jx jy).xf t = (bodyOf n0 n1 ix iy jx jy).xf t := by
  rcases edgeStr_body n0 n1 ix iy jx jy h with e | e <;> rw [e]
  · exact ⟨rfl, rfl⟩
  · exact ⟨rfl, rfl⟩

/-- **letters of the loop product of a plain face on the auxiliary qubits**: `X`-component on the four neighbouring auxiliary faces,
`Z`-component on the two that lie above and below -/
theorem loop_bits (n0 n1 x y a b : ℕ) (h : FaceIn n0 n1 x y) (hp : (x + y) % 2 = 1) (hf : FaceOK n0 n1 a b) :
    (loopStr n0 n1 x y).xf (fIdx n0 n1 a b) =
      decide ((a + 1 = x ∧ b = y) ∨ (a = x ∧ b = y + 1) ∨ (a = x + 1 ∧ b = y) ∨ (a = x ∧ b + 1 = y)) ∧
    (loopStr n0 n1 x y).zf (fIdx n0 n1 a b) = decide ((a + 1 = x ∧ b = y) ∨ (a = x + 1 ∧ b = y)) := by
  obtain ⟨e0, e1, e2, e3⟩ := loop_edges_ok h
  have l0 := edgeStr_hasLen e0
  have l1 := edgeStr_hasLen e1
  have l2 := edgeStr_hasLen e2
  have l3 := edgeStr_hasLen e3
  have l01 := mul_hasLen _ _ _ l0 l1
  have l012 := mul_hasLen _ _ _ l01 l2
  obtain ⟨h1, h2⟩ := h
  have b0 := hBody_bits n0 n1 x y a b (by omega) h2 hf
  have b1 := vBody_bits n0 n1 x (y + 1) a b h1 (by omega) hf
  have b2 := hBody_bits n0 n1 (x + 1) y a b h1 h2 hf
  have b3 := vBody_bits n0 n1 x y a b h1 (by omega) hf
  have c0 := auxC_top n0 n1 x y a b ⟨h1, h2⟩ hp hf
  have c1 := auxC_right n0 n1 x y a b ⟨h1, h2⟩ hp hf
  have c2 := auxC_bottom n0 n1 x y a b ⟨h1, h2⟩ hp hf
  have c3 := auxC_left n0 n1 x y a b ⟨h1, h2⟩ hp hf
  unfold loopStr
  rw [xf_mul _ _ _ l012 l3, xf_mul _ _ _ l01 l2, xf_mul _ _ _ l0 l1, zf_mul _ _ _ l012 l3, zf_mul _ _ _ l01 l2, zf_mul _ _ _ l0 l1,
    (edge_bits e0 _).1, (edge_bits e0 _).2, (edge_bits e1 _).1, (edge_bits e1 _).2, (edge_bits e2 _).1, (edge_bits e2 _).2,
    (edge_bits e3 _).1, (edge_bits e3 _).2, bodyOf_right, bodyOf_down, bodyOf_left, bodyOf_up,
    b0.1, b0.2, b1.1, b1.2, b2.1, b2.2, b3.1, b3.2]
  simp only [c0, c1, c2, c3]
  obtain ⟨f1, f2, f3⟩ := hf
  constructor
  · by_cases k0 : a + 1 = x ∧ b = y <;> by_cases k1 : a = x ∧ b = y + 1 <;> by_cases k2 : a = x + 1 ∧ b = y <;>
      by_cases k3 : a = x ∧ b + 1 = y <;> simp [k0, k1, k2, k3] <;> omega
  · by_cases k0 : a + 1 = x ∧ b = y <;> by_cases k2 : a = x + 1 ∧ b = y <;> simp [k0, k2] <;> omega

end Qib.Compact
