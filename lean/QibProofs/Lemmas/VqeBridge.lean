import QibModel.Vqe
import QibProofs.Lemmas.VqeQucc
/-!
Bridge for C20 from the executable model (`QibModel/GQ.lean`, `QibModel/Vqe.lean`: Gaussian rationals, array-backed
matrices at flat indices) to Mathlib (`ℂ`, `Matrix (Fin d) (Fin d) ℂ`, `Fin d → ℂ`):

* `GQ.toC` is an injective ring homomorphism commuting with conjugation;
* `Mat.toM d A` / `vecC d ψ` read an executable matrix / state vector as a Mathlib matrix / vector;
  `toM` commutes with `mul`, `add`, `smul`, `sub`, `adjoint`, `one`, `zeros` for `d × d` matrices;
* `expectRaw`, `expectSpec` are `ev (vecC ψ) (toM P)`.
No property statements here.
-/
open Matrix Complex
open scoped ComplexConjugate

namespace Qib

/-! ### Gaussian rationals -/

namespace GQ

noncomputable def toC (g : GQ) : ℂ := ((g.re : ℚ) : ℂ) + ((g.im : ℚ) : ℂ) * Complex.I

@[simp] theorem zero_re : (0 : GQ).re = 0 := rfl
@[simp] theorem zero_im : (0 : GQ).im = 0 := rfl
@[simp] theorem one_re : (1 : GQ).re = 1 := rfl
@[simp] theorem one_im : (1 : GQ).im = 0 := rfl
@[simp] theorem add_re (a b : GQ) : (a + b).re = a.re + b.re := rfl
@[simp] theorem add_im (a b : GQ) : (a + b).im = a.im + b.im := rfl
@[simp] theorem sub_re (a b : GQ) : (a - b).re = a.re - b.re := rfl
@[simp] theorem sub_im (a b : GQ) : (a - b).im = a.im - b.im := rfl
@[simp] theorem neg_re (a : GQ) : (-a).re = -a.re := rfl
@[simp] theorem neg_im (a : GQ) : (-a).im = -a.im := rfl
@[simp] theorem mul_re (a b : GQ) : (a * b).re = a.re * b.re - a.im * b.im := rfl
@[simp] theorem mul_im (a b : GQ) : (a * b).im = a.re * b.im + a.im * b.re := rfl
@[simp] theorem conj_re (a : GQ) : a.conj.re = a.re := rfl
@[simp] theorem conj_im (a : GQ) : a.conj.im = -a.im := rfl

theorem toC_re (g : GQ) : g.toC.re = ((g.re : ℚ) : ℝ) := by simp [toC]
theorem toC_im (g : GQ) : g.toC.im = ((g.im : ℚ) : ℝ) := by simp [toC]

@[simp] theorem toC_zero : (0 : GQ).toC = 0 := by simp [toC]
@[simp] theorem toC_one : (1 : GQ).toC = 1 := by simp [toC]
theorem toC_add (a b : GQ) : (a + b).toC = a.toC + b.toC := by
  simp only [toC, add_re, add_im, Rat.cast_add]; ring
theorem toC_sub (a b : GQ) : (a - b).toC = a.toC - b.toC := by
  simp only [toC, sub_re, sub_im, Rat.cast_sub]; ring
theorem toC_neg (a : GQ) : (-a).toC = -a.toC := by
  simp only [toC, neg_re, neg_im, Rat.cast_neg]; ring
theorem toC_mul (a b : GQ) : (a * b).toC = a.toC * b.toC := by
  simp only [toC, mul_re, mul_im, Rat.cast_add, Rat.cast_sub, Rat.cast_mul]
  ring_nf
  rw [Complex.I_sq]; ring
theorem toC_conj (a : GQ) : a.conj.toC = conj a.toC := by
  simp only [toC, conj_re, conj_im, Rat.cast_neg, map_add, map_mul, Complex.conj_I, map_ratCast]
  ring

theorem toC_injective : Function.Injective toC := by
  intro a b h
  have h1 := congrArg Complex.re h
  have h2 := congrArg Complex.im h
  rw [toC_re, toC_re] at h1
  rw [toC_im, toC_im] at h2
  cases a; cases b
  simp only [GQ.mk.injEq]
  exact ⟨by exact_mod_cast h1, by exact_mod_cast h2⟩

theorem toC_eq_zero_iff (a : GQ) : a.toC = 0 ↔ a = 0 := by
  rw [← toC_zero]; exact toC_injective.eq_iff

theorem toC_ofRat (r : ℚ) : (GQ.ofRat r).toC = (r : ℂ) := by simp [toC, GQ.ofRat]

end GQ

/-! ### flat arrays as vectors and matrices -/

/-- a state vector read as a function on `Fin d` (entries beyond the array are 0, as in the model's `getD`) -/
noncomputable def vecC (d : ℕ) (ψ : Array GQ) : Fin d → ℂ := fun i => (ψ.getD i 0).toC

/-- an executable matrix read as a `d × d` Mathlib matrix -/
noncomputable def Mat.toM (d : ℕ) (A : Mat) : Matrix (Fin d) (Fin d) ℂ := fun i j => (A.get i j).toC

/-- `A` is a `d × d` matrix -/
def Mat.Sq (d : ℕ) (A : Mat) : Prop := A.n = d ∧ A.m = d

theorem Mat.get_ofFn {n m : ℕ} (f : ℕ → ℕ → GQ) {i j : ℕ} (hi : i < n) (hj : j < m) :
    (Mat.ofFn n m f).get i j = f i j := by
  have hlt : i * m + j < n * m := by
    calc i * m + j < i * m + m := by omega
      _ = (i + 1) * m := by ring
      _ ≤ n * m := Nat.mul_le_mul_right m hi
  have hm : 0 < m := by omega
  simp only [Mat.get, Mat.ofFn, Array.getD_eq_getD_getElem?, Array.getElem?_ofFn, hlt, dite_true, Option.getD_some]
  congr 1
  · rw [Nat.mul_comm, Nat.mul_add_div hm, Nat.div_eq_of_lt hj, Nat.add_zero]
  · rw [Nat.mul_comm, Nat.mul_add_mod, Nat.mod_eq_of_lt hj]

theorem Mat.ofFn_sq (d : ℕ) (f : ℕ → ℕ → GQ) : (Mat.ofFn d d f).Sq d := ⟨rfl, rfl⟩

theorem Mat.toM_ofFn (d : ℕ) (f : ℕ → ℕ → GQ) (i j : Fin d) : (Mat.ofFn d d f).toM d i j = (f i j).toC := by
  simp only [Mat.toM, Mat.get_ofFn f i.isLt j.isLt]

namespace Vqe

theorem foldl_add_toC (l : List ℕ) (f : ℕ → GQ) (a : GQ) :
    (l.foldl (fun acc k => acc + f k) a).toC = a.toC + (l.map fun k => (f k).toC).sum := by
  induction l generalizing a with
  | nil => simp
  | cons x l ih => rw [List.foldl_cons, ih, GQ.toC_add, List.map_cons, List.sum_cons, add_assoc]

theorem list_range_sum (n : ℕ) (g : ℕ → ℂ) : ((List.range n).map g).sum = ∑ k : Fin n, g k := by
  rw [Fin.sum_univ_eq_sum_range g n]
  induction n with
  | zero => simp
  | succ n ih => simp [List.range_succ, Finset.sum_range_succ, ih]

theorem sumRange_toC (n : ℕ) (f : ℕ → GQ) : (sumRange n f).toC = ∑ k : Fin n, (f k).toC := by
  rw [sumRange, foldl_add_toC, GQ.toC_zero, zero_add, list_range_sum n fun k => (f k).toC]

/-- bridging facts over the generated flags: the left state factor is conjugated, the right one is not -/
theorem cj_left (z : GQ) : cj QibGen.Vqe.expectConjLeft z = z.conj := rfl
theorem cj_right (z : GQ) : cj QibGen.Vqe.expectConjRight z = z := rfl

theorem rowVec_getD (ψ : Array GQ) (P : Mat) (j : ℕ) (hj : j < P.m) :
    (rowVec ψ P).getD j 0 = sumRange ψ.size fun i => (ψ.getD i 0).conj * P.get i j := by
  simp [rowVec, Array.getD_eq_getD_getElem?, hj, cj_left]

theorem rowVec_size (ψ : Array GQ) (P : Mat) : (rowVec ψ P).size = P.m := by simp [rowVec]

theorem colVec_getD (ψ : Array GQ) (P : Mat) (i : ℕ) (hi : i < P.n) :
    (colVec ψ P).getD i 0 = sumRange ψ.size fun j => P.get i j * ψ.getD j 0 := by
  simp [colVec, Array.getD_eq_getD_getElem?, hi, cj_right]

theorem colVec_size (ψ : Array GQ) (P : Mat) : (colVec ψ P).size = P.n := by simp [colVec]

/-- `(ψ† P) ψ` -/
theorem expectLF_toC (d : ℕ) (ψ : Array GQ) (P : Mat) (hψ : ψ.size = d) (hP : P.m = d) :
    (expectLF ψ P).toC = VqeLemmas.ev (vecC d ψ) (P.toM d) := by
  subst hψ
  rw [VqeLemmas.ev_two_step]
  simp only [expectLF, rowVec_size, hP, sumRange_toC, dotProduct, vecMul, Pi.star_apply, Complex.star_def]
  refine Finset.sum_congr rfl fun j _ => ?_
  rw [GQ.toC_mul, rowVec_getD ψ P j (by rw [hP]; exact j.isLt), sumRange_toC, cj_right]
  congr 1
  refine Finset.sum_congr rfl fun i _ => ?_
  rw [GQ.toC_mul, GQ.toC_conj]
  rfl

/-- `ψ† (P ψ)` -/
theorem expectRF_toC (d : ℕ) (ψ : Array GQ) (P : Mat) (hψ : ψ.size = d) (hP : P.n = d) :
    (expectRF ψ P).toC = VqeLemmas.ev (vecC d ψ) (P.toM d) := by
  subst hψ
  simp only [VqeLemmas.ev, expectRF, colVec_size, hP, sumRange_toC, dotProduct, mulVec, Pi.star_apply, Complex.star_def]
  refine Finset.sum_congr rfl fun i _ => ?_
  rw [GQ.toC_mul, colVec_getD ψ P i (by rw [hP]; exact i.isLt), sumRange_toC, cj_left, GQ.toC_conj]
  congr 1
  refine Finset.sum_congr rfl fun j _ => ?_
  rw [GQ.toC_mul]
  rfl

/-- the model's product, in whichever order the source forms it, is `ψ† P ψ` (Mathlib's `star ψ ⬝ᵥ P *ᵥ ψ`) -/
theorem expectRaw_toC (d : ℕ) (ψ : Array GQ) (P : Mat) (hψ : ψ.size = d) (hP : P.Sq d) :
    (expectRaw ψ P).toC = VqeLemmas.ev (vecC d ψ) (P.toM d) := by
  unfold expectRaw
  split
  · exact expectLF_toC d ψ P hψ hP.2
  · exact expectRF_toC d ψ P hψ hP.1

theorem expectSpec_toC (d : ℕ) (ψ : Array GQ) (P : Mat) (hψ : ψ.size = d) :
    (expectSpec ψ P).toC = VqeLemmas.ev (vecC d ψ) (P.toM d) := by
  subst hψ
  rw [VqeLemmas.ev_sum]
  simp only [expectSpec, sumRange_toC]
  refine Finset.sum_congr rfl fun i _ => Finset.sum_congr rfl fun j _ => ?_
  rw [GQ.toC_mul, GQ.toC_mul, GQ.toC_conj]
  rfl

theorem expect_ok (ψ : Array GQ) (P : Mat) (v : GQ) (h : expect ψ P = .ok v) :
    P.n = ψ.size ∧ P.m = ψ.size ∧ v = expectRaw ψ P := by
  unfold expect at h
  split at h
  · cases h
  · split at h
    · cases h
    · rename_i h1 h2
      simp only [Except.ok.injEq] at h
      exact ⟨(not_not.mp h1).symm, not_not.mp h2, h.symm⟩

/-! ### matrix operations -/

theorem toM_mul (d : ℕ) (A B : Mat) (hA : A.Sq d) (hB : B.m = d) : (A.mul B).toM d = A.toM d * B.toM d := by
  ext i j
  obtain ⟨hn, hm⟩ := hA
  simp only [Mat.toM, Mat.mul, Matrix.mul_apply]
  rw [Mat.get_ofFn _ (by rw [hn]; exact i.isLt) (by rw [hB]; exact j.isLt), foldl_add_toC, GQ.toC_zero, zero_add,
    hm, list_range_sum d fun k => (A.get i k * B.get k j).toC]
  refine Finset.sum_congr rfl fun k _ => ?_
  rw [GQ.toC_mul]

theorem mul_sq (d : ℕ) (A B : Mat) (hA : A.Sq d) (hB : B.m = d) : (A.mul B).Sq d := ⟨hA.1, hB⟩

theorem toM_add (d : ℕ) (A B : Mat) (hA : A.Sq d) : (A.add B).toM d = A.toM d + B.toM d := by
  ext i j
  obtain ⟨hn, hm⟩ := hA
  simp only [Mat.toM, Mat.add, Matrix.add_apply]
  rw [Mat.get_ofFn _ (by rw [hn]; exact i.isLt) (by rw [hm]; exact j.isLt), GQ.toC_add]

theorem add_sq (d : ℕ) (A B : Mat) (hA : A.Sq d) : (A.add B).Sq d := hA

theorem toM_sub (d : ℕ) (A B : Mat) (hA : A.Sq d) : (sub A B).toM d = A.toM d - B.toM d := by
  ext i j
  obtain ⟨hn, hm⟩ := hA
  simp only [Mat.toM, sub, Matrix.sub_apply]
  rw [Mat.get_ofFn _ (by rw [hn]; exact i.isLt) (by rw [hm]; exact j.isLt), GQ.toC_sub]

theorem sub_sq (d : ℕ) (A B : Mat) (hA : A.Sq d) : (sub A B).Sq d := hA

theorem toM_smul (d : ℕ) (c : GQ) (A : Mat) (hA : A.Sq d) : (Mat.smul c A).toM d = c.toC • A.toM d := by
  ext i j
  obtain ⟨hn, hm⟩ := hA
  simp only [Mat.toM, Mat.smul, Matrix.smul_apply, smul_eq_mul]
  rw [Mat.get_ofFn _ (by rw [hn]; exact i.isLt) (by rw [hm]; exact j.isLt), GQ.toC_mul]

theorem smul_sq (d : ℕ) (c : GQ) (A : Mat) (hA : A.Sq d) : (Mat.smul c A).Sq d := hA

theorem toM_adjoint (d : ℕ) (A : Mat) (hA : A.Sq d) : A.adjoint.toM d = (A.toM d)ᴴ := by
  ext i j
  obtain ⟨hn, hm⟩ := hA
  simp only [Mat.toM, Mat.adjoint, Matrix.conjTranspose_apply, Complex.star_def]
  rw [Mat.get_ofFn _ (by rw [hm]; exact i.isLt) (by rw [hn]; exact j.isLt), GQ.toC_conj]

theorem adjoint_sq (d : ℕ) (A : Mat) (hA : A.Sq d) : A.adjoint.Sq d := ⟨hA.2, hA.1⟩

theorem toM_one (d : ℕ) : (Mat.one d).toM d = 1 := by
  ext i j
  rw [Mat.one, Mat.toM_ofFn, Matrix.one_apply]
  by_cases h : i = j
  · simp [h]
  · have : (i : ℕ) ≠ j := fun h' => h (Fin.ext h')
    simp [h, this]

theorem one_sq (d : ℕ) : (Mat.one d).Sq d := ⟨rfl, rfl⟩

theorem toM_zeros (d : ℕ) : (zeros d d).toM d = 0 := by
  ext i j
  rw [zeros, Mat.toM_ofFn]; simp

theorem zeros_sq (d : ℕ) : (zeros d d).Sq d := ⟨rfl, rfl⟩

/-- bridging facts over the generated exponent shape: the adjoint part is conjugate-transposed and enters with sign −1 -/
theorem adjPart_eq (T : Mat) : adjPart T = T.adjoint := rfl
theorem genSign_toC : (gqOfInts (QibGen.Vqe.genAdjointSign, 0)).toC = -1 := by
  simp [gqOfInts, QibGen.Vqe.genAdjointSign, GQ.toC]

theorem quccGenerator_sq (d : ℕ) (T : Mat) (hT : T.Sq d) : (quccGenerator T).Sq d := hT

theorem toM_quccGenerator (d : ℕ) (T : Mat) (hT : T.Sq d) : (quccGenerator T).toM d = T.toM d - (T.toM d)ᴴ := by
  ext i j
  obtain ⟨hn, hm⟩ := hT
  have ha := toM_adjoint d T ⟨hn, hm⟩
  simp only [Mat.toM, quccGenerator, Matrix.sub_apply]
  rw [Mat.get_ofFn _ (by rw [hn]; exact i.isLt) (by rw [hm]; exact j.isLt), GQ.toC_add, GQ.toC_mul, genSign_toC, adjPart_eq]
  have := congrFun (congrFun ha i) j
  simp only [Mat.toM] at this
  rw [this]
  ring

end Vqe

end Qib
