import Mathlib.Data.Complex.Basic
import Mathlib.Data.Matrix.Mul
import Mathlib.Tactic.Linarith
import Mathlib.Tactic.Ring
import Mathlib.Tactic.Abel
import QibProofs.Lemmas.PauliMat
/-!
Core D: operator level. `PauliOp.matG mat φ op = Σ φ(weight) • mat(string)` for an arbitrary denotation
`mat : PS → M` into a ℂ-module (instantiated with `PS.mat n` in `Properties/C09.lean`, reusable with any
other linear denotation, e.g. expectation values), and its invariance under merge-on-insert and
zero-weight pruning. `φ : α → ℂ` is any additive map of weights (`id` for ℂ, `GQ.toC` for the driver's
Gaussian rationals). Helper lemmas only.
-/
open Complex Matrix
namespace Qib.Pauli

section generic
variable {M : Type} [AddCommGroup M] [Module ℂ M] (mat : PS → M)

namespace PauliOp
variable {α : Type}

/-- weighted sum of the string matrices -/
def matG (φ : α → ℂ) (op : PauliOp α) : M := (op.map fun e => φ e.2 • mat e.1).sum

theorem matG_nil (φ : α → ℂ) : matG mat φ ([] : PauliOp α) = 0 := rfl
theorem matG_cons (φ : α → ℂ) (e : PS × α) (op : PauliOp α) :
    matG mat φ (e :: op) = φ e.2 • mat e.1 + matG mat φ op := by simp [matG]

theorem add_matG [Add α] (φ : α → ℂ) (hadd : ∀ a b, φ (a + b) = φ a + φ b) (op : PauliOp α) (P : PS) (w : α) :
    matG mat φ (op.add P w) = matG mat φ op + φ w • mat P := by
  induction op with
  | nil => simp [add, matG]
  | cons e rest ih =>
    obtain ⟨Q, v⟩ := e
    by_cases h : Q = P
    · subst h
      simp only [add, if_true, matG_cons, hadd, add_smul]
      abel
    · simp only [add, if_neg h, matG_cons, ih]
      abel

theorem filter_matG (φ : α → ℂ) (isZ : α → Bool) (hz : ∀ w, isZ w = true → φ w = 0) (op : PauliOp α) :
    matG mat φ (op.filter fun p => !isZ p.2) = matG mat φ op := by
  induction op with
  | nil => rfl
  | cons e rest ih =>
    by_cases h : isZ e.2 = true
    · simp [h, matG_cons, ih, hz _ h]
    · simp [h, matG_cons, ih]

theorem removeZero_matG (φ : α → ℂ) (isZ : α → Bool) (hz : ∀ w, isZ w = true → φ w = 0) (op : PauliOp α) :
    matG mat φ (op.removeZero isZ) = matG mat φ op := by
  cases op with
  | nil => rfl
  | cons e rest =>
    simp only [removeZero]
    split
    · rename_i h
      simp only [Bool.and_eq_true] at h
      rw [matG_cons, filter_matG mat φ isZ hz, hz _ h.1]; simp
    · rw [matG_cons, matG_cons, filter_matG mat φ isZ hz]

/-- sum of the inserted terms of a history -/
def addsG (φ : α → ℂ) (h : List (Step α)) : M :=
  (h.map fun s => match s with | .add P w => φ w • mat P | .prune _ => 0).sum

theorem run_matG [Add α] (φ : α → ℂ) (hadd : ∀ a b, φ (a + b) = φ a + φ b) (h : List (Step α))
    (hz : ∀ isZ, Step.prune isZ ∈ h → ∀ w, isZ w = true → φ w = 0) (op : PauliOp α) :
    matG mat φ (run op h) = matG mat φ op + addsG mat φ h := by
  induction h generalizing op with
  | nil => simp [run, addsG]
  | cons s h ih =>
    have ih' := ih (fun isZ hm => hz isZ (List.mem_cons_of_mem _ hm)) (step op s)
    simp only [run, List.foldl_cons] at ih' ⊢
    rw [ih']
    cases s with
    | add P w => simp only [step, add_matG mat φ hadd, addsG, List.map_cons, List.sum_cons]; abel
    | prune isZ =>
      simp only [step, removeZero_matG mat φ isZ (hz isZ (List.mem_cons_self ..)), addsG, List.map_cons,
        List.sum_cons, zero_add]

end PauliOp
end generic

/-! Gaussian rationals into ℂ -/
noncomputable def GQ.toC (g : GQ) : ℂ := (g.re : ℂ) + (g.im : ℂ) * I

theorem GQ.toC_add (a b : GQ) : (a + b).toC = a.toC + b.toC := by
  simp only [GQ.toC, GQ.add_def, Rat.cast_add]; ring

theorem GQ.toC_zero : (0 : GQ).toC = 0 := by simp [GQ.toC, GQ.zero_def]

theorem GQ.absLe_zero (a : GQ) (h : a.absLe 0 = true) : a.toC = 0 := by
  simp only [GQ.absLe, GQ.normSq, Bool.and_eq_true, decide_eq_true_eq] at h
  have h2 : a.re * a.re + a.im * a.im ≤ 0 * 0 := of_decide_eq_true h.2
  have h3 : a.re * a.re + a.im * a.im = 0 :=
    le_antisymm (by simpa using h2) (add_nonneg (mul_self_nonneg _) (mul_self_nonneg _))
  obtain ⟨hre, him⟩ := mul_self_add_mul_self_eq_zero.mp h3
  simp [GQ.toC, hre, him]

/-! instance used by C09: `mat := PS.mat n` -/

/-- matrix of a Pauli operator: weighted sum of its strings (`φ` maps the weight type into ℂ) -/
noncomputable def PauliOp.mat {α : Type} (φ : α → ℂ) (n : ℕ) (op : PauliOp α) :
    Matrix (Fin n → Bool) (Fin n → Bool) ℂ := PauliOp.matG (PS.mat n) φ op

/-- the terms inserted by a history -/
noncomputable def PauliOp.adds {α : Type} (φ : α → ℂ) (n : ℕ) (h : List (PauliOp.Step α)) :
    Matrix (Fin n → Bool) (Fin n → Bool) ℂ := PauliOp.addsG (PS.mat n) φ h

end Qib.Pauli
