import Mathlib.Data.Complex.Basic
import Mathlib.Data.Matrix.Mul
import Mathlib.Tactic.Linarith
import Mathlib.Tactic.Ring
import Mathlib.Tactic.Abel
import Mathlib.Data.List.Induction
import QibProofs.Lemmas.PauliMat
/-!
Core D: operator level. `PauliOp.matG mat φ op = Σ φ(weight) • mat(string)` for an arbitrary denotation
`mat : PS → M` into a ℂ-module (instantiated with `PS.mat n` in `Properties/C09.lean`, reusable with any
other linear denotation, e.g. expectation values), and its invariance under merge-on-insert and
zero-weight pruning. `φ : α → ℂ` is any additive map of weights (`id` for ℂ, `GQ.toC` for the driver's
Gaussian rationals). Helper lemmas only.
-/
open Complex Matrix
namespace Qib.Pauli

section generic
variable {M : Type} [AddCommGroup M] [Module ℂ M] (mat : PS → M)

namespace PauliOp
variable {α : Type}

/-- weighted sum of the string matrices -/
def matG (φ : α → ℂ) (op : PauliOp α) : M := (op.map fun e => φ e.2 • mat e.1).sum

theorem matG_nil (φ : α → ℂ) : matG mat φ ([] : PauliOp α) = 0 := rfl
theorem matG_cons (φ : α → ℂ) (e : PS × α) (op : PauliOp α) :
    matG mat φ (e :: op) = φ e.2 • mat e.1 + matG mat φ op := by simp [matG]

theorem add_matG [Add α] (φ : α → ℂ) (hadd : ∀ a b, φ (a + b) = φ a + φ b) (op : PauliOp α) (P : PS) (w : α) :
    matG mat φ (op.add P w) = matG mat φ op + φ w • mat P := by
  induction op with
  | nil => simp [add, matG]
  | cons e rest ih =>
    obtain ⟨Q, v⟩ := e
    by_cases h : Q = P
    · subst h
      simp only [add, if_true, matG_cons, hadd, add_smul]
      abel
    · simp only [add, if_neg h, matG_cons, ih]
      abel

theorem filter_matG (φ : α → ℂ) (isZ : α → Bool) (hz : ∀ w, isZ w = true → φ w = 0) (op : PauliOp α) :
    matG mat φ (op.filter fun p => !isZ p.2) = matG mat φ op := by
  induction op with
  | nil => rfl
  | cons e rest ih =>
    by_cases h : isZ e.2 = true
    · simp [h, matG_cons, ih, hz _ h]
    · simp [h, matG_cons, ih]

theorem removeZero_matG (φ : α → ℂ) (isZ : α → Bool) (hz : ∀ w, isZ w = true → φ w = 0) (op : PauliOp α) :
    matG mat φ (op.removeZero isZ) = matG mat φ op := by
  cases op with
  | nil => rfl
  | cons e rest =>
    simp only [removeZero]
    split
    · rename_i h
      simp only [Bool.and_eq_true] at h
      rw [matG_cons, filter_matG mat φ isZ hz, hz _ h.1]; simp
    · rw [matG_cons, matG_cons, filter_matG mat φ isZ hz]

/-- sum of the inserted terms of a history -/
def addsG (φ : α → ℂ) (h : List (Step α)) : M :=
  (h.map fun s => match s with | .add P w => φ w • mat P | .prune _ => 0).sum

theorem run_matG [Add α] (φ : α → ℂ) (hadd : ∀ a b, φ (a + b) = φ a + φ b) (h : List (Step α))
    (hz : ∀ isZ, Step.prune isZ ∈ h → ∀ w, isZ w = true → φ w = 0) (op : PauliOp α) :
    matG mat φ (run op h) = matG mat φ op + addsG mat φ h := by
  induction h generalizing op with
  | nil => simp [run, addsG]
  | cons s h ih =>
    have ih' := ih (fun isZ hm => hz isZ (List.mem_cons_of_mem _ hm)) (step op s)
    simp only [run, List.foldl_cons] at ih' ⊢
    rw [ih']
    cases s with
    | add P w => simp only [step, add_matG mat φ hadd, addsG, List.map_cons, List.sum_cons]; abel
    | prune isZ =>
      simp only [step, removeZero_matG mat φ isZ (hz isZ (List.mem_cons_self ..)), addsG, List.map_cons,
        List.sum_cons, zero_add]

end PauliOp
end generic

/-! Gaussian rationals into ℂ -/
noncomputable def GQ.toC (g : GQ) : ℂ := (g.re : ℂ) + (g.im : ℂ) * I

theorem GQ.toC_add (a b : GQ) : (a + b).toC = a.toC + b.toC := by
  simp only [GQ.toC, GQ.add_def, Rat.cast_add]; ring

theorem GQ.toC_zero : (0 : GQ).toC = 0 := by simp [GQ.toC, GQ.zero_def]

theorem GQ.absLe_zero (a : GQ) (h : a.absLe 0 = true) : a.toC = 0 := by
  simp only [GQ.absLe, GQ.normSq, Bool.and_eq_true, decide_eq_true_eq] at h
  have h2 : a.re * a.re + a.im * a.im ≤ 0 * 0 := of_decide_eq_true h.2
  have h3 : a.re * a.re + a.im * a.im = 0 :=
    le_antisymm (by simpa using h2) (add_nonneg (mul_self_nonneg _) (mul_self_nonneg _))
  obtain ⟨hre, him⟩ := mul_self_add_mul_self_eq_zero.mp h3
  simp [GQ.toC, hre, him]

/-! instance used by C09: `mat := PS.mat n` -/

/-- matrix of a Pauli operator: weighted sum of its strings (`φ` maps the weight type into ℂ) -/
noncomputable def PauliOp.mat {α : Type} (φ : α → ℂ) (n : ℕ) (op : PauliOp α) :
    Matrix (Fin n → Bool) (Fin n → Bool) ℂ := PauliOp.matG (PS.mat n) φ op

/-- the terms inserted by a history -/
noncomputable def PauliOp.adds {α : Type} (φ : α → ℂ) (n : ℕ) (h : List (PauliOp.Step α)) :
    Matrix (Fin n → Bool) (Fin n → Bool) ℂ := PauliOp.addsG (PS.mat n) φ h

end Qib.Pauli

/-! ### the pruning loop and its closed form -/

namespace Qib.Pauli.PauliOp
variable {α : Type}

/-- state of the pruning loop: `pre` still to be visited (from its end), `suf` already visited -/
def closed (isZ : α → Bool) : PauliOp α → PauliOp α → PauliOp α
  | [], suf => suf
  | e :: rest, suf =>
    let kept := rest.filter (fun p => !isZ p.2) ++ suf
    if isZ e.2 && !kept.isEmpty then kept else e :: kept

theorem closed_snoc (isZ : α → Bool) (pre : PauliOp α) (e : PS × α) (suf : PauliOp α) :
    closed isZ (pre ++ [e]) suf =
      if isZ e.2 && decide ((pre ++ e :: suf).length > 1) then closed isZ pre suf else closed isZ pre (e :: suf) := by
  cases pre with
  | nil =>
    cases suf with
    | nil => cases h : isZ e.2 <;> simp [closed, h]
    | cons s suf => cases h : isZ e.2 <;> simp [closed, h]
  | cons a p =>
    have hpos : decide ((a :: p ++ e :: suf).length > 1) = true := by simp
    rw [hpos, Bool.and_true]
    cases h : isZ e.2
    · have hk : (p ++ [e]).filter (fun p => !isZ p.2) ++ suf = p.filter (fun p => !isZ p.2) ++ e :: suf := by
        simp [List.filter_append, h]
      simp only [closed, List.cons_append, Bool.false_eq_true, if_false]
      rw [hk]
    · have hk : (p ++ [e]).filter (fun p => !isZ p.2) ++ suf = p.filter (fun p => !isZ p.2) ++ suf := by
        simp [List.filter_append, h]
      simp only [closed, List.cons_append, if_true]
      rw [hk]

theorem go_eq_closed (isZ : α → Bool) (pre suf : PauliOp α) :
    removeZeroLoop.go isZ pre.length (pre ++ suf) = closed isZ pre suf := by
  induction pre using List.reverseRecOn generalizing suf with
  | nil => simp [removeZeroLoop.go, closed]
  | append_singleton pre e ih =>
    have hlen : (pre ++ [e]).length = pre.length + 1 := by simp
    rw [hlen, removeZeroLoop.go]
    have hget : (pre ++ [e] ++ suf)[pre.length]? = some e := by
      simp [List.append_assoc]
    rw [hget]
    simp only
    rw [closed_snoc]
    have herase : (pre ++ [e] ++ suf).eraseIdx pre.length = pre ++ suf := by
      rw [List.append_assoc, List.eraseIdx_append_of_length_le (Nat.le_refl _)]
      simp
    have hl : (pre ++ [e] ++ suf).length = (pre ++ e :: suf).length := by simp
    by_cases hc : (isZ e.2 && decide ((pre ++ e :: suf).length > 1)) = true
    · rw [if_pos hc, if_pos (by rw [hl]; exact hc), herase, ih]
    · rw [if_neg hc, if_neg (by rw [hl]; exact hc)]
      have : pre ++ [e] ++ suf = pre ++ (e :: suf) := by simp
      rw [this, ih]

/-- the closed form used in the theorems is the loop of `remove_zero_weight_strings` -/
theorem removeZeroLoop_eq (isZ : α → Bool) (op : PauliOp α) : removeZeroLoop isZ op = removeZero isZ op := by
  have := go_eq_closed isZ op []
  rw [List.append_nil] at this
  rw [removeZeroLoop, this]
  cases op with
  | nil => rfl
  | cons e rest => simp only [closed, removeZero, List.append_nil]

end Qib.Pauli.PauliOp
