import QibProofs.Lemmas.VqeExpect
import Mathlib.Analysis.Normed.Algebra.MatrixExponential
import Mathlib.LinearAlgebra.UnitaryGroup
import Mathlib.Tactic.Abel
/-!
Helper lemmas for C20 (VQE), ansatz side, over an arbitrary finite index type:

* `T − Tᴴ` is skew-adjoint, the exponential of a skew-adjoint matrix is unitary, products of unitaries;
* *graded* matrices: `Graded w d M` says that every non-zero entry `M r c` connects a column of weight
  `w c` with a row of weight `w c + d`. Ladder operators are graded by `±1` for the particle-number
  weight; sums, products, adjoints behave additively, and grade 0 is the same as commuting with the
  diagonal matrix of the weights (the number operator);
* a matrix commuting with `N` maps every `N`-eigenspace (particle sector) into itself;
* the Rayleigh bound restricted to a sector, for a Hermitian matrix of grade 0.
No property statements here.
-/
open Matrix NormedSpace Complex
open scoped ComplexConjugate

set_option linter.unusedSectionVars false
set_option linter.unusedVariables false

namespace Qib.VqeLemmas

variable {n : Type*} [Fintype n] [DecidableEq n]

/-! ### skew-adjoint generators and their exponentials -/

theorem gen_skew (T : Matrix n n ℂ) : (T - Tᴴ)ᴴ = -(T - Tᴴ) := by
  rw [conjTranspose_sub, conjTranspose_conjTranspose, neg_sub]

theorem exp_skew_conjTranspose_mul (G : Matrix n n ℂ) (hG : Gᴴ = -G) : (exp G)ᴴ * exp G = 1 := by
  rw [← Matrix.exp_conjTranspose, hG, ← Matrix.exp_add_of_commute _ _ (Commute.neg_left (Commute.refl G)),
    neg_add_cancel, NormedSpace.exp_zero]

theorem exp_skew_mul_conjTranspose (G : Matrix n n ℂ) (hG : Gᴴ = -G) : exp G * (exp G)ᴴ = 1 := by
  rw [← Matrix.exp_conjTranspose, hG, ← Matrix.exp_add_of_commute _ _ (Commute.neg_right (Commute.refl G)),
    add_neg_cancel, NormedSpace.exp_zero]

theorem exp_skew_mem_unitaryGroup (G : Matrix n n ℂ) (hG : Gᴴ = -G) : exp G ∈ Matrix.unitaryGroup n ℂ := by
  rw [Matrix.mem_unitaryGroup_iff, star_eq_conjTranspose]
  exact exp_skew_mul_conjTranspose G hG

theorem unitary_mul_left {U V : Matrix n n ℂ} (hU : Uᴴ * U = 1) (hV : Vᴴ * V = 1) : (U * V)ᴴ * (U * V) = 1 := by
  rw [conjTranspose_mul, Matrix.mul_assoc, ← Matrix.mul_assoc Uᴴ, hU, Matrix.one_mul, hV]

theorem unitary_mul_right {U V : Matrix n n ℂ} (hU : U * Uᴴ = 1) (hV : V * Vᴴ = 1) : (U * V) * (U * V)ᴴ = 1 := by
  rw [conjTranspose_mul, Matrix.mul_assoc, ← Matrix.mul_assoc V, hV, Matrix.one_mul, hU]

theorem commute_exp {N G : Matrix n n ℂ} (h : Commute N G) : Commute N (exp G) :=
  Commute.exp_right h

/-! ### graded matrices -/

/-- every non-zero entry raises the weight by exactly `d` -/
def Graded (w : n → ℤ) (d : ℤ) (M : Matrix n n ℂ) : Prop := ∀ r c, M r c ≠ 0 → w r = w c + d

namespace Graded
variable {w : n → ℤ} {d e : ℤ} {A B : Matrix n n ℂ}

theorem zero : Graded w d (0 : Matrix n n ℂ) := fun r c h => absurd rfl h

theorem one : Graded w 0 (1 : Matrix n n ℂ) := by
  intro r c h
  by_cases hrc : r = c
  · subst hrc; simp
  · simp [hrc] at h

theorem add (hA : Graded w d A) (hB : Graded w d B) : Graded w d (A + B) := by
  intro r c h
  by_cases h1 : A r c = 0
  · by_cases h2 : B r c = 0
    · simp [h1, h2] at h
    · exact hB r c h2
  · exact hA r c h1

theorem smul (z : ℂ) (hA : Graded w d A) : Graded w d (z • A) := by
  intro r c h
  apply hA r c
  intro h0
  simp [h0] at h

theorem neg (hA : Graded w d A) : Graded w d (-A) := by
  intro r c h
  apply hA r c
  intro h0
  simp [h0] at h

theorem sub (hA : Graded w d A) (hB : Graded w d B) : Graded w d (A - B) := by
  rw [sub_eq_add_neg]; exact hA.add hB.neg

theorem mul (hA : Graded w d A) (hB : Graded w e B) : Graded w (d + e) (A * B) := by
  intro r c h
  rw [Matrix.mul_apply] at h
  obtain ⟨k, _, hk⟩ := Finset.exists_ne_zero_of_sum_ne_zero h
  have h1 := hA r k (left_ne_zero_of_mul hk)
  have h2 := hB k c (right_ne_zero_of_mul hk)
  omega

theorem conjTranspose (hA : Graded w d A) : Graded w (-d) Aᴴ := by
  intro r c h
  have : A c r ≠ 0 := by
    intro h0
    simp [conjTranspose_apply, h0] at h
  have := hA c r this
  omega

theorem sum {ι : Type*} (s : Finset ι) (f : ι → Matrix n n ℂ) (h : ∀ i ∈ s, Graded w d (f i)) :
    Graded w d (∑ i ∈ s, f i) := by
  classical
  induction s using Finset.induction_on with
  | empty => simpa using zero
  | insert a s ha ih =>
    rw [Finset.sum_insert ha]
    exact (h a (Finset.mem_insert_self a s)).add (ih fun i hi => h i (Finset.mem_insert_of_mem hi))

theorem cast (hde : d = e) (hA : Graded w d A) : Graded w e A := hde ▸ hA

/-- grade 0 ⇔ commutes with the diagonal matrix of the weights -/
theorem commute (hA : Graded w 0 A) : Commute (diagonal fun i => ((w i : ℤ) : ℂ)) A := by
  ext r c
  show (diagonal (fun i => ((w i : ℤ) : ℂ)) * A) r c = (A * diagonal fun i => ((w i : ℤ) : ℂ)) r c
  rw [diagonal_mul, mul_diagonal]
  by_cases h : A r c = 0
  · simp [h]
  · have := hA r c h
    rw [mul_comm, show w r = w c by omega]

theorem of_commute (h : Commute (diagonal fun i => ((w i : ℤ) : ℂ)) A) : Graded w 0 A := by
  intro r c hrc
  have := congrFun (congrFun h.eq r) c
  rw [diagonal_mul, mul_diagonal, mul_comm] at this
  have h2 : ((w r : ℤ) : ℂ) = ((w c : ℤ) : ℂ) := mul_left_cancel₀ hrc this
  have : w r = w c := by exact_mod_cast h2
  omega

end Graded

/-! ### sectors -/

/-- `ψ` lies in the sector of weight `k` (it is supported on indices of weight `k`) -/
def InSector (w : n → ℤ) (k : ℤ) (ψ : n → ℂ) : Prop := ∀ i, w i ≠ k → ψ i = 0

theorem inSector_iff_eigen (w : n → ℤ) (k : ℤ) (ψ : n → ℂ) :
    InSector w k ψ ↔ (diagonal fun i => ((w i : ℤ) : ℂ)) *ᵥ ψ = ((k : ℤ) : ℂ) • ψ := by
  constructor
  · intro h
    funext i
    rw [mulVec_diagonal, Pi.smul_apply, smul_eq_mul]
    by_cases hi : w i = k
    · rw [hi]
    · rw [h i hi, mul_zero, mul_zero]
  · intro h i hi
    have := congrFun h i
    rw [mulVec_diagonal, Pi.smul_apply, smul_eq_mul] at this
    by_contra h0
    have h2 : ((w i : ℤ) : ℂ) = ((k : ℤ) : ℂ) := mul_right_cancel₀ h0 this
    exact hi (by exact_mod_cast h2)

/-- a matrix of grade 0 (one that commutes with `N`) maps every sector into itself -/
theorem InSector.mulVec {w : n → ℤ} {k : ℤ} {ψ : n → ℂ} (hψ : InSector w k ψ) {U : Matrix n n ℂ}
    (hU : Graded w 0 U) : InSector w k (U *ᵥ ψ) := by
  intro i hi
  simp only [Matrix.mulVec, dotProduct]
  apply Finset.sum_eq_zero
  intro j _
  by_cases hj : w j = k
  · by_cases hu : U i j = 0
    · rw [hu, zero_mul]
    · have := hU i j hu
      omega
  · rw [hψ j hj, mul_zero]

/-! ### Rayleigh bound inside a sector -/

section Sector
variable (w : n → ℤ) (k : ℤ)

/-- restriction of a vector to the indices of weight `k` -/
def restr (ψ : n → ℂ) : {i // w i = k} → ℂ := fun i => ψ i.1

/-- extension by zero -/
def extend (u : {i // w i = k} → ℂ) : n → ℂ := fun i => if h : w i = k then u ⟨i, h⟩ else 0

/-- compression of a matrix to the sector -/
def compress (H : Matrix n n ℂ) : Matrix {i // w i = k} {i // w i = k} ℂ := H.submatrix (↑) (↑)

theorem compress_hermitian {H : Matrix n n ℂ} (hH : H.IsHermitian) : (compress w k H).IsHermitian :=
  hH.submatrix _

theorem extend_inSector (u : {i // w i = k} → ℂ) : InSector w k (extend w k u) := by
  intro i hi; simp [extend, hi]

theorem sum_sector (f : n → ℂ) (hf : ∀ i, w i ≠ k → f i = 0) : ∑ i, f i = ∑ i : {i // w i = k}, f i.1 := by
  rw [← Finset.sum_subtype (Finset.univ.filter fun i => w i = k) (by simp) f]
  symm
  apply Finset.sum_subset (Finset.filter_subset _ _)
  intro i _ hi
  exact hf i (by simpa using hi)

theorem ev_restr {ψ : n → ℂ} (hψ : InSector w k ψ) (H : Matrix n n ℂ) :
    ev ψ H = ev (restr w k ψ) (compress w k H) := by
  rw [ev_sum, ev_sum, sum_sector w k]
  · refine Finset.sum_congr rfl fun i _ => ?_
    rw [sum_sector w k]
    · rfl
    · intro j hj; rw [hψ j hj, mul_zero]
  · intro i hi
    apply Finset.sum_eq_zero
    intro j _
    rw [hψ i hi]; simp

theorem nrm_restr {ψ : n → ℂ} (hψ : InSector w k ψ) : nrm ψ = nrm (restr w k ψ) := by
  simp only [nrm, dotProduct]
  rw [sum_sector w k]
  · rfl
  · intro i hi; rw [hψ i hi, mul_zero]

/-- an eigenvector of the compressed matrix, extended by zero, is an eigenvector of a grade-0 matrix -/
theorem extend_eigen {H : Matrix n n ℂ} (hH : Graded w 0 H) (u : {i // w i = k} → ℂ) (μ : ℂ)
    (hu : compress w k H *ᵥ u = μ • u) : H *ᵥ extend w k u = μ • extend w k u := by
  funext r
  simp only [Matrix.mulVec, dotProduct, Pi.smul_apply, smul_eq_mul]
  rw [sum_sector w k]
  · by_cases hr : w r = k
    · have := congrFun hu ⟨r, hr⟩
      simp only [Matrix.mulVec, dotProduct, Pi.smul_apply, smul_eq_mul, compress, submatrix_apply] at this
      simp only [extend, hr, dif_pos]
      rw [← this]
      refine Finset.sum_congr rfl fun j _ => ?_
      rw [dif_pos j.2]
    · simp only [extend, hr, dif_neg, not_false_eq_true, mul_zero]
      apply Finset.sum_eq_zero
      intro j _
      by_cases h0 : H r j.1 = 0
      · rw [h0, zero_mul]
      · have := hH r j.1 h0
        have := j.2
        omega
  · intro j hj
    simp [extend, hj]

theorem extend_ne_zero (u : {i // w i = k} → ℂ) (hu : u ≠ 0) : extend w k u ≠ 0 := by
  intro h
  apply hu
  funext i
  have := congrFun h i.1
  simpa [extend, i.2] using this

/-- **Rayleigh bound in a particle sector.** `H` Hermitian of grade 0, `ψ` in the sector of weight `k`:
every real `m` that is below all eigenvalues of `H` possessing an eigenvector inside the sector is below
`ψ†Hψ / ψ†ψ`. -/
theorem ev_ge_sector_min {H : Matrix n n ℂ} (hH : H.IsHermitian) (hg : Graded w 0 H) {ψ : n → ℂ}
    (hψ : InSector w k ψ) (m : ℝ)
    (hm : ∀ (μ : ℝ) (v : n → ℂ), v ≠ 0 → InSector w k v → H *ᵥ v = (μ : ℂ) • v → m ≤ μ) :
    m * (nrm ψ).re ≤ (ev ψ H).re := by
  rw [ev_restr w k hψ, nrm_restr w k hψ]
  apply ev_ge_of_le_eigenvalues (compress_hermitian w k hH)
  intro i
  obtain ⟨u, hu0, hu⟩ := eigenvalues_spec (compress_hermitian w k hH) i
  exact hm _ (extend w k u) (extend_ne_zero w k u hu0) (extend_inSector w k u) (extend_eigen w k hg u _ hu)

end Sector

/-- elementary form of the global Rayleigh bounds (no reference to Mathlib's `eigenvalues`) -/
theorem ev_ge_min {H : Matrix n n ℂ} (hH : H.IsHermitian) (ψ : n → ℂ) (m : ℝ)
    (hm : ∀ (μ : ℝ) (v : n → ℂ), v ≠ 0 → H *ᵥ v = (μ : ℂ) • v → m ≤ μ) :
    m * (nrm ψ).re ≤ (ev ψ H).re := by
  apply ev_ge_of_le_eigenvalues hH
  intro i
  obtain ⟨u, hu0, hu⟩ := eigenvalues_spec hH i
  exact hm _ u hu0 hu

theorem ev_le_max {H : Matrix n n ℂ} (hH : H.IsHermitian) (ψ : n → ℂ) (m : ℝ)
    (hm : ∀ (μ : ℝ) (v : n → ℂ), v ≠ 0 → H *ᵥ v = (μ : ℂ) • v → μ ≤ m) :
    (ev ψ H).re ≤ m * (nrm ψ).re := by
  apply ev_le_of_eigenvalues_le hH
  intro i
  obtain ⟨u, hu0, hu⟩ := eigenvalues_spec hH i
  exact hm _ u hu0 hu

end Qib.VqeLemmas
