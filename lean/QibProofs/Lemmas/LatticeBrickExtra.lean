import QibProofs.Lemmas.LatticeSpec
/-! Helper lemmas for C14 (brick lattice, complements): `delete = True` is a renumbering of `delete = False` that
skips the two surplus points, every other grid point carries a site, `coord_to_index` answers `None` on a deleted
surplus point. -/
namespace Qib.Lattice
namespace Brick

/-- the renumbering performed by the two `np.delete` calls (identity when there are no surplus points) -/
def renum (b : Brick) (a : Nat) : Nat := if b.hasExtra then b.undelete a else a

theorem adj_delete_eq (m n : Nat) (conv : Conv) (hm : 1 ≤ m) (hn : 1 ≤ n) (i j : Nat)
    (hi : i < (⟨m, n, true, conv⟩ : Brick).nsites) (hj : j < (⟨m, n, true, conv⟩ : Brick).nsites) :
    (⟨m, n, true, conv⟩ : Brick).adj i j =
      (⟨m, n, false, conv⟩ : Brick).adj ((⟨m, n, true, conv⟩ : Brick).renum i) ((⟨m, n, true, conv⟩ : Brick).renum j) := by
  have hns := (⟨m, n, true, conv⟩ : Brick).nsites_eq hm hn
  have hns' := (⟨m, n, false, conv⟩ : Brick).nsites_eq hm hn
  cases hx : (⟨m, n, true, conv⟩ : Brick).hasExtra
  · have hx' : (⟨m, n, false, conv⟩ : Brick).hasExtra = false := hx
    simp only [hx, Bool.and_false, Bool.false_eq_true, if_false] at hns
    simp only [Bool.false_and, Bool.false_eq_true, if_false] at hns'
    have e : (⟨m, n, false, conv⟩ : Brick).nsites = (⟨m, n, true, conv⟩ : Brick).nsites := by rw [hns, hns']; rfl
    simp only [adj, renum, hx, hx', Bool.false_eq_true, if_false, e]
    rfl
  · have hx' : (⟨m, n, false, conv⟩ : Brick).hasExtra = true := hx
    simp only [hx, Bool.and_self, if_true] at hns
    simp only [Bool.false_and, Bool.false_eq_true, if_false] at hns'
    rw [hns] at hi hj
    obtain ⟨-, l1, n1, n1'⟩ := undelete_facts ⟨m, n, true, conv⟩ hm hn hx rfl i hi
    obtain ⟨-, l2, n2, n2'⟩ := undelete_facts ⟨m, n, true, conv⟩ hm hn hx rfl j hj
    have hRC : (⟨m, n, false, conv⟩ : Brick).R * (⟨m, n, false, conv⟩ : Brick).C =
        (⟨m, n, true, conv⟩ : Brick).R * (⟨m, n, true, conv⟩ : Brick).C := rfl
    have he1 : (⟨m, n, false, conv⟩ : Brick).extra1 = (⟨m, n, true, conv⟩ : Brick).extra1 := rfl
    have he2 : (⟨m, n, false, conv⟩ : Brick).extra2 = (⟨m, n, true, conv⟩ : Brick).extra2 := rfl
    have hsq : ∀ u v, (⟨m, n, false, conv⟩ : Brick).sqAdj u v = (⟨m, n, true, conv⟩ : Brick).sqAdj u v := fun _ _ => rfl
    have b1 := bne_iff_ne.mpr n1
    have b1' := bne_iff_ne.mpr n1'
    have b2 := bne_iff_ne.mpr n2
    have b2' := bne_iff_ne.mpr n2'
    simp only [adj, renum, hx, hx', if_true, hns, hns', hRC, hi, hj, l1, l2, decide_true, Bool.true_and,
      Bool.false_eq_true, if_false, he1, he2, hsq, b1, b1', b2, b2', Bool.and_true]

/-- every grid point other than the two surplus points carries a site (`delete = True` numbering) -/
theorem undelete_surjective (b : Brick) (hm : 1 ≤ b.m) (hn : 1 ≤ b.n) (hx : b.hasExtra = true)
    (u : Nat) (hu : u < b.R * b.C) (h1 : u ≠ b.extra1) (h2 : u ≠ b.extra2) :
    ∃ a, a < b.R * b.C - 2 ∧ b.undelete a = u := by
  refine ⟨u - (if u > b.extra1 then 1 else 0) - (if u > b.extra2 then 1 else 0), ?_⟩
  have hR := b.R_ge hm
  have hC := b.C_ge hn
  have hRC := b.RC_split hm
  have hK := b.K_ge hm
  have hK2 := b.K_ge2
  revert h1 h2
  unfold undelete extra1 extra2 skip
  cases hconv : b.conv
  · have hR3 := b.cols_R_ge hm hconv hx
    have hK2 := hK2 hR3
    generalize (b.R - 1) * b.C = K at *
    generalize b.R * b.C = N at *
    generalize b.C = C at *
    rcases Nat.mod_two_eq_zero_or_one C with hc | hc <;> simp [hc] <;> intro h1 h2 <;>
      (repeat' split) <;> omega
  · have hK2' : b.R % 2 = 1 → 2 * b.C ≤ (b.R - 1) * b.C := fun h => hK2 (by omega)
    generalize (b.R - 1) * b.C = K at *
    generalize b.R * b.C = N at *
    generalize b.C = C at *
    generalize b.R = R at *
    rcases Nat.mod_two_eq_zero_or_one R with hc | hc <;> simp [hc] at hK2' ⊢ <;> intro h1 h2 <;>
      (repeat' split) <;> omega

/-- every grid point that is not a deleted surplus point is the coordinate of a site -/
theorem gridpoint_is_site (b : Brick) (hm : 1 ≤ b.m) (hn : 1 ≤ b.n) (r c : Nat) (hr : r < b.R) (hc : c < b.C)
    (hx : b.delete = true → ¬ b.isExtra r c) : ∃ i, i < b.nsites ∧ b.row i = r ∧ b.col i = c := by
  have hns := b.nsites_eq hm hn
  have hu : r * b.C + c < b.R * b.C := by
    have := Nat.mul_le_mul_right b.C (show r + 1 ≤ b.R by omega)
    rw [Nat.add_mul, Nat.one_mul] at this
    omega
  have hdm := (eq_mul_add_iff (j := r * b.C + c) hc).mp rfl
  by_cases hdx : (b.delete && b.hasExtra) = true
  · simp only [hdx, if_true] at hns
    simp only [Bool.and_eq_true] at hdx
    have hne : ¬ b.isExtra ((r * b.C + c) / b.C) ((r * b.C + c) % b.C) := by
      rw [hdm.1, hdm.2]; exact hx hdx.1
    rw [isExtra_iff b hm hn hdx.2] at hne
    obtain ⟨a, ha, hau⟩ := undelete_surjective b hm hn hdx.2 _ hu (by omega) (by omega)
    obtain ⟨e1, -⟩ := b.undelete_facts hm hn hdx.2 hdx.1 a ha
    refine ⟨a, by omega, ?_, ?_⟩
    · unfold row; rw [e1, hau]; exact hdm.1
    · unfold col; rw [e1, hau]; exact hdm.2
  · have hs : ∀ k, b.i2cShift k = 0 := by intro k; simp [i2cShift, hdx]
    simp only [hdx, Bool.false_eq_true, if_false] at hns
    refine ⟨r * b.C + c, by omega, ?_, ?_⟩
    · unfold row; rw [hs, Nat.add_zero]; exact hdm.1
    · unfold col; rw [hs, Nat.add_zero]; exact hdm.2

/-- `coord_to_index` answers `None` for a deleted surplus point -/
theorem c2i_extra (b : Brick) (hm : 1 ≤ b.m) (hn : 1 ≤ b.n) (hd : b.delete = true) (r c : Nat)
    (hx : b.isExtra r c) : b.c2i [(r : Int), (c : Int)] = .ok none := by
  have hR := b.R_ge hm
  have hC := b.C_ge hn
  obtain ⟨hxe, hx⟩ := hx
  unfold c2i
  simp only [hd, hxe, Bool.and_self, if_true, List.head?_cons, andEq1_some, bind, Except.bind, pure, Except.pure]
  cases hconv : b.conv
  · have hp := b.cols_parity hconv
    rw [hconv] at hx
    simp only at hx
    rcases Nat.mod_two_eq_zero_or_one b.C with hc | hc
    · have h5' : (b.n % 2 == 0) = false := by rw [hp]; simp [hc]
      simp only [hc, if_true] at hx
      simp only [h5', Bool.false_eq_true, if_false]
      rcases hx with ⟨rfl, rfl⟩ | ⟨rfl, rfl⟩
      · have e1 : (((b.R - 1 : Nat) : Int) == (b.R : Int) - 1) = true := by simp; omega
        simp [e1]
      · have e1 : (((b.R - 1 : Nat) : Int) == (b.R : Int) - 1) = true := by simp; omega
        have e2 : (((b.C - 1 : Nat) : Int) == (b.C : Int) - 1) = true := by simp; omega
        simp [e1, e2]
    · have h5' : (b.n % 2 == 0) = true := by rw [hp]; simp [hc]
      simp only [hc, Nat.one_ne_zero, if_false] at hx
      simp only [h5', if_true]
      rcases hx with ⟨rfl, rfl⟩ | ⟨rfl, rfl⟩
      · have e1 : (((b.R - 1 : Nat) : Int) == (b.R : Int) - 1) = true := by simp; omega
        have e0 : (((b.R - 1 : Nat) : Int) == 0) = false := by simp; omega
        simp [e1, e0]
      · have e2 : (((b.C - 1 : Nat) : Int) == (b.C : Int) - 1) = true := by simp; omega
        simp [e2]
  · have hp := b.rows_parity hconv
    rw [hconv] at hx
    simp only at hx
    rcases Nat.mod_two_eq_zero_or_one b.R with hc | hc
    · have h5' : (b.m % 2 == 0) = false := by rw [hp]; simp [hc]
      simp only [hc, Nat.zero_ne_one, if_false] at hx
      simp only [h5', Bool.false_eq_true, if_false]
      rcases hx with ⟨rfl, rfl⟩ | ⟨rfl, rfl⟩
      · have e2 : (((b.C - 1 : Nat) : Int) == (b.C : Int) - 1) = true := by simp; omega
        simp [e2]
      · have e1 : (((b.R - 1 : Nat) : Int) == (b.R : Int) - 1) = true := by simp; omega
        have e2 : (((b.C - 1 : Nat) : Int) == (b.C : Int) - 1) = true := by simp; omega
        simp [e1, e2]
    · have h5' : (b.m % 2 == 0) = true := by rw [hp]; simp [hc]
      simp only [hc, if_true] at hx
      simp only [h5', if_true]
      rcases hx with ⟨rfl, rfl⟩ | ⟨rfl, rfl⟩
      · have e2 : (((b.C - 1 : Nat) : Int) == (b.C : Int) - 1) = true := by simp; omega
        simp [e2]
      · have e1 : (((b.R - 1 : Nat) : Int) == (b.R : Int) - 1) = true := by simp; omega
        simp [e1]

end Brick
end Qib.Lattice
