import QibProofs.Lemmas.CompactEdge
/-!
C13 helper lemmas, part 5: strings supported on a frame of distinct qubits multiply like the local strings.

`scat n fr l` writes the entries of the local list `l` to the positions `fr` of an all-false list of length `n`;
`PS.scat` does so for both check vectors. For a frame without repetitions inside `[0, n)`:
dot products, pointwise xor, hence `PS.mul` (including the mod-4 phase) commute with scattering, the identity
scatters to the identity, and an edge-type string `xyStr` scatters to the edge-type string at the scattered positions.
-/
set_option linter.unusedSimpArgs false
namespace Qib.Compact
open Qib.Pauli QibGen.Pauli

def scat (n : Nat) : List Nat → List Bool → List Bool
  | k :: fr, b :: l => (scat n fr l).set k b
  | _, _ => List.replicate n false

def PS.scat (n : Nat) (fr : List Nat) (P : PS) : PS := ⟨Compact.scat n fr P.z, Compact.scat n fr P.x, P.q⟩

theorem scat_length (n : Nat) (fr : List Nat) (l : List Bool) : (scat n fr l).length = n := by
  induction fr generalizing l with
  | nil => simp [scat]
  | cons k fr ih => cases l with
    | nil => simp [scat]
    | cons b l => simp [scat, ih]

theorem getD_scat_notin (n : Nat) (fr : List Nat) (l : List Bool) (t : Nat) (ht : t ∉ fr) :
    (scat n fr l).getD t false = false := by
  induction fr generalizing l with
  | nil => simp only [scat]; exact getD_replicate_false n t
  | cons k fr ih => cases l with
    | nil => simp only [scat]; exact getD_replicate_false n t
    | cons b l =>
      have h1 : ¬ (t = k ∧ k < (scat n fr l).length) := fun e => ht (by simp [e.1])
      have h2 : t ∉ fr := fun e => ht (by simp [e])
      rw [scat, getD_set_bool, if_neg h1]
      exact ih l h2

theorem dot_scat (n : Nat) (fr : List Nat) (l m : List Bool) (hn : fr.Nodup) (hlt : ∀ k ∈ fr, k < n)
    (hl : l.length = fr.length) (hm : m.length = fr.length) :
    dot (scat n fr l) (scat n fr m) = dot l m := by
  induction fr generalizing l m with
  | nil =>
    have : l = [] := List.length_eq_zero_iff.mp hl
    subst this
    simp [scat, dot_replicate_false_left, dot_nil_left]
  | cons k fr ih =>
    cases l with
    | nil => simp at hl
    | cons a l =>
      cases m with
      | nil => simp at hm
      | cons b m =>
        have hk : k ∉ fr := (List.nodup_cons.mp hn).1
        have hn' : fr.Nodup := (List.nodup_cons.mp hn).2
        have hkn : k < n := hlt k (by simp)
        have ih' := ih l m hn' (fun k' h => hlt k' (by simp [h])) (by simpa using hl) (by simpa using hm)
        simp only [scat]
        rw [dot_set_of_false _ _ _ _ (by rw [scat_length]; exact hkn) (getD_scat_notin n fr l k hk), dot_comm,
          dot_set_of_false _ _ _ _ (by rw [scat_length]; exact hkn) (getD_scat_notin n fr m k hk), dot_comm, ih',
          getD_set_bool, getD_scat_notin n fr l k hk, dot_cons]
        simp [scat_length, hkn]
        cases a <;> cases b <;> simp <;> omega

theorem set_zipWith_xor (a b : List Bool) (k : Nat) (u v : Bool) :
    List.zipWith xor (a.set k u) (b.set k v) = (List.zipWith xor a b).set k (xor u v) := by
  induction a generalizing b k with
  | nil => simp
  | cons p a ih =>
    cases b with
    | nil => simp
    | cons q b =>
      cases k with
      | zero => simp
      | succ k => simp [ih]

theorem zipWith_xor_replicate (n : Nat) :
    List.zipWith xor (List.replicate n false) (List.replicate n false) = List.replicate n false := by
  have := zipWith_xor_self (List.replicate n false)
  rw [List.length_replicate] at this
  exact this

theorem zipWith_xor_scat (n : Nat) (fr : List Nat) (l m : List Bool) (hl : l.length = m.length) :
    List.zipWith xor (scat n fr l) (scat n fr m) = scat n fr (List.zipWith xor l m) := by
  induction fr generalizing l m with
  | nil => simp [scat, zipWith_xor_replicate]
  | cons k fr ih =>
    cases l with
    | nil =>
      have : m = [] := List.length_eq_zero_iff.mp hl.symm
      subst this; simp [scat, zipWith_xor_replicate]
    | cons a l =>
      cases m with
      | nil => simp at hl
      | cons b m =>
        simp only [scat, List.zipWith_cons_cons, set_zipWith_xor, ih l m (by simpa using hl)]

/-- products commute with scattering (letters and mod-4 phase) -/
theorem mul_scat (n : Nat) (fr : List Nat) (P R : PS) (hn : fr.Nodup) (hlt : ∀ k ∈ fr, k < n)
    (hP : P.HasLen fr.length) (hR : R.HasLen fr.length) :
    (PS.scat n fr P).mul (PS.scat n fr R) = PS.scat n fr (P.mul R) := by
  obtain ⟨h1, h2⟩ := hP
  obtain ⟨h3, h4⟩ := hR
  have hq : ((PS.scat n fr P).mul (PS.scat n fr R)).q = (P.mul R).q := by
    apply Fin.ext
    have a : (((PS.scat n fr P).mul (PS.scat n fr R)).q.val : Int) =
        ((P.q.val : Int) + R.q.val + dot (scat n fr P.z) (scat n fr P.x) + dot (scat n fr R.z) (scat n fr R.x)
          - dot (List.zipWith xor (scat n fr P.z) (scat n fr R.z)) (List.zipWith xor (scat n fr P.x) (scat n fr R.x))
          + 2 * dot (scat n fr P.x) (scat n fr R.z)) % 4 := mul_q_val (PS.scat n fr P) (PS.scat n fr R)
    have b := mul_q_val P R
    rw [zipWith_xor_scat n fr _ _ (by omega), zipWith_xor_scat n fr _ _ (by omega),
      dot_scat n fr _ _ hn hlt h1 h2, dot_scat n fr _ _ hn hlt h3 h4,
      dot_scat n fr _ _ hn hlt (by simp; omega) (by simp; omega), dot_scat n fr _ _ hn hlt h2 h3] at a
    omega
  have e : (PS.scat n fr P).mul (PS.scat n fr R) =
      ⟨List.zipWith xor (scat n fr P.z) (scat n fr R.z), List.zipWith xor (scat n fr P.x) (scat n fr R.x),
        ((PS.scat n fr P).mul (PS.scat n fr R)).q⟩ := rfl
  rw [e, hq, zipWith_xor_scat n fr _ _ (by omega), zipWith_xor_scat n fr _ _ (by omega)]
  rfl

theorem set_false_of_false (l : List Bool) (k : Nat) (h : l.getD k false = false) : l.set k false = l := by
  induction l generalizing k with
  | nil => simp
  | cons p l ih =>
    cases k with
    | zero => simp at h; simp [h]
    | succ k => simp at h; simp [ih k (by simpa using h)]

theorem scat_replicate_false (n : Nat) (fr : List Nat) (m : Nat) :
    scat n fr (List.replicate m false) = List.replicate n false := by
  induction fr generalizing m with
  | nil => simp [scat]
  | cons k fr ih =>
    cases m with
    | zero => simp [scat]
    | succ m =>
      simp only [List.replicate_succ, scat, ih m]
      exact set_false_of_false _ _ (getD_replicate_false n k)

theorem scat_identity (n : Nat) (fr : List Nat) (m : Nat) : PS.scat n fr (PS.identity m) = PS.identity n := by
  simp [PS.scat, PS.identity, scat_replicate_false]

theorem scat_hasLen (n : Nat) (fr : List Nat) (P : PS) : (PS.scat n fr P).HasLen n :=
  ⟨scat_length n fr P.z, scat_length n fr P.x⟩

/-- the entry at a frame position -/
theorem getD_scat_at (n : Nat) (fr : List Nat) (l : List Bool) (p : Nat) (hn : fr.Nodup) (hlt : ∀ k ∈ fr, k < n)
    (hp : p < fr.length) : (scat n fr l).getD (fr.getD p 0) false = l.getD p false := by
  induction fr generalizing l p with
  | nil => simp at hp
  | cons k fr ih =>
    have hk : k ∉ fr := (List.nodup_cons.mp hn).1
    have hn' : fr.Nodup := (List.nodup_cons.mp hn).2
    have hkn : k < n := hlt k (by simp)
    cases l with
    | nil =>
      simp only [scat]; rw [getD_replicate_false]; simp
    | cons b l =>
      cases p with
      | zero => simp [scat, getD_set_bool, scat_length, hkn]
      | succ p =>
        have hp' : p < fr.length := by simpa using hp
        have hmem : fr.getD p 0 ∈ fr := by
          rw [List.getD_eq_getElem?_getD, List.getElem?_eq_getElem hp']; exact List.getElem_mem _
        have hne : ¬ fr.getD p 0 = k := fun e => hk (e ▸ hmem)
        simp only [scat, List.getD_cons_succ]
        rw [getD_set_bool]
        simp only [hne, false_and, if_false]
        exact ih l p hn' (fun k' h => hlt k' (by simp [h])) hp'

theorem getD_mem (fr : List Nat) (p : Nat) (hp : p < fr.length) : fr.getD p 0 ∈ fr := by
  rw [List.getD_eq_getElem?_getD, List.getElem?_eq_getElem hp]; exact List.getElem_mem _

theorem getD_inj (fr : List Nat) (hn : fr.Nodup) (p r : Nat) (hp : p < fr.length) (hr : r < fr.length) :
    fr.getD p 0 = fr.getD r 0 ↔ p = r := by
  constructor
  · intro h
    rw [List.getD_eq_getElem?_getD, List.getElem?_eq_getElem hp, List.getD_eq_getElem?_getD,
      List.getElem?_eq_getElem hr] at h
    exact (List.Nodup.getElem_inj_iff hn).mp h
  · rintro rfl; rfl

theorem exists_pos_of_mem (fr : List Nat) (t : Nat) (h : t ∈ fr) : ∃ p, p < fr.length ∧ fr.getD p 0 = t := by
  obtain ⟨p, hp, e⟩ := List.getElem_of_mem h
  exact ⟨p, hp, by rw [List.getD_eq_getElem?_getD, List.getElem?_eq_getElem hp]; exact e⟩

/-- scattering an edge-type string gives the edge-type string on the scattered qubits -/
theorem xyStr_scat (n : Nat) (fr : List Nat) (i j : Nat) (aux : Option (Nat × Bool)) (q : Fin 4)
    (hn : fr.Nodup) (hlt : ∀ k ∈ fr, k < n) (hi : i < fr.length) (hj : j < fr.length) (hij : i ≠ j)
    (haux : ∀ m y, aux = some (m, y) → m < fr.length ∧ m ≠ i ∧ m ≠ j) :
    xyStr n (fr.getD i 0) (fr.getD j 0) (aux.map fun p => (fr.getD p.1 0, p.2)) q =
      PS.scat n fr (xyStr fr.length i j aux q) := by
  have hin : fr.getD i 0 < n := hlt _ (getD_mem fr i hi)
  have hjn : fr.getD j 0 < n := hlt _ (getD_mem fr j hj)
  have g1 : ∀ f y, (aux.map fun p => (fr.getD p.1 0, p.2)) = some (f, y) →
      f ≠ fr.getD i 0 ∧ f ≠ fr.getD j 0 ∧ f < n := by
    intro f y h
    rcases aux with _ | ⟨m, y'⟩
    · cases h
    · simp only [Option.map_some, Option.some.injEq, Prod.mk.injEq] at h
      obtain ⟨rfl, rfl⟩ := h
      obtain ⟨hm, hmi, hmj⟩ := haux m y' rfl
      exact ⟨fun e => hmi ((getD_inj fr hn m i hm hi).mp e), fun e => hmj ((getD_inj fr hn m j hm hj).mp e),
        hlt _ (getD_mem fr m hm)⟩
  have g2 : ∀ m y, aux = some (m, y) → m ≠ i ∧ m ≠ j ∧ m < fr.length := fun m y h => by
    obtain ⟨a, b, c⟩ := haux m y h; exact ⟨b, c, a⟩
  apply ps_ext n _ _ (xyStr_hasLen _ _ _ _ _) (scat_hasLen _ _ _)
  · intro t _
    rw [xyStr_zf _ _ _ _ _ _ g1]
    show _ = (scat n fr (xyStr fr.length i j aux q).z).getD t false
    by_cases ht : t ∈ fr
    · obtain ⟨p, hp, rfl⟩ := exists_pos_of_mem fr t ht
      rw [getD_scat_at n fr _ p hn hlt hp]
      have := xyStr_zf fr.length i j aux q p g2
      simp only [PS.zf] at this
      rw [this]
      simp only [getD_inj fr hn p j hp hj, hjn, hj, and_true]
      rcases aux with _ | ⟨m, y⟩
      · simp only [Option.map_none, Option.map_some, Option.any_none, Option.any_some, false_and, decide_false, Bool.or_false, Bool.false_and, Bool.false_or]
      · obtain ⟨hm, -, -⟩ := haux m y rfl
        simp only [Option.map_none, Option.map_some, Option.any_none, Option.any_some, false_and, decide_false, Bool.or_false, Bool.false_and, Bool.false_or, getD_inj fr hn p m hp hm]
    · rw [getD_scat_notin n fr _ t ht]
      have e1 : ¬ t = fr.getD j 0 := fun e => ht (e ▸ getD_mem fr j hj)
      rcases aux with _ | ⟨m, y⟩
      · simp only [Option.map_none, Option.map_some, Option.any_none, Option.any_some, false_and, decide_false, Bool.or_false, Bool.false_and, Bool.false_or, e1]
      · obtain ⟨hm, -, -⟩ := haux m y rfl
        have e2 : ¬ t = fr.getD m 0 := fun e => ht (e ▸ getD_mem fr m hm)
        simp only [Option.map_none, Option.map_some, Option.any_none, Option.any_some, false_and, decide_false, Bool.or_false, Bool.false_and, Bool.false_or, e1, e2]
  · intro t _
    rw [xyStr_xf _ _ _ _ _ _ g1]
    show _ = (scat n fr (xyStr fr.length i j aux q).x).getD t false
    by_cases ht : t ∈ fr
    · obtain ⟨p, hp, rfl⟩ := exists_pos_of_mem fr t ht
      rw [getD_scat_at n fr _ p hn hlt hp]
      have := xyStr_xf fr.length i j aux q p g2
      simp only [PS.xf] at this
      rw [this]
      simp only [getD_inj fr hn p j hp hj, getD_inj fr hn p i hp hi, hjn, hin, hi, hj, and_true]
      rcases aux with _ | ⟨m, y⟩
      · simp only [Option.map_none, Option.map_some, Option.any_none, Option.any_some, false_and, decide_false, Bool.or_false, Bool.false_and, Bool.false_or]
      · obtain ⟨hm, -, -⟩ := haux m y rfl
        simp only [Option.map_none, Option.map_some, Option.any_none, Option.any_some, false_and, decide_false, Bool.or_false, Bool.false_and, Bool.false_or, getD_inj fr hn p m hp hm]
    · rw [getD_scat_notin n fr _ t ht]
      have e1 : ¬ t = fr.getD j 0 := fun e => ht (e ▸ getD_mem fr j hj)
      have e0 : ¬ t = fr.getD i 0 := fun e => ht (e ▸ getD_mem fr i hi)
      rcases aux with _ | ⟨m, y⟩
      · simp only [Option.map_none, Option.map_some, Option.any_none, Option.any_some, false_and, decide_false, Bool.or_false, Bool.false_and, Bool.false_or, e1, e0]
      · obtain ⟨hm, -, -⟩ := haux m y rfl
        have e2 : ¬ t = fr.getD m 0 := fun e => ht (e ▸ getD_mem fr m hm)
        simp only [Option.map_none, Option.map_some, Option.any_none, Option.any_some, false_and, decide_false, Bool.or_false, Bool.false_and, Bool.false_or, e1, e0, e2]
  · rw [xyStr_q]; show _ = (xyStr fr.length i j aux q).q; rw [xyStr_q]

end Qib.Compact
