import QibProofs.Lemmas.PauliMat
import QibModel.Compact
/-!
C13 helper lemmas, part 1: string-level algebra of `PS` used by the compact-encoding relations.

* `anti P R`        : the anticommutation bit `!(P.commutesWith R)`, = parity of the symplectic form `symp`.
* `dot_set`         : effect of overwriting one site on a dot product (exact).
* `anti_setL`, `anti_mul_left/right`, `anti_symm`, `anti_identity` : the bit is bilinear and symmetric.
* `mul_q_parity`    : parity of the phase of a product = parities of the factors + anticommutation bit.
* `mul_self_of_herm`: a Hermitian string squares to the identity string.
Helper lemmas only; the property statements are in `Properties/C13.lean`.
-/
namespace Qib.Compact
open Qib.Pauli QibGen.Pauli

/-! ### dot products -/

theorem dot_nil_left (b : List Bool) : dot [] b = 0 := by simp [dot]
theorem dot_nil_right (a : List Bool) : dot a [] = 0 := by simp [dot]
theorem dot_cons (p q : Bool) (a b : List Bool) : dot (p :: a) (q :: b) = (p && q).toNat + dot a b := by
  simp [dot]

theorem dot_replicate_false_left (n : Nat) (b : List Bool) : dot (List.replicate n false) b = 0 := by
  induction n generalizing b with
  | zero => simp [dot]
  | succ n ih => cases b with
    | nil => simp [dot]
    | cons q b => simp [List.replicate_succ, dot_cons, ih]

theorem dot_replicate_false_right (n : Nat) (a : List Bool) : dot a (List.replicate n false) = 0 := by
  rw [dot_comm]; exact dot_replicate_false_left n a

/-- overwriting site `k` of the left operand -/
theorem dot_set (a b : List Bool) (k : Nat) (v : Bool) (hk : k < a.length) :
    dot (a.set k v) b + (a.getD k false && b.getD k false).toNat = dot a b + (v && b.getD k false).toNat := by
  induction a generalizing b k with
  | nil => simp at hk
  | cons p a ih =>
    cases b with
    | nil => simp [dot_nil_right]
    | cons q b =>
      cases k with
      | zero => simp [dot_cons]; omega
      | succ k =>
        have := ih b k (by simpa using hk)
        simp only [List.set_cons_succ, dot_cons, List.getD_cons_succ] at this ⊢
        omega

theorem dot_set_of_false (a b : List Bool) (k : Nat) (v : Bool) (hk : k < a.length) (h0 : a.getD k false = false) :
    dot (a.set k v) b = dot a b + (v && b.getD k false).toNat := by
  have := dot_set a b k v hk
  rw [h0, Bool.false_and] at this
  simpa using this

theorem dot_xor_left (a b c : List Bool) (h : a.length = b.length) :
    dot (List.zipWith xor a b) c % 2 = (dot a c + dot b c) % 2 := by
  induction a generalizing b c with
  | nil => cases b <;> simp_all [dot_nil_left]
  | cons p a ih =>
    cases b with
    | nil => simp at h
    | cons q b =>
      cases c with
      | nil => simp [dot_nil_right]
      | cons r c =>
        have := ih b c (by simpa using h)
        simp only [List.zipWith_cons_cons, dot_cons]
        cases p <;> cases q <;> cases r <;> simp <;> omega

theorem dot_xor_right (a b c : List Bool) (h : b.length = c.length) :
    dot a (List.zipWith xor b c) % 2 = (dot a b + dot a c) % 2 := by
  rw [dot_comm, dot_xor_left _ _ _ h, dot_comm b, dot_comm c]

/-! ### the anticommutation bit -/

/-- symplectic form -/
def symp (P R : PS) : Nat := dot P.x R.z + dot P.z R.x

/-- `true` iff the two strings anticommute -/
def anti (P R : PS) : Bool := !(P.commutesWith R)

theorem commutesWith_eq (P R : PS) : P.commutesWith R = (symp P R % 2 == 0) := by
  simp only [PS.commutesWith, evalTerms, mulEnv, commTerms, List.map_cons, List.map_nil, List.sum_cons,
    List.sum_nil, symp]
  have : ((1 : Int) * (dot P.x R.z : Int) + (1 * (dot P.z R.x : Int) + 0)) % 2 = ((dot P.x R.z + dot P.z R.x : Nat) : Int) % 2 := by
    push_cast; ring_nf
  rw [this]
  generalize dot P.x R.z + dot P.z R.x = m
  rcases Nat.mod_two_eq_zero_or_one m with h | h <;> simp [h] <;> omega

theorem anti_eq (P R : PS) : anti P R = (symp P R % 2 == 1) := by
  rw [anti, commutesWith_eq]
  rcases Nat.mod_two_eq_zero_or_one (symp P R) with h | h <;> simp [h]

theorem anti_false_iff (P R : PS) : anti P R = false ↔ P.commutesWith R = true := by simp [anti]
theorem anti_true_iff (P R : PS) : anti P R = true ↔ P.commutesWith R = false := by simp [anti]

theorem symp_comm (P R : PS) : symp P R = symp R P := by
  simp only [symp]; rw [dot_comm P.x, dot_comm P.z]; omega

theorem anti_symm (P R : PS) : anti P R = anti R P := by rw [anti_eq, anti_eq, symp_comm]

theorem anti_identity_left (n : Nat) (R : PS) : anti (PS.identity n) R = false := by
  simp [anti_eq, symp, PS.identity, dot_replicate_false_left]

theorem anti_identity_right (n : Nat) (R : PS) : anti R (PS.identity n) = false := by
  rw [anti_symm]; exact anti_identity_left n R

theorem toNat_mod_two_beq (m : Nat) (b : Bool) : ((m + b.toNat) % 2 == 1) = xor (m % 2 == 1) b := by
  rcases Nat.mod_two_eq_zero_or_one m with h | h <;> cases b <;> simp [Nat.add_mod, h]

/-- overwriting an identity site of the left string by the letter `(z, x)` -/
theorem anti_setL (P R : PS) (k : Nat) (z x : Bool) (hkz : k < P.z.length) (hkx : k < P.x.length)
    (hz : P.z.getD k false = false) (hx : P.x.getD k false = false) :
    anti (setL P k z x) R = xor (anti P R) (xor (x && R.z.getD k false) (z && R.x.getD k false)) := by
  simp only [anti_eq, symp, setL]
  rw [dot_set_of_false _ _ _ _ hkx hx, dot_set_of_false _ _ _ _ hkz hz]
  generalize dot P.x R.z = a
  generalize dot P.z R.x = b
  have e : a + (x && R.z.getD k false).toNat + (b + (z && R.x.getD k false).toNat) =
      (a + b + (x && R.z.getD k false).toNat) + (z && R.x.getD k false).toNat := by omega
  rw [e, toNat_mod_two_beq, toNat_mod_two_beq, Bool.xor_assoc]

theorem anti_mul_left (P Q R : PS) (hz : P.z.length = Q.z.length) (hx : P.x.length = Q.x.length) :
    anti (P.mul Q) R = xor (anti P R) (anti Q R) := by
  simp only [anti_eq, symp, PS.mul]
  have h1 := dot_xor_left P.x Q.x R.z hx
  have h2 := dot_xor_left P.z Q.z R.x hz
  generalize dot (List.zipWith xor P.x Q.x) R.z = a at *
  generalize dot (List.zipWith xor P.z Q.z) R.x = b at *
  generalize dot P.x R.z = c at *
  generalize dot Q.x R.z = d at *
  generalize dot P.z R.x = e at *
  generalize dot Q.z R.x = f at *
  rcases Nat.mod_two_eq_zero_or_one (a + b) with h | h <;>
    rcases Nat.mod_two_eq_zero_or_one (c + e) with h' | h' <;>
    rcases Nat.mod_two_eq_zero_or_one (d + f) with h'' | h'' <;> simp [h, h', h''] <;> omega

theorem anti_mul_right (P Q R : PS) (hz : Q.z.length = R.z.length) (hx : Q.x.length = R.x.length) :
    anti P (Q.mul R) = xor (anti P Q) (anti P R) := by
  rw [anti_symm, anti_mul_left _ _ _ hz hx, anti_symm Q, anti_symm R]

theorem anti_q_irrel_left (z x : List Bool) (q q' : Fin 4) (R : PS) : anti ⟨z, x, q⟩ R = anti ⟨z, x, q'⟩ R := by
  simp [anti_eq, symp]

/-! ### phases -/

theorem mul_q_val (P R : PS) :
    ((P.mul R).q.val : Int) = ((P.q.val : Int) + R.q.val + dot P.z P.x + dot R.z R.x
      - dot (List.zipWith xor P.z R.z) (List.zipWith xor P.x R.x) + 2 * dot P.x R.z) % 4 := by
  simp only [PS.mul, qOfInt, evalTerms, mulEnv, mulPhaseTerms, List.map_cons, List.map_nil, List.sum_cons, List.sum_nil]
  omega

/-- parity of the phase of a product: Hermitian factors give a Hermitian product iff they commute -/
theorem mul_q_parity (P R : PS) (hz : P.z.length = R.z.length) (hx : P.x.length = R.x.length) :
    (P.mul R).q.val % 2 = (P.q.val + R.q.val + (anti P R).toNat) % 2 := by
  have hq := mul_q_val P R
  have h1 := dot_xor_left P.z R.z (List.zipWith xor P.x R.x) hz
  have h2 := dot_xor_right P.z P.x R.x hx
  have h3 := dot_xor_right R.z P.x R.x hx
  have h4 : anti P R = (symp P R % 2 == 1) := anti_eq P R
  simp only [symp] at h4
  rw [dot_comm R.z P.x] at h3
  generalize dot (List.zipWith xor P.z R.z) (List.zipWith xor P.x R.x) = a at *
  generalize dot P.z (List.zipWith xor P.x R.x) = b at *
  generalize dot R.z (List.zipWith xor P.x R.x) = c at *
  generalize dot P.z P.x = d at *
  generalize dot P.z R.x = e at *
  generalize dot P.x R.z = f at *
  generalize dot R.z R.x = g at *
  rw [h4]
  rcases Nat.mod_two_eq_zero_or_one (f + e) with h | h <;> simp [h] <;> omega

theorem zipWith_xor_self (a : List Bool) : List.zipWith xor a a = List.replicate a.length false := by
  induction a with
  | nil => rfl
  | cons p a ih => simp [List.replicate_succ, ih]

/-- a Hermitian string is an involution -/
theorem mul_self_of_herm (n : Nat) (P : PS) (hP : P.HasLen n) (hq : P.q.val % 2 = 0) : P.mul P = PS.identity n := by
  have hq' := mul_q_val P P
  obtain ⟨z, x, q⟩ := P
  obtain ⟨hz, hx⟩ := hP
  simp only at hz hx hq hq'
  have e : (PS.mul ⟨z, x, q⟩ ⟨z, x, q⟩).q = 0 := by
    apply Fin.ext
    rw [zipWith_xor_self, zipWith_xor_self, dot_replicate_false_left, dot_comm x z] at hq'
    simp only [Fin.val_zero]
    omega
  have e2 : PS.mul ⟨z, x, q⟩ ⟨z, x, q⟩ = ⟨List.zipWith xor z z, List.zipWith xor x x, (PS.mul ⟨z, x, q⟩ ⟨z, x, q⟩).q⟩ := rfl
  rw [e2, e, zipWith_xor_self, zipWith_xor_self, hz, hx]
  rfl

/-! ### `setL`, pointwise -/

theorem setL_hasLen (P : PS) (n k : Nat) (z x : Bool) (h : P.HasLen n) : (setL P k z x).HasLen n := by
  obtain ⟨h1, h2⟩ := h
  exact ⟨by simp [setL, h1], by simp [setL, h2]⟩

@[simp] theorem setL_z_length (P : PS) (k : Nat) (z x : Bool) : (setL P k z x).z.length = P.z.length := by simp [setL]
@[simp] theorem setL_x_length (P : PS) (k : Nat) (z x : Bool) : (setL P k z x).x.length = P.x.length := by simp [setL]
@[simp] theorem setL_q (P : PS) (k : Nat) (z x : Bool) : (setL P k z x).q = P.q := rfl

theorem getD_set_bool (l : List Bool) (k t : Nat) (v : Bool) :
    (l.set k v).getD t false = if t = k ∧ k < l.length then v else l.getD t false := by
  simp only [List.getD_eq_getElem?_getD, List.getElem?_set]
  by_cases h : k = t
  · subst h
    by_cases h' : k < l.length
    · simp [h']
    · simp [h']
  · have : ¬ t = k := fun e => h e.symm
    simp [h, this]

theorem zf_setL (P : PS) (k t : Nat) (z x : Bool) :
    (setL P k z x).zf t = if t = k ∧ k < P.z.length then z else P.zf t := by
  simp only [PS.zf, setL]; exact getD_set_bool _ _ _ _

theorem xf_setL (P : PS) (k t : Nat) (z x : Bool) :
    (setL P k z x).xf t = if t = k ∧ k < P.x.length then x else P.xf t := by
  simp only [PS.xf, setL]; exact getD_set_bool _ _ _ _

theorem getD_replicate_false (n t : Nat) : (List.replicate n false).getD t false = false := by
  simp only [List.getD_eq_getElem?_getD, List.getElem?_replicate]; split <;> rfl

/-- strings are determined by their length, pointwise letters and phase -/
theorem ps_ext (n : Nat) (P R : PS) (hP : P.HasLen n) (hR : R.HasLen n)
    (hz : ∀ t, t < n → P.zf t = R.zf t) (hx : ∀ t, t < n → P.xf t = R.xf t) (hq : P.q = R.q) : P = R := by
  obtain ⟨z, x, q⟩ := P
  obtain ⟨z', x', q'⟩ := R
  obtain ⟨h1, h2⟩ := hP
  obtain ⟨h3, h4⟩ := hR
  simp only [PS.zf, PS.xf] at *
  subst hq
  congr 1
  · apply List.ext_getElem (by omega)
    intro t ht ht'
    have := hz t (by omega)
    simpa [List.getD_eq_getElem?_getD, List.getElem?_eq_getElem ht, List.getElem?_eq_getElem ht'] using this
  · apply List.ext_getElem (by omega)
    intro t ht ht'
    have := hx t (by omega)
    simpa [List.getD_eq_getElem?_getD, List.getElem?_eq_getElem ht, List.getElem?_eq_getElem ht'] using this

/-! ### transport to matrices -/
open Complex Matrix

/-- the string with the opposite sign -/
def neg (P : PS) : PS := ⟨P.z, P.x, P.q + 2⟩

theorem neg_hasLen (n : Nat) (P : PS) (h : P.HasLen n) : (neg P).HasLen n := h

theorem mat_neg (n : Nat) (P : PS) : (neg P).mat n = - P.mat n := by
  obtain ⟨z, x, q⟩ := P
  have : ((-I : ℂ)) ^ ((q + 2 : Fin 4)).val = - (-I) ^ q.val := by
    fin_cases q <;> simp [pow_succ, Fin.add_def]
  simp only [neg, PS.mat, this, PS.zf, PS.xf, neg_smul]

theorem mul_q_anti (P R : PS) (h : anti P R = true) : (P.mul R).q = (R.mul P).q + 2 := by
  have h1 := mul_q_val P R
  have h2 := mul_q_val R P
  rw [anti_eq] at h
  simp only [symp, beq_iff_eq] at h
  rw [zipWith_xor_comm R.z P.z, zipWith_xor_comm R.x P.x, dot_comm R.x P.z] at h2
  apply Fin.ext
  have : ((R.mul P).q + 2 : Fin 4).val = ((R.mul P).q.val + 2) % 4 := by
    simp [Fin.add_def]
  rw [this]
  have b1 := (P.mul R).q.isLt
  have b2 := (R.mul P).q.isLt
  omega

/-- anticommuting strings have anticommuting matrices -/
theorem mat_anticomm (n : Nat) (P R : PS) (hP : P.HasLen n) (hR : R.HasLen n) (h : anti P R = true) :
    P.mat n * R.mat n = - (R.mat n * P.mat n) := by
  rw [← mat_mul n P R hP hR, ← mat_mul n R P hR hP, mat_eq_smul_body, mat_eq_smul_body,
    body_mul_comm n P R hP hR, mul_q_anti P R h]
  have : ((-I : ℂ)) ^ (((R.mul P).q + 2 : Fin 4)).val = - (-I) ^ (R.mul P).q.val := by
    generalize (R.mul P).q = q
    fin_cases q <;> simp [pow_succ, Fin.add_def]
  rw [this, neg_smul]

theorem mat_comm_of_not_anti (n : Nat) (P R : PS) (hP : P.HasLen n) (hR : R.HasLen n) (h : anti P R = false) :
    P.mat n * R.mat n = R.mat n * P.mat n :=
  (commutes_iff n P R hP hR).mp ((anti_false_iff P R).mp h)

end Qib.Compact
