import QibProofs.Lemmas.TNetTreeStruct
import QibProofs.Lemmas.TNetEinsumCert
/-!
Helper lemmas for C07, part 15 (tree builder, 1): `trackOf`, the bond maps, one step of the bond scan of
`_build_contraction_tree` and the invariant of the scan (`scan_inv`: the bonds met, their maps, the remaining open axes)
(no property statements).
-/
namespace Qib.TNet

/-- the leg of a node to which the open axis `ta` is tracked -/
def trk (n : NodeInfo) (ta : Int × Nat) : Nat := n.trackaxes[n.openaxes.idxOf ta]?.getD 0

theorem trackOf_spec {net : Net} {n : NodeInfo} (hi : InfoCert net n) (ta : Int × Nat) :
    trackOf n ta = if ta ∈ n.openaxes then some (.ok (trk n ta)) else none := by
  unfold trackOf trk
  by_cases h : ta ∈ n.openaxes
  · have hc : n.openaxes.contains ta = true := List.contains_iff_mem.mpr h
    have hlt : n.openaxes.idxOf ta < n.trackaxes.length := by
      rw [hi.len]; exact List.idxOf_lt_length_of_mem h
    simp [h, List.getElem?_eq_getElem hlt]
  · have hc : n.openaxes.contains ta = false := by
      cases hh : n.openaxes.contains ta
      · rfl
      · exact absurd (List.contains_iff_mem.mp hh) h
    simp [h]

theorem trk_mem_zip {net : Net} {n : NodeInfo} (hi : InfoCert net n) {ta : Int × Nat} (h : ta ∈ n.openaxes) :
    (ta, trk n ta) ∈ n.openaxes.zip n.trackaxes := by
  have hl := List.idxOf_lt_length_of_mem h
  have hlt : n.openaxes.idxOf ta < n.trackaxes.length := by rw [hi.len]; exact hl
  rw [List.mem_iff_getElem?]
  refine ⟨n.openaxes.idxOf ta, ?_⟩
  rw [List.getElem?_zip_eq_some, List.getElem?_eq_getElem hl, List.getElem?_eq_getElem hlt]
  simp [trk, List.getElem?_eq_getElem hlt, List.getElem_idxOf hl]

theorem trk_spec {net : Net} {n : NodeInfo} (hi : InfoCert net n) {ta : Int × Nat} (h : ta ∈ n.openaxes) :
    trk n ta < n.idxout.length ∧ legBond net ta = some (legB net n (trk n ta)) := by
  have := hi.pairs _ (trk_mem_zip hi h)
  exact ⟨this.1, this.2.1⟩

/-- the entry of a bond map for the leg `ta` -/
def ent (nL nR : NodeInfo) (ta : Int × Nat) : Option (Side × Nat) :=
  if ta ∈ nL.openaxes then some (Side.L, trk nL ta) else if ta ∈ nR.openaxes then some (Side.R, trk nR ta) else none

/-- the bond map of a bond -/
def bmapOf (net : Net) (nL nR : NodeInfo) (b : Int) : BMap := (bondLegs net b).map (ent nL nR)

theorem bmapOf_all_isSome {net : Net} {nL nR : NodeInfo} (b : Int) :
    (bmapOf net nL nR b).all Option.isSome = true ↔ ∀ ta ∈ bondLegs net b, ta ∈ nL.openaxes ∨ ta ∈ nR.openaxes := by
  unfold bmapOf
  rw [List.all_map, List.all_eq_true]
  constructor
  · intro h ta hta
    have := h ta hta
    simp only [Function.comp, ent] at this
    by_cases h1 : ta ∈ nL.openaxes
    · exact Or.inl h1
    · by_cases h2 : ta ∈ nR.openaxes
      · exact Or.inr h2
      · simp [h1, h2] at this
  · intro h ta hta
    simp only [Function.comp, ent]
    rcases h ta hta with h1 | h1
    · simp [h1]
    · by_cases h0 : ta ∈ nL.openaxes <;> simp [h0, h1]

end Qib.TNet

namespace Qib.TNet

theorem eraseLoop_spec (legs : List (Int × Nat)) : ∀ (oa oa' : List (Int × Nat)), oa.Nodup →
    legs.foldlM (fun (oa : List (Int × Nat)) ta => if oa.contains ta then pure (oa.erase ta) else throw Err.valueError) oa
      = (Except.ok oa' : Except Err _) →
    oa'.Sublist oa ∧ ∀ x, x ∈ oa' ↔ x ∈ oa ∧ x ∉ legs := by
  induction legs with
  | nil =>
    intro oa oa' _ h
    simp only [List.foldlM_nil, pure, Except.pure, Except.ok.injEq] at h
    subst h
    exact ⟨List.Sublist.refl _, by simp⟩
  | cons ta rest ih =>
    intro oa oa' hn h
    rw [List.foldlM_cons] at h
    by_cases hc : oa.contains ta = true
    · simp only [hc, if_true, pure, Except.pure, bind, Except.bind] at h
      obtain ⟨h1, h2⟩ := ih (oa.erase ta) oa' (hn.erase _) h
      refine ⟨h1.trans List.erase_sublist, fun x => ?_⟩
      rw [h2, hn.mem_erase_iff]
      simp only [List.mem_cons, not_or]
      constructor
      · rintro ⟨⟨a, b⟩, c⟩; exact ⟨b, a, c⟩
      · rintro ⟨a, b, c⟩; exact ⟨⟨b, a⟩, c⟩
    · have hm : ta ∉ oa := fun hm => hc (List.contains_iff_mem.mpr hm)
      simp [hm, throw, throwThe, MonadExceptOf.throw, bind, Except.bind] at h

/-- **one step of the bond scan** -/
theorem bondScanStep_spec {net : Net} (hwf : WF net) {nL nR : NodeInfo} (hL : InfoCert net nL) (hR : InfoCert net nR)
    {bl : List Int} {bm : List BMap} {oa : List (Int × Nat)} (hn : oa.Nodup) {od : Int × Nat}
    {bl' : List Int} {bm' : List BMap} {oa' : List (Int × Nat)}
    (h : bondScanStep net nL nR (bl, bm, oa) od = .ok (bl', bm', oa')) :
    ∃ bid, legBond net od = some bid ∧
      ((bid ∈ bl ∧ bl' = bl ∧ bm' = bm ∧ oa' = oa) ∨
       (bid ∉ bl ∧ bl' = bl ++ [bid] ∧ bm' = bm ++ [bmapOf net nL nR bid] ∧ bondLegs net bid ≠ [] ∧
          ((bmapOf net nL nR bid).all Option.isSome = true → oa'.Sublist oa ∧ ∀ x, x ∈ oa' ↔ x ∈ oa ∧ x ∉ bondLegs net bid) ∧
          ((bmapOf net nL nR bid).all Option.isSome = false → oa' = oa))) := by
  unfold bondScanStep at h
  simp only [bind, Except.bind] at h
  split at h
  swap
  · simp [throw, throwThe, MonadExceptOf.throw] at h
  rename_i tensor hT
  split at h
  swap
  · simp [throw, throwThe, MonadExceptOf.throw] at h
  rename_i bid hbid
  have hlb : legBond net od = some bid := by
    obtain ⟨t, a⟩ := od
    exact legBond_eq_some_iff.mpr ⟨tensor, hT, hbid⟩
  refine ⟨bid, hlb, ?_⟩
  split at h
  · rename_i hc
    simp only [pure, Except.pure, Except.ok.injEq, Prod.mk.injEq] at h
    exact Or.inl ⟨List.contains_iff_mem.mp hc, h.1.symm, h.2.1.symm, h.2.2.symm⟩
  · rename_i hc
    have hnot : bid ∉ bl := fun hm => hc (List.contains_iff_mem.mpr hm)
    split at h
    swap
    · simp [throw, throwThe, MonadExceptOf.throw] at h
    rename_i bond hbond
    split at h
    · cases h
    rename_i axes haxes
    have hlegs : bondLegs net bid = bond.tids.zip axes := by simp [bondLegs, hbond, haxes]
    generalize hm : List.mapM (m := Except Err) (β := Option (Side × Nat)) _ (bond.tids.zip axes) = res at h
    have hres : res = .ok (bmapOf net nL nR bid) := by
      rw [← hm]
      unfold bmapOf
      rw [hlegs]
      apply mapM_ok_of_forall
      intro ta _
      rw [trackOf_spec hL, trackOf_spec hR]
      unfold ent
      by_cases h1 : ta ∈ nL.openaxes
      · simp [h1, pure, Except.pure]
      · by_cases h2 : ta ∈ nR.openaxes
        · simp [h1, h2, pure, Except.pure]
        · simp [h1, h2, pure, Except.pure]
    rw [hres] at h
    simp only at h
    rw [← hlegs] at h
    have hne : bondLegs net bid ≠ [] := by
      intro he
      have : (od.1, od.2) ∈ bondLegs net bid := (mem_bondLegs_iff hwf).mpr ⟨tensor, hT, hbid⟩
      rw [he] at this; cases this
    right
    by_cases hf : (bmapOf net nL nR bid).all Option.isSome = true
    · simp only [hf, if_true] at h
      split at h
      · cases h
      rename_i oa2 hoa2
      simp only [pure, Except.pure, Except.ok.injEq, Prod.mk.injEq] at h
      obtain ⟨rfl, rfl, rfl⟩ := h
      refine ⟨hnot, rfl, rfl, hne, fun _ => eraseLoop_spec _ _ _ hn hoa2, ?_⟩
      intro hx; rw [hf] at hx; cases hx
    · have hf' : (bmapOf net nL nR bid).all Option.isSome = false := by
        cases hh : (bmapOf net nL nR bid).all Option.isSome
        · rfl
        · exact absurd hh hf
      simp only [hf', Bool.false_eq_true, if_false, pure, Except.pure, Except.ok.injEq, Prod.mk.injEq] at h
      obtain ⟨rfl, rfl, rfl⟩ := h
      refine ⟨hnot, rfl, rfl, hne, ?_, fun _ => rfl⟩
      intro hx; rw [hf'] at hx; cases hx

end Qib.TNet

namespace Qib.TNet

theorem mem_bondLegs_iff_legBond {net : Net} (hwf : WF net) {b : Int} {ta : Int × Nat} :
    ta ∈ bondLegs net b ↔ legBond net ta = some b := by
  obtain ⟨t, a⟩ := ta
  rw [mem_bondLegs_iff hwf, legBond_eq_some_iff]

/-- invariant of the bond scan after the open axes `pre` -/
structure ScanInv (net : Net) (nL nR : NodeInfo) (allOpen pre : List (Int × Nat))
    (st : List Int × List BMap × List (Int × Nat)) : Prop where
  nodup : st.1.Nodup
  mem : ∀ b, b ∈ st.1 ↔ ∃ ta ∈ pre, legBond net ta = some b
  bond : ∀ ta ∈ pre, ∃ b, legBond net ta = some b
  maps : st.2.1 = st.1.map (bmapOf net nL nR)
  onodup : st.2.2.Nodup
  sub : st.2.2.Sublist allOpen
  omem : ∀ ta, ta ∈ st.2.2 ↔ ta ∈ allOpen ∧ ¬ ∃ b ∈ st.1, legBond net ta = some b ∧ (bmapOf net nL nR b).all Option.isSome = true
  legs : ∀ b ∈ st.1, bondLegs net b ≠ []

theorem scan_inv {net : Net} (hwf : WF net) {nL nR : NodeInfo} (hL : InfoCert net nL) (hR : InfoCert net nR)
    (allOpen : List (Int × Nat)) (hno : allOpen.Nodup) {res : List Int × List BMap × List (Int × Nat)}
    (h : allOpen.foldlM (bondScanStep net nL nR) ([], [], allOpen) = .ok res) :
    ScanInv net nL nR allOpen allOpen res := by
  have := foldlM_ok_inv (bondScanStep net nL nR) (ScanInv net nL nR allOpen) allOpen ?_ allOpen (fun _ h => h) []
    ([], [], allOpen) res ?_ h
  · simpa using this
  · intro pre st od st' _ hi hs
    obtain ⟨bl, bm, oa⟩ := st
    obtain ⟨bl', bm', oa'⟩ := st'
    obtain ⟨bid, hbid, hcase⟩ := bondScanStep_spec hwf hL hR hi.onodup hs
    rcases hcase with ⟨hin, rfl, rfl, rfl⟩ | ⟨hnot, rfl, rfl, hne, hful, hnful⟩
    · refine ⟨hi.nodup, ?_, ?_, hi.maps, hi.onodup, hi.sub, hi.omem, hi.legs⟩
      · intro b
        rw [hi.mem b]
        constructor
        · rintro ⟨ta, hta, hb⟩; exact ⟨ta, List.mem_append_left _ hta, hb⟩
        · rintro ⟨ta, hta, hb⟩
          rcases List.mem_append.mp hta with hta | hta
          · exact ⟨ta, hta, hb⟩
          · simp only [List.mem_singleton] at hta
            subst hta
            rw [hbid] at hb; cases hb
            exact (hi.mem bid).mp hin
      · intro ta hta
        rcases List.mem_append.mp hta with hta | hta
        · exact hi.bond ta hta
        · simp only [List.mem_singleton] at hta; subst hta; exact ⟨bid, hbid⟩
    · have hmem' : ∀ b, b ∈ bl ++ [bid] ↔ ∃ ta ∈ pre ++ [od], legBond net ta = some b := by
        intro b
        rw [List.mem_append, hi.mem b]
        constructor
        · rintro (⟨ta, hta, hb⟩ | hb)
          · exact ⟨ta, List.mem_append_left _ hta, hb⟩
          · simp only [List.mem_singleton] at hb; subst hb
            exact ⟨od, by simp, hbid⟩
        · rintro ⟨ta, hta, hb⟩
          rcases List.mem_append.mp hta with hta | hta
          · exact Or.inl ⟨ta, hta, hb⟩
          · simp only [List.mem_singleton] at hta
            subst hta
            rw [hbid] at hb; cases hb
            exact Or.inr (by simp)
      have hbond' : ∀ ta ∈ pre ++ [od], ∃ b, legBond net ta = some b := by
        intro ta hta
        rcases List.mem_append.mp hta with hta | hta
        · exact hi.bond ta hta
        · simp only [List.mem_singleton] at hta; subst hta; exact ⟨bid, hbid⟩
      have hnd' : (bl ++ [bid]).Nodup := by
        rw [List.nodup_append]
        refine ⟨hi.nodup, by simp, ?_⟩
        intro a ha b hb
        simp only [List.mem_singleton] at hb
        subst hb
        rintro rfl; exact hnot ha
      have hlegs' : ∀ b ∈ bl ++ [bid], bondLegs net b ≠ [] := by
        intro b hb
        rcases List.mem_append.mp hb with hb | hb
        · exact hi.legs b hb
        · simp only [List.mem_singleton] at hb; subst hb; exact hne
      by_cases hf : (bmapOf net nL nR bid).all Option.isSome = true
      · obtain ⟨hsub, hm⟩ := hful hf
        refine ⟨hnd', hmem', hbond', by have := hi.maps; simp only at this; simp [this], hi.onodup.sublist hsub, hsub.trans hi.sub, ?_, hlegs'⟩
        intro ta
        simp only
        rw [hm ta, hi.omem ta, mem_bondLegs_iff_legBond hwf]
        constructor
        · rintro ⟨⟨h1, h2⟩, h3⟩
          refine ⟨h1, ?_⟩
          rintro ⟨b, hb, hb1, hb2⟩
          rcases List.mem_append.mp hb with hb | hb
          · exact h2 ⟨b, hb, hb1, hb2⟩
          · simp only [List.mem_singleton] at hb; subst hb; exact h3 hb1
        · rintro ⟨h1, h2⟩
          refine ⟨⟨h1, ?_⟩, ?_⟩
          · rintro ⟨b, hb, hb1, hb2⟩
            exact h2 ⟨b, List.mem_append_left _ hb, hb1, hb2⟩
          · intro hb1
            exact h2 ⟨bid, by simp, hb1, hf⟩
      · have hf' : (bmapOf net nL nR bid).all Option.isSome = false := by
          cases hh : (bmapOf net nL nR bid).all Option.isSome
          · rfl
          · exact absurd hh hf
        have hoa := hnful hf'
        subst hoa
        refine ⟨hnd', hmem', hbond', by have := hi.maps; simp only at this; simp [this], hi.onodup, hi.sub, ?_, hlegs'⟩
        intro ta
        simp only
        rw [hi.omem ta]
        constructor
        · rintro ⟨h1, h2⟩
          refine ⟨h1, ?_⟩
          rintro ⟨b, hb, hb1, hb2⟩
          rcases List.mem_append.mp hb with hb | hb
          · exact h2 ⟨b, hb, hb1, hb2⟩
          · simp only [List.mem_singleton] at hb; subst hb; exact hf hb2
        · rintro ⟨h1, h2⟩
          refine ⟨h1, ?_⟩
          rintro ⟨b, hb, hb1, hb2⟩
          exact h2 ⟨b, List.mem_append_left _ hb, hb1, hb2⟩
  · exact ⟨List.nodup_nil, by simp, by simp, rfl, hno, List.Sublist.refl _, by simp, by simp⟩

end Qib.TNet
