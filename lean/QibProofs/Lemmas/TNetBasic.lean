import QibModel.TNet
import Mathlib.Data.List.Sort
/-!
Helper lemmas for Core C: the dictionary helpers, `isort`, `replaceAll` (no property statements).
-/
namespace Qib.TNet

/-! ### isort -/

theorem insertSorted_perm (x : Int) (l : List Int) : (insertSorted x l).Perm (x :: l) := by
  induction l with
  | nil => exact List.Perm.refl _
  | cons y ys ih =>
    simp only [insertSorted]
    split
    · exact List.Perm.refl _
    · exact ((List.Perm.cons y ih).trans (List.Perm.swap x y ys))

theorem isort_perm (l : List Int) : (isort l).Perm l := by
  induction l with
  | nil => exact List.Perm.refl _
  | cons x xs ih => exact (insertSorted_perm x (isort xs)).trans (List.Perm.cons x ih)

theorem insertSorted_sorted (x : Int) (l : List Int) (h : l.Pairwise (· ≤ ·)) :
    (insertSorted x l).Pairwise (· ≤ ·) := by
  induction l with
  | nil => simp [insertSorted]
  | cons y ys ih =>
    simp only [insertSorted]
    split
    · rename_i hxy
      rw [List.pairwise_cons] at h ⊢
      refine ⟨?_, List.pairwise_cons.mpr h⟩
      intro a ha
      rcases List.mem_cons.mp ha with rfl | ha
      · exact hxy
      · exact le_trans hxy (h.1 a ha)
    · rename_i hxy
      rw [List.pairwise_cons] at h ⊢
      refine ⟨?_, ih h.2⟩
      intro a ha
      have := (insertSorted_perm x ys).mem_iff.mp ha
      rcases List.mem_cons.mp this with rfl | ha
      · omega
      · exact h.1 a ha

theorem isort_sorted (l : List Int) : (isort l).Pairwise (· ≤ ·) := by
  induction l with
  | nil => simp [isort]
  | cons x xs ih => exact insertSorted_sorted x _ ih

theorem count_isort (l : List Int) (x : Int) : (isort l).count x = l.count x := (isort_perm l).count_eq x

theorem mem_isort {l : List Int} {x : Int} : x ∈ isort l ↔ x ∈ l := (isort_perm l).mem_iff

theorem length_isort (l : List Int) : (isort l).length = l.length := (isort_perm l).length_eq

theorem eq_of_perm_sorted {a b : List Int} (hp : a.Perm b) (ha : a.Pairwise (· ≤ ·)) (hb : b.Pairwise (· ≤ ·)) :
    a = b := by
  induction a generalizing b with
  | nil => exact (List.Perm.nil_eq hp)
  | cons x xs ih =>
    cases b with
    | nil => exact absurd hp.length_eq (by simp)
    | cons y ys =>
      rw [List.pairwise_cons] at ha hb
      have hx : x ∈ y :: ys := hp.mem_iff.mp List.mem_cons_self
      have hy : y ∈ x :: xs := hp.mem_iff.mpr List.mem_cons_self
      have hxy : x = y := by
        rcases List.mem_cons.mp hx with h | h
        · exact h
        · rcases List.mem_cons.mp hy with h' | h'
          · exact h'.symm
          · exact le_antisymm (ha.1 y h') (hb.1 x h)
      subst hxy
      rw [ih (List.Perm.cons_inv hp) ha.2 hb.2]

theorem isort_eq_of_perm {a b : List Int} (hp : a.Perm b) : isort a = isort b :=
  eq_of_perm_sorted ((isort_perm a).trans (hp.trans (isort_perm b).symm)) (isort_sorted a) (isort_sorted b)

theorem isort_eq_self {a : List Int} (h : a.Pairwise (· ≤ ·)) : isort a = a :=
  eq_of_perm_sorted (isort_perm a) (isort_sorted a) h

/-! ### replaceAll -/

theorem replaceAll_eq (x y : Int) (l : List Int) : replaceAll x y l = l.map (fun t => if t = x then y else t) := by
  simp [replaceAll]

theorem replaceAll_cons (x y a : Int) (l : List Int) :
    replaceAll x y (a :: l) = (if a = x then y else a) :: replaceAll x y l := by
  simp [replaceAll]

theorem count_replaceAll_new (x y : Int) (l : List Int) (h : x ≠ y) :
    (replaceAll x y l).count y = l.count x + l.count y := by
  induction l with
  | nil => rfl
  | cons a as ih =>
    rw [replaceAll_cons, List.count_cons, List.count_cons, List.count_cons, ih]
    by_cases hax : a = x
    · subst hax
      have : ¬ a = y := h
      simp [this]; omega
    · by_cases hay : a = y
      · subst hay; simp [hax]; omega
      · simp [hax, hay]

theorem count_replaceAll_old (x y : Int) (l : List Int) (h : x ≠ y) : (replaceAll x y l).count x = 0 := by
  rw [List.count_eq_zero, replaceAll_eq]
  simp only [List.mem_map, not_exists, not_and]
  intro a _
  by_cases hax : a = x
  · simp only [hax, if_true]; exact fun e => h e.symm
  · simp [hax]

theorem count_replaceAll_other (x y z : Int) (l : List Int) (hx : z ≠ x) (hy : z ≠ y) :
    (replaceAll x y l).count z = l.count z := by
  induction l with
  | nil => rfl
  | cons a as ih =>
    rw [replaceAll_cons, List.count_cons, List.count_cons, ih]
    by_cases hax : a = x
    · subst hax
      simp [hy.symm, hx.symm]
    · simp [hax]

theorem length_replaceAll (x y : Int) (l : List Int) : (replaceAll x y l).length = l.length := by
  simp [replaceAll]

theorem replaceAll_of_notMem (x y : Int) (l : List Int) (h : x ∉ l) : replaceAll x y l = l := by
  induction l with
  | nil => rfl
  | cons a as ih =>
    simp only [List.mem_cons, not_or] at h
    rw [replaceAll_cons, ih h.2]
    have : ¬ a = x := fun e => h.1 e.symm
    simp [this]

theorem getElem?_replaceAll (x y : Int) (l : List Int) (i : Nat) :
    (replaceAll x y l)[i]? = (l[i]?).map (fun t => if t == x then y else t) := by
  simp [replaceAll]

/-! ### dictionaries -/
section Dict
variable {β : Type}

theorem dhas_iff (d : List (Int × β)) (k : Int) : dhas d k = true ↔ k ∈ dkeys d := by
  simp only [dhas, dkeys, List.any_eq_true, List.mem_map]
  constructor
  · rintro ⟨e, he, hk⟩; exact ⟨e, he, by simpa using hk⟩
  · rintro ⟨e, he, hk⟩; exact ⟨e, he, by simpa using hk⟩

theorem dhas_false_iff (d : List (Int × β)) (k : Int) : dhas d k = false ↔ k ∉ dkeys d := by
  rw [← dhas_iff]; simp

theorem dget_eq_some_of_mem (d : List (Int × β)) (hn : (dkeys d).Nodup) {k : Int} {v : β} (h : (k, v) ∈ d) :
    dget d k = some v := by
  induction d with
  | nil => simp at h
  | cons e es ih =>
    simp only [dkeys, List.map_cons, List.nodup_cons] at hn
    rcases List.mem_cons.mp h with rfl | h'
    · simp [dget, List.lookup]
    · have hne : ¬ k = e.1 := by
        intro heq; apply hn.1; rw [← heq]; exact List.mem_map.mpr ⟨(k, v), h', rfl⟩
      have hb : (k == e.1) = false := by simpa using hne
      obtain ⟨e1, e2⟩ := e
      simp only [dget, List.lookup, hb]
      exact ih hn.2 h'

theorem mem_of_dget_eq_some (d : List (Int × β)) {k : Int} {v : β} (h : dget d k = some v) : (k, v) ∈ d := by
  induction d with
  | nil => simp [dget, List.lookup] at h
  | cons e es ih =>
    obtain ⟨e1, e2⟩ := e
    simp only [dget, List.lookup] at h
    by_cases hk : k = e1
    · subst hk; simp at h; subst h; exact List.mem_cons_self
    · have : (k == e1) = false := by simpa using hk
      rw [this] at h
      exact List.mem_cons_of_mem _ (ih h)

theorem dget_isSome_iff (d : List (Int × β)) (k : Int) : (dget d k).isSome ↔ k ∈ dkeys d := by
  induction d with
  | nil => simp [dget, dkeys, List.lookup]
  | cons e es ih =>
    obtain ⟨e1, e2⟩ := e
    simp only [dget, List.lookup, dkeys, List.map_cons, List.mem_cons]
    by_cases hk : k = e1
    · subst hk; simp
    · have : (k == e1) = false := by simpa using hk
      rw [this]; simp only [hk, false_or]; exact ih

theorem dkeys_dpop (d : List (Int × β)) (k : Int) : dkeys (dpop d k) = (dkeys d).filter (· != k) := by
  simp [dkeys, dpop, List.filter_map, Function.comp_def]

theorem mem_dpop {d : List (Int × β)} {k : Int} {e : Int × β} : e ∈ dpop d k ↔ e ∈ d ∧ e.1 ≠ k := by
  simp [dpop]

theorem dkeys_dmodify (d : List (Int × β)) (k : Int) (f : β → β) : dkeys (dmodify d k f) = dkeys d := by
  simp only [dkeys, dmodify, List.map_map]
  apply List.map_congr_left
  intro e _
  simp only [Function.comp]
  split <;> rfl

theorem length_dpop_of_nodup (d : List (Int × β)) (hn : (dkeys d).Nodup) {k : Int} (hk : k ∈ dkeys d) :
    (dpop d k).length + 1 = d.length := by
  induction d with
  | nil => simp [dkeys] at hk
  | cons e es ih =>
    simp only [dkeys, List.map_cons, List.nodup_cons, List.mem_cons] at hn hk
    by_cases he : e.1 = k
    · have hnot : k ∉ dkeys es := by rw [← he]; exact hn.1
      have : dpop es k = es := by
        simp only [dpop]
        apply List.filter_eq_self.mpr
        intro a ha
        have hak : a.1 ≠ k := fun h => hnot (h ▸ List.mem_map.mpr ⟨a, ha, rfl⟩)
        simpa using hak
      have hb : (e.1 != k) = false := by simp [he]
      simp only [dpop, List.filter_cons, hb] at this ⊢
      simp [this]
    · have hk' : k ∈ dkeys es := by
        rcases hk with h | h
        · exact absurd h.symm he
        · exact h
      have := ih hn.2 hk'
      simp only [dpop, List.filter_cons] at this ⊢
      have hb : (e.1 != k) = true := by simpa using he
      simp [hb]; omega

end Dict

end Qib.TNet
