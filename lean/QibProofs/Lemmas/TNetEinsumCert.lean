import QibProofs.Lemmas.TNetEinsumSound
import QibProofs.Lemmas.TNetTreeCert
/-!
Helper lemmas for C07, part 9: the bookkeeping of `as_einsum` – label tables, `blocks` (initially all labels distinct),
`condense` (an injective relabelling), one bond of the unification loop (`as_einsum_bond_spec`) and the loop invariant
(`bondLoop_inv`: every label stems from a position on the same bond; positions on a processed bond agree)
(no property statements).
-/
namespace Qib.TNet

/-- entry `a` of row `i` of a label table -/
def lab (tidx : List (List Nat)) (i a : Nat) : Option Nat := (tidx[i]?).bind (fun row => row[a]?)

theorem lab_setAt (tidx : List (List Nat)) (i ax v i' a' : Nat) :
    lab (setAt tidx i ax v) i' a' = if i' = i ∧ a' = ax then (lab tidx i' a').map (fun _ => v) else lab tidx i' a' := by
  unfold lab setAt
  rw [List.getElem?_modify]
  cases h : tidx[i']? with
  | none => simp
  | some row =>
    simp only [Option.map_eq_map, Option.map_some, Option.bind_some]
    by_cases hi : i = i'
    · subst hi
      simp only [if_true, true_and, List.getElem?_set']
      by_cases ha : ax = a'
      · subst ha; simp [Function.const_def]
      · have : ¬ a' = ax := fun e => ha e.symm
        simp [ha, this]
    · have : ¬ i' = i := fun e => hi e.symm
      simp [hi, this]

theorem map_length_setAt (tidx : List (List Nat)) (i ax v : Nat) :
    (setAt tidx i ax v).map List.length = tidx.map List.length := by
  apply List.ext_getElem?
  intro j
  unfold setAt
  rw [List.getElem?_map, List.getElem?_map, List.getElem?_modify]
  cases tidx[j]? with
  | none => rfl
  | some row =>
    by_cases h : i = j <;> simp [h]

theorem lab_foldl_setAt (pos : List (Nat × Nat)) (v : Nat) (tidx : List (List Nat)) (i a : Nat) :
    lab (pos.foldl (fun t p => setAt t p.1 p.2 v) tidx) i a =
      if (i, a) ∈ pos then (lab tidx i a).map (fun _ => v) else lab tidx i a := by
  induction pos generalizing tidx with
  | nil => simp
  | cons p ps ih =>
    rw [List.foldl_cons, ih, lab_setAt]
    by_cases hp : (i, a) = p
    · subst hp
      simp only [and_self, if_true, List.mem_cons, true_or]
      split <;> simp [Option.map_map, Function.comp_def]
    · have h1 : ¬ (i = p.1 ∧ a = p.2) := by
        rintro ⟨h1, h2⟩; apply hp; rw [h1, h2]
      simp only [h1, if_false, List.mem_cons, hp, false_or]

theorem map_length_foldl_setAt (pos : List (Nat × Nat)) (v : Nat) (tidx : List (List Nat)) :
    (pos.foldl (fun t p => setAt t p.1 p.2 v) tidx).map List.length = tidx.map List.length := by
  induction pos generalizing tidx with
  | nil => rfl
  | cons p ps ih => rw [List.foldl_cons, ih, map_length_setAt]

/-- a position is valid iff the table has an entry there -/
theorem lab_isSome_iff (tidx : List (List Nat)) (i a : Nat) :
    (lab tidx i a).isSome ↔ ∃ n, (tidx.map List.length)[i]? = some n ∧ a < n := by
  unfold lab
  rw [List.getElem?_map]
  cases tidx[i]? with
  | none => simp
  | some row =>
    simp only [Option.bind_some, Option.map_some, Option.some.injEq, exists_eq_left']
    constructor
    · intro h
      by_contra hc
      rw [List.getElem?_eq_none (by omega)] at h; cases h
    · intro h; rw [List.getElem?_eq_getElem h]; rfl

/-! ### `blocks` -/

theorem map_length_blocks (ns : List Nat) (off : Nat) : (blocks ns off).map List.length = ns := by
  induction ns generalizing off with
  | nil => rfl
  | cons n ns ih => simp [blocks, ih]

theorem lab_blocks_bounds (ns : List Nat) (off i a m : Nat) (h : lab (blocks ns off) i a = some m) :
    off ≤ m ∧ m < off + ns.sum := by
  induction ns generalizing off i with
  | nil => simp [blocks, lab] at h
  | cons n ns ih =>
    cases i with
    | zero =>
      simp only [blocks, lab, List.getElem?_cons_zero, Option.bind_some, List.getElem?_map] at h
      by_cases ha : a < n
      · rw [List.getElem?_range ha] at h
        simp only [Option.map_some, Option.some.injEq] at h
        simp only [List.sum_cons]; omega
      · rw [List.getElem?_eq_none (by simpa using ha)] at h; cases h
    | succ i =>
      have : lab (blocks (n :: ns) off) (i + 1) a = lab (blocks ns (off + n)) i a := by
        simp [blocks, lab]
      rw [this] at h
      have := ih (off + n) i h
      simp only [List.sum_cons]; omega

theorem lab_blocks_inj (ns : List Nat) (off i a i' a' m : Nat) (h : lab (blocks ns off) i a = some m)
    (h' : lab (blocks ns off) i' a' = some m) : i = i' ∧ a = a' := by
  induction ns generalizing off i i' with
  | nil => simp [blocks, lab] at h
  | cons n ns ih =>
    have hs : ∀ j b, lab (blocks (n :: ns) off) (j + 1) b = lab (blocks ns (off + n)) j b := by
      intro j b; simp [blocks, lab]
    have h0 : ∀ b x, lab (blocks (n :: ns) off) 0 b = some x → b < n ∧ x = b + off := by
      intro b x hx
      simp only [blocks, lab, List.getElem?_cons_zero, Option.bind_some, List.getElem?_map] at hx
      by_cases hb : b < n
      · rw [List.getElem?_range hb] at hx
        simp only [Option.map_some, Option.some.injEq] at hx
        exact ⟨hb, hx.symm⟩
      · rw [List.getElem?_eq_none (by simpa using hb)] at hx; cases hx
    cases i with
    | zero =>
      cases i' with
      | zero =>
        have := h0 a m h; have := h0 a' m h'
        exact ⟨rfl, by omega⟩
      | succ i' =>
        rw [hs] at h'
        have := h0 a m h
        have := lab_blocks_bounds ns (off + n) i' a' m h'
        omega
    | succ i =>
      cases i' with
      | zero =>
        rw [hs] at h
        have := h0 a' m h'
        have := lab_blocks_bounds ns (off + n) i a m h
        omega
      | succ i' =>
        rw [hs] at h h'
        have := ih (off + n) i i' h h'
        exact ⟨by omega, this.2⟩

end Qib.TNet

namespace Qib.TNet

/-! ### `condense` -/

theorem condRow_spec (row : List Nat) (acc : List Nat × List Nat) (hn : acc.2.Nodup) :
    ∀ res, res = row.foldl (fun (acc : List Nat × List Nat) x =>
      if acc.2.contains x then (acc.1 ++ [acc.2.idxOf x], acc.2) else (acc.1 ++ [acc.2.length], acc.2 ++ [x])) acc →
    res.2.Nodup ∧ (∃ more, res.2 = acc.2 ++ more) ∧ res.1 = acc.1 ++ row.map res.2.idxOf ∧ ∀ x ∈ row, x ∈ res.2 := by
  induction row generalizing acc with
  | nil => intro res hres; subst hres; exact ⟨hn, ⟨[], by simp⟩, by simp, by simp⟩
  | cons x xs ih =>
    intro res hres
    rw [List.foldl_cons] at hres
    by_cases hx : acc.2.contains x = true
    · simp only [hx, if_true] at hres
      obtain ⟨h1, ⟨more, h2⟩, h3, h4⟩ := ih (acc.1 ++ [acc.2.idxOf x], acc.2) hn res hres
      simp only at h2 h3
      have hxm : x ∈ acc.2 := List.contains_iff_mem.mp hx
      refine ⟨h1, ⟨more, h2⟩, ?_, ?_⟩
      · rw [h3, List.map_cons, List.append_assoc, List.singleton_append]
        congr 2
        rw [h2, List.idxOf_append, if_pos hxm]
      · intro y hy
        rcases List.mem_cons.mp hy with rfl | hy
        · rw [h2]; exact List.mem_append_left _ hxm
        · exact h4 y hy
    · simp only [hx, Bool.false_eq_true, if_false] at hres
      have hxm : x ∉ acc.2 := fun h => hx (List.contains_iff_mem.mpr h)
      have hn' : (acc.2 ++ [x]).Nodup := by
        rw [List.nodup_append]
        exact ⟨hn, by simp, by intro a ha b hb; simp at hb; subst hb; rintro rfl; exact hxm ha⟩
      obtain ⟨h1, ⟨more, h2⟩, h3, h4⟩ := ih (acc.1 ++ [acc.2.length], acc.2 ++ [x]) hn' res hres
      simp only at h2 h3
      refine ⟨h1, ⟨[x] ++ more, by rw [h2, List.append_assoc]⟩, ?_, ?_⟩
      · rw [h3, List.map_cons, List.append_assoc, List.singleton_append]
        congr 2
        rw [h2, List.append_assoc, List.idxOf_append, if_neg hxm]
        simp
      · intro y hy
        rcases List.mem_cons.mp hy with rfl | hy
        · rw [h2]; simp
        · exact h4 y hy

theorem condense_spec (rows : List (List Nat)) (seen : List Nat) (hn : seen.Nodup) :
    (condense rows seen).2.Nodup ∧ (∃ more, (condense rows seen).2 = seen ++ more) ∧
    (condense rows seen).1 = rows.map (fun row => row.map (condense rows seen).2.idxOf) ∧
    ∀ row ∈ rows, ∀ x ∈ row, x ∈ (condense rows seen).2 := by
  induction rows generalizing seen with
  | nil => exact ⟨hn, ⟨[], by simp [condense]⟩, rfl, by simp⟩
  | cons row rows ih =>
    obtain ⟨h1, ⟨m1, h2⟩, h3, h4⟩ := condRow_spec row ([], seen) hn _ rfl
    simp only at h2 h3
    set r1 := row.foldl (fun (acc : List Nat × List Nat) x =>
      if acc.2.contains x then (acc.1 ++ [acc.2.idxOf x], acc.2) else (acc.1 ++ [acc.2.length], acc.2 ++ [x])) ([], seen)
      with hr1
    obtain ⟨k1, ⟨m2, k2⟩, k3, k4⟩ := ih r1.2 h1
    have hc : condense (row :: rows) seen = (r1.1 :: (condense rows r1.2).1, (condense rows r1.2).2) := by
      simp only [condense, ← hr1]
    rw [hc]
    simp only
    refine ⟨k1, ⟨m1 ++ m2, by rw [k2, h2, List.append_assoc]⟩, ?_, ?_⟩
    · rw [List.map_cons]
      congr 1
      · rw [h3, List.nil_append]
        apply List.map_congr_left
        intro x hx
        rw [k2, List.idxOf_append, if_pos (h4 x hx)]
    · intro rw' hrw x hx
      rcases List.mem_cons.mp hrw with rfl | hrw
      · rw [k2]; exact List.mem_append_left _ (h4 x hx)
      · exact k4 rw' hrw x hx

/-- the condensed table is the old table relabelled by an injective map -/
theorem lab_condense (rows : List (List Nat)) (i a : Nat) :
    lab (condense rows []).1 i a = (lab rows i a).map (condense rows []).2.idxOf := by
  obtain ⟨_, _, h3, _⟩ := condense_spec rows [] List.nodup_nil
  rw [h3]
  unfold lab
  rw [List.getElem?_map]
  cases rows[i]? with
  | none => rfl
  | some row => simp [List.getElem?_map]

theorem condense_inj (rows : List (List Nat)) {i a i' a' m m' : Nat} (h : lab rows i a = some m)
    (h' : lab rows i' a' = some m') (he : (condense rows []).2.idxOf m = (condense rows []).2.idxOf m') : m = m' := by
  obtain ⟨_, _, _, h4⟩ := condense_spec rows [] List.nodup_nil
  have mem : ∀ i a m, lab rows i a = some m → m ∈ (condense rows []).2 := by
    intro i a m hm
    unfold lab at hm
    cases hr : rows[i]? with
    | none => rw [hr] at hm; cases hm
    | some row =>
      rw [hr] at hm
      exact h4 row (List.mem_of_getElem? hr) m (List.mem_of_getElem? hm)
  have h1 := mem i a m h
  have h2 := mem i' a' m' h'
  have l1 := List.idxOf_lt_length_of_mem h1
  have := List.getElem_idxOf l1
  have l2 := List.idxOf_lt_length_of_mem h2
  have := List.getElem_idxOf l2
  simp only [he] at *
  simp_all

end Qib.TNet

namespace Qib.TNet

/-- the bond at position `(i, a)` of the label table built over the tensor id list `T` -/
def posBond (net : Net) (T : List Int) (i a : Nat) : Option Int := (T[i]?).bind (fun t => legBond net (t, a))

theorem foldl_min_mem (v : Nat) (vs : List Nat) : vs.foldl min v ∈ v :: vs := by
  induction vs generalizing v with
  | nil => simp
  | cons x xs ih =>
    rw [List.foldl_cons]
    have := ih (min v x)
    rcases List.mem_cons.mp this with h | h
    · rw [h]
      by_cases hvx : v ≤ x
      · rw [Nat.min_eq_left hvx]; simp
      · rw [Nat.min_eq_right (by omega)]; simp
    · exact List.mem_cons_of_mem _ (List.mem_cons_of_mem _ h)

theorem indexOf?_eq_some {γ : Type} [BEq γ] [LawfulBEq γ] {l : List γ} {x : γ} {i : Nat} (h : indexOf? l x = some i) :
    l[i]? = some x := by
  unfold indexOf? at h
  split at h
  · rename_i hc
    cases h
    have hm := List.contains_iff_mem.mp hc
    have hl := List.idxOf_lt_length_of_mem hm
    rw [List.getElem?_eq_getElem hl, List.getElem_idxOf hl]
  · cases h

/-- **one bond of `as_einsum`**: all positions on the bond receive one label that was on the bond before, the other
positions keep theirs -/
theorem as_einsum_bond_spec {net : Net} (hwf : WF net) {T : List Int} (hT : T.Nodup) {k : Int} {bond : SBond}
    (hB : (k, bond) ∈ net.bonds) {tidx tidx' : List (List Nat)} (h : as_einsum_bond net T tidx bond = .ok tidx') :
    tidx'.map List.length = tidx.map List.length ∧
    ∃ mval, (∃ i0 a0, posBond net T i0 a0 = some k ∧ lab tidx i0 a0 = some mval) ∧
      ∀ i a, lab tidx' i a = if posBond net T i a = some k then (lab tidx i a).map (fun _ => mval) else lab tidx i a := by
  have hbk : bond.bid = k := hwf.bkey _ hB
  obtain ⟨axes0, hs, hlegs⟩ := bondLegs_spec hwf hB
  have hg : getBondAxes net k = .ok axes0 :=
    (getBondAxes_ok_iff net k axes0).mpr ⟨bond, dget_of_mem hwf.bnodup hB, hbk, hs⟩
  unfold as_einsum_bond at h
  simp only [bind, Except.bind, hbk, hg] at h
  split at h
  · cases h
  rename_i it hit
  split at h
  · cases h
  rename_i vals hvals
  simp only [pure, Except.pure, Except.ok.injEq] at h
  subst h
  have hfit := mapM_ok_inv hit
  have hfv := mapM_ok_inv hvals
  have hitlen : it.length = bond.tids.length := hfit.length_eq.symm
  -- membership in `pos`
  have hpos : ∀ i a, (i, a) ∈ it.zip axes0 ↔ posBond net T i a = some k := by
    intro i a
    constructor
    · intro hm
      obtain ⟨j, hj⟩ := List.mem_iff_getElem?.mp hm
      rw [List.getElem?_zip_eq_some] at hj
      have hjl : j < it.length := by
        by_contra hc; rw [List.getElem?_eq_none (by omega)] at hj; cases hj.1
      have hjl' : j < bond.tids.length := by omega
      have h1 := (List.forall₂_iff_get.mp hfit).2 j hjl' hjl
      simp only [List.get_eq_getElem] at h1
      rw [List.getElem?_eq_getElem hjl] at hj
      have hij : it[j] = i := Option.some.inj hj.1
      have hTi : T[i]? = some bond.tids[j] := by
        split at h1
        · rename_i i' hi'
          have : i' = it[j] := by simpa [pure, Except.pure] using h1
          rw [← hij, ← this]; exact indexOf?_eq_some hi'
        · cases h1
      have hleg : (bond.tids[j], a) ∈ bondLegs net k := by
        rw [hlegs, List.mem_iff_getElem?]
        exact ⟨j, by rw [List.getElem?_zip_eq_some]; exact ⟨List.getElem?_eq_getElem hjl', hj.2⟩⟩
      obtain ⟨T', hT', hb'⟩ := (mem_bondLegs_iff hwf).mp hleg
      simp only [posBond, hTi, Option.bind_some]
      exact legBond_eq_some_iff.mpr ⟨T', hT', hb'⟩
    · intro hp
      unfold posBond at hp
      cases hTi : T[i]? with
      | none => rw [hTi] at hp; cases hp
      | some t =>
        rw [hTi] at hp
        simp only [Option.bind_some] at hp
        obtain ⟨T', hT', hb'⟩ := legBond_eq_some_iff.mp hp
        have hleg : (t, a) ∈ bondLegs net k := (mem_bondLegs_iff hwf).mpr ⟨T', hT', hb'⟩
        rw [hlegs] at hleg
        obtain ⟨j, hj⟩ := List.mem_iff_getElem?.mp hleg
        rw [List.getElem?_zip_eq_some] at hj
        have hjl' : j < bond.tids.length := by
          by_contra hc; rw [List.getElem?_eq_none (by omega)] at hj; cases hj.1
        have hjl : j < it.length := by omega
        have h1 := (List.forall₂_iff_get.mp hfit).2 j hjl' hjl
        simp only [List.get_eq_getElem] at h1
        rw [List.getElem?_eq_getElem hjl'] at hj
        have htj : bond.tids[j] = t := Option.some.inj hj.1
        have hiti : it[j] = i := by
          split at h1
          · rename_i i' hi'
            have e1 : i' = it[j] := by simpa [pure, Except.pure] using h1
            have e2 := indexOf?_eq_some hi'
            rw [htj] at e2
            have hil : i < T.length := by
              by_contra hc; rw [List.getElem?_eq_none (by omega)] at hTi; cases hTi
            have hi'l : i' < T.length := by
              by_contra hc; rw [List.getElem?_eq_none (by omega)] at e2; cases e2
            rw [List.getElem?_eq_getElem hil] at hTi
            rw [List.getElem?_eq_getElem hi'l] at e2
            have : T[i'] = T[i] := by rw [Option.some.inj e2, Option.some.inj hTi]
            rw [← e1]
            exact (List.Nodup.getElem_inj_iff hT).mp this
          · cases h1
        rw [List.mem_iff_getElem?]
        exact ⟨j, by rw [List.getElem?_zip_eq_some, List.getElem?_eq_getElem hjl, hiti]; exact ⟨rfl, hj.2⟩⟩
  refine ⟨map_length_foldl_setAt _ _ _, ?mval, ?h1, ?h2⟩
  case h2 =>
    intro i a
    rw [lab_foldl_setAt]
    by_cases hp : posBond net T i a = some k
    · rw [if_pos ((hpos i a).mpr hp), if_pos hp]
    · rw [if_neg (fun hm => hp ((hpos i a).mp hm)), if_neg hp]
  case h1 =>
    -- the minimum is attained on the bond
    have hlen2 := hwf.blen _ hB
    simp only at hlen2
    have hposlen : (it.zip axes0).length = bond.tids.length := by
      rw [List.length_zip, hitlen, hs.1]; simp
    have hvlen : vals.length = (it.zip axes0).length := hfv.length_eq.symm
    cases vals with
    | nil => rw [List.length_nil] at hvlen; omega
    | cons v0 vs =>
      simp only
      obtain ⟨j, hj, hje⟩ := List.getElem_of_mem (foldl_min_mem v0 vs)
      have hjp : j < (it.zip axes0).length := by omega
      have h1 := (List.forall₂_iff_get.mp hfv).2 j hjp hj
      simp only [List.get_eq_getElem] at h1
      refine ⟨(it.zip axes0)[j].1, (it.zip axes0)[j].2, (hpos _ _).mp (List.getElem_mem hjp), ?_⟩
      rw [← hje]
      unfold lab
      split at h1
      · rename_i row hrow
        rw [hrow]
        simp only [Option.bind_some]
        split at h1
        · rename_i v hv
          rw [hv]
          simpa [pure, Except.pure] using h1
        · cases h1
      · cases h1

end Qib.TNet

namespace Qib.TNet

theorem foldlM_ok_inv {σ β ε : Type} (f : σ → β → Except ε σ) (Inv : List β → σ → Prop) (l0 : List β)
    (hstep : ∀ pre s x s', x ∈ l0 → Inv pre s → f s x = .ok s' → Inv (pre ++ [x]) s') :
    ∀ (l : List β), (∀ x ∈ l, x ∈ l0) → ∀ (pre : List β) (s res : σ), Inv pre s → l.foldlM f s = .ok res →
      Inv (pre ++ l) res := by
  intro l
  induction l with
  | nil =>
    intro _ pre s res hi h
    simp only [List.foldlM_nil, pure, Except.pure, Except.ok.injEq] at h
    subst h; simpa using hi
  | cons x xs ih =>
    intro hsub pre s res hi h
    rw [List.foldlM_cons] at h
    cases hx : f s x with
    | error e => rw [hx] at h; cases h
    | ok s' =>
      rw [hx] at h
      have := ih (fun y hy => hsub y (List.mem_cons_of_mem _ hy)) (pre ++ [x]) s' res
        (hstep pre s x s' (hsub x List.mem_cons_self) hi hx) h
      simpa using this

/-- the invariant of the bond loop of `as_einsum` after the bonds `pre` -/
structure BondLoopInv (net : Net) (T : List Int) (ndims : List Nat) (pre : List (Int × SBond)) (tidx : List (List Nat)) :
    Prop where
  shape : tidx.map List.length = ndims
  src : ∀ i a m, lab tidx i a = some m → ∃ i' a', lab (blocks ndims 0) i' a' = some m ∧ posBond net T i' a' = posBond net T i a
  same : ∀ i a i' a' m m', lab tidx i a = some m → lab tidx i' a' = some m' → posBond net T i a = posBond net T i' a' →
    (∃ e ∈ pre, posBond net T i a = some e.1) → m = m'

theorem bondLoop_inv {net : Net} (hwf : WF net) {T : List Int} (hT : T.Nodup) (ndims : List Nat) {res : List (List Nat)}
    (h : net.bonds.foldlM (fun tidx e => as_einsum_bond net T tidx e.2) (blocks ndims 0) = .ok res) :
    BondLoopInv net T ndims net.bonds res := by
  have := foldlM_ok_inv (fun tidx (e : Int × SBond) => as_einsum_bond net T tidx e.2) (BondLoopInv net T ndims) net.bonds
    ?_ net.bonds (fun _ h => h) [] (blocks ndims 0) res ?_ h
  · simpa using this
  · intro pre s x s' hx hi hs
    obtain ⟨k, bond⟩ := x
    obtain ⟨h1, mval, ⟨i0, a0, hp0, hl0⟩, h3⟩ := as_einsum_bond_spec hwf hT hx hs
    refine ⟨by rw [h1, hi.shape], ?_, ?_⟩
    · intro i a m hm
      rw [h3] at hm
      by_cases hp : posBond net T i a = some k
      · rw [if_pos hp] at hm
        have hmv : m = mval := by
          cases hl : lab s i a with
          | none => rw [hl] at hm; cases hm
          | some x => rw [hl] at hm; simpa using hm.symm
        obtain ⟨i', a', h1', h2'⟩ := hi.src i0 a0 mval hl0
        exact ⟨i', a', by rw [hmv]; exact h1', by rw [h2', hp0, hp]⟩
      · rw [if_neg hp] at hm
        exact hi.src i a m hm
    · intro i a i' a' m m' hm hm' hpp hex
      rw [h3] at hm hm'
      by_cases hp : posBond net T i a = some k
      · have hp' : posBond net T i' a' = some k := by rw [← hpp]; exact hp
        rw [if_pos hp] at hm
        rw [if_pos hp'] at hm'
        have e1 : m = mval := by
          cases hl : lab s i a with
          | none => rw [hl] at hm; cases hm
          | some x => rw [hl] at hm; simpa using hm.symm
        have e2 : m' = mval := by
          cases hl : lab s i' a' with
          | none => rw [hl] at hm'; cases hm'
          | some x => rw [hl] at hm'; simpa using hm'.symm
        rw [e1, e2]
      · have hp' : ¬ posBond net T i' a' = some k := by rw [← hpp]; exact hp
        rw [if_neg hp] at hm
        rw [if_neg hp'] at hm'
        obtain ⟨e, he, hee⟩ := hex
        rcases List.mem_append.mp he with he | he
        · exact hi.same i a i' a' m m' hm hm' hpp ⟨e, he, hee⟩
        · simp only [List.mem_singleton] at he
          subst he
          exact absurd hee hp
  · exact ⟨map_length_blocks _ _, fun i a m hm => ⟨i, a, hm, rfl⟩, fun _ _ _ _ _ _ _ _ _ ⟨e, he, _⟩ => by cases he⟩

end Qib.TNet
