import QibProofs.Lemmas.PauliMat
import QibModel.Encode
/-!
Encoders (C11, C12): the check vectors of the strings built per ladder operator, as Boolean functions of the
site. Helper lemmas only.
-/
set_option linter.unusedVariables false
set_option linter.unnecessarySeqFocus false
namespace Qib.Encode
open Qib.Pauli

theorem pat_length (a b : ℕ) (u v w : Bool) : (pat a u v b w).length = a + 1 + b := by
  simp [pat]; omega

theorem pat_getD (a b k : ℕ) (u v w : Bool) :
    (pat a u v b w).getD k false =
      if k < a then u else if k = a then v else if k < a + 1 + b then w else false := by
  simp only [pat, List.getD_eq_getElem?_getD, List.append_assoc, List.getElem?_append, List.length_replicate,
    List.getElem?_replicate, List.length_cons, List.length_nil]
  split
  · simp
  · split
    · rename_i h1 h2
      have : k = a := by omega
      subst this; simp
    · rename_i h1 h2
      have h3 : ¬ k = a := by simp at h2; omega
      simp only [if_neg h3]
      split
      · rename_i h4
        rw [if_pos (by simp at h2 ⊢; omega)]; simp
      · rename_i h4
        rw [if_neg (by simp at h2 ⊢; omega)]; simp

theorem replicate_getD_false (n k : ℕ) : (List.replicate n false).getD k false = false := by
  simp only [List.getD_eq_getElem?_getD, List.getElem?_replicate]; split <;> rfl

/-! ### lengths -/

theorem s0_hasLen (enc : Enc) (L i : ℕ) (hi : i < L) : (s0 enc L i).HasLen L := by
  cases enc
  · constructor <;> simp [s0, zzx, pat_length] <;> omega
  · constructor
    · simp only [s0, zzx]; split <;> simp [pat_length] <;> omega
    · simp [s0, zzx, pat_length]; omega

theorem s1c_hasLen (enc : Enc) (L i : ℕ) (hi : i < L) : (s1c enc L i).HasLen L := by
  cases enc <;> constructor <;> simp [s1c, zzx, pat_length] <;> omega

theorem s1a_hasLen (enc : Enc) (L i : ℕ) (hi : i < L) : (s1a enc L i).HasLen L := by
  cases enc <;> constructor <;> simp [s1a, zzx, pat_length] <;> omega

/-! ### check vectors as functions of the site `k < L` -/

theorem jw_s0_zf (L i k : ℕ) (hi : i < L) (hk : k < L) : (s0 .jw L i).zf k = decide (i < k) := by
  simp only [PS.zf, s0, zzx, pat_getD]
  split
  · simp; omega
  · split
    · simp; omega
    · rw [if_pos (by omega)]; simp; omega

theorem jw_x (L i k : ℕ) (hi : i < L) (hk : k < L) :
    (pat i false true (L - i - 1) false).getD k false = decide (k = i) := by
  rw [pat_getD]
  split
  · simp; omega
  · split
    · simp; omega
    · simp; omega

theorem jw_s0_xf (L i k : ℕ) (hi : i < L) (hk : k < L) : (s0 .jw L i).xf k = decide (k = i) := jw_x L i k hi hk

theorem jw_zb (L i k : ℕ) (hi : i < L) (hk : k < L) :
    (pat i false true (L - i - 1) true).getD k false = decide (i ≤ k) := by
  rw [pat_getD]
  split
  · simp; omega
  · split
    · simp; omega
    · rw [if_pos (by omega)]; simp; omega

theorem jw_s1c_zf (L i k : ℕ) (hi : i < L) (hk : k < L) : (s1c .jw L i).zf k = decide (i ≤ k) := jw_zb L i k hi hk
theorem jw_s1a_zf (L i k : ℕ) (hi : i < L) (hk : k < L) : (s1a .jw L i).zf k = decide (i ≤ k) := jw_zb L i k hi hk
theorem jw_s1c_xf (L i k : ℕ) (hi : i < L) (hk : k < L) : (s1c .jw L i).xf k = decide (k = i) := jw_x L i k hi hk
theorem jw_s1a_xf (L i k : ℕ) (hi : i < L) (hk : k < L) : (s1a .jw L i).xf k = decide (k = i) := jw_x L i k hi hk

theorem par_s0_zf (L i k : ℕ) (hi : i < L) (hk : k < L) : (s0 .parity L i).zf k = decide (k + 1 = i) := by
  simp only [PS.zf, s0, zzx]
  split
  · rename_i h; subst h; rw [replicate_getD_false]; simp
  · rw [pat_getD]
    split
    · simp; omega
    · split
      · simp; omega
      · simp; omega

theorem par_x (L i k : ℕ) (hi : i < L) (hk : k < L) :
    (pat i false true (L - i - 1) true).getD k false = decide (i ≤ k) := jw_zb L i k hi hk

theorem par_s0_xf (L i k : ℕ) (hi : i < L) (hk : k < L) : (s0 .parity L i).xf k = decide (i ≤ k) := par_x L i k hi hk
theorem par_s1c_xf (L i k : ℕ) (hi : i < L) (hk : k < L) : (s1c .parity L i).xf k = decide (i ≤ k) := par_x L i k hi hk
theorem par_s1a_xf (L i k : ℕ) (hi : i < L) (hk : k < L) : (s1a .parity L i).xf k = decide (i ≤ k) := par_x L i k hi hk
theorem par_s1c_zf (L i k : ℕ) (hi : i < L) (hk : k < L) : (s1c .parity L i).zf k = decide (k = i) := jw_x L i k hi hk
theorem par_s1a_zf (L i k : ℕ) (hi : i < L) (hk : k < L) : (s1a .parity L i).zf k = decide (k = i) := jw_x L i k hi hk

end Qib.Encode
