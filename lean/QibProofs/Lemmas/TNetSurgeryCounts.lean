import QibProofs.Lemmas.TNetSurgeryMerge2
/-!
Helper lemmas for C08, part 6: counting tensors, bonds and open axes after `merge` (no property statements).
-/
namespace Qib.TNet

theorem numTensors_eq {net : Net} (hv : (-1 : Int) ∈ dkeys net.tensors) : numTensors net = .ok (net.tensors.length - 1) := by
  obtain ⟨v, hv'⟩ := Option.isSome_iff_exists.mp ((dget_isSome_iff _ _).mpr hv)
  unfold numTensors virt; rw [hv']; rfl

theorem length_filter_not_contains (N : Nat) (D : List Nat) (hD : D.Nodup) (hlt : ∀ d ∈ D, d < N) :
    ((List.range N).filter (fun x => !D.contains x)).length + D.length = N := by
  have h2 := (List.filter_append_perm (fun a => !D.contains a) (List.range N)).length_eq
  have h3 : ((List.range N).filter (fun a => !(!D.contains a))).Perm D := by
    apply (List.perm_ext_iff_of_nodup (List.nodup_range.filter _) hD).mpr
    intro a
    simp only [List.mem_filter, List.mem_range, Bool.not_not, List.contains_iff_mem]
    exact ⟨fun h => h.2, fun h => ⟨hlt a h, h⟩⟩
  rw [List.length_append, h3.length_eq, List.length_range] at h2
  exact h2

/-- number of distinct entries -/
def distinct {γ : Type} [BEq γ] (l : List γ) : Nat := l.eraseDups.length

theorem nodup_eraseDups' {γ : Type} [BEq γ] [LawfulBEq γ] (l : List γ) : l.eraseDups.Nodup := by
  induction hn : l.length using Nat.strong_induction_on generalizing l with
  | _ n ih =>
    cases l with
    | nil => simp
    | cons a as =>
      rw [List.eraseDups_cons, List.nodup_cons]
      refine ⟨?_, ih _ ?_ _ rfl⟩
      · rw [List.mem_eraseDups, List.mem_filter]
        rintro ⟨_, h⟩
        simp at h
      · subst hn
        exact Nat.lt_succ_of_le (List.length_filter_le _ _)

/-- the deleted axes: the distinct first components and the distinct second components -/
theorem length_delAxesOf (orig : Nat) (j : List (Int × Int)) (hr : ∀ ja ∈ j, 0 ≤ ja.1 ∧ ja.1 < orig ∧ 0 ≤ ja.2) :
    (delAxesOf orig (joinNat j)).length = distinct (j.map (·.1)) + distinct (j.map (·.2)) := by
  unfold distinct
  have hnd := nodup_eraseDups (List.flatMap (fun ja => [ja.1, orig + ja.2]) (joinNat j))
  let L : List Nat := ((j.map (·.1)).eraseDups.map Int.toNat) ++ ((j.map (·.2)).eraseDups.map (fun q => orig + q.toNat))
  have hL : L.Nodup := by
    apply List.Nodup.append
    · apply List.Nodup.map_on _ (nodup_eraseDups' _)
      intro x hx y hy hxy
      rw [List.mem_eraseDups] at hx hy
      obtain ⟨jx, hjx, rfl⟩ := List.mem_map.mp hx
      obtain ⟨jy, hjy, rfl⟩ := List.mem_map.mp hy
      have := (hr jx hjx).1; have := (hr jy hjy).1
      omega
    · apply List.Nodup.map_on _ (nodup_eraseDups' _)
      intro x hx y hy hxy
      rw [List.mem_eraseDups] at hx hy
      obtain ⟨jx, hjx, rfl⟩ := List.mem_map.mp hx
      obtain ⟨jy, hjy, rfl⟩ := List.mem_map.mp hy
      have := (hr jx hjx).2.2; have := (hr jy hjy).2.2
      omega
    · intro x hx1 hx2
      obtain ⟨p, hp, rfl⟩ := List.mem_map.mp hx1
      obtain ⟨q, hq, hpq⟩ := List.mem_map.mp hx2
      rw [List.mem_eraseDups] at hp
      obtain ⟨jp, hjp, rfl⟩ := List.mem_map.mp hp
      have := (hr jp hjp).2.1; have := (hr jp hjp).1
      omega
  have hperm : (delAxesOf orig (joinNat j)).Perm L := by
    apply (List.perm_ext_iff_of_nodup hnd hL).mpr
    intro x
    simp only [delAxesOf, joinNat, List.mem_eraseDups, List.mem_flatMap, List.mem_map, List.mem_cons,
      List.not_mem_nil, or_false, L, List.mem_append]
    constructor
    · rintro ⟨ja, ⟨jz, hjz, rfl⟩, hx | hx⟩
      · left; exact ⟨jz.1, ⟨jz, hjz, rfl⟩, hx.symm⟩
      · right; exact ⟨jz.2, ⟨jz, hjz, rfl⟩, hx.symm⟩
    · rintro (⟨p, ⟨jz, hjz, rfl⟩, rfl⟩ | ⟨q, ⟨jz, hjz, rfl⟩, rfl⟩)
      · exact ⟨_, ⟨jz, hjz, rfl⟩, Or.inl rfl⟩
      · exact ⟨_, ⟨jz, hjz, rfl⟩, Or.inr rfl⟩
  rw [hperm.length_eq]
  simp [L]

/-- the counting laws of `merge` -/
theorem merge_counts_of_result {a b net' : Net} {j : List (Int × Int)} (r : MergeResult a b j net') :
    net'.tensors.length + 1 = a.tensors.length + b.tensors.length ∧
    net'.bonds.length ≤ a.bonds.length + b.bonds.length ∧
    a.bonds.length + b.bonds.length ≤ net'.bonds.length + j.length ∧
    ∃ va vb v', dget a.tensors (-1) = some va ∧ dget b.tensors (-1) = some vb ∧ dget net'.tensors (-1) = some v' ∧
      v'.shape.length + (distinct (j.map (·.1)) + distinct (j.map (·.2))) = va.shape.length + vb.shape.length := by
  obtain ⟨m1, m2, toa1, toa2, va, vb, hva, hvb, pre, hrange, _, hcnt, wf2, hv2, hS2, hts, hbs, hDlt⟩ := r.pre
  have hsh2 := wf2.tshape _ (mem_of_dget_eq_some _ hv2)
  simp only at hsh2
  have hn1 := pre.ntensors
  have hn2 := pre.nbonds
  generalize hK : (List.range toa2.bids.length).filter (fun x => !(delAxesOf va.shape.length (joinNat j)).contains x) = K at hts
  have hv' : dget net'.tensors (-1) = some { toa2 with shape := pickD toa2.shape 0 K, bids := pickD toa2.bids 0 K } := by
    rw [hts, dget_dmodify, hv2]; simp
  refine ⟨?_, ?_, ?_, va, vb, _, hva, hvb, hv', ?_⟩
  · rw [hts]; simp only [dmodify, List.length_map]; omega
  · rw [hbs]; simp only [List.length_map]; omega
  · rw [hbs]; simp only [List.length_map]; omega
  · simp only [pickD, List.length_map]
    rw [← hK]
    have h1 := length_filter_not_contains toa2.bids.length (delAxesOf va.shape.length (joinNat j)) (nodup_eraseDups _) hDlt
    have h2 := length_delAxesOf va.shape.length j (fun ja hja => by
      have := hrange ja hja; exact ⟨this.1, this.2.1, this.2.2.1⟩)
    have h3 : toa2.bids.length = va.shape.length + vb.shape.length := by
      rw [← hsh2, hS2, List.length_append]
    omega

end Qib.TNet
