import QibProofs.Lemmas.CircuitNetTotalStep
/-!
Helper definitions and lemmas for C05 (totality of `Circuit.as_tensornet`), part 7: the hypotheses of the totality
theorems (`GateTot`, `DataCompat`, `OrdersAdm`), one loop iteration of the executable model returns (`gateStep_total`),
and the lift over the gate list (`circuitLoop_total`). No property statements.
-/
set_option linter.unusedSimpArgs false
set_option linter.unusedSectionVars false
namespace Qib.CircuitNet
open Qib.TNet Qib.GateNet Qib.Embed

section Defs
variable {α : Type} [CommSemiring α] [DecidableEq α]

/-- what totality needs to know about a gate of the circuit: its network has two open axes of dimension 2 per wire
(C06, all classes but the four two-qubit wraps) and exists at all (`C06_offers_network`), the number the harness gave to
its own data reference does not collide with a fixed reference of the same network, it is bound to as many particles as
it has wires, and the particles are well placed in the field list (distinct, inside their lattices, fields listed) -/
structure GateTot (fields : List FieldSpec) (p : PGate α) : Prop where
  two : C06.TwoAxesPerWire p.g
  fresh : ∀ gtn, gateNet p.g = .ok gtn → ∀ k ∈ dkeys gtn.data, k ≠ 0 → k ≠ p.ref0
  offers : ∃ gtn, gateNet p.g = .ok gtn
  arity : p.particles.length = p.g.wires
  placed : WellPlaced fields p.particles

/-- the data dictionary `gate.as_tensornet()` brings along, in the circuit's key space -/
def gateData (p : PGate α) : List (Int × DT α) :=
  match gateNet p.g with
  | .ok gtn => (rerefTN p.ref0 gtn).data
  | .error _ => []

/-- **equal references carry equal data** (what the repair `bb24019` is about: `RotationGate.as_tensornet` used to name
its array by `str(array)`, which is not injective): whenever two gates of the circuit – or one gate twice – store arrays
under the same data reference, the arrays are equal -/
def DataCompat (instrs : List (CInstr α)) : Prop :=
  ∀ p q, CInstr.gate p ∈ instrs → CInstr.gate q ∈ instrs →
    ∀ k d d', (k, d) ∈ gateData p → (k, d') ∈ gateData q → d = d'

/-- every entry of the dictionary accumulated so far comes from a gate of the circuit -/
def DataFrom (all : List (CInstr α)) (tn : TN α) : Prop :=
  ∀ e ∈ tn.data, ∃ q, CInstr.gate q ∈ all ∧ e ∈ gateData q

/-- **admissible set-iteration orders**: the orders `tor`/`bor` handed to the `merge` of every gate are permutations of
the tensor ids / bond ids shared by the network built so far and the gate network – for the states that actually
occur along the loop (CPython produces the orders from the two dictionaries at hand) -/
def OrdersAdm (fields : List FieldSpec) (n : Nat) : TN α → List (CInstr α) → Prop
  | _, [] => True
  | tn, .ctrl :: is => OrdersAdm fields n tn is
  | tn, .gate p :: is =>
    (∀ gtn, gateNet p.g = .ok gtn → C08.OrdersOK tn.net (rerefTN p.ref0 gtn).net p.tor p.bor) ∧
      ∀ tn', gateStep fields n tn p = .ok tn' → OrdersAdm fields n tn' is

end Defs

/-! ### assembling the executable steps -/
section Exec
variable {α : Type} [Zero α] [One α] [Add α] [Mul α] [DecidableEq α]

omit [Zero α] [One α] [Add α] [Mul α] in
theorem mergeTN_eq_ok {self other : TN α} {join : List (Int × Int)} {tor bor : List Int} {net : Net}
    (ho : C08.OrdersOK self.net other.net tor bor) (hm : merge self.net other.net join tor bor = .ok net)
    (hc : dataClash self.data other.data = false) :
    mergeTN self other join tor bor = .ok ⟨net, dupdate self.data other.data⟩ := by
  have h1 : isPermOf tor (sharedTids self.net other.net) = true := by
    simp only [isPermOf, beq_iff_eq]; exact isort_eq_of_perm ho.1
  have h2 : isPermOf bor (sharedBids self.net other.net) = true := by
    simp only [isPermOf, beq_iff_eq]; exact isort_eq_of_perm ho.2
  unfold mergeTN
  simp only [h1, h2, Bool.and_self, Bool.not_true, Bool.false_eq_true, if_false, bind, Except.bind, hm, liftT, hc,
    pure, Except.pure]

theorem gateStepCore_eq_ok {fields : List FieldSpec} {n : Nat} {tn : TN α} {p : PGate α} {gtn tn1 : TN α}
    {perm : List Int} {net2 : Net}
    (hneg : (p.particles.map (mapParticleToWire fields)).any (· < 0) = false) (hg : gateNet p.g = .ok gtn)
    (hno : numOpenAxes (rerefTN p.ref0 gtn).net = .ok (2 * p.particles.length))
    (hm : mergeTN tn (rerefTN p.ref0 gtn)
      ((p.particles.map (mapParticleToWire fields)).zip (irange' p.particles.length p.particles.length))
      p.tor p.bor = .ok tn1)
    (hp : permOf n (p.particles.map (mapParticleToWire fields)) = .ok perm)
    (ht : transpose tn1.net (some ((argsort (perm.map Int.toNat)).map Int.ofNat)) = .ok net2) :
    gateStepCore fields n tn p = .ok { tn1 with net := net2 } := by
  unfold gateStepCore
  simp only [bind, Except.bind, hneg, Bool.false_eq_true, if_false, hg, liftG, hno, liftT, bne_self_eq_false, hm, hp,
    transposeTN, ht, pure, Except.pure]

end Exec

section Loop
variable {α : Type} [CommSemiring α] [DecidableEq α]

/-- **one loop iteration returns** – none of `RuntimeError` (particle not found), the exceptions of
`gate.as_tensornet()`, the open-axes assertion, the range check / the internal `assert` of `merge`, the data-clash
`ValueError`, `list.remove`, `transpose`, `assert net.is_consistent()` can occur – and keeps the invariants -/
theorem gateStep_total {fields : List FieldSpec} {tn : TN α} {p : PGate α}
    (hst : StateOK (numWires fields) tn) (hsl : SlackOK (numWires fields) tn.net) (hg : GateTot fields p)
    (hord : ∀ gtn, gateNet p.g = .ok gtn → C08.OrdersOK tn.net (rerefTN p.ref0 gtn).net p.tor p.bor)
    (hdata : ∀ k d d', (k, d) ∈ tn.data → (k, d') ∈ gateData p → d = d') :
    ∃ tn', gateStep fields (numWires fields) tn p = .ok tn' ∧ StateOK (numWires fields) tn' ∧
      SlackOK (numWires fields) tn'.net ∧ tn'.data = dupdate tn.data (gateData p) := by
  obtain ⟨gtn, hgn⟩ := hg.offers
  have hgd : gateData p = (rerefTN p.ref0 gtn).data := by simp only [gateData, hgn]
  obtain ⟨hnd, hr⟩ := wires_of_wellPlaced hg.placed
  set iwire := p.particles.map (mapParticleToWire fields) with hiwire
  have hlen : iwire.length = p.particles.length := by simp [hiwire]
  have hneg : iwire.any (· < 0) = false := by
    rw [List.any_eq_false]
    intro x hx
    have := (hr x hx).1
    simp only [decide_eq_true_eq]; omega
  -- the gate network
  have hgwf : WF gtn.net := gateNet_wf p.g gtn hgn
  have hginv : C08.Inv (rerefNet p.ref0 gtn.net) := inv_reref ((C08.C08_inv_iff_wf _).mpr hgwf)
  obtain ⟨_, hgsh⟩ := hg.two gtn hgn
  obtain ⟨vb, hvb⟩ := hgwf.virt_get
  have hvb' : dget (rerefNet p.ref0 gtn.net).tensors (-1) = some (rerefTensor p.ref0 vb) := by
    rw [dget_reref, hvb]; rfl
  have hsb0 : vb.shape = rep2 (2 * p.g.wires) := by
    unfold netShape virt at hgsh; rw [hvb] at hgsh; exact Except.ok.inj hgsh
  have hsb : (rerefTensor p.ref0 vb).shape = rep2 (2 * iwire.length) := by
    simp only [rerefTensor, hsb0, hlen, hg.arity]
  have hno : numOpenAxes (rerefTN p.ref0 gtn).net = .ok (2 * p.particles.length) := by
    rw [rerefTN_net, numOpenAxes_eq hvb', hsb, length_rep2, hlen]
  obtain ⟨va, hva, hsa⟩ := hst.shape
  have ho := hord gtn hgn
  rw [rerefTN_net] at ho
  -- the symbolic step
  obtain ⟨net', perm, net'', hm, hperm, htr, hsl'⟩ := step_total hst.inv hginv ho hva hvb' hsa hsb hnd hr
    (realRef_reref p.ref0 (gateNet_realRef p.g gtn hgn)) hsl
  have hcl : dataClash tn.data (rerefTN p.ref0 gtn).data = false :=
    dataClash_false_of (fun k d d' h1 h2 => hdata k d d' h1 (by rw [hgd]; exact h2))
  have hj : iwire.zip (irange' p.particles.length p.particles.length) = joinOf iwire := by
    simp [joinOf, hlen]
  have hmt := mergeTN_eq_ok (self := tn) (other := rerefTN p.ref0 gtn) (join := joinOf iwire)
    (by rw [rerefTN_net]; exact ho) (by rw [rerefTN_net]; exact hm) hcl
  rw [← hj] at hmt
  have hcore := gateStepCore_eq_ok (n := numWires fields) hneg hgn hno hmt hperm htr
  have hcd := gateStepCore_consistentData hst hcore hg.two hg.fresh
  obtain ⟨h1, h2, _⟩ := gateStepCore_state hst.inv hst.shape hcore hg.two
  refine ⟨_, ?_, ⟨h1, h2, hcd⟩, hsl', by rw [hgd]⟩
  simp only [gateStep, hcore, bind, Except.bind, assertConsistent, hcd, liftT, Bool.not_true, Bool.false_eq_true,
    if_false, pure, Except.pure]

/-- with set orders that are not permutations of the shared ids the model stops with its protocol error `badOrder` –
every check of the code before the `merge` has passed -/
theorem gateStep_badOrder {fields : List FieldSpec} {tn : TN α} {p : PGate α} (hg : GateTot fields p)
    (hbad : ∀ gtn, gateNet p.g = .ok gtn → ¬ C08.OrdersOK tn.net (rerefTN p.ref0 gtn).net p.tor p.bor) :
    gateStep fields (numWires fields) tn p = .error .badOrder := by
  obtain ⟨gtn, hgn⟩ := hg.offers
  obtain ⟨hnd, hr⟩ := wires_of_wellPlaced hg.placed
  have hneg : (p.particles.map (mapParticleToWire fields)).any (· < 0) = false := by
    rw [List.any_eq_false]
    intro x hx
    have := (hr x hx).1
    simp only [decide_eq_true_eq]; omega
  have hgwf : WF gtn.net := gateNet_wf p.g gtn hgn
  obtain ⟨_, hgsh⟩ := hg.two gtn hgn
  obtain ⟨vb, hvb⟩ := hgwf.virt_get
  have hvb' : dget (rerefNet p.ref0 gtn.net).tensors (-1) = some (rerefTensor p.ref0 vb) := by
    rw [dget_reref, hvb]; rfl
  have hsb0 : vb.shape = rep2 (2 * p.g.wires) := by
    unfold netShape virt at hgsh; rw [hvb] at hgsh; exact Except.ok.inj hgsh
  have hno : numOpenAxes (rerefTN p.ref0 gtn).net = .ok (2 * p.particles.length) := by
    rw [rerefTN_net, numOpenAxes_eq hvb']
    simp only [rerefTensor, hsb0, length_rep2, hg.arity]
  have hb : (isPermOf p.tor (sharedTids tn.net (rerefTN p.ref0 gtn).net) &&
      isPermOf p.bor (sharedBids tn.net (rerefTN p.ref0 gtn).net)) = false := by
    by_contra hcon
    have hcon' := (Bool.not_eq_false _).mp hcon
    rw [Bool.and_eq_true] at hcon'
    exact hbad gtn hgn ⟨isPermOf_perm hcon'.1, isPermOf_perm hcon'.2⟩
  have hmt : ∀ J, mergeTN tn (rerefTN p.ref0 gtn) J p.tor p.bor = .error .badOrder := by
    intro J
    unfold mergeTN
    simp only [hb, Bool.not_false, if_true, bind, Except.bind]
    rfl
  unfold gateStep gateStepCore
  simp only [bind, Except.bind, hneg, Bool.false_eq_true, if_false, hgn, liftG, hno, liftT, bne_self_eq_false, hmt]

/-- **the loop returns**, by induction over the instruction list -/
theorem circuitLoop_total {fields : List FieldSpec} (all : List (CInstr α)) (hcompat : DataCompat all) :
    ∀ (instrs : List (CInstr α)) (tn : TN α), StateOK (numWires fields) tn → SlackOK (numWires fields) tn.net →
      DataFrom all tn → (∀ p, CInstr.gate p ∈ instrs → CInstr.gate p ∈ all) →
      (∀ p, CInstr.gate p ∈ instrs → GateTot fields p) → OrdersAdm fields (numWires fields) tn instrs →
      ∃ tn', circuitLoop fields (numWires fields) tn instrs = .ok tn' ∧ StateOK (numWires fields) tn' ∧
        SlackOK (numWires fields) tn'.net ∧ DataFrom all tn' := by
  intro instrs
  induction instrs with
  | nil =>
    intro tn hst hsl hdf _ _ _
    exact ⟨tn, rfl, hst, hsl, hdf⟩
  | cons ins rest ih =>
    intro tn hst hsl hdf hsub hg hord
    cases ins with
    | ctrl =>
      simp only [circuitLoop]
      exact ih tn hst hsl hdf (fun p hp => hsub p (List.mem_cons_of_mem _ hp))
        (fun p hp => hg p (List.mem_cons_of_mem _ hp)) hord
    | gate p =>
      obtain ⟨ho1, ho2⟩ := hord
      have hpall := hsub p List.mem_cons_self
      obtain ⟨tn1, hs, hst1, hsl1, hd1⟩ := gateStep_total hst hsl (hg p List.mem_cons_self) ho1
        (fun k d d' h1 h2 => by
          obtain ⟨q, hq, hqe⟩ := hdf (k, d) h1
          exact hcompat q p hq hpall k d d' hqe h2)
      have hdf1 : DataFrom all tn1 := by
        intro e he
        rw [hd1] at he
        rcases mem_dupdate he with h | h
        · exact hdf e h
        · exact ⟨p, hpall, h⟩
      obtain ⟨tn', hl, hst', hsl', hdf'⟩ := ih tn1 hst1 hsl1 hdf1 (fun q hq => hsub q (List.mem_cons_of_mem _ hq))
        (fun q hq => hg q (List.mem_cons_of_mem _ hq)) (ho2 tn1 hs)
      refine ⟨tn', ?_, hst', hsl', hdf'⟩
      simp only [circuitLoop, hs]
      exact hl

/-- **whatever orders are handed over, the loop returns or stops with `badOrder`** – never with a Python exception -/
theorem circuitLoop_total_or_badOrder {fields : List FieldSpec} (all : List (CInstr α)) (hcompat : DataCompat all) :
    ∀ (instrs : List (CInstr α)) (tn : TN α), StateOK (numWires fields) tn → SlackOK (numWires fields) tn.net →
      DataFrom all tn → (∀ p, CInstr.gate p ∈ instrs → CInstr.gate p ∈ all) →
      (∀ p, CInstr.gate p ∈ instrs → GateTot fields p) →
      (∃ tn', circuitLoop fields (numWires fields) tn instrs = .ok tn' ∧ StateOK (numWires fields) tn' ∧
        SlackOK (numWires fields) tn'.net ∧ DataFrom all tn') ∨
      circuitLoop fields (numWires fields) tn instrs = .error .badOrder := by
  intro instrs
  induction instrs with
  | nil =>
    intro tn hst hsl hdf _ _
    exact Or.inl ⟨tn, rfl, hst, hsl, hdf⟩
  | cons ins rest ih =>
    intro tn hst hsl hdf hsub hg
    cases ins with
    | ctrl =>
      simp only [circuitLoop]
      exact ih tn hst hsl hdf (fun p hp => hsub p (List.mem_cons_of_mem _ hp))
        (fun p hp => hg p (List.mem_cons_of_mem _ hp))
    | gate p =>
      have hpall := hsub p List.mem_cons_self
      have hgp := hg p List.mem_cons_self
      by_cases hord : ∀ gtn, gateNet p.g = .ok gtn → C08.OrdersOK tn.net (rerefTN p.ref0 gtn).net p.tor p.bor
      · obtain ⟨tn1, hs, hst1, hsl1, hd1⟩ := gateStep_total hst hsl hgp hord
          (fun k d d' h1 h2 => by
            obtain ⟨q, hq, hqe⟩ := hdf (k, d) h1
            exact hcompat q p hq hpall k d d' hqe h2)
        have hdf1 : DataFrom all tn1 := by
          intro e he
          rw [hd1] at he
          rcases mem_dupdate he with h | h
          · exact hdf e h
          · exact ⟨p, hpall, h⟩
        simp only [circuitLoop, hs]
        exact ih tn1 hst1 hsl1 hdf1 (fun q hq => hsub q (List.mem_cons_of_mem _ hq))
          (fun q hq => hg q (List.mem_cons_of_mem _ hq))
      · right
        obtain ⟨gtn, hgn⟩ := hgp.offers
        have hbad : ∀ gtn', gateNet p.g = .ok gtn' → ¬ C08.OrdersOK tn.net (rerefTN p.ref0 gtn').net p.tor p.bor := by
          intro gtn' hgn' hok
          apply hord
          intro gtn'' hgn''
          rw [hgn'] at hgn''; cases hgn''
          exact hok
        simp only [circuitLoop, gateStep_badOrder hgp hbad]

end Loop

end Qib.CircuitNet
